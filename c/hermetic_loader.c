// hermetic_loader: run-time observation of a Wuffs shared object (property C10).
//
// Everything reported here is read from the LOADED image inside this running
// process (dl_iterate_phdr, the PT_DYNAMIC of the dlopen'ed object,
// /proc/self/maps) or is an event of an execution (allocator calls seen by the
// interposed allocator below, the kernel killing the process in seccomp strict
// mode, memcmp around pure calls). No nm/objdump/readelf output is involved.
//
//   hermetic_loader inspect <target.so> [dep.so ...]
//       dlopen (RTLD_NOW; the objects are linked -z relro -z now, so a
//       successful load means every import was bound) the deps, then the
//       target; print JSON lines: segments, PT_TLS, every dynamic symbol
//       (undefined ones and defined GLOBAL/WEAK ones), and an allocator probe
//       of every exported *__alloc function (who called calloc/free?).
//
//   hermetic_loader decode <iface> <pkg> <struct> <purelist|-> <input> <target.so> [dep.so ...]
//       load as above, hash the writable non-RELRO bytes of every loaded Wuffs
//       object, read the input, pre-allocate every buffer, dlsym the entry
//       points, enter prctl(PR_SET_SECCOMP, SECCOMP_MODE_STRICT), run the
//       decode workload (calling the struct's pure methods after every
//       coroutine call and memcmp-ing receiver and buffers around them),
//       re-hash the segments, write one JSON line to fd 1 with write(2) and
//       leave through the raw SYS_exit. Any system call other than
//       read/write/exit/sigreturn made by the library gets the process
//       SIGKILLed by the kernel. HERMETIC_NO_SECCOMP=1 skips the prctl (for
//       debugging only).
//
// The process-wide allocator is replaced by a bump allocator over one arena
// mapped at start-up, so (i) no allocation of the loader itself can make a
// system call inside strict mode, and (ii) every malloc/calloc/realloc/free
// call made while `g_watch` is set is recorded with its return address, which
// is how "allocator calls outside *__alloc" are seen even when they would have
// been served from an already mapped heap without any system call.
//
// Compiled by internal/props/c10.go:
//   gcc -O1 -w -DWUFFS_C_PATH="<release C>" -o hermetic_loader hermetic_loader.c -ldl -Wl,-z,now

#define _GNU_SOURCE
#include <dlfcn.h>
#include <elf.h>
#include <errno.h>
#include <fcntl.h>
#include <link.h>
#include <linux/seccomp.h>
#include <stdbool.h>
#include <stddef.h>
#include <stdint.h>
#include <string.h>
#include <sys/mman.h>
#include <sys/prctl.h>
#include <sys/stat.h>
#include <sys/syscall.h>
#include <unistd.h>

// The release C is used as a header only (no WUFFS_IMPLEMENTATION): types and
// static inline accessors. Every entry point is reached through dlsym.
#include WUFFS_C_PATH

// ---------------------------------------------------------------- allocator

#define ARENA_BYTES ((size_t)3 << 30)
static uint8_t* g_arena = NULL;
static size_t g_arena_off = 0;

static volatile int g_watch = 0;
#define MAXAEV 64
typedef struct {
  const char* fn;
  void* caller;
} aev_t;
static aev_t g_aev[MAXAEV];
static volatile long g_naev = 0;

static void die_raw(const char* m) {
  write(2, m, strlen(m));
  syscall(SYS_exit, 4);
}

static void arena_init(void) {
  if (g_arena) return;
  void* p = mmap(NULL, ARENA_BYTES, PROT_READ | PROT_WRITE, MAP_PRIVATE | MAP_ANONYMOUS | MAP_NORESERVE, -1, 0);
  if (p == MAP_FAILED) die_raw("hermetic_loader: cannot map the arena\n");
  g_arena = (uint8_t*)p;
}

static inline void note_alloc(const char* fn, void* caller) {
  if (!g_watch) return;
  long n = g_naev++;
  if (n < MAXAEV) {
    g_aev[n].fn = fn;
    g_aev[n].caller = caller;
  }
}

// Blocks carry a 16-byte header holding their size; memory is never reused, so
// a fresh block is always zero (anonymous mapping).
static void* bump(size_t n, size_t align) {
  arena_init();
  if (align < 16) align = 16;
  size_t off = g_arena_off + 16;
  off = (off + align - 1) & ~(align - 1);
  if (n > ARENA_BYTES || off + n > ARENA_BYTES) {
    errno = ENOMEM;
    return NULL;
  }
  *(size_t*)(g_arena + off - 16) = n;
  g_arena_off = off + n;
  return g_arena + off;
}

void* malloc(size_t n) {
  note_alloc("malloc", __builtin_return_address(0));
  return bump(n, 16);
}
void* calloc(size_t a, size_t b) {
  note_alloc("calloc", __builtin_return_address(0));
  if (b && a > (size_t)-1 / b) {
    errno = ENOMEM;
    return NULL;
  }
  return bump(a * b, 16);
}
void free(void* p) {
  note_alloc("free", __builtin_return_address(0));
  (void)p;
}
void* realloc(void* p, size_t n) {
  note_alloc("realloc", __builtin_return_address(0));
  void* q = bump(n, 16);
  if (p && q) {
    size_t old = *(size_t*)((uint8_t*)p - 16);
    memcpy(q, p, old < n ? old : n);
  }
  return q;
}
void* memalign(size_t al, size_t n) {
  note_alloc("memalign", __builtin_return_address(0));
  return bump(n, al);
}
void* aligned_alloc(size_t al, size_t n) {
  note_alloc("aligned_alloc", __builtin_return_address(0));
  return bump(n, al);
}
int posix_memalign(void** out, size_t al, size_t n) {
  note_alloc("posix_memalign", __builtin_return_address(0));
  void* p = bump(n, al);
  if (!p) return ENOMEM;
  *out = p;
  return 0;
}
void* valloc(size_t n) {
  note_alloc("valloc", __builtin_return_address(0));
  return bump(n, 4096);
}
size_t malloc_usable_size(void* p) { return p ? *(size_t*)((uint8_t*)p - 16) : 0; }

// ---------------------------------------------------------------- output (no stdio)

static char g_ob[1 << 16];
static size_t g_on = 0;

static void o_flush(void) {
  size_t off = 0;
  while (off < g_on) {
    ssize_t k = write(1, g_ob + off, g_on - off);
    if (k <= 0) break;
    off += (size_t)k;
  }
  g_on = 0;
}
static void o_c(char c) {
  if (g_on == sizeof g_ob) o_flush();
  g_ob[g_on++] = c;
}
static void o_s(const char* s) {
  while (*s) o_c(*s++);
}
static void o_u(uint64_t v) {
  char t[24];
  int n = 0;
  do {
    t[n++] = (char)('0' + v % 10);
    v /= 10;
  } while (v);
  while (n) o_c(t[--n]);
}
static void o_x(uint64_t v) {
  static const char* hx = "0123456789abcdef";
  o_c('"');
  for (int i = 60; i >= 0; i -= 4) o_c(hx[(v >> i) & 15]);
  o_c('"');
}
static void o_js(const char* s) {
  static const char* hx = "0123456789abcdef";
  if (!s) {
    o_s("null");
    return;
  }
  o_c('"');
  for (; *s; s++) {
    unsigned char c = (unsigned char)*s;
    if (c == '"' || c == '\\') {
      o_c('\\');
      o_c((char)c);
    } else if (c < 0x20 || c >= 0x7f) {
      o_s("\\u00");
      o_c(hx[c >> 4]);
      o_c(hx[c & 15]);
    } else {
      o_c((char)c);
    }
  }
  o_c('"');
}
static void o_b(bool b) { o_s(b ? "true" : "false"); }

static void fail(const char* what, const char* detail) {
  o_s("{\"ev\":\"loader-error\",\"what\":");
  o_js(what);
  o_s(",\"detail\":");
  o_js(detail);
  o_s("}\n");
  o_flush();
  syscall(SYS_exit_group, 3);
}

#define FNV_INIT 0xcbf29ce484222325ull
static uint64_t fnv1a(uint64_t h, const uint8_t* p, size_t n) {
  for (size_t i = 0; i < n; i++) {
    h ^= p[i];
    h *= 0x100000001b3ull;
  }
  return h;
}

// ---------------------------------------------------------------- loaded objects

#define MAXPH 24
typedef struct {
  const char* path;  // as given
  void* handle;
  struct link_map* lm;
  ElfW(Addr) base;
  bool found;
  int nph;
  ElfW(Phdr) ph[MAXPH];
  // derived
  ElfW(Addr) relro_lo, relro_hi;  // page-rounded range ld.so made read-only
  bool has_relro;
  bool has_tls;
  uint64_t tls_memsz;
  const ElfW(Dyn) * dyn;
  const ElfW(Sym) * symtab;
  const char* strtab;
  size_t nsyms;
  const char* count_from;
} lobj_t;

#define MAXOBJ 48
static lobj_t g_obj[MAXOBJ];
static int g_nobj = 0;

static int phdr_cb(struct dl_phdr_info* info, size_t size, void* data) {
  (void)size;
  (void)data;
  for (int i = 0; i < g_nobj; i++) {
    lobj_t* o = &g_obj[i];
    if (o->found || !o->lm) continue;
    if (info->dlpi_addr != o->lm->l_addr) continue;
    if (!info->dlpi_name || strcmp(info->dlpi_name, o->lm->l_name)) continue;
    o->found = true;
    o->base = info->dlpi_addr;
    o->nph = info->dlpi_phnum < MAXPH ? info->dlpi_phnum : MAXPH;
    for (int k = 0; k < o->nph; k++) o->ph[k] = info->dlpi_phdr[k];
  }
  return 0;
}

static ElfW(Addr) fix(const lobj_t* o, ElfW(Addr) p) {
  // glibc relocates the d_ptr entries of a writable dynamic section in place;
  // accept either form.
  return p < o->base ? p + o->base : p;
}

static void derive(lobj_t* o) {
  long pg = sysconf(_SC_PAGESIZE);
  for (int k = 0; k < o->nph; k++) {
    const ElfW(Phdr)* p = &o->ph[k];
    if (p->p_type == PT_GNU_RELRO) {
      ElfW(Addr) s = o->base + p->p_vaddr, e = s + p->p_memsz;
      o->relro_lo = s & ~(ElfW(Addr))(pg - 1);
      o->relro_hi = e & ~(ElfW(Addr))(pg - 1);
      o->has_relro = true;
    } else if (p->p_type == PT_TLS) {
      o->has_tls = true;
      o->tls_memsz = p->p_memsz;
    } else if (p->p_type == PT_DYNAMIC) {
      o->dyn = (const ElfW(Dyn)*)(o->base + p->p_vaddr);
    }
  }
  if (!o->dyn) return;
  const uint32_t* hash = NULL;
  const uint32_t* gnuhash = NULL;
  for (const ElfW(Dyn)* d = o->dyn; d->d_tag != DT_NULL; d++) {
    switch (d->d_tag) {
      case DT_SYMTAB: o->symtab = (const ElfW(Sym)*)fix(o, d->d_un.d_ptr); break;
      case DT_STRTAB: o->strtab = (const char*)fix(o, d->d_un.d_ptr); break;
      case DT_HASH: hash = (const uint32_t*)fix(o, d->d_un.d_ptr); break;
      case DT_GNU_HASH: gnuhash = (const uint32_t*)fix(o, d->d_un.d_ptr); break;
      default: break;
    }
  }
  if (hash) {
    o->nsyms = hash[1];  // nchain == number of symbol table entries
    o->count_from = "DT_HASH";
  } else if (gnuhash) {
    uint32_t nbuckets = gnuhash[0], symoffset = gnuhash[1], bloom = gnuhash[2];
    const uint32_t* buckets = (const uint32_t*)((const ElfW(Addr)*)(gnuhash + 4) + bloom);
    const uint32_t* chains = buckets + nbuckets;
    uint32_t max = 0;
    for (uint32_t b = 0; b < nbuckets; b++)
      if (buckets[b] > max) max = buckets[b];
    if (max < symoffset) {
      o->nsyms = symoffset;
    } else {
      uint32_t i = max;
      while (!(chains[i - symoffset] & 1)) i++;
      o->nsyms = (size_t)i + 1;
    }
    o->count_from = "DT_GNU_HASH";
  }
}

static bool in_nonrelro_writable(const lobj_t* o, ElfW(Addr) a) {
  for (int k = 0; k < o->nph; k++) {
    const ElfW(Phdr)* p = &o->ph[k];
    if (p->p_type != PT_LOAD || !(p->p_flags & PF_W)) continue;
    ElfW(Addr) s = o->base + p->p_vaddr, e = s + p->p_memsz;
    if (a >= s && a < e) return !(o->has_relro && a >= o->relro_lo && a < o->relro_hi);
  }
  return false;
}

// Hash of (and number of) the bytes of writable PT_LOADs outside the RELRO range.
static uint64_t hash_nonrelro(const lobj_t* o, uint64_t* nbytes) {
  uint64_t h = FNV_INIT, n = 0;
  for (int k = 0; k < o->nph; k++) {
    const ElfW(Phdr)* p = &o->ph[k];
    if (p->p_type != PT_LOAD || !(p->p_flags & PF_W)) continue;
    ElfW(Addr) s = o->base + p->p_vaddr, e = s + p->p_memsz;
    ElfW(Addr) a = s;
    while (a < e) {
      if (o->has_relro && a >= o->relro_lo && a < o->relro_hi) {
        a = o->relro_hi;
        continue;
      }
      ElfW(Addr) stop = e;
      if (o->has_relro && a < o->relro_lo && o->relro_lo < e) stop = o->relro_lo;
      h = fnv1a(h, (const uint8_t*)a, (size_t)(stop - a));
      n += stop - a;
      a = stop;
    }
  }
  if (nbytes) *nbytes = n;
  return h;
}

// /proc/self/maps, read once before strict mode: the page protections the
// kernel actually applies.
static char g_maps[1 << 18];
static size_t g_maps_n = 0;

static void read_maps(void) {
  int fd = open("/proc/self/maps", O_RDONLY);
  if (fd < 0) return;
  g_maps_n = 0;
  for (;;) {
    ssize_t k = read(fd, g_maps + g_maps_n, sizeof g_maps - 1 - g_maps_n);
    if (k <= 0) break;
    g_maps_n += (size_t)k;
  }
  g_maps[g_maps_n] = 0;
  close(fd);
}

static uint64_t hexv(const char** pp) {
  uint64_t v = 0;
  const char* p = *pp;
  for (;; p++) {
    int c = *p;
    if (c >= '0' && c <= '9')
      v = v * 16 + (uint64_t)(c - '0');
    else if (c >= 'a' && c <= 'f')
      v = v * 16 + (uint64_t)(c - 'a' + 10);
    else
      break;
  }
  *pp = p;
  return v;
}

// Returns 'w' if the page holding a is mapped writable, 'r' if mapped
// read-only, '?' if not found.
static char maps_perm(uint64_t a) {
  const char* p = g_maps;
  while (*p) {
    uint64_t lo = hexv(&p);
    if (*p != '-') break;
    p++;
    uint64_t hi = hexv(&p);
    if (*p != ' ') break;
    p++;
    char w = p[1];
    if (a >= lo && a < hi) return w == 'w' ? 'w' : 'r';
    while (*p && *p != '\n') p++;
    if (*p == '\n') p++;
  }
  return '?';
}

// Number of bytes in [lo,hi) whose page is mapped writable.
static uint64_t maps_writable_bytes(uint64_t lo, uint64_t hi) {
  uint64_t n = 0;
  const char* p = g_maps;
  while (*p) {
    uint64_t mlo = hexv(&p);
    if (*p != '-') break;
    p++;
    uint64_t mhi = hexv(&p);
    if (*p != ' ') break;
    p++;
    char w = p[1];
    if (w == 'w') {
      uint64_t a = mlo > lo ? mlo : lo, b = mhi < hi ? mhi : hi;
      if (a < b) n += b - a;
    }
    while (*p && *p != '\n') p++;
    if (*p == '\n') p++;
  }
  return n;
}

static void load_all(int n, char** paths) {
  // paths[0] is the target, the rest are its dependencies in load order.
  if (n > MAXOBJ) fail("too many objects", "");
  for (int i = n - 1; i >= 0; i--) {
    int slot = g_nobj++;
    lobj_t* o = &g_obj[slot];
    memset(o, 0, sizeof *o);
    o->path = paths[i];
    o->handle = dlopen(paths[i], RTLD_NOW | RTLD_GLOBAL);
    if (!o->handle) {
      const char* e = dlerror();
      o_s("{\"ev\":\"dlopen-failed\",\"lib\":");
      o_js(paths[i]);
      o_s(",\"target\":");
      o_b(i == 0);
      o_s(",\"err\":");
      o_js(e ? e : "?");
      o_s("}\n");
      o_flush();
      syscall(SYS_exit_group, 5);
    }
    if (dlinfo(o->handle, RTLD_DI_LINKMAP, &o->lm) != 0) fail("dlinfo", paths[i]);
  }
  dl_iterate_phdr(phdr_cb, NULL);
  for (int i = 0; i < g_nobj; i++) {
    if (!g_obj[i].found) fail("object not found by dl_iterate_phdr", g_obj[i].path);
    derive(&g_obj[i]);
  }
  read_maps();
}

static lobj_t* target(void) { return &g_obj[g_nobj - 1]; }

static const char* sym_containing(const lobj_t* o, ElfW(Addr) a, uint64_t* off) {
  for (size_t i = 1; i < o->nsyms; i++) {
    const ElfW(Sym)* s = &o->symtab[i];
    if (s->st_shndx == SHN_UNDEF || ELF64_ST_TYPE(s->st_info) != STT_FUNC) continue;
    ElfW(Addr) v = o->base + s->st_value;
    if (a >= v && a < v + (s->st_size ? s->st_size : 1)) {
      if (off) *off = a - v;
      return o->strtab + s->st_name;
    }
  }
  return NULL;
}

static const lobj_t* obj_containing(ElfW(Addr) a) {
  for (int i = 0; i < g_nobj; i++) {
    const lobj_t* o = &g_obj[i];
    for (int k = 0; k < o->nph; k++) {
      const ElfW(Phdr)* p = &o->ph[k];
      if (p->p_type != PT_LOAD) continue;
      ElfW(Addr) s = o->base + p->p_vaddr;
      if (a >= s && a < s + p->p_memsz) return o;
    }
  }
  return NULL;
}

static const char* base_name(const char* p) {
  const char* b = p;
  for (; *p; p++)
    if (*p == '/') b = p + 1;
  return b;
}

static void print_alloc_events(void) {
  o_c('[');
  long n = g_naev < MAXAEV ? g_naev : MAXAEV;
  for (long i = 0; i < n; i++) {
    if (i) o_c(',');
    ElfW(Addr) a = (ElfW(Addr))g_aev[i].caller;
    const lobj_t* o = obj_containing(a);
    uint64_t off = 0;
    const char* s = o ? sym_containing(o, a, &off) : NULL;
    o_s("{\"fn\":");
    o_js(g_aev[i].fn);
    o_s(",\"obj\":");
    o_js(o ? base_name(o->path) : NULL);
    o_s(",\"caller\":");
    o_js(s);
    o_s(",\"obj_off\":");
    o_u(o ? a - o->base : 0);
    o_c('}');
  }
  o_c(']');
}

// ---------------------------------------------------------------- inspect

static bool has_suffix(const char* s, const char* suf) {
  size_t a = strlen(s), b = strlen(suf);
  return a >= b && !strcmp(s + a - b, suf);
}

static void print_segments(const lobj_t* o, const char* ev) {
  long pg = sysconf(_SC_PAGESIZE);
  for (int k = 0; k < o->nph; k++) {
    const ElfW(Phdr)* p = &o->ph[k];
    if (p->p_type != PT_LOAD) continue;
    ElfW(Addr) s = o->base + p->p_vaddr, e = s + p->p_memsz;
    bool w = (p->p_flags & PF_W) != 0;
    uint64_t relro = 0;
    if (w && o->has_relro) {
      ElfW(Addr) a = s > o->relro_lo ? s : o->relro_lo, b = e < o->relro_hi ? e : o->relro_hi;
      if (a < b) relro = b - a;
    }
    o_s("{\"ev\":");
    o_js(ev);
    o_s(",\"obj\":");
    o_js(base_name(o->path));
    o_s(",\"idx\":");
    o_u((uint64_t)k);
    o_s(",\"flags\":\"");
    o_c((p->p_flags & PF_R) ? 'r' : '-');
    o_c(w ? 'w' : '-');
    o_c((p->p_flags & PF_X) ? 'x' : '-');
    o_s("\",\"memsz\":");
    o_u(p->p_memsz);
    o_s(",\"filesz\":");
    o_u(p->p_filesz);
    o_s(",\"writable\":");
    o_b(w);
    if (w) {
      o_s(",\"relro_bytes\":");
      o_u(relro);
      o_s(",\"nonrelro_bytes\":");
      o_u(p->p_memsz - relro);
      // what the kernel says about the pages of this segment right now
      ElfW(Addr) ps = s & ~(ElfW(Addr))(pg - 1), pe = (e + pg - 1) & ~(ElfW(Addr))(pg - 1);
      o_s(",\"maps_writable_page_bytes\":");
      o_u(maps_writable_bytes(ps, pe));
      // bytes of [s,e) on pages the kernel maps writable
      o_s(",\"maps_writable_seg_bytes\":");
      o_u(maps_writable_bytes(s, e));
    } else {
      o_s(",\"maps_writable_seg_bytes\":");
      o_u(maps_writable_bytes(s, e));
    }
    o_s("}\n");
  }
}

static int do_inspect(int n, char** paths) {
  load_all(n, paths);
  lobj_t* o = target();
  o_s("{\"ev\":\"loaded\",\"obj\":");
  o_js(base_name(o->path));
  o_s(",\"deps\":");
  o_u((uint64_t)(g_nobj - 1));
  o_s(",\"base\":");
  o_x(o->base);
  o_s(",\"phnum\":");
  o_u((uint64_t)o->nph);
  o_s(",\"relro\":");
  o_b(o->has_relro);
  o_s(",\"bind_now\":");
  {
    bool now = false;
    if (o->dyn)
      for (const ElfW(Dyn)* d = o->dyn; d->d_tag != DT_NULL; d++) {
        if (d->d_tag == DT_FLAGS && (d->d_un.d_val & DF_BIND_NOW)) now = true;
        if (d->d_tag == DT_FLAGS_1 && (d->d_un.d_val & DF_1_NOW)) now = true;
        if (d->d_tag == DT_BIND_NOW) now = true;
      }
    o_b(now);
  }
  o_s("}\n");
  print_segments(o, "segment");
  {
    uint64_t nb = 0;
    uint64_t h = hash_nonrelro(o, &nb);
    o_s("{\"ev\":\"writable\",\"obj\":");
    o_js(base_name(o->path));
    o_s(",\"nonrelro_bytes\":");
    o_u(nb);
    o_s(",\"hash\":");
    o_x(h);
    o_s(",\"tls\":");
    o_b(o->has_tls);
    o_s(",\"tls_memsz\":");
    o_u(o->tls_memsz);
    o_s("}\n");
  }
  if (!o->symtab || !o->strtab || !o->count_from) fail("no dynamic symbol table", o->path);
  uint64_t nundef = 0, ndef = 0;
  for (size_t i = 1; i < o->nsyms; i++) {
    const ElfW(Sym)* s = &o->symtab[i];
    int bind = ELF64_ST_BIND(s->st_info), type = ELF64_ST_TYPE(s->st_info);
    const char* name = o->strtab + s->st_name;
    const char* bn = bind == STB_GLOBAL ? "global" : bind == STB_WEAK ? "weak" : bind == STB_LOCAL ? "local" : "other";
    const char* tn = type == STT_FUNC        ? "func"
                     : type == STT_OBJECT    ? "object"
                     : type == STT_NOTYPE    ? "notype"
                     : type == STT_TLS       ? "tls"
                     : type == STT_GNU_IFUNC ? "ifunc"
                     : type == STT_COMMON    ? "common"
                     : type == STT_SECTION   ? "section"
                                             : "other";
    if (s->st_shndx == SHN_UNDEF) {
      nundef++;
      o_s("{\"ev\":\"undef\",\"name\":");
      o_js(name);
      o_s(",\"bind\":");
      o_js(bn);
      o_s(",\"type\":");
      o_js(tn);
      o_s("}\n");
      continue;
    }
    if (bind != STB_GLOBAL && bind != STB_WEAK) continue;
    ndef++;
    o_s("{\"ev\":\"def\",\"name\":");
    o_js(name);
    o_s(",\"bind\":");
    o_js(bn);
    o_s(",\"type\":");
    o_js(tn);
    o_s(",\"size\":");
    o_u(s->st_size);
    if (type == STT_OBJECT || type == STT_COMMON || type == STT_NOTYPE) {
      ElfW(Addr) a = o->base + s->st_value;
      bool w = s->st_shndx != SHN_ABS && in_nonrelro_writable(o, a);
      if (!w && s->st_size > 1 && s->st_shndx != SHN_ABS) w = in_nonrelro_writable(o, a + s->st_size - 1);
      char mp[2] = {s->st_shndx == SHN_ABS ? '?' : maps_perm(a), 0};
      o_s(",\"writable\":");
      o_b(w);
      o_s(",\"maps\":");
      o_js(mp);
    }
    o_s("}\n");
  }
  o_s("{\"ev\":\"symtab\",\"count\":");
  o_u(o->nsyms ? o->nsyms - 1 : 0);
  o_s(",\"count_from\":");
  o_js(o->count_from);
  o_s(",\"undef\":");
  o_u(nundef);
  o_s(",\"def\":");
  o_u(ndef);
  o_s("}\n");
  // Allocator probe: call every exported <x>__alloc(void) and see who called
  // the allocator.
  for (size_t i = 1; i < o->nsyms; i++) {
    const ElfW(Sym)* s = &o->symtab[i];
    if (s->st_shndx == SHN_UNDEF || ELF64_ST_TYPE(s->st_info) != STT_FUNC) continue;
    const char* name = o->strtab + s->st_name;
    if (strncmp(name, "wuffs_", 6) || !has_suffix(name, "__alloc")) continue;
    void* (*fn)(void) = (void* (*)(void))(o->base + s->st_value);
    g_naev = 0;
    g_watch = 1;
    void* p = fn();
    g_watch = 0;
    o_s("{\"ev\":\"alloc-probe\",\"fn\":");
    o_js(name);
    o_s(",\"nonnull\":");
    o_b(p != NULL);
    o_s(",\"calls\":");
    o_u((uint64_t)g_naev);
    o_s(",\"events\":");
    print_alloc_events();
    o_s("}\n");
  }
  o_s("{\"ev\":\"inspect-done\"}\n");
  o_flush();
  return 0;
}

// ---------------------------------------------------------------- decode workload

typedef wuffs_base__status (*fn_init)(void*, size_t, uint64_t, uint32_t);
typedef size_t (*fn_sizeof)(void);
typedef wuffs_base__status (*fn_transform_io)(void*, wuffs_base__io_buffer*, wuffs_base__io_buffer*, wuffs_base__slice_u8);
typedef wuffs_base__status (*fn_dic)(void*, wuffs_base__image_config*, wuffs_base__io_buffer*);
typedef wuffs_base__status (*fn_dfc)(void*, wuffs_base__frame_config*, wuffs_base__io_buffer*);
typedef wuffs_base__status (*fn_df)(void*, wuffs_base__pixel_buffer*, wuffs_base__io_buffer*, wuffs_base__pixel_blend, wuffs_base__slice_u8,
                                    wuffs_base__decode_frame_options*);
typedef wuffs_base__status (*fn_dtok)(void*, wuffs_base__token_buffer*, wuffs_base__io_buffer*, wuffs_base__slice_u8);
typedef uint32_t (*fn_up32)(void*, wuffs_base__slice_u8);
typedef uint64_t (*fn_up64)(void*, wuffs_base__slice_u8);
typedef wuffs_base__bitvec256 (*fn_up256)(void*, wuffs_base__slice_u8);

// pure method signature classes
typedef uint64_t (*pf_u64_u32)(const void*, uint32_t);
typedef uint64_t (*pf_u64)(const void*);
typedef uint32_t (*pf_u32)(const void*);
typedef wuffs_base__range_ii_u64 (*pf_range)(const void*);
typedef wuffs_base__rect_ie_u32 (*pf_rect)(const void*);
typedef wuffs_base__optional_u63 (*pf_opt)(const void*);
typedef wuffs_base__bitvec256 (*pf_bv)(const void*);

enum { PS_U64_U32, PS_U64, PS_U32, PS_RANGE, PS_RECT, PS_OPT, PS_BV };
static const struct {
  const char* name;
  int sig;
} g_pure_sigs[] = {
    {"get_quirk", PS_U64_U32},
    {"workbuf_len", PS_RANGE},
    {"frame_dirty_rect", PS_RECT},
    {"num_animation_loops", PS_U32},
    {"num_decoded_frame_configs", PS_U64},
    {"num_decoded_frames", PS_U64},
    {"dst_history_retain_length", PS_OPT},
    {"checksum_u32", PS_U32},
    {"checksum_u64", PS_U64},
    {"checksum_bitvec256", PS_BV},
    {"dictionary_id", PS_U32},
};

#define MAXPURE 24
typedef struct {
  char name[64];
  int sig;
  void* fn;
  uint64_t calls;
  uint64_t changed_obj;
  uint64_t changed_buf;
} pure_t;
static pure_t g_pure[MAXPURE];
static int g_npure = 0;
static char g_pure_unknown[512];

// Buffers the workload hands to the library; all of them are compared around
// every pure call (bounded prefix of each).
typedef struct {
  const uint8_t* p;
  size_t n;
} span_t;
#define MAXSPAN 6
static span_t g_span[MAXSPAN];
static int g_nspan = 0;
#define SPAN_CAP ((size_t)1 << 18)

static uint8_t* g_objmem = NULL;
static uint8_t* g_objcopy = NULL;
static size_t g_objsize = 0;
static volatile uint64_t g_sink = 0;

static uint64_t spans_hash(void) {
  uint64_t h = FNV_INIT;
  for (int i = 0; i < g_nspan; i++) {
    size_t n = g_span[i].n < SPAN_CAP ? g_span[i].n : SPAN_CAP;
    if (g_span[i].p) h = fnv1a(h, g_span[i].p, n);
  }
  return h;
}

static void pure_round(void) {
  for (int i = 0; i < g_npure; i++) {
    pure_t* p = &g_pure[i];
    memcpy(g_objcopy, g_objmem, g_objsize);
    uint64_t hb = spans_hash();
    const void* self = g_objmem;
    switch (p->sig) {
      case PS_U64_U32: g_sink += ((pf_u64_u32)p->fn)(self, (uint32_t)(p->calls & 1 ? 1 : 0x4CE00000u + (uint32_t)p->calls)); break;
      case PS_U64: g_sink += ((pf_u64)p->fn)(self); break;
      case PS_U32: g_sink += ((pf_u32)p->fn)(self); break;
      case PS_RANGE: {
        wuffs_base__range_ii_u64 r = ((pf_range)p->fn)(self);
        g_sink += r.min_incl + r.max_incl;
      } break;
      case PS_RECT: {
        wuffs_base__rect_ie_u32 r = ((pf_rect)p->fn)(self);
        g_sink += r.max_excl_x;
      } break;
      case PS_OPT: {
        wuffs_base__optional_u63 r = ((pf_opt)p->fn)(self);
        g_sink += r.repr;
      } break;
      case PS_BV: {
        wuffs_base__bitvec256 r = ((pf_bv)p->fn)(self);
        g_sink += r.elements_u64[0];
      } break;
    }
    p->calls++;
    if (memcmp(g_objcopy, g_objmem, g_objsize)) p->changed_obj++;
    if (spans_hash() != hb) p->changed_buf++;
  }
}

static void* must_sym(void* h, const char* pkg, const char* st, const char* m, bool sizeof_form) {
  char nm[256];
  size_t n = 0;
  nm[0] = 0;
  const char* parts[8];
  int np = 0;
  if (sizeof_form) parts[np++] = "sizeof__";
  parts[np++] = "wuffs_";
  parts[np++] = pkg;
  parts[np++] = "__";
  parts[np++] = st;
  if (m) {
    parts[np++] = "__";
    parts[np++] = m;
  }
  for (int i = 0; i < np; i++) {
    size_t k = strlen(parts[i]);
    if (n + k + 1 >= sizeof nm) fail("symbol name too long", pkg);
    memcpy(nm + n, parts[i], k);
    n += k;
  }
  nm[n] = 0;
  void* p = dlsym(h, nm);
  if (!p) {
    // dlsym allocates nothing here; copy the name for the message
    static char keep[256];
    memcpy(keep, nm, n + 1);
    fail("dlsym failed", keep);
  }
  return p;
}

static void* opt_sym(void* h, const char* pkg, const char* st, const char* m) {
  char nm[256];
  size_t n = 0;
  const char* parts[5] = {"wuffs_", pkg, "__", st, "__"};
  for (int i = 0; i < 5; i++) {
    size_t k = strlen(parts[i]);
    if (n + k + 1 >= sizeof nm) return NULL;
    memcpy(nm + n, parts[i], k);
    n += k;
  }
  size_t k = strlen(m);
  if (n + k + 1 >= sizeof nm) return NULL;
  memcpy(nm + n, m, k);
  nm[n + k] = 0;
  return dlsym(h, nm);
}

static void parse_pure(void* h, const char* pkg, const char* st, const char* list) {
  g_pure_unknown[0] = 0;
  if (!strcmp(list, "-")) return;
  const char* p = list;
  while (*p) {
    char nm[64];
    size_t n = 0;
    while (*p && *p != ',') {
      if (n + 1 < sizeof nm) nm[n++] = *p;
      p++;
    }
    nm[n] = 0;
    if (*p == ',') p++;
    if (!n) continue;
    int sig = -1;
    for (size_t i = 0; i < sizeof g_pure_sigs / sizeof g_pure_sigs[0]; i++)
      if (!strcmp(g_pure_sigs[i].name, nm)) sig = g_pure_sigs[i].sig;
    void* fn = sig >= 0 ? opt_sym(h, pkg, st, nm) : NULL;
    if (sig < 0 || !fn || g_npure == MAXPURE) {
      size_t u = strlen(g_pure_unknown);
      if (u + n + 2 < sizeof g_pure_unknown) {
        if (u) g_pure_unknown[u++] = ',';
        memcpy(g_pure_unknown + u, nm, n + 1);
      }
      continue;
    }
    pure_t* q = &g_pure[g_npure++];
    memset(q, 0, sizeof *q);
    memcpy(q->name, nm, n + 1);
    q->sig = sig;
    q->fn = fn;
  }
}

#define DST_CAP ((size_t)64 << 20)
#define WB_CAP ((size_t)64 << 20)
#define PIX_CAP ((size_t)64 << 20)
#define TOK_CAP 4096

typedef struct {
  const char* status;  // final status repr (points into the library's rodata or a literal here)
  const char* stage;
  uint64_t calls, suspensions, consumed, out_len, out_hash;
  uint32_t w, h;
  uint64_t frames;
} wres_t;

static bool is_susp(const char* s) { return s && s[0] == '$'; }

int main(int argc, char** argv) {
  arena_init();
  if (argc >= 3 && !strcmp(argv[1], "inspect")) return do_inspect(argc - 2, argv + 2);
  if (argc < 8 || strcmp(argv[1], "decode")) {
    die_raw("usage: hermetic_loader inspect <target.so> [dep.so...] | decode <iface> <pkg> <struct> <purelist|-> <input> <target.so> [dep.so...]\n");
  }
  const char* iface = argv[2];
  const char* pkg = argv[3];
  const char* st = argv[4];
  const char* purelist = argv[5];
  const char* inpath = argv[6];
  load_all(argc - 7, argv + 7);
  lobj_t* T = target();
  void* h = T->handle;

  // input
  int fd = open(inpath, O_RDONLY);
  if (fd < 0) fail("cannot open input", inpath);
  struct stat sb;
  if (fstat(fd, &sb) != 0) fail("fstat", inpath);
  size_t in_len = (size_t)sb.st_size;
  uint8_t* in = (uint8_t*)malloc(in_len ? in_len : 1);
  for (size_t off = 0; off < in_len;) {
    ssize_t k = read(fd, in + off, in_len - off);
    if (k <= 0) fail("read", inpath);
    off += (size_t)k;
  }
  close(fd);

  // entry points
  fn_sizeof f_sizeof = (fn_sizeof)must_sym(h, pkg, st, NULL, true);
  fn_init f_init = (fn_init)must_sym(h, pkg, st, "initialize", false);
  g_objsize = f_sizeof();
  g_objmem = (uint8_t*)malloc(g_objsize ? g_objsize : 1);
  g_objcopy = (uint8_t*)malloc(g_objsize ? g_objsize : 1);
  parse_pure(h, pkg, st, purelist);

  enum { I_IOT, I_IMG, I_TOK, I_H32, I_H64, I_H256 } ik;
  if (!strcmp(iface, "io_transformer"))
    ik = I_IOT;
  else if (!strcmp(iface, "image_decoder"))
    ik = I_IMG;
  else if (!strcmp(iface, "token_decoder"))
    ik = I_TOK;
  else if (!strcmp(iface, "hasher_u32"))
    ik = I_H32;
  else if (!strcmp(iface, "hasher_u64"))
    ik = I_H64;
  else if (!strcmp(iface, "hasher_bitvec256"))
    ik = I_H256;
  else
    fail("unknown interface", iface);

  fn_transform_io f_tio = NULL;
  fn_dic f_dic = NULL;
  fn_dfc f_dfc = NULL;
  fn_df f_df = NULL;
  fn_dtok f_dtok = NULL;
  fn_up32 f_up32 = NULL;
  fn_up64 f_up64 = NULL;
  fn_up256 f_up256 = NULL;
  pf_range f_wbl = NULL;
  uint8_t *dst = NULL, *wbm = NULL, *pix = NULL;
  wuffs_base__token* toks = NULL;
  switch (ik) {
    case I_IOT:
      f_tio = (fn_transform_io)must_sym(h, pkg, st, "transform_io", false);
      f_wbl = (pf_range)must_sym(h, pkg, st, "workbuf_len", false);
      dst = (uint8_t*)malloc(DST_CAP);
      wbm = (uint8_t*)malloc(WB_CAP);
      break;
    case I_IMG:
      f_dic = (fn_dic)must_sym(h, pkg, st, "decode_image_config", false);
      f_dfc = (fn_dfc)must_sym(h, pkg, st, "decode_frame_config", false);
      f_df = (fn_df)must_sym(h, pkg, st, "decode_frame", false);
      f_wbl = (pf_range)must_sym(h, pkg, st, "workbuf_len", false);
      pix = (uint8_t*)malloc(PIX_CAP);
      wbm = (uint8_t*)malloc(WB_CAP);
      break;
    case I_TOK:
      f_dtok = (fn_dtok)must_sym(h, pkg, st, "decode_tokens", false);
      f_wbl = (pf_range)must_sym(h, pkg, st, "workbuf_len", false);
      toks = (wuffs_base__token*)malloc(TOK_CAP * sizeof(wuffs_base__token));
      wbm = (uint8_t*)malloc(WB_CAP);
      break;
    case I_H32: f_up32 = (fn_up32)must_sym(h, pkg, st, "update_u32", false); break;
    case I_H64: f_up64 = (fn_up64)must_sym(h, pkg, st, "update_u64", false); break;
    case I_H256: f_up256 = (fn_up256)must_sym(h, pkg, st, "update_bitvec256", false); break;
  }
  if ((ik == I_IOT && (!dst || !wbm)) || (ik == I_IMG && (!pix || !wbm)) || (ik == I_TOK && (!toks || !wbm))) fail("out of arena", "");

  // segment hashes before the workload, for every loaded Wuffs object
  static uint64_t hb[MAXOBJ], nb[MAXOBJ], ha[MAXOBJ];
  for (int i = 0; i < g_nobj; i++) hb[i] = hash_nonrelro(&g_obj[i], &nb[i]);

  o_s("{\"ev\":\"decode-start\",\"pkg\":");
  o_js(pkg);
  o_s(",\"iface\":");
  o_js(iface);
  o_s(",\"objects\":");
  o_u((uint64_t)g_nobj);
  o_s(",\"in_len\":");
  o_u(in_len);
  o_s(",\"objsize\":");
  o_u(g_objsize);
  o_s("}\n");
  o_flush();

  bool strict = getenv("HERMETIC_NO_SECCOMP") == NULL;
  if (strict) {
    if (prctl(PR_SET_SECCOMP, SECCOMP_MODE_STRICT) != 0) fail("prctl(PR_SET_SECCOMP, SECCOMP_MODE_STRICT) failed", "");
  }
  // ---- strict mode from here: only read/write/exit/sigreturn are permitted.
  g_naev = 0;
  g_watch = 1;

  wres_t R;
  memset(&R, 0, sizeof R);
  R.out_hash = FNV_INIT;
  R.stage = "initialize";
  wuffs_base__status s0 = f_init(g_objmem, g_objsize, WUFFS_VERSION, 0);
  R.calls++;
  wuffs_base__io_buffer src;
  memset(&src, 0, sizeof src);
  src.data.ptr = in;
  src.data.len = in_len;
  size_t chunk = in_len / 8 + 1;
  g_span[g_nspan].p = in;
  g_span[g_nspan++].n = in_len;
  if (s0.repr) {
    R.status = s0.repr;
  } else {
    pure_round();
    switch (ik) {
      case I_H32:
      case I_H64:
      case I_H256: {
        R.stage = "update";
        size_t off = 0;
        do {
          size_t k = in_len - off < chunk ? in_len - off : chunk;
          wuffs_base__slice_u8 sl;
          sl.ptr = in + off;
          sl.len = k;
          uint64_t v = 0;
          if (ik == I_H32)
            v = f_up32(g_objmem, sl);
          else if (ik == I_H64)
            v = f_up64(g_objmem, sl);
          else {
            wuffs_base__bitvec256 b = f_up256(g_objmem, sl);
            v = b.elements_u64[0] ^ b.elements_u64[1] ^ b.elements_u64[2] ^ b.elements_u64[3];
          }
          R.calls++;
          R.out_hash = v;
          off += k;
          pure_round();
        } while (off < in_len);
        R.consumed = in_len;
        R.out_len = 8;
      } break;

      case I_IOT: {
        R.stage = "transform_io";
        wuffs_base__io_buffer d;
        memset(&d, 0, sizeof d);
        d.data.ptr = dst;
        d.data.len = DST_CAP;
        g_span[g_nspan].p = dst;
        g_span[g_nspan++].n = 0;
        g_span[g_nspan].p = wbm;
        g_span[g_nspan++].n = SPAN_CAP;
        wuffs_base__slice_u8 wb;
        wb.ptr = wbm;
        wb.len = WB_CAP;
        for (;;) {
          wuffs_base__status s = f_tio(g_objmem, &d, &src, wb);
          R.calls++;
          g_span[1].n = d.meta.wi;
          pure_round();
          if (s.repr == NULL) break;
          if (is_susp(s.repr)) {
            R.suspensions++;
            if (R.calls > 100000) {
              R.status = "#loader: too many calls";
              break;
            }
            if (!strcmp(s.repr, "$base: short read")) {
              if (src.meta.wi < in_len) {
                size_t k = in_len - src.meta.wi < chunk ? in_len - src.meta.wi : chunk;
                src.meta.wi += k;
                if (src.meta.wi == in_len) src.meta.closed = true;
                continue;
              }
              if (!src.meta.closed) {
                src.meta.closed = true;
                continue;
              }
              R.status = s.repr;  // truncated input
              break;
            }
            if (!strcmp(s.repr, "$base: short write") && d.meta.wi == d.data.len) {
              R.status = "#loader: destination full";
              break;
            }
            R.status = s.repr;  // a suspension this workload does not serve
            break;
          }
          R.status = s.repr;
          break;
        }
        R.consumed = src.meta.ri;
        R.out_len = d.meta.wi;
        R.out_hash = fnv1a(FNV_INIT, dst, d.meta.wi);
      } break;

      case I_TOK: {
        R.stage = "decode_tokens";
        wuffs_base__token_buffer tb;
        memset(&tb, 0, sizeof tb);
        tb.data.ptr = toks;
        tb.data.len = TOK_CAP;
        g_span[g_nspan].p = (const uint8_t*)toks;
        g_span[g_nspan++].n = 0;
        wuffs_base__slice_u8 wb;
        wb.ptr = wbm;
        wb.len = WB_CAP;
        for (;;) {
          wuffs_base__status s = f_dtok(g_objmem, &tb, &src, wb);
          R.calls++;
          g_span[1].n = tb.meta.wi * sizeof(wuffs_base__token);
          pure_round();
          R.out_hash = fnv1a(R.out_hash, (const uint8_t*)(toks + tb.meta.ri), (tb.meta.wi - tb.meta.ri) * sizeof(wuffs_base__token));
          R.out_len += tb.meta.wi - tb.meta.ri;
          tb.meta.ri = 0;
          tb.meta.wi = 0;
          if (s.repr == NULL) break;
          if (is_susp(s.repr)) {
            R.suspensions++;
            if (R.calls > 1000000) {
              R.status = "#loader: too many calls";
              break;
            }
            if (!strcmp(s.repr, "$base: short write")) continue;  // the token buffer was drained above
            if (!strcmp(s.repr, "$base: short read")) {
              if (src.meta.wi < in_len) {
                size_t k = in_len - src.meta.wi < chunk ? in_len - src.meta.wi : chunk;
                src.meta.wi += k;
                if (src.meta.wi == in_len) src.meta.closed = true;
                continue;
              }
              if (!src.meta.closed) {
                src.meta.closed = true;
                continue;
              }
            }
            R.status = s.repr;
            break;
          }
          R.status = s.repr;
          break;
        }
        R.consumed = src.meta.ri;
      } break;

      case I_IMG: {
        wuffs_base__image_config ic;
        memset(&ic, 0, sizeof ic);
        wuffs_base__pixel_buffer pb;
        memset(&pb, 0, sizeof pb);
        R.stage = "decode_image_config";
        // feed(): returns false when the suspension cannot be served
#define FEED_OR_BREAK(s)                                                                 \
  if (is_susp((s).repr)) {                                                               \
    R.suspensions++;                                                                     \
    if (R.calls > 100000) {                                                              \
      R.status = "#loader: too many calls";                                              \
      break;                                                                             \
    }                                                                                    \
    if (src.meta.wi < in_len) {                                                          \
      size_t k = in_len - src.meta.wi < chunk ? in_len - src.meta.wi : chunk;            \
      src.meta.wi += k;                                                                  \
      if (src.meta.wi == in_len) src.meta.closed = true;                                 \
      continue;                                                                          \
    }                                                                                    \
    if (!src.meta.closed) {                                                              \
      src.meta.closed = true;                                                            \
      continue;                                                                          \
    }                                                                                    \
    R.status = (s).repr;                                                                 \
    break;                                                                               \
  }
        for (;;) {
          wuffs_base__status s = f_dic(g_objmem, &ic, &src);
          R.calls++;
          pure_round();
          FEED_OR_BREAK(s)
          R.status = s.repr;
          break;
        }
        if (R.status == NULL) {
          R.w = wuffs_base__pixel_config__width(&ic.pixcfg);
          R.h = wuffs_base__pixel_config__height(&ic.pixcfg);
          uint64_t area = (uint64_t)R.w * (uint64_t)R.h;
          if (area * 4 > PIX_CAP) {
            R.status = "#loader: image too large for the pre-allocated pixel buffer";
          } else {
            wuffs_base__pixel_config__set(&ic.pixcfg, WUFFS_BASE__PIXEL_FORMAT__BGRA_NONPREMUL, WUFFS_BASE__PIXEL_SUBSAMPLING__NONE, R.w, R.h);
            size_t pixlen = (size_t)(area * 4);
            // what wuffs_base__pixel_buffer__set_from_slice does for an
            // interleaved 32 bits-per-pixel format
            pb.pixcfg = ic.pixcfg;
            pb.private_impl.planes[0].ptr = pix;
            pb.private_impl.planes[0].width = (size_t)R.w * 4;
            pb.private_impl.planes[0].height = R.h;
            pb.private_impl.planes[0].stride = (size_t)R.w * 4;
            g_span[g_nspan].p = pix;
            g_span[g_nspan++].n = pixlen;
            g_span[g_nspan].p = wbm;
            g_span[g_nspan++].n = SPAN_CAP;
            wuffs_base__range_ii_u64 wr = f_wbl(g_objmem);
            if (wr.min_incl > WB_CAP) {
              R.status = "#loader: work buffer too large for the pre-allocated one";
            } else {
              wuffs_base__slice_u8 wb;
              wb.ptr = wbm;
              wb.len = wr.max_incl <= WB_CAP ? (size_t)wr.max_incl : WB_CAP;
              while (R.frames < 8 && !R.status) {
                wuffs_base__frame_config fc;
                memset(&fc, 0, sizeof fc);
                R.stage = "decode_frame_config";
                for (;;) {
                  wuffs_base__status s = f_dfc(g_objmem, &fc, &src);
                  R.calls++;
                  pure_round();
                  FEED_OR_BREAK(s)
                  R.status = s.repr;
                  break;
                }
                if (R.status) break;
                R.stage = "decode_frame";
                for (;;) {
                  wuffs_base__status s = f_df(g_objmem, &pb, &src, WUFFS_BASE__PIXEL_BLEND__SRC, wb, NULL);
                  R.calls++;
                  pure_round();
                  FEED_OR_BREAK(s)
                  R.status = s.repr;
                  break;
                }
                uint64_t ph = fnv1a(FNV_INIT, pix, pixlen);
                R.out_hash = fnv1a(R.out_hash, (const uint8_t*)&ph, sizeof ph);
                R.out_len = pixlen;
                if (!R.status) R.frames++;
              }
            }
          }
        }
        R.consumed = src.meta.ri;
      } break;
    }
  }
  g_watch = 0;
  long naev = g_naev;

  // still inside strict mode: re-hash the segments and report with write(2)
  for (int i = 0; i < g_nobj; i++) ha[i] = hash_nonrelro(&g_obj[i], NULL);
  o_s("{\"ev\":\"decode-done\",\"pkg\":");
  o_js(pkg);
  o_s(",\"strict\":");
  o_b(strict);
  o_s(",\"status\":");
  o_js(R.status);
  o_s(",\"stage\":");
  o_js(R.stage);
  o_s(",\"calls\":");
  o_u(R.calls);
  o_s(",\"suspensions\":");
  o_u(R.suspensions);
  o_s(",\"consumed\":");
  o_u(R.consumed);
  o_s(",\"out_len\":");
  o_u(R.out_len);
  o_s(",\"out_hash\":");
  o_x(R.out_hash);
  o_s(",\"w\":");
  o_u(R.w);
  o_s(",\"h\":");
  o_u(R.h);
  o_s(",\"frames\":");
  o_u(R.frames);
  o_s(",\"alloc_calls\":");
  o_u((uint64_t)naev);
  o_s(",\"alloc_events\":");
  print_alloc_events();
  o_s(",\"pure_unknown\":");
  o_js(g_pure_unknown);
  o_s(",\"pure\":[");
  for (int i = 0; i < g_npure; i++) {
    if (i) o_c(',');
    o_s("{\"name\":");
    o_js(g_pure[i].name);
    o_s(",\"calls\":");
    o_u(g_pure[i].calls);
    o_s(",\"changed_obj\":");
    o_u(g_pure[i].changed_obj);
    o_s(",\"changed_buf\":");
    o_u(g_pure[i].changed_buf);
    o_c('}');
  }
  o_s("],\"segments\":[");
  for (int i = 0; i < g_nobj; i++) {
    if (i) o_c(',');
    o_s("{\"obj\":");
    o_js(base_name(g_obj[i].path));
    o_s(",\"nonrelro_bytes\":");
    o_u(nb[i]);
    o_s(",\"before\":");
    o_x(hb[i]);
    o_s(",\"after\":");
    o_x(ha[i]);
    o_c('}');
  }
  o_s("]}\n");
  o_flush();
  syscall(SYS_exit, 0);
  return 0;
}
