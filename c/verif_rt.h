// verif_rt.h: run-time library of the "checked build" (DESIGN.md §3.1).
//
// Force-included (gcc -include) when compiling C that the verif-tagged
// wuffs-c emitted with WUFFS_VERIF=ranges. Each function checks one
// obligation the Wuffs checker is supposed to have proven at compile time, in
// ideal (128-bit) arithmetic, and otherwise returns the production value.
#ifndef WUFFS_VERIF_RT_H
#define WUFFS_VERIF_RT_H

#include <stdarg.h>
#include <stdint.h>
#include <stdio.h>
#include <stdlib.h>

static uint64_t wuffs_verif__checks = 0;

__attribute__((noreturn, unused)) static void wuffs_verif__fail(const char* kind, const char* loc, uint64_t a, uint64_t b, uint64_t lim) {
  fprintf(stderr, "VERIF-FAIL %s at %s: operands %llu %llu limit %llu\n", kind, loc, (unsigned long long)a, (unsigned long long)b, (unsigned long long)lim);
  fflush(stderr);
  abort();
}

__attribute__((unused)) static inline uint64_t wuffs_verif__idx(uint64_t i, uint64_t len, const char* loc) {
  wuffs_verif__checks++;
  if (i >= len) wuffs_verif__fail("index-out-of-range", loc, i, 0, len);
  return i;
}

__attribute__((unused)) static inline int wuffs_verif__slice(uint64_t i, uint64_t j, uint64_t len, const char* loc) {
  wuffs_verif__checks++;
  if (!(i <= j && j <= len)) wuffs_verif__fail("slice-out-of-range", loc, i, j, len);
  return 0;
}

typedef unsigned __int128 wuffs_verif__u128;

__attribute__((unused)) static inline uint64_t wuffs_verif__fit(const char* kind, wuffs_verif__u128 r, uint64_t a, uint64_t b, uint64_t min, uint64_t max, const char* loc) {
  wuffs_verif__checks++;
  if (r < min || r > max) wuffs_verif__fail(kind, loc, a, b, r > max ? max : min);
  return (uint64_t)r;
}

__attribute__((unused)) static inline uint64_t wuffs_verif__add(uint64_t a, uint64_t b, uint64_t min, uint64_t max, unsigned bits, const char* loc) {
  (void)bits;
  return wuffs_verif__fit("add-overflow", (wuffs_verif__u128)a + b, a, b, min, max, loc);
}
__attribute__((unused)) static inline uint64_t wuffs_verif__sub(uint64_t a, uint64_t b, uint64_t min, uint64_t max, unsigned bits, const char* loc) {
  (void)bits;
  if (a < b) wuffs_verif__fail("sub-underflow", loc, a, b, 0);
  return wuffs_verif__fit("sub-out-of-range", (wuffs_verif__u128)(a - b), a, b, min, max, loc);
}
__attribute__((unused)) static inline uint64_t wuffs_verif__mul(uint64_t a, uint64_t b, uint64_t min, uint64_t max, unsigned bits, const char* loc) {
  (void)bits;
  return wuffs_verif__fit("mul-overflow", (wuffs_verif__u128)a * b, a, b, min, max, loc);
}
__attribute__((unused)) static inline uint64_t wuffs_verif__shl(uint64_t a, uint64_t b, uint64_t min, uint64_t max, unsigned bits, const char* loc) {
  if (b >= bits) wuffs_verif__fail("shift-count", loc, a, b, bits);
  return wuffs_verif__fit("shl-overflow", (wuffs_verif__u128)a << b, a, b, min, max, loc);
}
__attribute__((unused)) static inline uint64_t wuffs_verif__shr(uint64_t a, uint64_t b, uint64_t min, uint64_t max, unsigned bits, const char* loc) {
  if (b >= bits) wuffs_verif__fail("shift-count", loc, a, b, bits);
  return wuffs_verif__fit("shr-out-of-range", (wuffs_verif__u128)(a >> b), a, b, min, max, loc);
}
__attribute__((unused)) static inline uint64_t wuffs_verif__div(uint64_t a, uint64_t b, uint64_t min, uint64_t max, unsigned bits, const char* loc) {
  (void)bits;
  if (b == 0) wuffs_verif__fail("divide-by-zero", loc, a, b, 0);
  return wuffs_verif__fit("div-out-of-range", (wuffs_verif__u128)(a / b), a, b, min, max, loc);
}
__attribute__((unused)) static inline uint64_t wuffs_verif__rem(uint64_t a, uint64_t b, uint64_t min, uint64_t max, unsigned bits, const char* loc) {
  (void)bits;
  if (b == 0) wuffs_verif__fail("divide-by-zero", loc, a, b, 0);
  return wuffs_verif__fit("rem-out-of-range", (wuffs_verif__u128)(a % b), a, b, min, max, loc);
}

__attribute__((unused)) static uint64_t wuffs_verif__add_n(uint64_t min, uint64_t max, const char* loc, int n, ...) {
  va_list ap;
  va_start(ap, n);
  wuffs_verif__u128 r = 0;
  uint64_t first = 0, second = 0;
  for (int i = 0; i < n; i++) {
    uint64_t v = va_arg(ap, uint64_t);
    if (i == 0) first = v;
    if (i == 1) second = v;
    r += v;  // n * 2^64 cannot overflow 128 bits for any realistic n
  }
  va_end(ap);
  return wuffs_verif__fit("add-overflow", r, first, second, min, max, loc);
}

__attribute__((unused)) static uint64_t wuffs_verif__mul_n(uint64_t min, uint64_t max, const char* loc, int n, ...) {
  va_list ap;
  va_start(ap, n);
  wuffs_verif__u128 r = 1;
  int zero = 0, sat = 0;
  uint64_t first = 0, second = 0;
  for (int i = 0; i < n; i++) {
    uint64_t v = va_arg(ap, uint64_t);
    if (i == 0) first = v;
    if (i == 1) second = v;
    if (v == 0) zero = 1;
    if (!sat) {
      if (v != 0 && r > (~(wuffs_verif__u128)0) / v) {
        sat = 1;
      } else {
        r *= v;
      }
    }
  }
  va_end(ap);
  if (zero) {
    r = 0;
  } else if (sat) {
    wuffs_verif__fail("mul-overflow", loc, first, second, max);
  }
  return wuffs_verif__fit("mul-overflow", r, first, second, min, max, loc);
}

#endif  // WUFFS_VERIF_RT_H
