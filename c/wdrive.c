// wdrive: scripted C driver for the generated Wuffs standard library.
//
// It is compiled against the C that `wuffs gen` produced from /repo's working
// tree (header part only; the modules are separate sanitized objects) and runs
// the jobs of a script file, one JSON line of observations per job (decode
// jobs) or per call (history jobs). Monitors evaluated here, at every call:
// io_buffer index invariants and monotonicity, source bytes and already
// written destination bytes unchanged, canary behind the revealed destination
// window, allocator calls while decoding, suspension justification, progress.
//
// Build: cc -DWUFFS_C_PATH='"..."' wdrive.c mod_*.o
//
// Every job line is "key=value key=value ...". See README in DESIGN.md §3.4.

#define _GNU_SOURCE
#include <errno.h>
#include <inttypes.h>
#include <signal.h>
#include <stdbool.h>
#include <stdint.h>
#include <stdio.h>
#include <stdlib.h>
#include <string.h>
#include <sys/time.h>
#include <unistd.h>

// (all modules: the library object is built without WUFFS_CONFIG__MODULES)
#include WUFFS_C_PATH

// ---------------------------------------------------------------- allocator monitor

static volatile int g_alloc_watch = 0;    // 1 while a decode call is in flight
static volatile long g_alloc_events = 0;  // allocator calls seen while watching

#if defined(WDRIVE_WRAP_ALLOC)
// With -Wl,--wrap=malloc etc. (non-sanitized builds) the generated code's
// allocator calls are observed directly.
void* __real_malloc(size_t);
void* __real_calloc(size_t, size_t);
void* __real_realloc(void*, size_t);
void __real_free(void*);
void* __wrap_malloc(size_t n) {
  if (g_alloc_watch) g_alloc_events++;
  return __real_malloc(n);
}
void* __wrap_calloc(size_t a, size_t b) {
  if (g_alloc_watch) g_alloc_events++;
  return __real_calloc(a, b);
}
void* __wrap_realloc(void* p, size_t n) {
  if (g_alloc_watch) g_alloc_events++;
  return __real_realloc(p, n);
}
void __wrap_free(void* p) {
  if (g_alloc_watch) g_alloc_events++;
  __real_free(p);
}
#endif

// ---------------------------------------------------------------- kinds

enum { IF_IOT, IF_IMG, IF_H32, IF_H64, IF_H256, IF_TOK };

typedef struct {
  const char* name;
  int iface;
  size_t (*size_of)(void);
  wuffs_base__status (*init)(void*, size_t, uint64_t, uint32_t);
  void* (*upcast)(void*);
} kind_t;

#define KIND(pkg, T, IFC, ifacename)                                                        \
  static wuffs_base__status init_##pkg(void* p, size_t n, uint64_t v, uint32_t o) {          \
    return wuffs_##pkg##__##T##__initialize((wuffs_##pkg##__##T*)p, n, v, o);                \
  }                                                                                          \
  static void* upcast_##pkg(void* p) {                                                       \
    return (void*)wuffs_##pkg##__##T##__upcast_as__wuffs_base__##ifacename(                  \
        (wuffs_##pkg##__##T*)p);                                                             \
  }

KIND(adler32, hasher, IF_H32, hasher_u32)
KIND(crc32, ieee_hasher, IF_H32, hasher_u32)
KIND(xxhash32, hasher, IF_H32, hasher_u32)
KIND(crc64, ecma_hasher, IF_H64, hasher_u64)
KIND(xxhash64, hasher, IF_H64, hasher_u64)
KIND(sha256, hasher, IF_H256, hasher_bitvec256)
KIND(bzip2, decoder, IF_IOT, io_transformer)
KIND(deflate, decoder, IF_IOT, io_transformer)
KIND(gzip, decoder, IF_IOT, io_transformer)
KIND(lzip, decoder, IF_IOT, io_transformer)
KIND(lzma, decoder, IF_IOT, io_transformer)
KIND(lzw, decoder, IF_IOT, io_transformer)
KIND(xz, decoder, IF_IOT, io_transformer)
KIND(zlib, decoder, IF_IOT, io_transformer)
KIND(bmp, decoder, IF_IMG, image_decoder)
KIND(etc2, decoder, IF_IMG, image_decoder)
KIND(gif, decoder, IF_IMG, image_decoder)
KIND(handsum, decoder, IF_IMG, image_decoder)
KIND(jpeg, decoder, IF_IMG, image_decoder)
KIND(netpbm, decoder, IF_IMG, image_decoder)
KIND(nie, decoder, IF_IMG, image_decoder)
KIND(png, decoder, IF_IMG, image_decoder)
KIND(qoi, decoder, IF_IMG, image_decoder)
KIND(targa, decoder, IF_IMG, image_decoder)
KIND(thumbhash, decoder, IF_IMG, image_decoder)
KIND(vp8, decoder, IF_IMG, image_decoder)
KIND(wbmp, decoder, IF_IMG, image_decoder)
KIND(webp, decoder, IF_IMG, image_decoder)
KIND(cbor, decoder, IF_TOK, token_decoder)
KIND(json, decoder, IF_TOK, token_decoder)

#define KROW(pkg, T, IFC) {#pkg, IFC, sizeof__wuffs_##pkg##__##T, init_##pkg, upcast_##pkg}

static const kind_t g_kinds[] = {
    KROW(adler32, hasher, IF_H32),   KROW(crc32, ieee_hasher, IF_H32), KROW(xxhash32, hasher, IF_H32),
    KROW(crc64, ecma_hasher, IF_H64), KROW(xxhash64, hasher, IF_H64),   KROW(sha256, hasher, IF_H256),
    KROW(bzip2, decoder, IF_IOT),    KROW(deflate, decoder, IF_IOT),   KROW(gzip, decoder, IF_IOT),
    KROW(lzip, decoder, IF_IOT),     KROW(lzma, decoder, IF_IOT),      KROW(lzw, decoder, IF_IOT),
    KROW(xz, decoder, IF_IOT),       KROW(zlib, decoder, IF_IOT),      KROW(bmp, decoder, IF_IMG),
    KROW(etc2, decoder, IF_IMG),     KROW(gif, decoder, IF_IMG),       KROW(handsum, decoder, IF_IMG),
    KROW(jpeg, decoder, IF_IMG),     KROW(netpbm, decoder, IF_IMG),    KROW(nie, decoder, IF_IMG),
    KROW(png, decoder, IF_IMG),      KROW(qoi, decoder, IF_IMG),       KROW(targa, decoder, IF_IMG),
    KROW(thumbhash, decoder, IF_IMG), KROW(vp8, decoder, IF_IMG),      KROW(wbmp, decoder, IF_IMG),
    KROW(webp, decoder, IF_IMG),     KROW(cbor, decoder, IF_TOK),      KROW(json, decoder, IF_TOK),
};

static const kind_t* find_kind(const char* name) {
  for (size_t i = 0; i < sizeof(g_kinds) / sizeof(g_kinds[0]); i++) {
    if (!strcmp(g_kinds[i].name, name)) return &g_kinds[i];
  }
  return NULL;
}

// ---------------------------------------------------------------- small utilities

static uint64_t fnv1a(uint64_t h, const uint8_t* p, size_t n) {
  for (size_t i = 0; i < n; i++) {
    h ^= p[i];
    h *= 0x100000001b3ull;
  }
  return h;
}
#define FNV_INIT 0xcbf29ce484222325ull

static uint64_t g_rng = 88172645463325252ull;
static uint64_t rng_next(void) {
  g_rng ^= g_rng << 13;
  g_rng ^= g_rng >> 7;
  g_rng ^= g_rng << 17;
  return g_rng;
}

static void fill(uint8_t* p, size_t n, const char* mode) {
  if (!p || !n) return;
  if (!mode || !strcmp(mode, "00")) {
    memset(p, 0, n);
  } else if (!strcmp(mode, "ff")) {
    memset(p, 0xFF, n);
  } else if (!strcmp(mode, "a5")) {
    memset(p, 0xA5, n);
  } else if (mode[0] == 'r') {
    g_rng = 88172645463325252ull ^ (strtoull(mode + 1, NULL, 10) * 0x9E3779B97F4A7C15ull);
    if (!g_rng) g_rng = 1;
    for (size_t i = 0; i < n; i++) p[i] = (uint8_t)(rng_next() >> 24);
    // The first word is the object's magic field: it must not accidentally be
    // one of the two magic constants.
    if (n >= 4) {
      uint32_t m;
      memcpy(&m, p, 4);
      if (m == 0x3CCB6C71u || m == 0x075AE3D2u) p[0] ^= 1;
    }
  } else {
    memset(p, 0, n);
  }
}

// key=value parsing of one job line (destructive)
#define MAXKV 64
typedef struct {
  int n;
  char* k[MAXKV];
  char* v[MAXKV];
} kv_t;

static void parse_kv(char* line, kv_t* kv) {
  kv->n = 0;
  char* save = NULL;
  for (char* tok = strtok_r(line, " \t\r\n", &save); tok && kv->n < MAXKV; tok = strtok_r(NULL, " \t\r\n", &save)) {
    char* eq = strchr(tok, '=');
    if (!eq) continue;
    *eq = 0;
    kv->k[kv->n] = tok;
    kv->v[kv->n] = eq + 1;
    kv->n++;
  }
}
static const char* kv_get(const kv_t* kv, const char* k, const char* def) {
  for (int i = 0; i < kv->n; i++)
    if (!strcmp(kv->k[i], k)) return kv->v[i];
  return def;
}
static uint64_t kv_u64(const kv_t* kv, const char* k, uint64_t def) {
  const char* v = kv_get(kv, k, NULL);
  return v ? strtoull(v, NULL, 0) : def;
}

// a plan: comma separated sizes, then "rest"
typedef struct {
  uint64_t v[256];
  int n, i;
} plan_t;
static void parse_plan(const char* s, plan_t* p) {
  p->n = p->i = 0;
  if (!s) return;
  while (*s && p->n < 256) {
    p->v[p->n++] = strtoull(s, (char**)&s, 10);
    if (*s == ',') s++;
  }
}
static uint64_t plan_next(plan_t* p, uint64_t remaining) {
  if (p->i < p->n) {
    uint64_t x = p->v[p->i++];
    return x < remaining ? x : remaining;
  }
  return remaining;
}

static uint8_t* read_file(const char* path, size_t* n) {
  FILE* f = fopen(path, "rb");
  if (!f) return NULL;
  fseek(f, 0, SEEK_END);
  long sz = ftell(f);
  fseek(f, 0, SEEK_SET);
  uint8_t* p = (uint8_t*)malloc(sz > 0 ? (size_t)sz : 1);
  if (sz > 0 && fread(p, 1, (size_t)sz, f) != (size_t)sz) {
    fclose(f);
    free(p);
    return NULL;
  }
  fclose(f);
  *n = (size_t)sz;
  return p;
}

static uint8_t* from_hex(const char* h, size_t* n) {
  size_t len = strlen(h) / 2;
  uint8_t* p = (uint8_t*)malloc(len ? len : 1);
  for (size_t i = 0; i < len; i++) {
    unsigned v;
    sscanf(h + 2 * i, "%2x", &v);
    p[i] = (uint8_t)v;
  }
  *n = len;
  return p;
}

static void json_str(FILE* f, const char* s) {
  fputc('"', f);
  if (s)
    for (; *s; s++) {
      unsigned char c = (unsigned char)*s;
      if (c == '"' || c == '\\')
        fprintf(f, "\\%c", c);
      else if (c < 0x20 || c >= 0x7f)
        fprintf(f, "\\u%04x", c);
      else
        fputc(c, f);
    }
  fputc('"', f);
}

// ---------------------------------------------------------------- monitors

#define MAXMON 16
typedef struct {
  int n;
  char msg[MAXMON][200];
} mon_t;
static mon_t g_mon;
static void mon(const char* fmt, ...) __attribute__((format(printf, 1, 2)));
#include <stdarg.h>
static void mon(const char* fmt, ...) {
  if (g_mon.n >= MAXMON) return;
  va_list ap;
  va_start(ap, fmt);
  vsnprintf(g_mon.msg[g_mon.n++], 200, fmt, ap);
  va_end(ap);
}
static void print_mon(FILE* f) {
  fprintf(f, "\"mon\":[");
  for (int i = 0; i < g_mon.n; i++) {
    if (i) fputc(',', f);
    json_str(f, g_mon.msg[i]);
  }
  fputc(']', f);
}

typedef struct {
  wuffs_base__io_buffer_meta m;
  size_t len;
  uint64_t h_src;     // hash of src[0..wi)
  uint64_t h_dst_pre; // hash of dst[0..wi)
} snap_t;

// Source-side snapshot / check around one call.
static void src_before(const wuffs_base__io_buffer* b, snap_t* s) {
  s->m = b->meta;
  s->len = b->data.len;
  s->h_src = fnv1a(FNV_INIT, b->data.ptr, b->meta.wi <= b->data.len ? b->meta.wi : 0);
}
static void src_after(const char* what, const wuffs_base__io_buffer* b, const snap_t* s) {
  if (!(b->meta.ri <= b->meta.wi && b->meta.wi <= b->data.len))
    mon("%s: source indexes broken ri=%zu wi=%zu len=%zu", what, b->meta.ri, b->meta.wi, b->data.len);
  if (b->meta.ri < s->m.ri) mon("%s: source ri moved backwards %zu -> %zu", what, s->m.ri, b->meta.ri);
  if (b->meta.wi != s->m.wi || b->data.len != s->len || b->meta.pos != s->m.pos || b->meta.closed != s->m.closed)
    mon("%s: source wi/len/pos/closed changed by the callee", what);
  if (s->m.wi <= b->data.len && fnv1a(FNV_INIT, b->data.ptr, s->m.wi) != s->h_src)
    mon("%s: source bytes changed", what);
}
static void dst_before(const wuffs_base__io_buffer* b, snap_t* s) {
  s->m = b->meta;
  s->len = b->data.len;
  s->h_dst_pre = fnv1a(FNV_INIT, b->data.ptr, b->meta.wi <= b->data.len ? b->meta.wi : 0);
}
static void dst_after(const char* what, const wuffs_base__io_buffer* b, const snap_t* s) {
  if (!(b->meta.ri <= b->meta.wi && b->meta.wi <= b->data.len))
    mon("%s: destination indexes broken ri=%zu wi=%zu len=%zu", what, b->meta.ri, b->meta.wi, b->data.len);
  if (b->meta.wi < s->m.wi) mon("%s: destination wi moved backwards %zu -> %zu", what, s->m.wi, b->meta.wi);
  if (b->meta.ri != s->m.ri || b->data.len != s->len || b->meta.pos != s->m.pos)
    mon("%s: destination ri/len/pos changed by the callee", what);
  if (s->m.wi <= b->data.len && fnv1a(FNV_INIT, b->data.ptr, s->m.wi) != s->h_dst_pre)
    mon("%s: destination bytes written before the call changed", what);
}

static bool status_class_ok(const char* repr) {
  // OK, a note '@', a suspension '$' or an error '#'.
  return !repr || repr[0] == '@' || repr[0] == '$' || repr[0] == '#';
}

static void check_status(const char* what, wuffs_base__status st) {
  if (!status_class_ok(st.repr)) {
    mon("%s: status is not OK/note/suspension/error: %.60s", what, st.repr);
  } else if (st.repr && strstr(st.repr, "internal error")) {
    mon("%s: internal error status: %.80s", what, st.repr);
  }
}

#define CANARY 0xC9

// ---------------------------------------------------------------- object

typedef struct {
  const kind_t* k;
  void* mem;     // exact-size allocation
  size_t size;
  void* up;      // upcast interface pointer (== mem)
} obj_t;

static bool obj_new(obj_t* o, const kind_t* k, const char* prefill) {
  o->k = k;
  o->size = k->size_of();
  o->mem = malloc(o->size);
  if (!o->mem) return false;
  fill((uint8_t*)o->mem, o->size, prefill);
  o->up = o->mem;
  return true;
}
static wuffs_base__status obj_init(obj_t* o, uint32_t opts) {
  wuffs_base__status st = o->k->init(o->mem, o->size, WUFFS_VERSION, opts);
  if (wuffs_base__status__is_ok(&st)) o->up = o->k->upcast(o->mem);
  return st;
}
static void obj_free(obj_t* o) {
  free(o->mem);
  o->mem = NULL;
}

static void apply_quirks(obj_t* o, const char* q, FILE* out) {
  // quirks=key:value,key:value
  while (q && *q) {
    uint32_t key = (uint32_t)strtoul(q, (char**)&q, 0);
    uint64_t val = 1;
    if (*q == ':') val = strtoull(q + 1, (char**)&q, 0);
    if (*q == ',') q++;
    wuffs_base__status st;
    switch (o->k->iface) {
      case IF_IOT:
        st = wuffs_base__io_transformer__set_quirk((wuffs_base__io_transformer*)o->up, key, val);
        break;
      case IF_IMG:
        st = wuffs_base__image_decoder__set_quirk((wuffs_base__image_decoder*)o->up, key, val);
        break;
      case IF_TOK:
        st = wuffs_base__token_decoder__set_quirk((wuffs_base__token_decoder*)o->up, key, val);
        break;
      case IF_H32:
        st = wuffs_base__hasher_u32__set_quirk((wuffs_base__hasher_u32*)o->up, key, val);
        break;
      case IF_H64:
        st = wuffs_base__hasher_u64__set_quirk((wuffs_base__hasher_u64*)o->up, key, val);
        break;
      default:
        st = wuffs_base__hasher_bitvec256__set_quirk((wuffs_base__hasher_bitvec256*)o->up, key, val);
        break;
    }
    (void)st;
    (void)out;
  }
}

// ---------------------------------------------------------------- summaries

// What a decode run is compared on (C05/C09): filled by every run_* function.
typedef struct {
  const char* status;
  uint64_t consumed, out_len, out_hash;
  uint64_t g[3];
  bool stalled;
  uint64_t suspensions;
} summary_t;
static summary_t g_sum;
static bool g_quiet = false;  // suppress per-run JSON fields (used by sweeps)

// ---------------------------------------------------------------- exact-size source windows
//
// salloc=exact: the io_buffer handed to the decoder is always a fresh
// allocation holding exactly the unread bytes supplied so far (ri = 0,
// wi = len, pos = bytes consumed before), as a client that compacts into a
// right-sized buffer would. The sanitizer's red zone then sits immediately
// behind the last supplied byte at EVERY split point, not only at the end of
// the input, so any read past io2 is reported wherever the split falls.
typedef struct {
  const uint8_t* in;
  size_t in_len;
  size_t revealed;
  bool exact;
} srcwin_t;

static void srcwin_init(srcwin_t* w, wuffs_base__io_buffer* src, const uint8_t* in, size_t in_len, size_t first, bool exact) {
  w->in = in;
  w->in_len = in_len;
  w->revealed = first;
  w->exact = exact;
  size_t cap = exact ? first : in_len;
  uint8_t* smem = (uint8_t*)malloc(cap ? cap : 1);
  memcpy(smem, in, cap);
  *src = wuffs_base__make_io_buffer(wuffs_base__make_slice_u8(smem, cap), wuffs_base__empty_io_buffer_meta());
  src->meta.wi = first;
}

static void srcwin_reveal(srcwin_t* w, wuffs_base__io_buffer* src, size_t n) {
  if (!w->exact) {
    src->meta.wi += n;
    w->revealed += n;
    return;
  }
  size_t consumed = (size_t)src->meta.pos + src->meta.ri;
  w->revealed += n;
  size_t len = w->revealed - consumed;
  uint8_t* smem = (uint8_t*)malloc(len ? len : 1);
  memcpy(smem, w->in + consumed, len);
  free(src->data.ptr);
  src->data = wuffs_base__make_slice_u8(smem, len);
  src->meta.ri = 0;
  src->meta.wi = len;
  src->meta.pos = consumed;
}

// ---------------------------------------------------------------- decode: io_transformer

typedef struct {
  const char* final_status;
  uint64_t calls, short_reads, short_writes;
  uint64_t consumed;   // source bytes consumed in total
  uint64_t out_len;    // bytes produced
  uint64_t out_hash;
  const char* outcome;  // "final" | "dst_full" | "stalled" | "call_cap"
} iot_res_t;

static uint8_t* g_out = NULL;  // accumulated output (for out= option)
static size_t g_out_len = 0, g_out_cap = 0;
static void out_append(const uint8_t* p, size_t n) {
  if (g_out_len + n > g_out_cap) {
    g_out_cap = (g_out_len + n) * 2 + 4096;
    g_out = (uint8_t*)realloc(g_out, g_out_cap);
  }
  memcpy(g_out + g_out_len, p, n);
  g_out_len += n;
}

// On "$short workbuf" the client re-queries workbuf_len and supplies at least
// the minimum, keeping the old contents. Returns 0 ok, 1 cannot grow, 2 too big.
static int grow_workbuf(wuffs_base__io_transformer* t, uint8_t** wmem, uint64_t* wlen, wuffs_base__slice_u8* wb) {
  wuffs_base__range_ii_u64 wr = wuffs_base__io_transformer__workbuf_len(t);
  if (wr.min_incl <= *wlen) return 1;
  if (wr.min_incl > (64ull << 20)) return 2;
  uint8_t* n = (uint8_t*)malloc(wr.min_incl);
  if (!n) return 2;
  memset(n, 0, wr.min_incl);
  memcpy(n, *wmem, *wlen);
  free(*wmem);
  *wmem = n;
  *wlen = wr.min_incl;
  *wb = wuffs_base__make_slice_u8(n, wr.min_incl);
  return 0;
}

static void run_iot(obj_t* o, const uint8_t* in, size_t in_len, const kv_t* kv, iot_res_t* r) {
  wuffs_base__io_transformer* t = (wuffs_base__io_transformer*)o->up;
  plan_t sp, dp;
  parse_plan(kv_get(kv, "splits", NULL), &sp);
  parse_plan(kv_get(kv, "dcaps", NULL), &dp);
  uint64_t dtotal = kv_u64(kv, "dtotal", 1 << 20);
  bool close_early = !strcmp(kv_get(kv, "close", "early"), "early");
  bool compact_mode = !strcmp(kv_get(kv, "mode", "window"), "compact");
  const char* dfill = kv_get(kv, "dfill", "00");
  bool wbmax = !strcmp(kv_get(kv, "wb", "min"), "max");

  memset(r, 0, sizeof(*r));
  r->out_hash = FNV_INIT;
  g_out_len = 0;

  // workbuf: exact allocation of the requested length
  wuffs_base__range_ii_u64 wr = wuffs_base__io_transformer__workbuf_len(t);
  uint64_t wlen = wbmax ? wr.max_incl : wr.min_incl;
  if (wlen > (64u << 20)) wlen = wr.min_incl;
  // wbfixed: a client that always passes one generous work buffer (as the
  // repository's own tests and examples do); needed where the requirement is
  // only known after the header was parsed (lzma, xz, lzip).
  bool wbfixed = kv_get(kv, "wbfixed", NULL) != NULL;
  if (wbfixed) wlen = kv_u64(kv, "wbfixed", 0);
  uint8_t* wmem = (uint8_t*)(wbfixed ? calloc(wlen ? wlen : 1, 1) : malloc(wlen ? wlen : 1));
  if (!wbfixed || kv_get(kv, "wfill", NULL)) fill(wmem, wlen, kv_get(kv, "wfill", dfill));
  wuffs_base__slice_u8 wb = wuffs_base__make_slice_u8(wmem, wlen);

  if (!compact_mode) {
    // Window mode: single allocations, never compacted; each call reveals more.
    uint8_t* dmem = (uint8_t*)malloc(dtotal ? dtotal : 1);
    fill(dmem, dtotal, dfill);
    wuffs_base__io_buffer src;
    wuffs_base__io_buffer dst = wuffs_base__make_io_buffer(wuffs_base__make_slice_u8(dmem, 0),
                                                            wuffs_base__empty_io_buffer_meta());
    // the source buffer's capacity is the whole input from the start (len is
    // fixed); wi reveals bytes (salloc=exact: see srcwin_t). The destination's
    // len grows.
    srcwin_t sw;
    srcwin_init(&sw, &src, in, in_len, (size_t)plan_next(&sp, in_len), !strcmp(kv_get(kv, "salloc", "window"), "exact"));
    if (sw.revealed == in_len && close_early) src.meta.closed = true;
    dst.data.len = plan_next(&dp, dtotal);
    // canary behind the revealed window
    bool use_canary = dp.n > 0;
    if (use_canary) memset(dmem + dst.data.len, CANARY, dtotal - dst.data.len);
    int stall = 0;
    r->outcome = "final";
    for (;;) {
      snap_t ss, ds;
      src_before(&src, &ss);
      dst_before(&dst, &ds);
      g_alloc_events = 0;
      g_alloc_watch = 1;
      wuffs_base__status st = wuffs_base__io_transformer__transform_io(t, &dst, &src, wb);
      g_alloc_watch = 0;
      r->calls++;
      if (g_alloc_events) mon("transform_io: %ld allocator call(s) during the call", g_alloc_events);
      src_after("transform_io", &src, &ss);
      dst_after("transform_io", &dst, &ds);
      check_status("transform_io", st);
      if (use_canary) {
        for (size_t i = dst.data.len; i < dtotal; i++)
          if (dmem[i] != CANARY) {
            mon("transform_io: wrote past the destination capacity (offset %zu, len %zu)", i, dst.data.len);
            break;
          }
      }
      bool progressed = src.meta.ri != ss.m.ri || dst.meta.wi != ds.m.wi;
      if (st.repr == wuffs_base__suspension__short_read) {
        r->short_reads++;
        if (src.meta.ri < src.meta.wi && !progressed) {
          // unread bytes remain and nothing moved: acceptable only if more input is coming
        }
        if (sw.revealed < in_len) {
          srcwin_reveal(&sw, &src, (size_t)plan_next(&sp, in_len - sw.revealed));
          if (sw.revealed == in_len && close_early) src.meta.closed = true;
          stall = 0;
        } else if (!src.meta.closed) {
          src.meta.closed = true;
          stall = 0;
        } else {
          mon("transform_io: short read although the source is closed and fully supplied (ri=%zu wi=%zu)", src.meta.ri, src.meta.wi);
          r->final_status = st.repr;
          r->outcome = "stalled";
          break;
        }
        continue;
      }
      if (st.repr == wuffs_base__suspension__short_write) {
        r->short_writes++;
        if (dst.meta.wi == ds.m.wi && ds.m.wi == 0 && dst.data.len >= (1u << 20))
          mon("transform_io: short write with no byte written into an empty ample destination (len %zu)", dst.data.len);
        if (dst.data.len < dtotal) {
          size_t old = dst.data.len;
          dst.data.len += plan_next(&dp, dtotal - dst.data.len);
          (void)old;
          stall = 0;
        } else {
          r->final_status = st.repr;
          r->outcome = "dst_full";
          break;
        }
        continue;
      }
      if (st.repr == wuffs_base__suspension__short_workbuf) {
        int g = grow_workbuf(t, &wmem, &wlen, &wb);
        if (g == 0) continue;
        r->final_status = st.repr;
        r->outcome = g == 2 ? "workbuf_too_big" : "stalled";
        break;
      }
      if (wuffs_base__status__is_suspension(&st)) {
        // another suspension: not expected from an io_transformer
        if (!progressed && ++stall > 4) {
          r->final_status = st.repr;
          r->outcome = "stalled";
          break;
        }
        if (r->calls > 100000) {
          r->final_status = st.repr;
          r->outcome = "call_cap";
          break;
        }
        continue;
      }
      r->final_status = st.repr;
      break;
    }
    r->consumed = (size_t)src.meta.pos + src.meta.ri;
    r->out_len = dst.meta.wi;
    r->out_hash = fnv1a(FNV_INIT, dmem, dst.meta.wi);
    if (kv_get(kv, "out", NULL)) out_append(dmem, dst.meta.wi);
    free(src.data.ptr);
    free(dmem);
  } else {
    // Compacting mode, as example/zcat: fixed buffers, compact source, drain
    // destination retaining the reported history.
    uint64_t sbuf = kv_u64(kv, "sbuf", 4096), dbuf = kv_u64(kv, "dbuf", 65536 + 4096);
    uint8_t* smem = (uint8_t*)malloc(sbuf ? sbuf : 1);
    uint8_t* dmem = (uint8_t*)malloc(dbuf ? dbuf : 1);
    fill(dmem, dbuf, dfill);
    wuffs_base__io_buffer src = wuffs_base__make_io_buffer(wuffs_base__make_slice_u8(smem, sbuf),
                                                            wuffs_base__empty_io_buffer_meta());
    wuffs_base__io_buffer dst = wuffs_base__make_io_buffer(wuffs_base__make_slice_u8(dmem, dbuf),
                                                            wuffs_base__empty_io_buffer_meta());
    size_t fed = 0;
    r->outcome = "final";
    bool done = false;
    while (!done) {
      // feed
      wuffs_base__io_buffer__compact(&src);
      size_t room = src.data.len - src.meta.wi;
      size_t want = (size_t)plan_next(&sp, in_len - fed);
      if (want > room) want = room;
      if (want == 0 && fed < in_len && room > 0) want = (in_len - fed) < room ? (in_len - fed) : room;
      memcpy(src.data.ptr + src.meta.wi, in + fed, want);
      src.meta.wi += want;
      fed += want;
      if (fed == in_len) {
        if (close_early || want == 0) src.meta.closed = true;
      }
      if (want == 0 && room == 0) {
        r->outcome = "src_buffer_too_small";
        r->final_status = wuffs_base__suspension__short_read;
        break;
      }
      for (;;) {
        snap_t ss, ds;
        src_before(&src, &ss);
        dst_before(&dst, &ds);
        g_alloc_events = 0;
        g_alloc_watch = 1;
        wuffs_base__status st = wuffs_base__io_transformer__transform_io(t, &dst, &src, wb);
        g_alloc_watch = 0;
        r->calls++;
        if (g_alloc_events) mon("transform_io: %ld allocator call(s) during the call", g_alloc_events);
        src_after("transform_io", &src, &ss);
        dst_after("transform_io", &dst, &ds);
        check_status("transform_io", st);
        if (dst.meta.ri < dst.meta.wi) {
          size_t n = dst.meta.wi - dst.meta.ri;
          r->out_hash = fnv1a(r->out_hash, dmem + dst.meta.ri, n);
          r->out_len += n;
          if (kv_get(kv, "out", NULL)) out_append(dmem + dst.meta.ri, n);
          dst.meta.ri = dst.meta.wi;
          wuffs_base__optional_u63 hrl = wuffs_base__io_transformer__dst_history_retain_length(t);
          wuffs_base__io_buffer__compact_retaining(&dst, wuffs_base__optional_u63__value_or(&hrl, UINT64_MAX));
          if (dst.meta.wi == dst.data.len) {
            r->outcome = "dst_full";
            r->final_status = st.repr;
            done = true;
            break;
          }
        }
        if (st.repr == wuffs_base__suspension__short_read) {
          r->short_reads++;
          if (fed == in_len && src.meta.closed) {
            mon("transform_io: short read although the source is closed and fully supplied (ri=%zu wi=%zu)", src.meta.ri, src.meta.wi);
            r->final_status = st.repr;
            r->outcome = "stalled";
            done = true;
          }
          break;
        }
        if (st.repr == wuffs_base__suspension__short_workbuf) {
          int g = grow_workbuf(t, &wmem, &wlen, &wb);
          if (g == 0) continue;
          r->final_status = st.repr;
          r->outcome = g == 2 ? "workbuf_too_big" : "stalled";
          done = true;
          break;
        }
        if (st.repr == wuffs_base__suspension__short_write) {
          r->short_writes++;
          if (r->calls > 2000000) {
            r->outcome = "call_cap";
            r->final_status = st.repr;
            done = true;
            break;
          }
          continue;
        }
        r->final_status = st.repr;
        done = true;
        break;
      }
    }
    r->consumed = src.meta.pos + src.meta.ri;
    free(smem);
    free(dmem);
  }
  free(wmem);
}

// ---------------------------------------------------------------- decode: hashers

static void run_hasher(obj_t* o, const uint8_t* in, size_t in_len, const kv_t* kv, FILE* out) {
  plan_t sp;
  parse_plan(kv_get(kv, "splits", NULL), &sp);
  uint8_t* smem = (uint8_t*)malloc(in_len ? in_len : 1);
  memcpy(smem, in, in_len);
  size_t off = 0;
  uint64_t last = 0, updates = 0;
  wuffs_base__bitvec256 bv = {{0, 0, 0, 0}};
  uint64_t h0 = fnv1a(FNV_INIT, smem, in_len);
  do {
    size_t n = (size_t)plan_next(&sp, in_len - off);
    // exact-size copy so that the red zone sits right behind the piece
    uint8_t* piece = (uint8_t*)malloc(n ? n : 1);
    memcpy(piece, smem + off, n);
    wuffs_base__slice_u8 s = wuffs_base__make_slice_u8(piece, n);
    g_alloc_events = 0;
    g_alloc_watch = 1;
    switch (o->k->iface) {
      case IF_H32:
        last = wuffs_base__hasher_u32__update_u32((wuffs_base__hasher_u32*)o->up, s);
        break;
      case IF_H64:
        last = wuffs_base__hasher_u64__update_u64((wuffs_base__hasher_u64*)o->up, s);
        break;
      default:
        bv = wuffs_base__hasher_bitvec256__update_bitvec256((wuffs_base__hasher_bitvec256*)o->up, s);
        break;
    }
    g_alloc_watch = 0;
    if (g_alloc_events) mon("update: %ld allocator call(s) during the call", g_alloc_events);
    if (memcmp(piece, smem + off, n)) mon("update: source bytes changed");
    free(piece);
    off += n;
    updates++;
  } while (off < in_len);
  if (fnv1a(FNV_INIT, smem, in_len) != h0) mon("update: source bytes changed");
  uint64_t fin = 0;
  switch (o->k->iface) {
    case IF_H32:
      fin = wuffs_base__hasher_u32__checksum_u32((wuffs_base__hasher_u32*)o->up);
      break;
    case IF_H64:
      fin = wuffs_base__hasher_u64__checksum_u64((wuffs_base__hasher_u64*)o->up);
      break;
    default: {
      wuffs_base__bitvec256 c = wuffs_base__hasher_bitvec256__checksum_bitvec256((wuffs_base__hasher_bitvec256*)o->up);
      if (memcmp(&c, &bv, sizeof c)) mon("checksum_bitvec256 differs from the last update_bitvec256 result");
      bv = c;
    } break;
  }
  if (o->k->iface != IF_H256) {
    if (fin != last) mon("checksum differs from the last update result");
    fprintf(out, "\"value\":\"%016" PRIx64 "\",", fin);
  } else {
    fprintf(out, "\"value\":\"%016" PRIx64 "%016" PRIx64 "%016" PRIx64 "%016" PRIx64 "\",", bv.elements_u64[3],
            bv.elements_u64[2], bv.elements_u64[1], bv.elements_u64[0]);
  }
  fprintf(out, "\"updates\":%" PRIu64 ",", updates);
  g_sum.status = NULL;
  g_sum.consumed = in_len;
  g_sum.out_len = 0;
  g_sum.out_hash = (o->k->iface != IF_H256) ? fin : (bv.elements_u64[0] ^ bv.elements_u64[1] ^ bv.elements_u64[2] ^ bv.elements_u64[3]);
  g_sum.suspensions = updates;
  free(smem);
}

// ---------------------------------------------------------------- decode: image decoders

// A source feeder shared by image and token decoding (window mode only: the
// whole input is one allocation; wi reveals pieces).
typedef struct {
  wuffs_base__io_buffer src;
  srcwin_t sw;
  size_t in_len;
  plan_t sp;
  bool close_early;
  uint64_t short_reads;
} feeder_t;

static void feeder_init(feeder_t* f, const uint8_t* in, size_t in_len, const kv_t* kv) {
  f->in_len = in_len;
  parse_plan(kv_get(kv, "splits", NULL), &f->sp);
  f->close_early = !strcmp(kv_get(kv, "close", "early"), "early");
  f->short_reads = 0;
  srcwin_init(&f->sw, &f->src, in, in_len, (size_t)plan_next(&f->sp, in_len), !strcmp(kv_get(kv, "salloc", "window"), "exact"));
  if (f->sw.revealed == in_len && f->close_early) f->src.meta.closed = true;
}
static size_t feeder_consumed(const feeder_t* f) { return (size_t)f->src.meta.pos + f->src.meta.ri; }
// returns false if nothing more can be supplied (closed and complete)
static bool feeder_more(feeder_t* f) {
  f->short_reads++;
  if (f->sw.revealed < f->in_len) {
    srcwin_reveal(&f->sw, &f->src, (size_t)plan_next(&f->sp, f->in_len - f->sw.revealed));
    if (f->sw.revealed == f->in_len && f->close_early) f->src.meta.closed = true;
    return true;
  }
  if (!f->src.meta.closed) {
    f->src.meta.closed = true;
    return true;
  }
  return false;
}

static void run_img(obj_t* o, const uint8_t* in, size_t in_len, const kv_t* kv, FILE* out) {
  wuffs_base__image_decoder* d = (wuffs_base__image_decoder*)o->up;
  feeder_t f;
  feeder_init(&f, in, in_len, kv);
  const char* dfill = kv_get(kv, "dfill", "00");
  const char* pixfmt = kv_get(kv, "pixfmt", "bgra");
  uint64_t maxframes = kv_u64(kv, "maxframes", 16);
  uint64_t calls = 0;
  const char* final = NULL;
  const char* stage = "image_config";
  uint64_t frames = 0, pix_hash = FNV_INIT, all_hash = FNV_INIT;
  uint32_t w = 0, h = 0, nativefmt = 0;
  uint8_t* pixmem = NULL;
  uint8_t* wmem = NULL;
  size_t pixlen = 0;
  bool stalled = false;

  wuffs_base__image_config ic;
  memset(&ic, 0, sizeof ic);
  for (;;) {
    snap_t ss;
    src_before(&f.src, &ss);
    g_alloc_events = 0;
    g_alloc_watch = 1;
    wuffs_base__status st = wuffs_base__image_decoder__decode_image_config(d, &ic, &f.src);
    g_alloc_watch = 0;
    calls++;
    if (g_alloc_events) mon("decode_image_config: %ld allocator call(s)", g_alloc_events);
    src_after("decode_image_config", &f.src, &ss);
    check_status("decode_image_config", st);
    if (st.repr == wuffs_base__suspension__short_read) {
      if (!feeder_more(&f)) {
        mon("decode_image_config: short read although the source is closed and fully supplied");
        final = st.repr;
        stalled = true;
        break;
      }
      continue;
    }
    final = st.repr;
    if (wuffs_base__status__is_suspension(&st)) {
      stalled = true;  // e.g. even more information without tell_me_more: not driven here
    }
    break;
  }
  if (final == NULL && !stalled) {
    w = wuffs_base__pixel_config__width(&ic.pixcfg);
    h = wuffs_base__pixel_config__height(&ic.pixcfg);
    nativefmt = wuffs_base__pixel_config__pixel_format(&ic.pixcfg).repr;
    uint32_t fmt = nativefmt;
    if (!strcmp(pixfmt, "bgra"))
      fmt = WUFFS_BASE__PIXEL_FORMAT__BGRA_NONPREMUL;
    else if (!strcmp(pixfmt, "bgra64"))
      fmt = WUFFS_BASE__PIXEL_FORMAT__BGRA_NONPREMUL_4X16LE;
    else if (!strcmp(pixfmt, "rgba"))
      fmt = WUFFS_BASE__PIXEL_FORMAT__RGBA_NONPREMUL;
    else if (!strcmp(pixfmt, "bgrapre"))
      fmt = WUFFS_BASE__PIXEL_FORMAT__BGRA_PREMUL;
    else if (!strcmp(pixfmt, "y"))
      fmt = WUFFS_BASE__PIXEL_FORMAT__Y;
    uint64_t area = (uint64_t)w * (uint64_t)h;
    if (area > (16u << 20)) {
      final = "#wdrive: image too large for this harness";
    } else {
      wuffs_base__pixel_config__set(&ic.pixcfg, fmt, WUFFS_BASE__PIXEL_SUBSAMPLING__NONE, w, h);
      pixlen = wuffs_base__pixel_config__pixbuf_len(&ic.pixcfg);
      pixmem = (uint8_t*)malloc(pixlen ? pixlen : 1);
      fill(pixmem, pixlen, dfill);
      wuffs_base__pixel_buffer pb;
      wuffs_base__status st0 = wuffs_base__pixel_buffer__set_from_slice(&pb, &ic.pixcfg, wuffs_base__make_slice_u8(pixmem, pixlen));
      if (!wuffs_base__status__is_ok(&st0)) {
        final = st0.repr;
      } else {
        wuffs_base__range_ii_u64 wr = wuffs_base__image_decoder__workbuf_len(d);
        bool wbmax = !strcmp(kv_get(kv, "wb", "max"), "max");
        uint64_t wlen = wbmax ? wr.max_incl : wr.min_incl;
        if (wlen > (256u << 20)) {
          final = "#wdrive: work buffer too large for this harness";
        } else {
          wmem = (uint8_t*)malloc(wlen ? wlen : 1);
          fill(wmem, wlen, kv_get(kv, "wfill", dfill));
          wuffs_base__slice_u8 wb = wuffs_base__make_slice_u8(wmem, wlen);
          while (frames < maxframes && !final) {
            wuffs_base__frame_config fc;
            memset(&fc, 0, sizeof fc);
            stage = "frame_config";
            for (;;) {
              snap_t ss;
              src_before(&f.src, &ss);
              g_alloc_events = 0;
              g_alloc_watch = 1;
              wuffs_base__status st = wuffs_base__image_decoder__decode_frame_config(d, &fc, &f.src);
              g_alloc_watch = 0;
              calls++;
              if (g_alloc_events) mon("decode_frame_config: %ld allocator call(s)", g_alloc_events);
              src_after("decode_frame_config", &f.src, &ss);
              check_status("decode_frame_config", st);
              if (st.repr == wuffs_base__suspension__short_read) {
                if (!feeder_more(&f)) {
                  mon("decode_frame_config: short read although the source is closed and fully supplied");
                  final = st.repr;
                  stalled = true;
                  break;
                }
                continue;
              }
              if (!wuffs_base__status__is_ok(&st)) {
                final = st.repr;
                if (wuffs_base__status__is_suspension(&st)) stalled = true;
              }
              break;
            }
            if (final) break;
            stage = "frame";
            for (;;) {
              snap_t ss;
              src_before(&f.src, &ss);
              g_alloc_events = 0;
              g_alloc_watch = 1;
              wuffs_base__status st = wuffs_base__image_decoder__decode_frame(d, &pb, &f.src, WUFFS_BASE__PIXEL_BLEND__SRC, wb, NULL);
              g_alloc_watch = 0;
              calls++;
              if (g_alloc_events) mon("decode_frame: %ld allocator call(s)", g_alloc_events);
              src_after("decode_frame", &f.src, &ss);
              check_status("decode_frame", st);
              if (st.repr == wuffs_base__suspension__short_read) {
                if (!feeder_more(&f)) {
                  mon("decode_frame: short read although the source is closed and fully supplied");
                  final = st.repr;
                  stalled = true;
                  break;
                }
                continue;
              }
              if (!wuffs_base__status__is_ok(&st)) {
                final = st.repr;
                if (wuffs_base__status__is_suspension(&st)) stalled = true;
              }
              break;
            }
            pix_hash = fnv1a(FNV_INIT, pixmem, pixlen);
            all_hash = fnv1a(all_hash, (const uint8_t*)&pix_hash, sizeof pix_hash);
            {
              wuffs_base__rect_ie_u32 b = wuffs_base__frame_config__bounds(&fc);
              uint32_t fb[4] = {b.min_incl_x, b.min_incl_y, b.max_excl_x, b.max_excl_y};
              all_hash = fnv1a(all_hash, (const uint8_t*)fb, sizeof fb);
            }
            if (!final || !wuffs_base__status__is_suspension(&(wuffs_base__status){final})) frames++;
          }
        }
      }
    }
  }
  if (kv_get(kv, "out", NULL) && pixmem) out_append(pixmem, pixlen);
  fprintf(out, "\"status\":");
  json_str(out, final);
  fprintf(out, ",\"stage\":\"%s\",\"calls\":%" PRIu64 ",\"short_reads\":%" PRIu64 ",\"consumed\":%zu,\"w\":%u,\"h\":%u,\"nativefmt\":%u,\"frames\":%" PRIu64
               ",\"pix_len\":%zu,\"pix_hash\":\"%016" PRIx64 "\",\"all_hash\":\"%016" PRIx64 "\",\"stalled\":%s,",
          stage, calls, f.short_reads, feeder_consumed(&f), w, h, nativefmt, frames, pixlen, pix_hash, all_hash, stalled ? "true" : "false");
  {
    uint64_t ndf = wuffs_base__image_decoder__num_decoded_frames(d);
    uint64_t ndfc = wuffs_base__image_decoder__num_decoded_frame_configs(d);
    uint32_t loops = wuffs_base__image_decoder__num_animation_loops(d);
    fprintf(out, "\"getters\":[%" PRIu64 ",%" PRIu64 ",%u],", ndf, ndfc, loops);
  }
  g_sum.status = final;
  g_sum.consumed = feeder_consumed(&f);
  g_sum.out_len = pixlen;
  g_sum.out_hash = all_hash;
  g_sum.g[0] = wuffs_base__image_decoder__num_decoded_frames(d);
  g_sum.g[1] = wuffs_base__image_decoder__num_decoded_frame_configs(d);
  g_sum.g[2] = ((uint64_t)w << 32) | h;
  g_sum.stalled = stalled;
  g_sum.suspensions = f.short_reads;
  free(pixmem);
  free(wmem);
  free(f.src.data.ptr);
}

// ---------------------------------------------------------------- decode: token decoders

static void run_tok(obj_t* o, const uint8_t* in, size_t in_len, const kv_t* kv, FILE* out) {
  wuffs_base__token_decoder* d = (wuffs_base__token_decoder*)o->up;
  feeder_t f;
  feeder_init(&f, in, in_len, kv);
  uint64_t tcap = kv_u64(kv, "tcap", 256);
  if (tcap < 1) tcap = 1;
  wuffs_base__token* tmem = (wuffs_base__token*)malloc(tcap * sizeof(wuffs_base__token));
  wuffs_base__token_buffer tb = wuffs_base__make_token_buffer(wuffs_base__make_slice_token(tmem, tcap), wuffs_base__empty_token_buffer_meta());
  wuffs_base__range_ii_u64 wr = wuffs_base__token_decoder__workbuf_len(d);
  uint64_t wlen = wr.min_incl;
  uint8_t* wmem = (uint8_t*)malloc(wlen ? wlen : 1);
  wuffs_base__slice_u8 wb = wuffs_base__make_slice_u8(wmem, wlen);
  uint64_t calls = 0, ntok = 0, toklen = 0, short_writes = 0;
  const char* final = NULL;
  bool stalled = false;
  for (;;) {
    snap_t ss;
    src_before(&f.src, &ss);
    size_t twi = tb.meta.wi;
    g_alloc_events = 0;
    g_alloc_watch = 1;
    wuffs_base__status st = wuffs_base__token_decoder__decode_tokens(d, &tb, &f.src, wb);
    g_alloc_watch = 0;
    calls++;
    if (g_alloc_events) mon("decode_tokens: %ld allocator call(s)", g_alloc_events);
    src_after("decode_tokens", &f.src, &ss);
    check_status("decode_tokens", st);
    if (!(tb.meta.ri <= tb.meta.wi && tb.meta.wi <= tb.data.len)) mon("decode_tokens: token buffer indexes broken");
    if (tb.meta.wi < twi) mon("decode_tokens: token wi moved backwards");
    for (size_t i = tb.meta.ri; i < tb.meta.wi; i++) {
      toklen += wuffs_base__token__length(&tmem[i]);
      ntok++;
    }
    tb.meta.ri = tb.meta.wi;
    wuffs_base__token_buffer__compact(&tb);
    if (st.repr == wuffs_base__suspension__short_read) {
      if (!feeder_more(&f)) {
        mon("decode_tokens: short read although the source is closed and fully supplied");
        final = st.repr;
        stalled = true;
        break;
      }
      continue;
    }
    if (st.repr == wuffs_base__suspension__short_write) {
      short_writes++;
      if (calls > 4000000) {
        final = st.repr;
        stalled = true;
        break;
      }
      continue;
    }
    final = st.repr;
    break;
  }
  fprintf(out, "\"status\":");
  json_str(out, final);
  fprintf(out, ",\"calls\":%" PRIu64 ",\"short_reads\":%" PRIu64 ",\"short_writes\":%" PRIu64 ",\"consumed\":%zu,\"tokens\":%" PRIu64 ",\"token_len\":%" PRIu64 ",\"stalled\":%s,",
          calls, f.short_reads, short_writes, feeder_consumed(&f), ntok, toklen, stalled ? "true" : "false");
  g_sum.status = final;
  g_sum.consumed = feeder_consumed(&f);
  g_sum.out_len = toklen;
  g_sum.out_hash = 0;
  g_sum.stalled = stalled;
  g_sum.suspensions = f.short_reads + short_writes;
  free(tmem);
  free(wmem);
  free(f.src.data.ptr);
}

// ---------------------------------------------------------------- decode job

static void decode_with(obj_t* o, const uint8_t* in, size_t in_len, const kv_t* kv, FILE* out) {
  memset(&g_sum, 0, sizeof g_sum);
  switch (o->k->iface) {
    case IF_IOT: {
      iot_res_t r;
      run_iot(o, in, in_len, kv, &r);
      fprintf(out, "\"status\":");
      json_str(out, r.final_status);
      fprintf(out, ",\"outcome\":\"%s\",\"calls\":%" PRIu64 ",\"short_reads\":%" PRIu64 ",\"short_writes\":%" PRIu64 ",\"consumed\":%" PRIu64
                   ",\"out_len\":%" PRIu64 ",\"out_hash\":\"%016" PRIx64 "\",",
              r.outcome, r.calls, r.short_reads, r.short_writes, r.consumed, r.out_len, r.out_hash);
      wuffs_base__optional_u63 hrl = wuffs_base__io_transformer__dst_history_retain_length((wuffs_base__io_transformer*)o->up);
      fprintf(out, "\"getters\":[%" PRIu64 "],", wuffs_base__optional_u63__value_or(&hrl, UINT64_MAX));
      g_sum.status = r.final_status;
      g_sum.consumed = r.consumed;
      g_sum.out_len = r.out_len;
      g_sum.out_hash = r.out_hash;
      g_sum.g[0] = wuffs_base__optional_u63__value_or(&hrl, UINT64_MAX);
      g_sum.stalled = strcmp(r.outcome, "final") != 0;
      g_sum.suspensions = r.short_reads + r.short_writes;
    } break;
    case IF_IMG:
      run_img(o, in, in_len, kv, out);
      break;
    case IF_TOK:
      run_tok(o, in, in_len, kv, out);
      break;
    default:
      run_hasher(o, in, in_len, kv, out);
      break;
  }
}

static void job_decode(const kv_t* kv, FILE* out) {
  const kind_t* k = find_kind(kv_get(kv, "kind", ""));
  if (!k) {
    fprintf(out, "\"error\":\"unknown kind\",");
    return;
  }
  size_t in_len = 0;
  uint8_t* in = NULL;
  if (kv_get(kv, "in", NULL))
    in = read_file(kv_get(kv, "in", ""), &in_len);
  else
    in = from_hex(kv_get(kv, "hex", ""), &in_len);
  if (!in) {
    fprintf(out, "\"error\":\"cannot read input\",");
    return;
  }
  uint32_t opts = (uint32_t)kv_u64(kv, "opts", 0);
  obj_t o;
  obj_new(&o, k, kv_get(kv, "prefill", "00"));
  // Optional warm-up: decode another input first, then re-initialize the same memory.
  const char* pre = kv_get(kv, "prein", NULL);
  if (pre) {
    size_t pn = 0;
    uint8_t* pin = read_file(pre, &pn);
    if (pin) {
      wuffs_base__status st0 = obj_init(&o, 0);
      if (wuffs_base__status__is_ok(&st0)) {
        FILE* devnull = fopen("/dev/null", "w");
        mon_t saved = g_mon;
        decode_with(&o, pin, pn, kv, devnull);
        g_mon = saved;  // the warm-up decode is not the subject of this job
        fclose(devnull);
      }
      free(pin);
    }
    opts &= ~(uint32_t)WUFFS_INITIALIZE__ALREADY_ZEROED;
  }
  wuffs_base__status st = obj_init(&o, opts);
  fprintf(out, "\"init\":");
  json_str(out, st.repr);
  fputc(',', out);
  if (wuffs_base__status__is_ok(&st)) {
    apply_quirks(&o, kv_get(kv, "quirks", NULL), out);
    decode_with(&o, in, in_len, kv, out);
    const char* op = kv_get(kv, "out", NULL);
    if (op) {
      FILE* of = fopen(op, "wb");
      if (of) {
        fwrite(g_out, 1, g_out_len, of);
        fclose(of);
      }
      g_out_len = 0;
    }
  }
  obj_free(&o);
  free(in);
}

// ---------------------------------------------------------------- sweep jobs (C05: every single split point)

static void kv_set(kv_t* kv, const char* k, char* v) {
  for (int i = 0; i < kv->n; i++)
    if (!strcmp(kv->k[i], k)) {
      kv->v[i] = v;
      return;
    }
  if (kv->n < MAXKV) {
    kv->k[kv->n] = (char*)k;
    kv->v[kv->n] = v;
    kv->n++;
  }
}

static FILE* g_devnull = NULL;

static void one_run(const kind_t* k, const uint8_t* in, size_t in_len, const kv_t* kv, summary_t* s) {
  obj_t o;
  obj_new(&o, k, kv_get(kv, "prefill", "00"));
  wuffs_base__status st = obj_init(&o, (uint32_t)kv_u64(kv, "opts", 0));
  memset(s, 0, sizeof *s);
  if (wuffs_base__status__is_ok(&st)) {
    apply_quirks(&o, kv_get(kv, "quirks", NULL), g_devnull);
    decode_with(&o, in, in_len, kv, g_devnull);
    *s = g_sum;
  } else {
    s->status = st.repr;
  }
  obj_free(&o);
}

static bool str_eq(const char* a, const char* b) {
  if (!a || !b) return a == b;
  return !strcmp(a, b);
}

static void job_sweep(kv_t* kv, FILE* out) {
  const kind_t* k = find_kind(kv_get(kv, "kind", ""));
  size_t in_len = 0;
  uint8_t* in = kv_get(kv, "in", NULL) ? read_file(kv_get(kv, "in", ""), &in_len) : from_hex(kv_get(kv, "hex", ""), &in_len);
  if (!k || !in) {
    fprintf(out, "\"error\":\"bad kind or input\",");
    free(in);
    return;
  }
  if (!g_devnull) g_devnull = fopen("/dev/null", "w");
  bool dst_axis = !strcmp(kv_get(kv, "axis", "src"), "dst");
  summary_t ref;
  one_run(k, in, in_len, kv, &ref);
  int ref_mon = g_mon.n;
  uint64_t from = kv_u64(kv, "from", 0), to = kv_u64(kv, "to", dst_axis ? ref.out_len + 1 : in_len + 1), step = kv_u64(kv, "step", 1);
  if (step < 1) step = 1;
  uint64_t runs = 0, resumed = 0, mismatches = 0;
  char buf[64];
  char first_mm[400] = "";
  for (uint64_t p = from; p < to; p += step) {
    snprintf(buf, sizeof buf, "%" PRIu64, p);
    kv_t kv2 = *kv;
    kv_set(&kv2, dst_axis ? "dcaps" : "splits", buf);
    summary_t s;
    one_run(k, in, in_len, &kv2, &s);
    runs++;
    if (s.suspensions > 0) resumed++;
    bool err = s.status && s.status[0] == '#';
    bool referr = ref.status && ref.status[0] == '#';
    bool same = str_eq(s.status, ref.status) && s.out_len == ref.out_len && s.out_hash == ref.out_hash && s.g[0] == ref.g[0] && s.g[1] == ref.g[1] &&
                s.g[2] == ref.g[2] && s.stalled == ref.stalled;
    if (same && !err && !referr && s.consumed != ref.consumed) same = false;
    if (!same) {
      if (!mismatches)
        snprintf(first_mm, sizeof first_mm,
                 "split=%" PRIu64 ": status %.40s vs one-shot %.40s; out %" PRIu64 ":%016" PRIx64 " vs %" PRIu64 ":%016" PRIx64 "; consumed %" PRIu64 " vs %" PRIu64, p,
                 s.status ? s.status : "ok", ref.status ? ref.status : "ok", s.out_len, s.out_hash, ref.out_len, ref.out_hash, s.consumed, ref.consumed);
      mismatches++;
    }
  }
  (void)ref_mon;
  fprintf(out, "\"sweep\":\"%s\",\"status\":", dst_axis ? "dst" : "src");
  json_str(out, ref.status);
  fprintf(out, ",\"first_mismatch\":");
  json_str(out, first_mm);
  fprintf(out, ",\"runs\":%" PRIu64 ",\"resumed\":%" PRIu64 ",\"mismatches\":%" PRIu64 ",\"in_len\":%zu,\"out_len\":%" PRIu64 ",\"consumed\":%" PRIu64 ",", runs, resumed, mismatches, in_len,
          ref.out_len, ref.consumed);
  free(in);
}

// ---------------------------------------------------------------- history jobs (C08 / C10 pure-call monitor)
//
// A history is a block of lines between "job=hist ..." and "end". Each line is
// one step; every "call" prints one JSON line with the observations.

typedef struct {
  obj_t o;
  bool have_obj;
  uint8_t* smem;
  size_t slen;
  wuffs_base__io_buffer src;
  bool src_null;
  uint8_t* dmem;
  size_t dcap;
  wuffs_base__io_buffer dst;
  bool dst_null;
  uint8_t* wmem;
  size_t wlen;
  wuffs_base__image_config ic;
  wuffs_base__frame_config fc;
  wuffs_base__pixel_buffer pb;
  bool have_pb;
  uint8_t* pixmem;
  size_t pixlen;
  wuffs_base__token* tmem;
  wuffs_base__token_buffer tb;
} hist_t;

static void hist_free(hist_t* h) {
  if (h->have_obj) obj_free(&h->o);
  free(h->smem);
  free(h->dmem);
  free(h->wmem);
  free(h->pixmem);
  free(h->tmem);
  memset(h, 0, sizeof *h);
}

static void print_buf(FILE* out, const char* name, const wuffs_base__io_buffer* b, bool isnull) {
  if (isnull) {
    fprintf(out, "\"%s\":null,", name);
    return;
  }
  fprintf(out, "\"%s\":{\"ri\":%zu,\"wi\":%zu,\"len\":%zu,\"pos\":%" PRIu64 ",\"closed\":%s},", name, b->meta.ri, b->meta.wi, b->data.len, b->meta.pos,
          b->meta.closed ? "true" : "false");
}

static void hist_call(hist_t* h, const kv_t* kv, FILE* out, int jobno, int step) {
  const char* fn = kv_get(kv, "call", "");
  g_mon.n = 0;
  fprintf(out, "{\"job\":%d,\"step\":%d,\"call\":\"%s\",", jobno, step, fn);
  if (!h->have_obj) {
    fprintf(out, "\"error\":\"no object\"}\n");
    return;
  }
  obj_t* o = &h->o;
  // interface pointer even if not initialised (the prologue must cope)
  void* up = o->mem;
  wuffs_base__io_buffer* sp = h->src_null ? NULL : &h->src;
  wuffs_base__io_buffer* dp = h->dst_null ? NULL : &h->dst;
  snap_t ss, ds;
  if (sp) src_before(sp, &ss);
  if (dp) dst_before(dp, &ds);
  uint8_t* objcopy = (uint8_t*)malloc(o->size);
  memcpy(objcopy, o->mem, o->size);
  wuffs_base__slice_u8 wb = wuffs_base__make_slice_u8(h->wmem, kv_get(kv, "wb0", NULL) ? 0 : h->wlen);
  wuffs_base__status st = wuffs_base__make_status(NULL);
  bool has_status = true, pure = false;
  uint64_t value = 0;
  g_alloc_events = 0;
  g_alloc_watch = 1;
  int ifc = o->k->iface;
  if (!strcmp(fn, "transform_io") && ifc == IF_IOT) {
    st = wuffs_base__io_transformer__transform_io((wuffs_base__io_transformer*)up, dp, sp, wb);
  } else if (!strcmp(fn, "decode_image_config") && ifc == IF_IMG) {
    st = wuffs_base__image_decoder__decode_image_config((wuffs_base__image_decoder*)up, kv_get(kv, "nullcfg", NULL) ? NULL : &h->ic, sp);
    dp = NULL;
  } else if (!strcmp(fn, "decode_frame_config") && ifc == IF_IMG) {
    st = wuffs_base__image_decoder__decode_frame_config((wuffs_base__image_decoder*)up, kv_get(kv, "nullcfg", NULL) ? NULL : &h->fc, sp);
    dp = NULL;
  } else if (!strcmp(fn, "decode_frame") && ifc == IF_IMG) {
    if (!h->have_pb) {
      // allocate a pixel buffer from the current image config, if any
      uint32_t w = wuffs_base__pixel_config__width(&h->ic.pixcfg), hh = wuffs_base__pixel_config__height(&h->ic.pixcfg);
      if (w && hh && (uint64_t)w * hh <= (4u << 20)) {
        wuffs_base__pixel_config pc = h->ic.pixcfg;
        wuffs_base__pixel_config__set(&pc, WUFFS_BASE__PIXEL_FORMAT__BGRA_NONPREMUL, WUFFS_BASE__PIXEL_SUBSAMPLING__NONE, w, hh);
        h->pixlen = wuffs_base__pixel_config__pixbuf_len(&pc);
        h->pixmem = (uint8_t*)malloc(h->pixlen ? h->pixlen : 1);
        memset(h->pixmem, 0, h->pixlen);
        wuffs_base__status s0 = wuffs_base__pixel_buffer__set_from_slice(&h->pb, &pc, wuffs_base__make_slice_u8(h->pixmem, h->pixlen));
        h->have_pb = wuffs_base__status__is_ok(&s0);
      }
    }
    st = wuffs_base__image_decoder__decode_frame((wuffs_base__image_decoder*)up, h->have_pb ? &h->pb : NULL, sp, WUFFS_BASE__PIXEL_BLEND__SRC, wb, NULL);
    dp = NULL;
  } else if (!strcmp(fn, "tell_me_more") && ifc == IF_IMG) {
    wuffs_base__more_information mi;
    memset(&mi, 0, sizeof mi);
    st = wuffs_base__image_decoder__tell_me_more((wuffs_base__image_decoder*)up, dp, &mi, sp);
  } else if (!strcmp(fn, "restart_frame") && ifc == IF_IMG) {
    st = wuffs_base__image_decoder__restart_frame((wuffs_base__image_decoder*)up, kv_u64(kv, "index", 0), kv_u64(kv, "iopos", 0));
    sp = NULL;
    dp = NULL;
  } else if (!strcmp(fn, "decode_tokens") && ifc == IF_TOK) {
    st = wuffs_base__token_decoder__decode_tokens((wuffs_base__token_decoder*)up, kv_get(kv, "nulldst", NULL) ? NULL : &h->tb, sp, wb);
    h->tb.meta.ri = h->tb.meta.wi;
    wuffs_base__token_buffer__compact(&h->tb);
    dp = NULL;
  } else if (!strcmp(fn, "set_report_metadata") && ifc == IF_IMG) {
    wuffs_base__image_decoder__set_report_metadata((wuffs_base__image_decoder*)up, (uint32_t)kv_u64(kv, "fourcc", 0), kv_u64(kv, "report", 1) != 0);
    has_status = false;
    sp = NULL;
    dp = NULL;
  } else if (!strcmp(fn, "set_quirk")) {
    uint32_t key = (uint32_t)kv_u64(kv, "key", 0);
    uint64_t val = kv_u64(kv, "val", 1);
    switch (ifc) {
      case IF_IOT: st = wuffs_base__io_transformer__set_quirk((wuffs_base__io_transformer*)up, key, val); break;
      case IF_IMG: st = wuffs_base__image_decoder__set_quirk((wuffs_base__image_decoder*)up, key, val); break;
      case IF_TOK: st = wuffs_base__token_decoder__set_quirk((wuffs_base__token_decoder*)up, key, val); break;
      case IF_H32: st = wuffs_base__hasher_u32__set_quirk((wuffs_base__hasher_u32*)up, key, val); break;
      case IF_H64: st = wuffs_base__hasher_u64__set_quirk((wuffs_base__hasher_u64*)up, key, val); break;
      default: st = wuffs_base__hasher_bitvec256__set_quirk((wuffs_base__hasher_bitvec256*)up, key, val); break;
    }
    sp = NULL;
    dp = NULL;
  } else if (!strcmp(fn, "get_quirk")) {
    uint32_t key = (uint32_t)kv_u64(kv, "key", 0);
    has_status = false;
    pure = true;
    switch (ifc) {
      case IF_IOT: value = wuffs_base__io_transformer__get_quirk((const wuffs_base__io_transformer*)up, key); break;
      case IF_IMG: value = wuffs_base__image_decoder__get_quirk((const wuffs_base__image_decoder*)up, key); break;
      case IF_TOK: value = wuffs_base__token_decoder__get_quirk((const wuffs_base__token_decoder*)up, key); break;
      case IF_H32: value = wuffs_base__hasher_u32__get_quirk((const wuffs_base__hasher_u32*)up, key); break;
      case IF_H64: value = wuffs_base__hasher_u64__get_quirk((const wuffs_base__hasher_u64*)up, key); break;
      default: value = wuffs_base__hasher_bitvec256__get_quirk((const wuffs_base__hasher_bitvec256*)up, key); break;
    }
    sp = NULL;
    dp = NULL;
  } else if (!strcmp(fn, "workbuf_len")) {
    has_status = false;
    pure = true;
    wuffs_base__range_ii_u64 r = {0, 0};
    switch (ifc) {
      case IF_IOT: r = wuffs_base__io_transformer__workbuf_len((const wuffs_base__io_transformer*)up); break;
      case IF_IMG: r = wuffs_base__image_decoder__workbuf_len((const wuffs_base__image_decoder*)up); break;
      case IF_TOK: r = wuffs_base__token_decoder__workbuf_len((const wuffs_base__token_decoder*)up); break;
      default: break;
    }
    value = r.min_incl ^ (r.max_incl << 1);
    sp = NULL;
    dp = NULL;
  } else if (!strcmp(fn, "history_len") && ifc == IF_IOT) {
    has_status = false;
    pure = true;
    wuffs_base__optional_u63 v = wuffs_base__io_transformer__dst_history_retain_length((const wuffs_base__io_transformer*)up);
    value = wuffs_base__optional_u63__value_or(&v, UINT64_MAX);
    sp = NULL;
    dp = NULL;
  } else if (!strcmp(fn, "img_getters") && ifc == IF_IMG) {
    has_status = false;
    pure = true;
    const wuffs_base__image_decoder* d = (const wuffs_base__image_decoder*)up;
    wuffs_base__rect_ie_u32 r = wuffs_base__image_decoder__frame_dirty_rect(d);
    value = wuffs_base__image_decoder__num_decoded_frames(d) ^ (wuffs_base__image_decoder__num_decoded_frame_configs(d) << 8) ^
            ((uint64_t)wuffs_base__image_decoder__num_animation_loops(d) << 16) ^ ((uint64_t)r.max_excl_x << 32);
    sp = NULL;
    dp = NULL;
  } else if (!strcmp(fn, "checksum")) {
    has_status = false;
    pure = true;
    switch (ifc) {
      case IF_H32: value = wuffs_base__hasher_u32__checksum_u32((const wuffs_base__hasher_u32*)up); break;
      case IF_H64: value = wuffs_base__hasher_u64__checksum_u64((const wuffs_base__hasher_u64*)up); break;
      case IF_H256: {
        wuffs_base__bitvec256 b = wuffs_base__hasher_bitvec256__checksum_bitvec256((const wuffs_base__hasher_bitvec256*)up);
        value = b.elements_u64[0];
      } break;
      default: break;
    }
    sp = NULL;
    dp = NULL;
  } else if (!strcmp(fn, "update")) {
    has_status = false;
    wuffs_base__slice_u8 s = sp ? wuffs_base__make_slice_u8(sp->data.ptr + sp->meta.ri, sp->meta.wi - sp->meta.ri) : wuffs_base__make_slice_u8(NULL, 0);
    switch (ifc) {
      case IF_H32: wuffs_base__hasher_u32__update((wuffs_base__hasher_u32*)up, s); break;
      case IF_H64: wuffs_base__hasher_u64__update((wuffs_base__hasher_u64*)up, s); break;
      case IF_H256: wuffs_base__hasher_bitvec256__update((wuffs_base__hasher_bitvec256*)up, s); break;
      default: break;
    }
    dp = NULL;
  } else {
    g_alloc_watch = 0;
    fprintf(out, "\"error\":\"unknown call for this interface\"}\n");
    free(objcopy);
    return;
  }
  g_alloc_watch = 0;
  if (g_alloc_events) mon("%s: %ld allocator call(s) during the call", fn, g_alloc_events);
  if (sp) src_after(fn, sp, &ss);
  if (dp) dst_after(fn, dp, &ds);
  if (has_status) check_status(fn, st);
  bool obj_changed = memcmp(objcopy, o->mem, o->size) != 0;
  if (pure && obj_changed) mon("%s: a pure method changed the receiver's bytes", fn);
  free(objcopy);
  if (has_status) {
    fprintf(out, "\"status\":");
    json_str(out, st.repr);
    fputc(',', out);
  } else {
    fprintf(out, "\"value\":\"%" PRIx64 "\",", value);
  }
  {
    uint32_t magic;
    memcpy(&magic, o->mem, 4);
    fprintf(out, "\"magic\":\"%s\",", magic == 0x3CCB6C71u ? "MAGIC" : magic == 0x075AE3D2u ? "DISABLED" : magic == 0 ? "ZERO" : "OTHER");
  }
  print_buf(out, "src", &h->src, h->src_null || !sp);
  print_buf(out, "dst", &h->dst, h->dst_null || !dp);
  fprintf(out, "\"pure\":%s,\"obj_changed\":%s,", pure ? "true" : "false", obj_changed ? "true" : "false");
  print_mon(out);
  fprintf(out, "}\n");
}

static void job_hist(FILE* script, const kv_t* kv0, FILE* out, int jobno) {
  hist_t h;
  memset(&h, 0, sizeof h);
  char line[1 << 16];
  int step = 0;
  (void)kv0;
  while (fgets(line, sizeof line, script)) {
    kv_t kv;
    char copy[1 << 16];
    strcpy(copy, line);
    parse_kv(copy, &kv);
    const char* op = kv_get(&kv, "op", "");
    if (!strncmp(line, "end", 3)) break;
    step++;
    if (!strcmp(op, "new")) {
      if (h.have_obj) obj_free(&h.o);
      const kind_t* k = find_kind(kv_get(&kv, "kind", ""));
      if (!k) continue;
      obj_new(&h.o, k, kv_get(&kv, "prefill", "a5"));
      h.have_obj = true;
      h.have_pb = false;
      memset(&h.ic, 0, sizeof h.ic);
      free(h.wmem);
      h.wlen = (size_t)kv_u64(&kv, "wb", 1 << 20);
      h.wmem = (uint8_t*)malloc(h.wlen ? h.wlen : 1);
      free(h.tmem);
      h.tmem = (wuffs_base__token*)malloc(64 * sizeof(wuffs_base__token));
      h.tb = wuffs_base__make_token_buffer(wuffs_base__make_slice_token(h.tmem, 64), wuffs_base__empty_token_buffer_meta());
    } else if (!strcmp(op, "init")) {
      if (!h.have_obj) continue;
      size_t sz = h.o.size + (size_t)(int64_t)strtoll(kv_get(&kv, "dsize", "0"), NULL, 0);
      uint64_t ver = WUFFS_VERSION;
      const char* v = kv_get(&kv, "ver", "ok");
      if (!strcmp(v, "major+1")) ver = WUFFS_VERSION + (1ull << 32);
      else if (!strcmp(v, "minor+1")) ver = WUFFS_VERSION + (1ull << 16);
      else if (strcmp(v, "ok")) ver = strtoull(v, NULL, 0);
      uint32_t opts = (uint32_t)kv_u64(&kv, "opts", 0);
      g_mon.n = 0;
      wuffs_base__status st = h.o.k->init(h.o.mem, sz, ver, opts);
      fprintf(out, "{\"job\":%d,\"step\":%d,\"call\":\"initialize\",\"dsize\":%s,\"ver\":\"%s\",\"status\":", jobno, step, kv_get(&kv, "dsize", "0"), v);
      json_str(out, st.repr);
      uint32_t magic;
      memcpy(&magic, h.o.mem, 4);
      fprintf(out, ",\"magic\":\"%s\",", magic == 0x3CCB6C71u ? "MAGIC" : magic == 0x075AE3D2u ? "DISABLED" : magic == 0 ? "ZERO" : "OTHER");
      print_mon(out);
      fprintf(out, "}\n");
      h.have_pb = false;
    } else if (!strcmp(op, "src")) {
      free(h.smem);
      h.smem = NULL;
      h.src_null = false;
      if (kv_get(&kv, "null", NULL)) {
        h.src_null = true;
        continue;
      }
      if (kv_get(&kv, "in", NULL))
        h.smem = read_file(kv_get(&kv, "in", ""), &h.slen);
      else
        h.smem = from_hex(kv_get(&kv, "hex", ""), &h.slen);
      if (!h.smem) {
        h.smem = (uint8_t*)malloc(1);
        h.slen = 0;
      }
      h.src = wuffs_base__make_io_buffer(wuffs_base__make_slice_u8(h.smem, h.slen), wuffs_base__empty_io_buffer_meta());
      h.src.meta.wi = (size_t)kv_u64(&kv, "wi", h.slen);
      if (h.src.meta.wi > h.slen) h.src.meta.wi = h.slen;
      h.src.meta.ri = (size_t)kv_u64(&kv, "ri", 0);
      if (h.src.meta.ri > h.src.meta.wi) h.src.meta.ri = h.src.meta.wi;
      h.src.meta.closed = kv_u64(&kv, "closed", 0) != 0;
    } else if (!strcmp(op, "srcmeta")) {
      if (h.src_null || !h.smem) continue;
      size_t wi = (size_t)kv_u64(&kv, "wi", h.src.meta.wi);
      if (wi > h.slen) wi = h.slen;
      if (wi >= h.src.meta.wi) h.src.meta.wi = wi;
      if (kv_get(&kv, "closed", NULL)) h.src.meta.closed = kv_u64(&kv, "closed", 0) != 0;
    } else if (!strcmp(op, "dst")) {
      free(h.dmem);
      h.dmem = NULL;
      h.dst_null = false;
      if (kv_get(&kv, "null", NULL)) {
        h.dst_null = true;
        continue;
      }
      h.dcap = (size_t)kv_u64(&kv, "cap", 4096);
      h.dmem = (uint8_t*)malloc(h.dcap ? h.dcap : 1);
      fill(h.dmem, h.dcap, kv_get(&kv, "fill", "a5"));
      h.dst = wuffs_base__make_io_buffer(wuffs_base__make_slice_u8(h.dmem, h.dcap), wuffs_base__empty_io_buffer_meta());
    } else if (!strcmp(op, "drain")) {
      if (!h.dst_null && h.dmem) {
        h.dst.meta.ri = h.dst.meta.wi;
        if (kv_get(&kv, "compact", NULL)) wuffs_base__io_buffer__compact(&h.dst);
      }
    } else if (!strcmp(op, "call")) {
      hist_call(&h, &kv, out, jobno, step);
    }
    fflush(out);
  }
  hist_free(&h);
}

// ---------------------------------------------------------------- main

static int g_jobno = 0;
static void on_cpu_alarm(int sig) {
  (void)sig;
  char buf[64];
  int n = snprintf(buf, sizeof buf, "CPUBUDGET job %d\n", g_jobno);
  if (write(2, buf, (size_t)n) < 0) {
  }
  _exit(97);
}

int main(int argc, char** argv) {
  if (argc < 3) {
    fprintf(stderr, "usage: wdrive <script> <output> [first_job]\n");
    return 2;
  }
  FILE* script = fopen(argv[1], "r");
  FILE* out = fopen(argv[2], "a");
  int first = argc > 3 ? atoi(argv[3]) : 0;
  if (!script || !out) {
    fprintf(stderr, "wdrive: cannot open script/output\n");
    return 2;
  }
  signal(SIGVTALRM, on_cpu_alarm);
  static char line[1 << 20];
  // harness canary: detects silent corruption of the driver's own state
  static volatile uint64_t canary_a = 0x1122334455667788ull;
  while (fgets(line, sizeof line, script)) {
    if (line[0] == '#' || line[0] == '\n') continue;
    static char copy[1 << 20];
    strcpy(copy, line);
    kv_t kv;
    parse_kv(copy, &kv);
    const char* job = kv_get(&kv, "job", NULL);
    if (!job) continue;
    int jobno = g_jobno++;
    if (jobno < first) {
      if (!strcmp(job, "hist")) {
        // skip the block
        while (fgets(line, sizeof line, script) && strncmp(line, "end", 3)) {
        }
      }
      continue;
    }
    fprintf(out, "BEGIN %d\n", jobno);
    fflush(out);
    // CPU budget per job (virtual time: a logical bound, not wall clock)
    struct itimerval it;
    memset(&it, 0, sizeof it);
    it.it_value.tv_sec = (time_t)kv_u64(&kv, "cpu", 20);
    setitimer(ITIMER_VIRTUAL, &it, NULL);
    if (!strcmp(job, "decode")) {
      g_mon.n = 0;
      fprintf(out, "{\"job\":%d,", jobno);
      job_decode(&kv, out);
      print_mon(out);
      fprintf(out, "}\n");
    } else if (!strcmp(job, "sweep")) {
      g_mon.n = 0;
      fprintf(out, "{\"job\":%d,", jobno);
      job_sweep(&kv, out);
      print_mon(out);
      fprintf(out, "}\n");
    } else if (!strcmp(job, "hist")) {
      job_hist(script, &kv, out, jobno);
    }
    memset(&it, 0, sizeof it);
    setitimer(ITIMER_VIRTUAL, &it, NULL);
    if (canary_a != 0x1122334455667788ull) {
      fprintf(out, "{\"job\":%d,\"mon\":[\"driver canary overwritten\"]}\n", jobno);
    }
    fprintf(out, "END %d\n", jobno);
    fflush(out);
  }
  fclose(out);
  fclose(script);
  return 0;
}
