#!/bin/bash
# usage: tools/wtry.sh file.wuffs  -- run the real wuffs-c on one file (package vt); print OK or the error
cd /tmp/wtry && ./wuffs-c gen -package_name vt "$1" > /tmp/wtry/out.c 2> /tmp/wtry/err.txt && echo "ACCEPTED ($(wc -l < /tmp/wtry/out.c) lines of C)" || { echo "REJECTED: $(head -c 600 /tmp/wtry/err.txt)"; }
