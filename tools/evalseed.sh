#!/bin/bash
# usage: tools/evalseed.sh <seed-dir> <check-id> [tier] [VERIF_SEED]  (optional env SKIPTESTS=1)
# Applies <seed-dir>/patch.diff in a scratch worktree of /repo HEAD, confirms the repo's Go tests still pass,
# runs the named check against that worktree (VERIF_REPO), removes the worktree.
set -u
D=$1; ID=$2; TIER=${3:-quick}; SEED=${4:-1}
N=$(basename $D)
WT=/tmp/ev-$N-$$
export GOFLAGS=-mod=mod GOPROXY=off GOSUMDB=off GOTOOLCHAIN=local
git -C /repo worktree add -q --detach $WT HEAD || exit 3
if ! git -C $WT apply $D/patch.diff 2>/tmp/ev-$N.applyerr; then echo "$N: PATCH DOES NOT APPLY: $(head -2 /tmp/ev-$N.applyerr)"; git -C /repo worktree remove --force $WT; exit 3; fi
if [ -z "${SKIPTESTS:-}" ]; then
  ( cd $WT && go build ./... && go test -vet=off -count=1 ./... ) > /tmp/ev-$N.tests 2>&1 && echo "$N: repo tests PASS with patch" || { echo "$N: repo tests FAIL with patch"; tail -5 /tmp/ev-$N.tests; }
fi
cd /verif
VERIF_SEED=$SEED VERIF_REPO=$WT bin/vcheck $ID --tier $TIER > /tmp/ev-$N.$ID.out 2> /tmp/ev-$N.$ID.err; st=$?
git -C /repo worktree remove --force $WT
echo "$N: check $ID tier=$TIER seed=$SEED exit=$st  violations=$(grep -c VIOLATION /tmp/ev-$N.$ID.out)"
grep -E "violation sig" -A1 /tmp/ev-$N.$ID.err | head -8 | cut -c1-300
tail -1 /tmp/ev-$N.$ID.err | cut -c1-200
