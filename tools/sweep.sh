#!/bin/bash
# usage: tools/sweep.sh <tier> <seed> id...   -- run checks sequentially, one summary line each
TIER=$1; SEED=$2; shift 2
cd /verif
for id in "$@"; do
  s=$(date +%s)
  VERIF_SEED=$SEED bin/vcheck $id --tier $TIER > /tmp/sweep.$id.$SEED.out 2> /tmp/sweep.$id.$SEED.err; st=$?
  e=$(date +%s)
  echo "$id seed=$SEED tier=$TIER exit=$st wall=$((e-s))s $(grep -c VIOLATION /tmp/sweep.$id.$SEED.out) viol $(grep -c KNOWN-FINDING /tmp/sweep.$id.$SEED.out) known | $(tail -1 /tmp/sweep.$id.$SEED.err | cut -c1-160)"
done
