#!/bin/bash
# usage: tools/matrixmut.sh <patch.diff> [family]  -- build the dev tool against a scratch worktree of /repo with the patch applied
# and print the accepted-with-events lines of the family's variant matrix (interpreter only; fast triage of checker mutants)
set -u
P=$(realpath $1); FAM=${2:-M-kill}
WT=/tmp/mm-$$
export GOFLAGS=-mod=mod GOPROXY=off GOSUMDB=off GOTOOLCHAIN=local
git -C /repo worktree add -q --detach $WT HEAD || exit 3
trap "git -C /repo worktree remove --force $WT" EXIT
git -C $WT apply $P || exit 3
sed "s#=> /repo#=> $WT#" /verif/go.mod > $WT.mod; cp /verif/go.sum $WT.sum
cd /verif && go build -tags verif -modfile=$WT.mod -o $WT.bin ./cmd/wprogtest && $WT.bin -matrix $FAM | grep -v "ACCEPTED ok" | cut -c1-250 | head -${LINES_MAX:-12}
rm -f $WT.mod $WT.sum $WT.bin
