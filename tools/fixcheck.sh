#!/bin/bash
# usage: tools/fixcheck.sh  -- on /repo's working tree: build, run the repo's Go tests (hooks off), regenerate std and
# report whether release/c/wuffs-unsupported-snapshot.c changed. Leaves no gen/ directory behind.
export GOFLAGS=-mod=mod GOPROXY=off GOSUMDB=off GOTOOLCHAIN=local
cd /repo || exit 3
go build ./... || { echo "BUILD FAILS"; exit 1; }
go vet ./lang/... ./internal/... >/dev/null 2>&1 || echo "(vet complains)"
go test -vet=off -count=1 ./... 2>&1 | grep -v "no test files" | grep -v "^ok" ; echo "tests done (only failures listed above)"
mkdir -p /tmp/wtools && go build -o /tmp/wtools/wuffs ./cmd/wuffs && go build -o /tmp/wtools/wuffs-c ./cmd/wuffs-c || exit 1
PATH=/tmp/wtools:$PATH /tmp/wtools/wuffs gen >/tmp/wtools/gen.log 2>&1 || { echo "wuffs gen FAILED"; tail -5 /tmp/wtools/gen.log; }
rm -rf /repo/gen
git status --short
