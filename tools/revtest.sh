#!/bin/bash
# usage: tools/revtest.sh <commit> <id> [tier]  -- revert one /repo commit in a scratch worktree and run a check there.
set -u
C=$1; ID=$2; TIER=${3:-quick}
WT=/tmp/wt-rev-$C
git -C /repo worktree add -q --detach $WT HEAD || exit 3
( cd $WT && git revert --no-edit $C >/dev/null 2>&1 ) || { echo "revert failed"; git -C /repo worktree remove --force $WT; exit 3; }
cd /verif
VERIF_REPO=$WT bin/vcheck $ID --tier $TIER > /tmp/revtest.$C.out 2>/tmp/revtest.$C.err; st=$?
git -C /repo worktree remove --force $WT
grep -E "VIOLATION|KNOWN-FINDING" /tmp/revtest.$C.out | head -5
grep -E "violation sig" -A1 /tmp/revtest.$C.err | head -12
tail -1 /tmp/revtest.$C.err
echo "exit=$st"
