#!/usr/bin/env python3
"""Writes /verif/MANIFEST.json from the table below (one place to keep it valid)."""
import json
ENV = "GOFLAGS=-mod=mod GOPROXY=off GOSUMDB=off GOTOOLCHAIN=local"
checks = {}
def chk(pid, category, text, note, technique, design, engine="vcheck"):
    checks[pid] = {
        "property_id": pid,
        "quick_cmd": f"bin/vcheck {pid} --tier quick",
        "thorough_cmd": f"bin/vcheck {pid} --tier thorough",
        "evidence_file": f"/verif/evidence/{pid}.json",
        "replay_cmd_template": f"bin/vcheck {pid} --replay {{path}}",
        "engine": engine,
        "level_claimed": {"category": category, "text": text, "design_ref": design},
        "level_note": note,
        "technique": technique,
    }

chk("C06", "exploration",
    "Runs the real lib/interval methods on seeded (op, X, Y) cases and judges each result with a math/big oracle: sampled members must lie inside the result, finite boxes must give exactly the corner/enumerated hull (and/or: full enumeration of boxes up to 512 wide at any magnitude), the ok flag must equal 'no undefined pair', result bounds must not alias operand bounds, operands must be unchanged. Held on the executions observed, not a proof.",
    "Trusts math/big. Shift counts stay below ~2^9 (the implementation itself needs gigabytes beyond that); and/or boxes too wide to enumerate are checked for soundness only.",
    "runtime monitoring: reference-model oracle (math/big) over seeded executions of the real package", "DESIGN.md §5 C06")

not_applicable = []
import os
allp = [json.loads(l)["id"] for l in open("/verif/properties.jsonl")]
pending = json.load(open("/verif/tools/pending.json")) if os.path.exists("/verif/tools/pending.json") else {}
for p in allp:
    if p not in checks:
        not_applicable.append({"property_id": p, "reason": pending.get(p, "check not built yet in this session (planned in DESIGN.md §6a); not claimed until it is silent on the clean tree and catches its planned mutant")})

m = {
    "version": 1,
    "setup_cmd": f"cd /verif && {ENV} go build -o bin/vcheck ./cmd/vcheck",
    "hooks": {
        "guard": "verif (Go build tag)",
        "enable": "go build -tags verif (vcheck builds its helper binaries from /repo's working tree through the replace directive in /verif/go.mod)",
        "baseline_off_cmd": "for m in $(cat /w/out/gomods.txt); do MF=$(cd /repo/$m && . /w/out/goenv.sh && gomodflag); (cd /repo/$m && go test $MF -json -vet=off -count=1 -timeout 25m ./...); done",
        "source_commits": [],
        "add_only": True,
    },
    "engines": [
        {"name": "vcheck", "path": "/verif/cmd/vcheck", "serves_properties": sorted(checks), "kind_free_text": "driver: builds monitor children from /repo's working tree, runs them sharded with rlimits, matches known findings, writes evidence"},
        {"name": "vmon", "path": "/verif/cmd/vmon", "serves_properties": sorted(checks), "kind_free_text": "Go monitor child linking /repo's Go packages (reference-model oracles, history checkers)"},
    ],
    "checks": [checks[p] for p in sorted(checks)],
    "not_applicable": not_applicable,
    "notes": "Technique family: runtime monitoring and sanitizers. Verdicts are three-valued: exit 0 held on what was observed, exit 1 VIOLATION, exit 2 inconclusive (no VIOLATION line).",
}
json.dump(m, open("/verif/MANIFEST.json", "w"), indent=1)
print("checks:", sorted(checks), "not_applicable:", len(not_applicable))
