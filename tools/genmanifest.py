#!/usr/bin/env python3
"""Writes /verif/MANIFEST.json from the table below (one place to keep it valid)."""
import json
ENV = "GOFLAGS=-mod=mod GOPROXY=off GOSUMDB=off GOTOOLCHAIN=local"
checks = {}
def chk(pid, category, text, note, technique, design, engine="vcheck"):
    checks[pid] = {
        "property_id": pid,
        "quick_cmd": f"bin/vcheck {pid} --tier quick",
        "thorough_cmd": f"bin/vcheck {pid} --tier thorough",
        "evidence_file": f"/verif/evidence/{pid}.json",
        "replay_cmd_template": f"bin/vcheck {pid} --replay {{path}}",
        "engine": engine,
        "level_claimed": {"category": category, "text": text, "design_ref": design},
        "level_note": note,
        "technique": technique,
    }

chk("C06", "exploration",
    "Runs the real lib/interval methods on seeded (op, X, Y) cases and judges each result with a math/big oracle: sampled members must lie inside the result, finite boxes must give exactly the corner/enumerated hull (and/or: full enumeration of boxes up to 512 wide at any magnitude), the ok flag must equal 'no undefined pair', result bounds must not alias operand bounds, operands must be unchanged, no panic. Besides the seeded sample, every pair of intervals with bounds from a set of machine-word corner values (0, +-1, +-2, +-5, +-2^k, +-(2^k +- 1) for k = 31, 63, 64; more in the thorough tier) and nil is enumerated for add/sub/mul/quo/and/or. Held on the executions observed, not a proof.",
    "Trusts math/big. Shift counts stay below ~2^9 (the implementation itself needs gigabytes beyond that); and/or boxes too wide to enumerate are checked for soundness only.",
    "runtime monitoring: reference-model oracle (math/big) over seeded executions of the real package", "DESIGN.md §5 C06")


chk("C03", "exploration",
    "Every std decoder and hasher is run, in the ASan+UBSan build and a -O2 build (allocator intercepted with --wrap) of the C generated from the working tree by the real `wuffs gen`, on test/data files, reference-encoder output, byte-level mutations, other formats and random bytes, under varied source splits, destination capacities, closed early/late, work-buffer sizes and memory pre-fills; half of the jobs hand the decoder exact-size source allocations (the sanitizer's red zone sits right behind the last supplied byte at every split), and for a few small inputs per decoder EVERY split point is run that way, plus decodes with both streams in pieces of 1..40 bytes. Monitors: sanitizer reports, allocator calls during a call, 'internal error' statuses, short read on a closed fully supplied source, short write with nothing written into an empty 1 MiB destination, status class, per-job CPU budget. Held on the executions observed.",
    "Bounded work is a per-job CPU-time budget (not the step-counting checked build planned in DESIGN §3.1, which was not built). UBSan's nonnull-attribute check is off (memset(NULL,0,0) is not one of the behaviours the property lists). Red-zone sanitizers miss non-adjacent overflows.",
    "runtime monitoring: compiler sanitizers (ASan+UBSan) + allocator interposition + status/suspension monitors in a scripted C driver over hostile inputs", "DESIGN.md §5 C03, §3.4")
chk("C05", "exploration",
    "For each small input (valid, truncated, corrupted) of every std decoder, one sweep runs EVERY single split point of the source (and of the destination capacity for io_transformers) and compares each chunked run with the one-shot run of the same sanitized binary on output bytes, final status, getters and (non-error) consumed count; larger inputs get seeded random multi-splits down to 1 byte. Generated coroutine programs accepted by the real checker and compiled by the real wuffs-c get the same treatment (one-shot vs every single split, byte-by-byte, random multi-splits; ASan+UBSan and -O2). Held on what was observed.",
    "Single-split sweeps are exhaustive per input; inputs and multi-split plans are sampled. Generated leg: coroutine programs that touch their streams only through `?` methods (incl. randomly structured bodies aimed at the liveness analysis) are run one-shot and under every single source/capacity split, byte-by-byte and random multi-splits in both C builds.",
    "runtime monitoring: differential oracle (chunked vs one-shot execution of the same compiled code) under ASan+UBSan", "DESIGN.md §5 C05")
chk("C07", "exploration",
    "Payload classes are pushed through independent reference encoders (Go flate/zlib/gzip/lzw/png/gif, /usr/bin bzip2 and xz) and decoded by the generated Wuffs decoders in the ASan+UBSan and -O2 builds; bytes/pixels, OK status and consumed count must match; Wuffs CRC-32/CRC-64/Adler-32/SHA-256 over random update partitions, and over EVERY two-piece partition (plus three-piece partitions around the block boundaries) of 1..3-block payloads for block sizes 16/32/64/128, must equal Go's. Multi-block payloads (several hundred KB: 4+ bzip2 -1 blocks, xz block lists) are included in every run. Stream features (stored/fixed/dynamic blocks, 15-bit codes, distance 32768) are confirmed by scanning the encoded stream.",
    "Trusts the reference encoders to emit valid streams. PNG/GIF expectations are the pixels handed to the encoder (non-premultiplied sources).",
    "runtime monitoring: reference-model oracle (independent encoders + original payload) over executions of the generated C", "DESIGN.md §5 C07")
chk("C08", "exploration",
    "Seeded call histories (<=30 steps: garbage-filled memory, good/bad initialize, null/partial/closed/garbage buffers, coroutine and non-coroutine calls, re-initialise) are executed on every std struct; each status is checked against an explicit protocol state machine that constrains only what the property states, and the driver checks ri<=wi<=len, monotonic ri/wi, source bytes and already-written destination bytes after every call. Two further legs: decodes with source AND destination handed over in pieces of 1..40 bytes (exact-size source windows), and scripted call sequences through the metadata side-track of the image call sequence (PNGs with text/EXIF chunks before and after the pixel data, reporting opted in).",
    "Model state after a non-coroutine error is resynchronised from the object's magic word; call-sequence expectations only in exactly known states. std structs only (generated-object leg not wired).",
    "runtime monitoring: history checker (protocol state machine) + buffer-contract assertions over recorded call traces", "DESIGN.md §5 C08")
chk("C09", "exploration",
    "Each input is decoded under nine variants (zeroed+ALREADY_ZEROED, 0xFF memory, PRNG memory + LEAVE_INTERNAL_BUFFERS_UNINITIALIZED, re-initialised after another decode, differently pre-filled work/destination memory, SIMD vs AVOID_CPU_ARCH builds, -O1 sanitized vs -O2) and all must agree on output, statuses, consumed counts and getters; mutated JPEGs are compared within one build only (documented exception). Half of the transformer decodes run in several calls under one capacity plan shared by all variants; LZMA/XZ streams with a 4 KiB dictionary (maximum-length matches straddling the ring's wrap-around) are decoded by a client that drains a small destination buffer after every call, so that the history lives in the differently pre-filled work buffer.",
    "Which choose'n CPU variant ran is not read back; the CPU here has SSE4.2/AVX2/BMI2/PCLMUL. MSan/valgrind are deliberately not used (stricter than the property).",
    "runtime monitoring: differential oracle across memory/flag/CPU-path variants of the same decode", "DESIGN.md §5 C09")
chk("C12", "exploration",
    "wuffsfmt: std sources and seeded re-spacings/slices are rendered by the real token/parse/render packages; output must re-tokenize to the same tokens (numerics by value) and comments, parse, and be a fixed point. dumbindent: real C files, slices and a grammar of lexically closed snippets x options; output must equal the input up to per-line blanks and be a fixed point; hangs/OOM are verdicts via RLIMIT_CPU/RLIMIT_AS in an isolated child. The two commands (cmd/wuffsfmt, cmd/dumbindent, built from the working tree) are run on 1-5 files per invocation in every mix and order of formatted / unformatted files in the -w, -l, -l -w and stdin modes: each file's content afterwards (or the output) must be what the package gives for that file alone, and -l must list exactly the files that differ.",
    "Only sources cmd/wuffsfmt accepts (tokenize+parse) are judged. Inputs to dumbindent never start with a blank line (the package drops leading blank lines by design and pins that in its own test).",
    "runtime monitoring: round-trip/idempotence oracles over seeded executions of the real formatter packages, resource limits as hang detector", "DESIGN.md §5 C12")
chk("C14", "exploration",
    "Seeded Read/Seek/SeekRange/Close histories on RAC files from the real writer are executed at Concurrency 0,1,2,4,16 under GOMAXPROCS 1..16 with seeded schedule perturbation at hook sites in the concurrent reader, and compared call by call with an in-memory model; deadlock verdict = the Go runtime's own detector in a CGO_ENABLED=0 child; goroutine leak check after Close; a separate -race child reports data races.",
    "After a non-EOF error the history ends (rac.Reader documents sticky errors). Files whose plain sequential decode differs from the payload are skipped (C13's concern). Porcupine not used: the Reader is single-client.",
    "runtime monitoring: reference-model history checker + Go race detector + runtime deadlock detector + seeded scheduling hooks", "DESIGN.md §5 C14")
chk("C15", "exploration",
    "Hostile RAC files (writer-made files with index fields mutated one by one and the checksum repaired, self/mutually referential nodes, out-of-file pointers, truncations, claimed sizes to 2^48, random bytes) are walked, sought and decoded through a counting ReadSeeker capped at 1000+64*(S/16)^2 calls; every returned chunk must have a well-formed in-file CPrimary and non-empty ascending contiguous DRanges ending at DecompressedSize; no panic; two successful decodes must agree.",
    "The work bound is the logical call cap (>=100x above any writer-made file) plus a per-case CPU budget. One known finding (exponential shared-subtree DAG).",
    "runtime monitoring: invariant monitors on the chunk stream + logical work counter + recover()", "DESIGN.md §5 C15")
chk("C16", "exploration",
    "Valid DEFLATE/zlib streams from Go's encoders (all levels, flush patterns, dictionaries) and a hand assembler are cut at EVERY limit from the minimum to len+2 (streams <= 2 KiB; targeted limits for larger); a successful Cut must stay within limit and buffer, decode completely with Go's decoder to exactly payload[:decodedLen], equal what the writer received, and keep everything when the limit is large; arbitrary bytes must not panic and nil-error results must stay in bounds.",
    "Trusts compress/flate and compress/zlib as decoders. Limit sweeps are exhaustive per small stream.",
    "runtime monitoring: reference-model oracle (Go decoders + original payload) over seeded and per-stream-exhaustive executions", "DESIGN.md §5 C16")
chk("C17", "exploration",
    "Round trips over all lengths 0..1099, 64 KiB boundary lengths, carry-chain constructions and random payloads: Decode(Encode(x)) must return x with no remainder; the xz tool must decode the encoding to x; an independent XZ container walker checks framing, padding, CRCs, index and footer; mutated encodings and random bytes must not panic and output must stay within 4096*len+4096. The XZ encoder's raw-vs-LZMA choice per 64 KiB chunk is swept across its boundary (a full chunk of z zeroes + incompressible bytes, z in a +-20 window around the point where both forms are equally long; alone and as the middle of three chunks).",
    "Third decoder leg: a bounded sample of the encodings (about 1000 quick / 24000 thorough) is decoded by the generated Wuffs std/lzma and std/xz decoders (ASan+UBSan build of the working tree's C). The xz tool leg runs on a subset in the quick tier.",
    "runtime monitoring: reference-model oracles (xz tool, own container walker, payload) + resource limits", "DESIGN.md §5 C17")
chk("C18", "exploration",
    "Images over sizes (1..17, 65535 on one axis), the three colour types, quantisation tables and coefficient classes (extremes, DC swings, zero runs 15/16/17/62, stuffing-heavy) are encoded; an independent baseline-JPEG reader (tables read from the file) must decode every block to round(coef/q), headers must match, exactly ceil*ceil units are accepted, image/jpeg accepts the file, no panic/allocation; FDCT output valid and |IDCT(FDCT(p))-p| checked. One known finding (round trip off by 2 for rare blocks).",
    "Exact q/2 ties accepted either way (undocumented). Images above 20000 MCUs are checked for headers and first units only.",
    "runtime monitoring: independent decoder oracle + image/jpeg + AllocsPerRun over seeded executions", "DESIGN.md §5 C18")
chk("C19", "exploration",
    "Images whose encoded byte counts end within a few bytes of the first/later IDAT capacities, strides with garbage padding, all colour/depth types, 1xN/Nx1, sequences of Encodes on one Encoder and failing writers: image/png must decode to the same pixels; an independent walker checks signature, chunk order/length/CRC, zlib header, stored-block LEN/NLEN/BFINAL, Adler-32 and raw length.",
    "IDAT limit taken as the 65528 named in the property. Trusts image/png as the standard decoder.",
    "runtime monitoring: reference decoder + independent structural walker over boundary-targeted executions", "DESIGN.md §5 C19")
chk("C20", "exploration",
    "The real wuffs-c and `wuffs gen`, built from the working tree, are run on every std package under repeated fresh processes, GOMAXPROCS 1/16, GOGC=1, altered environment, other working directory, and on tmpfs copies of std created in forward/reverse/shuffled order; outputs are compared by SHA-256; the regenerated release file must equal the committed snapshot, gen.go output must equal data.go, the argv a wuffs-c shim receives must list files sorted, and the verif-tagged tool with its switch off must be byte-identical. Generated programs of every scenario family (coroutines, several I/O arguments with explicit returns, iterate, choose, statuses, const tables) are each compiled by wuffs-c in ~10 fresh processes under varied GOMAXPROCS/GOGC/environment; a versioned release (`wuffs gen -version=0.4.0` in a scratch git repository whose commit was made at 23:30 UTC) must be the same bytes under TZ unset/UTC/+14/-12 and other LANG/HOME.",
    "Tools are single-threaded: scheduling variation is GOMAXPROCS/GC only. Beyond std: synthetic multi-struct packages with many statuses/consts (the map-heavy paths) and histories of tool runs on one root.",
    "runtime monitoring: repeated-run output comparison of the real tools under varied environments", "DESIGN.md §5 C20")

chk("C01", "exploration",
    "(a) Generated Wuffs programs (scenario families aimed at the checker's mechanisms: masked/clamped indexes, refined locals/fields/args/array elements, facts from assignments incl. self-referential ones, while pre/inv/post, aliasing stores, stale pure-call facts, ~mod shifts, coroutines and suspension, each as the safe form and as systematic near-misses; plus the enumerated fact-invalidation matrix M-kill = 7 kinds of target x 14 killer actions x straight-line/break/continue/fall-through x use/assert, the call-graph family with cycles through `choose` alternatives, signed refined arguments, hand-written programs) are given to the real checker; every accepted one is executed by a reference interpreter that evaluates every index, slice, arithmetic, conversion, assignment, argument and return obligation in ideal integers (and reports re-entry of a function that is still active) over edge/random arguments and call histories, and one in six also runs as ASan+UBSan C emitted by the real wuffs-c. (b) All of std, compiled as the checked build (the verif-tagged wuffs-c wraps every index, slice and + - * << >> / % site in a run-time assertion of its type-derived obligation) under ASan+UBSan, decodes the hostile corpus. Held on the executions observed; the genuine soundness holes found this way are repaired by fix: commits (known_findings.json).",
    "'For all programs' is sampled by a fixed list of scenario families; the second sentence of the property (unprovable programs are rejected) is only observed as 'no accepted near-miss misbehaved'. The checked build asserts ranges at index/slice/arithmetic sites, not refinements of stored values or I/O built-in pre-conditions (interpreter leg only). The interpreter is framework code trusted after validation against production C on the unchanged tree.",
    "runtime monitoring: obligation assertions evaluated during execution (reference interpreter in ideal integers; checked C build emitted through a build-tagged generator hook) + ASan/UBSan over accepted programs", "DESIGN.md §5 C01, §3.1-3.3, §9")
chk("C02", "exploration",
    "The verif hook in lang/check records the facts the checker holds before every statement. Generated programs accepted by the real checker are executed by the reference interpreter over edge/random arguments, call histories and suspension patterns; before every statement each recorded fact, every assert condition and every loop pre/inv/post condition is evaluated in ideal integers in the concrete state and must be true. Each axiom of the checker's reasons table is instantiated over all tuples of small refined arguments with each premise present and absent. The fact-invalidation matrix (every kind of target x every action that can falsify a fact about it x loop exits) and the if-reconciliation family are enumerated on every run, whatever the seed.",
    "Fact shapes the interpreter cannot evaluate are skipped and counted in the evidence. std's own facts are not evaluated (no fact emission in the checked C build).",
    "runtime monitoring: assertions on hooked checker state (recorded facts) evaluated online by a reference interpreter during execution of accepted programs", "DESIGN.md §5 C02, §3.2-3.3")
chk("C04", "exploration",
    "Generated Wuffs programs (every variant of every scenario family alone, seeded mixes of 1-3 scenarios, and ~60 hand-written programs with constructs no family emits: io_limit / io_bind, marks and undo, history copies, statuses as values, nested public coroutines) are compiled by the real wuffs-c and gcc (-O2 and ASan+UBSan) and driven through call histories incl. suspend/resume with edge/random arguments and I/O buffers; per call the C's return value / status string, source and destination ri/wi, hash of bytes written, slice argument contents and all getters are compared with the trace of a reference interpreter of the Wuffs semantics. Programs on which the interpreter raised a safety or fact event are excluded. Two known findings (a resumed coroutine that ends through the C's error/note exit keeps its suspension point).",
    "The interpreter is trusted framework code (validated against production C on ~250 hand-written programs). SIMD, pixel types, tokens, tables and `use` are outside its subset; those constructs are only covered indirectly by C07/C09.",
    "runtime monitoring: differential trace oracle (reference interpreter vs executions of the emitted C, two builds)", "DESIGN.md §5 C04, §3.3")
chk("C10", "exploration",
    "Every std package's generated C is compiled alone into a shared object and dlopen'ed (-z now) by a loader that, inside the running process, compares writable non-RELRO segments and PT_TLS with a control object, re-hashes them after the workload, classifies every undefined and exported dynamic symbol against an allow-list derived from the parsed sources (pub funcs and per-struct helpers), probes every *__alloc under an interposed allocator, and runs decodes inside SECCOMP_MODE_STRICT (any system call kills the child); receiver and buffers are memcmp'ed around every public pure method in the loader and in seeded C08-style histories on the ASan driver. Generated programs: every call of an unmarked (pure) method accepted by the real checker is bracketed by a hash of the receiver and of all argument memory in the reference interpreter, incl. a near-miss family that tries every route from a pure method to a store or an impure call.",
    "One compiler/flag set (gcc -O2 -fPIC -fno-stack-protector -fno-builtin). Allocator/syscall absence is observed on the paths the decode corpus reaches. Generated (non-std) packages are judged for purity by the interpreter, not loaded as shared objects.",
    "runtime monitoring: process-level monitors (seccomp strict mode, allocator interposition, run-time enumeration of the loaded object's segments and dynamic symbols, memcmp around pure calls)", "DESIGN.md §5 C10")
chk("C11", "exploration",
    "Std sources, ~400 hand-written edge files (incl. struct declaration order / cycles through 0-3 array levels and code-generator shapes met by the program generator), every quoted literal made of up to three pieces from an alphabet of plain, complete, truncated and malformed escape sequences, exhaustive truncations of six small files, nesting deepeners around MaxExprDepth/MaxTypeExprDepth, extreme literals/identifiers, random bytes, and token-, line- and tree-level mutants of every source file are pushed through the real Tokenize, Parse, Render and Check under recover() in a child with CPU and address-space limits; accepted packages go through the real `wuffs-c gen` and gcc -fsyntax-only. Panics, fatal errors, budget overruns and gcc rejections are violations, keyed by (function, message class). The genuine defects found this way are repaired by fix: commits (known_findings.json).",
    "The CPU budget (60 s per text, texts <= 64 KiB; the largest std file checks in ~0.1 s) is the hang oracle: there is no step counter in the Go tool-chain. gcc is the C compiler; only -fsyntax-only is run per accepted mutant.",
    "runtime monitoring: crash/hang monitors (recover(), exit status, RLIMIT_CPU/RLIMIT_AS) and the C compiler's verdict over mutated and generated source texts", "DESIGN.md §5 C11")
chk("C13", "exploration",
    "rac.Writer/ChunkWriter configurations (payload class x Write partition x zlib/lz4/zstd x CChunkSize/DChunkSize x CPageSize x index location x temp-file kind x dictionaries) are written and, when Close returns nil, read back with rac.Reader (bytes must equal the concatenated Writes) and walked by an independent RAC-spec walker (magic, arity, checksum, reserved bytes, tags, DPtr/CPtr monotonicity, child/parent consistency, anti-loop rule, page padding). For small configurations every k-th underlying Write/Read/Seek is failed in turn (exhaustive per configuration): the first error must be sticky and Close must not return nil. A -race child repeats the workload.",
    "Trusts compress/zlib, hash/crc32, bytes.Reader. A failing call fails once (transient). CChunkSize+dictionary configurations that the writer itself refuses (flate: corrupt input, recorded in tools/proposed-fixes/C13-3.md) are counted, not judged: the property speaks of writers whose Close returns nil.",
    "runtime monitoring: conservation oracle (bytes in = bytes out) + independent spec walker + sticky-error history checker under exhaustive per-configuration fault injection; Go race detector", "DESIGN.md §5 C13")

not_applicable = []
import os
allp = [json.loads(l)["id"] for l in open("/verif/properties.jsonl")]
pending = json.load(open("/verif/tools/pending.json")) if os.path.exists("/verif/tools/pending.json") else {}
for p in allp:
    if p not in checks:
        not_applicable.append({"property_id": p, "reason": pending.get(p, "check not built yet in this session (planned in DESIGN.md §6a); not claimed until it is silent on the clean tree and catches its planned mutant")})

m = {
    "version": 1,
    "setup_cmd": f"cd /verif && {ENV} go build -o bin/vcheck ./cmd/vcheck",
    "hooks": {
        "guard": "verif (Go build tag)",
        "enable": "go build -tags verif (vcheck builds its helper binaries from /repo's working tree through the replace directive in /verif/go.mod)",
        "baseline_off_cmd": "for m in $(cat /w/out/gomods.txt); do MF=$(cd /repo/$m && . /w/out/goenv.sh && gomodflag); (cd /repo/$m && go test $MF -json -vet=off -count=1 -timeout 25m ./...); done",
        "source_commits": ["467f826", "7d47fbe", "7174160"],
        "add_only": True,
    },
    "engines": [
        {"name": "vcheck", "path": "/verif/cmd/vcheck", "serves_properties": sorted(checks), "kind_free_text": "driver: builds monitor children from /repo's working tree, runs them sharded with rlimits, matches known findings, writes evidence"},
        {"name": "vmon", "path": "/verif/cmd/vmon", "serves_properties": sorted(checks), "kind_free_text": "Go monitor child linking /repo's Go packages (reference-model oracles, history checkers)"},
    ],
    "checks": [checks[p] for p in sorted(checks)],
    "not_applicable": not_applicable,
    "notes": "Technique family: runtime monitoring and sanitizers. Verdicts are three-valued: exit 0 held on what was observed, exit 1 VIOLATION, exit 2 inconclusive (no VIOLATION line).",
}
json.dump(m, open("/verif/MANIFEST.json", "w"), indent=1)
print("checks:", sorted(checks), "not_applicable:", len(not_applicable))
