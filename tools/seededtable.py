#!/usr/bin/env python3
"""Rewrites the '### 9.8' section of DESIGN.md from /verif/seeded/*/meta.json (independent sub-agent mutants)."""
import json, glob, os, re
rows = []
for d in sorted(glob.glob('/verif/seeded/C??-[ab]?')):
    m = json.load(open(os.path.join(d, 'meta.json')))
    sid = os.path.basename(d)
    caught = m.get('caught_by', [])
    sigs = []
    for c in caught:
        sigs += m['checks'][c].get('sigs', [])[:1]
    what = re.sub(r'\s+', ' ', m.get('what', ''))[:150].replace('|', '/')
    rows.append((sid, m['property'], ', '.join(caught) if caught else '**missed**', (sigs[0] if sigs else '')[:70].replace('|', '/'), m.get('history', '').replace('|', '/'), what))
n = len(rows); c = sum(1 for r in rows if not r[2].startswith('**'))
first = sum(1 for r in rows if r[4].startswith('caught at first') or r[4] == '')
out = ["### 9.8 Independent mutants (sub-agents given only the property text): which check catches which change", "",
       f"{n} changes kept in `/verif/seeded/<id>/` (patch.diff, demonstration, meta.json); every one builds, passes the repository's Go tests and has a demonstration that fails with the change and passes without it (confirmed with `tools/evalmut.sh`). "
       f"Final state: {c} of {n} are reported by the quick tier of the named check at seed 1; {first} were caught by the machinery as it stood when the change arrived, the others only after the strengthening described in the last column (and in 9.5 / 9.7).", "",
       "| id | caught by | first signature | history | change |", "|---|---|---|---|---|"]
for r in rows:
    out.append(f"| {r[0]} | {r[2]} | `{r[3]}` | {r[4] or 'caught at first attempt'} | {r[5]} |")
text = '\n'.join(out) + '\n'
p = '/verif/DESIGN.md'
s = open(p).read()
i = s.find('### 9.8 ')
if i >= 0:
    s = s[:i].rstrip('\n') + '\n\n'
else:
    s = s.rstrip('\n') + '\n\n'
open(p, 'w').write(s + text)
print(f"{c}/{n} caught; {first} at first attempt")
