#!/bin/bash
# usage: tools/evalmut.sh <mutant-dir> <check-id> [tier] [VERIF_SEED]
# <mutant-dir> holds patch.diff + run.sh (+ demo files) written by an independent sub-agent.
# 1. scratch worktree of /repo HEAD: run.sh must exit 0 on the clean tree
# 2. apply patch.diff: the repository's Go tests must still pass; run.sh must exit non-zero
# 3. run the named check(s) (comma separated) against the patched worktree (VERIF_REPO)
# 4. remove the worktree.   env VERIF_DIR=<snapshot of /verif made by tools/snap.sh> runs the checks of that frozen snapshot.   env SKIPDEMO=1 skips the run.sh steps, SKIPTESTS=1 the test suite.
set -u
D=$(realpath $1); IDS=$2; TIER=${3:-quick}; SEED=${4:-1}
N=$(basename $(dirname $D))-$(basename $D)
WT=/tmp/evm-$N-$$
L=/tmp/evm-$N
export GOFLAGS=-mod=mod GOPROXY=off GOSUMDB=off GOTOOLCHAIN=local
git -C /repo worktree add -q --detach $WT HEAD || exit 3
cleanup() { git -C /repo worktree remove --force $WT 2>/dev/null; }
trap cleanup EXIT
if [ -z "${SKIPDEMO:-}" ]; then
  ( cd $D && timeout 600 bash ./run.sh $WT ) > $L.demo-clean 2>&1; echo "$N: demo on clean tree: exit $?"
fi
if ! git -C $WT apply $D/patch.diff 2>$L.applyerr; then echo "$N: PATCH DOES NOT APPLY: $(head -2 $L.applyerr)"; exit 3; fi
if [ -z "${SKIPTESTS:-}" ]; then
  ( cd $WT && go build ./... && go test -vet=off -count=1 ./... ) > $L.tests 2>&1 && echo "$N: repo tests PASS with patch" || { echo "$N: repo tests FAIL with patch"; grep -v "^ok\|no test files" $L.tests | tail -5; }
fi
if [ -z "${SKIPDEMO:-}" ]; then
  ( cd $D && timeout 600 bash ./run.sh $WT ) > $L.demo-patched 2>&1; echo "$N: demo on patched tree: exit $?"
  rm -rf $WT/gen
fi
VD=${VERIF_DIR:-/verif}
cd $VD
for ID in ${IDS//,/ }; do
  s=$(date +%s)
  VERIF_DIR=$VD VERIF_SEED=$SEED VERIF_REPO=$WT bin/vcheck $ID --tier $TIER > $L.$ID.out 2> $L.$ID.err; st=$?
  echo "$N: check $ID tier=$TIER seed=$SEED exit=$st violations=$(grep -c VIOLATION $L.$ID.out) wall=$(( $(date +%s)-s ))s"
  grep -E "violation sig" $L.$ID.err | head -6 | cut -c1-260
done
