#!/usr/bin/env python3
"""Validate MANIFEST.json and evidence/*.json against the given schemas."""
import json, sys, glob
try:
    import jsonschema
except ImportError:
    sys.path.insert(0, '/opt/veriftools/pyvenv/lib/python3.11/site-packages')
    import jsonschema
ok = True
def check(path, schema):
    global ok
    try:
        jsonschema.validate(json.load(open(path)), json.load(open(schema)))
        print("ok  ", path)
    except Exception as e:
        ok = False
        print("FAIL", path, str(e)[:400])
check('/verif/MANIFEST.json', '/root/.vp/MANIFEST.schema.json')
for p in sorted(glob.glob('/verif/evidence/*.json')):
    check(p, '/root/.vp/EVIDENCE.schema.json')
m = json.load(open('/verif/MANIFEST.json'))
ids = {c['property_id'] for c in m['checks']} | {n['property_id'] for n in m.get('not_applicable', [])}
allp = {json.loads(l)['id'] for l in open('/verif/properties.jsonl')}
if ids != allp:
    ok = False
    print("FAIL manifest does not cover", sorted(allp - ids), "extra", sorted(ids - allp))
sys.exit(0 if ok else 1)
