#!/bin/bash
# usage: tools/trymut.sh <patch.diff> <id> [tier]   -- apply a patch to /repo, run the check, always revert.
set -u
P=$1; ID=$2; TIER=${3:-quick}
cd /verif
git -C /repo apply "$P" || { echo "patch does not apply"; exit 3; }
bin/vcheck $ID --tier $TIER > /tmp/trymut.$ID.out 2>/tmp/trymut.$ID.err; st=$?
git -C /repo checkout -- . 
grep -E "VIOLATION|KNOWN-FINDING" /tmp/trymut.$ID.out | head -5
grep -E "violation sig|INCONCLUSIVE" /tmp/trymut.$ID.err | head -8
tail -1 /tmp/trymut.$ID.err
echo "exit=$st"
