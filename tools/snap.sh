#!/bin/bash
# usage: tools/snap.sh [dir]  -- (re)create a frozen snapshot of /verif's HEAD (default /tmp/verif-snap) with bin/vcheck built,
# for long mutation-testing sweeps: VERIF_DIR=<dir> tools/evalmut.sh ...
D=${1:-/tmp/verif-snap}
export GOFLAGS=-mod=mod GOPROXY=off GOSUMDB=off GOTOOLCHAIN=local
git -C /verif worktree remove --force $D 2>/dev/null; rm -rf $D
git -C /verif worktree add -q --detach $D HEAD && cd $D && go build -o bin/vcheck ./cmd/vcheck && echo "snapshot $(git -C $D rev-parse --short HEAD) at $D"
