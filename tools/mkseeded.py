#!/usr/bin/env python3
"""Assembles /verif/seeded/<id>/ from the sub-agents' output directories and the evaluation logs.

usage: tools/mkseeded.py <evalmut-log>...   (later logs override earlier ones per mutant)
Each /tmp/mut-Cxx-out[2]/k becomes seeded/Cxx-a<k> (round 1) or Cxx-b<k> (round 2): patch.diff, the demonstration
(run.sh + sources + README.md) and meta.json (property, what it needs, what was run, which check caught it).
"""
import json, os, re, shutil, sys, glob

logs = sys.argv[1:]
res = {}   # name -> dict
cur = None
for lg in logs:
    for line in open(lg, errors='replace'):
        m = re.match(r'(mut-C\d\d-out2?-\d): (.*)', line)
        if m:
            name, rest = m.group(1), m.group(2)
            d = res.setdefault(name, {"checks": {}})
            if rest.startswith("demo on clean tree: exit"):
                d["demo_clean_exit"] = int(rest.split()[-1])
            elif rest.startswith("repo tests"):
                d["repo_tests_with_patch"] = "PASS" if "PASS" in rest else "FAIL"
            elif rest.startswith("demo on patched tree: exit"):
                d["demo_patched_exit"] = int(rest.split()[-1])
            elif rest.startswith("check "):
                mm = re.match(r'check (C\d\d) tier=(\w+) seed=(\d+) exit=(\d+) violations=(\d+)', rest)
                if mm:
                    cur = d["checks"].setdefault(mm.group(1), {})
                    cur.update({"tier": mm.group(2), "seed": int(mm.group(3)), "exit": int(mm.group(4)), "violations": int(mm.group(5)), "sigs": [], "log": os.path.basename(lg)})
            continue
        m = re.match(r'\[vcheck\] violation sig=(.*)', line)
        if m and cur is not None and len(cur["sigs"]) < 6:
            cur["sigs"].append(m.group(1).strip())

notes = json.load(open('/verif/tools/seeded_notes.json')) if os.path.exists('/verif/tools/seeded_notes.json') else {}
n = 0
for name, d in sorted(res.items()):
    m = re.match(r'mut-(C\d\d)-out(2?)-(\d)', name)
    prop, rnd, k = m.group(1), ('b' if m.group(2) else 'a'), m.group(3)
    src = f"/tmp/mut-{prop}-out{m.group(2)}/{k}"
    if not os.path.isdir(src):
        continue
    sid = f"{prop}-{rnd}{k}"
    dst = f"/verif/seeded/{sid}"
    confirmed = d.get("demo_clean_exit") == 0 and d.get("repo_tests_with_patch") == "PASS" and d.get("demo_patched_exit", 0) != 0
    if not confirmed and sid not in notes.get("keep_anyway", {}):
        print(f"{sid}: NOT confirmed ({d.get('demo_clean_exit')}, {d.get('repo_tests_with_patch')}, {d.get('demo_patched_exit')}) - skipped")
        continue
    os.makedirs(dst, exist_ok=True)
    for f in os.listdir(src):
        p = os.path.join(src, f)
        if os.path.isfile(p) and os.path.getsize(p) < 400000:
            shutil.copy(p, os.path.join(dst, f))
        elif os.path.isdir(p) and f in ("demo",):
            shutil.copytree(p, os.path.join(dst, f), dirs_exist_ok=True)
    readme = open(os.path.join(src, "README.md"), errors='replace').read() if os.path.exists(os.path.join(src, "README.md")) else ""
    def section(title_re):
        mm = re.search(r'^#+ *(?:' + title_re + r')[^\n]*\n(.*?)(?=^#+ |\Z)', readme, re.S | re.M | re.I)
        return re.sub(r'\s+', ' ', mm.groups()[-1] or '').strip()[:900] if mm else ""
    caught = {c: v for c, v in d["checks"].items() if v["exit"] == 1}
    meta = {
        "property": prop,
        "origin": "independent sub-agent given only the property text and a scratch worktree (round %s)" % ("2" if rnd == 'b' else "1"),
        "what": (section(r'what (was|is) changed|what i changed|change') or readme[:600]).strip(),
        "needs_to_manifest": section(r'what (is|it) need|what is needed|needs|how to trigger|trigger'),
        "confirmed_by_me": {"demo_exit_on_clean_tree": d.get("demo_clean_exit"), "repository_go_tests_with_patch": d.get("repo_tests_with_patch"), "demo_exit_with_patch": d.get("demo_patched_exit")},
        "ran": "tools/evalmut.sh <dir> <checks> (scratch worktree of /repo HEAD + patch.diff; run.sh on clean and patched tree; `go build ./... && go test -vet=off -count=1 ./...`; then VERIF_REPO=<worktree> bin/vcheck <id> --tier quick, VERIF_SEED=1, from a frozen snapshot of /verif)",
        "checks": d["checks"],
        "caught_by": sorted(caught),
        "history": notes.get("history", {}).get(sid, ""),
    }
    json.dump(meta, open(os.path.join(dst, "meta.json"), "w"), indent=1)
    n += 1
    print(f"{sid}: caught_by={sorted(caught)}")
print(n, "seeded directories written")
