package main

func init() {
	add("m01_undo_bytes", testFile{
		Note: "writer can_undo_byte / undo_byte! / peek_undo_byte, reader peek_undo_byte, history_position; the undo limit is the index at function entry (and at resumption)",
		Case: mk(`
pub struct obj?(
        acc : base.u64,
)

pub func obj.emit?(dst: base.io_writer, src: base.io_reader, n: base.u32) {
    var i : base.u32
    var k : base.u32[..= 15]
    var c : base.u8
    k = args.n & 15
    if args.dst.can_undo_byte() {
        this.acc ~mod+= 0x1_0000_0000
    }
    i = 0
    while i < k {
        assert i < 15 via "a < b: a < c; c <= b"(c: k)
        c = args.src.read_u8?()
        if args.src.can_undo_byte() {
            this.acc ~mod+= args.src.peek_undo_byte() as base.u64
        }
        args.dst.write_u8?(a: c)
        if args.dst.can_undo_byte() {
            this.acc ~mod+= (args.dst.peek_undo_byte() as base.u64) << 8
            if (c & 1) == 1 {
                args.dst.undo_byte!()
                this.acc ~mod+= 0x1_0000
            }
        }
        i += 1
    }
    this.acc ~mod+= args.dst.history_position() ~mod+ (args.dst.history_length() ~mod<< 40)
}

pub func obj.get_acc() base.u64 {
    return this.acc
}
`, []string{"get_acc"},
			call("emit", wr(0), rd(bs("abcd"), false), ints(3)[0]),
			call("emit", wr(1), rd(nil, false), ints(3)[0]),
			call("emit", wr(1), rd(nil, false), ints(3)[0]),
			call("emit", wr(10), rd(nil, false), ints(3)[0]),
			call("emit", wr(0), rd(bs("e"), false), ints(5)[0]),
			call("emit", wr(0), rd(bs("fghij"), false), ints(5)[0]),
			call("emit", wr(3), rd(bs("klmnopqrstuvwxyz"), false), ints(15)[0]),
			call("emit", wr(30), rd(nil, false), ints(15)[0]),
		),
	})
}
