package main

import "verif/internal/wprog"

func init() {
	add("e01_write_u8_suspend", testFile{
		Note: "write_u8? on a destination that grows a byte or two at a time; values computed before the suspension survive it",
		Case: mk(`
pub struct obj?(
        n : base.u32,
)

pub func obj.emit?(dst: base.io_writer, count: base.u32) {
    var i : base.u32
    var n : base.u32[..= 31]
    var x : base.u8
    i = 0
    n = args.count & 31
    while i < n {
        assert i < 31 via "a < b: a < c; c <= b"(c: n)
        x = ((i ~mod* 7) & 0xFF) as base.u8
        args.dst.write_u8?(a: x ~mod+ 0x30)
        this.n ~mod+= 1
        i += 1
    }
}

pub func obj.get_n() base.u32 {
    return this.n
}
`, []string{"get_n"},
			call("emit", wr(0), ints(5)[0]),
			call("emit", wr(1), ints(5)[0]),
			call("emit", wr(2), ints(5)[0]),
			call("emit", wr(0), ints(5)[0]),
			call("emit", wr(5), ints(5)[0]),
			call("emit", wr(3), ints(3)[0]),
			call("emit", wr(0), ints(0)[0]),
			call("emit", wr(1), ints(40)[0]),
			call("emit", wr(100), ints(1)[0]),
		),
	})

	add("e02_write_fast", testFile{
		Note: "write_uN_fast! for every width / endianness under length() facts; writer length / mark / since / count_since / history_length / position",
		Case: mk(`
pub struct obj?(
        r : base.u64,
)

pub func obj.put!(dst: base.io_writer, x: base.u64) {
    var m : base.u64
    var s : slice base.u8
    var r : base.u64
    m = args.dst.mark()
    if args.dst.length() >= 1 {
        args.dst.write_u8_fast!(a: (args.x & 0xFF) as base.u8)
    }
    if args.dst.length() >= 2 {
        args.dst.write_u16be_fast!(a: (args.x & 0xFFFF) as base.u16)
    }
    if args.dst.length() >= 2 {
        args.dst.write_u16le_fast!(a: (args.x & 0xFFFF) as base.u16)
    }
    if args.dst.length() >= 3 {
        args.dst.write_u24be_fast!(a: (args.x & 0xFF_FFFF) as base.u32)
    }
    if args.dst.length() >= 3 {
        args.dst.write_u24le_fast!(a: (args.x & 0xFF_FFFF) as base.u32)
    }
    if args.dst.length() >= 4 {
        args.dst.write_u32be_fast!(a: (args.x & 0xFFFF_FFFF) as base.u32)
    }
    if args.dst.length() >= 4 {
        args.dst.write_u32le_fast!(a: (args.x >> 32) as base.u32)
    }
    if args.dst.length() >= 5 {
        args.dst.write_u40be_fast!(a: args.x & 0xFF_FFFF_FFFF)
    }
    if args.dst.length() >= 5 {
        args.dst.write_u40le_fast!(a: args.x & 0xFF_FFFF_FFFF)
    }
    if args.dst.length() >= 6 {
        args.dst.write_u48be_fast!(a: args.x & 0xFFFF_FFFF_FFFF)
    }
    if args.dst.length() >= 6 {
        args.dst.write_u48le_fast!(a: args.x & 0xFFFF_FFFF_FFFF)
    }
    if args.dst.length() >= 7 {
        args.dst.write_u56be_fast!(a: args.x & 0xFF_FFFF_FFFF_FFFF)
    }
    if args.dst.length() >= 7 {
        args.dst.write_u56le_fast!(a: args.x >> 8)
    }
    if args.dst.length() >= 8 {
        args.dst.write_u64be_fast!(a: args.x)
    }
    if args.dst.length() >= 8 {
        args.dst.write_u64le_fast!(a: args.x)
    }
    if args.dst.length() >= 16 {
        args.dst.write_u64le_fast!(a: args.x ^ 0xFFFF_FFFF_FFFF_FFFF)
        args.dst.write_u32be_fast!(a: 0xDEAD_BEEF)
        args.dst.write_u16le_fast!(a: 0x1234)
        args.dst.write_u8_fast!(a: 0x77)
        args.dst.write_u8_fast!(a: 0x88)
    }
    r = args.dst.count_since(mark: m)
    s = args.dst.since(mark: m)
    if s.length() > 0 {
        r ~mod+= (s[0] as base.u64) << 8
        s[0] = 0x2A
    }
    r ~mod+= (args.dst.history_length() & 0xFFFF) << 16
    r ~mod+= (args.dst.length() & 0xFFFF) << 32
    r ~mod+= (args.dst.position() & 0xFFFF) << 48
    this.r = r
}

pub func obj.get_r() base.u64 {
    return this.r
}
`, []string{"get_r"},
			call("put", wr(0), ints(0x0102030405060708)[0]),
			call("put", wr(1), ints(0x0102030405060708)[0]),
			call("put", wr(6), ints(0xFFFFFFFFFFFFFFFF)[0]),
			call("put", wr(16), ints(0x8070605040302010)[0]),
			call("put", wr(40), ints(0x0123456789ABCDEF)[0]),
			call("put", wr(100), ints(0xFEDCBA9876543210)[0]),
			call("put", wr(3), ints(1)[0]),
		),
	})

	add("e03_writer_copies", testFile{
		Note: "writer copy_from_slice!, limited_copy_u32_from_slice!, _from_reader!, _from_history! (overlapping: distance < length), clamped by the remaining capacity",
		Case: mk(`
pub struct obj?(
        r   : base.u64,
        pat : array[8] base.u8,
)

pub func obj.go!(dst: base.io_writer, src: base.io_reader, s: roslice base.u8, n: base.u32, d: base.u32) {
    var r : base.u64
    var k : base.u32
    this.pat[args.n & 7] ~mod+= (args.d & 0xFF) as base.u8
    r = args.dst.copy_from_slice!(s: args.s)
    k = args.dst.limited_copy_u32_from_slice!(up_to: args.n, s: this.pat[..])
    r ~mod+= (k as base.u64) << 8
    k = args.dst.limited_copy_u32_from_reader!(up_to: args.n, r: args.src)
    r ~mod+= (k as base.u64) << 16
    k = args.dst.limited_copy_u32_from_history!(up_to: args.n, distance: args.d)
    r ~mod+= (k as base.u64) << 24
    k = args.dst.limited_copy_u32_from_history!(up_to: 3, distance: 1)
    r ~mod+= (k as base.u64) << 32
    r ~mod+= (args.dst.length() & 0xFF) << 40
    r ~mod+= (args.src.length() & 0xFF) << 48
    this.r = r
}

pub func obj.get_r() base.u64 {
    return this.r
}
`, []string{"get_r"},
			call("go", wr(0), rd(bs("abc"), false), sl(1, 2, 3), ints(4)[0], ints(2)[0]),
			call("go", wr(10), rd(bs("defgh"), false), sl(1, 2, 3), ints(4)[0], ints(2)[0]),
			call("go", wr(30), rd(nil, false), sl(), ints(0)[0], ints(0)[0]),
			call("go", wr(30), rd(bs("ijklmnopqrstuvwxyz"), false), sl(9, 9), ints(7)[0], ints(3)[0]),
			call("go", wr(64), rd(nil, false), sl(5), ints(20)[0], ints(1)[0]),
			call("go", wr(8), rd(bs("0123456789"), true), sl(5, 6, 7, 8, 9, 10), ints(0xFFFFFFFF)[0], ints(1000)[0]),
			call("go", wr(200), rd(nil, false), sl(), ints(50)[0], ints(49)[0]),
			call("go", wr(3), rd(nil, false), sl(1, 2, 3, 4, 5), ints(2)[0], ints(2)[0]),
		),
	})

	add("e04_history_fast", testFile{
		Note: "limited_copy_u32_from_history_fast / _8_byte_chunks_fast / _distance_1_fast and their _return_cusp forms under exactly the facts the checker demands",
		Case: mk(`
pub struct obj?(
        r : base.u64,
)

pub func obj.seed!(dst: base.io_writer, s: roslice base.u8) {
    args.dst.copy_from_slice!(s: args.s)
}

pub func obj.rep!(dst: base.io_writer, n: base.u32, d: base.u32, mode: base.u32) {
    var n : base.u32[..= 0xFFFF]
    var d : base.u32[..= 0xFFFF]
    var k : base.u32
    n = args.n & 0xFFFF
    d = args.d & 0xFFFF
    if args.mode == 0 {
        if (n >= 1) and ((n as base.u64) <= args.dst.length()) and (d >= 1) and ((d as base.u64) <= args.dst.history_length()) {
            k = args.dst.limited_copy_u32_from_history_fast!(up_to: n, distance: d)
        }
    } else if args.mode == 1 {
        if (n >= 1) and ((n as base.u64) <= args.dst.length()) and (d >= 1) and ((d as base.u64) <= args.dst.history_length()) {
            k = args.dst.limited_copy_u32_from_history_fast_return_cusp!(up_to: n, distance: d)
        }
    } else if args.mode == 2 {
        if (n >= 1) and (((n + 8) as base.u64) <= args.dst.length()) and (d >= 8) and ((d as base.u64) <= args.dst.history_length()) {
            k = args.dst.limited_copy_u32_from_history_8_byte_chunks_fast!(up_to: n, distance: d)
        }
    } else if args.mode == 3 {
        if (n >= 1) and (((n + 8) as base.u64) <= args.dst.length()) and (d >= 8) and ((d as base.u64) <= args.dst.history_length()) {
            k = args.dst.limited_copy_u32_from_history_8_byte_chunks_fast_return_cusp!(up_to: n, distance: d)
        }
    } else if args.mode == 4 {
        if (n >= 1) and (((n + 8) as base.u64) <= args.dst.length()) and (d == 1) and ((d as base.u64) <= args.dst.history_length()) {
            k = args.dst.limited_copy_u32_from_history_8_byte_chunks_distance_1_fast!(up_to: n, distance: d)
        }
    } else {
        if (n >= 1) and (((n + 8) as base.u64) <= args.dst.length()) and (d == 1) and ((d as base.u64) <= args.dst.history_length()) {
            k = args.dst.limited_copy_u32_from_history_8_byte_chunks_distance_1_fast_return_cusp!(up_to: n, distance: d)
        }
    }
    this.r = (k as base.u64) | ((args.dst.length() & 0xFFFF) << 32)
}

pub func obj.get_r() base.u64 {
    return this.r
}
`, []string{"get_r"}, historyCalls()...),
	})
}

func historyCalls() []wprog.Call {
	cs := []wprog.Call{
		call("rep", wr(0), ints(1)[0], ints(1)[0], ints(0)[0]),
		call("seed", wr(300), sl(1, 2, 3, 4, 5, 6, 7, 8, 9, 10, 11, 12)),
	}
	type p struct{ n, d, mode uint64 }
	for _, x := range []p{
		{1, 1, 0}, {5, 2, 0}, {3, 12, 0}, {300, 1, 0}, {0, 1, 0}, {4, 0, 0}, {4, 999, 0},
		{1, 1, 1}, {7, 3, 1}, {2, 20, 1},
		{1, 8, 2}, {8, 8, 2}, {9, 8, 2}, {17, 23, 2}, {5, 7, 2},
		{1, 8, 3}, {16, 9, 3}, {3, 30, 3},
		{1, 1, 4}, {8, 1, 4}, {21, 1, 4}, {3, 2, 4},
		{1, 1, 5}, {9, 1, 5}, {16, 1, 5},
		{200, 1, 0}, {20, 8, 2}, {12, 8, 2}, {4, 8, 2}, {3, 8, 2}, {2, 1, 4}, {1, 1, 4},
	} {
		cs = append(cs, call("rep", wr(0), ints(x.n)[0], ints(x.d)[0], ints(x.mode)[0]))
	}
	return cs
}
