package main

// Trigger cases: programs the checker accepts although they violate C01/C02
// at run time (known soundness holes, DESIGN.md §6), plus findings of the
// C generator. Each lists the interpreter events it must raise.

func init() {
	add("t01_hello_self_assign", testFile{
		Note:         "hello-wuffs-c/parse.wuffs verbatim: `this.val = (10 * this.val) + c` mints the false fact this.val == (10 * this.val) + c",
		ExpectEvents: []string{"C02:fact-false@21"},
		Case: mk(`
pri status "#not a digit"
pri status "#too large"

pub struct obj?(
        val : base.u32,
)

pub func obj.parse?(src: base.io_reader) {
    var c : base.u8
    while true {
        c = args.src.read_u8?()
        if c == 0 {
            return ok
        }
        if (c < 0x30) or (0x39 < c) {
            return "#not a digit"
        }
        c -= 0x30
        if this.val < 429_496729 {
            this.val = (10 * this.val) + (c as base.u32)
            continue
        } else if (this.val > 429_496729) or (c > 5) {
            return "#too large"
        }
        this.val = (10 * this.val) + (c as base.u32)
    }
}

pub func obj.value() base.u32 {
    return this.val
}
`, []string{"value"},
			call("parse", rd(bs("12"), false)),
			call("parse", rd(bs("3\x00"), true)),
		),
	})

	add("t02_self_assign_false_fact", testFile{
		Note:         "x = x + 1 creates the fact x == x + 1; x -= x rewrites x >= 3 into x >= 3 - x",
		ExpectEvents: []string{"C02:fact-false@9", "C02:fact-false@12"},
		Case: mk(`
pub struct obj?(
        v : base.u32,
)

pub func obj.inc!(x: base.u32) base.u32 {
    var i : base.u32
    i = args.x & 3
    i = i + 1
    this.v = i
    if i == 3 {
        i -= i
        this.v = i
    }
    return this.v
}
`, nil, icall("inc", 0), icall("inc", 2), icall("inc", 3)),
	})

	add("t03_loop_condition_entry_facts", testFile{
		Note:          "the loop condition is bounds-checked once, under the facts of the loop entry (i == 0): later iterations index out of range",
		ExpectEvents:  []string{"C01:index-out-of-range@10"},
		ExpectCEvents: []string{"sanitizer:ubsan:index"},
		Case: mk(`
pub struct obj?(
        a : array[4] base.u8,
        n : base.u32,
)

pub func obj.scan!() base.u32 {
    var i : base.u32
    var j : base.u32
    i = 0
    while this.a[i] == 0 {
        j = (i & 0xFF) + 1
        i = j
        this.n ~mod+= 1
        if i > 6 {
            break
        }
    }
    return i
}
`, nil, icall("scan")),
	})

	add("t04_refined_local_array", testFile{
		Note:          "var t : array[4] base.u8[1 ..= 3] is accepted although locals are zero-initialised: t[1] - 1 underflows",
		ExpectEvents:  []string{"C01:overflow:-@11", "C01:index-out-of-range@11"},
		ExpectCEvents: []string{"sanitizer:"},
		Case: mk(`
pub struct obj?(
        a : array[3] base.u8,
)

pub func obj.look!(x: base.u32) base.u32 {
    var t : array[4] base.u8[1 ..= 3]
    var r : base.u32
    if args.x == 1 {
        t[1] = 2
    }
    r = this.a[t[1] - 1] as base.u32
    return r
}
`, nil, icall("look", 1), icall("look", 1), icall("look", 0)),
	})

	add("t05_fact_on_pure_call_survives_store", testFile{
		Note:          "a fact about this.get() survives this.idx = ...: the index is no longer in range",
		ExpectEvents:  []string{"C02:fact-false@13", "C01:index-out-of-range@13"},
		ExpectCEvents: []string{"sanitizer:ubsan:index"},
		Case: mk(`
pub struct obj?(
        a   : array[4] base.u8,
        idx : base.u32,
)

pub func obj.get() base.u32 {
    return this.idx
}

pub func obj.poke!(x: base.u32) {
    if this.get() < 4 {
        this.idx = args.x
        this.a[this.get()] = 1
    }
}
`, []string{"get"}, icall("poke", 3), icall("poke", 2), icall("poke", 5), icall("poke", 1)),
	})

	add("t06_store_through_aliasing_slice", testFile{
		Note:          "a store through a slice that aliases a field leaves the fact about the field alive",
		ExpectEvents:  []string{"C02:fact-false@11", "C01:index-out-of-range@11"},
		ExpectCEvents: []string{"sanitizer:ubsan:index"},
		Case: mk(`
pub struct obj?(
        a : array[4] base.u8,
        b : array[8] base.u8,
)

pub func obj.poke!(x: base.u8) base.u32 {
    var s : slice base.u8
    s = this.b[.. 8]
    if this.b[0] < 4 {
        s[0] = args.x
        this.a[this.b[0]] = 7
    }
    return this.b[0] as base.u32
}
`, nil, icall("poke", 3), icall("poke", 2), icall("poke", 200), icall("poke", 1)),
	})

	add("t07_suspend_inside_io_limit", testFile{
		Note:         "a coroutine suspends inside an io_limit block: the C jumps back into the block past the initialisation of the saved limit",
		ExpectEvents: []string{"C01:suspend-inside-io_limit", "C01:resume-inside-io_limit"},
		ExpectDiff:   true,
		Case: mk(`
pub struct obj?(
        acc : base.u32,
)

pub func obj.take?(src: base.io_reader) {
    var c : base.u8
    var n : base.u64
    n = 3
    io_limit (io: args.src, limit: n) {
        c = args.src.read_u8?()
        this.acc ~mod+= c as base.u32
        c = args.src.read_u8?()
        this.acc ~mod+= (c as base.u32) << 8
    }
    c = args.src.read_u8?()
    this.acc ~mod+= (c as base.u32) << 16
    this.acc ~mod+= ((args.src.length() & 0xFF) as base.u32) << 24
}

pub func obj.get_acc() base.u32 {
    return this.acc
}
`, []string{"get_acc"},
			call("take", rd([]byte{1}, false)),
			call("take", rd([]byte{2, 3, 4, 5, 6, 7, 8, 9}, false)),
			call("take", rd([]byte{1, 2, 3, 4, 5, 6}, false)),
		),
	})

	add("t08_modshl_lower_bound", testFile{
		Note:          "~mod<< keeps the shifted lower bound although the value wraps: [1 ..= 255] ~mod<< [0 ..= 7] is believed to be >= 1, so a division by it is accepted",
		ExpectEvents:  []string{"C01:div-by-zero@10", "C02:fact-false@10"},
		ExpectCEvents: []string{"division by zero"},
		Case: mk(`
pub struct obj?(
        v : base.u32,
)

pub func obj.div!(x: base.u8, n: base.u8) base.u8 {
    var y : base.u8
    if args.x >= 1 {
        y = args.x ~mod<< (args.n & 7)
        this.v ~mod+= 1
        return 100 / y
    }
    return 0
}
`, nil, icall("div", 1, 0), icall("div", 3, 1), icall("div", 0, 7), icall("div", 128, 1), icall("div", 5, 2)),
	})

	add("t09_high_bits_zero", testFile{
		Note:          "u32.high_bits(n: 0) is (x) >> (32 - 0) in the generated C: undefined shift (the language and the checker's bound say 0)",
		ExpectEvents:  []string{"C01:cgen-ub:high_bits(n:0)@7"},
		ExpectCEvents: []string{"sanitizer:ubsan:shift exponent"},
		Case: mk(`
pub struct obj?(
        v : base.u32,
)

pub func obj.top!(x: base.u32, n: base.u32) base.u32 {
    this.v ~mod+= 1
    return args.x.high_bits(n: args.n & 31)
}
`, nil, icall("top", 0xF0000000, 4), icall("top", 0xFFFFFFFF, 31), icall("top", 0xFFFFFFFF, 0), icall("top", 1, 1)),
	})

	add("t10_stale_coroutine_state", testFile{
		Note:         "a private coroutine that was resumed and then returned an error leaves its suspension point recorded (the C exits through `goto exit`): the next call, reached because the caller used =?, resumes in the middle of the body",
		ExpectEvents: []string{"C04:stale-coroutine-state"},
		ExpectDiff:   true,
		Case: mk(`
pub status "#bad"

pub struct obj?(
        log : base.u32,
)

pri func obj.inner?(src: base.io_reader) {
    var c : base.u8
    this.log ~mod<<= 4
    this.log |= 1
    c = args.src.read_u8?()
    this.log ~mod<<= 4
    this.log |= 2
    c = args.src.read_u8?()
    this.log ~mod<<= 4
    this.log |= 3
    if c == 0xEE {
        return "#bad"
    }
    this.log ~mod<<= 4
    this.log |= 4
}

pub func obj.outer?(src: base.io_reader) {
    var status : base.status
    while true {
        status =? this.inner?(src: args.src)
        if status.is_suspension() {
            yield? status
            continue
        }
        break
    }
    if status.is_error() {
        this.log ~mod<<= 4
        this.log |= 0xE
    }
    this.log &= 0xFFF_FFFF
}

pub func obj.get_log() base.u32 {
    return this.log
}
`, []string{"get_log"},
			call("outer", rd([]byte{1}, false)),
			call("outer", rd([]byte{0xEE}, false)),
			call("outer", rd([]byte{5, 6}, false)),
			call("outer", rd([]byte{7, 8}, false)),
		),
	})

	add("t11_io_bind_without_derived_args", testFile{
		Note:         "a function without a used I/O argument does not save / reload the pointers of an io_bind'ed local around calls: what the callee consumed is invisible to the caller",
		ExpectEvents: []string{"C04:io-local-not-synced-around-call"},
		ExpectDiff:   true,
		Case: mk(`
pub struct obj?(
        acc  : base.u64,
) + (
        pool : array[8] base.u8,
)

pri func obj.drain!(r: base.io_reader) {
    if args.r.length() >= 4 {
        this.acc ~mod+= args.r.peek_u32le() as base.u64
        args.r.skip_u32_fast!(actual: 4, worst_case: 4)
    }
}

pub func obj.process!(x: base.u8) {
    var r : base.io_reader
    this.pool[0] = args.x
    this.pool[4] = args.x ~mod+ 1
    io_bind (io: r, data: this.pool[..], history_position: 0) {
        this.drain!(r: r)
        this.acc ~mod*= 256
        this.acc ~mod+= r.length()
    }
}

pub func obj.get_acc() base.u64 {
    return this.acc
}
`, []string{"get_acc"}, icall("process", 1), icall("process", 7)),
	})

	add("t15_array_element_store_keeps_facts", testFile{
		Note:          "an assignment to one array element leaves facts about other elements of the same array alive: a[j] = v does not drop facts mentioning a[i]",
		ExpectEvents:  []string{"C02:fact-false@10", "C01:index-out-of-range@10"},
		ExpectCEvents: []string{"sanitizer:ubsan:index"},
		Case: mk(`
pub struct obj?(
        a : array[4] base.u8,
        k : array[4] base.u8,
)

pub func obj.poke!(i: base.u32, j: base.u32, v: base.u8) base.u32 {
    if this.k[args.i & 3] < 4 {
        this.k[args.j & 3] = args.v
        // the checker still believes this.k[args.i & 3] < 4
        this.a[this.k[args.i & 3]] = 1
    }
    return this.k[0] as base.u32
}
`, nil, icall("poke", 0, 1, 9), icall("poke", 1, 2, 3), icall("poke", 2, 2, 77), icall("poke", 3, 0, 1)),
	})

	add("t16_return_inside_io_limit", testFile{
		Note:         "a return inside an io_limit block skips the C's restoration of the limit: the caller's buffer keeps the clipped write index",
		ExpectEvents: []string{"C01:jump-out-of-io_limit"},
		ExpectDiff:   true,
		Case: mk(`
pub struct obj?(
        acc : base.u32,
)

pub func obj.take?(src: base.io_reader) {
    var c : base.u8
    var n : base.u64
    n = 2
    io_limit (io: args.src, limit: n) {
        if args.src.length() >= 2 {
            c = args.src.peek_u8()
            args.src.skip_u32_fast!(actual: 1, worst_case: 2)
            this.acc ~mod+= c as base.u32
            if c == 7 {
                return ok
            }
        }
    }
    this.acc ~mod+= 0x100
}

pub func obj.get_acc() base.u32 {
    return this.acc
}
`, []string{"get_acc"},
			call("take", rd([]byte{1, 7, 3, 4, 5, 6}, false)),
			call("take", rd(nil, false)),
			call("take", rd(nil, false)),
			call("take", rd([]byte{9}, false)),
		),
	})

	add("t17_stale_state_after_note", testFile{
		Note:         "a pub coroutine that was resumed and then ends through `yield? note` (or an error) keeps its old suspension point: the object is not disabled by a note, so the next call resumes in the middle",
		ExpectEvents: []string{"C04:stale-coroutine-state"},
		ExpectDiff:   true,
		Case: mk(`
pub status "@done"

pub struct obj?(
        log : base.u32,
)

pub func obj.go?(src: base.io_reader) {
    var c  : base.u8
    var st : base.status
    this.log ~mod<<= 4
    this.log |= 1
    c = args.src.read_u8?()
    this.log ~mod<<= 4
    this.log |= 2
    st = "@done"
    yield? st
    this.log ~mod<<= 4
    this.log |= 3
}

pub func obj.get_log() base.u32 {
    return this.log
}
`, []string{"get_log"},
			call("go", rd(nil, false)),
			call("go", rd([]byte{1}, false)),
			call("go", rd([]byte{2}, false)),
			call("go", rd([]byte{3}, false)),
		),
	})

	add("t12_cgen_invalid_c", testFile{
		Note:          "accepted by the checker, but wuffs-c fails or emits C that does not compile: a pub function returning base.bool",
		ExpectCEvents: []string{"C11:wuffs-c-failed"},
		ExpectDiff:    true,
		Case: mk(`
pub struct obj?(
        v : base.u32,
)

pub func obj.is_set() base.bool {
    return this.v <> 0
}

pub func obj.set!(x: base.u32) {
    this.v = args.x
}
`, nil, icall("is_set"), icall("set", 3), icall("is_set")),
	})

	add("t13_cgen_sat_small_int", testFile{
		Note:          "binary ~sat+ on base.u8 makes wuffs-c emit wuffs_base__u8__sat_add((uint8_t)(x, y)), which does not compile",
		ExpectCEvents: []string{"C11:cc-failed"},
		ExpectDiff:    true,
		Case: mk(`
pub struct obj?(
        v : base.u32,
)

pub func obj.sat(x: base.u8, y: base.u8) base.u8 {
    return args.x ~sat+ args.y
}
`, nil, icall("sat", 200, 100), icall("sat", 1, 2)),
	})

	add("t14_cgen_checked_arg_with_result", testFile{
		Note:          "a pub non-coroutine with a refined (or I/O) argument and a result: the argument check returns wuffs_base__make_empty_struct(), which does not compile (Program.CGenIssues lists the shape)",
		ExpectCEvents: []string{"C11:cc-failed"},
		ExpectDiff:    true,
		Case: mk(`
pub struct obj?(
        v : base.u32,
)

pub func obj.scale!(x: base.u32[..= 100]) base.u32 {
    this.v = args.x * 3
    return this.v
}
`, nil, icall("scale", 5), icall("scale", 101)),
	})
}
