package main

func init() {
	add("f01_nested_coroutines", testFile{
		Note: "pub coroutine -> pri coroutine -> pri coroutine, suspending inside nested loops with locals (scalars and arrays) live across the suspension at every level; arguments re-evaluated on resumption",
		Case: mk(`
pub status "#bad byte"

pub struct obj?(
        acc   : base.u64,
        rows  : base.u32,
        depth : base.u32,
)

pri func obj.leaf?(src: base.io_reader, k: base.u32) {
    var i : base.u32
    var c : base.u8
    var w : array[3] base.u8
    var n : base.u32[..= 3]
    n = args.k & 3
    i = 0
    while i < n {
        assert i < 3 via "a < b: a < c; c <= b"(c: n)
        c = args.src.read_u8?()
        if c == 0xFF {
            return "#bad byte"
        }
        w[i] = c
        i += 1
    }
    this.acc ~mod*= 257
    this.acc ~mod+= (w[0] as base.u64) | ((w[1] as base.u64) << 8) | ((w[2] as base.u64) << 16) | ((n as base.u64) << 24)
    this.depth ~mod+= 1
}

pri func obj.row?(src: base.io_reader, cols: base.u32) {
    var j    : base.u32
    var c    : base.u32[..= 7]
    var seen : base.u64
    c = args.cols & 7
    j = 0
    while j < c {
        assert j < 7 via "a < b: a < c; c <= b"(c: c)
        seen ~mod+= this.acc ^ (j as base.u64)
        this.leaf?(src: args.src, k: j + 1)
        seen ~mod+= 1
        j += 1
    }
    this.acc ^= seen ~mod<< 1
    this.rows ~mod+= 1
}

pub func obj.decode?(src: base.io_reader) {
    var r    : base.u32
    var cols : base.u32
    var hdr  : base.u16
    var lim  : base.u32[..= 3]
    hdr = args.src.read_u16le?()
    lim = (hdr & 3) as base.u32
    r = 0
    while r < lim {
        assert r < 3 via "a < b: a < c; c <= b"(c: lim)
        cols = args.src.read_u8_as_u32?()
        this.row?(src: args.src, cols: cols)
        r += 1
    }
    this.acc ~mod+= (hdr as base.u64) << 40
}

pub func obj.get_acc() base.u64 {
    return this.acc
}

pub func obj.get_rows() base.u32 {
    return this.rows
}

pub func obj.get_depth() base.u32 {
    return this.depth
}
`, []string{"get_acc", "get_rows", "get_depth"},
			chunks("decode", append([]byte{0x03, 0x00, 3, 1, 2, 3, 4, 5, 6, 5, 9, 8, 7, 6, 5, 4, 3, 2, 1, 0, 2, 10, 11, 12},
				[]byte{0x02, 0x01, 7, 1, 2, 3, 1, 2, 3, 1, 2, 3, 1, 2, 3, 1, 2, 3, 1, 0xFF, 9, 9, 9}...), []int{1, 2, 1, 1, 3, 1, 5, 0, 2, 1, 1, 1, 4})...),
	})

	add("f02_eq_question_yield", testFile{
		Note: "=? receives the callee's suspension without propagating it; yield? of a status variable (ok / suspension / error); the callee keeps its own suspended state while the caller runs",
		Case: mk(`
pub status "#truncated"
pub status "$paused"

pub struct obj?(
        acc    : base.u64,
        tries  : base.u32,
        pauses : base.u32,
)

pri func obj.inner?(src: base.io_reader) {
    var v : base.u32
    var w : base.u32
    v = args.src.read_u24be_as_u32?()
    this.acc ~mod+= v as base.u64
    yield? "$paused"
    w = args.src.read_u16le_as_u32?()
    this.acc ~mod*= 3
    this.acc ~mod+= (w ~mod+ v) as base.u64
}

pub func obj.outer?(src: base.io_reader) {
    var status : base.status
    var n      : base.u32
    while n < 1000 {
        status =? this.inner?(src: args.src)
        this.tries ~mod+= 1
        if status.is_ok() {
            break
        } else if status == "$paused" {
            this.pauses ~mod+= 1
            n += 1
            continue
        } else if (status == base."$short read") and args.src.is_closed() {
            return "#truncated"
        }
        yield? status
        n += 1
    }
    this.acc ~mod+= ((n & 0xFFFF) as base.u64) << 48
}

pub func obj.get_acc() base.u64 {
    return this.acc
}

pub func obj.get_tries() base.u32 {
    return this.tries
}

pub func obj.get_pauses() base.u32 {
    return this.pauses
}
`, []string{"get_acc", "get_tries", "get_pauses"},
			call("outer", rd([]byte{1}, false)),
			call("outer", rd([]byte{2}, false)),
			call("outer", rd([]byte{3, 4}, false)),
			call("outer", rd(nil, false)),
			call("outer", rd([]byte{5, 9, 9, 9}, false)),
			call("outer", rd([]byte{9}, false)),
			call("outer", rd([]byte{8, 7}, true)),
			call("outer", rd(nil, true)),
			call("outer", rd(nil, true)),
		),
	})

	add("f03_coroutine_resumed_notes", testFile{
		Note: "coroutine_resumed, yield? of a package suspension, return of a note (object stays usable), status methods on every category",
		Case: mk(`
pub status "@half"
pub status "$again"
pub status "#no"

pub struct obj?(
        phase : base.u32,
        flags : base.u32,
)

pri func obj.classify!(s: base.status) {
    if args.s.is_ok() {
        this.flags ~mod+= 1
    }
    if args.s.is_error() {
        this.flags ~mod+= 0x10
    }
    if args.s.is_note() {
        this.flags ~mod+= 0x100
    }
    if args.s.is_suspension() {
        this.flags ~mod+= 0x1000
    }
}

pub func obj.run?(x: base.u32) {
    var st : base.status
    if coroutine_resumed {
        this.flags ~mod+= 0x10000
    }
    this.classify!(s: ok)
    this.classify!(s: "@half")
    this.classify!(s: "$again")
    this.classify!(s: "#no")
    this.classify!(s: base."$short write")
    this.classify!(s: base."#bad argument")
    this.classify!(s: base."@end of data")
    this.phase ~mod+= 1
    if args.x == 1 {
        yield? "$again"
        if coroutine_resumed {
            this.flags ~mod+= 0x100000
        }
        this.phase ~mod+= 10
    } else if args.x == 2 {
        return "@half"
    } else if args.x == 3 {
        st = "#no"
        return st
    } else if args.x == 4 {
        st = base."@end of data"
        return st
    }
    this.phase ~mod+= 100
    return ok
}

pub func obj.get_phase() base.u32 {
    return this.phase
}

pub func obj.get_flags() base.u32 {
    return this.flags
}
`, []string{"get_phase", "get_flags"},
			icall("run", 0), icall("run", 1), icall("run", 7), icall("run", 2), icall("run", 4), icall("run", 1), icall("run", 1),
			icall("run", 3), icall("run", 0),
		),
	})
}
