package main

import "verif/internal/wprog"

func init() {
	add("j01_status_values", testFile{
		Note: "status-typed fields, locals, arguments and results; == / <> on statuses of this package and of base; a status local live across a suspension",
		Case: mk(`
pub status "#alpha"
pub status "@beta"
pri status "$gamma"
pri status "#delta"

pub struct obj?(
        last : base.status,
        code : base.u32,
)

pri func obj.pick(x: base.u32) base.status {
    if args.x == 0 {
        return ok
    } else if args.x == 1 {
        return "#alpha"
    } else if args.x == 2 {
        return "@beta"
    } else if args.x == 3 {
        return "#delta"
    } else if args.x == 4 {
        return base."#bad data"
    }
    return base."@end of data"
}

pri func obj.encode!(s: base.status) {
    var c : base.u32
    if args.s.is_ok() {
        c = 1
    } else if args.s == "#alpha" {
        c = 2
    } else if args.s == "@beta" {
        c = 3
    } else if args.s == "$gamma" {
        c = 4
    } else if args.s == base."#bad data" {
        c = 5
    } else if args.s <> base."@end of data" {
        c = 6
    } else {
        c = 7
    }
    if args.s == this.last {
        c |= 0x80
    }
    this.code ~mod*= 16
    this.code ~mod+= c
    this.last = args.s
}

pub func obj.feed?(src: base.io_reader) {
    var st : base.status
    var c  : base.u8
    c = args.src.read_u8?()
    st = this.pick(x: (c & 7) as base.u32)
    c = args.src.read_u8?()
    this.encode!(s: st)
    if c == 0x24 {
        this.encode!(s: "$gamma")
    }
    if st.is_error() {
        return st
    }
    return ok
}

pub func obj.get_code() base.u32 {
    return this.code
}

pub func obj.get_last() base.status {
    return this.last
}
`, []string{"get_code", "get_last"},
			call("feed", rd([]byte{0}, false)),
			call("feed", rd([]byte{9}, false)),
			call("feed", rd([]byte{2, 0x24}, false)),
			call("feed", rd([]byte{2}, false)),
			call("feed", rd([]byte{2, 5, 5, 6, 0x24, 4}, false)),
			call("feed", rd(nil, false)),
			call("feed", rd([]byte{1}, false)),
			call("feed", rd([]byte{0, 0}, false)),
		),
	})

	add("j02_bools_short_circuit", testFile{
		Note: "bool fields / locals / arguments; and / or short-circuit protecting an index and a division on the not-taken side",
		Case: mk(`
pub struct obj?(
        a    : array[4] base.u8,
        flag : base.bool,
        hits : base.u32,
)

pri func obj.test(i: base.u32, strict: base.bool) base.bool {
    var b : base.bool
    b = (args.i < 4) and (this.a[args.i & 3] <> 0)
    if args.strict {
        b = b and this.flag
    }
    return b or ((args.i >= 4) and ((args.i & 1) == 1))
}

pub func obj.set!(i: base.u32, v: base.u8, f: base.bool) {
    this.a[args.i & 3] = args.v
    this.flag = args.f or (not this.flag)
}

pub func obj.probe!(i: base.u32, d: base.u32) base.u32 {
    var r : base.u32
    if this.test(i: args.i, strict: false) {
        r |= 1
    }
    if this.test(i: args.i, strict: true) {
        r |= 2
    }
    if (args.d <> 0) and ((100 / (args.d | 1)) > 3) {
        r |= 4
    }
    if (args.d == 0) or ((100 % (args.d | 1)) == 0) {
        r |= 8
    }
    if (args.i < 4) and (args.d < 4) and (this.a[args.i & 3] == this.a[args.d & 3]) {
        r |= 16
    }
    if args.i < 4 {
        if (this.a[args.i] == 7) or (this.a[args.i] == 0) {
            r |= 64
        }
    }
    if this.flag {
        r |= 32
    }
    this.hits ~mod+= r
    return r
}

pub func obj.get_hits() base.u32 {
    return this.hits
}
`, []string{"get_hits"},
			icall("probe", 0, 0), icall("set", 1, 7, 0), icall("probe", 1, 1), icall("probe", 1, 25), icall("set", 2, 7, 1),
			icall("probe", 2, 1), icall("probe", 3, 3), icall("probe", 4, 0), icall("probe", 5, 33), icall("probe", 0xFFFFFFFF, 0xFFFFFFFF),
			icall("set", 7, 0, 0), icall("probe", 3, 2), icall("probe", 1, 2),
		),
	})

	add("j03_loops_pre_inv_post", testFile{
		Note: "while loops with pre, inv and post conditions, asserts with several axioms, facts reconciled across if / else-if chains and used afterwards",
		Case: mk(`
pub struct obj?(
        tab : array[20] base.u16,
        out : base.u32,
)

pub func obj.fill!(n: base.u32, step: base.u32) {
    var i   : base.u32
    var n   : base.u32[..= 20]
    var s   : base.u32[..= 7]
    var tot : base.u32
    n = args.n.min(no_more_than: 20)
    s = args.step & 7
    i = 0
    while i < n,
            pre tot == 0,
            inv n <= 20,
            post i >= n,
    {
        assert i < 20 via "a < b: a < c; c <= b"(c: n)
        this.tab[i] = (((i * 7) + s) & 0xFFFF) as base.u16
        i += 1
        assert tot == 0
    }
    assert i >= n
    if n < 20 {
        assert n < 20
        this.tab[n] = 0xFFFF
    }
    this.out = i ~mod+ tot
}

pub func obj.bucket(x: base.u32) base.u32 {
    var k : base.u32
    if args.x < 10 {
        k = 0
        assert k < 20
    } else if args.x < 100 {
        k = 5
        assert k < 20
    } else if args.x < 1000 {
        k = (args.x / 100) + 5
        assert k < 20
    } else {
        k = 19
        assert k < 20
    }
    // "k < 20" survived the reconciliation of all four arms
    return this.tab[k] as base.u32
}

pub func obj.sum_down(n: base.u32) base.u32 {
    var i : base.u32[..= 20]
    var t : base.u32
    i = args.n.min(no_more_than: 20)
    while i > 0,
            inv i <= 20,
    {
        i -= 1
        t ~mod+= this.tab[i] as base.u32
    }
    return t
}

pub func obj.get_out() base.u32 {
    return this.out
}
`, []string{"get_out"},
			icall("fill", 0, 0), icall("bucket", 0), icall("fill", 20, 3), icall("bucket", 9), icall("bucket", 10), icall("bucket", 99),
			icall("bucket", 100), icall("bucket", 999), icall("bucket", 1000), icall("bucket", 0xFFFFFFFF), icall("sum_down", 0),
			icall("sum_down", 20), icall("sum_down", 21), icall("fill", 7, 0xFFFFFFFF), icall("sum_down", 8), icall("fill", 0xFFFFFFFF, 1),
			icall("sum_down", 0xFFFFFFFF), icall("bucket", 555),
		),
	})

	add("j04_pointer_locals_after_suspension", testFile{
		Note: "slice-typed locals are not kept across a suspension (the generated C re-initialises them; the checker drops their facts): after resumption they read as empty",
		Case: mk(`
pub struct obj?(
        buf : array[8] base.u8,
        r   : base.u64,
)

pub func obj.go?(src: base.io_reader) {
    var s : slice base.u8
    var c : base.u8
    var n : base.u64
    s = this.buf[2 .. 7]
    n = s.length()
    c = args.src.read_u8?()
    // if the read suspended, s is the empty slice now
    this.r ~mod*= 100
    this.r ~mod+= (n ~mod* 10) ~mod+ s.length()
    s = this.buf[.. 3]
    if s.length() > 0 {
        s[0] = c
    }
    c = args.src.read_u8?()
    this.r ~mod*= 100
    this.r ~mod+= s.length()
    if 0 < s.length() {
        s[0] = c
    }
}

pub func obj.get_r() base.u64 {
    return this.r
}

pub func obj.get_buf() base.u64 {
    return this.buf[0 .. 8].peek_u64le()
}
`, []string{"get_r", "get_buf"},
			call("go", rd([]byte{0x11, 0x22}, false)),
			call("go", rd(nil, false)),
			call("go", rd([]byte{0x33}, false)),
			call("go", rd([]byte{0x44}, false)),
			call("go", rd([]byte{0x55}, false)),
			call("go", rd(nil, false)),
			call("go", rd([]byte{0x66, 0x77, 0x88}, false)),
		),
	})

	add("j05_rle_codec", testFile{
		Note: "a small RLE decoder using source and destination together: suspends on $short read and $short write at arbitrary points, copies from history, uses limited copies and fast paths",
		Case: mk(`
pub status "#bad distance"

pub struct obj?(
        total : base.u64,
)

pub func obj.decode?(dst: base.io_writer, src: base.io_reader) {
    var op  : base.u8
    var n   : base.u32
    var d   : base.u32
    var k   : base.u32
    var lit : base.u8
    while true {
        op = args.src.read_u8?()
        if op == 0 {
            return ok
        } else if op < 0x40 {
            // literal run of op bytes
            n = op as base.u32
            while n > 0 {
                k = args.dst.limited_copy_u32_from_reader!(up_to: n, r: args.src)
                this.total ~mod+= k as base.u64
                n ~sat-= k
                if n == 0 {
                    break
                } else if args.src.length() == 0 {
                    yield? base."$short read"
                } else {
                    yield? base."$short write"
                }
            }
        } else if op < 0x80 {
            // repeat one byte (op - 0x3F) times
            lit = args.src.read_u8?()
            n = ((op - 0x3F) & 0x7F) as base.u32
            while n > 0 {
                args.dst.write_u8?(a: lit)
                this.total ~mod+= 1
                n -= 1
            }
        } else {
            // copy (op & 0x7F) + 1 bytes from distance d
            d = args.src.read_u16le_as_u32?()
            n = ((op & 0x7F) as base.u32) + 1
            if (d == 0) or ((d as base.u64) > args.dst.history_length()) {
                return "#bad distance"
            }
            while n > 0 {
                if (n >= 1) and ((n as base.u64) <= args.dst.length()) and (d >= 1) and ((d as base.u64) <= args.dst.history_length()) {
                    k = args.dst.limited_copy_u32_from_history_fast!(up_to: n, distance: d)
                } else {
                    k = args.dst.limited_copy_u32_from_history!(up_to: n, distance: d)
                }
                this.total ~mod+= k as base.u64
                n ~sat-= k
                if n > 0 {
                    yield? base."$short write"
                }
            }
        }
    }
}

pub func obj.get_total() base.u64 {
    return this.total
}
`, []string{"get_total"}, rleCalls()...),
	})

	add("j06_private_helpers", testFile{
		Note: "private functions with slice, bool, status and numeric arguments; slice results of the form this.f[i .. j]; assignment to args.x inside an impure function; calls nested in expressions",
		Case: mk(`
pub struct obj?(
        ring : array[16] base.u8,
        pos  : base.u32[..= 15],
)

pri func obj.window(k: base.u32) roslice base.u8 {
    var k : base.u32[..= 8]
    k = args.k.min(no_more_than: 8)
    assert k <= (k + 8) via "a <= (a + b): 0 <= b"(b: 8)
    return this.ring[k .. k + 8]
}

pri func obj.mixin!(s: roslice base.u8, weight: base.u32, neg: base.bool) base.u32 {
    var i : base.u64
    var t : base.u32
    while i < args.s.length() {
        t ~mod+= (args.s[i] as base.u32) ~mod* args.weight
        i ~mod+= 1
    }
    if args.neg {
        t ~mod*= 0xFFFF_FFFF
    }
    args.weight = t & 15
    this.ring[args.weight] ~mod+= 1
    return t
}

pri func obj.twice(x: base.u32) base.u32 {
    return args.x ~mod* 2
}

pub func obj.push!(v: base.u8) base.u32 {
    var r : base.u32
    var p : base.u32[..= 15]
    this.ring[this.pos] = args.v
    p = (this.pos + 1) & 15
    this.pos = p
    r = this.mixin!(s: this.window(k: this.pos), weight: this.twice(x: this.twice(x: args.v as base.u32)), neg: (args.v & 1) == 1)
    return r ~mod+ this.twice(x: this.pos)
}
`, nil,
			icall("push", 1), icall("push", 2), icall("push", 255), icall("push", 0), icall("push", 128), icall("push", 77),
			icall("push", 3), icall("push", 4), icall("push", 5), icall("push", 6), icall("push", 7), icall("push", 8),
			icall("push", 9), icall("push", 10), icall("push", 11), icall("push", 12), icall("push", 13), icall("push", 14),
		),
	})
}

func rleCalls() []wprog.Call {
	var st []byte
	st = append(st, 5, 'h', 'e', 'l', 'l', 'o')
	st = append(st, 0x42, 'x')
	st = append(st, 0x84, 3, 0)
	st = append(st, 0x3F)
	st = append(st, seqBytes(63, 3, 0x20)...)
	st = append(st, 0xFF, 1, 0)
	st = append(st, 0x90, 70, 0)
	st = append(st, 0x7F, '-')
	st = append(st, 0)
	// second stream: ends with a bad distance
	st = append(st, 2, 'o', 'k', 0x81, 0xFF, 0x7F, 9, 9)
	srcSizes := []int{1, 2, 0, 5, 1, 1, 7, 0, 0, 30, 3, 50, 2, 1, 1, 4}
	dstSizes := []int{0, 1, 3, 0, 10, 2, 0, 40, 1, 1, 100, 0, 7, 64, 0, 200}
	var cs []wprog.Call
	i := 0
	for k := 0; k < 60; k++ {
		n := srcSizes[k%len(srcSizes)]
		if i+n > len(st) {
			n = len(st) - i
		}
		cs = append(cs, call("decode", wr(dstSizes[k%len(dstSizes)]), rd(st[i:i+n], false)))
		i += n
	}
	return cs
}
