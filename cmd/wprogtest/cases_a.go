package main

func init() {
	// ---- 01: hello-wuffs-c's parser, with suspension between digits.
	add("a01_hello_parse", testFile{
		Note: "hello-wuffs-c/parse.wuffs; read_u8? suspends, locals and fields survive",
		Case: mk(`
pri status "#not a digit"
pri status "#too large"

pub struct obj?(
        val : base.u32,
)

pub func obj.parse?(src: base.io_reader) {
    var c : base.u8
    var v : base.u32
    while true {
        c = args.src.read_u8?()
        if c == 0 {
            return ok
        }
        if (c < 0x30) or (0x39 < c) {
            return "#not a digit"
        }
        c -= 0x30
        v = this.val
        if v < 429_496729 {
            this.val = (10 * v) + (c as base.u32)
            continue
        } else if (v > 429_496729) or (c > 5) {
            return "#too large"
        }
        this.val = (10 * v) + (c as base.u32)
    }
}

pub func obj.value() base.u32 {
    return this.val
}
`, []string{"value"},
			call("parse", rd(bs("12"), false)),
			call("parse", rd(bs("3"), false)),
			call("parse", rd(nil, false)),
			call("parse", rd(bs("4567\x00zz"), true)),
			call("parse", rd(nil, false)),
			call("parse", rd(bs("9"), false)),
		),
	})

	add("a02_hello_errors", testFile{
		Note: "error return disables the object; later calls say so",
		Case: mk(`
pri status "#not a digit"
pri status "#too large"

pub struct obj?(
        val : base.u32,
)

pub func obj.parse?(src: base.io_reader) {
    var c : base.u8
    var v : base.u32
    while true {
        c = args.src.read_u8?()
        if c == 0 {
            return ok
        }
        if (c < 0x30) or (0x39 < c) {
            return "#not a digit"
        }
        c -= 0x30
        v = this.val
        if v < 429_496729 {
            this.val = (10 * v) + (c as base.u32)
            continue
        } else if (v > 429_496729) or (c > 5) {
            return "#too large"
        }
        this.val = (10 * v) + (c as base.u32)
    }
}

pub func obj.value() base.u32 {
    return this.val
}

pub func obj.bump!() base.u32 {
    this.val ~mod+= 1
    return this.val
}
`, []string{"value"},
			call("parse", rd(bs("429496729"), false)),
			call("bump"),
			call("parse", rd(bs("6"), false)),
			call("parse", rd(bs("1"), false)),
			call("bump"),
		),
	})

	// ---- 03: every arithmetic operator on u8.
	add("a03_ops_u8", testFile{
		Note: "all binary operators incl. ~mod/~sat on base.u8 at the type's edges",
		Case: mk(opsProgram("base.u8", 8), nil, opsCalls(8)...),
	})
	add("a04_ops_u16", testFile{Case: mk(opsProgram("base.u16", 16), nil, opsCalls(16)...)})
	add("a05_ops_u32", testFile{Case: mk(opsProgram("base.u32", 32), nil, opsCalls(32)...)})
	add("a06_ops_u64", testFile{Case: mk(opsProgram("base.u64", 64), nil, opsCalls(64)...)})
}
