package main

import (
	"fmt"
	"strings"

	"verif/internal/wprog"
)

func mk(src string, getters []string, calls ...wprog.Call) wprog.Case {
	return wprog.Case{Source: strings.TrimLeft(src, "\n"), Struct: "obj", Getters: getters, Calls: calls}
}

func maxOf(bits int) uint64 {
	if bits == 64 {
		return ^uint64(0)
	}
	return 1<<uint(bits) - 1
}

// opsProgram exercises every operator on one unsigned type.
func opsProgram(T string, bits int) string {
	half := bits / 2
	hmask := fmt.Sprintf("0x%X", maxOf(half))
	cmask := fmt.Sprintf("%d", bits-1)
	max := fmt.Sprintf("0x%X", maxOf(bits))
	// Binary ~sat+ / ~sat- on base.u8 and base.u16 make wuffs-c emit invalid C
	// (wuffs_base__u8__sat_add((uint8_t)(x, y))); only the op= forms work there.
	satadd, satsub := "return args.x ~sat+ args.y", "return args.x ~sat- args.y"
	if bits <= 16 {
		satadd, satsub = "a = args.x\n    a ~sat+= args.y\n    return a", "a = args.x\n    a ~sat-= args.y\n    return a"
	}
	r := strings.NewReplacer("T", T, "HMASK", hmask, "CMASK", cmask, "MAX", max, "SATADD", satadd, "SATSUB", satsub)
	return r.Replace(`
pub struct obj?(
        acc : T,
)

pub func obj.add(x: T, y: T) T {
    return (args.x >> 1) + (args.y >> 1)
}

pub func obj.add_guard(x: T, y: T) T {
    if args.x <= 3 {
        if args.y <= (MAX - 3) {
            return args.x + args.y
        }
    }
    return 0
}

pub func obj.sub(x: T, y: T) T {
    if args.x >= args.y {
        return args.x - args.y
    } else if args.y > args.x {
        return args.y - args.x
    }
    return 0
}

pub func obj.mul(x: T, y: T) T {
    return (args.x & HMASK) * (args.y & HMASK)
}

pub func obj.div(x: T, y: T) T {
    if args.y > 0 {
        return args.x / args.y
    }
    return MAX
}

pub func obj.rem(x: T, y: T) T {
    if args.y > 0 {
        return args.x % args.y
    }
    return MAX
}

pub func obj.shl(x: T, y: T) T {
    return (args.x & 1) << (args.y & CMASK)
}

pub func obj.shr(x: T, y: T) T {
    return args.x >> (args.y & CMASK)
}

pub func obj.band(x: T, y: T) T {
    return args.x & args.y
}

pub func obj.bor(x: T, y: T) T {
    return args.x | args.y
}

pub func obj.bxor(x: T, y: T) T {
    return args.x ^ args.y
}

pub func obj.modadd(x: T, y: T) T {
    return args.x ~mod+ args.y
}

pub func obj.modsub(x: T, y: T) T {
    return args.x ~mod- args.y
}

pub func obj.modmul(x: T, y: T) T {
    return args.x ~mod* args.y
}

pub func obj.modshl(x: T, y: T) T {
    return args.x ~mod<< (args.y & CMASK)
}

pub func obj.satadd(x: T, y: T) T {
    var a : T
    SATADD
}

pub func obj.satsub(x: T, y: T) T {
    var a : T
    SATSUB
}

pub func obj.cmp(x: T, y: T) base.u32 {
    var r : base.u32
    if args.x < args.y {
        r |= 1
    }
    if args.x <= args.y {
        r |= 2
    }
    if args.x == args.y {
        r |= 4
    }
    if args.x <> args.y {
        r |= 8
    }
    if args.x >= args.y {
        r |= 16
    }
    if args.x > args.y {
        r |= 32
    }
    if not (args.x > args.y) {
        r |= 64
    }
    if (args.x > 1) and (args.y > 1) {
        r |= 128
    }
    if (args.x > 1) or (args.y > 1) {
        r |= 256
    }
    if (args.x > 1) and (args.y > 1) and (args.x <> args.y) {
        r |= 512
    }
    if (args.x == 0) or (args.y == 0) or (args.x == args.y) {
        r |= 1024
    }
    return r
}

pri func obj.lt_impl(x: T, y: T) base.bool {
    return args.x < args.y
}

pub func obj.lt(x: T, y: T) base.u8 {
    var b : base.bool
    b = this.lt_impl(x: args.x, y: args.y)
    if b and (not (args.x == args.y)) {
        return 1
    }
    return 0
}

pub func obj.assoc(x: T, y: T) T {
    return ((args.x >> 2) + (args.y >> 2) + 3) ^ (args.x & args.y & MAX) ^ (args.x | args.y | 1) ^ ((args.x & 1) * (args.y & 1) * 1)
}

pub func obj.minmax(x: T, y: T) T {
    return args.x.min(no_more_than: args.y) ^ args.x.max(no_less_than: args.y) ^ args.x.low_bits(n: 3) ^ args.y.high_bits(n: 3)
}

pub func obj.lowhigh(x: T, y: T) T {
    var n : base.u32[..= CMASK]
    n = ((args.y & CMASK) as base.u32)
    if n == 0 {
        return args.x.low_bits(n: 0)
    }
    return args.x.low_bits(n: n) ^ args.x.high_bits(n: n)
}

pub func obj.opeq(x: T, y: T) T {
    var a : T
    var b : T
    a = args.x >> 1
    a += args.y >> 1
    b = a
    if a >= (args.y >> 1) {
        a -= args.y >> 1
    }
    a &= HMASK
    a *= (args.y & HMASK)
    a |= args.x & 1
    a ^= b
    if args.y > 0 {
        a /= args.y
        b %= args.y
    }
    a >>= (args.y & CMASK)
    b &= 1
    b <<= (args.x & CMASK)
    return a ^ b
}

pub func obj.tildeeq(x: T, y: T) T {
    var a : T
    var b : T
    a = args.x
    a ~mod+= args.y
    a ~mod*= args.x
    a ~mod-= 3
    a ~mod<<= (args.y & CMASK)
    b = args.x
    b ~sat+= args.y
    b ~sat-= 1
    b ~sat-= args.x
    return a ^ b
}

pub func obj.accum!(x: T, y: T) T {
    this.acc ~mod+= args.x ~mod* args.y
    this.acc ~mod+= 1
    return this.acc
}

pub func obj.convert(x: T, y: T) base.u64 {
    var a : base.u8
    var b : base.u16
    var c : base.u32
    var d : base.u64
    a = (args.x & 0xFF) as base.u8
    b = ((args.x >> 1) & 0xFF) as base.u16
    c = (args.y & 0xFF) as base.u32
    d = (args.y as base.u64) ~mod* 3
    return ((a as base.u64) ~mod+ ((b as base.u64) << 8)) ~mod+ (((c as base.u64) << 24) ~mod+ d)
}
`)
}

func opsPairs(bits int) [][2]uint64 {
	m := maxOf(bits)
	h := m / 2
	p5 := uint64(0x5555555555555555) & m
	pa := uint64(0xAAAAAAAAAAAAAAAA) & m
	return [][2]uint64{
		{0, 0}, {0, m}, {m, 0}, {m, m}, {1, m}, {m, 1}, {m - 1, 1}, {1, m - 1},
		{h, h}, {h + 1, h}, {h + 1, h + 1}, {p5, pa}, {pa, p5},
		{uint64(bits - 1), uint64(bits)}, {3, 5}, {5, 3}, {7, m - 7}, {m - 2, 2},
		{0x9E3779B97F4A7C15 & m, 0xC2B2AE3D27D4EB4F & m}, {2, uint64(bits - 2)},
	}
}

func opsCalls(bits int) []wprog.Call {
	methods := []string{"add", "add_guard", "sub", "mul", "div", "rem", "shl", "shr", "band", "bor", "bxor",
		"modadd", "modsub", "modmul", "modshl", "satadd", "satsub", "cmp", "lt", "assoc", "minmax", "lowhigh",
		"opeq", "tildeeq", "accum", "convert"}
	var cs []wprog.Call
	for _, m := range methods {
		for _, p := range opsPairs(bits) {
			cs = append(cs, icall(m, p[0], p[1]))
		}
	}
	return cs
}
