// wprogtest is the development and self-test tool of internal/wprog: it runs
// Case files through Compile -> Interpret -> RunC (plain and sanitized), and
// prints both traces side by side together with all monitor events.
//
//	go run -tags verif ./cmd/wprogtest [-dir internal/wprog/testdata] [-run regexp] [-v]
//	go run -tags verif ./cmd/wprogtest -emit        # (re)write testdata/*.json from cases*.go
//	go run -tags verif ./cmd/wprogtest -bench 200   # interpreter throughput
package main

import (
	"bytes"
	"encoding/json"
	"flag"
	"fmt"
	"os"
	"os/exec"
	"path/filepath"
	"reflect"
	"regexp"
	"sort"
	"strings"
	"time"

	"verif/internal/drv"
	"verif/internal/wprog"
)

// testFile is a Case plus the expectations of the self-test.
type testFile struct {
	wprog.Case
	Note string `json:"note,omitempty"`
	// ExpectEvents lists "Prop:Kind@line" (line optional) the interpreter must
	// report; a case without it must be silent.
	ExpectEvents []string `json:"expect_events,omitempty"`
	// ExpectCEvents lists substrings of "Prop:Kind" the sanitized C should
	// show (informational: a miss is printed, not failed).
	ExpectCEvents []string `json:"expect_c_events,omitempty"`
	// ExpectDiff: the C trace is expected to differ from the interpreter's.
	ExpectDiff bool `json:"expect_diff,omitempty"`
	// ExpectRejected: the checker must reject the program.
	ExpectRejected bool `json:"expect_rejected,omitempty"`
	// SkipC: do not run the C side (e.g. the C would not terminate).
	SkipC bool `json:"skip_c,omitempty"`
	// ExpectUnsupported: the interpreter must refuse the case.
	ExpectUnsupported bool `json:"expect_unsupported,omitempty"`
}

var (
	flagDir     = flag.String("dir", "/verif/internal/wprog/testdata", "directory of *.json cases")
	flagRun     = flag.String("run", "", "only cases whose file name matches this regexp")
	flagScratch = flag.String("scratch", "/tmp/wprogtest", "persistent scratch directory (tools, base C, objects)")
	flagV       = flag.Bool("v", false, "print traces and events of every case")
	flagEmit    = flag.Bool("emit", false, "write the embedded hand-written cases to -dir and exit")
	flagNoC     = flag.Bool("noc", false, "interpreter only")
	flagVerbose = flag.Bool("rej", false, "matrix mode: also list rejected variants")
	flagMatrix  = flag.String("matrix", "", "enumerate every variant of this family: accepted / rejected / first event (interpreter only)")
	flagBench   = flag.Int("bench", 0, "repeat Compile+Interpret of every case N times and report the time")
	flagKeep    = flag.Bool("keep", false, "keep generated C")
	flagRebuild = flag.Bool("rebuild", false, "rebuild wuffs-c and the base C even if cached")
	flagRepo    = flag.String("repo", "", "tree under test (default /repo or $VERIF_REPO)")
)

func main() {
	flag.Parse()
	if *flagEmit {
		emit()
		return
	}
	if *flagGen {
		genMode()
		return
	}
	if *flagMatrix != "" {
		matrixMode()
		return
	}
	files, err := filepath.Glob(filepath.Join(*flagDir, "*.json"))
	if err != nil || len(files) == 0 {
		fatal("no cases in %s", *flagDir)
	}
	sort.Strings(files)
	var re *regexp.Regexp
	if *flagRun != "" {
		re = regexp.MustCompile(*flagRun)
	}
	var tfs []*testFile
	var names []string
	for _, f := range files {
		if re != nil && !re.MatchString(filepath.Base(f)) {
			continue
		}
		b, err := os.ReadFile(f)
		if err != nil {
			fatal("%v", err)
		}
		tf := &testFile{}
		if err := json.Unmarshal(b, tf); err != nil {
			fatal("%s: %v", f, err)
		}
		tfs = append(tfs, tf)
		names = append(names, strings.TrimSuffix(filepath.Base(f), ".json"))
	}

	// Interpreter.
	t0 := time.Now()
	progs := make([]*wprog.Program, len(tfs))
	outs := make([]*wprog.Outcome, len(tfs))
	rejected := make([]string, len(tfs))
	for i, tf := range tfs {
		p, rej, err := wprog.Compile(&tf.Case)
		if err != nil {
			fatal("%s: Compile: %v", names[i], err)
		}
		progs[i], rejected[i] = p, rej
		if p != nil {
			outs[i] = p.Interpret(&tf.Case)
		}
	}
	fmt.Printf("compile+interpret of %d cases: %.1f ms\n", len(tfs), float64(time.Since(t0).Microseconds())/1000)

	if *flagBench > 0 {
		t0 := time.Now()
		n := 0
		for r := 0; r < *flagBench; r++ {
			for _, tf := range tfs {
				p, _, _ := wprog.Compile(&tf.Case)
				if p != nil {
					p.Interpret(&tf.Case)
				}
				n++
			}
		}
		d := time.Since(t0)
		fmt.Printf("bench: %d compile+interpret in %.2fs = %.3f ms each\n", n, d.Seconds(), d.Seconds()*1000/float64(n))
		t0 = time.Now()
		n = 0
		for r := 0; r < *flagBench; r++ {
			for i, tf := range tfs {
				if progs[i] != nil {
					progs[i].Interpret(&tf.Case)
					n++
				}
			}
		}
		d = time.Since(t0)
		fmt.Printf("bench: %d interpret-only in %.2fs = %.3f ms each\n", n, d.Seconds(), d.Seconds()*1000/float64(n))
	}

	// C.
	var cIdx []int
	var cCases []*wprog.Case
	for i, tf := range tfs {
		if progs[i] != nil && !tf.SkipC {
			cIdx = append(cIdx, i)
			cCases = append(cCases, &tfs[i].Case)
		}
	}
	res := map[string]*cres{}
	if !*flagNoC && len(cCases) > 0 {
		env := prepareEnv()
		wprog.CKeepScratch = *flagKeep
		for _, variant := range []string{"plain", "san"} {
			e := *env
			e.Sanitize = variant == "san"
			t0 := time.Now()
			tr, ev, err := wprog.RunC(&e, cCases)
			if err != nil {
				fatal("RunC(%s): %v", variant, err)
			}
			d := time.Since(t0)
			fmt.Printf("RunC[%s] of %d cases: %.2fs = %.3f s per case\n", variant, len(cCases), d.Seconds(), d.Seconds()/float64(len(cCases)))
			full := &cres{tr: make([][]wprog.Rec, len(tfs)), ev: make([][]wprog.Event, len(tfs))}
			for k, i := range cIdx {
				full.tr[i], full.ev[i] = tr[k], ev[k]
			}
			res[variant] = full
		}
	}

	// Verdicts.
	fails := 0
	for i, tf := range tfs {
		var problems []string
		var notes []string
		switch {
		case progs[i] == nil && tf.ExpectRejected:
			notes = append(notes, "rejected as expected: "+rejected[i])
		case progs[i] == nil && len(tf.ExpectEvents) > 0:
			notes = append(notes, "trigger case is rejected by this tree (defect repaired?): "+rejected[i])
		case progs[i] == nil:
			problems = append(problems, "REJECTED: "+rejected[i])
		case tf.ExpectRejected:
			problems = append(problems, "expected a rejection, but the checker accepted the program")
		}
		out := outs[i]
		if out != nil {
			switch {
			case out.Unsupported != "" && tf.ExpectUnsupported:
				notes = append(notes, "unsupported as expected: "+out.Unsupported)
			case out.Unsupported != "":
				problems = append(problems, "UNSUPPORTED: "+out.Unsupported)
			case tf.ExpectUnsupported:
				problems = append(problems, "expected the interpreter to refuse the case")
			}
			got := map[string]bool{}
			for _, e := range out.Events {
				got[fmt.Sprintf("%s:%s", e.Prop, e.Kind)] = true
				got[fmt.Sprintf("%s:%s@%d", e.Prop, e.Kind, e.Line)] = true
			}
			for _, w := range tf.ExpectEvents {
				if !got[w] {
					notes = append(notes, "TRIGGER DID NOT FIRE (defect repaired in this tree?): "+w)
				}
			}
			if len(tf.ExpectEvents) == 0 && len(out.Events) > 0 {
				problems = append(problems, fmt.Sprintf("%d unexpected interpreter events (first: %s:%s %s)", len(out.Events), out.Events[0].Prop, out.Events[0].Kind, out.Events[0].Node))
			}
			for _, variant := range []string{"plain", "san"} {
				r := res[variant]
				if r == nil || tf.SkipC {
					continue
				}
				same := reflect.DeepEqual(normTrace(out.Trace), normTrace(r.tr[i]))
				hasEv := len(r.ev[i]) > 0
				clean := len(tf.ExpectEvents) == 0 && len(tf.ExpectCEvents) == 0 && !tf.ExpectDiff && !tf.ExpectUnsupported
				if !clean {
					for _, e := range r.ev[i] {
						notes = append(notes, fmt.Sprintf("%s C event call %d: %s:%s | %s", variant, e.Call, e.Prop, e.Kind, oneLine(e.Node)))
					}
					if !same {
						notes = append(notes, variant+": traces differ")
					}
				}
				switch {
				case clean && !same:
					problems = append(problems, variant+": C trace differs from the interpreter's")
				case clean && hasEv:
					problems = append(problems, fmt.Sprintf("%s: C event %s:%s", variant, r.ev[i][0].Prop, r.ev[i][0].Kind))
				case !clean && tf.ExpectDiff && same && variant == "plain":
					notes = append(notes, variant+": traces equal although a difference was expected")
				}
				if variant == "san" {
					for _, w := range tf.ExpectCEvents {
						found := false
						for _, e := range r.ev[i] {
							if strings.Contains(e.Prop+":"+e.Kind, w) {
								found = true
							}
						}
						if !found {
							notes = append(notes, "san: no C event matching "+w)
						}
					}
				}
			}
		}
		status := "ok  "
		if len(problems) > 0 {
			status = "FAIL"
			fails++
		}
		fmt.Printf("%s %-34s", status, names[i])
		if out != nil {
			fmt.Printf(" calls=%d events=%d steps=%d", len(out.Trace), len(out.Events), out.Stats.Steps)
		}
		fmt.Println()
		for _, p := range problems {
			fmt.Println("       - " + p)
		}
		for _, p := range notes {
			fmt.Println("       . " + p)
		}
		if *flagV || len(problems) > 0 {
			printCase(tf, out, res["plain"], res["san"], i)
		}
	}
	fmt.Printf("%d cases, %d failed\n", len(tfs), fails)
	if fails > 0 {
		os.Exit(1)
	}
}

func normTrace(tr []wprog.Rec) []wprog.Rec {
	out := make([]wprog.Rec, len(tr))
	for i, r := range tr {
		if len(r.Slices) == 0 {
			r.Slices = nil
		}
		if len(r.Getters) == 0 {
			r.Getters = nil
		}
		out[i] = r
	}
	return out
}

func recStr(r wprog.Rec) string {
	return fmt.Sprintf("%s -> %q src %d/%d dst %d/%d h=%016x sl=%x g=%v", r.Method, r.Ret, r.SrcRI, r.SrcWI, r.DstRI, r.DstWI, r.DstHash, r.Slices, r.Getters)
}

type cres struct {
	tr [][]wprog.Rec
	ev [][]wprog.Event
}

func printCase(tf *testFile, out *wprog.Outcome, plain, san *cres, i int) {
	if tf.Note != "" {
		fmt.Println("       note: " + tf.Note)
	}
	var itr []wprog.Rec
	if out != nil {
		itr = out.Trace
	}
	ptr, pev := unpack(plain, i)
	str, sev := unpack(san, i)
	n := len(itr)
	if len(ptr) > n {
		n = len(ptr)
	}
	if len(str) > n {
		n = len(str)
	}
	for k := 0; k < n; k++ {
		var a, b, c string
		if k < len(itr) {
			a = recStr(itr[k])
		}
		if k < len(ptr) {
			b = recStr(ptr[k])
		}
		if k < len(str) {
			c = recStr(str[k])
		}
		mark := " "
		if (ptr != nil && a != b) || (str != nil && a != c) {
			mark = "!"
		}
		fmt.Printf("     %s %2d I: %s\n", mark, k, a)
		if ptr != nil && a != b {
			fmt.Printf("          C: %s\n", b)
		}
		if str != nil && a != c {
			fmt.Printf("          S: %s\n", c)
		}
	}
	if out != nil {
		for _, e := range out.Events {
			fmt.Printf("       I-event call %d: %s:%s | %s | fact=%q values=%q limit=%q\n", e.Call, e.Prop, e.Kind, e.Node, e.Fact, e.Values, e.Limit)
		}
		if *flagV {
			fmt.Printf("       stats: obligations=%v near=%v facts=%v nontriv=%v skipped=%d susp=%d\n",
				out.Stats.Obligations, out.Stats.NearEdge, out.Stats.FactsEval, out.Stats.FactsNontriv, out.Stats.FactsSkipped, out.Stats.Suspensions)
		}
	}
	for _, e := range pev {
		fmt.Printf("       C-event(plain) call %d: %s:%s | %s | %s\n", e.Call, e.Prop, e.Kind, e.Node, oneLine(e.Values))
	}
	for _, e := range sev {
		fmt.Printf("       C-event(san)   call %d: %s:%s | %s | %s\n", e.Call, e.Prop, e.Kind, e.Node, oneLine(e.Values))
	}
}

func oneLine(s string) string {
	s = strings.ReplaceAll(s, "\n", " / ")
	if len(s) > 400 {
		s = s[:400] + "..."
	}
	return s
}

func unpack(x *cres, i int) ([]wprog.Rec, []wprog.Event) {
	if x == nil {
		return nil, nil
	}
	return x.tr[i], x.ev[i]
}

func fatal(format string, args ...interface{}) {
	fmt.Fprintf(os.Stderr, "wprogtest: "+format+"\n", args...)
	os.Exit(2)
}

// prepareEnv builds wuffs-c from the tree under test and generates the base C.
func prepareEnv() *wprog.Env {
	repo := drv.RepoDir
	if *flagRepo != "" {
		repo = *flagRepo
	}
	scratch := *flagScratch
	if err := os.MkdirAll(scratch, 0o755); err != nil {
		fatal("%v", err)
	}
	wuffsc := filepath.Join(scratch, "wuffs-c")
	base := filepath.Join(scratch, "base", "wuffs-base.c")
	root := filepath.Join(scratch, "root")
	os.MkdirAll(root, 0o755)
	os.MkdirAll(filepath.Dir(base), 0o755)
	os.WriteFile(filepath.Join(root, "wuffs-root-directory.txt"), []byte("scratch root\n"), 0o644)
	if _, err := os.Stat(wuffsc); err != nil || *flagRebuild {
		t0 := time.Now()
		args := []string{"build", "-tags", "verif", "-o", wuffsc}
		if repo != "/repo" {
			alt := filepath.Join(scratch, "go.alt.mod")
			b, _ := os.ReadFile("/verif/go.mod")
			os.WriteFile(alt, []byte(strings.Replace(string(b), "=> /repo", "=> "+repo, 1)), 0o644)
			sum, _ := os.ReadFile("/verif/go.sum")
			os.WriteFile(filepath.Join(scratch, "go.alt.sum"), sum, 0o644)
			args = append(args, "-modfile="+alt)
		}
		args = append(args, "github.com/google/wuffs/cmd/wuffs-c")
		cmd := exec.Command("go", args...)
		cmd.Dir = "/verif"
		cmd.Env = drv.GoEnv()
		if out, err := cmd.CombinedOutput(); err != nil {
			fatal("building wuffs-c: %v\n%s", err, out)
		}
		fmt.Printf("built wuffs-c in %.1fs\n", time.Since(t0).Seconds())
		os.Remove(base)
	}
	if _, err := os.Stat(base); err != nil {
		cmd := exec.Command(wuffsc, "gen", "-package_name", "base")
		cmd.Dir = root
		var out, errb bytes.Buffer
		cmd.Stdout, cmd.Stderr = &out, &errb
		if err := cmd.Run(); err != nil {
			fatal("generating base: %v\n%s", err, errb.String())
		}
		if err := os.WriteFile(base, out.Bytes(), 0o644); err != nil {
			fatal("%v", err)
		}
	}
	return &wprog.Env{WuffsC: wuffsc, Root: root, BaseC: base, Scratch: filepath.Join(scratch, "c")}
}
