package main

// Hand-written cases; `wprogtest -emit` writes them to testdata/*.json.

import (
	"encoding/json"
	"fmt"
	"os"
	"path/filepath"

	"verif/internal/wprog"
)

type hc struct {
	name string
	tf   testFile
}

var handCases []hc

func add(name string, tf testFile) {
	tf.ID = name
	if tf.Struct == "" {
		tf.Struct = "obj"
	}
	handCases = append(handCases, hc{name, tf})
}

func ints(vs ...uint64) []wprog.Arg {
	var as []wprog.Arg
	for _, v := range vs {
		as = append(as, wprog.Arg{Kind: "int", Int: v})
	}
	return as
}

func call(m string, args ...wprog.Arg) wprog.Call { return wprog.Call{Method: m, Args: args} }
func icall(m string, vs ...uint64) wprog.Call     { return wprog.Call{Method: m, Args: ints(vs...)} }
func rd(b []byte, closed bool) wprog.Arg {
	return wprog.Arg{Kind: "reader", Reader: &wprog.ReaderOp{Append: b, Close: closed}}
}
func wr(grow int) wprog.Arg  { return wprog.Arg{Kind: "writer", Writer: &wprog.WriterOp{Grow: grow}} }
func sl(b ...byte) wprog.Arg { return wprog.Arg{Kind: "slice", Slice: b} }
func bs(s string) []byte     { return []byte(s) }

func emit() {
	if err := os.MkdirAll(*flagDir, 0o755); err != nil {
		fatal("%v", err)
	}
	old, _ := filepath.Glob(filepath.Join(*flagDir, "*.json"))
	for _, f := range old {
		os.Remove(f)
	}
	seen := map[string]bool{}
	for _, h := range handCases {
		if seen[h.name] {
			fatal("duplicate case name %s", h.name)
		}
		seen[h.name] = true
		b, err := json.MarshalIndent(&h.tf, "", " ")
		if err != nil {
			fatal("%v", err)
		}
		if err := os.WriteFile(filepath.Join(*flagDir, h.name+".json"), append(b, '\n'), 0o644); err != nil {
			fatal("%v", err)
		}
	}
	fmt.Printf("wrote %d cases to %s\n", len(handCases), *flagDir)
}
