package main

func init() {
	add("g01_labelled_jumps", testFile{
		Note: "break.outer / continue.outer / continue.mid out of three nested loops; pre / inv / post conditions checked at every jump; double-curly while true {{ }} block as a forward goto",
		Case: mk(`
pub struct obj?(
        trace : base.u64,
)

pub func obj.walk!(a: base.u32, b: base.u32) base.u32 {
    var i : base.u32
    var j : base.u32
    var k : base.u32
    var n : base.u32
    var m : base.u32
    i = 0
    while.outer i < 5,
            inv n <= 0xFFFF,
            inv i <= 5,
    {
        j = 0
        while.mid j < 4,
                inv i < 5,
                inv n <= 0xFFFF,
                post j >= 4,
        {
            k = 0
            while.inner k < 3,
                    inv i < 5,
                    inv j < 4,
                    inv n <= 0xFFFF,
            {
                m = ((n ~mod+ (i ~mod* 16)) ~mod+ ((j ~mod* 4) ~mod+ k)) & 0xFFFF
                n = m
                this.trace ~mod*= 5
                this.trace ~mod+= (k + 1) as base.u64
                if ((i + j + k) & 7) == (args.a & 7) {
                    k += 1
                    j += 1
                    continue.mid
                } else if (n & 15) == (args.b & 15) {
                    i += 1
                    continue.outer
                } else if (n & 0x3F) == ((args.a ~mod+ args.b) & 0x3F) {
                    break.outer
                } else if k == 1 {
                    k += 1
                    continue.inner
                }
                k += 1
            }.inner
            j += 1
        }.mid
        i += 1
    }.outer
    return (n << 8) | (i << 4) | (j & 15)
}

pub func obj.classify(x: base.u32) base.u32 {
    var r : base.u32
    while true {{
    if args.x < 10 {
        r = 1
        break
    } else if args.x < 100 {
        r = 2
        break
    }
    r = 3
    if (args.x & 1) == 0 {
        r = 4
        break
    }
    break
    }}
    return r
}

pub func obj.get_trace() base.u64 {
    return this.trace
}
`, []string{"get_trace"},
			icall("walk", 0, 0), icall("walk", 1, 2), icall("walk", 3, 5), icall("walk", 7, 15), icall("walk", 2, 9),
			icall("walk", 0xFFFFFFFF, 0xFFFFFFFF), icall("walk", 5, 3), icall("walk", 6, 6), icall("walk", 4, 12),
			icall("classify", 0), icall("classify", 9), icall("classify", 10), icall("classify", 99), icall("classify", 100), icall("classify", 101),
		),
	})

	add("g02_iterate", testFile{
		Note: "iterate with length/advance/unroll shapes, overlapping windows (advance < length), two slices in lock step, and else tails",
		Case: mk(`
pub struct obj?(
        acc : base.u64,
        out : array[40] base.u8,
)

pub func obj.sum8!(s: roslice base.u8) {
    var c : roslice base.u8
    var n : base.u64
    iterate (c = args.s)(length: 8, advance: 8, unroll: 2) {
        n ~mod+= c.peek_u64le()
        n ~mod*= 3
    } else (length: 2, advance: 2, unroll: 1) {
        n ~mod+= c.peek_u16be() as base.u64
        n ~mod*= 5
    } else (length: 1, advance: 1, unroll: 1) {
        n ~mod+= c[0] as base.u64
        n ~mod*= 7
    }
    this.acc = n ~mod+ c.length()
}

pub func obj.windows!(s: roslice base.u8) {
    var c : roslice base.u8
    var n : base.u64
    iterate (c = args.s)(length: 4, advance: 3, unroll: 2) {
        n ~mod*= 31
        n ~mod+= (c.peek_u32be() as base.u64) ^ (c[3] as base.u64)
    } else (length: 4, advance: 1, unroll: 1) {
        n ~mod*= 37
        n ~mod+= c.peek_u32le() as base.u64
    }
    this.acc = n
}

pub func obj.zip!(d: slice base.u8, s: roslice base.u8) {
    var x : slice base.u8
    var y : roslice base.u8
    var i : base.u32
    iterate (x = args.d, y = args.s)(length: 3, advance: 3, unroll: 1) {
        x[0] = y[2]
        x[1] = y[1] ^ 0xFF
        x[2] = y[0]
        if i < 37 {
            this.out[i] = y[0]
            this.out[i + 1] = y[1]
            this.out[i + 2] = y[2]
            i += 3
        }
    } else (length: 1, advance: 1, unroll: 4) {
        x[0] = y[0] ~mod+ 1
        this.acc ~mod+= 1
    }
}

pub func obj.get_acc() base.u64 {
    return this.acc
}

pub func obj.get_out() base.u64 {
    var i : base.u32
    var h : base.u64
    while i < 40 {
        h ~mod*= 131
        h ~mod+= this.out[i] as base.u64
        i += 1
    }
    return h
}
`, []string{"get_acc", "get_out"},
			call("sum8", sl()),
			call("sum8", sl(1)),
			call("sum8", sl(seqBytes(7, 3, 1)...)),
			call("sum8", sl(seqBytes(8, 5, 2)...)),
			call("sum8", sl(seqBytes(16, 7, 3)...)),
			call("sum8", sl(seqBytes(27, 11, 4)...)),
			call("sum8", sl(seqBytes(43, 13, 5)...)),
			call("windows", sl()),
			call("windows", sl(1, 2, 3)),
			call("windows", sl(1, 2, 3, 4)),
			call("windows", sl(seqBytes(7, 17, 1)...)),
			call("windows", sl(seqBytes(10, 19, 2)...)),
			call("windows", sl(seqBytes(23, 23, 3)...)),
			call("zip", sl(), sl()),
			call("zip", sl(0, 0, 0, 0, 0), sl(1, 2, 3, 4, 5)),
			call("zip", sl(seqBytes(10, 0, 0)...), sl(seqBytes(7, 9, 1)...)),
			call("zip", sl(seqBytes(4, 0, 9)...), sl(seqBytes(30, 3, 7)...)),
			call("zip", sl(seqBytes(50, 0, 0)...), sl(seqBytes(50, 5, 5)...)),
		),
	})

	add("g03_choose", testFile{
		Note: "choosy methods: default body, choose of an alternative, choose of the method itself (back to the default), two independent choosy methods",
		Case: mk(`
pub struct obj?(
        v : base.u32,
)

pri func obj.f!(x: base.u32) base.u32,
        choosy,
{
    this.v ~mod+= 1
    return args.x ~mod+ 1
}

pri func obj.f_double!(x: base.u32) base.u32 {
    this.v ~mod+= 100
    return args.x ~mod* 2
}

pri func obj.f_neg!(x: base.u32) base.u32 {
    this.v ~mod+= 10000
    return 0 ~mod- args.x
}

pri func obj.g(x: base.u32) base.u32,
        choosy,
{
    return args.x & 0xFF
}

pri func obj.g_hi(x: base.u32) base.u32 {
    return args.x >> 24
}

pub func obj.pick!(which: base.u32) {
    if args.which == 1 {
        choose f = [f_double]
    } else if args.which == 2 {
        choose f = [f_neg, f_double]
    } else if args.which == 3 {
        choose f = [f]
    } else if args.which == 4 {
        choose g = [g_hi]
    } else if args.which == 5 {
        choose g = [g]
        choose f = [f_double]
    }
}

pub func obj.apply!(x: base.u32) base.u32 {
    var r : base.u32
    r = this.f!(x: args.x)
    return r ^ (this.g(x: args.x) ~mod<< 4)
}

pub func obj.get_v() base.u32 {
    return this.v
}
`, []string{"get_v"},
			icall("apply", 7), icall("pick", 1), icall("apply", 7), icall("pick", 2), icall("apply", 0x12345678),
			icall("pick", 4), icall("apply", 0xAB000003), icall("pick", 3), icall("apply", 9), icall("pick", 5), icall("apply", 0xFFFFFFFF),
			icall("pick", 0), icall("apply", 1),
		),
	})
}
