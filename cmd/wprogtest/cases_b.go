package main

func init() {
	// ---- refined types, arrays, nested arrays, const tables, both struct parts.
	add("b01_refined_types", testFile{
		Note: "refined locals, fields and arguments; clamping by min/max/&/% to satisfy the refinement",
		Case: mk(`
pub struct obj?(
        idx  : base.u32[..= 10],
        lvl  : base.u8[..= 3],
        wide : base.u64[..= 0xFFFF_FFFF_FFFF],
) + (
        hist : array[11] base.u16,
)

pub func obj.set_idx!(x: base.u32) {
    this.idx = args.x.min(no_more_than: 10)
    this.hist[this.idx] ~mod+= 1
}

pub func obj.set_lvl!(x: base.u8) {
    var t : base.u8[..= 3]
    t = args.x & 3
    this.lvl = t
    if this.lvl < 3 {
        this.lvl += 1
    }
}

pub func obj.set_wide!(x: base.u64) {
    var v : base.u64[..= 0x1_0000_0000_0000]
    v = 1
    v += args.x & 0xFFFF_FFFF_FFFF
    if v >= 1 {
        this.wide = v - 1
    }
}

pub func obj.step!(x: base.u32) base.u32 {
    var i : base.u32[..= 10]
    var n : base.u32
    i = args.x % 11
    while i < 10 {
        i += 1
        n ~mod+= this.hist[i] as base.u32
    }
    return n ~mod+ i
}

pub func obj.get_idx() base.u32 {
    return this.idx
}

pub func obj.get_lvl() base.u8 {
    return this.lvl
}

pub func obj.get_wide() base.u64 {
    return this.wide
}

pub func obj.get_hist() base.u32 {
    return (this.hist[10] as base.u32) ~mod+ (((this.hist[0] as base.u32) << 8) ~mod+ ((this.hist[this.idx] as base.u32) << 16))
}
`, []string{"get_idx", "get_lvl", "get_wide", "get_hist"},
			icall("set_idx", 0), icall("set_idx", 10), icall("set_idx", 11), icall("set_idx", 0xFFFFFFFF), icall("set_idx", 9),
			icall("set_lvl", 0), icall("set_lvl", 3), icall("set_lvl", 255), icall("set_lvl", 2),
			icall("set_wide", 0), icall("set_wide", 0xFFFFFFFFFFFF), icall("set_wide", 0xFFFFFFFFFFFFFFFF), icall("set_wide", 0x1000000000000),
			icall("step", 0), icall("step", 10), icall("step", 21), icall("step", 0xFFFFFFFF),
		),
	})

	add("b02_arrays", testFile{
		Note: "arrays of every element width, nested arrays, array assignment (copies), local arrays zeroed per call",
		Case: mk(`
pub struct obj?(
        a8   : array[4] base.u8,
        a16  : array[5] base.u16,
        a32  : array[3] base.u32,
        a64  : array[2] base.u64,
        grid : array[3] array[4] base.u8,
        g32  : array[2] array[2] base.u32,
) + (
        big  : array[256] base.u8,
        copy : array[4] base.u8,
)

pub func obj.fill!(x: base.u32, y: base.u32) {
    var i : base.u32
    var j : base.u32
    var loc : array[4] base.u8
    this.a8[args.x & 3] = (args.y & 0xFF) as base.u8
    this.a16[args.x % 5] = (args.y & 0xFFFF) as base.u16
    this.a32[args.x % 3] = args.y
    this.a64[args.x & 1] = ((args.y as base.u64) << 32) | (args.x as base.u64)
    this.grid[args.x % 3][args.y & 3] = ((args.x ~mod+ args.y) & 0xFF) as base.u8
    this.g32[args.x & 1][(args.x >> 1) & 1] ~mod+= args.y
    this.big[args.y & 0xFF] = (args.x & 0xFF) as base.u8
    i = 0
    while i < 4 {
        loc[i] = this.a8[i] ~mod+ ((i & 0xFF) as base.u8)
        i += 1
    }
    this.copy = loc
    j = 0
    while j < 3 {
        assert j < 3
        this.grid[j][3] = this.grid[j][0] ~mod+ this.grid[j][1]
        j += 1
    }
}

pub func obj.rowcopy!(x: base.u32) {
    this.grid[args.x % 3] = this.copy
    this.copy = this.a8
}

pub func obj.sum() base.u64 {
    var i : base.u32
    var s : base.u64
    while i < 4 {
        s ~mod+= (this.a8[i] as base.u64) ~mod+ ((this.copy[i] as base.u64) << 8)
        i += 1
    }
    i = 0
    while i < 5 {
        s ~mod+= (this.a16[i] as base.u64) << 16
        i += 1
    }
    i = 0
    while i < 3 {
        s ~mod+= ((this.a32[i] as base.u64) << 3) ~mod+ ((this.grid[i][i] as base.u64) ~mod+ ((this.grid[i][3] as base.u64) << 40))
        i += 1
    }
    s ~mod+= this.a64[0] ^ this.a64[1]
    s ~mod+= (this.g32[0][0] as base.u64) ~mod+ ((this.g32[1][1] as base.u64) << 7)
    s ~mod+= (this.g32[0][1] as base.u64) ~mod+ ((this.g32[1][0] as base.u64) << 9)
    i = 0
    while i < 256 {
        s ~mod+= (this.big[i] as base.u64) ~mod* ((i as base.u64) + 1)
        i += 1
    }
    return s
}
`, []string{"sum"},
			icall("fill", 0, 0), icall("fill", 1, 0x12345678), icall("fill", 2, 0xFFFFFFFF), icall("fill", 3, 77),
			icall("rowcopy", 1), icall("fill", 0xFFFFFFFF, 255), icall("rowcopy", 5), icall("fill", 7, 256), icall("rowcopy", 0),
		),
	})

	add("b03_const_tables", testFile{
		Note: "scalar consts, roarray const tables of u8/u16/u32/u64 and a nested table; indexing with masks and refinements",
		Case: mk(`
pri const K8  : base.u8 = 200
pub const K32 : base.u32 = 0x1234_5678
pri const K64 : base.u64 = 0xFFFF_FFFF_FFFF_FFFF
pri const LIMIT : base.u32[..= 7] = 5

pri const T8 : roarray[8] base.u8 = [1, 2, 3, 5, 8, 13, 21, 255]
pri const T16 : roarray[4] base.u16 = [0, 1, 0x8000, 0xFFFF]
pri const T32 : roarray[3] base.u32 = [0xFFFF_FFFF, 7, 0x8000_0000]
pri const T64 : roarray[2] base.u64 = [0x0123_4567_89AB_CDEF, 0xFFFF_FFFF_FFFF_FFFF]
pri const SMALL : roarray[4] base.u8[..= 3] = [3, 0, 2, 1]
pri const GRID : roarray[2] roarray[3] base.u8 = [[1, 2, 3], [4, 5, 6]]

pub struct obj?(
        v : base.u64,
)

pub func obj.look!(x: base.u32) base.u64 {
    var r : base.u64
    var k : base.u8[..= 3]
    r = T8[args.x & 7] as base.u64
    r ~mod+= (T16[args.x & 3] as base.u64) << 8
    r ~mod+= (T32[args.x % 3] as base.u64) << 16
    r ^= T64[args.x & 1]
    k = SMALL[args.x & 3]
    r ~mod+= (T8[SMALL[k]] as base.u64) << 48
    r ~mod+= GRID[args.x & 1][args.x % 3] as base.u64
    if args.x < LIMIT {
        r ~mod+= (K8 as base.u64) ~mod+ (K32 as base.u64)
    } else {
        r ^= K64
    }
    this.v = r
    return r
}

pub func obj.slice_sum() base.u32 {
    var s : roslice base.u8
    var n : base.u32
    var i : base.u64
    s = T8[2 .. 7]
    while i < s.length() {
        n ~mod+= s[i] as base.u32
        i ~mod+= 1
    }
    return n ~mod+ ((T8[..].length() & 0xFF) as base.u32)
}

pub func obj.get() base.u64 {
    return this.v
}
`, []string{"get", "slice_sum"},
			icall("look", 0), icall("look", 1), icall("look", 2), icall("look", 3), icall("look", 4), icall("look", 5),
			icall("look", 6), icall("look", 7), icall("look", 0xFFFFFFFF), icall("look", 0x80000000),
		),
	})
}
