package main

import (
	"fmt"
	"math/rand"
	"strings"

	"verif/internal/wprog"
)

// -matrix <family>: one line per variant: accepted / rejected (+ reason) and,
// for accepted programs, the first monitor event of the interpreter.
func matrixMode() {
	n := wprog.Families()[*flagMatrix]
	acc, rej, ev := 0, 0, 0
	for v := 0; v < n; v++ {
		r := rand.New(rand.NewSource(int64(v) + 1))
		c := wprog.GenCase(r, wprog.GenOptions{Family: *flagMatrix, Variant: v, MaxScens: 1, MaxCalls: 1 << 20})
		if c == nil {
			continue
		}
		p, rejected, err := wprog.Compile(c)
		switch {
		case err != nil:
			fmt.Printf("%-60s ERROR %v\n", c.ID, err)
		case rejected != "":
			rej++
			if *flagVerbose {
				fmt.Printf("%-60s rejected: %s\n", c.ID, strings.SplitN(rejected, "\n", 2)[0])
			}
		default:
			acc++
			out := p.Interpret(c)
			s := "ok"
			if out.Unsupported != "" {
				s = "UNSUPPORTED " + out.Unsupported
			}
			if len(out.Events) > 0 {
				ev++
				e := out.Events[0]
				s = fmt.Sprintf("EVENT %s:%s at %s fact=%q values=%s", e.Prop, e.Kind, e.Node, e.Fact, e.Values)
			}
			fmt.Printf("%-60s ACCEPTED %s\n", c.ID, s)
			if *flagDump != "" && (len(out.Events) > 0 || out.Unsupported != "") {
				fmt.Println(c.Source)
			}
		}
	}
	fmt.Printf("%d accepted, %d rejected, %d with events\n", acc, rej, ev)
}
