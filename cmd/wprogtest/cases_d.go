package main

import "verif/internal/wprog"

// chunks feeds data to method m in pieces of the given sizes (then closes).
func chunks(m string, data []byte, sizes []int, extra ...wprog.Arg) []wprog.Call {
	var cs []wprog.Call
	i := 0
	for k := 0; ; k++ {
		n := sizes[k%len(sizes)]
		if i+n > len(data) {
			n = len(data) - i
		}
		last := i+n >= len(data)
		args := []wprog.Arg{rd(data[i:i+n], last)}
		args = append(args, extra...)
		cs = append(cs, wprog.Call{Method: m, Args: args})
		i += n
		if last {
			break
		}
	}
	return cs
}

func seqBytes(n int, mul, add int) []byte {
	b := make([]byte, n)
	for i := range b {
		b[i] = byte(i*mul + add)
	}
	return b
}

const readAllSrc = `
pub status "@done"

pub struct obj?(
        acc : base.u64,
        cnt : base.u32,
)

pri func obj.mix!(x: base.u64) {
    this.acc ~mod*= 0x1_0000_01B3
    this.acc ^= args.x
    this.cnt ~mod+= 1
}

pub func obj.read_all?(src: base.io_reader) {
    var a8  : base.u8
    var a16 : base.u16
    var a32 : base.u32
    var a64 : base.u64

    a8 = args.src.read_u8?()
    this.mix!(x: a8 as base.u64)
    a16 = args.src.read_u8_as_u16?()
    this.mix!(x: a16 as base.u64)
    a32 = args.src.read_u8_as_u32?()
    this.mix!(x: a32 as base.u64)
    a64 = args.src.read_u8_as_u64?()
    this.mix!(x: a64)

    a16 = args.src.read_u16be?()
    this.mix!(x: a16 as base.u64)
    a16 = args.src.read_u16le?()
    this.mix!(x: a16 as base.u64)
    a32 = args.src.read_u16be_as_u32?()
    this.mix!(x: a32 as base.u64)
    a32 = args.src.read_u16le_as_u32?()
    this.mix!(x: a32 as base.u64)
    a64 = args.src.read_u16be_as_u64?()
    this.mix!(x: a64)
    a64 = args.src.read_u16le_as_u64?()
    this.mix!(x: a64)

    a32 = args.src.read_u24be_as_u32?()
    this.mix!(x: a32 as base.u64)
    a32 = args.src.read_u24le_as_u32?()
    this.mix!(x: a32 as base.u64)
    a64 = args.src.read_u24be_as_u64?()
    this.mix!(x: a64)
    a64 = args.src.read_u24le_as_u64?()
    this.mix!(x: a64)

    a32 = args.src.read_u32be?()
    this.mix!(x: a32 as base.u64)
    a32 = args.src.read_u32le?()
    this.mix!(x: a32 as base.u64)
    a64 = args.src.read_u32be_as_u64?()
    this.mix!(x: a64)
    a64 = args.src.read_u32le_as_u64?()
    this.mix!(x: a64)

    a64 = args.src.read_u40be_as_u64?()
    this.mix!(x: a64)
    a64 = args.src.read_u40le_as_u64?()
    this.mix!(x: a64)
    a64 = args.src.read_u48be_as_u64?()
    this.mix!(x: a64)
    a64 = args.src.read_u48le_as_u64?()
    this.mix!(x: a64)
    a64 = args.src.read_u56be_as_u64?()
    this.mix!(x: a64)
    a64 = args.src.read_u56le_as_u64?()
    this.mix!(x: a64)
    a64 = args.src.read_u64be?()
    this.mix!(x: a64)
    a64 = args.src.read_u64le?()
    this.mix!(x: a64)
    return "@done"
}

pub func obj.get_acc() base.u64 {
    return this.acc
}

pub func obj.get_cnt() base.u32 {
    return this.cnt
}
`

func init() {
	data := seqBytes(100, 37, 0x81)
	add("d01_read_all_oneshot", testFile{
		Note: "every read_uN? method, all input at once; returns a note",
		Case: mk(readAllSrc, []string{"get_acc", "get_cnt"}, chunks("read_all", data, []int{100})...),
	})
	add("d02_read_all_bytewise", testFile{
		Note: "the same, one byte per call: every multi-byte read suspends mid-value at every offset",
		Case: mk(readAllSrc, []string{"get_acc", "get_cnt"}, chunks("read_all", data, []int{1})...),
	})
	add("d03_read_all_chunks", testFile{
		Note: "the same with irregular chunks incl. empty ones",
		Case: mk(readAllSrc, []string{"get_acc", "get_cnt"}, chunks("read_all", data, []int{3, 0, 7, 1, 0, 0, 2, 5, 11})...),
	})
	add("d04_read_truncated", testFile{
		Note: "closed source that ends mid-value: $short read again (generated code does not look at closed)",
		Case: mk(readAllSrc, []string{"get_acc", "get_cnt"},
			call("read_all", rd(data[:29], true)),
			call("read_all", rd(nil, true)),
			call("read_all", rd(data[29:31], false)),
		),
	})

	add("d05_peek_skip_fast", testFile{
		Note: "peek_uN (all widths) + skip_u32_fast under length facts, peek_u8_at, skip? / skip_u32? suspending mid-skip, length / position / is_closed",
		Case: mk(`
pub struct obj?(
        acc  : base.u64,
        skip : base.u32,
)

pri func obj.mix!(x: base.u64) {
    this.acc ~mod*= 0x1_0000_01B3
    this.acc ^= args.x
}

pub func obj.scan?(src: base.io_reader) {
    var c : base.u8
    var n : base.u32
    while true {
        if args.src.length() >= 8 {
            this.mix!(x: args.src.peek_u64le())
            this.mix!(x: args.src.peek_u64be())
            this.mix!(x: args.src.peek_u56le_as_u64() ^ args.src.peek_u56be_as_u64())
            this.mix!(x: args.src.peek_u48le_as_u64() ^ args.src.peek_u48be_as_u64())
            this.mix!(x: args.src.peek_u40le_as_u64() ^ args.src.peek_u40be_as_u64())
            this.mix!(x: args.src.peek_u32le_as_u64() ^ args.src.peek_u32be_as_u64())
            this.mix!(x: args.src.peek_u24le_as_u64() ^ args.src.peek_u24be_as_u64())
            this.mix!(x: args.src.peek_u16le_as_u64() ^ args.src.peek_u16be_as_u64())
            this.mix!(x: (args.src.peek_u32le() as base.u64) ^ (args.src.peek_u32be() as base.u64))
            this.mix!(x: (args.src.peek_u24le_as_u32() as base.u64) ^ (args.src.peek_u24be_as_u32() as base.u64))
            this.mix!(x: (args.src.peek_u16le() as base.u64) ^ (args.src.peek_u16be() as base.u64))
            this.mix!(x: (args.src.peek_u16le_as_u32() as base.u64) ^ (args.src.peek_u16be_as_u32() as base.u64))
            this.mix!(x: (args.src.peek_u8() as base.u64) ^ (args.src.peek_u8_as_u16() as base.u64))
            this.mix!(x: (args.src.peek_u8_as_u32() as base.u64) ^ args.src.peek_u8_as_u64())
            this.mix!(x: (args.src.peek_u8_at(offset: 7) as base.u64) ^ ((args.src.peek_u8_at(offset: 0) as base.u64) << 8))
            n = args.src.peek_u8_as_u32() & 7
            args.src.skip_u32_fast!(actual: n, worst_case: 8)
            this.mix!(x: args.src.position())
        } else if args.src.length() >= 3 {
            this.mix!(x: args.src.peek_u24le_as_u64())
            args.src.skip_u32_fast!(actual: 3, worst_case: 3)
        } else if args.src.is_closed() {
            this.mix!(x: args.src.length())
            return ok
        }
        c = args.src.read_u8?()
        this.skip = (c & 15) as base.u32
        if (c & 16) <> 0 {
            args.src.skip_u32?(n: this.skip)
        } else if (c & 32) <> 0 {
            args.src.skip?(n: (this.skip as base.u64) + 1)
        } else {
            args.src.skip?(n: 1)
        }
        this.mix!(x: args.src.position() ^ ((args.src.length() & 0xFFFF) << 32))
    }
}

pub func obj.get_acc() base.u64 {
    return this.acc
}
`, []string{"get_acc"}, chunks("scan", seqBytes(150, 73, 19), []int{1, 9, 2, 30, 0, 4, 17})...),
	})

	add("d06_marks_undo", testFile{
		Note: "mark / since / count_since, can_undo_byte / undo_byte!, limited_copy_u32_to_slice, marks across a suspension (buffer not compacted)",
		Case: mk(`
pub struct obj?(
        acc  : base.u64,
        m    : base.u64,
        line : array[32] base.u8,
)

pub func obj.lines?(src: base.io_reader) {
    var c : base.u8
    var s : roslice base.u8
    var n : base.u32
    var i : base.u64

    this.m = args.src.mark()
    while true {
        c = args.src.read_u8?()
        if c == 0x0A {
            if args.src.can_undo_byte() {
                args.src.undo_byte!()
                this.acc ~mod+= 1 << 56
                c = args.src.read_u8?()
            }
            // bytes since the mark set before the first byte of this line
            this.acc ~mod+= (args.src.count_since(mark: this.m) & 0xFFFF) << 8
            s = args.src.since(mark: this.m)
            i = 0
            while i < s.length() {
                this.acc ~mod*= 31
                this.acc ~mod+= s[i] as base.u64
                i ~mod+= 1
            }
            this.m = args.src.mark()
            n = args.src.limited_copy_u32_to_slice!(up_to: 5, s: this.line[(this.acc & 15) ..])
            this.acc ~mod+= n as base.u64
            if n > 0 {
                if args.src.can_undo_byte() {
                    args.src.undo_byte!()
                }
            }
        } else if c == 0 {
            return ok
        }
    }
}

pub func obj.get_acc() base.u64 {
    return this.acc
}

pub func obj.sum() base.u64 {
    var i : base.u32
    var s : base.u64
    while i < 32 {
        s ~mod*= 131
        s ~mod+= this.line[i] as base.u64
        i += 1
    }
    return s
}
`, []string{"get_acc", "sum"}, chunks("lines", bs("hello\nworld!\n\nab\ncdefghijklmnopqrstuvwxyz\n0123456789\n\x00tail"), []int{4, 1, 1, 9, 2, 0, 13})...),
	})
}
