package main

func init() {
	add("k01_pub_coroutine_nesting", testFile{
		Note: "a pub coroutine calling another pub coroutine of the same object: the callee's prologue runs (magic, interleaving bookkeeping); calling the inner one directly while the outer is suspended is an interleaving error; after an error caught with =? the object is already disabled, so later pub calls inside the same function are refused",
		Case: mk(`
pub status "#inner failed"

pub struct obj?(
        a : base.u32,
        b : base.u32,
)

pub func obj.inner?(src: base.io_reader) {
    var c : base.u8
    c = args.src.read_u8?()
    if c == 0xEE {
        return "#inner failed"
    }
    this.b ~mod+= c as base.u32
}

pub func obj.bump!() base.u32 {
    this.a ~mod+= 1000
    return this.a
}

pub func obj.outer?(src: base.io_reader, catch: base.u32) {
    var st : base.status
    var n  : base.u32
    this.a ~mod+= 1
    this.inner?(src: args.src)
    this.a ~mod+= 10
    if args.catch <> 0 {
        while true {
            st =? this.inner?(src: args.src)
            if st.is_suspension() {
                yield? st
                continue
            }
            break
        }
        if st.is_error() {
            // the object is disabled by now: bump!() is refused and reads 0
            n = this.bump!()
            this.a ~mod+= 100 ~mod+ n
            return ok
        }
    }
    this.a ~mod+= 100000
}

pub func obj.get_a() base.u32 {
    return this.a
}

pub func obj.get_b() base.u32 {
    return this.b
}
`, []string{"get_a", "get_b"},
			call("outer", rd([]byte{1, 2}, false), ints(1)[0]),
			call("outer", rd(nil, false), ints(0)[0]),
			call("inner", rd([]byte{3}, false)),
			call("outer", rd([]byte{4}, false), ints(1)[0]),
			call("outer", rd([]byte{0xEE}, false), ints(1)[0]),
			call("bump"),
			call("outer", rd([]byte{5}, false), ints(0)[0]),
		),
	})

	add("k02_interleave_inner_direct", testFile{
		Note: "the outer coroutine is suspended inside the inner pub coroutine; the client then calls the inner one directly: #interleaved coroutine calls",
		Case: mk(`
pub struct obj?(
        a : base.u32,
)

pub func obj.inner?(src: base.io_reader) {
    var c : base.u8
    c = args.src.read_u8?()
    this.a ~mod+= c as base.u32
}

pub func obj.outer?(src: base.io_reader) {
    this.a ~mod+= 0x100
    this.inner?(src: args.src)
    this.a ~mod+= 0x10000
}

pub func obj.get_a() base.u32 {
    return this.a
}
`, []string{"get_a"},
			call("outer", rd(nil, false)),
			call("inner", rd([]byte{7}, false)),
			call("outer", rd([]byte{8}, false)),
		),
	})
}
