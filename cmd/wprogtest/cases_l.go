package main

func init() {
	add("l01_yield_return_dynamic", testFile{
		Note: "yield? of a status variable holding ok / a note / an error / a suspension; return of a status variable holding a suspension in a coroutine (#cannot return a suspension); coroutine_resumed inside a private coroutine",
		Case: mk(`
pub status "@note"
pub status "#err"
pub status "$wait"

pub struct obj?(
        log : base.u32,
)

pri func obj.inner?(k: base.u32) {
    if coroutine_resumed {
        this.log ~mod+= 0x1000
    }
    if args.k == 9 {
        yield? "$wait"
        if coroutine_resumed {
            this.log ~mod+= 0x2000
        }
    }
    this.log ~mod+= 0x100
}

pub func obj.go?(k: base.u32) {
    var st : base.status
    this.log ~mod+= 1
    if args.k == 1 {
        st = ok
    } else if args.k == 2 {
        st = "@note"
    } else if args.k == 3 {
        st = "#err"
    } else if (args.k == 4) or (args.k == 5) {
        st = "$wait"
    }
    if args.k == 5 {
        return st
    } else if args.k == 9 {
        this.inner?(k: args.k)
    } else if args.k <> 0 {
        yield? st
    }
    this.log ~mod+= 0x10
}

pub func obj.get_log() base.u32 {
    return this.log
}
`, []string{"get_log"},
			icall("go", 0), icall("go", 1), icall("go", 2), icall("go", 4), icall("go", 0), icall("go", 9), icall("go", 9),
			icall("go", 2), icall("go", 4), icall("go", 2), icall("go", 5), icall("go", 0),
		),
	})

	add("l02_yield_error_then_disabled", testFile{
		Note: "yield? of an error status ends the coroutine with that error and disables the object",
		Case: mk(`
pub status "#err"

pub struct obj?(
        log : base.u32,
)

pub func obj.go?(k: base.u32) {
    var st : base.status
    this.log ~mod+= 1
    if args.k == 3 {
        st = "#err"
    }
    yield? st
    this.log ~mod+= 0x10
}

pub func obj.get_log() base.u32 {
    return this.log
}
`, []string{"get_log"}, icall("go", 0), icall("go", 3), icall("go", 0)),
	})

	add("l03_array_args_nested_limits", testFile{
		Note: "arrays passed to private functions (by reference), nested io_limit blocks, a zero limit, limits larger than what is available",
		Case: mk(`
pub struct obj?(
        t   : array[4] base.u32,
        acc : base.u64,
)

pri func obj.rotate!(a: array[4] base.u32, k: base.u32) {
    var x : base.u32
    x = args.a[args.k & 3]
    args.a[args.k & 3] = args.a[(args.k ~mod+ 1) & 3] ~mod+ 1
    args.a[(args.k ~mod+ 1) & 3] = x
}

pub func obj.spin!(k: base.u32) base.u32 {
    var loc : array[4] base.u32
    loc[1] = 5
    this.rotate!(a: this.t, k: args.k)
    this.rotate!(a: loc, k: 0)
    return (this.t[0] ~mod+ (this.t[1] ~mod* 3)) ~mod+ ((this.t[2] ~mod* 5) ~mod+ ((this.t[3] ~mod* 7) ~mod+ (loc[0] ~mod* 11)))
}

pub func obj.limits!(src: base.io_reader, a: base.u32, b: base.u32) {
    var x : base.u64
    io_limit (io: args.src, limit: (args.a as base.u64)) {
        x = args.src.length()
        io_limit (io: args.src, limit: (args.b as base.u64)) {
            x ~mod*= 100
            x ~mod+= args.src.length()
            if args.src.length() >= 1 {
                x ~mod*= 256
                x ~mod+= args.src.peek_u8() as base.u64
                args.src.skip_u32_fast!(actual: 1, worst_case: 1)
            }
        }
        x ~mod*= 100
        x ~mod+= args.src.length()
    }
    x ~mod*= 100
    x ~mod+= args.src.length()
    this.acc = x
}

pub func obj.get_acc() base.u64 {
    return this.acc
}
`, []string{"get_acc"},
			icall("spin", 0), icall("spin", 1), icall("spin", 3), icall("spin", 6),
			call("limits", rd(bs("abcdefghij"), false), ints(5)[0], ints(3)[0]),
			call("limits", rd(nil, false), ints(0)[0], ints(3)[0]),
			call("limits", rd(nil, false), ints(3)[0], ints(0)[0]),
			call("limits", rd(nil, false), ints(100)[0], ints(200)[0]),
			call("limits", rd(nil, false), ints(2)[0], ints(9)[0]),
			call("limits", rd(nil, true), ints(4)[0], ints(4)[0]),
			call("limits", rd(nil, true), ints(0xFFFFFFFF)[0], ints(1)[0]),
			call("limits", rd(nil, true), ints(1)[0], ints(1)[0]),
			call("limits", rd(nil, true), ints(1)[0], ints(1)[0]),
		),
	})
}
