package main

func init() {
	add("i01_refined_args_disable", testFile{
		Note: "pub functions with refined arguments: in-range calls work, an out-of-range value is refused at run time and disables the object (coroutine: #bad argument; plain: silently) - pure getters keep working",
		Case: mk(`
pub struct obj?(
        total : base.u32,
        calls : base.u32,
)

pub func obj.add!(x: base.u32[..= 100], y: base.u8[2 ..= 5]) {
    this.total ~mod+= args.x * (args.y as base.u32)
    this.calls ~mod+= 1
}

pub func obj.bump!() base.u32 {
    this.calls ~mod+= 1
    return this.calls
}

pub func obj.co?(k: base.u16[1 ..= 999]) {
    this.total ~mod+= args.k as base.u32
}

pub func obj.get_total() base.u32 {
    return this.total
}

pub func obj.get_calls() base.u32 {
    return this.calls
}
`, []string{"get_total", "get_calls"},
			icall("add", 0, 2), icall("add", 100, 5), icall("bump"), icall("co", 1), icall("co", 999),
			icall("add", 101, 3),
			icall("add", 1, 2), icall("bump"), icall("co", 5),
		),
	})

	add("i02_refined_args_coroutine", testFile{
		Note: "out-of-range argument to a pub coroutine: #bad argument and disabled; also on the resumption of a suspended coroutine (arguments are re-checked on every call)",
		Case: mk(`
pub struct obj?(
        total : base.u32,
)

pub func obj.feed?(src: base.io_reader, k: base.u8[..= 9]) {
    var c : base.u8
    c = args.src.read_u8?()
    this.total ~mod+= (c as base.u32) * (args.k as base.u32)
    c = args.src.read_u8?()
    this.total ~mod+= (c as base.u32) * (args.k as base.u32)
}

pub func obj.get_total() base.u32 {
    return this.total
}
`, []string{"get_total"},
			call("feed", rd([]byte{3, 4}, false), ints(9)[0]),
			call("feed", rd([]byte{5}, false), ints(2)[0]),
			call("feed", rd([]byte{6}, false), ints(7)[0]),
			call("feed", rd([]byte{1}, false), ints(0)[0]),
			call("feed", rd([]byte{1}, false), ints(10)[0]),
			call("feed", rd([]byte{1}, false), ints(1)[0]),
		),
	})

	add("i03_interleaved_coroutines", testFile{
		Note: "calling a second pub coroutine while the first is suspended: #interleaved coroutine calls, object disabled; plain pub functions may be called in between",
		Case: mk(`
pub struct obj?(
        a : base.u32,
        b : base.u32,
)

pub func obj.first?(src: base.io_reader) {
    var c : base.u8
    c = args.src.read_u8?()
    this.a ~mod+= c as base.u32
    c = args.src.read_u8?()
    this.a ~mod+= (c as base.u32) << 8
}

pub func obj.second?(src: base.io_reader) {
    var c : base.u8
    c = args.src.read_u8?()
    this.b ~mod+= c as base.u32
}

pub func obj.poke!(x: base.u32) {
    this.b ~mod+= args.x
}

pub func obj.get_a() base.u32 {
    return this.a
}

pub func obj.get_b() base.u32 {
    return this.b
}
`, []string{"get_a", "get_b"},
			call("second", rd([]byte{7}, false)),
			call("first", rd([]byte{1}, false)),
			call("poke", ints(100)[0]),
			call("first", rd([]byte{2}, false)),
			call("first", rd([]byte{3}, false)),
			call("second", rd(nil, false)),
			call("first", rd([]byte{9}, false)),
			call("poke", ints(100)[0]),
		),
	})

	add("i04_status_results", testFile{
		Note: "non-coroutine functions returning base.status (errors do not disable unless the function has a used I/O argument), numeric results after disabling read as zero",
		Case: mk(`
pub status "#odd"
pub status "@even"
pri status "$internal"

pub struct obj?(
        n : base.u32,
)

pub func obj.check!(x: base.u32) base.status {
    var st : base.status
    this.n ~mod+= 1
    if (args.x & 1) == 1 {
        return "#odd"
    } else if args.x == 0 {
        return ok
    } else if args.x == 2 {
        st = "$internal"
        return st
    }
    return "@even"
}

pri func obj.check_io!(src: base.io_reader) base.status {
    var st : base.status
    this.n ~mod+= 10
    if args.src.length() == 0 {
        return "#odd"
    } else if args.src.length() == 1 {
        return "@even"
    } else if args.src.length() == 2 {
        st = "$internal"
        return st
    }
    return ok
}

pub func obj.thru?(src: base.io_reader) {
    var st : base.status
    st = this.check_io!(src: args.src)
    if st.is_suspension() {
        this.n ~mod+= 1000
        return ok
    }
    return st
}

pub func obj.count!() base.u32 {
    this.n ~mod+= 100
    return this.n
}

pub func obj.get_n() base.u32 {
    return this.n
}
`, []string{"get_n"},
			icall("check", 0), icall("check", 1), icall("check", 2), icall("check", 4), icall("count"),
			call("thru", rd([]byte{1, 2, 3}, false)),
			call("thru", rd(nil, false)),
			icall("check", 1), icall("count"),
			call("thru", rd(nil, false)),
			call("thru", rd(nil, false)),
		),
	})

	add("i05_utility_substruct", testFile{
		Note: "base.utility helpers, a sub-struct field with its own methods, reset! of the sub-struct (first-part fields zeroed, second-part left alone)",
		Case: mk(`
pub struct counter?(
        n : base.u32,
) + (
        keep : base.u32,
        hist : array[4] base.u8,
)

pub func counter.tick!(by: base.u32) base.u32 {
    this.n ~mod+= args.by
    this.keep ~mod+= 1
    this.hist[this.keep & 3] = (this.n & 0xFF) as base.u8
    return this.n
}

pub func counter.value() base.u32 {
    return this.n ~mod+ ((this.keep ~mod<< 16) ~mod+ ((this.hist[0] as base.u32) << 24))
}

pub struct obj?(
        acc  : base.u64,
        util : base.utility,
) + (
        sub  : counter,
)

pub func obj.work!(x: base.u32) base.u64 {
    var r : base.u64
    var t : base.u32
    var s : slice base.u8
    r = this.util.sign_extend_convert_u8_u32(a: (args.x & 0xFF) as base.u8) as base.u64
    r ~mod+= this.util.sign_extend_convert_u8_u64(a: (args.x & 0xFF) as base.u8)
    r ~mod+= this.util.sign_extend_convert_u16_u32(a: (args.x & 0xFFFF) as base.u16) as base.u64
    r ~mod+= this.util.sign_extend_convert_u16_u64(a: (args.x & 0xFFFF) as base.u16)
    r ~mod+= this.util.sign_extend_convert_u32_u64(a: args.x)
    r ~mod+= this.util.sign_extend_rshift_u32(a: args.x, n: args.x & 31) as base.u64
    r ~mod+= this.util.sign_extend_rshift_u64(a: (args.x as base.u64) << 32, n: args.x & 63)
    if this.util.cpu_arch_is_32_bit() {
        r ~mod+= 1
    }
    s = this.util.empty_slice_u8()
    r ~mod+= s.length()
    t = this.sub.tick!(by: args.x)
    r ~mod+= t as base.u64
    if (args.x & 0xFF) == 0xEE {
        this.sub.reset!()
    }
    this.acc = r
    return r
}

pub func obj.get_acc() base.u64 {
    return this.acc
}

pub func obj.get_sub() base.u32 {
    return this.sub.value()
}
`, []string{"get_acc", "get_sub"},
			icall("work", 0), icall("work", 0x7F), icall("work", 0x80), icall("work", 0xFFFF), icall("work", 0x8000),
			icall("work", 0x80000000), icall("work", 0xFFFFFFFF), icall("work", 0x12EE), icall("work", 5), icall("work", 0x7FFFFFFF),
		),
	})
}
