package main

func init() {
	add("h01_io_limit", testFile{
		Note: "io_limit on a reader argument around a =? call to a private coroutine (the std idiom) and around plain reads; io_limit on the writer; is_closed inside the limit",
		Case: mk(`
pub status "#too short"

pub struct obj?(
        acc    : base.u64,
        remain : base.u64,
        seen   : base.u32,
)

pri func obj.body?(src: base.io_reader) {
    var c : base.u8
    while true {
        c = args.src.read_u8?()
        this.acc ~mod*= 131
        this.acc ~mod+= c as base.u64
        this.seen ~mod+= 1
        if args.src.is_closed() {
            this.acc ^= 0x8000_0000_0000_0000
        }
    }
}

pub func obj.frame?(src: base.io_reader) {
    var n      : base.u8
    var status : base.status
    var m      : base.u64
    n = args.src.read_u8?()
    this.remain = n as base.u64
    while this.remain > 0 {
        m = args.src.mark()
        io_limit (io: args.src, limit: this.remain) {
            status =? this.body?(src: args.src)
        }
        this.remain ~sat-= args.src.count_since(mark: m)
        if status.is_error() {
            return status
        } else if this.remain == 0 {
            break
        } else if args.src.is_closed() and (args.src.length() == 0) {
            return "#too short"
        }
        yield? base."$short read"
    }
    this.acc ~mod+= args.src.length() ~mod<< 40
}

pub func obj.lim_peek!(src: base.io_reader, dst: base.io_writer, k: base.u32) {
    var x : base.u64
    io_limit (io: args.src, limit: (args.k as base.u64)) {
        x = args.src.length()
        if args.src.is_closed() {
            x |= 0x100
        }
        if args.src.length() >= 2 {
            x ~mod+= (args.src.peek_u16le() as base.u64) << 16
            args.src.skip_u32_fast!(actual: 1, worst_case: 2)
        }
    }
    io_limit (io: args.dst, limit: ((args.k >> 1) as base.u64)) {
        x ~mod+= args.dst.length() ~mod<< 32
        if args.dst.length() >= 1 {
            args.dst.write_u8_fast!(a: (x & 0xFF) as base.u8)
        }
        args.dst.copy_from_slice!(s: args.src.since(mark: 0))
    }
    x ~mod+= (args.dst.length() & 0xFF) << 48
    this.acc = x
}

pub func obj.get_acc() base.u64 {
    return this.acc
}

pub func obj.get_seen() base.u32 {
    return this.seen
}
`, []string{"get_acc", "get_seen"},
			call("lim_peek", rd(bs("ABCDEFGH"), false), wr(5), ints(0)[0]),
			call("lim_peek", rd(nil, false), wr(0), ints(3)[0]),
			call("lim_peek", rd(nil, false), wr(0), ints(100)[0]),
			call("lim_peek", rd(nil, false), wr(20), ints(6)[0]),
			call("frame", rd(nil, false)),
			call("frame", rd(nil, false)),
			call("frame", rd(bs("xyz"), false)),
			call("frame", rd(bs("12345678901234567890123456789012345678901234567890123456789012345678901234567890"), false)),
			call("frame", rd(bs("tail"), true)),
			call("lim_peek", rd(nil, false), wr(0), ints(200)[0]),
		),
	})

	add("h02_io_bind", testFile{
		Note: "io_bind of a local reader to a field slice and of a local writer to an argument slice; private functions and a =? coroutine call on the bound buffers; state of the locals restored after the block",
		Case: mk(`
pub struct obj?(
        acc  : base.u64,
        n    : base.u32,
) + (
        pool : array[24] base.u8,
)

pri func obj.drain!(r: base.io_reader) {
    var x : base.u64
    while args.r.length() >= 4 {
        x = args.r.peek_u32le() as base.u64
        args.r.skip_u32_fast!(actual: 4, worst_case: 4)
        this.acc ~mod*= 33
        this.acc ~mod+= x
    }
    this.acc ~mod+= args.r.length() ~mod<< 56
}

pri func obj.pull?(r: base.io_reader) {
    var v : base.u16
    v = args.r.read_u16be?()
    this.acc ^= v as base.u64
    this.n ~mod+= 1
}

pub func obj.load!(s: roslice base.u8) {
    this.pool[..].copy_from_slice!(s: args.s)
}

pub func obj.process?(out: slice base.u8, k: base.u32, src: base.io_reader) {
    var r      : base.io_reader
    var w      : base.io_writer
    var j      : base.u32[..= 24]
    var status : base.status
    var cnt    : base.u64

    j = args.k.min(no_more_than: 24)
    this.acc ~mod+= args.src.length()
    this.acc ~mod+= r.length() ~mod+ w.length()
    io_bind (io: r, data: this.pool[.. j], history_position: 100) {
        this.acc ~mod+= r.position()
        this.drain!(r: r)
        this.acc ~mod+= r.position() ~mod<< 8
    }
    io_bind (io: r, data: this.pool[j ..], history_position: 0) {
        status =? this.pull?(r: r)
        if status.is_suspension() {
            this.acc ~mod+= 0x0100_0000_0000
        }
        this.acc ~mod+= r.length() ~mod<< 16
    }
    io_bind (io: w, data: args.out, history_position: 7) {
        if w.length() >= 3 {
            w.write_u24le_fast!(a: (this.acc & 0xFF_FFFF) as base.u32)
        }
        cnt = w.copy_from_slice!(s: this.pool[.. 5])
        this.acc ~mod+= (cnt ~mod+ w.position()) ~mod<< 24
        this.acc ~mod+= w.history_length() ~mod<< 32
    }
    this.acc ~mod+= r.length() ~mod+ w.length()
    return ok
}

pub func obj.get_acc() base.u64 {
    return this.acc
}

pub func obj.get_n() base.u32 {
    return this.n
}
`, []string{"get_acc", "get_n"},
			call("process", sl(), ints(0)[0], rd(nil, false)),
			call("load", sl(seqBytes(24, 7, 1)...)),
			call("process", sl(0, 0), ints(5)[0], rd(nil, false)),
			call("process", sl(0, 0, 0, 0, 0, 0, 0, 0, 0, 0), ints(24)[0], rd(nil, false)),
			call("process", sl(0, 0, 0, 0), ints(23)[0], rd(nil, false)),
			call("process", sl(0, 0, 0, 0, 0, 0, 0, 0), ints(1000)[0], rd(nil, false)),
			call("load", sl(9, 8, 7)),
			call("process", sl(1, 1, 1), ints(12)[0], rd(nil, false)),
		),
	})
}
