package main

// -gen: loop seeds -> wprog.GenCase -> Compile -> Interpret -> RunC (both
// builds) and report, per scenario family, the first trace difference and the
// first monitor event.

import (
	"flag"
	"fmt"
	"math/rand"
	"os"
	"path/filepath"
	"reflect"
	"sort"
	"strings"
	"time"

	"encoding/json"

	"verif/internal/wprog"
)

var (
	flagGen      = flag.Bool("gen", false, "generator mode: run generated programs of every family (or -family)")
	flagFamily   = flag.String("family", "", "generator mode: only this family (comma separated list allowed)")
	flagVariant  = flag.Int("variant", 0, "generator mode: variant (-1 = random)")
	flagSeeds    = flag.Int("seeds", 20, "generator mode: seeds per family")
	flagSeed0    = flag.Int64("seed0", 1, "generator mode: first seed")
	flagScens    = flag.Int("scens", 1, "generator mode: MaxScens")
	flagSafeOnly = flag.Bool("safe", false, "generator mode: SafeOnly")
	flagDump     = flag.String("dump", "", "generator mode: directory to write the failing cases to (as JSON)")
	flagDumpAll  = flag.Bool("dumpall", false, "generator mode: write every generated case to -dump")
)

type famStat struct {
	programs, rejected, unsupported, withEvents, diffPlain, diffSan, cEventsPlain, cEventsSan int
	firstDiff, firstEvent, firstCEvent, firstUnsupp, firstReject                          string
}

func genMode() {
	fams := wprog.Families()
	var names []string
	if *flagFamily != "" {
		names = strings.Split(*flagFamily, ",")
	} else {
		for n := range fams {
			names = append(names, n)
		}
	}
	sort.Strings(names)
	env := prepareEnv()
	wprog.CKeepScratch = *flagKeep

	type item struct {
		fam  string
		seed int64
		c    *wprog.Case
		p    *wprog.Program
		out  *wprog.Outcome
	}
	var items []*item
	stats := map[string]*famStat{}
	t0 := time.Now()
	for _, fam := range names {
		st := &famStat{}
		stats[fam] = st
		for s := 0; s < *flagSeeds; s++ {
			seed := *flagSeed0 + int64(s)
			r := rand.New(rand.NewSource(seed*1000003 + int64(len(fam))))
			c := wprog.GenCase(r, wprog.GenOptions{Family: fam, Variant: *flagVariant, MaxScens: *flagScens, SafeOnly: *flagSafeOnly})
			if c == nil {
				continue
			}
			st.programs++
			if *flagDumpAll && *flagDump != "" {
				os.MkdirAll(*flagDump, 0o755)
				b, _ := json.MarshalIndent(c, "", " ")
				os.WriteFile(filepath.Join(*flagDump, fmt.Sprintf("%s-seed%d.json", strings.ReplaceAll(fam, "/", "_"), seed)), b, 0o644)
			}
			p, rej, err := wprog.Compile(c)
			if err != nil {
				fmt.Printf("%s seed %d: Compile error: %v\n", fam, seed, err)
				continue
			}
			if p == nil {
				st.rejected++
				if st.firstReject == "" {
					st.firstReject = fmt.Sprintf("seed %d: %s", seed, rej)
				}
				continue
			}
			it := &item{fam: fam, seed: seed, c: c, p: p}
			it.out = p.Interpret(c)
			if it.out.Unsupported != "" {
				st.unsupported++
				if st.firstUnsupp == "" {
					st.firstUnsupp = fmt.Sprintf("seed %d: %s", seed, it.out.Unsupported)
				}
				continue
			}
			if len(it.out.Events) > 0 {
				st.withEvents++
				if st.firstEvent == "" {
					e := it.out.Events[0]
					st.firstEvent = fmt.Sprintf("seed %d call %d: %s:%s | %s | fact=%q values=%q limit=%q", seed, e.Call, e.Prop, e.Kind, e.Node, e.Fact, e.Values, e.Limit)
				}
			}
			items = append(items, it)
		}
	}
	fmt.Printf("generated+interpreted %d programs in %.1fs\n", len(items), time.Since(t0).Seconds())

	if !*flagNoC && len(items) > 0 {
		cases := make([]*wprog.Case, len(items))
		for i, it := range items {
			cases[i] = it.c
		}
		for _, variant := range []string{"plain", "san"} {
			e := *env
			e.Sanitize = variant == "san"
			t0 := time.Now()
			tr, ev, err := wprog.RunC(&e, cases)
			if err != nil {
				fatal("RunC(%s): %v", variant, err)
			}
			d := time.Since(t0)
			fmt.Printf("RunC[%s] of %d cases: %.2fs = %.3f s per case\n", variant, len(cases), d.Seconds(), d.Seconds()/float64(len(cases)))
			for i, it := range items {
				st := stats[it.fam]
				same := reflect.DeepEqual(normTrace(it.out.Trace), normTrace(tr[i]))
				if len(ev[i]) > 0 {
					if variant == "plain" {
						st.cEventsPlain++
					} else {
						st.cEventsSan++
					}
					if st.firstCEvent == "" {
						e := ev[i][0]
						st.firstCEvent = fmt.Sprintf("seed %d [%s] call %d: %s:%s | %s | %s", it.seed, variant, e.Call, e.Prop, e.Kind, e.Node, oneLine(e.Values))
					}
				}
				if !same {
					if variant == "plain" {
						st.diffPlain++
					} else {
						st.diffSan++
					}
					if st.firstDiff == "" && len(it.out.Events) == 0 {
						st.firstDiff = fmt.Sprintf("seed %d [%s]: %s", it.seed, variant, firstDiff(it.out.Trace, tr[i]))
						if *flagDump != "" {
							os.MkdirAll(*flagDump, 0o755)
							b, _ := json.MarshalIndent(it.c, "", " ")
							os.WriteFile(filepath.Join(*flagDump, fmt.Sprintf("%s-seed%d.json", strings.ReplaceAll(it.fam, "/", "_"), it.seed)), b, 0o644)
						}
					}
				}
			}
		}
	}

	bad := 0
	for _, fam := range names {
		st := stats[fam]
		mark := "ok  "
		if st.firstDiff != "" || st.unsupported > 0 {
			mark = "DIFF"
			bad++
		} else if st.withEvents > 0 || st.cEventsPlain > 0 || st.cEventsSan > 0 {
			mark = "EVNT"
		}
		fmt.Printf("%s %-28s programs=%d rejected=%d unsupported=%d with-events=%d diff(plain/san)=%d/%d c-events(plain/san)=%d/%d\n",
			mark, fam, st.programs, st.rejected, st.unsupported, st.withEvents, st.diffPlain, st.diffSan, st.cEventsPlain, st.cEventsSan)
		for _, x := range []struct{ k, v string }{{"reject", st.firstReject}, {"unsupported", st.firstUnsupp}, {"event", st.firstEvent}, {"c-event", st.firstCEvent}, {"diff", st.firstDiff}} {
			if x.v != "" {
				fmt.Printf("       first %s: %s\n", x.k, x.v)
			}
		}
	}
	fmt.Printf("%d families, %d with unexplained differences\n", len(names), bad)
}

func firstDiff(a, b []wprog.Rec) string {
	n := len(a)
	if len(b) < n {
		n = len(b)
	}
	for i := 0; i < n; i++ {
		x, y := normTrace(a[i : i+1])[0], normTrace(b[i : i+1])[0]
		if !reflect.DeepEqual(x, y) {
			return fmt.Sprintf("call %d: I: %s | C: %s", i, recStr(x), recStr(y))
		}
	}
	return fmt.Sprintf("lengths %d (interpreter) vs %d (C)", len(a), len(b))
}
