package main

func init() {
	// ---- slices
	add("c01_slice_basics", testFile{
		Note: "slice arguments (read and written), [i .. j] / [.. j] / [i ..] / [..], length, indexing under facts, suffix, copy_from_slice incl. overlap",
		Case: mk(`
pub struct obj?(
        buf : array[16] base.u8,
        n   : base.u64,
)

pub func obj.ingest!(s: slice base.u8) base.u64 {
    var t : slice base.u8
    var k : base.u64
    var i : base.u64
    k = this.buf[4 ..].copy_from_slice!(s: args.s)
    this.n = k
    t = args.s
    if t.length() >= 3 {
        t = t[1 .. 3]
        t[0] ~mod+= 1
        t[1] = 0xEE
    }
    i = 0
    while i < args.s.length() {
        if (i & 1) == 0 {
            args.s[i] ^= 0x55
        }
        i ~mod+= 1
    }
    return k
}

pub func obj.windows(a: base.u32, b: base.u32) base.u64 {
    var i : base.u32[..= 16]
    var j : base.u32[..= 16]
    var s : roslice base.u8
    var r : base.u64
    i = args.a.min(no_more_than: 16)
    j = args.b.min(no_more_than: 16)
    if i <= j {
        s = this.buf[i .. j]
        r = s.length()
        if s.length() > 0 {
            r ~mod+= (s[0] as base.u64) << 8
        }
    }
    s = this.buf[.. j]
    r ~mod+= (s.length() & 0xFF) << 16
    s = this.buf[i ..]
    r ~mod+= (s.length() & 0xFF) << 24
    s = this.buf[..]
    r ~mod+= (s.suffix(up_to: i as base.u64).length() & 0xFF) << 32
    s = s.suffix(up_to: 3)
    if 2 < s.length() {
        r ~mod+= (s[2] as base.u64) << 40
    }
    return r
}

pub func obj.overlap!(d: base.u32) base.u64 {
    var k : base.u32[..= 8]
    var r : base.u64
    k = args.d & 7
    // overlapping copy inside one array: memmove semantics
    r = this.buf[k .. 16].copy_from_slice!(s: this.buf[0 .. 12])
    return r
}

pub func obj.sum() base.u64 {
    var i : base.u32
    var s : base.u64
    while i < 16 {
        s ~mod*= 31
        s ~mod+= this.buf[i] as base.u64
        i += 1
    }
    return s ~mod+ this.n
}
`, []string{"sum"},
			call("ingest", sl()),
			call("ingest", sl(1)),
			call("ingest", sl(1, 2, 3)),
			call("ingest", sl(9, 8, 7, 6, 5, 4, 3, 2, 1, 0, 11, 12)),
			call("ingest", sl(1, 2, 3, 4, 5, 6, 7, 8, 9, 10, 11, 12, 13, 14, 15, 16, 17, 18)),
			icall("windows", 0, 0), icall("windows", 0, 16), icall("windows", 16, 16), icall("windows", 5, 4),
			icall("windows", 4, 5), icall("windows", 3, 99), icall("windows", 99, 3), icall("windows", 15, 16),
			icall("overlap", 0), icall("overlap", 1), icall("overlap", 7), icall("overlap", 4),
		),
	})

	add("c02_slice_peek_poke", testFile{
		Note: "every slice peek_uN / poke_uN width and endianness under length facts; 8-byte copy_from_slice fast path",
		Case: mk(`
pub struct obj?(
        w : array[64] base.u8,
)

pub func obj.poke!(x: base.u64, s: slice base.u8) {
    var t : slice base.u8
    t = this.w[0 .. 64]
    if t.length() >= 8 {
        t.poke_u64le!(a: args.x)
    }
    t = this.w[8 .. 16]
    t.poke_u64be!(a: args.x)
    t = this.w[16 .. 23]
    t.poke_u56le!(a: args.x & 0xFF_FFFF_FFFF_FFFF)
    t = this.w[23 .. 30]
    t.poke_u56be!(a: args.x)
    t = this.w[30 .. 36]
    t.poke_u48le!(a: args.x)
    t = this.w[36 .. 42]
    t.poke_u48be!(a: args.x)
    t = this.w[42 .. 47]
    t.poke_u40le!(a: args.x)
    t = this.w[47 .. 52]
    t.poke_u40be!(a: args.x)
    t = this.w[52 .. 56]
    t.poke_u32le!(a: (args.x & 0xFFFF_FFFF) as base.u32)
    t = this.w[56 .. 60]
    t.poke_u32be!(a: (args.x >> 32) as base.u32)
    t = this.w[60 .. 62]
    t.poke_u16le!(a: (args.x & 0xFFFF) as base.u16)
    t = this.w[62 .. 64]
    t.poke_u16be!(a: (args.x & 0xFFFF) as base.u16)
    if args.s.length() >= 4 {
        args.s.poke_u24le!(a: (args.x & 0xFFFF_FFFF) as base.u32)
    }
    if 4 <= args.s.length() {
        args.s[3 .. 4].poke_u8!(a: 0x7E)
    }
    if 8 <= args.s.length() {
        t = args.s[4 .. 8]
        t[1 .. 4].poke_u24be!(a: 0x010203)
    }
}

pub func obj.peek(s: roslice base.u8) base.u64 {
    var t : roslice base.u8
    var r : base.u64
    t = this.w[0 .. 8]
    r = t.peek_u64le()
    t = this.w[8 .. 16]
    r ^= t.peek_u64be()
    t = this.w[16 .. 23]
    r ~mod+= t.peek_u56le_as_u64()
    t = this.w[23 .. 30]
    r ~mod+= t.peek_u56be_as_u64()
    t = this.w[30 .. 36]
    r ~mod+= t.peek_u48le_as_u64()
    t = this.w[36 .. 42]
    r ~mod+= t.peek_u48be_as_u64()
    t = this.w[42 .. 47]
    r ~mod+= t.peek_u40le_as_u64()
    t = this.w[47 .. 52]
    r ~mod+= t.peek_u40be_as_u64()
    t = this.w[52 .. 56]
    r ~mod+= t.peek_u32le() as base.u64
    t = this.w[56 .. 60]
    r ~mod+= t.peek_u32be() as base.u64
    t = this.w[60 .. 62]
    r ~mod+= t.peek_u16le() as base.u64
    t = this.w[62 .. 64]
    r ~mod+= t.peek_u16be() as base.u64
    t = this.w[5 .. 9]
    r ~mod+= (t.peek_u24le_as_u32() as base.u64) ~mod+ (t.peek_u24be_as_u32() as base.u64)
    r ~mod+= t.peek_u8() as base.u64
    if args.s.length() >= 8 {
        r ^= args.s.peek_u64le()
    } else if args.s.length() >= 2 {
        r ^= args.s.peek_u16be() as base.u64
    }
    return r
}

pub func obj.copy8!(i: base.u32, s: roslice base.u8) base.u64 {
    var k : base.u32[..= 56]
    var r : base.u64
    k = args.i.min(no_more_than: 56)
    assert k <= (k + 8) via "a <= (a + b): 0 <= b"(b: 8)
    if 8 <= args.s.length() {
        this.w[k .. k + 8].copy_from_slice!(s: args.s[.. 8])
    }
    r = this.w[.. 8].copy_from_slice!(s: this.w[56 .. 64])
    return r
}
`, nil,
			call("poke", ints(0)[0], sl()),
			call("peek", sl()),
			call("poke", ints(0x0123456789ABCDEF)[0], sl(1, 2, 3)),
			call("peek", sl(0xAA, 0xBB)),
			call("poke", ints(0xFFFFFFFFFFFFFFFF)[0], sl(1, 2, 3, 4)),
			call("peek", sl(1, 2, 3, 4, 5, 6, 7, 8)),
			call("poke", ints(0x8000000000000001)[0], sl(1, 2, 3, 4, 5, 6, 7, 8, 9)),
			call("peek", sl(0xFF, 0xFE, 0xFD, 0xFC, 0xFB, 0xFA, 0xF9, 0xF8, 0xF7)),
			call("copy8", ints(0)[0], sl(1, 2, 3, 4, 5, 6, 7, 8)),
			call("peek", sl(9)),
			call("copy8", ints(56)[0], sl(8, 7, 6, 5, 4, 3, 2, 1, 0)),
			call("peek", sl()),
			call("copy8", ints(99)[0], sl(1, 2, 3)),
			call("peek", sl(1, 1)),
		),
	})
}
