// pubapi prints, for each Wuffs package directory given on the command line,
// what the package's SOURCES declare: structs (name, pub, implements), funcs
// (receiver, name, pub, effect) and used packages. It parses the .wuffs files
// with the tree under test's own tokenizer and parser (lang/token, lang/parse)
// and is therefore built at run time through the module's replace directive;
// vcheck itself does not link any /repo package.
//
//	pubapi <pkgdir>...        -> one JSON object on stdout
package main

import (
	"encoding/json"
	"fmt"
	"os"
	"path/filepath"
	"sort"
	"strings"

	"github.com/google/wuffs/lang/ast"
	"github.com/google/wuffs/lang/parse"
	"github.com/google/wuffs/lang/token"
)

type structT struct {
	Name       string   `json:"name"`
	Pub        bool     `json:"pub"`
	Implements []string `json:"implements"` // "base.io_transformer"
}

type funcT struct {
	Recv   string `json:"recv"`
	Name   string `json:"name"`
	Pub    bool   `json:"pub"`
	Effect string `json:"effect"` // "pure", "impure", "coroutine"
	Choosy bool   `json:"choosy"`
}

type pkgT struct {
	Name    string    `json:"name"`
	Files   int       `json:"files"`
	Structs []structT `json:"structs"`
	Funcs   []funcT   `json:"funcs"`
	Uses    []string  `json:"uses"`
}

func main() {
	out := map[string]*pkgT{}
	for _, dir := range os.Args[1:] {
		p, err := doPkg(dir)
		if err != nil {
			fmt.Fprintf(os.Stderr, "pubapi: %s: %v\n", dir, err)
			os.Exit(1)
		}
		out[p.Name] = p
	}
	b, _ := json.Marshal(out)
	os.Stdout.Write(b)
	os.Stdout.Write([]byte("\n"))
}

func doPkg(dir string) (*pkgT, error) {
	ents, err := os.ReadDir(dir)
	if err != nil {
		return nil, err
	}
	var files []string
	for _, e := range ents {
		if !e.IsDir() && strings.HasSuffix(e.Name(), ".wuffs") {
			files = append(files, filepath.Join(dir, e.Name()))
		}
	}
	sort.Strings(files)
	p := &pkgT{Name: filepath.Base(dir), Files: len(files)}
	tm := &token.Map{}
	uses := map[string]bool{}
	for _, fn := range files {
		src, err := os.ReadFile(fn)
		if err != nil {
			return nil, err
		}
		toks, _, err := token.Tokenize(tm, fn, src)
		if err != nil {
			return nil, err
		}
		f, err := parse.Parse(tm, fn, toks, nil)
		if err != nil {
			return nil, err
		}
		for _, n := range f.TopLevelDecls() {
			switch n.Kind() {
			case ast.KStruct:
				s := n.AsStruct()
				st := structT{Name: s.QID()[1].Str(tm), Pub: s.Public(), Implements: []string{}}
				for _, im := range s.Implements() {
					q := im.AsTypeExpr().QID()
					st.Implements = append(st.Implements, q[0].Str(tm)+"."+q[1].Str(tm))
				}
				p.Structs = append(p.Structs, st)
			case ast.KFunc:
				fu := n.AsFunc()
				eff := "pure"
				if fu.Effect().Coroutine() {
					eff = "coroutine"
				} else if fu.Effect().Impure() {
					eff = "impure"
				}
				p.Funcs = append(p.Funcs, funcT{Recv: fu.Receiver()[1].Str(tm), Name: fu.FuncName().Str(tm),
					Pub: fu.Public(), Effect: eff, Choosy: fu.Choosy()})
			case ast.KUse:
				s := n.AsUse().Path().Str(tm)
				s = strings.Trim(s, "\"")
				uses[s] = true
			}
		}
	}
	for u := range uses {
		p.Uses = append(p.Uses, u)
	}
	sort.Strings(p.Uses)
	return p, nil
}
