// vcheck is the one CLI every MANIFEST command calls:
//
//	vcheck <property> --tier quick|thorough
//	vcheck <property> --replay <path>
package main

import (
	"flag"
	"fmt"
	"os"
	"path/filepath"
	"strconv"
	"time"

	"verif/internal/drv"
	"verif/internal/props"
)

func main() {
	if len(os.Args) < 2 {
		fmt.Fprintln(os.Stderr, "usage: vcheck <property> --tier quick|thorough | --replay <path>")
		os.Exit(2)
	}
	id := os.Args[1]
	fs := flag.NewFlagSet("vcheck", flag.ExitOnError)
	tier := fs.String("tier", "", "quick or thorough")
	replay := fs.String("replay", "", "replay file")
	fs.Parse(os.Args[2:])
	if *tier == "" {
		*tier = os.Getenv("VERIF_TIER")
	}
	if *tier == "" {
		*tier = "quick"
	}
	seed := int64(1)
	if s := os.Getenv("VERIF_SEED"); s != "" {
		if v, err := strconv.ParseInt(s, 10, 64); err == nil {
			seed = v
		}
	}
	r := &drv.Run{ID: id, Tier: *tier, Seed: seed, Replay: *replay, Start: time.Now(), Extra: map[string]interface{}{}}
	if *replay != "" {
		if abs, err := filepath.Abs(*replay); err == nil {
			*replay = abs
			r.Replay = abs
		}
		ri, err := drv.LoadReplay(*replay)
		if err != nil {
			drv.Fatal("replay: %v", err)
		}
		r.Tier, r.Seed = ri.Tier, ri.Seed
	}
	p, ok := props.Table[id]
	if !ok {
		drv.Fatal("unknown property %s", id)
	}
	r.NewScratch(p.PreferShm)
	sp := p.Run(r)
	st := r.Finish(sp)
	r.Cleanup()
	os.Exit(st)
}
