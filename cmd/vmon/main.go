// vmon is the Go-side monitor child. It links the Go packages of /repo (via
// the replace directive) and is rebuilt by vcheck on every run.
package main

import (
	"fmt"
	"os"

	"verif/internal/mon"
	"verif/internal/vk"
)

func main() {
	rc, pos := vk.ChildMain(os.Args[1:])
	if len(pos) < 1 {
		fmt.Fprintln(os.Stderr, "usage: vmon <monitor> [flags]")
		os.Exit(3)
	}
	f, ok := mon.Table[pos[0]]
	if !ok {
		fmt.Fprintln(os.Stderr, "unknown monitor", pos[0])
		os.Exit(3)
	}
	f(rc)
	if err := rc.Finish(); err != nil {
		fmt.Fprintln(os.Stderr, err)
		os.Exit(3)
	}
}
