// wdtest is a development tool: build wdrive for a variant and run a script.
package main

import (
	"fmt"
	"os"
	"time"

	"verif/internal/cbuild"
	"verif/internal/drv"
	"verif/internal/wd"
)

func main() {
	r := &drv.Run{ID: "WDTEST", Tier: "quick", Seed: 1, Start: time.Now(), Extra: map[string]interface{}{}}
	r.NewScratch(false)
	defer r.Cleanup()
	std, err := cbuild.GenStd(r, "plain", "", nil)
	if err != nil {
		fmt.Println(err)
		os.Exit(2)
	}
	v := cbuild.VAsan
	switch os.Args[1] {
	case "plain":
		v = cbuild.VPlain
	case "nosimd":
		v = cbuild.VNoSimd
	}
	bin, err := cbuild.BuildWdrive(r, std, v)
	if err != nil {
		fmt.Println(err)
		os.Exit(2)
	}
	fmt.Println("bin:", bin)
	b, _ := os.ReadFile(os.Args[2])
	res, err := wd.RunBatch(bin, []*wd.Job{{Text: string(b)}}, r.Scratch, "t", nil, 600)
	fmt.Println("err:", err)
	for _, x := range res {
		fmt.Printf("ended=%v crash=%s\n", x.Ended, x.CrashK)
		for _, o := range x.Objs {
			fmt.Println(o)
		}
		if x.Crash != "" {
			fmt.Println(x.Crash)
		}
	}
	out, _ := os.ReadFile(r.Scratch + "/t.out")
	fmt.Println(string(out))
}
