// wgentest is a development tool for the program generator: it generates
// cases per family/variant and reports what the real checker accepts.
package main

import (
	"flag"
	"fmt"
	"math/rand"
	"os"
	"sort"

	"github.com/google/wuffs/lang/check"
	"github.com/google/wuffs/lang/parse"
	t "github.com/google/wuffs/lang/token"

	a "github.com/google/wuffs/lang/ast"

	"verif/internal/wprog"
)

func compile(src string) error {
	tm := &t.Map{}
	tokens, _, err := t.Tokenize(tm, "vt.wuffs", []byte(src))
	if err != nil {
		return fmt.Errorf("tokenize: %v", err)
	}
	f, err := parse.Parse(tm, "vt.wuffs", tokens, nil)
	if err != nil {
		return fmt.Errorf("parse: %v", err)
	}
	_, err = check.Check(tm, []*a.File{f}, nil)
	return err
}

func main() {
	fam := flag.String("family", "", "family name")
	n := flag.Int("n", 20, "programs per variant")
	show := flag.Bool("show", false, "print the first program of each variant")
	seed := flag.Int64("seed", 1, "")
	flag.Parse()
	fams := wprog.Families()
	var names []string
	for k := range fams {
		if *fam == "" || *fam == k {
			names = append(names, k)
		}
	}
	sort.Strings(names)
	for _, name := range names {
		for v := 0; v < fams[name]; v++ {
			acc, rej, nilc := 0, 0, 0
			firstErr := ""
			for i := 0; i < *n; i++ {
				r := rand.New(rand.NewSource(*seed*1000 + int64(i)))
				c := wprog.GenCase(r, wprog.GenOptions{Family: name, Variant: v, MaxScens: 1})
				if c == nil {
					nilc++
					continue
				}
				if i == 0 && *show {
					fmt.Printf("---- %s v%d\n%s\n", name, v, c.Source)
				}
				func() {
					defer func() {
						if rec := recover(); rec != nil {
							rej++
							firstErr = fmt.Sprint("PANIC: ", rec)
						}
					}()
					if err := compile(c.Source); err != nil {
						rej++
						if firstErr == "" {
							firstErr = err.Error()
							if len(firstErr) > 300 {
								firstErr = firstErr[:300]
							}
						}
					} else {
						acc++
					}
				}()
			}
			fmt.Printf("%-26s v%d accepted=%d rejected=%d nil=%d  %s\n", name, v, acc, rej, nilc, firstErr)
		}
	}
	_ = os.Stdout
}
