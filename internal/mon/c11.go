package mon

import (
	"bytes"
	"compress/gzip"
	"crypto/sha256"
	"encoding/base64"
	"encoding/hex"
	"fmt"
	"math/rand"
	"os"
	"os/exec"
	"path/filepath"
	"regexp"
	"runtime"
	"runtime/debug"
	"sort"
	"strings"
	"sync"
	"syscall"
	"time"

	a "github.com/google/wuffs/lang/ast"
	"github.com/google/wuffs/lang/check"
	"github.com/google/wuffs/lang/parse"
	"github.com/google/wuffs/lang/render"
	t "github.com/google/wuffs/lang/token"

	"verif/internal/vk"
)

// C11: the Wuffs tool-chain never crashes or hangs, whatever source text it is
// given, and for every accepted program the emitted C is accepted by gcc.
//
// In-process leg. Every text goes through token.Tokenize, parse.Parse (options
// nil, as lang/generate does), render.Render (only when cmd/wuffsfmt would get
// that far: Tokenize and Parse{AllowDoubleUnderscoreNames} succeed) and
// check.Check (set up as lang/generate.Do does: all files of the package share
// one token.Map, `use` is resolved by reading <root>/gen/wuffs/<path>.wuffs of
// a scratch wuffs root that the driver filled with `wuffs gen`), each inside
// its own recover(). A recovered panic is a violation
// "toolchain-panic:<stage>:<vk.PanicSig>[<caller]". A case that uses more than
// c11caseCPU of process CPU time is a hang (decided by getrusage, never by the
// wall clock); stack overflow / out of memory kill the child and are turned
// into "toolchain-crash:..." by the driver from the rc.Mark of the case.
//
// Out-of-process leg. A package that check.Check accepts (mutated or not) is
// given to the real `wuffs-c gen` built from the tree under test (cwd = the
// scratch root, RLIMIT_CPU 60 s, RLIMIT_AS 4 GiB). A non-zero exit with an
// ordinary one-line error is fine; a Go panic / fatal error / signal death /
// CPU overrun is "toolchain-crash:wuffs-c:<class>". C text emitted with exit 0
// is compiled the way `wuffs genlib` compiles a per-package file:
// `gcc -fsyntax-only -DWUFFS_IMPLEMENTATION -x c -` with the directory that
// holds the generated wuffs-base.c and wuffs-std-*.c as cwd (the emitted file
// starts with #include "./wuffs-base.c" and the files of the packages it
// uses). gcc rejecting it is "emitted-c-rejected:<first error class>".

const (
	c11caseCPU   = 60 * time.Second // logical budget of one text, in-process stages (slowest known text: 2 s idle, 7 s on a loaded box)
	c11maxSrc    = 160 << 10        // generated texts are at most this long (largest std file: 85 KB)
	c11childCPU  = 60               // seconds, wuffs-c / gcc
	c11childASKB = 4 << 20          // KiB
)

func init() {
	Table["C11"] = C11
	Table["C11D"] = C11D
}

func c11repo() string {
	if v := os.Getenv("VERIF_REPO"); v != "" {
		return v
	}
	return "/repo"
}

func c11cpuNow() time.Duration {
	var ru syscall.Rusage
	syscall.Getrusage(syscall.RUSAGE_SELF, &ru)
	return time.Duration(ru.Utime.Nano() + ru.Stime.Nano())
}

// c11limitAS caps the address space at what is mapped now plus headroom.
func c11limitAS(rc *vk.Rec, headroom uint64) {
	b, err := os.ReadFile("/proc/self/statm")
	if err != nil {
		rc.Inconclusive("C11: cannot read /proc/self/statm: " + err.Error())
		return
	}
	var pages uint64
	fmt.Sscan(string(b), &pages)
	lim := pages*uint64(os.Getpagesize()) + headroom
	if err := syscall.Setrlimit(syscall.RLIMIT_AS, &syscall.Rlimit{Cur: lim, Max: lim}); err != nil {
		rc.Inconclusive("C11: setrlimit(RLIMIT_AS): " + err.Error())
	}
}

// ------------------------------------------------------------------ corpus

type c11tokn struct {
	gap  string // white space and comments before the token
	text string
	kind byte
}

type c11file struct {
	rel   string // e.g. std/png/decode_png.wuffs
	abs   string
	src   []byte
	toks  []c11tokn
	tail  string
	match []int32  // index of the partner bracket, or -1
	depth []int16  // curly depth in front of the token
	decls [][2]int // token ranges of the top level declarations
	funcs []int    // indexes into decls
	pkg   *c11pkg
	idx   int // index in pkg.files
}

type c11pkg struct {
	name  string
	dir   string
	files []*c11file
}

type c11corpus struct {
	pkgs   []*c11pkg
	files  []*c11file
	small  []*c11file // files truncated exhaustively
	pools  map[byte][]string
	kinds  []byte
	idents []string
}

func c11kind(tm *t.Map, id t.ID) byte {
	switch {
	case id == t.IDSemicolon:
		return ';'
	case id.IsOpen():
		return '('
	case id.IsClose():
		return ')'
	case id.IsAssign():
		return '='
	case id.IsKeyword():
		return 'k'
	case id.IsNumLiteral(tm):
		return 'n'
	case id.IsDQStrLiteral(tm), id.IsSQStrLiteral(tm):
		return 's'
	}
	s := tm.ByID(id)
	if s == "" {
		return '?'
	}
	c := s[0]
	alpha := c == '_' || ('a' <= c && c <= 'z') || ('A' <= c && c <= 'Z')
	if id.IsUnaryOp() || id.IsBinaryOp() {
		return 'o'
	}
	if id.IsBuiltIn() && alpha {
		return 'b' // built-in words: true, base, u8, this, args, length, ...
	}
	if alpha {
		return 'i'
	}
	return 'p'
}

// c11scan splits src into tokens with their byte positions, using the real
// tokenizer for the token sequence.
func c11scan(src []byte) (toks []c11tokn, tail string, ok bool) {
	defer func() {
		if recover() != nil {
			ok = false
		}
	}()
	tm := &t.Map{}
	tt, _, err := t.Tokenize(tm, "scan", src)
	if err != nil {
		return nil, "", false
	}
	pos := 0
	skip := func(p int) int {
		for p < len(src) {
			if src[p] <= ' ' {
				p++
			} else if src[p] == '/' && p+1 < len(src) && src[p+1] == '/' {
				for p < len(src) && src[p] != '\n' {
					p++
				}
			} else {
				break
			}
		}
		return p
	}
	for _, tk := range tt {
		s := tm.ByID(tk.ID)
		p := skip(pos)
		if tk.ID == t.IDSemicolon {
			if p < len(src) && src[p] == ';' {
				// explicit
			} else {
				continue // implicit
			}
		}
		if !bytes.HasPrefix(src[p:], []byte(s)) {
			return nil, "", false
		}
		toks = append(toks, c11tokn{gap: string(src[pos:p]), text: s, kind: c11kind(tm, tk.ID)})
		pos = p + len(s)
	}
	return toks, string(src[pos:]), true
}

func c11emit(toks []c11tokn, tail string) []byte {
	n := len(tail)
	for i := range toks {
		n += len(toks[i].gap) + len(toks[i].text)
	}
	b := make([]byte, 0, n)
	for i := range toks {
		b = append(b, toks[i].gap...)
		b = append(b, toks[i].text...)
	}
	return append(b, tail...)
}

func c11openOf(s string) string {
	switch s {
	case ")":
		return "("
	case "]":
		return "["
	case "}":
		return "{"
	case "}}":
		return "{{"
	}
	return ""
}

func (f *c11file) analyse() {
	n := len(f.toks)
	f.match = make([]int32, n)
	f.depth = make([]int16, n)
	var stack []int
	d := int16(0)
	for i := range f.toks {
		f.match[i] = -1
		f.depth[i] = d
		switch f.toks[i].kind {
		case '(':
			stack = append(stack, i)
			if f.toks[i].text[0] == '{' {
				d++
			}
		case ')':
			if len(stack) > 0 && f.toks[stack[len(stack)-1]].text == c11openOf(f.toks[i].text) {
				j := stack[len(stack)-1]
				stack = stack[:len(stack)-1]
				f.match[i], f.match[j] = int32(j), int32(i)
			}
			if f.toks[i].text[0] == '}' && d > 0 {
				d--
			}
		}
	}
	start := -1
	for i := range f.toks {
		if f.depth[i] != 0 || f.toks[i].kind != 'k' {
			continue
		}
		switch f.toks[i].text {
		case "pub", "pri", "use":
			// "pub"/"pri" inside a paren group at depth 0 cannot occur in valid code.
			if start >= 0 {
				f.decls = append(f.decls, [2]int{start, i})
			}
			start = i
		}
	}
	if start >= 0 {
		f.decls = append(f.decls, [2]int{start, n})
	}
	for k, d := range f.decls {
		if d[1]-d[0] > 2 && f.toks[d[0]+1].text == "func" {
			f.funcs = append(f.funcs, k)
		}
	}
}

func c11load(rc *vk.Rec) *c11corpus {
	root := c11repo()
	var names []string
	for _, pat := range []string{"std/*/*.wuffs", "hello-wuffs-c/*.wuffs"} {
		m, _ := filepath.Glob(filepath.Join(root, pat))
		names = append(names, m...)
	}
	sort.Strings(names)
	c := &c11corpus{pools: map[byte][]string{}}
	byDir := map[string]*c11pkg{}
	seen := map[string]bool{}
	for _, n := range names {
		b, err := os.ReadFile(n)
		if err != nil {
			continue
		}
		rel, _ := filepath.Rel(root, n)
		toks, tail, ok := c11scan(b)
		if !ok {
			rc.Count("corpus_files_not_scannable", 1)
			continue
		}
		dir := filepath.Dir(rel)
		p := byDir[dir]
		if p == nil {
			p = &c11pkg{name: filepath.Base(dir), dir: dir}
			if dir == "hello-wuffs-c" {
				p.name = "demo"
			}
			byDir[dir] = p
			c.pkgs = append(c.pkgs, p)
		}
		f := &c11file{rel: rel, abs: n, src: b, toks: toks, tail: tail, pkg: p, idx: len(p.files)}
		f.analyse()
		p.files = append(p.files, f)
		c.files = append(c.files, f)
		for _, tk := range toks {
			key := string(tk.kind) + tk.text
			if !seen[key] && len(tk.text) < 80 {
				seen[key] = true
				c.pools[tk.kind] = append(c.pools[tk.kind], tk.text)
			}
		}
	}
	// every built-in word and symbol, whether std uses it or not
	tm := &t.Map{}
	for id := t.ID(1); id.IsBuiltIn(); id++ {
		s := tm.ByID(id)
		if s == "" {
			continue
		}
		k := c11kind(tm, id)
		if key := string(k) + s; !seen[key] {
			seen[key] = true
			c.pools[k] = append(c.pools[k], s)
		}
	}
	c.pools['n'] = append(c.pools['n'], "0", "1", "255", "256", "65535", "65536", "0xFFFF_FFFF", "0x1_0000_0000",
		"0xFFFF_FFFF_FFFF_FFFF", "18446744073709551616", "0b1", "0B1111_0000", "0X7F", "1_000000",
		strings.Repeat("9", 40), "0x"+strings.Repeat("F", 64))
	c.pools['s'] = append(c.pools['s'], `"#bad thing"`, `"$short thing"`, `"@note"`, `""`, `"x"`, `'a'`, `'ab'be`, `'abcd'le`,
		`'\x00'`, `'\\'`, `'abcdefgh'be`, `'é'be`, `"#"`, `"not closed`)
	for k := range c.pools {
		sort.Strings(c.pools[k])
		c.kinds = append(c.kinds, k)
	}
	sort.Slice(c.kinds, func(i, j int) bool { return c.kinds[i] < c.kinds[j] })
	c.idents = c.pools['i']
	// the small files that are truncated at every token boundary
	for _, want := range []string{"hello-wuffs-c/parse.wuffs", "std/lzw/decode_quirks.wuffs", "std/crc32/common_up_arm_crc32.wuffs",
		"std/adler32/common_adler32.wuffs", "std/bzip2/decode_flush_slow.wuffs", "std/zlib/decode_zlib.wuffs"} {
		for _, f := range c.files {
			if f.rel == want {
				c.small = append(c.small, f)
			}
		}
	}
	return c
}

// ---------------------------------------------------------------- pipeline

type c11case struct {
	phase  string
	idx    int64
	family string // coarse mutation family (part of the class)
	kind   string // exact mutation kind (counter, replay)
	desc   string
	pkg    *c11pkg // nil: the text is a package of its own
	fidx   int     // which file of pkg the text replaces (-1: added as an extra file)
	name   string  // file name given to the tool-chain
	src    []byte
	cause  string // set when the accepted package uses a feature cgen is known not to support
}

func (c *c11case) extra() map[string]interface{} {
	m := map[string]interface{}{"family": c.family, "kind": c.kind, "mutation": c.desc, "file": c.name,
		"src_len": len(c.src), "src_sha256": c11sha(c.src)}
	if c.pkg != nil {
		m["package_dir"] = c.pkg.dir
		m["replaces_file_index"] = c.fidx
	}
	if len(c.src) <= 3000 {
		m["src"] = string(c.src)
	} else {
		var zb bytes.Buffer
		zw := gzip.NewWriter(&zb)
		zw.Write(c.src)
		zw.Close()
		m["src_gzip_base64"] = base64.StdEncoding.EncodeToString(zb.Bytes())
		m["src_head"] = vk.Trunc(c.src, 400)
	}
	return m
}

func c11sha(b []byte) string {
	h := sha256.Sum256(b)
	return hex.EncodeToString(h[:12])
}

// c11panicSig must run inside the deferred function that recovered rec.
func c11panicSig(rec interface{}) string {
	sig := vk.PanicSig(rec)
	// A nil receiver in an lang/ast accessor says nothing about the site:
	// add the first caller outside lang/ast.
	pcs := make([]uintptr, 64)
	n := runtime.Callers(2, pcs)
	frames := runtime.CallersFrames(pcs[:n])
	const pfx = "github.com/google/wuffs/"
	inAst := false
	for {
		f, more := frames.Next()
		if strings.HasPrefix(f.Function, pfx) {
			fn := strings.TrimPrefix(f.Function, pfx)
			if strings.HasPrefix(fn, "lang/ast.") {
				inAst = true
			} else {
				if inAst {
					sig += "<" + fn
				}
				break
			}
		}
		if !more {
			break
		}
	}
	return sig
}

var c11wd struct {
	mu     sync.Mutex
	rc     *vk.Rec
	c      *c11case
	stage  string
	cpu0   time.Duration
	active bool
}

func c11setStage(s string) {
	c11wd.mu.Lock()
	c11wd.stage = s
	c11wd.mu.Unlock()
}

// c11watch turns a case that burns more than c11caseCPU of CPU time into a
// violation. The wall clock only paces the polling.
func c11watch() {
	for {
		time.Sleep(250 * time.Millisecond)
		c11wd.mu.Lock()
		if c11wd.active && c11cpuNow()-c11wd.cpu0 > c11caseCPU {
			c, rc, st := c11wd.c, c11wd.rc, c11wd.stage
			rc.ViolateCase("toolchain-hang:"+st+":cpu-budget-exceeded",
				fmt.Sprintf("%s did not finish within %v of CPU time on a %d-byte text (%s %s)", st, c11caseCPU, len(c.src), c.kind, c.name),
				c.phase, c.idx, c.extra())
			rc.Finish()
			os.Exit(0)
		}
		c11wd.mu.Unlock()
	}
}

var c11stageCPU = map[string]time.Duration{}

func c11stage(name string, f func()) (sig string, what string) {
	c11setStage(name)
	t0 := c11cpuNow()
	defer func() {
		c11stageCPU[name] += c11cpuNow() - t0
		if r := recover(); r != nil {
			sig = "toolchain-panic:" + strings.TrimSuffix(name, "-siblings") + ":" + c11panicSig(r)
			what = fmt.Sprint(r)
		}
	}()
	f()
	return "", ""
}

var (
	c11reFacts = regexp.MustCompile(`(?s)\. Facts:\n.*$`)
	c11reAt    = regexp.MustCompile(` at [^\s"]+:\d+$`)
	c11reDQ    = regexp.MustCompile(`"(\\.|[^"\\])*"`)
	c11reNum   = regexp.MustCompile(`-?\d+`)
	c11reAka   = regexp.MustCompile(` \{aka [^}]*\}`)
	c11reGccQ  = regexp.MustCompile("[‘'`][^’'`]*[’']")
)

// c11errClass blanks the identifiers, expressions and numbers of a message.
func c11errClass(s string) string {
	s = c11reFacts.ReplaceAllString(s, "")
	s = c11reAt.ReplaceAllString(s, "")
	s = c11reDQ.ReplaceAllString(s, `"_"`)
	s = c11reNum.ReplaceAllString(s, "N")
	if i := strings.Index(s, " for "); i >= 0 && strings.HasPrefix(s, "parse: ") && strings.Contains(s, "while/iterate") {
		s = s[:i]
	}
	if i := strings.Index(s, "loop label "); i >= 0 {
		s = s[:i+10]
	}
	if len(s) > 90 {
		s = s[:90]
	}
	return s
}

type c11leg2 struct {
	root, tools, work string
	pristine          map[string]string // package name -> sha of <root>/gen/c/wuffs-std-<pkg>.c
	gccOK             map[string]bool   // sha of C texts gcc has accepted
	genLeft, gccLeft  map[string]int    // per phase budgets
	nocap             bool
	rc                *vk.Rec
}

func c11newLeg2(rc *vk.Rec) *c11leg2 {
	l := &c11leg2{root: os.Getenv("C11_ROOT"), tools: os.Getenv("C11_TOOLS"), rc: rc,
		pristine: map[string]string{}, gccOK: map[string]bool{}, genLeft: map[string]int{}, gccLeft: map[string]int{}}
	if l.root == "" || l.tools == "" {
		rc.Inconclusive("C11: C11_ROOT / C11_TOOLS not set: the wuffs-c / gcc leg cannot run")
		return nil
	}
	l.work = filepath.Join(os.Getenv("C11_WORK"), fmt.Sprintf("w%d", rc.Shard))
	if os.Getenv("C11_WORK") == "" {
		l.work = filepath.Join(os.TempDir(), fmt.Sprintf("c11work.%d.%d", os.Getpid(), rc.Shard))
	}
	os.MkdirAll(l.work, 0o755)
	m, _ := filepath.Glob(filepath.Join(l.root, "gen", "c", "wuffs-std-*.c"))
	for _, p := range m {
		if b, err := os.ReadFile(p); err == nil {
			n := strings.TrimSuffix(strings.TrimPrefix(filepath.Base(p), "wuffs-std-"), ".c")
			l.pristine[n] = c11sha(b)
		}
	}
	l.nocap = rc.Only >= 0
	return l
}

func (l *c11leg2) budget(phase string, gen, gcc int) {
	l.genLeft[phase], l.gccLeft[phase] = gen, gcc
}

type c11capw struct {
	b   []byte
	max int
	n   int64
}

func (w *c11capw) Write(p []byte) (int, error) {
	w.n += int64(len(p))
	if room := w.max - len(w.b); room > 0 {
		if len(p) > room {
			w.b = append(w.b, p[:room]...)
		} else {
			w.b = append(w.b, p...)
		}
	}
	return len(p), nil
}

// c11exec runs argv under RLIMIT_CPU / RLIMIT_AS and reports how it ended:
// how = "ok", "exit:<n>", "cpu-budget-exceeded" or "signal:<name>".
func c11exec(dir string, stdin []byte, maxOut int, argv ...string) (stdout []byte, stderr string, how string) {
	sh := fmt.Sprintf(`ulimit -t %d; ulimit -v %d; exec "$0" "$@"`, c11childCPU, c11childASKB)
	cmd := exec.Command("/bin/sh", append([]string{"-c", sh}, argv...)...)
	cmd.Dir = dir
	cmd.Env = append(os.Environ(), "GOMAXPROCS=2", "LC_ALL=C")
	if stdin != nil {
		cmd.Stdin = bytes.NewReader(stdin)
	}
	ow := &c11capw{max: maxOut}
	ew := &c11capw{max: 64 << 10}
	cmd.Stdout, cmd.Stderr = ow, ew
	err := cmd.Run()
	how = "ok"
	if err != nil {
		how = "exit:?"
		if ee, ok := err.(*exec.ExitError); ok {
			if ws, ok := ee.Sys().(syscall.WaitStatus); ok {
				switch {
				case ws.Signaled() && (ws.Signal() == syscall.SIGXCPU || ws.Signal() == syscall.SIGKILL):
					how = "cpu-budget-exceeded"
				case ws.Signaled():
					how = "signal:" + ws.Signal().String()
				default:
					how = fmt.Sprintf("exit:%d", ws.ExitStatus())
				}
			}
		} else {
			how = "start-failed:" + err.Error()
		}
	}
	return ow.b, string(ew.b), how
}

var (
	c11rePanicLine = regexp.MustCompile(`(?m)^(panic: .*|fatal error: .*|runtime: .*|SIG[A-Z]+: .*)$`)
	c11reGoFrame   = regexp.MustCompile(`(?m)^github\.com/google/wuffs/([^\s(]+(?:\([^)]*\))?[^\s(]*)\(`)
	c11reHex       = regexp.MustCompile(`0x[0-9a-fA-F]+|\d+`)
)

// c11crashClass summarises a Go crash dump: first panic/fatal line with
// numbers blanked, first wuffs frame (and its first caller outside lang/ast).
func c11crashClass(stderr string) string {
	m := c11rePanicLine.FindString(stderr)
	if m == "" {
		return ""
	}
	m = c11reHex.ReplaceAllString(m, "N")
	m = strings.TrimSuffix(m, " [recovered]")
	if len(m) > 110 {
		m = m[:110]
	}
	fr := ""
	for _, fm := range c11reGoFrame.FindAllStringSubmatch(stderr, 40) {
		if fr == "" {
			fr = fm[1]
			if !strings.HasPrefix(fr, "lang/ast.") {
				break
			}
		} else if !strings.HasPrefix(fm[1], "lang/ast.") {
			fr += "<" + fm[1]
			break
		}
	}
	return m + "@" + fr
}

var (
	c11reGccLoc = regexp.MustCompile(`^<stdin>:(\d+):(\d+): `)
	c11reCVarID = regexp.MustCompile(`^((?:io[0-2p]_)?[avfiopstu]_)\w+$`)
	c11reCPkgID = regexp.MustCompile(`^(?i:wuffs)_[a-zA-Z0-9]+__\w+$`)
	c11reMean   = regexp.MustCompile(`; did you mean .*$`)
)

func c11isIdent(c byte) bool {
	return c == '_' || ('a' <= c && c <= 'z') || ('A' <= c && c <= 'Z') || ('0' <= c && c <= '9')
}

// c11gccClass is the first error message of gcc with quoted names and numbers
// blanked, plus the token of the emitted C that the error points at, with
// names that come from the Wuffs source blanked (v_*, a_*, f_*, p_*, ...: the
// prefix is kept; wuffs_<pkg>__ names other than wuffs_base__: W).
func c11gccClass(stderr string, emitted []byte) string {
	for _, ln := range strings.Split(stderr, "\n") {
		i := strings.Index(ln, "error: ")
		if i < 0 {
			continue
		}
		s := ln[i+7:]
		s = c11reMean.ReplaceAllString(s, "")
		s = c11reAka.ReplaceAllString(s, "")
		s = c11reGccQ.ReplaceAllString(s, "_")
		s = c11reNum.ReplaceAllString(s, "N")
		if len(s) > 80 {
			s = s[:80]
		}
		if m := c11reGccLoc.FindStringSubmatch(ln); m != nil {
			var n, col int
			fmt.Sscan(m[1], &n)
			fmt.Sscan(m[2], &col)
			lines := bytes.SplitN(emitted, []byte("\n"), n+1)
			if n >= 1 && n <= len(lines) && col >= 1 && col <= len(lines[n-1]) {
				l := lines[n-1]
				a0, b0 := col-1, col
				if c11isIdent(l[a0]) {
					for a0 > 0 && c11isIdent(l[a0-1]) {
						a0--
					}
					for b0 < len(l) && c11isIdent(l[b0]) {
						b0++
					}
				}
				tok := string(l[a0:b0])
				if tok == "." || (tok == "-" && b0 < len(l) && l[b0] == '>') {
					// a member access: name the member
					for b0 < len(l) && !c11isIdent(l[b0]) {
						b0++
					}
					a0 = b0
					for b0 < len(l) && c11isIdent(l[b0]) {
						b0++
					}
					if a0 < b0 {
						tok = "." + string(l[a0:b0])
					}
				}
				if tok0 := strings.TrimPrefix(tok, "."); tok0 != tok {
					if m := c11reCVarID.FindStringSubmatch(tok0); m != nil {
						tok = "." + m[1] + "*"
					}
				}
				if m := c11reCVarID.FindStringSubmatch(tok); m != nil {
					tok = m[1] + "*"
				} else if c11reCPkgID.MatchString(tok) && !strings.HasPrefix(strings.ToLower(tok), "wuffs_base__") {
					tok = "W"
				} else if tok[0] >= '0' && tok[0] <= '9' {
					tok = "N"
				}
				if !strings.HasPrefix(s, "size of array") { // one signature whatever is too large (local, field, argument)
					s += " @" + tok
				}
			}
		}
		return s
	}
	return "no-error-line"
}

// run gives an accepted package to wuffs-c and the emitted C to gcc. It
// returns the outcome class.
func (l *c11leg2) run(c *c11case, always bool) string {
	rc := l.rc
	if !l.nocap && !always {
		if l.genLeft[c.phase] <= 0 {
			rc.Count("leg2_skipped_over_budget", 1)
			return "accepted-not-generated"
		}
		l.genLeft[c.phase]--
	}
	c11setStage("wuffs-c")
	dir := filepath.Join(l.work, fmt.Sprintf("%s-%d", c.phase, c.idx))
	os.MkdirAll(dir, 0o755)
	defer os.RemoveAll(dir)
	pkgName := "demo"
	var args []string
	mine := filepath.Join(dir, filepath.Base(c.name))
	if err := os.WriteFile(mine, c.src, 0o644); err != nil {
		rc.Inconclusive("C11: cannot write mutant: " + err.Error())
		return "io-error"
	}
	if c.pkg != nil {
		pkgName = c.pkg.name
		for i, f := range c.pkg.files {
			if i == c.fidx {
				args = append(args, mine)
			} else {
				args = append(args, f.abs)
			}
		}
		if c.fidx < 0 {
			args = append(args, mine)
		}
	} else {
		args = []string{mine}
	}
	argv := append([]string{filepath.Join(l.tools, "wuffs-c"), "gen", "-package_name", pkgName}, args...)
	out, errs, how := c11exec(l.root, nil, 64<<20, argv...)
	rc.Count("wuffsc_runs", 1)
	ex := func() map[string]interface{} {
		m := c.extra()
		m["wuffs_c_args"] = argv[1:]
		m["wuffs_c_end"] = how
		m["stderr_head"] = vk.Trunc([]byte(errs), 1500)
		return m
	}
	cls := c11crashClass(errs)
	switch {
	case how == "cpu-budget-exceeded" || strings.HasPrefix(how, "signal:"):
		rc.ViolateCase("toolchain-crash:wuffs-c:"+how, fmt.Sprintf("wuffs-c gen ended by %s on a package the checker accepts (%s %s)", how, c.kind, c.name), c.phase, c.idx, ex())
		return "wuffs-c-crash"
	case strings.HasPrefix(how, "start-failed"):
		rc.Inconclusive("C11: cannot run wuffs-c: " + how)
		return "io-error"
	case how != "ok" && cls != "":
		rc.ViolateCase("toolchain-crash:wuffs-c:"+cls, fmt.Sprintf("wuffs-c gen crashed (%s) on a package the checker accepts (%s %s): %s", how, c.kind, c.name, cls), c.phase, c.idx, ex())
		return "wuffs-c-crash"
	case how != "ok":
		rc.Count("wuffsc_ordinary_error", 1)
		return "cgen-error: " + c11errClass(strings.TrimSpace(strings.SplitN(errs, "\n", 2)[0]))
	}
	rc.Count("wuffsc_emitted_c", 1)
	rc.Max("max_emitted_c_bytes", int64(len(out)))
	h := c11sha(out)
	if c.pkg != nil && l.pristine[c.pkg.name] == h && c.phase != "orig" {
		rc.Count("emitted_c_same_as_unmutated", 1)
		return "emitted-same-as-unmutated"
	}
	if l.gccOK[h] {
		rc.Count("emitted_c_already_compiled", 1)
		return "emitted-compiled"
	}
	if !l.nocap && !always {
		if l.gccLeft[c.phase] <= 0 {
			rc.Count("gcc_skipped_over_budget", 1)
			return "emitted-not-compiled"
		}
		l.gccLeft[c.phase]--
	}
	c11setStage("gcc")
	gccArgs := []string{"gcc", "-fsyntax-only", "-w", "-DWUFFS_IMPLEMENTATION", "-x", "c", "-"}
	_, gerr, ghow := c11exec(filepath.Join(l.root, "gen", "c"), out, 1<<16, gccArgs...)
	rc.Count("gcc_runs", 1)
	if ghow != "ok" {
		// gen/c holds a precompiled wuffs-base.c; confirm without it.
		if st, err := os.Stat(filepath.Join(l.root, "gen", "cnopch", "wuffs-base.c")); err == nil && !st.IsDir() {
			_, gerr2, ghow2 := c11exec(filepath.Join(l.root, "gen", "cnopch"), out, 1<<16, gccArgs...)
			rc.Count("gcc_confirm_runs", 1)
			if ghow2 == "ok" {
				rc.Inconclusive(fmt.Sprintf("C11: gcc rejects an emitted file with the precompiled base header (%s) but accepts it without", vk.Trunc([]byte(gerr), 200)))
				return "io-error"
			}
			gerr, ghow = gerr2, ghow2
		}
	}
	switch {
	case ghow == "ok":
		l.gccOK[h] = true
		rc.Count("gcc_accepted", 1)
		if c.pkg != nil && l.pristine[c.pkg.name] != h {
			rc.Count("gcc_accepted_c_that_differs_from_unmutated", 1)
		}
		return "emitted-compiled"
	case strings.HasPrefix(ghow, "exit:") && strings.Contains(gerr, "error"):
		gc := c11gccClass(gerr, out)
		m := ex()
		m["gcc_stderr_head"] = vk.Trunc([]byte(gerr), 1500)
		if c.cause != "" {
			// One signature for the whole feature, whatever gcc trips over first.
			m["gcc_error_class"] = gc
			gc = c.cause
		}
		rc.ViolateCase("emitted-c-rejected:"+gc, fmt.Sprintf("gcc rejects the C that wuffs-c emitted for an accepted package (%s %s): %s", c.kind, c.name, gc), c.phase, c.idx, m)
		return "emitted-rejected"
	}
	rc.Inconclusive(fmt.Sprintf("C11: gcc ended with %s: %s", ghow, vk.Trunc([]byte(gerr), 300)))
	return "io-error"
}

type c11env struct {
	rc    *vk.Rec
	corp  *c11corpus
	leg2  *c11leg2
	useMu sync.Mutex
	uses  map[string][]byte
	nrun  int

	cpuFlushed time.Duration
}

func (e *c11env) resolveUse(usePath string) ([]byte, error) {
	if b, ok := e.uses[usePath]; ok {
		return b, nil
	}
	root := ""
	if e.leg2 != nil {
		root = e.leg2.root
	}
	b, err := os.ReadFile(filepath.Join(root, "gen", "wuffs", filepath.FromSlash(usePath)))
	if err != nil {
		return nil, err
	}
	e.uses[usePath] = b
	return b, nil
}

var c11fmtOpts = &parse.Options{AllowDoubleUnderscoreNames: true}

// exec runs one text through every stage and records its class.
func (e *c11env) exec(c *c11case, alwaysLeg2 bool) (reached string) {
	rc := e.rc
	if len(c.src) > c11maxSrc && c.family != "mega" {
		c.src = c.src[:c11maxSrc]
		c.desc += " (cut to the size bound)"
	}
	rc.Mark(c.phase, c.idx)
	c11wd.mu.Lock()
	c11wd.rc, c11wd.c, c11wd.cpu0, c11wd.active, c11wd.stage = rc, c, c11cpuNow(), true, "tokenize"
	c11wd.mu.Unlock()
	defer func() {
		c11wd.mu.Lock()
		used := c11cpuNow() - c11wd.cpu0
		rc.Max("max_case_cpu_ms", int64(used/time.Millisecond))
		if used > 2*time.Second {
			rc.Count("slow_case_over_2s_cpu:"+c.kind, 1)
			fmt.Fprintf(os.Stderr, "c11: slow case %s %d %s %s: %v (%d bytes) %s\n", c.phase, c.idx, c.kind, c.name, used, len(c.src), c.desc)
		}
		c11wd.active = false
		c11wd.mu.Unlock()
		e.nrun++
		if e.nrun%400 == 0 {
			rc.Finish()
		}
	}()
	rc.Eval(1)
	rc.Count("texts_"+c.family, 1)
	rc.Count("kind_"+c.kind, 1)
	class := func(stage, cls string) string {
		rc.Class(stage + "|" + cls + "|" + c.family)
		rc.Count("reached_"+stage, 1)
		return stage
	}
	viol := func(sig, what string) {
		rc.ViolateCase(sig, fmt.Sprintf("%s panicked on a %d-byte text (%s of %s): %s", strings.SplitN(sig, ":", 3)[1], len(c.src), c.kind, c.name, what), c.phase, c.idx, c.extra())
	}

	tm := &t.Map{}
	var toks []t.Token
	var cmts []string
	var err error
	if sig, what := c11stage("tokenize", func() { toks, cmts, err = t.Tokenize(tm, c.name, c.src) }); sig != "" {
		viol(sig, what)
		return class("tokenize", "PANIC")
	}
	if err != nil {
		return class("tokenize", c11errClass(err.Error()))
	}
	var file *a.File
	if sig, what := c11stage("parse", func() { file, err = parse.Parse(tm, c.name, toks, nil) }); sig != "" {
		viol(sig, what)
		return class("parse", "PANIC")
	}
	perr := err
	fmtParses := perr == nil
	if perr != nil && strings.Contains(perr.Error(), "double-underscore") {
		// cmd/wuffsfmt parses with AllowDoubleUnderscoreNames.
		var ferr error
		if sig, what := c11stage("parse", func() { _, ferr = parse.Parse(tm, c.name, toks, c11fmtOpts) }); sig != "" {
			viol(sig, what)
			return class("parse", "PANIC")
		}
		fmtParses = ferr == nil
	}
	if fmtParses {
		var rerr error
		var buf bytes.Buffer
		if sig, what := c11stage("render", func() { rerr = render.Render(&buf, tm, toks, cmts) }); sig != "" {
			viol(sig, what)
			return class("render", "PANIC")
		}
		rc.Count("rendered", 1)
		if rerr != nil {
			rc.Class("render|" + c11errClass(rerr.Error()) + "|" + c.family)
		}
	}
	if perr != nil {
		return class("parse", c11errClass(perr.Error()))
	}
	// The other files of the package, as lang/generate.ParseFiles reads them.
	var files []*a.File
	if c.pkg != nil {
		for i, f := range c.pkg.files {
			if i == c.fidx {
				files = append(files, file)
				continue
			}
			var of *a.File
			var oerr error
			if sig, what := c11stage("parse-siblings", func() {
				ot, _, e1 := t.Tokenize(tm, f.rel, f.src)
				if e1 != nil {
					oerr = e1
					return
				}
				of, oerr = parse.Parse(tm, f.rel, ot, nil)
			}); sig != "" {
				viol(sig, what)
				return class("parse", "PANIC")
			}
			if oerr != nil {
				// An unmutated std file that does not parse (possible only
				// after the mutant exhausted the token map): counted.
				return class("parse", "sibling: "+c11errClass(oerr.Error()))
			}
			files = append(files, of)
		}
		if c.fidx < 0 {
			files = append(files, file)
		}
	} else {
		files = []*a.File{file}
	}
	if sig, what := c11stage("check", func() { _, err = check.Check(tm, files, e.resolveUse) }); sig != "" {
		viol(sig, what)
		return class("check", "PANIC")
	}
	if err != nil {
		return class("check", c11errClass(err.Error()))
	}
	rc.Count("accepted_"+c.family, 1)
	for _, f := range files {
		for _, n := range f.TopLevelDecls() {
			if n.Kind() == a.KStruct && !n.AsStruct().Classy() {
				c.cause = "non-classy-struct"
			}
		}
	}
	if c.cause != "" {
		rc.Count("accepted_with_"+c.cause, 1)
	}
	out := "no-leg2"
	if e.leg2 != nil {
		out = e.leg2.run(c, alwaysLeg2)
	}
	return class("accept", out)
}

// ---------------------------------------------------------------- mutators

func c11pick(r *rand.Rand, xs []string) string { return xs[r.Intn(len(xs))] }

func (cp *c11corpus) randTok(r *rand.Rand, kind byte) string {
	p := cp.pools[kind]
	if len(p) == 0 {
		return "x"
	}
	return p[r.Intn(len(p))]
}

func (cp *c11corpus) otherKind(r *rand.Rand, not byte) byte {
	for {
		k := cp.kinds[r.Intn(len(cp.kinds))]
		if k != not {
			return k
		}
	}
}

func c11kindName(k byte) string {
	switch k {
	case 'k':
		return "keyword"
	case 'i':
		return "ident"
	case 'b':
		return "builtin"
	case 'n':
		return "number"
	case 's':
		return "string"
	case 'o':
		return "operator"
	case '=':
		return "assign"
	case '(':
		return "open"
	case ')':
		return "close"
	case ';':
		return "semicolon"
	}
	return "punct"
}

func c11splice(toks []c11tokn, lo, hi int, repl []c11tokn) []c11tokn {
	out := make([]c11tokn, 0, len(toks)-(hi-lo)+len(repl))
	out = append(out, toks[:lo]...)
	out = append(out, repl...)
	return append(out, toks[hi:]...)
}

// posIn picks a token index, preferring function bodies.
func (f *c11file) posIn(r *rand.Rand) int {
	n := len(f.toks)
	for try := 0; try < 4; try++ {
		i := r.Intn(n)
		if f.depth[i] > 0 || r.Intn(4) == 0 {
			return i
		}
	}
	return r.Intn(n)
}

// mutTok applies 1..5 token-level edits.
func (cp *c11corpus) mutTok(r *rand.Rand, f *c11file) ([]byte, string, string) {
	toks := append([]c11tokn(nil), f.toks...)
	nops := 1
	switch p := r.Intn(10); {
	case p >= 9:
		nops = 3 + r.Intn(3)
	case p >= 7:
		nops = 2
	}
	kind, desc := "", ""
	for k := 0; k < nops && len(toks) > 2; k++ {
		i := r.Intn(len(toks))
		if len(toks) == len(f.toks) {
			i = f.posIn(r)
		}
		old := toks[i]
		op := ""
		switch p := r.Intn(100); {
		case p < 14:
			op = "del"
			g := old.gap
			toks = c11splice(toks, i, i+1, nil)
			if i < len(toks) {
				toks[i].gap = g + toks[i].gap
			}
		case p < 24:
			op = "dup"
			toks = c11splice(toks, i+1, i+1, []c11tokn{{gap: " ", text: old.text, kind: old.kind}})
		case p < 32:
			op = "swap-adjacent"
			if i+1 < len(toks) {
				toks[i].text, toks[i+1].text = toks[i+1].text, toks[i].text
				toks[i].kind, toks[i+1].kind = toks[i+1].kind, toks[i].kind
			}
		case p < 38:
			op = "swap-far"
			j := r.Intn(len(toks))
			toks[i].text, toks[j].text = toks[j].text, toks[i].text
			toks[i].kind, toks[j].kind = toks[j].kind, toks[i].kind
		case p < 66:
			nk := cp.otherKind(r, old.kind)
			op = "repl-" + c11kindName(old.kind) + "-by-" + c11kindName(nk)
			toks[i].text, toks[i].kind = " "+cp.randTok(r, nk)+" ", nk
		case p < 92:
			op = "same-" + c11kindName(old.kind)
			nt := cp.randTok(r, old.kind)
			if old.kind == 'i' && r.Intn(3) > 0 {
				// another identifier of the same file
				for try := 0; try < 20; try++ {
					if x := f.toks[r.Intn(len(f.toks))]; x.kind == 'i' {
						nt = x.text
						break
					}
				}
			}
			toks[i].text = " " + nt + " "
		default:
			nk := cp.kinds[r.Intn(len(cp.kinds))]
			op = "ins-" + c11kindName(nk)
			toks = c11splice(toks, i, i, []c11tokn{{gap: old.gap, text: cp.randTok(r, nk) + " ", kind: nk}})
			toks[i+1].gap = ""
		}
		if k == 0 {
			kind = "tok-" + op
		} else {
			kind = "tok-multi"
		}
		desc += fmt.Sprintf("%s@%d(%q) ", op, i, old.text)
	}
	return c11emit(toks, f.tail), kind, desc
}

func c11mutLine(r *rand.Rand, f *c11file) ([]byte, string, string) {
	lines := strings.SplitAfter(string(f.src), "\n")
	n := len(lines)
	a0 := r.Intn(n)
	w := 1
	if r.Intn(3) == 0 {
		w = 1 + r.Intn(6)
	}
	b0 := a0 + w
	if b0 > n {
		b0 = n
	}
	var out []string
	kind := ""
	switch r.Intn(4) {
	case 0:
		kind = "line-del"
		out = append(append(out, lines[:a0]...), lines[b0:]...)
	case 1:
		kind = "line-dup"
		out = append(append(append(out, lines[:b0]...), lines[a0:b0]...), lines[b0:]...)
	case 2:
		kind = "line-move"
		rest := append(append([]string(nil), lines[:a0]...), lines[b0:]...)
		d := r.Intn(len(rest) + 1)
		if r.Intn(2) == 0 { // nearby
			d = a0 + r.Intn(21) - 10
			if d < 0 {
				d = 0
			}
			if d > len(rest) {
				d = len(rest)
			}
		}
		out = append(append(append(out, rest[:d]...), lines[a0:b0]...), rest[d:]...)
	default:
		kind = "line-swap"
		c0 := r.Intn(n)
		out = append(out, lines...)
		out[a0], out[c0] = out[c0], out[a0]
	}
	return []byte(strings.Join(out, "")), kind, fmt.Sprintf("lines [%d,%d)", a0+1, b0+1)
}

func (f *c11file) randGroup(r *rand.Rand, open string) (int, int, bool) {
	for try := 0; try < 40; try++ {
		i := r.Intn(len(f.toks))
		if f.toks[i].kind == '(' && f.match[i] >= 0 && (open == "" || f.toks[i].text == open) {
			return i, int(f.match[i]), true
		}
	}
	return 0, 0, false
}

// mutTree moves, copies, empties or exchanges balanced bracket groups, and
// splices whole functions between files.
func (cp *c11corpus) mutTree(r *rand.Rand, f *c11file) ([]byte, string, string) {
	toks := f.toks
	switch p := r.Intn(100); {
	case p < 18: // cut a group, paste it over another group of the same bracket
		i, j, ok := f.randGroup(r, "")
		if !ok {
			break
		}
		k, l, ok2 := f.randGroup(r, toks[i].text)
		if !ok2 || !(l < i || j < k) {
			break
		}
		grp := append([]c11tokn(nil), toks[i:j+1]...)
		var out []c11tokn
		if l < i {
			out = c11splice(toks, i, j+1, nil)
			out = c11splice(out, k, l+1, grp)
		} else {
			out = c11splice(toks, k, l+1, grp)
			out = c11splice(out, i, j+1, nil)
		}
		return c11emit(out, f.tail), "tree-cut-paste-over", fmt.Sprintf("group %d..%d over %d..%d", i, j, k, l)
	case p < 30: // cut a group, insert it somewhere else
		i, j, ok := f.randGroup(r, "")
		if !ok {
			break
		}
		grp := append([]c11tokn(nil), toks[i:j+1]...)
		out := c11splice(toks, i, j+1, nil)
		d := r.Intn(len(out) + 1)
		grp[0].gap = " "
		out = c11splice(out, d, d, grp)
		return c11emit(out, f.tail), "tree-cut-insert", fmt.Sprintf("group %d..%d to %d", i, j, d)
	case p < 42: // copy a group over another one
		i, j, ok := f.randGroup(r, "")
		if !ok {
			break
		}
		k, l, ok2 := f.randGroup(r, toks[i].text)
		if !ok2 {
			break
		}
		out := c11splice(toks, k, l+1, append([]c11tokn(nil), toks[i:j+1]...))
		return c11emit(out, f.tail), "tree-copy-over", fmt.Sprintf("group %d..%d over %d..%d", i, j, k, l)
	case p < 54: // empty a group
		i, j, ok := f.randGroup(r, "")
		if !ok {
			break
		}
		out := c11splice(toks, i+1, j, nil)
		return c11emit(out, f.tail), "tree-empty-" + toks[i].text, fmt.Sprintf("group %d..%d", i, j)
	case p < 62: // drop the brackets, keep the content
		i, j, ok := f.randGroup(r, "")
		if !ok {
			break
		}
		out := c11splice(toks, j, j+1, nil)
		out = c11splice(out, i, i+1, nil)
		return c11emit(out, f.tail), "tree-unwrap-" + toks[i].text, fmt.Sprintf("group %d..%d", i, j)
	case p < 70: // exchange the bodies of two functions
		if len(f.funcs) < 2 {
			break
		}
		d1 := f.decls[f.funcs[r.Intn(len(f.funcs))]]
		d2 := f.decls[f.funcs[r.Intn(len(f.funcs))]]
		b1o, b2o := c11bodyOf(f, d1), c11bodyOf(f, d2)
		if b1o < 0 || b2o < 0 || b1o == b2o {
			break
		}
		if b2o < b1o {
			b1o, b2o = b2o, b1o
		}
		b1c, b2c := int(f.match[b1o]), int(f.match[b2o])
		if b1c > b2o {
			break
		}
		g1 := append([]c11tokn(nil), toks[b1o:b1c+1]...)
		g2 := append([]c11tokn(nil), toks[b2o:b2c+1]...)
		out := c11splice(toks, b2o, b2c+1, g1)
		out = c11splice(out, b1o, b1c+1, g2)
		return c11emit(out, f.tail), "tree-swap-bodies", fmt.Sprintf("bodies at %d and %d", b1o, b2o)
	case p < 76: // delete a declaration
		if len(f.decls) == 0 {
			break
		}
		d := f.decls[r.Intn(len(f.decls))]
		out := c11splice(toks, d[0], d[1], nil)
		return c11emit(out, f.tail), "tree-del-decl", fmt.Sprintf("decl %d..%d (%s %s)", d[0], d[1], toks[d[0]].text, toks[d[0]+1].text)
	case p < 82: // duplicate a declaration
		if len(f.decls) == 0 {
			break
		}
		d := f.decls[r.Intn(len(f.decls))]
		out := c11splice(toks, d[1], d[1], append([]c11tokn(nil), toks[d[0]:d[1]]...))
		return c11emit(out, f.tail), "tree-dup-decl", fmt.Sprintf("decl %d..%d", d[0], d[1])
	}
	// splice a function of another file in (added, or over one of ours)
	var donor *c11file
	for try := 0; try < 30; try++ {
		donor = cp.files[r.Intn(len(cp.files))]
		if r.Intn(2) == 0 {
			donor = f.pkg.files[r.Intn(len(f.pkg.files))]
		}
		if len(donor.funcs) > 0 && donor != f {
			break
		}
	}
	if donor == nil || len(donor.funcs) == 0 {
		return cp.mutTok(r, f)
	}
	dd := donor.decls[donor.funcs[r.Intn(len(donor.funcs))]]
	fn := append([]c11tokn(nil), donor.toks[dd[0]:dd[1]]...)
	fn[0].gap = "\n\n"
	if len(f.funcs) > 0 && r.Intn(2) == 0 {
		d := f.decls[f.funcs[r.Intn(len(f.funcs))]]
		out := c11splice(toks, d[0], d[1], fn)
		return c11emit(out, f.tail), "tree-splice-func-over", fmt.Sprintf("%s decl %d..%d over %d..%d", donor.rel, dd[0], dd[1], d[0], d[1])
	}
	out := c11splice(toks, len(toks), len(toks), fn)
	return append(c11emit(out, f.tail), '\n'), "tree-splice-func-add", fmt.Sprintf("%s decl %d..%d appended", donor.rel, dd[0], dd[1])
}

// c11bodyOf returns the index of the "{" that opens the body of a function
// declaration, or -1.
func c11bodyOf(f *c11file, d [2]int) int {
	for i := d[1] - 1; i > d[0]; i-- {
		if f.toks[i].text == "}" && f.match[i] >= 0 && f.depth[f.match[i]] == 0 {
			return int(f.match[i])
		}
	}
	return -1
}

var c11depths = []int{a.MaxTypeExprDepth - 1, a.MaxTypeExprDepth, a.MaxTypeExprDepth + 1, a.MaxTypeExprDepth + 2, 2 * a.MaxTypeExprDepth, 10 * a.MaxTypeExprDepth,
	a.MaxExprDepth - 2, a.MaxExprDepth - 1, a.MaxExprDepth, a.MaxExprDepth + 1, a.MaxExprDepth + 2, 2 * a.MaxExprDepth, 10 * a.MaxExprDepth}

func c11depth(r *rand.Rand) int {
	if r.Intn(4) == 0 {
		return 1 + r.Intn(40)
	}
	return c11depths[r.Intn(len(c11depths))]
}

func c11rep(s string, n int) string { return strings.Repeat(s, n) }

var c11wrapKinds = []string{"paren", "neg", "not", "negparen", "bin-right", "bin-left", "index", "call", "selector", "callchain", "slicechain", "as", "assoc", "mixed"}

// c11wrapExpr nests x inside n levels of an expression form.
func c11wrapExpr(r *rand.Rand, x string, n int) (string, string) {
	k := c11wrapKinds[r.Intn(len(c11wrapKinds))]
	op := c11pick(r, []string{"+", "-", "*", "&", "|", "^", "~mod+", "~sat+", "<<", ">>", "/", "%", "==", "<", "and", "or"})
	switch k {
	case "paren":
		return c11rep("(", n) + x + c11rep(")", n), k
	case "neg":
		return c11rep("- ", n) + x, k
	case "not":
		return c11rep("not ", n) + x, k
	case "negparen":
		return c11rep("-(", n) + x + c11rep(")", n), k
	case "bin-right":
		return c11rep("("+x+" "+op+" ", n) + x + c11rep(")", n), k
	case "bin-left":
		return c11rep("(", n) + x + c11rep(" "+op+" "+x+")", n), k
	case "index":
		return c11rep("args.data[", n) + x + c11rep("]", n), k
	case "call":
		return c11rep("this.f(a: ", n) + x + c11rep(")", n), k
	case "selector":
		return "this" + c11rep(".x", n), k
	case "callchain":
		return "args.data" + c11rep(".length()", n), k
	case "slicechain":
		return "args.data" + c11rep("[..]", n) + ".length()", k
	case "as":
		return c11rep("(", n) + x + c11rep(" as base.u32)", n), k
	case "assoc":
		return x + c11rep(" "+op+" "+x, n), k
	}
	s := x
	for i := 0; i < n; i++ {
		switch r.Intn(6) {
		case 0:
			s = "(" + s + ")"
		case 1:
			s = "-(" + s + ")"
		case 2:
			s = "(" + s + " " + op + " 1)"
		case 3:
			s = "(1 " + op + " " + s + ")"
		case 4:
			s = "args.data[" + s + "]"
		default:
			s = "(" + s + " as base.u32)"
		}
	}
	return s, k
}

func c11wrapType(r *rand.Rand, n int) (string, string) {
	k := c11pick(r, []string{"array", "slice", "ptr", "nptr", "table", "roarray", "roslice", "mixed", "arraylen"})
	inner := c11pick(r, []string{"base.u8", "base.u32", "base.bool", "foo", "base.io_reader", "base.u8[..= 3]"})
	switch k {
	case "array":
		return c11rep("array[2] ", n) + inner, k
	case "roarray":
		return c11rep("roarray[1] ", n) + inner, k
	case "mixed":
		s := ""
		for i := 0; i < n; i++ {
			s += c11pick(r, []string{"array[1] ", "slice ", "ptr ", "nptr ", "table ", "roslice ", "rotable ", "roarray[3] "})
		}
		return s + inner, k
	case "arraylen":
		e, _ := c11wrapExpr(r, "1", n)
		return "array[" + e + "] " + inner, k
	}
	return c11rep(k+" ", n) + inner, k
}

const c11prelude = `pub status "#bad"
pub status "$short"

pri const ONE : base.u32 = 1

pub struct foo?(
        x : base.u32,
        y : base.u8[..= 7],
        a : array[8] base.u8,
)

pri func foo.f(a: base.u32) base.u32 {
    return args.a
}
`

const c11defaultSig = "pub func foo.bar!(src: base.io_reader, data: slice base.u8)"

func c11fn(sig, body string) string {
	if sig == "" {
		sig = c11defaultSig
	}
	if sig == c11defaultSig {
		body = "    var it : slice base.u8\n" + body
	}
	return c11prelude + "\n" + sig + " {\n" + body + "\n}\n"
}

// c11wrapBlock nests body inside n levels of statement blocks.
func c11wrapBlock(r *rand.Rand, body string, n int) (string, string) {
	k := c11pick(r, []string{"if", "while", "while-label", "iterate", "io_bind", "io_limit", "else-if-chain", "if-else", "mixed", "doublecurly"})
	open := func(kk string, i int) (string, string) {
		switch kk {
		case "if":
			return "if true {\n", "}\n"
		case "if-else":
			return "if this.x > 0 {\n} else {\n", "}\n"
		case "while":
			return "while true {\n", "}\n"
		case "while-label":
			l := fmt.Sprintf("l%d", i)
			return "while." + l + " true {\n", "}." + l + "\n"
		case "iterate":
			return "iterate (it = args.data)(length: 1, advance: 1, unroll: 1) {\n", "}\n"
		case "io_bind":
			return "io_bind (io: args.src, data: args.data, history_position: 0) {\n", "}\n"
		case "io_limit":
			return "io_limit (io: args.src, limit: 1) {\n", "}\n"
		case "doublecurly":
			return "while true {{\n", "break\n}}\n"
		}
		return "if true {\n", "}\n"
	}
	if k == "else-if-chain" {
		s := "if this.x == 0 {\n" + body + "}"
		for i := 0; i < n; i++ {
			s += fmt.Sprintf(" else if this.x == %d {\n}", i+1)
		}
		return s + "\n", k
	}
	pre, post := "", ""
	kinds := []string{"if", "if-else", "while", "while-label", "iterate", "io_bind", "io_limit"}
	for i := 0; i < n; i++ {
		kk := k
		if k == "mixed" {
			kk = kinds[r.Intn(len(kinds))]
		}
		o, c := open(kk, i)
		pre += o
		post = c + post
	}
	return pre + body + post, k
}

// synthDeep builds a whole file around one deeply nested construct.
func c11synthDeep(r *rand.Rand) (string, string, string) {
	n := c11depth(r)
	switch p := r.Intn(100); {
	case p < 30:
		x := c11pick(r, []string{"1", "this.x", "args.data.length()", "ONE", "s"})
		e, k := c11wrapExpr(r, x, n)
		body := "    var s : base.u32\n    var t : base.u64\n"
		switch r.Intn(6) {
		case 0:
			body += "    s = " + e + "\n"
		case 1:
			body += "    if " + e + " {\n    }\n"
		case 2:
			body += "    while " + e + " {\n    }\n"
		case 3:
			body += "    assert " + e + "\n"
		case 4:
			body += "    this.a[" + e + "] = 0\n"
		default:
			body += "    t = (" + e + ") as base.u64\n"
		}
		return c11fn("", body), "deep-expr-" + k, fmt.Sprintf("depth %d", n)
	case p < 40:
		e, k := c11wrapExpr(r, "1", n)
		return c11prelude + "\npri const DEEP : base.u32 = " + e + "\n", "deep-const-expr-" + k, fmt.Sprintf("depth %d", n)
	case p < 48:
		return c11prelude + "\npri const DEEP : " + c11rep("array[1] ", n) + "base.u8 = " + c11rep("[", n) + "1" + c11rep("]", n) + "\n", "deep-const-list", fmt.Sprintf("depth %d", n)
	case p < 70:
		ty, k := c11wrapType(r, n)
		switch r.Intn(5) {
		case 0:
			return c11fn("", "    var v : "+ty+"\n"), "deep-type-var-" + k, fmt.Sprintf("depth %d", n)
		case 1:
			return c11fn("pub func foo.bar!(v: "+ty+")", ""), "deep-type-arg-" + k, fmt.Sprintf("depth %d", n)
		case 2:
			return c11prelude + "\npub struct baz?(\n    v : " + ty + ",\n)\n", "deep-type-field-" + k, fmt.Sprintf("depth %d", n)
		case 3:
			return c11fn("pub func foo.bar!() "+ty, "    return 0\n"), "deep-type-out-" + k, fmt.Sprintf("depth %d", n)
		}
		return c11fn("", "    var s : base.u32\n    s = 1 as "+ty+"\n"), "deep-type-as-" + k, fmt.Sprintf("depth %d", n)
	}
	inner := c11pick(r, []string{"", "this.x = 1\n", "return nothing\n", "break\n", "continue\n", "assert true\n", "args.src.skip_u32_fast!(actual: 0, worst_case: 0)\n"})
	b, k := c11wrapBlock(r, inner, n)
	sig := ""
	if r.Intn(4) == 0 {
		sig = "pub func foo.bar?(src: base.io_reader, data: slice base.u8)"
		b = "    var it : slice base.u8\n" + b
	}
	return c11fn(sig, b), "deep-block-" + k, fmt.Sprintf("depth %d", n)
}

// deepInSitu nests one operand of a real function.
func (cp *c11corpus) deepInSitu(r *rand.Rand, f *c11file) ([]byte, string, string, bool) {
	for try := 0; try < 60; try++ {
		i := r.Intn(len(f.toks))
		if f.depth[i] == 0 || (f.toks[i].kind != 'n' && f.toks[i].kind != 'i') {
			continue
		}
		if i == 0 || (f.toks[i-1].kind != 'o' && f.toks[i-1].kind != '=' && f.toks[i-1].text != "(" && f.toks[i-1].text != ":" && f.toks[i-1].text != "[") {
			continue
		}
		if f.toks[i].kind == 'i' && i+1 < len(f.toks) && (f.toks[i+1].text == "." || f.toks[i+1].text == "(" || f.toks[i+1].text == ":") {
			continue
		}
		n := c11depth(r)
		e, k := c11wrapExpr(r, f.toks[i].text, n)
		toks := append([]c11tokn(nil), f.toks...)
		toks[i].text = e
		return c11emit(toks, f.tail), "deep-insitu-" + k, fmt.Sprintf("token %d (%q) nested %d deep", i, f.toks[i].text, n), true
	}
	return nil, "", "", false
}

// litInSitu replaces a literal / identifier of a real file by an extreme one.
func (cp *c11corpus) litInSitu(r *rand.Rand, f *c11file) ([]byte, string, string, bool) {
	for try := 0; try < 60; try++ {
		i := r.Intn(len(f.toks))
		tk := f.toks[i]
		nt, k := "", ""
		switch tk.kind {
		case 'n':
			nt, k = c11hugeNum(r)
		case 'i':
			k = "long-ident"
			nt = c11rep("q", c11pickInt(r, []int{200, 1022, 1023, 1024, 1025, 5000}))
			if r.Intn(2) == 0 {
				// every occurrence
				toks := append([]c11tokn(nil), f.toks...)
				for j := range toks {
					if toks[j].kind == 'i' && toks[j].text == tk.text {
						toks[j].text = nt
					}
				}
				return c11emit(toks, f.tail), "lit-long-ident-all", fmt.Sprintf("identifier %q -> %d chars", tk.text, len(nt)), true
			}
		case 's':
			k = "long-string"
			q := tk.text[:1]
			nt = q + "#" + c11rep("z", c11pickInt(r, []int{300, 1019, 1020, 1021, 1022, 4000})) + q
		default:
			continue
		}
		toks := append([]c11tokn(nil), f.toks...)
		toks[i].text = nt
		return c11emit(toks, f.tail), "lit-" + k, fmt.Sprintf("token %d (%q) -> %d chars", i, tk.text, len(nt)), true
	}
	return nil, "", "", false
}

func c11pickInt(r *rand.Rand, xs []int) int { return xs[r.Intn(len(xs))] }

func c11hugeNum(r *rand.Rand) (string, string) {
	n := c11pickInt(r, []int{19, 20, 21, 39, 40, 78, 300, 1021, 1022, 1023, 1024, 3000})
	switch r.Intn(5) {
	case 0:
		return "0x" + c11rep("F", n), "huge-hex"
	case 1:
		return "0b" + c11rep("1", n), "huge-bin"
	case 2:
		return "1" + c11rep("_000", n/4), "huge-underscored"
	case 3:
		return c11pick(r, []string{"18446744073709551615", "18446744073709551616", "4294967296", "9223372036854775808", "340282366920938463463374607431768211456"}), "edge-of-range"
	}
	return c11rep("9", n), "huge-dec"
}

// synthLit builds whole files around extreme literals / widths.
func c11synthLit(r *rand.Rand) (string, string, string) {
	num, nk := c11hugeNum(r)
	w := c11pickInt(r, []int{10, 300, 3000})
	switch p := r.Intn(22); p {
	case 0:
		return c11fn("", "    var s : base.u64\n    s = "+num+"\n"), "lit-assign-" + nk, ""
	case 1:
		return c11prelude + "\npri const BIG : base.u64 = " + num + "\n", "lit-const-" + nk, ""
	case 2:
		return c11fn("", "    var s : array["+num+"] base.u8\n"), "lit-array-length-" + nk, ""
	case 3:
		return c11fn("", "    var s : base.u64[..= "+num+"]\n"), "lit-refinement-" + nk, ""
	case 4:
		op := c11pick(r, []string{"<<", ">>", "~mod<<", "*", "/", "%", "+", "-", "&", "|"})
		return c11fn("", "    var s : base.u64\n    s = 1 "+op+" "+num+"\n"), "lit-const-op-" + nk, op
	case 5:
		return c11fn("", "    var s : base.u64\n    s = (1 << "+c11pick(r, []string{"63", "64", "65", "255", "256", "65535", "65536", "1000000", "4294967296"})+") >> 2\n"), "lit-const-shift", ""
	case 6:
		return c11fn("", "    iterate (it = args.data)(length: "+num+", advance: 1, unroll: 1) {\n    }\n"), "lit-iterate-length-" + nk, ""
	case 7:
		return c11fn("", "    iterate (it = args.data)(length: 256, advance: "+c11pick(r, []string{"0", "1", "255", "256", "257", "0x10", "1_0"})+", unroll: "+c11pick(r, []string{"0", "1", "256", "257", "999"})+") {\n    }\n"), "lit-iterate-counts", ""
	case 8:
		return c11fn("", "    var s : base.u32\n    s = 1"+c11rep(" + 1", w*10)+"\n"), "wide-assoc-expr", fmt.Sprint(w * 10)
	case 9:
		return c11fn("", "    var s : base.u32\n    s = this.f(a: 1)\n"+c11rep("    s = this.f(a: s)\n", w)), "wide-statements", fmt.Sprint(w)
	case 10:
		s := ""
		for i := 0; i < w; i++ {
			s += fmt.Sprintf("    v%d : base.u8,\n", i)
		}
		return c11prelude + "\npub struct wide?(\n" + s + ")\n", "wide-fields", fmt.Sprint(w)
	case 11:
		s := ""
		for i := 0; i < w; i++ {
			s += fmt.Sprintf("    var v%d : base.u32\n", i)
		}
		return c11fn("", s), "wide-vars", fmt.Sprint(w)
	case 12:
		s := ""
		for i := 0; i < w; i++ {
			s += fmt.Sprintf("v%d: base.u8, ", i)
		}
		return c11fn("pub func foo.bar!("+s+")", ""), "wide-args", fmt.Sprint(w)
	case 13:
		s := ""
		for i := 0; i < w; i++ {
			s += fmt.Sprintf("pub status \"#e%d\"\n", i)
		}
		return c11prelude + s, "wide-statuses", fmt.Sprint(w)
	case 14:
		return c11prelude + "\npri const TAB : roarray[" + fmt.Sprint(w*10) + "] base.u8 = [" + c11rep("0, ", w*10) + "]\n", "wide-const-list", fmt.Sprint(w * 10)
	case 15:
		return c11fn("", "    // "+c11rep("long comment ", w*4)+"\n    this.x = 1  // "+c11rep("x", w*20)+"\n"), "long-comment", fmt.Sprint(w)
	case 16:
		id := c11rep("v", c11pickInt(r, []int{1022, 1023, 1024, 1025, 9000}))
		return c11fn("", "    var "+id+" : base.u32\n    "+id+" = 1\n"), "long-ident", fmt.Sprint(len(id))
	case 17:
		return c11prelude + "pub status \"#" + c11rep("s", c11pickInt(r, []int{1019, 1020, 1021, 1022, 5000})) + "\"\n", "long-status", ""
	case 18:
		s := ""
		for i := 0; i < w; i++ {
			s += ", inv true"
		}
		return c11fn("", "    while true"+s+" {\n    }\n"), "wide-asserts", fmt.Sprint(w)
	case 19:
		s := ""
		for i := 0; i < w; i++ {
			s += fmt.Sprintf("g%d, ", i)
		}
		return c11fn("", "    choose f = ["+s+"]\n"), "wide-choose", fmt.Sprint(w)
	case 20:
		return c11rep("\n", c11pickInt(r, []int{1000, 100000})) + c11prelude, "many-blank-lines", ""
	}
	s := ""
	for i := 0; i < w; i++ {
		s += fmt.Sprintf("pri const C%d : base.u32 = C%d\n", i, (i+1)%w)
	}
	return c11prelude + s, "const-cycle", fmt.Sprint(w)
}

func (cp *c11corpus) randBytes(r *rand.Rand) ([]byte, string, *c11file) {
	n := r.Intn(1 + []int{8, 64, 600, 6000}[r.Intn(4)])
	switch r.Intn(5) {
	case 0:
		b := make([]byte, n)
		r.Read(b)
		return b, "bytes-uniform", nil
	case 1:
		b := make([]byte, n)
		for i := range b {
			b[i] = byte(32 + r.Intn(95))
			if r.Intn(20) == 0 {
				b[i] = '\n'
			}
		}
		return b, "bytes-ascii", nil
	case 2: // a soup of real tokens
		var sb strings.Builder
		for sb.Len() < n {
			sb.WriteString(cp.randTok(r, cp.kinds[r.Intn(len(cp.kinds))]))
			sb.WriteString(c11pick(r, []string{" ", " ", " ", "\n", ""}))
		}
		return []byte(sb.String()), "bytes-token-soup", nil
	case 3: // damage a few bytes of a real file
		f := cp.files[r.Intn(len(cp.files))]
		b := append([]byte(nil), f.src...)
		for k := 1 + r.Intn(4); k > 0 && len(b) > 0; k-- {
			i := r.Intn(len(b))
			switch r.Intn(3) {
			case 0:
				b[i] = byte(r.Intn(256))
			case 1:
				b = append(b[:i], b[i+1:]...)
			default:
				b = append(b[:i], append([]byte{byte(r.Intn(256))}, b[i:]...)...)
			}
		}
		return b, "bytes-damage", f
	}
	// cut a real file at a random byte
	f := cp.files[r.Intn(len(cp.files))]
	return append([]byte(nil), f.src[:r.Intn(len(f.src)+1)]...), "bytes-cut", f
}

// ------------------------------------------------------------ edge sources

// c11edges are hand-written files: unusual-but-legal constructs, and the same
// with operands removed. "F:" entries are bodies of c11fn's default function.
var c11edges = []string{
	// the two defects named in the property text
	"F:    iterate (x)(length: 1, advance: 1, unroll: 1) {}",
	"S:pub func foo.bar(x: base.u32[..= 10]) base.u32 {\n    return 0\n}",
	// shapes the program generator of C01/C04 met: accepted programs whose emitted C did not compile
	"S:pub func foo.sat8(a: base.u8, b: base.u8) base.u8 {\n    return args.a ~sat+ args.b\n}",
	"S:pub func foo.sat16(a: base.u16, b: base.u16) base.u16 {\n    return args.a ~sat- args.b\n}",
	"S:pub func foo.sat32(a: base.u32, b: base.u32) base.u32 {\n    return args.a ~sat+ args.b\n}",
	"S:pub func foo.sat8eq!(a: base.u8) base.u8 {\n    var t : base.u8\n    t = 250\n    t ~sat+= args.a\n    t ~sat-= 3\n    return t\n}",
	"S:pub func foo.cp?(src: base.io_reader, dst: base.io_writer) {\n    this.x = args.dst.limited_copy_u32_from_reader!(up_to: 4, r: args.src)\n}",
	"S:pub func foo.cp2!(src: base.io_reader, dst: base.io_writer) {\n    this.x = args.dst.limited_copy_u32_from_reader!(up_to: 4, r: args.src)\n}",
	"S:pub func foo.w16?(dst: base.io_writer) {\n    args.dst.write_u16le?(a: 7)\n}",
	"S:pub func foo.w24?(dst: base.io_writer) {\n    args.dst.write_u24be?(a: 7)\n}",
	"S:pub func foo.w32?(dst: base.io_writer) {\n    args.dst.write_u32be?(a: 7)\n}",
	"S:pub func foo.w64?(dst: base.io_writer) {\n    args.dst.write_u64le?(a: 7)\n    args.dst.write_u8?(a: 7)\n}",
	"S:pub func foo.isz() base.bool {\n    return this.x == 0\n}",
	// non-coroutine functions with an I/O argument and a status / numeric result, leaving through every kind of return
	"S:pri func foo.helper!(src: base.io_reader) base.status {\n    var s : base.status\n    if args.src.length() > 0 {\n        args.src.skip_u32_fast!(actual: 1, worst_case: 1)\n        s = \"#bad\"\n    }\n    return s\n}\n\npub func foo.use?(src: base.io_reader) {\n    var s : base.status\n    s = this.helper!(src: args.src)\n    if s.is_error() {\n        return s\n    }\n}",
	"S:pri func foo.helper2!(src: base.io_reader) base.status {\n    if args.src.length() > 0 {\n        args.src.skip_u32_fast!(actual: 1, worst_case: 1)\n        return \"#bad\"\n    }\n    return \"@note\"\n}\n\npub status \"@note\"\n",
	"S:pri func foo.helper3!(dst: base.io_writer) base.status {\n    var s : base.status\n    if args.dst.length() > 0 {\n        args.dst.write_u8_fast!(a: 1)\n    }\n    s = base.\"#bad argument\"\n    return s\n}",
	"S:pri func foo.helper4!(src: base.io_reader) base.u32 {\n    var n : base.u32\n    if args.src.length() > 0 {\n        n = args.src.peek_u8_as_u32()\n        args.src.skip_u32_fast!(actual: 1, worst_case: 1)\n        return n\n    }\n    return n + 1\n}",
	// status messages that differ but map to the same C identifier
	"R:pub status \"#a b\"\npub status \"#a_b\"\npub struct foo?()\n",
	"R:pub status \"#a-b\"\npub status \"#a.b\"\npub struct foo?()\n",
	"R:pub status \"#too much\"\npub status \"#too  much\"\npub struct foo?()\n",
	"R:pub status \"#Ab\"\npub status \"#ab\"\npub struct foo?()\n",
	"R:pub status \"@x y\"\npub status \"#x y\"\npub status \"$x y\"\npub struct foo?()\n",
	"R:pri status \"#p q\"\npub status \"#p_q\"\npub struct foo?()\n",
	// labels reused by sequential and by nested loops
	"S:pub func foo.lab!() {\n    while.again this.x < 3 {\n        this.x += 1\n        if this.x == 2 {\n            break.again\n        }\n    }.again\n    while.again this.x < 9 {\n        this.x += 1\n        if this.x == 7 {\n            continue.again\n        }\n    }.again\n}",
	"S:pub func foo.lab2!() {\n    while.again this.x < 3 {\n        this.x += 1\n        while.again this.x < 2 {\n            this.x += 1\n            break.again\n        }.again\n    }.again\n}",
	// struct fields of struct type: declaration order and cycles, through 0..3 array levels
	"R:pub struct outer?(\n    c : inner,\n)\n\npub struct inner?(\n    x : base.u8,\n)\n",
	"R:pub struct outer?(\n    c : array[2] inner,\n)\n\npub struct inner?(\n    x : base.u8,\n)\n",
	"R:pub struct outer?(\n    c : array[2] array[3] inner,\n)\n\npub struct inner?(\n    x : base.u8,\n)\n",
	"R:pub struct outer?(\n    c : array[2] array[3] array[4] inner,\n)\n\npri struct inner?(\n    x : base.u8,\n)\n",
	"R:pub struct outer?(\n    c : array[2] array[3] mid,\n)\n\npri struct mid?(\n    d : array[2] array[2] inner,\n)\n\npri struct inner?(\n    x : base.u8,\n)\n",
	"R:pub struct foo?(\n    c : foo,\n)\n",
	"R:pub struct foo?(\n    c : array[2] foo,\n)\n",
	"R:pub struct foo?(\n    c : array[2] array[2] foo,\n)\n",
	"R:pub struct foo?(\n    c : array[2] array[2] array[2] foo,\n)\n",
	"R:pub struct a?(\n    c : array[2] array[2] b,\n)\n\npub struct b?(\n    d : array[1] array[1] a,\n)\n",
	"R:pub struct a?(\n    c : array[2] array[2] b,\n)\n\npub struct b?(\n    d : a,\n)\n",
	// iterate
	"F:    iterate ()(length: 1, advance: 1, unroll: 1) {\n    }",
	"F:    iterate (it = args.data)(length: 1, advance: 1, unroll: 1) {\n    }",
	"F:    iterate (it = args.data)(length: 4, advance: 2, unroll: 2) {\n    } else (length: 1, advance: 1, unroll: 1) {\n    }",
	"F:    iterate (it = args.data, it = args.data)(length: 1, advance: 1, unroll: 1) {\n    }",
	"F:    iterate (it = args.data)(length: 1, advance: 2, unroll: 1) {\n    }",
	"F:    iterate (it = args.data)() {\n    }",
	"F:    iterate (it = args.data)(length: 1, advance: 1, unroll: 1)",
	"F:    iterate (s)(length: 1, advance: 1, unroll: 1) {\n    }",
	"F:    iterate (1 = args.data)(length: 1, advance: 1, unroll: 1) {\n    }",
	"F:    iterate (this.x)(length: 1, advance: 1, unroll: 1) {\n    }",
	"F:    iterate (s = 1)(length: 1, advance: 1, unroll: 1) {\n    }",
	"F:    iterate.l (it = args.data)(length: 1, advance: 1, unroll: 1) {\n        break.l\n    }",
	"F:    iterate (it = args.data)(length: 8, advance: 8, unroll: 256) {\n        this.x = it.peek_u32le()\n    } else (length: 1, advance: 1, unroll: 1) {\n        this.y = it[0] & 7\n    }",
	"F:    while.outer true {\n        iterate (it = args.data)(length: 2, advance: 1, unroll: 2) {\n            this.a[0] = it[1]\n        }\n        break.outer\n    }.outer",
	// choose
	"F:    choose f = []",
	"F:    choose = [f]",
	"F:    choose f",
	"F:    choose f = [f]",
	"F:    choose f = [nosuch]",
	"F:    choose",
	"S:pri func foo.g!(),\n    choosy,\n{\n}\n\npri func foo.g_x!() {\n}\n\npub func foo.bar!() {\n    choose g = [g_x]\n    this.g!()\n}",
	"S:pri func foo.g!(),\n    choose cpu_arch >= x86_sse42,\n{\n}",
	"S:pri func foo.g!(),\n    choose,\n{\n}",
	"S:pri func foo.g!(),\n    choose true,\n{\n}",
	"S:pub func foo.g!(),\n    choosy,\n{\n}",
	// assert
	"F:    assert true via",
	"F:    assert true via \"a < b: a < c; c <= b\"",
	"F:    assert true via \"a < b: a < c; c <= b\"()",
	"F:    assert this.x < 5 via \"a < b: a < c; c <= b\"(c: 3)",
	"F:    assert via \"x\"()",
	"F:    assert",
	"F:    assert true via \"\"()",
	"F:    assert true via \"no such reason\"(a: 1)",
	"F:    assert false",
	"F:    assert this.x == this.x via \"a == a\"()",
	"F:    assert 1",
	"F:    assert args.src.read_u8?() == 0",
	"F:    while true,\n            inv,\n    {\n    }",
	"F:    while true,\n            post true,\n            pre true,\n    {\n    }",
	"F:    while this.x < 5,\n            inv this.x < 9,\n            post this.x >= 5,\n    {\n        this.x += 1\n    }",
	// structs with odd field lists
	"P:pub struct s0()",
	"P:pub struct s0?()",
	"P:pub struct s0(,)",
	"P:pub struct s0?(\n    x : base.u8,,\n)",
	"P:pub struct s0?(\n    x : base.u8,\n    x : base.u8,\n)",
	"P:pub struct s0? implements ()",
	"P:pub struct s0? implements base.hasher_u32()",
	"P:pub struct s0? implements base.hasher_u32, base.hasher_u32()",
	"P:pub struct s0? implements base.nosuch()",
	"P:pub struct s0?() + ()",
	"P:pub struct s0?() +",
	"P:pub struct s0?() + (\n    x : base.u8[..= 3],\n)",
	"P:pub struct s0?() + (\n    x : array[4] array[4] base.u32,\n    y : slice base.u8,\n)",
	"P:pub struct s0?(\n    x : s0,\n)",
	"P:pub struct s0?(\n    x : ptr s0,\n)",
	"P:pub struct s0?(\n    x : s1,\n)\npub struct s1?(\n    x : s0,\n)",
	"P:pub struct s0?(\n    x : array[0] base.u8,\n)",
	"P:pub struct s0?(\n    x : array[4294967296] base.u8,\n)",
	"P:pub struct s0?(\n    x : base.u8[5 ..= 3],\n)",
	"P:pub struct s0?(\n    x : base.u8[1 ..= 3],\n)",
	"P:pub struct s0?(\n    x : base.u8[..],\n)",
	"P:pub struct s0?(\n    x : base.u8[.. 3],\n)",
	"P:pub struct s0?(\n    x : foo,\n    r : base.io_reader,\n    t : table base.u8,\n    n : nptr foo,\n    u : base.utility,\n)",
	"P:pub struct s0?(\n    x : base.nosuch,\n)",
	"P:pub struct s0?(\n    x :\n)",
	"P:pub struct s0?(\n    : base.u8,\n)",
	"P:pub struct foo?()",
	"P:pub struct base?()",
	"P:pub struct initialize?(\n    reset : base.u8,\n)",
	"P:pub struct s__0?()",
	"P:pri struct s0(\n    x : base.u8,\n)\n\npub func s0.get() base.u8 {\n    return this.x\n}",
	// io_bind / io_limit / io_forget_history
	"F:    io_bind () {\n    }",
	"F:    io_bind (io: ) {\n    }",
	"F:    io_bind (io: args.src) {\n    }",
	"F:    io_bind (io: args.src, data: ) {\n    }",
	"F:    io_bind (io: args.src, data: args.data) {\n    }",
	"F:    io_bind (io: args.src, data: args.data, history_position: ) {\n    }",
	"F:    io_bind (io: args.src, data: args.data, history_position: 0)",
	"F:    io_bind (io: args.src, data: args.data, history_position: 0) {\n    }",
	"F:    io_bind (io: this.x, data: args.data, history_position: 0) {\n    }",
	"F:    io_bind (io: args.data, data: args.src, history_position: this) {\n    }",
	"F:    io_bind (data: args.data, io: args.src, history_position: 0) {\n    }",
	"F:    io_limit () {\n    }",
	"F:    io_limit (io: args.src, limit: ) {\n    }",
	"F:    io_limit (io: args.src) {\n    }",
	"F:    io_limit (io: args.src, limit: 1) {\n    }",
	"F:    io_limit (io: args.src, limit: 0xFFFF_FFFF_FFFF_FFFF_FF) {\n    }",
	"F:    io_limit (io: this.x, limit: 1) {\n    }",
	"F:    io_limit (io: args.src, limit: args.src) {\n    }",
	"F:    io_forget_history (io: args.src) {\n    }",
	"F:    io_forget_history (io: args.src, limit: 1) {\n    }",
	"F:    io_forget_history {\n    }",
	"F:    var r : base.io_reader\n    io_bind (io: r, data: args.data, history_position: 0) {\n        this.x = r.length() as base.u32\n    }",
	// return / yield / effects
	"F:    return 0",
	"F:    return",
	"F:    return nothing",
	"F:    return ok",
	"F:    return \"#bad\"",
	"F:    return \"$short\"",
	"F:    yield? base.\"$short read\"",
	"F:    yield",
	"S:pub func foo.bar!() base.u32 {\n}",
	"S:pub func foo.bar!() base.u32 {\n    return\n}",
	"S:pub func foo.bar!() base.u32 {\n    return ok\n}",
	"S:pub func foo.bar!() base.status {\n    return 0\n}",
	"S:pub func foo.bar!() base.status {\n    return \"#bad\"\n}",
	"S:pub func foo.bar!() base.status {\n    return \"$short\"\n}",
	"S:pub func foo.bar?() {\n    yield? \"$short\"\n    yield?\n}",
	"S:pub func foo.bar?() {\n    yield \"$short\"\n}",
	"S:pub func foo.bar?() base.u32 {\n    return 0\n}",
	"S:pub func foo.bar?() {\n    return \"#bad\"\n}",
	"S:pub func foo.bar?(src: base.io_reader) {\n    var c : base.u8\n    c = args.src.read_u8?()\n    return ok\n}",
	"S:pub func foo.bar!() {\n    this.baz?()\n}\npub func foo.baz?() {\n}",
	"S:pub func foo.bar() {\n    this.x = 1\n}",
	"S:pub func foo.bar!() ptr base.u32 {\n    return nullptr\n}",
	"S:pub func foo.bar!() slice base.u8 {\n    return this.a[..]\n}",
	"S:pub func foo.bar!(p: ptr foo) base.bool {\n    return true\n}",
	"S:pub func foo.bar!(w: base.io_writer) base.u64 {\n    return 0\n}",
	"S:pub func foo.bar!(x: base.u32[..= 10]) base.status {\n    return ok\n}",
	"S:pub func foo.bar!(x: base.u32[..= 10]) base.range_ii_u32 {\n    return this.util.make_range_ii_u32(min_incl: 0, max_incl: 0)\n}",
	"S:pub func foo.bar!(x: base.u8[3 ..= 10], y: base.u32[..= 4095], z: base.u64[1 ..]) {\n}",
	"S:pub func foo.bar!(x: array[4] base.u8, y: roslice base.u8, z: table base.u8) base.u8 {\n    return args.x[0]\n}",
	"S:pri func foo.bar!(x: base.u32[..= 10]) base.u32 {\n    return args.x\n}",
	// =? and call shapes
	"F:    var s : base.status\n    s =? 1",
	"F:    var s : base.status\n    s =? this.f(a: 1)",
	"F:    var s : base.status\n    s =?",
	"F:    =? this.f(a: 1)",
	"F:    var s : base.status\n    s =? args.src.read_u8?()",
	"S:pub func foo.bar?(src: base.io_reader) {\n    var s : base.status\n    s =? this.baz?(src: args.src)\n    return s\n}\npub func foo.baz?(src: base.io_reader) {\n}",
	"F:    this.f()",
	"F:    this.f(,)",
	"F:    this.f(a:)",
	"F:    this.f(: 1)",
	"F:    this.f(a: 1, a: 2)",
	"F:    this.f(b: 1)",
	"F:    this.f!(a: 1)",
	"F:    this.x = this.f(a: this.f(a: this.f(a: 1)))",
	"F:    f()",
	"F:    ()",
	"F:    1",
	"F:    this",
	"F:    this.x",
	"F:    1.f()",
	"F:    \"#bad\".f()",
	"F:    this.x = 'a'.f()",
	"F:    this.nosuch(a: 1)",
	"F:    this.x = this.f",
	"F:    this.x = args.data",
	"F:    this.x = args.data.length() as base.u32",
	"F:    this.x = (args.data.length() & 0xFFFF) as base.u32",
	"F:    this.x = args.src.nosuch()",
	"F:    args.src = args.src",
	"F:    args.data = args.data[1 ..]",
	"F:    this = this",
	"F:    1 = 1",
	"F:    this.x += this.x",
	"F:    this.x -= this.x",
	"F:    this.x = this.x + 1",
	"F:    this.x ~mod+= 1\n    this.x ~sat-= 2\n    this.x ~mod<<= 31",
	"F:    this.x <<= 32",
	"F:    this.x = 1 / 0",
	"F:    this.x = this.x / 0",
	"F:    this.x = this.x % 0",
	"F:    this.x = 1 << 64",
	"F:    this.x = 1 >> 9999999999",
	"F:    this.x = 1 - 2",
	"F:    this.x = -1",
	"F:    this.x = - - 1",
	"F:    this.x = not true",
	"F:    this.x = true as base.u32",
	"F:    this.x = 1 as base.bool",
	"F:    this.x = 1 as nosuch",
	"F:    this.x = 1 as",
	"F:    this.x = this.x as base.u8 as base.u32",
	"F:    this.x = 300 as base.u8",
	"F:    this.a[8] = 0",
	"F:    this.a[this.x] = 0",
	"F:    this.a[this.y] = 0",
	"F:    this.a[..] = this.a[..]",
	"F:    this.x = this.a[1 .. 0][0] as base.u32",
	"F:    this.x = this.a[..][..][..].length() as base.u32",
	"F:    this.x = this.a[.. 9].length() as base.u32",
	"F:    this.x = this.a[]",
	"F:    this.x = this.a[..",
	"F:    this.x = 'abcd'be",
	"F:    this.x = 'abcde'le",
	"F:    this.x = '\\x00\\xFF'be",
	"F:    this.x = ''",
	"F:    this.x = 0x",
	"F:    this.x = 0b2",
	"F:    this.x = 1__0",
	"F:    this.x = 1_",
	"F:    this.x = 017",
	// if / while / labels / jumps
	"F:    if true {\n    } else {\n    } else {\n    }",
	"F:    else {\n    }",
	"F:    if {\n    }",
	"F:    if true",
	"F:    if.likely true {\n    } else if.unlikely false {\n    }",
	"F:    if.often true {\n    }",
	"F:    if.likely {\n    }",
	"F:    if 1 {\n    }",
	"F:    if this.x {\n    }",
	"F:    while.a true {\n        while.a true {\n        }.a\n    }.a",
	"F:    while.a true {\n    }.b",
	"F:    while.a true {\n    }",
	"F:    while. true {\n    }",
	"F:    break",
	"F:    continue.a",
	"F:    while.a true {\n        while.b true {\n            break.a\n            continue.b\n        }.b\n    }.a",
	"F:    while true {{\n    }}",
	"F:    while true {{\n        break\n    }}",
	"F:    while true {{\n        continue\n    }}",
	"F:    while this.x > 0 {{\n        break\n    }}",
	"F:    while true {{\n        return nothing\n    }}\n    this.x = 1",
	"F:    while true {\n    }\n    this.x = 1",
	"F:    while\n    {\n    }",
	"F:    {\n    }",
	"F:    }",
	"F:    {{",
	// var placement
	"F:    this.x = 1\n    var s : base.u32",
	"F:    var s : base.u32\n    var s : base.u32",
	"F:    var src : base.u32",
	"F:    var this : base.u32",
	"F:    var args : base.u32\n    args = 1",
	"F:    var s",
	"F:    var s :",
	"F:    var : base.u32",
	"F:    var s : base.u32 = 1",
	"F:    var s : base.u32[1 ..= 3]\n    this.x = s",
	"F:    var s : array[4] base.u8[1 ..= 3]\n    this.a[s[0] - 1] = 0",
	"F:    var s : slice base.u8\n    var t : table base.u8\n    var p : ptr foo\n    var n : nptr foo\n    var r : base.io_reader\n    var w : base.io_writer\n    var k : base.token_writer\n    var b : base.bool\n    var e : base.empty_struct\n    var u : base.utility",
	"F:    var s : roslice base.u8\n    s = args.data\n    args.data = s",
	"F:    var s : base.status\n    s = \"#bad\"\n    s = ok\n    s = base.\"#bad argument\"\n    if s.is_error() {\n        return nothing\n    }",
	"F:    var p : ptr foo\n    p = nullptr",
	"F:    var p : nptr foo\n    p = nullptr\n    p.x = 1",
	// consts
	"P:pri const X : base.u8 =",
	"P:pri const X : = 1",
	"P:pri const X = 1",
	"P:pri const x : base.u8 = 1",
	"P:pri const X : base.u8 = 256",
	"P:pri const X : base.u8 = X",
	"P:pri const X : base.u8 = Y\npri const Y : base.u8 = X",
	"P:pri const X : base.u8 = 1\npri const X : base.u8 = 2",
	"P:pri const X : array[2] base.u8 = [1]",
	"P:pri const X : array[2] base.u8 = [1, 2, 3]",
	"P:pri const X : array[2] base.u8 = [[1], [2]]",
	"P:pri const X : array[2] array[0] base.u8 = [[], []]",
	"P:pri const X : array[0] base.u8 = []",
	"P:pri const X : roarray[2] base.u8 = [1, 2]",
	"P:pri const X : slice base.u8 = [1, 2]",
	"P:pri const X : base.u8 = [1]",
	"P:pri const X : array[2] base.u8 = 1",
	"P:pri const X : array[ONE] base.u8 = [1]",
	"P:pri const X : array[1 + 1] base.u8 = [1, 2]",
	"P:pri const X : base.u32 = ONE + 1",
	"P:pri const X : base.u32 = 1 + 2 * 3",
	"P:pri const X : base.u32 = (1 + 2) * 3",
	"P:pri const X : base.u32 = 'ab'be",
	"P:pri const X : base.u32[..= 4] = 5",
	"P:pri const X : base.bool = true",
	"P:pri const X : base.status = \"#bad\"",
	"P:pri const X : foo = 0",
	"P:pri const X : ptr base.u8 = nullptr",
	"P:pub const X : base.u64 = 0xFFFF_FFFF_FFFF_FFFF\npub const Y : base.u64 = X",
	"P:pri const X : array[3] array[2] base.u16 = [\n        [1, 2],\n        [3, 4],\n        [5, 6],\n]",
	// statuses and use
	"P:pub status \"\"",
	"P:pub status \"x\"",
	"P:pub status \"#\"",
	"P:pub status \"#bad\"",
	"P:pub status 1",
	"P:pub status",
	"P:pub status \"#not closed",
	"P:pri const X : base.u8 = 'a",
	"P:pub status \"#tab\there\"",
	"P:use \"std/nonexistent\"",
	"P:use \"\"",
	"P:use \"std/crc32\"\nuse \"std/crc32\"",
	"P:use \"../../etc/passwd\"",
	"P:use \"std/crc32\"\npub struct s0?(\n    h : crc32.ieee_hasher,\n)\npub func s0.go!(d: roslice base.u8) base.u32 {\n    return this.h.update_u32!(x: args.d)\n}",
	"P:use \"std/crc32\"\npri const X : base.u8 = crc32",
	"P:use \"std/crc32\"\npub struct crc32?()",
	"P:use 1",
	"P:use",
	// function declarations
	"P:pub func foo.initialize!() {\n}",
	"P:pub func foo.reset!() {\n}",
	"P:pub func foo.a__b!() {\n}",
	"P:pub func bar!() {\n}",
	"P:pub func nosuch.bar!() {\n}",
	"P:pub func foo.bar!() {\n}\npub func foo.bar!() {\n}",
	"P:pub func foo.x!() {\n}",
	"P:pub func foo.bar!() {\n    this.bar!()\n}",
	"P:pub func foo.bar!() {\n    this.baz!()\n}\npub func foo.baz!() {\n    this.bar!()\n}",
	"P:pub func foo.bar!(",
	"P:pub func foo.bar!()",
	"P:pub func foo.bar!() {",
	"P:pub func foo.bar!(),\n{\n}",
	"P:pub func foo.bar!(),\n    pre args.nosuch > 0,\n{\n}",
	"P:pub func foo.bar!(n: base.u32),\n    pre args.n > 0,\n    post this.x > 0,\n{\n    this.x = args.n\n}",
	"P:pub func foo.bar!(n: base.u32),\n    assert true,\n{\n}",
	"P:pub func foo.bar!?() {\n}",
	"P:pub func foo.!() {\n}",
	"P:pub func .bar!() {\n}",
	"P:pub func foo.bar.baz!() {\n}",
	"P:func foo.bar!() {\n}",
	"P:pub pub func foo.bar!() {\n}",
	"P:pub\n",
	"P:pri",
	"P:pub func base.u32.bar!() {\n}",
	"P:pub func foo.set_quirk!(key: base.u32, value: base.u64) base.status {\n    return base.\"#unsupported option\"\n}",
	"P:pub struct h0? implements base.hasher_u32(\n    s : base.u32,\n)\npub func h0.get_quirk(key: base.u32) base.u64 {\n    return 0\n}\npub func h0.set_quirk!(key: base.u32, value: base.u64) base.status {\n    return base.\"#unsupported option\"\n}\npub func h0.update!(x: roslice base.u8) {\n}\npub func h0.update_u32!(x: roslice base.u8) base.u32 {\n    return this.s\n}\npub func h0.checksum_u32() base.u32 {\n    return this.s\n}",
	"P:pub struct h0? implements base.hasher_u32(\n    s : base.u32,\n)",
	// whole-file oddities
	"R:",
	"R:\n",
	"R:;",
	"R:;;;\n;\n",
	"R:// only a comment",
	"R:// a comment\n// another\n\n\n// and a last one without a newline",
	"R:\xef\xbb\xbfpub status \"#bom\"\n",
	"R:pub status \"#x\"\n// trailing comment",
	"R:pub status \"#x\"  // same-line comment",
	"R:pub status \"#x\"\n\n\n\n// far trailing comment\n\n",
	"R:pub struct s?(\n    x : base.u8,  // c1\n    // c2\n)  // c3\n// c4",
	"R:\"",
	"R:'",
	"R:'\\",
	"R:\"abc",
	"R:'abc",
	"R:'ab'b",
	"R:pub status \"#x\" \"",
	"R:/",
	"R:/ /",
	"R:0",
	"R:0x",
	"R:~",
	"R:~mod",
	"R:{{ }} {{ }}",
	"R:}}}}}}}}",
	"R:((((((((",
	"R:pub struct s?(\r\n    x : base.u8,\r\n)\r\n",
	"R:pub\tstruct\ts?()\x0c\n",
	"R:\r",
	"R:pub status \"#x\"\r// c\rpub status \"#y\"\r",
	"R:\x0b\x0c\x01\x1f pub status \"#x\"\x7f",
	"R:pub struct s?()\x00",
	"R:pub struct s?(\n    x : base.u8\n)\n",
	"R:pub struct s?(x : base.u8, y : base.u8)",
	"R:pub const A : base.u8 = 1; pub const B : base.u8 = 2\n",
	"R:pub const A : base.u8 = 1;;\n",
}

func c11edgeSrc(e string) (string, string) {
	tag, body := e[:2], e[2:]
	switch tag {
	case "F:":
		return c11fn("", body), "edge-stmt"
	case "S:":
		return c11prelude + "\n" + body + "\n", "edge-func"
	case "P:":
		return c11prelude + "\n" + body + "\n", "edge-decl"
	}
	return body, "edge-raw"
}

// ------------------------------------------------------------------ phases

func c11setup(rc *vk.Rec) *c11env {
	debug.SetMaxStack(512 << 20) // the parser's recursion is bounded by the text size only: 64 KiB of "(" needs ~40 MB
	c11limitAS(rc, 4<<30)
	e := &c11env{rc: rc, corp: c11load(rc), uses: map[string][]byte{}}
	if len(e.corp.files) < 10 {
		rc.Inconclusive("C11: no Wuffs sources found under " + c11repo())
		return nil
	}
	e.leg2 = c11newLeg2(rc)
	go c11watch()
	return e
}

func (e *c11env) budget(phase string, qGen, qGcc, tGen, tGcc int) {
	if e.leg2 == nil {
		return
	}
	if e.rc.Thorough() {
		e.leg2.budget(phase, tGen, tGcc)
	} else {
		e.leg2.budget(phase, qGen, qGcc)
	}
}

func (e *c11env) flushCPU() {
	for k, v := range c11stageCPU {
		e.rc.Count("cpu_ms_"+k, int64(v/time.Millisecond))
		delete(c11stageCPU, k)
	}
	e.rc.Count("cpu_ms_total", int64((c11cpuNow()-e.cpuFlushed)/time.Millisecond))
	e.cpuFlushed = c11cpuNow()
}

// inPkg makes a case that replaces file f of its package.
func c11inPkg(phase string, idx int64, family, kind, desc string, f *c11file, src []byte) *c11case {
	return &c11case{phase: phase, idx: idx, family: family, kind: kind, desc: desc, pkg: f.pkg, fidx: f.idx, name: f.rel, src: src}
}

func c11alone(phase string, idx int64, family, kind, desc string, src []byte) *c11case {
	return &c11case{phase: phase, idx: idx, family: family, kind: kind, desc: desc, fidx: -1, name: "c11/" + family + ".wuffs", src: src}
}

func (e *c11env) sample(c *c11case, reached string) {
	if e.rc.NSamples() < 3 && e.rc.Shard < 3 && len(c.src) < 4000 {
		e.rc.Sample(map[string]interface{}{"phase": c.phase, "idx": c.idx, "kind": c.kind, "mutation": c.desc, "file": c.name,
			"reached": reached, "src": vk.Trunc(c.src, 300)})
	}
}

// C11D: unmutated packages, hand-written edge files, exhaustive truncation,
// nesting deepeners, extreme literals and widths.
func C11D(rc *vk.Rec) {
	e := c11setup(rc)
	if e == nil {
		return
	}
	cp := e.corp
	if rc.Shard == 0 {
		rc.Count("corpus_files", int64(len(cp.files)))
		rc.Count("corpus_packages", int64(len(cp.pkgs)))
	}

	// every std package and hello-wuffs-c, unmutated, through both legs
	phase := "orig"
	for i, p := range cp.pkgs {
		idx := int64(i)
		if i%rc.NShards != rc.Shard || rc.SkipCase(phase, idx) {
			continue
		}
		f := p.files[0]
		c := c11inPkg(phase, idx, "orig", "orig", "unmutated package "+p.dir, f, f.src)
		if got := e.exec(c, true); got != "accept" {
			rc.ViolateCase("unmutated-package-rejected:"+got, "the unmutated package "+p.dir+" stops at stage "+got, phase, idx, map[string]interface{}{"package_dir": p.dir})
		} else {
			rc.Count("orig_packages_accepted", 1)
		}
		// and every file of it on its own through tokenize/parse/render
		for k, g := range p.files {
			if k > 0 {
				c := c11inPkg(phase, idx, "orig", "orig", "unmutated package "+p.dir, g, g.src)
				c11wd.mu.Lock()
				c11wd.active = false
				c11wd.mu.Unlock()
				tm := &t.Map{}
				if sig, what := c11stage("render", func() {
					toks, cmts, err := t.Tokenize(tm, g.rel, g.src)
					if err == nil {
						var buf bytes.Buffer
						render.Render(&buf, tm, toks, cmts)
					}
				}); sig != "" {
					rc.ViolateCase(sig, what, phase, idx, c.extra())
				}
			}
		}
	}
	rc.Finish()

	// hand-written edge files, verbatim and with token-level edits
	phase = "edge"
	e.budget("edge", 4, 2, 150, 60)
	per := 3
	if rc.Thorough() {
		per = 40
	}
	for i, ed := range c11edges {
		if i%rc.NShards != rc.Shard {
			continue
		}
		src, kind := c11edgeSrc(ed)
		idx := int64(i) * 1000
		if !rc.SkipCase(phase, idx) {
			c := c11alone(phase, idx, "edge", kind, fmt.Sprintf("edge file #%d verbatim", i), []byte(src))
			got := e.exec(c, true)
			if i < 2 {
				e.sample(c, got)
			}
			if os.Getenv("C11_DUMP_EDGES") != "" {
				fmt.Fprintf(os.Stderr, "c11: edge %d -> %s: %q\n", i, got, ed)
			}
		}
		toks, tail, ok := c11scan([]byte(src))
		if !ok || len(toks) < 3 {
			continue
		}
		ef := &c11file{rel: "c11/edge.wuffs", src: []byte(src), toks: toks, tail: tail}
		ef.analyse()
		for k := 1; k <= per; k++ {
			idx := int64(i)*1000 + int64(k)
			if rc.SkipCase(phase, idx) {
				continue
			}
			r := vk.CaseRNG(rc.Seed, 0, phase, idx)
			msrc, mk, md := cp.mutTok(r, ef)
			c := c11alone(phase, idx, "edge", "edge-"+mk, fmt.Sprintf("edge file #%d: %s", i, md), msrc)
			e.exec(c, false)
		}
	}
	rc.Finish()

	// a few small files cut at every token boundary (exhaustive)
	phase = "trunc"
	e.budget("trunc", 4, 2, 100, 50)
	n := int64(0)
	for _, f := range cp.small {
		off := 0
		for k := 0; k <= len(f.toks); k++ {
			idx := n
			n++
			cut := off
			if k < len(f.toks) {
				off += len(f.toks[k].gap) + len(f.toks[k].text)
			} else {
				cut = len(f.src)
			}
			if int(idx)%rc.NShards != rc.Shard || rc.SkipCase(phase, idx) {
				continue
			}
			c := c11inPkg(phase, idx, "trunc", "trunc-token-boundary", fmt.Sprintf("first %d of %d tokens (%d bytes)", k, len(f.toks), cut), f, f.src[:cut])
			e.exec(c, false)
			rc.Count("trunc_cases", 1)
			// and once more with the cut inside the token that follows
			if k < len(f.toks) && len(f.toks[k].text) > 1 {
				mid := cut + len(f.toks[k].gap) + len(f.toks[k].text)/2
				c := c11inPkg(phase, idx, "trunc", "trunc-inside-token", fmt.Sprintf("%d bytes: inside token %d", mid, k), f, f.src[:mid])
				e.exec(c, false)
				rc.Count("trunc_cases", 1)
			}
		}
	}
	if rc.Shard == 0 {
		rc.Count("trunc_files_exhaustive", int64(len(cp.small)))
		rc.Count("trunc_token_boundaries_total", n)
	}
	rc.Finish()

	phase = "deep"
	e.budget("deep", 3, 2, 100, 40)
	for idx := int64(0); idx < int64(rc.N(800, 30000)); idx++ {
		if rc.SkipCase(phase, idx) {
			continue
		}
		r := rc.RNG(phase, idx)
		var c *c11case
		if r.Intn(3) == 0 {
			f := cp.files[r.Intn(len(cp.files))]
			if src, k, d, ok := cp.deepInSitu(r, f); ok {
				c = c11inPkg(phase, idx, "deep", k, d, f, src)
			}
		}
		if c == nil {
			src, k, d := c11synthDeep(r)
			c = c11alone(phase, idx, "deep", k, d, []byte(src))
		}
		e.exec(c, false)
	}
	rc.Finish()

	// nesting by the million (megabytes of text): the recursion of the parser
	// must be bounded by the parser itself, not by the goroutine stack
	phase = "mega"
	e.budget("mega", 1, 1, 100, 100)
	megas := []struct{ kind, open, mid, close string }{
		{"mega-parens", "(", "1", ")"},
		{"mega-unary-not", "not ", "true", ""},
		{"mega-unary-minus", "- ", "1", ""},
		{"mega-array-type", "array[1] ", "base.u8", ""},
		{"mega-index", "this.a[", "0", "]"},
		{"mega-call", "this.f(a: ", "1", ")"},
		{"mega-ptr-type", "ptr ", "base.u8", ""},
		{"mega-slice-type", "slice ", "base.u8", ""},
	}
	for idx := int64(0); idx < int64(len(megas)); idx++ {
		if rc.SkipCase(phase, idx) || (rc.Only < 0 && int(idx)%rc.NShards != rc.Shard) {
			continue
		}
		m := megas[idx]
		const n = 3000000
		var sb strings.Builder
		if strings.Contains(m.kind, "type") {
			sb.WriteString("pub struct foo?(\n    x : " + strings.Repeat(m.open, n) + m.mid + ",\n)\n")
		} else {
			sb.WriteString(c11prelude + "\npub func foo.bar!() {\n    this.x = " + strings.Repeat(m.open, n) + m.mid + strings.Repeat(m.close, n) + "\n}\n")
		}
		c := c11alone(phase, idx, "mega", m.kind, fmt.Sprintf("%d levels", n), []byte(sb.String()))
		e.exec(c, false)
	}
	rc.Finish()

	phase = "lit"
	e.budget("lit", 3, 2, 100, 40)
	for idx := int64(0); idx < int64(rc.N(500, 15000)); idx++ {
		if rc.SkipCase(phase, idx) {
			continue
		}
		r := rc.RNG(phase, idx)
		var c *c11case
		if r.Intn(2) == 0 {
			f := cp.files[r.Intn(len(cp.files))]
			if src, k, d, ok := cp.litInSitu(r, f); ok {
				c = c11inPkg(phase, idx, "lit", k, d, f, src)
			}
		}
		if c == nil {
			src, k, d := c11synthLit(r)
			c = c11alone(phase, idx, "lit", k, d, []byte(src))
		}
		e.exec(c, false)
	}

	// quoted literals: every sequence of up to three pieces from a small
	// alphabet of plain characters and complete, truncated and malformed escape
	// sequences, in single and double quotes, with and without the endianness
	// suffix (enumerated, not sampled: the tokenizer's escape handling has one
	// length guard per escape kind)
	phase = "quoted"
	e.budget("quoted", 2, 1, 60, 20)
	pieces := []string{"a", "\\x", "\\x4", "\\x41", "\\x4g", "\\xG1", "\\\\", "\\'", "\\\"", "\\n", "\\", "\\u", "\\0", "'", "\"", "\x80", " ",
		"\\u00e9", "\\u12", "\\uD800", "\\U0001F600", "\\U0001F60", "\\UFFFFFFFF", "\\U0010FFFF", "\\a", "\\e", "\\?", "\\101"}
	var bodies []string
	for _, a := range pieces {
		bodies = append(bodies, a)
		for _, b := range pieces {
			bodies = append(bodies, a+b)
			for _, c := range pieces {
				bodies = append(bodies, a+b+c)
			}
		}
	}
	forms := []string{"pri const C : base.u32 = '%s'be\n", "pri const C : base.u32 = '%s'\n", "pub status \"#%s\"\n", "pri const C : base.u32 = '%s'le // c\n", "'%s"}
	for idx := int64(0); idx < int64(len(bodies)*len(forms)); idx++ {
		if rc.SkipCase(phase, idx) || (rc.Only < 0 && int(idx)%rc.NShards != rc.Shard) {
			continue
		}
		body, form := bodies[int(idx)/len(forms)], forms[int(idx)%len(forms)]
		c := c11alone(phase, idx, "quoted", "quoted-literal", fmt.Sprintf("%q in %q", body, form), []byte(fmt.Sprintf(form, body)))
		e.exec(c, false)
	}
	e.flushCPU()
}

// C11: random bytes and token-, line- and tree-level mutants of every std
// and hello-wuffs-c source file.
func C11(rc *vk.Rec) {
	e := c11setup(rc)
	if e == nil {
		return
	}
	cp := e.corp

	phase := "bytes"
	e.budget("bytes", 2, 1, 40, 15)
	for idx := int64(0); idx < int64(rc.N(2200, 100000)); idx++ {
		if rc.SkipCase(phase, idx) {
			continue
		}
		r := rc.RNG(phase, idx)
		src, k, f := cp.randBytes(r)
		var c *c11case
		if f != nil {
			c = c11inPkg(phase, idx, "bytes", k, "", f, src)
		} else {
			c = c11alone(phase, idx, "bytes", k, "", src)
		}
		got := e.exec(c, false)
		if idx == 1 {
			e.sample(c, got)
		}
	}
	rc.Finish()

	phase = "tok"
	e.budget("tok", 5, 3, 250, 100)
	for idx := int64(0); idx < int64(rc.N(8000, 400000)); idx++ {
		if rc.SkipCase(phase, idx) {
			continue
		}
		r := rc.RNG(phase, idx)
		f := cp.files[r.Intn(len(cp.files))]
		src, k, d := cp.mutTok(r, f)
		c := c11inPkg(phase, idx, "tok", k, d, f, src)
		got := e.exec(c, false)
		if idx == 2 {
			c.src = nil
			e.sample(c, got)
		}
	}
	rc.Finish()

	phase = "line"
	e.budget("line", 3, 1, 80, 30)
	for idx := int64(0); idx < int64(rc.N(1600, 60000)); idx++ {
		if rc.SkipCase(phase, idx) {
			continue
		}
		r := rc.RNG(phase, idx)
		f := cp.files[r.Intn(len(cp.files))]
		src, k, d := c11mutLine(r, f)
		e.exec(c11inPkg(phase, idx, "line", k, d, f, src), false)
	}
	rc.Finish()

	phase = "tree"
	e.budget("tree", 5, 3, 200, 80)
	for idx := int64(0); idx < int64(rc.N(3200, 150000)); idx++ {
		if rc.SkipCase(phase, idx) {
			continue
		}
		r := rc.RNG(phase, idx)
		f := cp.files[r.Intn(len(cp.files))]
		src, k, d := cp.mutTree(r, f)
		fam := "tree"
		if strings.HasPrefix(k, "tok-") {
			fam = "tok"
		}
		e.exec(c11inPkg(phase, idx, fam, k, d, f, src), false)
	}
	e.flushCPU()
}
