package mon

import (
	"bytes"
	"compress/flate"
	"compress/zlib"
	"encoding/hex"
	"errors"
	"fmt"
	"hash/adler32"
	"io"
	"math/rand"
	"sort"
	"strings"

	"github.com/google/wuffs/lib/flatecut"
	"github.com/google/wuffs/lib/zlibcut"

	"verif/internal/vk"
)

// C16: cutting DEFLATE/zlib data (lib/flatecut, lib/zlibcut) yields a valid
// stream that decodes to a prefix of the original payload.
//
// This file has four parts: (1) a small DEFLATE block scanner used only to
// classify cases and to aim limits (it is never an oracle), (2) stream
// construction (Go encoders and a hand assembler for fixed/dynamic/stored
// blocks with unusual shapes), (3) the oracle for successful cuts on valid
// streams, (4) the robustness phase.

func init() { Table["C16"] = C16 }

const (
	c16Flate = 0
	c16Zlib  = 1
	// c16KnownSig is the narrow signature of the defect written up in
	// tools/proposed-fixes/C16-1.md: a Huffman block with no symbols before its
	// end-of-block code whose end-of-block code straddles the limit.
	c16KnownSig = "over-limit:empty-huffman-block-straddles-limit"
)

var c16fmtName = [2]string{"flate", "zlib"}

var (
	c16lenBase   = [29]int{3, 4, 5, 6, 7, 8, 9, 10, 11, 13, 15, 17, 19, 23, 27, 31, 35, 43, 51, 59, 67, 83, 99, 115, 131, 163, 195, 227, 258}
	c16lenExtra  = [29]uint{0, 0, 0, 0, 0, 0, 0, 0, 1, 1, 1, 1, 2, 2, 2, 2, 3, 3, 3, 3, 4, 4, 4, 4, 5, 5, 5, 5, 0}
	c16distBase  = [30]int{1, 2, 3, 4, 5, 7, 9, 13, 17, 25, 33, 49, 65, 97, 129, 193, 257, 385, 513, 769, 1025, 1537, 2049, 3073, 4097, 6145, 8193, 12289, 16385, 24577}
	c16distExtra = [30]uint{0, 0, 0, 0, 1, 1, 2, 2, 3, 3, 4, 4, 5, 5, 6, 6, 7, 7, 8, 8, 9, 9, 10, 10, 11, 11, 12, 12, 13, 13}
	c16clOrder   = [19]int{16, 17, 18, 0, 8, 7, 9, 6, 10, 5, 11, 4, 12, 3, 13, 2, 14, 1, 15}
)

// ---------------------------------------------------------------------------
// (1) block scanner

type c16br struct {
	b   []byte
	pos int64 // bit position
}

func (r *c16br) bit() int {
	i := r.pos >> 3
	if i >= int64(len(r.b)) {
		return -1
	}
	v := int(r.b[i]>>(uint(r.pos)&7)) & 1
	r.pos++
	return v
}

func (r *c16br) bits(n uint) int {
	v := 0
	for i := uint(0); i < n; i++ {
		b := r.bit()
		if b < 0 {
			return -1
		}
		v |= b << i
	}
	return v
}

type c16huff struct {
	count  [16]int
	symbol []int
}

func (h *c16huff) build(lengths []int) {
	h.count = [16]int{}
	for _, l := range lengths {
		h.count[l&15]++
	}
	var offs [16]int
	for i := 1; i < 15; i++ {
		offs[i+1] = offs[i] + h.count[i]
	}
	h.symbol = make([]int, len(lengths))
	for s, l := range lengths {
		if l != 0 {
			h.symbol[offs[l&15]] = s
			offs[l&15]++
		}
	}
}

func (h *c16huff) decode(r *c16br) int {
	code, first, index := 0, 0, 0
	for l := 1; l <= 15; l++ {
		b := r.bit()
		if b < 0 {
			return -1
		}
		code |= b
		count := h.count[l]
		if code-count < first {
			k := index + (code - first)
			if k < 0 || k >= len(h.symbol) {
				return -1
			}
			return h.symbol[k]
		}
		index += count
		first += count
		first <<= 1
		code <<= 1
	}
	return -1
}

// c16blk describes one DEFLATE block of a stream (bit positions).
type c16blk struct {
	typ      byte // 'S' stored, 'F' fixed Huffman, 'D' dynamic Huffman
	final    bool
	start    int64   // position of the BFINAL bit
	body     int64   // first data byte (stored) / first symbol (Huffman)
	eob      int64   // start of the end-of-block code (Huffman) or == end (stored)
	end      int64   // position just after the block
	nsym     int     // symbols before end-of-block (Huffman) or bytes (stored)
	dec      int     // decoded bytes this block produces
	usesDict bool    // a match reaches before the start of the stream
	syms     []int32 // bit position after each symbol (only when asked for)
}

var errC16Scan = errors.New("c16 scanner: not a DEFLATE stream")

var c16fixedL, c16fixedD = func() (c16huff, c16huff) {
	l := make([]int, 288)
	for i := range l {
		switch {
		case i < 144:
			l[i] = 8
		case i < 256:
			l[i] = 9
		case i < 280:
			l[i] = 7
		default:
			l[i] = 8
		}
	}
	d := make([]int, 30)
	for i := range d {
		d[i] = 5
	}
	// 30 and 31 exist in the fixed code but never occur in valid data; a
	// 32-entry table keeps the canonical assignment right.
	d = append(d, 5, 5)
	var lh, dh c16huff
	lh.build(l)
	dh.build(d)
	return lh, dh
}()

// c16scan walks the blocks of s. On malformed input it returns the blocks
// parsed so far together with an error; it never panics.
func c16scan(s []byte, wantSyms bool) (blks []c16blk, err error) {
	r := &c16br{b: s}
	total := 0
	for {
		var k c16blk
		k.start = r.pos
		f := r.bits(1)
		t := r.bits(2)
		if f < 0 || t < 0 {
			return blks, errC16Scan
		}
		k.final = f == 1
		switch t {
		case 0:
			k.typ = 'S'
			r.pos = (r.pos + 7) &^ 7
			ln := r.bits(16)
			nl := r.bits(16)
			if ln < 0 || nl < 0 || ln^nl != 0xFFFF {
				return blks, errC16Scan
			}
			k.body = r.pos
			r.pos += 8 * int64(ln)
			if r.pos > 8*int64(len(s)) {
				return blks, errC16Scan
			}
			k.eob, k.end, k.nsym, k.dec = r.pos, r.pos, ln, ln
		case 1, 2:
			lh, dh := &c16fixedL, &c16fixedD
			k.typ = 'F'
			if t == 2 {
				k.typ = 'D'
				var l2, d2 c16huff
				if !c16scanDyn(r, &l2, &d2) {
					return blks, errC16Scan
				}
				lh, dh = &l2, &d2
			}
			k.body = r.pos
			for {
				p := r.pos
				sym := lh.decode(r)
				if sym < 0 {
					return blks, errC16Scan
				}
				if sym == 256 {
					k.eob = p
					break
				}
				if sym < 256 {
					k.dec++
				} else {
					sym -= 257
					if sym >= 29 {
						return blks, errC16Scan
					}
					x := r.bits(c16lenExtra[sym])
					ds := dh.decode(r)
					if x < 0 || ds < 0 || ds >= 30 {
						return blks, errC16Scan
					}
					y := r.bits(c16distExtra[ds])
					if y < 0 {
						return blks, errC16Scan
					}
					if c16distBase[ds]+y > total+k.dec {
						k.usesDict = true
					}
					k.dec += c16lenBase[sym] + x
				}
				k.nsym++
				if wantSyms {
					k.syms = append(k.syms, int32(r.pos))
				}
			}
			k.end = r.pos
		default:
			return blks, errC16Scan
		}
		total += k.dec
		blks = append(blks, k)
		if k.final {
			return blks, nil
		}
		if len(blks) > 1<<20 {
			return blks, errC16Scan
		}
	}
}

func c16scanDyn(r *c16br, lh, dh *c16huff) bool {
	hlit, hdist, hclen := r.bits(5), r.bits(5), r.bits(4)
	if hlit < 0 || hdist < 0 || hclen < 0 {
		return false
	}
	hlit += 257
	hdist++
	hclen += 4
	if hlit > 286 || hdist > 30 {
		return false
	}
	cl := make([]int, 19)
	for i := 0; i < hclen; i++ {
		v := r.bits(3)
		if v < 0 {
			return false
		}
		cl[c16clOrder[i]] = v
	}
	var ch c16huff
	ch.build(cl)
	lens := make([]int, hlit+hdist)
	for i := 0; i < len(lens); {
		sym := ch.decode(r)
		if sym < 0 {
			return false
		}
		if sym < 16 {
			lens[i] = sym
			i++
			continue
		}
		val, n := 0, 0
		switch sym {
		case 16:
			if i == 0 {
				return false
			}
			val = lens[i-1]
			n = r.bits(2)
			n += 3
		case 17:
			n = r.bits(3)
			n += 3
		default:
			n = r.bits(7)
			n += 11
		}
		if n < 3 || i+n > len(lens) {
			return false
		}
		for ; n > 0; n-- {
			lens[i] = val
			i++
		}
	}
	lh.build(lens[:hlit])
	dh.build(lens[hlit:])
	return true
}

// c16seqClass is the block-type sequence class: one letter per block (S/F/D,
// lower case when the block holds no data), runs collapsed, first four groups.
func c16seqClass(blks []c16blk) string {
	var sb strings.Builder
	groups := 0
	var prev byte
	dict := false
	for _, k := range blks {
		c := k.typ
		if k.nsym == 0 {
			c += 'a' - 'A'
		}
		if k.usesDict {
			dict = true
		}
		if c == prev {
			continue
		}
		prev = c
		groups++
		if groups <= 4 {
			sb.WriteByte(c)
		}
	}
	if groups > 4 {
		sb.WriteByte('~')
	}
	if dict {
		sb.WriteString("+dict")
	}
	return sb.String()
}

// c16limitPos says where the (DEFLATE-level) limit L falls in the input.
func c16limitPos(blks []c16blk, L, n int) string {
	tiny := ""
	if L <= 5 {
		tiny = ".tiny"
	}
	if L > n {
		return "beyond" + tiny
	}
	if L == n {
		return "exact" + tiny
	}
	B := int64(8 * L)
	i := sort.Search(len(blks), func(i int) bool { return blks[i].end > B })
	if i >= len(blks) {
		return "pad" + tiny
	}
	k := &blks[i]
	reg := "mid"
	switch {
	case B < k.body:
		reg = "hdr"
	case k.typ == 'S':
		if k.end-B <= 8 {
			reg = "last"
		} else if B-k.body < 8 {
			reg = "first"
		}
	case B >= k.eob:
		reg = "eob"
	case k.eob-B < 24:
		reg = "last"
	case B-k.body < 24:
		reg = "first"
	}
	which := "bN"
	if i == 0 {
		which = "b0"
	}
	return which + string(k.typ) + ":" + reg + tiny
}

// c16path infers which internal path produced out[:e] from the input's block
// table and the output's first block header.
func c16path(blks []c16blk, in, out []byte, e int) string {
	if e <= 0 || e > len(out) || len(in) == 0 || len(blks) == 0 {
		return "none"
	}
	if e == len(in) && bytes.Equal(out[:e], in) {
		return "whole"
	}
	if e == 2 && out[0] == 0x03 && out[1] == 0x00 {
		return "fallback-empty-fixed"
	}
	if blks[0].typ != 'S' && out[0]&6 == 0 {
		return "fallback-single-stored"
	}
	E := int64(8 * e)
	j := sort.Search(len(blks), func(i int) bool { return blks[i].end > E }) - 1
	rem := E
	if j >= 0 {
		rem = E - blks[j].end
	}
	if rem < 8 {
		return "block-boundary"
	}
	if j+1 < len(blks) {
		switch blks[j+1].typ {
		case 'S':
			return "stored-shorten"
		case 'F':
			return "huffman-cut-F"
		default:
			return "huffman-cut-D"
		}
	}
	return "other"
}

// c16emptyHuffmanAtLimit reports whether some Huffman block without symbols
// has its header inside the first L bytes and its end-of-block code ending
// beyond them.
func c16emptyHuffmanAtLimit(blks []c16blk, L int) bool {
	for i := range blks {
		k := &blks[i]
		if k.typ != 'S' && k.nsym == 0 && (k.body+7)/8 <= int64(L) && k.end > int64(8*L) {
			return true
		}
	}
	return false
}

// ---------------------------------------------------------------------------
// (2) payloads and stream construction

var c16words = strings.Fields("the of and to in is that for it as was with be by on not he this are or his from at which but have an had they you were their one all we can her has there been if more when will would who so no out up said what its about than into them only some could time these two may then do first any my now such like our over man me even most made after also did many before must through years where much your way well down should because each just those people how too little state good very make world still own see men work long get here between both life being under never day same another know while last might us great old year off come since against go came right used take three")

func c16text(r *rand.Rand, n int) []byte {
	var b []byte
	for len(b) < n {
		w := c16words[r.Intn(len(c16words))]
		if r.Intn(9) == 0 {
			w = strings.ToUpper(w[:1]) + w[1:]
		}
		b = append(b, w...)
		switch r.Intn(12) {
		case 0:
			b = append(b, ".\n"...)
		case 1:
			b = append(b, ", "...)
		default:
			b = append(b, ' ')
		}
	}
	return b[:n]
}

func c16runs(r *rand.Rand, n int) []byte {
	var b []byte
	for len(b) < n {
		k := 1 + r.Intn(40)
		if r.Intn(3) == 0 {
			k = 200 + r.Intn(700)
		}
		if r.Intn(4) == 0 {
			x, y := byte(r.Intn(256)), byte(r.Intn(256))
			for i := 0; i < k; i++ {
				b = append(b, x, y)
			}
		} else {
			x := byte(r.Intn(256))
			for i := 0; i < k; i++ {
				b = append(b, x)
			}
		}
	}
	return b[:n]
}

func c16rand(r *rand.Rand, n int) []byte {
	b := make([]byte, n)
	r.Read(b)
	return b
}

func c16seg(r *rand.Rand, kind, n int) []byte {
	switch kind {
	case 0:
		return c16text(r, n)
	case 1:
		return c16runs(r, n)
	default:
		return c16rand(r, n)
	}
}

// c16payload draws a payload and its class name.
func c16payload(r *rand.Rand, big bool) ([]byte, string) {
	size := func() int {
		if big {
			return 20000 + r.Intn(180000)
		}
		switch p := r.Intn(10); {
		case p == 0:
			return 2 + r.Intn(4)
		case p < 4:
			return 2 + r.Intn(64)
		case p < 8:
			return 2 + r.Intn(1000)
		}
		return 2 + r.Intn(6000)
	}
	switch p := r.Intn(20); {
	case p == 0:
		return nil, "empty"
	case p == 1:
		return []byte{byte(r.Intn(256))}, "one"
	case p < 7:
		return c16text(r, size()), "text"
	case p < 11:
		return c16runs(r, size()), "runs"
	case p < 14:
		return c16rand(r, size()), "random"
	case p < 16 && (big || r.Intn(3) == 0):
		// a chunk repeated at a distance around the 32 KiB window
		a := c16seg(r, 2*r.Intn(2), 300+r.Intn(3000))
		gap := 32768 - len(a) + []int{-300, -1, 0, 0, 1, 300}[r.Intn(6)] + r.Intn(3) - 1
		var b []byte
		b = append(b, a...)
		for len(b) < len(a)+gap {
			b = append(b, c16seg(r, r.Intn(2), 1+r.Intn(4000))...)
		}
		b = b[:len(a)+gap]
		b = append(b, a...)
		b = append(b, c16seg(r, r.Intn(3), r.Intn(3000))...)
		return b, "window"
	}
	var b []byte
	n := size()
	for len(b) < n {
		b = append(b, c16seg(r, r.Intn(3), 1+r.Intn(1+n/3))...)
	}
	return b[:n], "mixed"
}

type c16flusher interface {
	io.Writer
	Flush() error
	Close() error
}

// c16goWrite feeds payload through a Go encoder with a random Flush pattern.
func c16goWrite(r *rand.Rand, w c16flusher, payload []byte) (flushes int) {
	if r.Intn(8) == 0 {
		w.Flush()
		flushes++
	}
	mode := r.Intn(3)
	for p := 0; p < len(payload); {
		n := len(payload) - p
		switch mode {
		case 1:
			n = 1 + r.Intn(1+len(payload)/2)
		case 2:
			n = 1 + r.Intn(1+len(payload)/12)
		}
		if n > len(payload)-p {
			n = len(payload) - p
		}
		w.Write(payload[p : p+n])
		p += n
		if p < len(payload) && r.Intn(2) == 0 {
			w.Flush()
			flushes++
			if r.Intn(6) == 0 {
				w.Flush()
				flushes++
			}
		}
	}
	if r.Intn(6) == 0 {
		w.Flush()
		flushes++
	}
	w.Close()
	return flushes
}

func c16dict(r *rand.Rand, payload []byte) ([]byte, string) {
	switch r.Intn(4) {
	case 0:
		return c16rand(r, 1+r.Intn(300)), "unrelated"
	case 1:
		return c16text(r, 1+r.Intn(2000)), "vocabulary"
	case 2:
		// a reshuffled copy of parts of the payload
		var d []byte
		for i := 0; i < 4 && len(payload) > 0; i++ {
			a := r.Intn(len(payload))
			b := a + r.Intn(len(payload)-a+1)
			d = append(d, payload[a:b]...)
		}
		if len(d) == 0 {
			d = []byte("x")
		}
		return d, "related"
	}
	d := append(c16text(r, 20000+r.Intn(30000)), payload...)
	if len(d) > 50000 {
		d = d[:50000]
	}
	return d, "long"
}

// ---- bit writer and hand assembler

type c16bw struct {
	out []byte
	acc uint64
	n   uint
}

func (w *c16bw) bits(v uint32, n uint) {
	w.acc |= uint64(v&((1<<n)-1)) << w.n
	w.n += n
	for w.n >= 8 {
		w.out = append(w.out, byte(w.acc))
		w.acc >>= 8
		w.n -= 8
	}
}

// code writes a Huffman code (given MSB-first, as RFC 1951 defines them).
func (w *c16bw) code(c uint32, n uint) {
	var rev uint32
	for i := uint(0); i < n; i++ {
		rev = rev<<1 | (c>>i)&1
	}
	w.bits(rev, n)
}

func (w *c16bw) align(pad uint32) {
	if w.n > 0 {
		w.bits(pad, 8-w.n)
	}
}

func (w *c16bw) stored(final bool, data []byte, pad uint32) {
	f := uint32(0)
	if final {
		f = 1
	}
	w.bits(f, 1)
	w.bits(0, 2)
	w.align(pad)
	w.bits(uint32(len(data)), 16)
	w.bits(^uint32(len(data)), 16)
	w.out = append(w.out, data...)
}

type c16tok struct {
	lit  bool
	b    byte
	ln   int
	dist int
}

func c16canon(lengths []int) []uint32 {
	var blc [17]int
	for _, l := range lengths {
		if l > 0 {
			blc[l]++
		}
	}
	var next [17]uint32
	code := uint32(0)
	for b := 1; b <= 15; b++ {
		code = (code + uint32(blc[b-1])) << 1
		next[b] = code
	}
	codes := make([]uint32, len(lengths))
	for i, l := range lengths {
		if l > 0 {
			codes[i] = next[l]
			next[l]++
		}
	}
	return codes
}

func c16lenSym(ln int) int {
	for s := 28; s >= 0; s-- {
		if ln >= c16lenBase[s] {
			return s
		}
	}
	return 0
}

func c16distSym(d int) int {
	for s := 29; s >= 0; s-- {
		if d >= c16distBase[s] {
			return s
		}
	}
	return 0
}

func (w *c16bw) tokens(toks []c16tok, lc []uint32, ll []int, dc []uint32, dl []int) {
	for _, t := range toks {
		if t.lit {
			w.code(lc[t.b], uint(ll[t.b]))
			continue
		}
		s := c16lenSym(t.ln)
		w.code(lc[257+s], uint(ll[257+s]))
		w.bits(uint32(t.ln-c16lenBase[s]), c16lenExtra[s])
		d := c16distSym(t.dist)
		w.code(dc[d], uint(dl[d]))
		w.bits(uint32(t.dist-c16distBase[d]), c16distExtra[d])
	}
	w.code(lc[256], uint(ll[256]))
}

var c16fixLL, c16fixDL, c16fixLC, c16fixDC = func() ([]int, []int, []uint32, []uint32) {
	ll := make([]int, 288)
	for i := range ll {
		switch {
		case i < 144:
			ll[i] = 8
		case i < 256:
			ll[i] = 9
		case i < 280:
			ll[i] = 7
		default:
			ll[i] = 8
		}
	}
	dl := make([]int, 32)
	for i := range dl {
		dl[i] = 5
	}
	return ll, dl, c16canon(ll), c16canon(dl)
}()

func (w *c16bw) fixed(final bool, toks []c16tok) {
	f := uint32(0)
	if final {
		f = 1
	}
	w.bits(f, 1)
	w.bits(1, 2)
	w.tokens(toks, c16fixLC, c16fixLL, c16fixDC, c16fixDL)
}

// c16randLengths returns code lengths of a complete prefix code with n leaves
// and depth <= maxDepth. shape: 0 random splits, 1 skewed (deepest first),
// 2 balanced (shallowest first).
func c16randLengths(r *rand.Rand, n, maxDepth, shape int) []int {
	if n <= 1 {
		return []int{1}
	}
	ls := []int{1, 1}
	for len(ls) < n {
		best := -1
		switch shape {
		case 1:
			for i, l := range ls {
				if l < maxDepth && (best < 0 || l > ls[best]) {
					best = i
				}
			}
		case 2:
			for i, l := range ls {
				if l < maxDepth && (best < 0 || l < ls[best]) {
					best = i
				}
			}
		default:
			for tries := 0; tries < 8 && best < 0; tries++ {
				if i := r.Intn(len(ls)); ls[i] < maxDepth {
					best = i
				}
			}
			if best < 0 {
				for i, l := range ls {
					if l < maxDepth {
						best = i
						break
					}
				}
			}
		}
		ls[best]++
		ls = append(ls, ls[best])
	}
	r.Shuffle(len(ls), func(i, j int) { ls[i], ls[j] = ls[j], ls[i] })
	return ls
}

// dynamic writes a dynamic-Huffman block whose trees are valid but chosen at
// random (not from frequencies), so end-of-block codes of every length from 1
// to 15 bits, unused codes and degenerate distance trees all occur.
func (w *c16bw) dynamic(r *rand.Rand, final bool, toks []c16tok) (note string) {
	var usedL [286]bool
	var usedD [30]bool
	usedL[256] = true
	for _, t := range toks {
		if t.lit {
			usedL[t.b] = true
		} else {
			usedL[257+c16lenSym(t.ln)] = true
			usedD[c16distSym(t.dist)] = true
		}
	}
	if r.Intn(2) == 0 {
		for k := r.Intn(6); k > 0; k-- {
			usedL[r.Intn(286)] = true
		}
	}
	if r.Intn(3) == 0 {
		for s := 257; s < 286; s++ {
			if r.Intn(3) == 0 {
				usedL[s] = true
			}
		}
	}
	count := func(u []bool) (n int) {
		for _, x := range u {
			if x {
				n++
			}
		}
		return
	}
	if count(usedL[:]) == 1 && r.Intn(2) == 0 {
		usedL[r.Intn(256)] = true
	}
	nD := count(usedD[:])
	if nD == 0 {
		if r.Intn(10) == 0 {
			note = "nodist"
		} else {
			usedD[r.Intn(30)] = true
			nD = 1
		}
	}
	if nD == 1 && r.Intn(2) == 0 {
		usedD[r.Intn(30)] = true
	}
	assign := func(u []bool, maxDepth int) []int {
		ls := c16randLengths(r, count(u), maxDepth, r.Intn(3))
		out := make([]int, len(u))
		k := 0
		for i, x := range u {
			if x {
				out[i] = ls[k]
				k++
			}
		}
		return out
	}
	ll := assign(usedL[:], 15)
	dl := make([]int, 30)
	if count(usedD[:]) > 0 {
		dl = assign(usedD[:], 15)
	}
	hlit, hdist := 257, 1
	for i := 257; i < 286; i++ {
		if ll[i] != 0 {
			hlit = i + 1
		}
	}
	for i := 1; i < 30; i++ {
		if dl[i] != 0 {
			hdist = i + 1
		}
	}
	if r.Intn(4) == 0 {
		hlit += r.Intn(286 - hlit + 1)
	}
	if r.Intn(4) == 0 {
		hdist += r.Intn(30 - hdist + 1)
	}
	seq := append(append([]int{}, ll[:hlit]...), dl[:hdist]...)
	// run-length encode the code lengths
	type cls struct {
		sym   int
		extra uint32
		nbits uint
	}
	var rle []cls
	for i := 0; i < len(seq); {
		v := seq[i]
		run := 1
		for i+run < len(seq) && seq[i+run] == v {
			run++
		}
		use := r.Intn(4) != 0
		switch {
		case use && v == 0 && run >= 11:
			n := run
			if n > 138 {
				n = 138
			}
			if r.Intn(3) == 0 {
				n = 11 + r.Intn(n-10)
			}
			rle = append(rle, cls{18, uint32(n - 11), 7})
			i += n
		case use && v == 0 && run >= 3:
			n := run
			if n > 10 {
				n = 10
			}
			rle = append(rle, cls{17, uint32(n - 3), 3})
			i += n
		case use && i > 0 && seq[i-1] == v && run >= 3:
			n := run
			if n > 6 {
				n = 6
			}
			rle = append(rle, cls{16, uint32(n - 3), 2})
			i += n
		default:
			rle = append(rle, cls{v, 0, 0})
			i++
		}
	}
	var usedC [19]bool
	for _, c := range rle {
		usedC[c.sym] = true
	}
	for count(usedC[:]) < 2 {
		usedC[r.Intn(19)] = true
	}
	cl := assign(usedC[:], 7)
	cc := c16canon(cl)
	hclen := 4
	for i := 4; i < 19; i++ {
		if cl[c16clOrder[i]] != 0 {
			hclen = i + 1
		}
	}
	if r.Intn(4) == 0 {
		hclen += r.Intn(19 - hclen + 1)
	}
	f := uint32(0)
	if final {
		f = 1
	}
	w.bits(f, 1)
	w.bits(2, 2)
	w.bits(uint32(hlit-257), 5)
	w.bits(uint32(hdist-1), 5)
	w.bits(uint32(hclen-4), 4)
	for i := 0; i < hclen; i++ {
		w.bits(uint32(cl[c16clOrder[i]]), 3)
	}
	for _, c := range rle {
		w.code(cc[c.sym], uint(cl[c.sym]))
		w.bits(c.extra, c.nbits)
	}
	w.tokens(toks, c16canon(ll), ll, c16canon(dl), dl)
	return note
}

// c16lz is a small LZ77 tokeniser (one candidate per 3-byte hash).
type c16lz struct {
	tab [1 << 14]int32
}

func c16h3(p []byte) uint32 {
	return ((uint32(p[0]) | uint32(p[1])<<8 | uint32(p[2])<<16) * 2654435761) >> 18
}

func (z *c16lz) insert(p []byte, from, to int) {
	for i := from; i < to && i+3 <= len(p); i++ {
		z.tab[c16h3(p[i:])] = int32(i + 1)
	}
}

func (z *c16lz) tokenize(r *rand.Rand, p []byte, from, to int, litOnly bool) []c16tok {
	var toks []c16tok
	for i := from; i < to; {
		if !litOnly && i+3 <= to {
			h := c16h3(p[i:])
			j := int(z.tab[h]) - 1
			z.tab[h] = int32(i + 1)
			if j >= 0 && i-j <= 32768 && r.Intn(8) != 0 {
				l := 0
				for i+l < to && l < 258 && p[j+l] == p[i+l] {
					l++
				}
				if l >= 3 {
					if r.Intn(6) == 0 {
						l = 3 + r.Intn(l-2)
					}
					toks = append(toks, c16tok{ln: l, dist: i - j})
					z.insert(p, i+1, i+l)
					i += l
					continue
				}
			}
		}
		toks = append(toks, c16tok{lit: true, b: p[i]})
		i++
	}
	return toks
}

// c16hand assembles a DEFLATE stream for payload block by block.
//
// firstType >= 0 forces the first block to be of that type (0 stored, 1 fixed,
// 2 dynamic), literal-only and firstSeg bytes long: a long literal-only
// Huffman block over incompressible data is longer than the data, which is
// what makes flatecut prefer its single-stored-block fallback at limits
// beyond 64 KiB.
func c16hand(r *rand.Rand, payload []byte, firstType, firstSeg int) (out []byte, desc string) {
	w := &c16bw{}
	z := &c16lz{}
	style := r.Intn(7) // 0 stored, 1 fixed, 2 dynamic, 3.. mixed
	pickType := func() int {
		if style < 3 {
			return style
		}
		return r.Intn(3)
	}
	pad := uint32(0)
	if r.Intn(8) == 0 {
		pad = uint32(r.Intn(256))
	}
	emptyEvery := []int{0, 0, 3, 6}[r.Intn(4)]
	litOnly := r.Intn(5) == 0
	maxSeg := []int{8, 64, 600, 5000, 70000}[r.Intn(5)]
	var sb strings.Builder
	fmt.Fprintf(&sb, "hand(style=%d,maxSeg=%d,pad=%#x,litOnly=%v,first=%d/%d):", style, maxSeg, pad, litOnly, firstType, firstSeg)
	emit := func(t int, final bool, from, to int) {
		switch t {
		case 0:
			w.stored(final, payload[from:to], pad)
			z.insert(payload, from, to)
			sb.WriteByte('S')
		case 1:
			w.fixed(final, z.tokenize(r, payload, from, to, litOnly))
			sb.WriteByte('F')
		default:
			sb.WriteByte('D')
			sb.WriteString(w.dynamic(r, final, z.tokenize(r, payload, from, to, litOnly)))
		}
	}
	pos, nblocks, done := 0, 0, false
	for !done {
		if emptyEvery > 0 && nblocks < 40 && !(firstType >= 0 && nblocks == 0) && r.Intn(emptyEvery) == 0 {
			emit(r.Intn(3), false, pos, pos)
			nblocks++
		}
		rem := len(payload) - pos
		if rem == 0 {
			break
		}
		seg := rem
		if r.Intn(4) != 0 || nblocks > 200 {
			m := maxSeg
			if nblocks > 200 {
				m = 70000
			}
			if m > rem {
				m = rem
			}
			seg = 1 + r.Intn(m)
		}
		t := pickType()
		saveLit := litOnly
		if nblocks == 0 && firstType >= 0 {
			t, litOnly = firstType, true
			seg = firstSeg
			if seg > rem {
				seg = rem
			}
		}
		if t == 0 && seg > 65535 {
			seg = 65535
		}
		final := pos+seg == len(payload) && r.Intn(3) != 0
		emit(t, final, pos, pos+seg)
		litOnly = saveLit
		nblocks++
		pos += seg
		done = final
	}
	if !done {
		emit(r.Intn(3), true, pos, pos) // a final empty block
	}
	w.align(pad)
	return w.out, sb.String()
}

func c16zwrap(r *rand.Rand, deflate, payload, dict []byte) []byte {
	cmf := byte(0x78)
	if r.Intn(4) == 0 {
		cmf = byte(r.Intn(8))<<4 | 8
	}
	flg := byte(r.Intn(4)) << 6
	if dict != nil {
		flg |= 0x20
	}
	flg += byte(31-(uint32(cmf)<<8|uint32(flg))%31) % 31
	out := []byte{cmf, flg}
	if dict != nil {
		a := adler32.Checksum(dict)
		out = append(out, byte(a>>24), byte(a>>16), byte(a>>8), byte(a))
	}
	out = append(out, deflate...)
	a := adler32.Checksum(payload)
	return append(out, byte(a>>24), byte(a>>16), byte(a>>8), byte(a))
}

// ---------------------------------------------------------------------------
// (3) valid streams: the oracle

type c16state struct {
	rc      *vk.Rec
	br      bytes.Reader
	fr      io.ReadCloser
	zr      io.ReadCloser
	out     []byte
	buf     []byte
	wb      bytes.Buffer
	sigSeen map[string]int
	fw      map[int]*flate.Writer
	zw      map[int]*zlib.Writer
}

type c16stream struct {
	format  int
	stream  []byte
	dict    []byte
	zoff    int // zlib header bytes in front of the DEFLATE data
	ztail   int // 4 for zlib
	payload []byte
	pclass  string
	enc     string
}

func (s *c16stream) deflate() []byte { return s.stream[s.zoff : len(s.stream)-s.ztail] }

func (st *c16state) build(r *rand.Rand, big bool) *c16stream {
	s := &c16stream{format: r.Intn(2)}
	s.payload, s.pclass = c16payload(r, big)
	kind := r.Intn(10)
	firstType, firstSeg := -1, 0
	if big && r.Intn(3) == 0 {
		// a first Huffman block that is longer than 64 KiB and longer than
		// the data it encodes
		kind = 9
		s.payload, s.pclass = c16rand(r, 66000+r.Intn(60000)), "random-long"
		if r.Intn(3) == 0 {
			s.payload, s.pclass = c16text(r, 90000+r.Intn(60000)), "text-long"
			firstType = 2
		} else {
			firstType = 1 + r.Intn(2)
		}
		firstSeg = 62000 + r.Intn(len(s.payload)-62000+1)
	}
	level := r.Intn(12) - 2
	var bb bytes.Buffer
	switch {
	case kind < 7:
		dn := ""
		if kind >= 5 {
			s.dict, dn = c16dict(r, s.payload)
		}
		var w c16flusher
		if s.format == c16Flate {
			if s.dict == nil {
				fw := st.fw[level]
				if fw == nil {
					fw, _ = flate.NewWriter(&bb, level)
					st.fw[level] = fw
				} else {
					fw.Reset(&bb)
				}
				w = fw
			} else {
				w, _ = flate.NewWriterDict(&bb, level, s.dict)
			}
		} else {
			if s.dict == nil {
				zw := st.zw[level]
				if zw == nil {
					zw, _ = zlib.NewWriterLevel(&bb, level)
					st.zw[level] = zw
				} else {
					zw.Reset(&bb)
				}
				w = zw
			} else {
				w, _ = zlib.NewWriterLevelDict(&bb, level, s.dict)
			}
		}
		nf := c16goWrite(r, w, s.payload)
		s.stream = append([]byte(nil), bb.Bytes()...)
		s.enc = fmt.Sprintf("go(level=%d,flushes=%d,dict=%s/%d)", level, nf, dn, len(s.dict))
		if s.format == c16Zlib {
			s.zoff, s.ztail = 2, 4
			if s.dict != nil {
				s.zoff = 6
			}
		}
	default:
		def, desc := c16hand(r, s.payload, firstType, firstSeg)
		s.enc = desc
		if s.format == c16Zlib {
			if r.Intn(6) == 0 {
				s.dict = c16rand(r, 1+r.Intn(40))
				s.zoff = 6
			} else {
				s.zoff = 2
			}
			s.ztail = 4
			s.stream = c16zwrap(r, def, s.payload, s.dict)
		} else {
			s.stream = def
		}
	}
	return s
}

var errC16TooLong = errors.New("decodes to more bytes than the payload has")

// decode runs Go's decoder over data and returns the output (at most max
// bytes are accepted), the number of input bytes the decoder left unread, and
// the decoder's error. The returned slice is reused by the next call.
func (st *c16state) decode(format int, data, dict []byte, max int) ([]byte, int, error) {
	st.br.Reset(data)
	var rd io.ReadCloser
	if format == c16Flate {
		if st.fr == nil {
			st.fr = flate.NewReaderDict(&st.br, dict)
		} else if err := st.fr.(flate.Resetter).Reset(&st.br, dict); err != nil {
			return nil, st.br.Len(), err
		}
		rd = st.fr
	} else {
		if st.zr == nil {
			zr, err := zlib.NewReaderDict(&st.br, dict)
			if err != nil {
				return nil, st.br.Len(), err
			}
			st.zr = zr
		} else if err := st.zr.(zlib.Resetter).Reset(&st.br, dict); err != nil {
			return nil, st.br.Len(), err
		}
		rd = st.zr
	}
	if cap(st.out) < max+1 {
		st.out = make([]byte, max+1, 2*max+1)
	}
	out := st.out[:max+1]
	n := 0
	for {
		if n == len(out) {
			return out[:n], st.br.Len(), errC16TooLong
		}
		m, err := rd.Read(out[n:])
		n += m
		if err == io.EOF {
			break
		}
		if err != nil {
			return out[:n], st.br.Len(), err
		}
	}
	if err := rd.Close(); err != nil {
		return out[:n], st.br.Len(), err
	}
	return out[:n], st.br.Len(), nil
}

func c16errClass(err error) string {
	s := err.Error()
	var b []byte
	prev := false
	for i := 0; i < len(s) && len(b) < 60; i++ {
		c := s[i]
		if c >= '0' && c <= '9' {
			if !prev {
				b = append(b, 'N')
			}
			prev = true
			continue
		}
		prev = false
		b = append(b, c)
	}
	return string(b)
}

func c16call(format int, w io.Writer, buf []byte, limit int) (e, d int, err error, psig string, pval interface{}) {
	defer func() {
		if rec := recover(); rec != nil {
			psig = vk.PanicSig(rec)
			pval = rec
		}
	}()
	if format == c16Flate {
		e, d, err = flatecut.Cut(w, buf, limit)
	} else {
		e, d, err = zlibcut.Cut(w, buf, limit)
	}
	return
}

func (st *c16state) viol(sig, what, phase string, idx int64, extra map[string]interface{}) {
	st.sigSeen[sig]++
	if st.sigSeen[sig] > 3 {
		st.rc.Count("violations_suppressed_same_sig", 1)
		return
	}
	st.rc.ViolateCase(sig, what, phase, idx, extra)
}

func c16hexTrunc(b []byte) string {
	if len(b) <= 4096 {
		return hex.EncodeToString(b)
	}
	return hex.EncodeToString(b[:256]) + fmt.Sprintf("...(%d bytes; regenerate with --replay)", len(b))
}

func (st *c16state) extra(s *c16stream, limit, wi, e, d int) map[string]interface{} {
	return map[string]interface{}{
		"format": c16fmtName[s.format], "encoder": s.enc, "payload_class": s.pclass,
		"limit": limit, "with_writer": wi == 1, "encodedLen": e, "decodedLen": d,
		"stream_len": len(s.stream), "payload_len": len(s.payload),
		"stream_hex": c16hexTrunc(s.stream), "payload_hex": c16hexTrunc(s.payload), "dict_hex": c16hexTrunc(s.dict),
	}
}

type c16sample struct {
	Format  string `json:"format"`
	Encoder string `json:"encoder"`
	Payload string `json:"payload"`
	Stream  string `json:"stream"`
	Blocks  string `json:"blocks"`
	Limit   int    `json:"limit"`
	EncLen  int    `json:"encodedLen"`
	DecLen  int    `json:"decodedLen"`
	Path    string `json:"path"`
	Writer  bool   `json:"with_writer"`
}

func (st *c16state) validCase(phase string, idx int64) {
	rc := st.rc
	r := rc.RNG(phase, idx)
	big := r.Intn(12) == 0
	s := st.build(r, big)
	out, trailing, err := st.decode(s.format, s.stream, s.dict, len(s.payload))
	if err == errC16TooLong && s.dict != nil && strings.HasPrefix(s.enc, "go(") {
		// compress/flate's NewWriterDict sometimes copies the dictionary into
		// a first stored block (seen with large incompressible payloads at
		// levels >= 2): the encoder's output then decodes to dictionary +
		// payload. That is the generator's problem, not a stream for C16.
		rc.Count("generator_go_dict_quirk_skipped", 1)
		return
	}
	if err != nil || trailing != 0 || !bytes.Equal(out, s.payload) {
		rc.Inconclusive(fmt.Sprintf("c16 harness: generated stream is not valid (idx %d, %s, %s): err=%v trailing=%d", idx, c16fmtName[s.format], s.enc, err, trailing))
		return
	}
	def := s.deflate()
	exhaustive := len(s.stream) <= 2048
	blks, err := c16scan(def, !exhaustive)
	tot := 0
	for i := range blks {
		tot += blks[i].dec
	}
	if err != nil || tot != len(s.payload) || (blks[len(blks)-1].end+7)/8 != int64(len(def)) {
		rc.Inconclusive(fmt.Sprintf("c16 harness: block scanner disagrees with the decoder (idx %d, %s): err=%v dec=%d/%d", idx, s.enc, err, tot, len(s.payload)))
		return
	}
	seq := c16seqClass(blks)
	rc.Count("streams", 1)
	rc.Count("streams_"+c16fmtName[s.format], 1)
	rc.Count("blocks_scanned", int64(len(blks)))
	min := flatecut.SmallestValidMaxEncodedLen
	if s.format == c16Zlib {
		min = zlibcut.SmallestValidMaxEncodedLen
	}
	var limits []int
	if exhaustive {
		for l := min; l <= len(s.stream)+2; l++ {
			limits = append(limits, l)
		}
		rc.Count("streams_exhaustive_limits", 1)
		rc.Count("limits_in_exhaustive_sweeps", int64(len(limits)))
	} else {
		limits = c16targets(r, s, blks, min)
		rc.Count("streams_targeted_limits", 1)
		rc.Count("limits_targeted", int64(len(limits)))
	}
	sampleAt := -1
	if rc.NSamples() < 6 && r.Intn(8) == 0 {
		sampleAt = r.Intn(len(limits))
	}
	for i, l := range limits {
		for wi := 0; wi < 2; wi++ {
			st.cutOne(phase, idx, s, blks, seq, l, wi, i == sampleAt && wi == 0)
		}
	}
}

// c16targets picks limits for a stream too long for an exhaustive sweep.
func c16targets(r *rand.Rand, s *c16stream, blks []c16blk, min int) []int {
	set := map[int]bool{}
	n := len(s.stream)
	off := s.zoff + s.ztail
	add := func(l int) {
		if l >= min && l <= n+2 {
			set[l] = true
		}
	}
	for l := min; l < min+10; l++ {
		add(l)
	}
	for l := n - 8; l <= n+2; l++ {
		add(l)
	}
	around := func(bit int64) {
		c := int((bit+7)/8) + off
		for d := -1; d <= 2; d++ {
			add(c + d)
		}
	}
	for k := 0; k < 24 && k < len(blks); k++ {
		i := k
		if k >= 6 {
			i = r.Intn(len(blks))
		}
		b := &blks[i]
		around(b.start)
		around(b.body)
		around(b.eob)
		around(b.end)
	}
	// symbol boundaries where the end-of-block code just fits / just does not
	for k := 0; k < 24; k++ {
		b := &blks[r.Intn(len(blks))]
		if len(b.syms) == 0 {
			continue
		}
		p := int64(b.syms[r.Intn(len(b.syms))]) + (b.end - b.eob)
		c := int((p+7)/8) + off
		add(c - 1)
		add(c)
	}
	for d := -1; d <= 3; d++ {
		add(65540 + d + off) // largest single stored block
	}
	for _, d := range []int{9, 100, 1500} {
		add(65541 + d + r.Intn(d) + off)
	}
	for k := 0; k < 24; k++ {
		add(min + r.Intn(n-min+1))
	}
	out := make([]int, 0, len(set))
	for l := range set {
		out = append(out, l)
	}
	sort.Ints(out)
	return out
}

func (st *c16state) cutOne(phase string, idx int64, s *c16stream, blks []c16blk, seq string, limit, wi int, sample bool) {
	rc := st.rc
	st.buf = append(st.buf[:0], s.stream...)
	buf := st.buf
	var w io.Writer
	if wi == 1 {
		st.wb.Reset()
		w = &st.wb
	}
	fn := c16fmtName[s.format]
	e, d, err, psig, pval := c16call(s.format, w, buf, limit)
	desc := fmt.Sprintf("%scut.Cut(writer=%v, %d-byte valid stream [%s, blocks %s], limit %d) = (%d, %d, %v)", fn, wi == 1, len(s.stream), s.enc, seq, limit, e, d, err)
	if psig != "" {
		st.viol("valid:"+fn+":"+psig, fmt.Sprintf("panic %v in %s", pval, desc), phase, idx, st.extra(s, limit, wi, e, d))
		return
	}
	if err != nil {
		rc.Count("valid_stream_cut_error:"+c16errClass(err), 1)
		return
	}
	rc.Eval(1)
	off := s.zoff + s.ztail
	L := limit - off
	bad := func(sig, msg string) {
		st.viol(sig, msg+": "+desc, phase, idx, st.extra(s, limit, wi, e, d))
	}
	if e < 0 || d < 0 {
		bad("negative-length:"+fn, "negative length returned")
		return
	}
	if e > limit {
		if e-limit <= 2 && c16emptyHuffmanAtLimit(blks, L) {
			rc.Count("known_empty_huffman_over_limit", 1)
			bad(c16KnownSig, "encodedLen exceeds the limit (an empty Huffman block's end-of-block code straddles the limit)")
		} else {
			bad("over-limit:"+fn, "encodedLen exceeds the limit")
		}
		return
	}
	if e > len(buf) {
		bad("over-buffer:"+fn, "encodedLen exceeds the buffer")
		return
	}
	path := "none"
	if e >= off {
		path = c16path(blks, s.deflate(), buf[s.zoff:], e-off)
	}
	dec, trailing, derr := st.decode(s.format, buf[:e], s.dict, len(s.payload))
	switch {
	case derr == errC16TooLong:
		bad("longer-than-payload:"+fn+":"+path, "buf[:encodedLen] decodes to more bytes than the original payload has")
		return
	case derr != nil:
		bad("undecodable:"+fn+":"+path+":"+c16errClass(derr), fmt.Sprintf("buf[:encodedLen] is not a complete valid stream (%v after %d bytes)", derr, len(dec)))
		return
	case trailing != 0:
		bad("trailing-bytes:"+fn+":"+path, fmt.Sprintf("the stream in buf[:encodedLen] ends %d byte(s) before encodedLen", trailing))
		return
	}
	if len(dec) != d || !bytes.Equal(dec, s.payload[:d]) {
		kind := "wrong-bytes"
		if bytes.HasPrefix(s.payload, dec) {
			kind = "decodedLen-mismatch"
		}
		bad(kind+":"+fn+":"+path, fmt.Sprintf("buf[:encodedLen] decodes to %d bytes that are not payload[:decodedLen]", len(dec)))
		return
	}
	if wi == 1 && !bytes.Equal(st.wb.Bytes(), dec) {
		bad("writer-differs:"+fn+":"+path, fmt.Sprintf("the writer received %d bytes that differ from the decoded prefix", st.wb.Len()))
		return
	}
	if limit >= len(s.stream) && d != len(s.payload) {
		bad("not-whole:"+fn+":"+path, "limit >= len(stream) but the cut does not keep the whole payload")
		return
	}
	rc.Count("path_"+path, 1)
	if wi == 1 {
		rc.Count("cuts_checked_with_writer", 1)
	} else {
		rc.Count("cuts_checked_nil_writer", 1)
	}
	rc.Class(fn[:1] + "|" + seq + "|" + path + "|" + c16limitPos(blks, L, len(s.stream)-off))
	if sample {
		rc.Sample(c16sample{fn, s.enc, s.pclass + " " + vk.Trunc(s.payload, 24), hex.EncodeToString(s.stream[:c16min(len(s.stream), 32)]) + fmt.Sprintf(" (%d bytes)", len(s.stream)),
			seq, limit, e, d, path, wi == 1})
	}
}

func c16min(a, b int) int {
	if a < b {
		return a
	}
	return b
}

// ---------------------------------------------------------------------------
// (4) robustness: arbitrary bytes

func c16fixZlibHeader(b []byte, keepDictBit bool) {
	if len(b) < 2 {
		return
	}
	b[0] = b[0]&0xF0 | 8
	if !keepDictBit {
		b[1] &^= 0x20
	}
	b[1] &^= 0x1F
	b[1] += byte(31-(uint32(b[0])<<8|uint32(b[1]))%31) % 31
}

func c16mutate(r *rand.Rand, b []byte) []byte {
	b = append([]byte(nil), b...)
	for k := 1 + r.Intn(3); k > 0; k-- {
		if len(b) == 0 {
			b = append(b, byte(r.Intn(256)))
			continue
		}
		i := r.Intn(len(b))
		if r.Intn(3) == 0 && len(b) > 12 {
			i = r.Intn(12) // headers
		}
		switch r.Intn(8) {
		case 0, 1, 2:
			b[i] ^= 1 << uint(r.Intn(8))
		case 3:
			b[i] = []byte{0, 0xFF, byte(r.Intn(256))}[r.Intn(3)]
		case 4:
			b = b[:i]
		case 5:
			b = append(b[:i], b[i+1:]...)
		case 6:
			b = append(b[:i], append([]byte{byte(r.Intn(256))}, b[i:]...)...)
		default:
			j := r.Intn(len(b))
			n := r.Intn(len(b) - c16max(i, j) + 1)
			copy(b[i:i+n], append([]byte(nil), b[j:j+n]...))
		}
	}
	return b
}

func c16max(a, b int) int {
	if a > b {
		return a
	}
	return b
}

func (st *c16state) robCase(phase string, idx int64) {
	rc := st.rc
	r := rc.RNG(phase, idx)
	format := r.Intn(2)
	mode := r.Intn(5)
	var buf []byte
	mname := ""
	switch mode {
	case 0, 1, 2:
		s := st.build(r, false)
		for len(s.stream) > 6000 {
			s = st.build(r, false)
		}
		format = s.format
		if mode == 2 {
			mname = "valid-prefix+random-tail"
			buf = append(append([]byte(nil), s.stream[:r.Intn(len(s.stream)+1)]...), c16rand(r, r.Intn(64))...)
		} else {
			mname = "mutated-valid"
			buf = c16mutate(r, s.stream)
		}
		if format == c16Zlib && r.Intn(2) == 0 {
			c16fixZlibHeader(buf, true)
		}
	case 3:
		mname = "random"
		buf = c16rand(r, r.Intn(400))
		if len(buf) > 0 && r.Intn(2) == 0 {
			buf[0] = buf[0]&^7 | byte(r.Intn(8)) // choose the first block header
		}
		if format == c16Zlib && r.Intn(4) != 0 {
			c16fixZlibHeader(buf, r.Intn(4) == 0)
		}
	default:
		mname = "random-block-body"
		// a well-formed first block header followed by random bits
		w := &c16bw{}
		switch r.Intn(3) {
		case 0:
			n := r.Intn(70000)
			w.bits(uint32(r.Intn(2)), 1)
			w.bits(0, 2)
			w.align(0)
			w.bits(uint32(n), 16)
			w.bits(^uint32(n), 16)
		case 1:
			w.bits(uint32(r.Intn(2)), 1)
			w.bits(1, 2)
		default:
			w.dynamic(r, r.Intn(2) == 0, nil)
			if len(w.out) > 2 {
				w.out = w.out[:len(w.out)-1-r.Intn(2)] // drop the end-of-block code
			}
			w.acc, w.n = 0, 0
		}
		w.align(uint32(r.Intn(256)))
		buf = append(w.out, c16rand(r, r.Intn(300))...)
		if format == c16Zlib {
			buf = append([]byte{0x78, 0x9c}, buf...)
		}
	}
	n := len(buf)
	cands := []int{-1, 0, 1, 2, 5, 6, 7, 8, 9, 10, 12, n - 1, n, n + 1, n + 5, 1 << 30, 1<<30 + 1, 1<<31 - 1, 1 << 31, int(^uint(0) >> 1), -1 << 31}
	for k := 0; k < 6; k++ {
		limit := cands[r.Intn(len(cands))]
		if k >= 2 {
			limit = r.Intn(n + 4)
		}
		b2 := append(st.buf[:0], buf...)
		st.buf = b2
		var w io.Writer
		wi := r.Intn(2)
		if wi == 1 {
			st.wb.Reset()
			w = &st.wb
		}
		e, d, err, psig, pval := c16call(format, w, b2, limit)
		rc.Eval(1)
		fn := c16fmtName[format]
		ex := map[string]interface{}{"format": fn, "mode": mname, "limit": limit, "with_writer": wi == 1,
			"encodedLen": e, "decodedLen": d, "input_hex": c16hexTrunc(buf), "input_len": n}
		if psig != "" {
			st.viol("rob:"+fn+":"+psig, fmt.Sprintf("panic %v in %scut.Cut(writer=%v, %d arbitrary bytes [%s], limit %d)", pval, fn, wi == 1, n, mname, limit), phase, idx, ex)
			continue
		}
		outcome := "ok"
		if err != nil {
			outcome = c16errClass(err)
		} else if e < 0 || e > limit || e > n {
			sig := "rob:" + fn + ":lengths-out-of-range"
			if e >= 0 && e <= n && e-limit <= 2 {
				off := 0
				if format == c16Zlib {
					off = 6
					if n > 1 && buf[1]&0x20 != 0 {
						off = 10
					}
				}
				if n >= off {
					blks, _ := c16scan(buf[off-c16min(off, 4):n-c16min(off, 4)], false)
					if c16emptyHuffmanAtLimit(blks, limit-off) {
						sig = c16KnownSig
						rc.Count("known_empty_huffman_over_limit", 1)
					}
				}
			}
			st.viol(sig, fmt.Sprintf("%scut.Cut(writer=%v, %d arbitrary bytes [%s], limit %d) = (%d, %d, nil): encodedLen outside the limit or the buffer", fn, wi == 1, n, mname, limit, e, d), phase, idx, ex)
			continue
		}
		rc.Count("robustness_calls", 1)
		if err == nil {
			rc.Count("robustness_nil_error", 1)
		}
		rc.Class("rob|" + fn[:1] + "|" + mname + "|" + outcome)
	}
}

// C16 runs both phases.
func C16(rc *vk.Rec) {
	st := &c16state{rc: rc, sigSeen: map[string]int{}, fw: map[int]*flate.Writer{}, zw: map[int]*zlib.Writer{}}
	n := rc.N(640, 30000)
	for idx := int64(0); idx < int64(n); idx++ {
		if rc.SkipCase("c16", idx) {
			continue
		}
		rc.Mark("c16", idx)
		st.validCase("c16", idx)
	}
	m := rc.N(20000, 1200000)
	for idx := int64(0); idx < int64(m); idx++ {
		if rc.SkipCase("c16rob", idx) {
			continue
		}
		rc.Mark("c16rob", idx)
		st.robCase("c16rob", idx)
	}
}
