package mon

import (
	"bytes"
	"fmt"
	"math/rand"
	"os"
	"path/filepath"
	"sort"
	"strings"
	"syscall"

	"github.com/google/wuffs/lang/parse"
	"github.com/google/wuffs/lang/render"
	t "github.com/google/wuffs/lang/token"
	"github.com/google/wuffs/lib/dumbindent"

	"verif/internal/vk"
)

// C12: both formatters change only white space and are idempotent.
//
// Phase family "wfmt*" drives lang/token + lang/parse + lang/render the way
// cmd/wuffsfmt does (Tokenize, Parse with AllowDoubleUnderscoreNames, Render).
// A source the command rejects (tokenize error, parse error, render error) is
// outside the property and only counted. For an accepted source the output
// must (a) tokenize to the same token strings (numeric literals equal after
// deleting '_' and folding case) and the same comments (up to trailing white
// space), (b) parse, (c) render to itself.
//
// Phase family "dumb*" drives lib/dumbindent.FormatBytes on lexically closed
// C-like texts (own lexer decides closedness) x options. The output must equal
// the input after stripping each line's leading and trailing blanks and the
// trailing blank lines, and re-indenting the output must change nothing.
// Termination is a logical budget of the child process (RLIMIT_CPU/RLIMIT_AS).
//
// Monitor "C12H" (phase "dumbh") holds the one text family that the unfixed
// tree cannot survive: a second "/*" or "`" section on the line that closes a
// multi-line section. Every text that has that shape (decided by c12dumbStale,
// a dry run of dumbindent's own line segmentation) is routed there, so a
// child killed by it costs nothing else.

const C12StaleSig = "dumbindent:section-after-multiline-close"

func init() {
	Table["C12"] = C12
	Table["C12H"] = C12H
}

// c12limitAS caps the address space at what is mapped now plus headroom. (A
// limit set after start-up has to be relative: the Go runtime has reserved
// about a gigabyte of address space before main runs, more in cgo builds.)
func c12limitAS(rc *vk.Rec, headroom uint64) {
	b, err := os.ReadFile("/proc/self/statm")
	if err != nil {
		rc.Inconclusive("C12: cannot read /proc/self/statm: " + err.Error())
		return
	}
	var pages uint64
	fmt.Sscan(string(b), &pages)
	cur := pages * uint64(os.Getpagesize())
	rc.Max("max_address_space_mb_before_limit", int64(cur>>20))
	lim := cur + headroom
	if err := syscall.Setrlimit(syscall.RLIMIT_AS, &syscall.Rlimit{Cur: lim, Max: lim}); err != nil {
		rc.Inconclusive("C12: setrlimit(RLIMIT_AS): " + err.Error())
	}
}

func c12repo() string {
	if v := os.Getenv("VERIF_REPO"); v != "" {
		return v
	}
	return "/repo"
}

// c12try runs f and returns the recovered panic value, if any.
func c12try(f func()) (sig string, pv interface{}) {
	defer func() {
		if r := recover(); r != nil {
			pv = r
			sig = vk.PanicSig(r)
		}
	}()
	f()
	return "", nil
}

// ---------------------------------------------------------------- wuffsfmt

type c12tok struct {
	s    string
	kind byte
	trig bool // a following newline inserts an implicit ";"
}

type c12line struct {
	toks []c12tok
	cmt  string
	raw  string // the original text of the line (no newline)
}

type c12file struct {
	name  string
	lines []c12line
}

func c12kind(tm *t.Map, id t.ID) byte {
	switch {
	case id == t.IDSemicolon:
		return ';'
	case id.IsOpen():
		return '('
	case id.IsClose():
		return ')'
	case id.IsAssign():
		return '='
	case id.IsKeyword():
		return 'k'
	case id.IsNumLiteral(tm):
		return 'n'
	case id.IsDQStrLiteral(tm):
		return 'd'
	case id.IsSQStrLiteral(tm):
		return 'q'
	}
	s := tm.ByID(id)
	if s == "" {
		return '?'
	}
	c := s[0]
	alpha := c == '_' || ('a' <= c && c <= 'z') || ('A' <= c && c <= 'Z')
	if id.IsUnaryOp() || id.IsBinaryOp() {
		if alpha {
			return 'w' // and, or, as, not
		}
		return 'o'
	}
	if id.IsIdent(tm) {
		return 'i'
	}
	if alpha {
		return 'b' // other built-in words: literals, type modifiers
	}
	return 'p'
}

func c12load(name string, src []byte) (*c12file, bool) {
	tm := &t.Map{}
	var toks []t.Token
	var cmts []string
	var err error
	if _, pv := c12try(func() { toks, cmts, err = t.Tokenize(tm, name, src) }); pv != nil || err != nil {
		return nil, false
	}
	raws := strings.Split(string(src), "\n")
	f := &c12file{name: name, lines: make([]c12line, len(raws))}
	for i := range raws {
		f.lines[i].raw = strings.TrimRight(raws[i], "\r")
	}
	for _, tk := range toks {
		li := int(tk.Line) - 1
		if li < 0 || li >= len(f.lines) {
			return nil, false
		}
		f.lines[li].toks = append(f.lines[li].toks, c12tok{tm.ByID(tk.ID), c12kind(tm, tk.ID), tk.ID.IsImplicitSemicolon(tm)})
	}
	for i, c := range cmts {
		if c != "" && i >= 1 && i-1 < len(f.lines) {
			f.lines[i-1].cmt = strings.TrimRight(c, "\r")
		}
	}
	return f, true
}

type c12corpus struct {
	files []*c12file
}

func c12wuffsCorpus() *c12corpus {
	root := c12repo()
	var names []string
	for _, pat := range []string{"std/*/*.wuffs", "test/*/*.wuffs", "hello-wuffs-c/*.wuffs", "example/*/*.wuffs"} {
		m, _ := filepath.Glob(filepath.Join(root, pat))
		names = append(names, m...)
	}
	sort.Strings(names)
	c := &c12corpus{}
	for _, n := range names {
		b, err := os.ReadFile(n)
		if err != nil {
			continue
		}
		rel, _ := filepath.Rel(root, n)
		if f, ok := c12load(rel, b); ok {
			c.files = append(c.files, f)
		}
	}
	return c
}

// c12depths returns, per line, the curly and paren/bracket nesting after it.
func c12depths(lines []c12line) (curly, paren []int) {
	curly = make([]int, len(lines))
	paren = make([]int, len(lines))
	c, p := 0, 0
	for i, ln := range lines {
		for _, tk := range ln.toks {
			switch tk.s {
			case "{", "{{":
				c++
			case "}", "}}":
				c--
			case "(", "[":
				p++
			case ")", "]":
				p--
			}
		}
		curly[i], paren[i] = c, p
	}
	return
}

func c12endsStmt(ln c12line) bool {
	return len(ln.toks) > 0 && ln.toks[len(ln.toks)-1].kind == ';'
}

// c12sliceDecls keeps a random selection of top-level declarations.
func c12sliceDecls(r *rand.Rand, lines []c12line) []c12line {
	curly, paren := c12depths(lines)
	var cuts []int // exclusive ends of chunks
	for i, ln := range lines {
		if curly[i] == 0 && paren[i] == 0 && c12endsStmt(ln) {
			cuts = append(cuts, i+1)
		}
	}
	if len(cuts) < 2 {
		return lines
	}
	var out []c12line
	if r.Intn(2) == 0 { // contiguous run
		k := 1 + r.Intn(6)
		a := r.Intn(len(cuts))
		b := a + k
		if b > len(cuts) {
			b = len(cuts)
		}
		lo := 0
		if a > 0 {
			lo = cuts[a-1]
		}
		return lines[lo:cuts[b-1]]
	}
	keep := 0.15 + 0.5*r.Float64()
	lo := 0
	for _, hi := range cuts {
		if r.Float64() < keep {
			out = append(out, lines[lo:hi]...)
		}
		lo = hi
	}
	if len(out) == 0 {
		out = lines[:cuts[0]]
	}
	return out
}

// c12dropStmts deletes random whole statements (balanced line ranges at one
// nesting depth) from inside blocks.
func c12dropStmts(r *rand.Rand, lines []c12line) []c12line {
	p := 0.05 + 0.3*r.Float64()
	var out []c12line
	curly, paren := 0, 0
	prevStart := true // previous token line ended a statement or opened a block
	for i := 0; i < len(lines); {
		ln := lines[i]
		if len(ln.toks) == 0 {
			out = append(out, ln)
			i++
			continue
		}
		if curly >= 1 && paren == 0 && prevStart && r.Float64() < p {
			// find the end of the statement starting here
			c, q, ok, j := curly, 0, true, i
			for ; j < len(lines) && ok; j++ {
				for _, tk := range lines[j].toks {
					switch tk.s {
					case "{", "{{":
						c++
					case "}", "}}":
						c--
					case "(", "[":
						q++
					case ")", "]":
						q--
					}
					if c < curly {
						ok = false
					}
				}
				if ok && c == curly && q == 0 && c12endsStmt(lines[j]) {
					break
				}
			}
			if ok && j < len(lines) {
				i = j + 1
				continue
			}
		}
		for _, tk := range ln.toks {
			switch tk.s {
			case "{", "{{":
				curly++
			case "}", "}}":
				curly--
			case "(", "[":
				paren++
			case ")", "]":
				paren--
			}
		}
		last := ln.toks[len(ln.toks)-1]
		prevStart = last.kind == ';' || last.s == "{" || last.s == "{{"
		out = append(out, ln)
		i++
	}
	return out
}

var c12cmtTexts = []string{"//", "// x", "//x", "// TODO: {", "// a // b", "// /* c */", "//   spaced   ", "// tab\there",
	"// \"quote", "// 'q", "// }", "// ;", "// \xc3\xa9\xe2\x88\x99", "// \xff\xfe", "// 0x_1", "// trailing \t", "////", "// pub func f() {"}

var c12indents = []string{"", "", " ", "  ", "\t", "    ", "\t\t", " \t ", "        ", "\t ", "      "}
var c12gaps = []string{" ", " ", "  ", "\t", " \t", "   ", "\t\t"}

func c12needSpace(a, b string) bool {
	if a == "" || b == "" {
		return false
	}
	cls := func(c byte) int {
		if c == '_' || c == '"' || c == '\'' || ('0' <= c && c <= '9') || ('a' <= c && c <= 'z') || ('A' <= c && c <= 'Z') || c >= 0x80 {
			return 1
		}
		return 2
	}
	return cls(a[len(a)-1]) == cls(b[0])
}

// c12respell re-groups underscores and re-cases a numeric literal.
func c12respell(r *rand.Rand, s string) string {
	prefix, digits := "", s
	if len(s) >= 2 && s[0] == '0' && (s[1] == 'x' || s[1] == 'X' || s[1] == 'b' || s[1] == 'B') {
		prefix, digits = s[:2], s[2:]
	}
	digits = strings.ReplaceAll(digits, "_", "")
	if digits == "" {
		return s
	}
	if prefix != "" && r.Intn(3) == 0 {
		if r.Intn(2) == 0 {
			prefix = strings.ToUpper(prefix)
		} else {
			prefix = strings.ToLower(prefix)
		}
	}
	pu := []float64{0, 0.1, 0.25, 0.5, 0.9}[r.Intn(5)]
	caseMode := r.Intn(4) // 0 keep 1 lower 2 upper 3 random
	var b strings.Builder
	b.WriteString(prefix)
	for i := 0; i < len(digits); i++ {
		c := digits[i]
		isAlpha := ('a' <= c && c <= 'f') || ('A' <= c && c <= 'F')
		if isAlpha {
			switch caseMode {
			case 1:
				c |= 0x20
			case 2:
				c &^= 0x20
			case 3:
				if r.Intn(2) == 0 {
					c ^= 0x20
				}
			}
		}
		// an underscore may precede any digit except the first of a decimal
		// literal (that would make an identifier) or the one after a leading
		// decimal zero.
		if r.Float64() < pu && (i > 0 || prefix != "") && !(prefix == "" && i == 1 && digits[0] == '0') {
			b.WriteByte('_')
		}
		b.WriteByte(c)
	}
	out := b.String()
	if len(out) > 900 {
		return s
	}
	return out
}

type c12mut struct {
	gap, indent, trail, nl, cmtMid, join, cmtOwn, cmtEnd, semi, num, blanks, crlf, cmtDrop bool
	p, keepRaw                                                                             float64
}

var c12mutNames = []string{"gap", "indent", "trail", "nl", "cmtmid", "join", "cmtown", "cmtend", "semi", "num", "blanks", "crlf", "cmtdrop"}

func c12pickMut(r *rand.Rand) c12mut {
	var m c12mut
	flags := []*bool{&m.gap, &m.indent, &m.trail, &m.nl, &m.cmtMid, &m.join, &m.cmtOwn, &m.cmtEnd, &m.semi, &m.num, &m.blanks, &m.crlf, &m.cmtDrop}
	switch r.Intn(4) {
	case 0: // one kind
		*flags[r.Intn(len(flags))] = true
	case 1: // two kinds
		*flags[r.Intn(len(flags))] = true
		*flags[r.Intn(len(flags))] = true
	default:
		for _, f := range flags {
			*f = r.Intn(3) == 0
		}
	}
	if m.crlf && r.Intn(3) != 0 {
		m.crlf = false
	}
	m.p = []float64{0.02, 0.1, 0.3, 0.7}[r.Intn(4)]
	m.keepRaw = []float64{0, 0.3, 0.8}[r.Intn(3)]
	return m
}

// c12emit writes the line model back as source text, applying the mutation
// kinds in m; it records (kind|left|right) site classes into cls.
func c12emit(r *rand.Rand, lines []c12line, m c12mut, cls map[string]bool) []byte {
	var out bytes.Buffer
	eol := "\n"
	if m.crlf {
		eol = "\r\n"
		cls["crlf|*|*"] = true
	}
	hit := func() bool { return r.Float64() < m.p }
	indent := func() string {
		if m.indent {
			return c12indents[r.Intn(len(c12indents))]
		}
		return ""
	}
	trail := func() string {
		if m.trail && hit() {
			return []string{" ", "  ", "\t", " \t "}[r.Intn(4)]
		}
		return ""
	}
	site := func(kind string, l, rt byte) {
		cls[fmt.Sprintf("%s|%c|%c", kind, l, rt)] = true
	}
	prevLast := byte('^') // kind of the last token emitted so far
	firstKind := func(i int) byte {
		for ; i < len(lines); i++ {
			if len(lines[i].toks) > 0 {
				return lines[i].toks[0].kind
			}
		}
		return '$'
	}
	for i := 0; i < len(lines); i++ {
		ln := lines[i]
		if len(ln.toks) == 0 && ln.cmt == "" {
			if m.blanks && hit() {
				if r.Intn(2) == 0 {
					site("blank-", prevLast, firstKind(i))
					continue // drop the blank line
				}
				site("blank+", prevLast, firstKind(i))
				for k := r.Intn(3); k >= 0; k-- {
					out.WriteString(trail() + eol)
				}
			}
			out.WriteString(trail() + eol)
			continue
		}
		if m.blanks && hit() && r.Intn(3) == 0 {
			site("blank+", prevLast, firstKind(i))
			out.WriteString(eol)
		}
		if m.cmtOwn && hit() {
			site("cmtown", prevLast, firstKind(i))
			for k := r.Intn(2); k >= 0; k-- {
				out.WriteString(c12indents[r.Intn(len(c12indents))] + c12cmtTexts[r.Intn(len(c12cmtTexts))] + eol)
			}
		}
		if len(ln.toks) == 0 { // comment-only line
			if m.cmtDrop && hit() {
				site("cmtdrop", prevLast, firstKind(i))
				continue
			}
			out.WriteString(indent() + ln.cmt + trail() + eol)
			continue
		}
		if r.Float64() < m.keepRaw {
			out.WriteString(ln.raw + eol)
			prevLast = ln.toks[len(ln.toks)-1].kind
			continue
		}
		out.WriteString(indent())
		cmt := ln.cmt
		toks := ln.toks
		for {
			var prev *c12tok
			for j := range toks {
				tk := &toks[j]
				lastOnLine := j == len(toks)-1
				if tk.kind == ';' && lastOnLine && prev != nil && prev.trig {
					// an implicit semicolon may stay implicit
					if !(m.semi && hit()) {
						continue
					}
					site("semi", prev.kind, '$')
				}
				if prev != nil {
					if (m.nl || m.cmtMid) && !prev.trig && hit() {
						if m.cmtMid && r.Intn(2) == 0 {
							site("cmtmid", prev.kind, tk.kind)
							out.WriteString(c12gaps[r.Intn(len(c12gaps))] + c12cmtTexts[r.Intn(len(c12cmtTexts))])
						} else {
							site("nl", prev.kind, tk.kind)
						}
						out.WriteString(trail() + eol + c12indents[r.Intn(len(c12indents))])
					} else if m.gap {
						if !c12needSpace(prev.s, tk.s) && r.Intn(2) == 0 {
							site("gap0", prev.kind, tk.kind)
						} else {
							site("gap", prev.kind, tk.kind)
							out.WriteString(c12gaps[r.Intn(len(c12gaps))])
						}
					} else {
						out.WriteString(" ")
					}
				}
				s := tk.s
				if tk.kind == 'n' && m.num && hit() {
					s = c12respell(r, s)
					if s != tk.s {
						site("num", 'n', 'n')
					}
				}
				out.WriteString(s)
				prev = tk
			}
			prevLast = toks[len(toks)-1].kind
			// join with the next line?
			if m.join && cmt == "" && i+1 < len(lines) && len(lines[i+1].toks) > 0 && hit() {
				nx := lines[i+1]
				if toks[len(toks)-1].kind == ';' {
					// the terminator must now be explicit
					if prev == nil || prev.kind != ';' {
						out.WriteString(";")
					}
				}
				site("join", prevLast, nx.toks[0].kind)
				out.WriteString(" ")
				i++
				toks, cmt = nx.toks, nx.cmt
				continue
			}
			break
		}
		if cmt != "" && m.cmtDrop && hit() {
			site("cmtdrop", prevLast, '$')
			cmt = ""
		}
		if cmt != "" {
			out.WriteString("  " + cmt)
		} else if m.cmtEnd && hit() {
			site("cmtend", prevLast, '$')
			out.WriteString(c12gaps[r.Intn(len(c12gaps))] + c12cmtTexts[r.Intn(len(c12cmtTexts))])
		}
		out.WriteString(trail() + eol)
	}
	if m.cmtOwn && hit() {
		site("cmtown", prevLast, '$')
		out.WriteString(c12indents[r.Intn(len(c12indents))] + c12cmtTexts[r.Intn(len(c12cmtTexts))])
		if r.Intn(2) == 0 {
			out.WriteString(eol)
		}
	}
	return out.Bytes()
}

func c12numNorm(s string) string {
	return strings.ToLower(strings.ReplaceAll(s, "_", ""))
}

func c12isNum(s string) bool { return s != "" && '0' <= s[0] && s[0] <= '9' }

func c12cmtSeq(cmts []string) []string {
	var out []string
	for _, c := range cmts {
		if c != "" {
			out = append(out, strings.TrimRight(c, " \t\r"))
		}
	}
	return out
}

var c12parseOpts = &parse.Options{AllowDoubleUnderscoreNames: true}

type c12wsample struct {
	Phase string `json:"phase"`
	From  string `json:"from"`
	Mut   string `json:"mutations"`
	In    string `json:"in"`
	Out   string `json:"out"`
}

// c12wfmtCheck applies the wuffsfmt oracle to one source text. It returns
// true if the formatter accepted the text.
func c12wfmtCheck(rc *vk.Rec, phase string, idx int64, from, mut string, src []byte, cls map[string]bool, sample bool) bool {
	rc.Count("wfmt_cases", 1)
	extra := map[string]interface{}{"from": from, "mutations": mut, "input_quoted": fmt.Sprintf("%q", src)}
	if len(src) > 6000 {
		extra["input_quoted"] = fmt.Sprintf("%q", src[:6000])
		extra["input_truncated_total_len"] = len(src)
	}
	const fn = "c12.wuffs"
	tm := &t.Map{}
	var toks []t.Token
	var cmts []string
	var err error
	if _, pv := c12try(func() { toks, cmts, err = t.Tokenize(tm, fn, src) }); pv != nil || err != nil {
		rc.Count("wfmt_rejected_tokenize", 1)
		return false
	}
	if _, pv := c12try(func() { _, err = parse.Parse(tm, fn, toks, c12parseOpts) }); pv != nil || err != nil {
		rc.Count("wfmt_rejected_parse", 1)
		return false
	}
	buf := &bytes.Buffer{}
	if sig, pv := c12try(func() { err = render.Render(buf, tm, toks, cmts) }); pv != nil {
		rc.ViolateCase("wuffsfmt:render-"+sig, fmt.Sprintf("render.Render panicked on an accepted source: %v", pv), phase, idx, extra)
		return true
	}
	if err != nil {
		rc.Count("wfmt_rejected_render_error", 1)
		return false
	}
	rc.Eval(1)
	rc.Count("wfmt_accepted", 1)
	out := append([]byte(nil), buf.Bytes()...)
	extra["output"] = vk.Trunc(out, 3000)

	// (a) same tokens, same comments
	tm2 := &t.Map{}
	var toks2 []t.Token
	var cmts2 []string
	if sig, pv := c12try(func() { toks2, cmts2, err = t.Tokenize(tm2, fn, out) }); pv != nil {
		rc.ViolateCase("wuffsfmt:output-tokenize-"+sig, fmt.Sprintf("Tokenize panicked on the formatter's output: %v", pv), phase, idx, extra)
		return true
	}
	if err != nil {
		rc.ViolateCase("wuffsfmt:output-untokenizable", "the formatter's output does not tokenize: "+err.Error(), phase, idx, extra)
		return true
	}
	n := len(toks)
	if len(toks2) < n {
		n = len(toks2)
	}
	nums := int64(0)
	for i := 0; i <= n; i++ {
		var s1, s2 string
		if i < len(toks) {
			s1 = tm.ByID(toks[i].ID)
		}
		if i < len(toks2) {
			s2 = tm2.ByID(toks2[i].ID)
		}
		if i == n && len(toks) == len(toks2) {
			break
		}
		same := s1 == s2
		if !same && c12isNum(s1) && c12isNum(s2) && c12numNorm(s1) == c12numNorm(s2) {
			same = true
			nums++
		}
		if !same {
			k := byte('$')
			if i < len(toks) {
				k = c12kind(tm, toks[i].ID)
			}
			extra["token_index"] = i
			rc.ViolateCase(fmt.Sprintf("wuffsfmt:tokens-changed:%c", k),
				fmt.Sprintf("token %d of the output is %q, of the input %q (input has %d tokens, output %d)", i, s2, s1, len(toks), len(toks2)),
				phase, idx, extra)
			return true
		}
	}
	rc.Count("wfmt_tokens_compared", int64(len(toks)))
	rc.Count("wfmt_num_literals_respelled_by_render", nums)
	c1, c2 := c12cmtSeq(cmts), c12cmtSeq(cmts2)
	rc.Count("wfmt_comments_compared", int64(len(c1)))
	if len(c1) != len(c2) || strings.Join(c1, "\n") != strings.Join(c2, "\n") {
		where := "some-tokens"
		if len(toks) == 0 {
			where = "no-tokens"
		}
		first := 0
		for first < len(c1) && first < len(c2) && c1[first] == c2[first] {
			first++
		}
		extra["comment_index"] = first
		rc.ViolateCase("wuffsfmt:comments-changed:"+where,
			fmt.Sprintf("input has %d comments, output %d; first difference at comment %d", len(c1), len(c2), first), phase, idx, extra)
		return true
	}
	// (b) still parses
	if sig, pv := c12try(func() { _, err = parse.Parse(tm2, fn, toks2, c12parseOpts) }); pv != nil {
		rc.ViolateCase("wuffsfmt:output-parse-"+sig, fmt.Sprintf("Parse panicked on the formatter's output: %v", pv), phase, idx, extra)
		return true
	}
	if err != nil {
		rc.ViolateCase("wuffsfmt:output-unparsable", "the input parsed but the formatter's output does not: "+err.Error(), phase, idx, extra)
		return true
	}
	// (c) idempotent
	buf2 := &bytes.Buffer{}
	if sig, pv := c12try(func() { err = render.Render(buf2, tm2, toks2, cmts2) }); pv != nil {
		rc.ViolateCase("wuffsfmt:rerender-"+sig, fmt.Sprintf("render.Render panicked on its own output: %v", pv), phase, idx, extra)
		return true
	}
	if err != nil {
		rc.ViolateCase("wuffsfmt:rerender-error", "render.Render rejects its own output: "+err.Error(), phase, idx, extra)
		return true
	}
	if !bytes.Equal(buf2.Bytes(), out) {
		a, b := out, buf2.Bytes()
		d := 0
		for d < len(a) && d < len(b) && a[d] == b[d] {
			d++
		}
		lo := d - 200
		if lo < 0 {
			lo = 0
		}
		extra["first_diff_offset"] = d
		extra["once_near_diff"] = vk.Trunc(a[lo:], 400)
		extra["twice_near_diff"] = vk.Trunc(b[lo:], 400)
		rc.ViolateCase("wuffsfmt:not-idempotent", fmt.Sprintf("formatting the output again changes it at byte %d", d), phase, idx, extra)
		return true
	}
	if !bytes.Equal(out, src) {
		rc.Count("wfmt_output_differs_from_input", 1)
		if phase == "wfmt-orig" {
			rc.Count("wfmt_orig_not_already_formatted", 1)
		}
	}
	for c := range cls {
		rc.Class("wfmt|" + c)
	}
	if sample {
		rc.Sample(c12wsample{phase, from, mut, vk.Trunc(src, 300), vk.Trunc(out, 300)})
	}
	return true
}

func c12mutString(m c12mut) string {
	flags := []bool{m.gap, m.indent, m.trail, m.nl, m.cmtMid, m.join, m.cmtOwn, m.cmtEnd, m.semi, m.num, m.blanks, m.crlf, m.cmtDrop}
	var on []string
	for i, f := range flags {
		if f {
			on = append(on, c12mutNames[i])
		}
	}
	return fmt.Sprintf("%s p=%.2f raw=%.1f", strings.Join(on, "+"), m.p, m.keepRaw)
}

// c12edgeSources are tiny hand-written inputs for positions the corpus has
// none of (no tokens at all, comments at the very start/end, ...).
var c12edgeSources = []string{
	"",
	"\n\n",
	"// only a comment\n",
	"// two\n// comments\n\n// and a third after a blank line",
	"\n\n// comment after blank lines\n\n",
	"use \"std/crc32\"\n",
	"// head\nuse \"std/crc32\"  // tail\n// foot\n",
	"// head\n\n\n\nuse \"std/crc32\"\n\n\n\n// foot\n\n\n// foot2",
	"pub status \"#bad\"\n\npub const X : base.u32 = 0x_Ff_ff\npub const LONGER_NAME : base.u32 = 1000000\n",
	"pub const A : base.u8 = 1 // one\npub const BB : base.u8 = 123456 // two\n\npub const CCC : base.u64 = 0B1_0000_0001\n",
	"pub struct foo?(\n// c0\na : base.u8, // c1\n\n\nbcd : base.u32,\n// c2\n)\n// c3\n",
	"pub func foo.bar!(a: base.u8) base.u8 {\nvar x : base.u8 // c\n// d\nvar yy : base.u8\nx = args.a +\n// mid\n1\nif x > 0 { return x; } // t\nreturn 0 }\n",
	"pub const LEADZ : base.u32 = 0_1\npub const LEADZZ : base.u32 = 0_0_0017\npub const Z : base.u32 = 0_0\npub const H : base.u32 = 0x0_1\n",
	"pri func foo.f() {\n    while.outer true {{\n        while true {\n            break.outer\n        }\n    }}.outer\n}\n",
	"pub func foo.g!() {\n    this.x = (- 1) as base.u8\n    this.y = not (this.a and this.b)\n    this.z = this.t[.. 3][1 ..= 2]\n}\n",
}

func c12wfmt(rc *vk.Rec) {
	corp := c12wuffsCorpus()
	if rc.Shard == 0 {
		rc.Count("wfmt_corpus_files", int64(len(corp.files)))
	}
	if len(corp.files) == 0 {
		rc.Inconclusive("C12: no Wuffs sources found under " + c12repo())
		return
	}
	// originals, verbatim
	phase := "wfmt-orig"
	for i, f := range corp.files {
		idx := int64(i)
		if i%rc.NShards != rc.Shard || rc.SkipCase(phase, idx) {
			continue
		}
		rc.Mark(phase, idx)
		var sb strings.Builder
		for k, ln := range f.lines {
			sb.WriteString(ln.raw)
			if k+1 < len(f.lines) {
				sb.WriteString("\n")
			}
		}
		before := rc.NViolations()
		if c12wfmtCheck(rc, phase, idx, f.name, "verbatim", []byte(sb.String()), map[string]bool{"orig|" + filepath.Dir(f.name): true}, i < 2) && rc.NViolations() == before {
			rc.Count("wfmt_orig_accepted", 1)
		}
	}
	// hand-written edge positions (every shard takes a share)
	phase = "wfmt-edge"
	for i, s := range c12edgeSources {
		idx := int64(i)
		if i%rc.NShards != rc.Shard || rc.SkipCase(phase, idx) {
			continue
		}
		rc.Mark(phase, idx)
		c12wfmtCheck(rc, phase, idx, "edge", "verbatim", []byte(s), map[string]bool{fmt.Sprintf("edge|%d", i): true}, false)
		// and re-spaced
		for k := 0; k < 8; k++ {
			f, ok := c12load("edge", []byte(s))
			if !ok {
				break
			}
			r := vk.CaseRNG(rc.Seed, 0, phase, int64(i*100+k))
			m := c12pickMut(r)
			cls := map[string]bool{}
			src := c12emit(r, f.lines, m, cls)
			c12wfmtCheck(rc, phase, idx, "edge", c12mutString(m), src, cls, false)
		}
	}
	// mutants and slices
	phase = "wfmt"
	n := rc.N(12800, 1500000)
	for idx := int64(0); idx < int64(n); idx++ {
		if rc.SkipCase(phase, idx) {
			continue
		}
		r := rc.RNG(phase, idx)
		f := corp.files[r.Intn(len(corp.files))]
		lines := f.lines
		mode := "file"
		switch p := r.Intn(100); {
		case p < 15:
		case p < 70:
			mode = "decls"
			lines = c12sliceDecls(r, lines)
		case p < 92:
			mode = "stmts"
			lines = c12dropStmts(r, c12sliceDecls(r, lines))
		default:
			mode = "lines"
			a := r.Intn(len(lines))
			b := a + 1 + r.Intn(60)
			if b > len(lines) {
				b = len(lines)
			}
			lines = lines[a:b]
		}
		m := c12pickMut(r)
		cls := map[string]bool{}
		src := c12emit(r, lines, m, cls)
		rc.Mark(phase, idx)
		ok := c12wfmtCheck(rc, phase, idx, f.name+":"+mode, c12mutString(m), src, cls, idx == 3 || idx == 4)
		if ok {
			rc.Count("wfmt_accepted_"+mode, 1)
		} else {
			rc.Count("wfmt_rejected_"+mode, 1)
		}
	}
}

// -------------------------------------------------------------- dumbindent

// per-line lexical features (C-like view: //, /* */, "..", '..', `..`).
const (
	c12fStr = 1 << iota
	c12fEsc
	c12fChr
	c12fLineCmt
	c12fBlk1
	c12fBlkOpen
	c12fBlkIn
	c12fBlkClose
	c12fRaw1
	c12fRawOpen
	c12fRawIn
	c12fRawClose
	c12fPP
	c12fCont
	c12fAfter
	c12fMulti
	c12fBrace
	c12fParen
	c12fLabel
	c12fBlank
	c12fStrCont
	c12fHangEq
)

// the features that make up the non-trivial class of a line
const c12lexical = c12fStr | c12fEsc | c12fChr | c12fLineCmt | c12fBlk1 | c12fBlkOpen | c12fBlkIn | c12fBlkClose |
	c12fRaw1 | c12fRawOpen | c12fRawIn | c12fRawClose | c12fPP | c12fCont | c12fAfter | c12fStrCont

var c12featNames = []string{"str", "esc", "chr", "//", "/**/", "/*", "in*", "*/", "`1`", "`open", "in`", "`close", "#", "\\eol", "after-close",
	"multi", "brace", "paren", "label", "blank", "str\\nl", "=eol"}

// c12featPrimary names the most specific lexical feature of a line; it keeps
// violation signatures few and stable.
func c12featPrimary(f uint32) string {
	for _, b := range []uint32{c12fAfter, c12fBlkClose, c12fRawClose, c12fBlkOpen, c12fRawOpen, c12fBlkIn, c12fRawIn, c12fStrCont, c12fPP,
		c12fBlk1, c12fRaw1, c12fLineCmt, c12fEsc, c12fStr, c12fChr, c12fCont, c12fLabel, c12fBlank} {
		if f&b != 0 {
			return c12featString(b)
		}
	}
	return "plain"
}

func c12featString(f uint32) string {
	if f == 0 {
		return "plain"
	}
	var s []string
	for i, n := range c12featNames {
		if f&(1<<uint(i)) != 0 {
			s = append(s, n)
		}
	}
	return strings.Join(s, ",")
}

// c12lex scans b with a C-like lexer. closed reports whether every string,
// character literal, raw string and comment is terminated (a cooked literal
// must end on its line unless the newline is backslash-escaped). lastCodeEOL
// is the last line index at whose end the lexer was outside any literal or
// block comment (-1 if none), so b's lines [0, lastCodeEOL] are closed.
func c12lex(b []byte) (feats []uint32, closed bool, lastCodeEOL int) {
	const (
		sCode = iota
		sLine
		sBlk
		sDq
		sSq
		sRaw
	)
	state := sCode
	line := 0
	feats = append(feats, 0)
	lastCodeEOL = -1
	opened := -1
	sections := 0
	afterClose := false
	seenNB := false
	lastNB := byte(0)
	bad := false
	endLine := func() {
		f := feats[line]
		if !seenNB {
			f |= c12fBlank
		}
		switch lastNB {
		case '\\':
			f |= c12fCont
		case ':':
			f |= c12fLabel
		case '=':
			f |= c12fHangEq
		}
		switch state {
		case sBlk:
			if opened == line {
				f |= c12fBlkOpen
			} else if f&c12fBlkClose == 0 {
				f |= c12fBlkIn
			} else {
				f |= c12fBlkOpen
			}
		case sRaw:
			if opened == line {
				f |= c12fRawOpen
			} else if f&c12fRawClose == 0 {
				f |= c12fRawIn
			} else {
				f |= c12fRawOpen
			}
		}
		if sections >= 2 {
			f |= c12fMulti
		}
		feats[line] = f
		line++
		feats = append(feats, 0)
		sections, afterClose, seenNB, lastNB = 0, false, false, 0
	}
	for i := 0; i < len(b); i++ {
		c := b[i]
		if c == '\n' {
			switch state {
			case sLine:
				state = sCode
			case sDq, sSq:
				bad = true // unterminated; resynchronise so later lines still get features
				state = sCode
			}
			if state == sCode && !bad {
				lastCodeEOL = line
			}
			endLine()
			continue
		}
		if c != ' ' && c != '\t' {
			if !seenNB && c == '#' && state == sCode {
				feats[line] |= c12fPP
			}
			seenNB = true
			lastNB = c
		}
		switch state {
		case sCode:
			if afterClose && c != ' ' && c != '\t' {
				feats[line] |= c12fAfter
			}
			switch c {
			case '/':
				if i+1 < len(b) && b[i+1] == '/' {
					state = sLine
					feats[line] |= c12fLineCmt
					sections++
				} else if i+1 < len(b) && b[i+1] == '*' {
					state = sBlk
					opened = line
					sections++
					i++
					lastNB = '*'
				}
			case '"':
				state = sDq
				feats[line] |= c12fStr
			case '\'':
				state = sSq
				feats[line] |= c12fChr
			case '`':
				state = sRaw
				opened = line
				sections++
			case '{', '}':
				feats[line] |= c12fBrace
			case '(', ')':
				feats[line] |= c12fParen
			}
		case sBlk:
			if c == '*' && i+1 < len(b) && b[i+1] == '/' {
				i++
				lastNB = '/'
				state = sCode
				if opened == line {
					feats[line] |= c12fBlk1
				} else {
					feats[line] |= c12fBlkClose
					afterClose = true
				}
			}
		case sRaw:
			if c == '`' {
				state = sCode
				if opened == line {
					feats[line] |= c12fRaw1
				} else {
					feats[line] |= c12fRawClose
					afterClose = true
				}
			}
		case sDq, sSq:
			if c == '\\' {
				feats[line] |= c12fEsc
				if i+1 < len(b) {
					i++
					if b[i] == '\n' {
						feats[line] |= c12fStrCont
						endLine()
					} else if b[i] != ' ' && b[i] != '\t' {
						lastNB = b[i]
					}
				}
			} else if (c == '"' && state == sDq) || (c == '\'' && state == sSq) {
				state = sCode
			}
		}
	}
	closed = !bad && (state == sCode || state == sLine)
	if closed {
		lastCodeEOL = line
	}
	endLine()
	feats = feats[:len(feats)-1]
	if len(b) > 0 && b[len(b)-1] == '\n' && len(feats) > 1 {
		feats = feats[:len(feats)-1] // no line after the final newline
		if closed {
			lastCodeEOL = len(feats) - 1
		}
	}
	return feats, closed, lastCodeEOL
}

// c12dumbView dry-runs the segmentation that dumbindent documents and
// implements (preprocessor directives and their continuation lines opaque,
// cooked literals end at their line, "/*" and "`" sections may span lines).
// stale reports whether a "/*" or "`" section starts on the rest of a line on
// which an earlier section that crossed a newline has closed; it only routes
// texts to the C12H monitor. open reports whether, in this reading, a "/*" or
// "`" section is still open at the end of the text; such a text is not
// lexically closed in dumbindent's own terms and is left out (the C-like
// reading of c12lex and this one disagree only inside preprocessor directives
// and after a backslash-newline).
func c12dumbView(src []byte) (stale, open bool) {
	isWS := func(c byte) bool { return c == ' ' || c == '\t' }
	for len(src) > 0 && (isWS(src[0]) || src[0] == '\n') {
		src = src[1:]
	}
	preproc := false
	for len(src) > 0 {
		for len(src) > 0 && isWS(src[0]) {
			src = src[1:]
		}
		eol := bytes.IndexByte(src, '\n')
		line := src
		if eol >= 0 {
			line = src[:eol]
		}
		next := func(cur []byte) []byte { // the text after cur's line
			if j := bytes.IndexByte(cur, '\n'); j >= 0 {
				return cur[j+1:]
			}
			return nil
		}
		if len(line) == 0 {
			src = next(src)
			continue
		}
		if preproc || line[0] == '#' {
			last := byte(0)
			for j := len(line) - 1; j >= 0; j-- {
				if !isWS(line[j]) {
					last = line[j]
					break
				}
			}
			preproc = last == '\\'
			src = next(src)
			continue
		}
		cur := src
		crossed := false
	scan:
		for {
			seg := cur
			if j := bytes.IndexByte(cur, '\n'); j >= 0 {
				seg = cur[:j]
			}
			for i := 0; i < len(seg); i++ {
				switch c := seg[i]; c {
				case '/':
					if i+1 >= len(seg) {
						continue
					}
					if seg[i+1] == '/' {
						break scan
					}
					if seg[i+1] == '*' {
						if crossed {
							stale = true
						}
						tail := cur[i+2:]
						end := bytes.Index(tail, []byte("*/"))
						if end < 0 {
							return stale, true
						}
						if bytes.IndexByte(tail[:end], '\n') >= 0 {
							crossed = true
						}
						cur = tail[end+2:]
						continue scan
					}
				case '"', '\'':
					j := i + 1
					done := false
					for j < len(seg) {
						if seg[j] == c {
							done = true
							break
						} else if seg[j] != '\\' {
							j++
						} else if j+1 < len(seg) {
							j += 2
						} else {
							break
						}
					}
					if !done {
						break scan
					}
					i = j
				case '`':
					if crossed {
						stale = true
					}
					tail := cur[i+1:]
					end := bytes.IndexByte(tail, '`')
					if end < 0 {
						return stale, true
					}
					if bytes.IndexByte(tail[:end], '\n') >= 0 {
						crossed = true
					}
					cur = tail[end+1:]
					continue scan
				}
			}
			break
		}
		src = next(cur)
	}
	return stale, false
}

func c12dumbStale(src []byte) bool {
	stale, _ := c12dumbView(src)
	return stale
}

func c12norm(b []byte) []string {
	lines := strings.Split(string(b), "\n")
	for i := range lines {
		lines[i] = strings.Trim(lines[i], " \t")
	}
	for len(lines) > 0 && lines[len(lines)-1] == "" {
		lines = lines[:len(lines)-1]
	}
	return lines
}

// c12dropLeadingBlank removes leading blank lines: dumbindent deliberately
// drops them (its own test "Leading blank lines" pins that) while the
// property's normalisation only forgives trailing ones, so such texts are not
// given to it.
func c12dropLeadingBlank(b []byte) []byte {
	for {
		i := 0
		for i < len(b) && (b[i] == ' ' || b[i] == '\t') {
			i++
		}
		if i < len(b) && b[i] == '\n' {
			b = b[i+1:]
			continue
		}
		if i == len(b) {
			return b[:0]
		}
		return b
	}
}

type c12opt struct {
	o    *dumbindent.Options
	name string
}

func c12pickOpt(r *rand.Rand) c12opt {
	switch k := r.Intn(12); {
	case k < 8:
		return c12opt{&dumbindent.Options{Spaces: k + 1}, fmt.Sprintf("s%d", k+1)}
	case k < 10:
		sp := r.Intn(5) - 1
		return c12opt{&dumbindent.Options{Tabs: true, Spaces: sp}, "tabs"}
	case k == 10:
		sp := -r.Intn(3)
		return c12opt{&dumbindent.Options{Spaces: sp}, "s<=0"}
	}
	return c12opt{nil, "nil"}
}

type c12dsample struct {
	Phase string `json:"phase"`
	From  string `json:"from"`
	Opt   string `json:"opt"`
	In    string `json:"in"`
	Out   string `json:"out"`
}

// c12dumbCheck applies the dumbindent oracle to one lexically closed text.
// staleSig, if not empty, is the signature used for the manifestations of the
// stale-offset defect (monitor C12H only).
func c12dumbCheck(rc *vk.Rec, phase string, idx int64, from string, src []byte, feats []uint32, opt c12opt, staleSig string, sample bool) {
	rc.Eval(1)
	rc.Count("dumb_cases", 1)
	rc.Count("dumb_input_bytes", int64(len(src)))
	extra := map[string]interface{}{"from": from, "opt": opt.name, "input_quoted": fmt.Sprintf("%q", src)}
	if opt.o != nil {
		extra["spaces"], extra["tabs"] = opt.o.Spaces, opt.o.Tabs
	}
	if len(src) > 6000 {
		extra["input_quoted"] = fmt.Sprintf("%q", src[:6000])
		extra["input_truncated_total_len"] = len(src)
	}
	sig := func(s string) string {
		if staleSig != "" {
			return staleSig
		}
		return s
	}
	var out []byte
	if ps, pv := c12try(func() { out = dumbindent.FormatBytes(nil, src, opt.o) }); pv != nil {
		rc.ViolateCase(sig("dumbindent:"+ps), fmt.Sprintf("FormatBytes panicked: %v", pv), phase, idx, extra)
		return
	}
	extra["output"] = vk.Trunc(out, 3000)
	a, b := c12norm(src), c12norm(out)
	diff := -1
	for i := 0; i < len(a) || i < len(b); i++ {
		if i >= len(a) || i >= len(b) || a[i] != b[i] {
			diff = i
			break
		}
	}
	if diff >= 0 {
		fs := "eof"
		if diff < len(feats) {
			fs = c12featPrimary(feats[diff])
			extra["line_features"] = c12featString(feats[diff])
		}
		var la, lb string
		if diff < len(a) {
			la = a[diff]
		}
		if diff < len(b) {
			lb = b[diff]
		}
		extra["line"] = diff
		rc.ViolateCase(sig("dumbindent:not-whitespace-only:"+fs),
			fmt.Sprintf("normalised output differs from normalised input at line %d (%d vs %d lines): got %q want %q", diff, len(b), len(a), vk.Trunc([]byte(lb), 120), vk.Trunc([]byte(la), 120)),
			phase, idx, extra)
		return
	}
	var out2 []byte
	if ps, pv := c12try(func() { out2 = dumbindent.FormatBytes(nil, out, opt.o) }); pv != nil {
		rc.ViolateCase(sig("dumbindent:reformat-"+ps), fmt.Sprintf("FormatBytes panicked on its own output: %v", pv), phase, idx, extra)
		return
	}
	if !bytes.Equal(out, out2) {
		d, ln := 0, 0
		for d < len(out) && d < len(out2) && out[d] == out2[d] {
			if out[d] == '\n' {
				ln++
			}
			d++
		}
		fs := "eof"
		if ln < len(feats) {
			fs = c12featPrimary(feats[ln])
			extra["line_features"] = c12featString(feats[ln])
		}
		extra["line"] = ln
		extra["twice"] = vk.Trunc(out2, 3000)
		rc.ViolateCase("dumbindent:not-idempotent:"+fs, fmt.Sprintf("re-indenting the output changes it at byte %d (line %d)", d, ln), phase, idx, extra)
		return
	}
	if !bytes.Equal(out, src) {
		rc.Count("dumb_output_differs_from_input", 1)
	}
	rc.Count("dumb_lines", int64(len(feats)))
	seen := map[uint32]bool{}
	for _, f := range feats {
		f &= c12lexical
		if !seen[f] {
			seen[f] = true
			rc.Class("dumb|" + c12featString(f) + "|" + opt.name)
		}
	}
	if sample {
		rc.Sample(c12dsample{phase, from, opt.name, vk.Trunc(src, 300), vk.Trunc(out, 300)})
	}
}

// ---- grammar of C-like snippets

var c12words = []string{"int", "x", "y", "foo", "bar(", ")", "if", "else", "return", "while", "a[i]", "->p", "*q", "0x1F", "+", "==", "&&", ",", "<<",
	"/", "*", "::", "extern \"C\" {", "namespace n {", "struct s", "\\", "#", "..."}
var c12strPieces = []string{"a", "bc", " ", "  ", "\\\"", "\\\\", "\\n", "//", "/*", "*/", "{", "}", "(", ")", "'", "`", "%d", "\\'", "#", "\\x7B", "\t", "=", "\\\\\\\""}
var c12chrs = []string{`'"'`, `'\''`, `'\\'`, `'a'`, `'{'`, `'}'`, `'('`, `')'`, `'/'`, "'`'", `'\0'`, `'*'`, `'#'`, `'='`, `' '`}
var c12cmtPieces = []string{"a", "foo", " ", "  ", "\"", "'", "`", "//", "/*", "{", "}", "(", ")", "\\", "#", "*", "/", "=", "don't", "\t", "TODO:"}

type c12cgen struct {
	r    *rand.Rand
	hang bool
}

func (g *c12cgen) pick(xs []string) string { return xs[g.r.Intn(len(xs))] }

func (g *c12cgen) ws() string {
	return []string{"", "", " ", "  ", "\t", " \t", "    ", "\t\t"}[g.r.Intn(8)]
}

func (g *c12cgen) str() string {
	var b strings.Builder
	b.WriteByte('"')
	for k := g.r.Intn(5); k > 0; k-- {
		b.WriteString(g.pick(c12strPieces))
	}
	if g.r.Intn(6) == 0 {
		b.WriteString("\\\\")
	}
	if g.r.Intn(40) == 0 {
		b.WriteString("\\\n") // continued on the next line
		for k := g.r.Intn(3); k > 0; k-- {
			b.WriteString(g.pick(c12strPieces))
		}
	}
	b.WriteByte('"')
	return b.String()
}

// interior text of a comment or raw string; never contains stop.
func (g *c12cgen) interior(stop string, max int) string {
	var b strings.Builder
	for k := g.r.Intn(max + 1); k > 0; k-- {
		b.WriteString(g.pick(c12cmtPieces))
	}
	s := b.String()
	for strings.Contains(s, stop) {
		s = strings.Replace(s, stop, stop[:1]+" "+stop[1:], 1)
		if len(stop) == 1 {
			s = strings.ReplaceAll(s, stop, "'")
		}
	}
	return s
}

// code emits k code segments (no multi-line opener).
func (g *c12cgen) code(k int) string {
	var b strings.Builder
	for ; k > 0; k-- {
		switch p := g.r.Intn(100); {
		case p < 30:
			b.WriteString(g.pick(c12words))
		case p < 38:
			b.WriteString("{")
		case p < 46:
			b.WriteString("}")
		case p < 52:
			b.WriteString("(")
		case p < 58:
			b.WriteString(")")
		case p < 63:
			b.WriteString(";")
		case p < 67:
			b.WriteString("=")
		case p < 77:
			b.WriteString(g.str())
		case p < 84:
			b.WriteString(g.pick(c12chrs))
		case p < 93:
			b.WriteString("/*" + g.interior("*/", 4) + "*/")
		default:
			b.WriteString("`" + g.interior("`", 4) + "`")
		}
		if g.r.Intn(3) != 0 {
			b.WriteString(g.ws())
		}
	}
	return b.String()
}

// sectionsAfterClose emits what follows the closer of a multi-line section.
func (g *c12cgen) afterClose() string {
	if !g.hang && g.r.Intn(3) != 0 {
		return g.ws()
	}
	var b strings.Builder
	b.WriteString(g.ws())
	if g.r.Intn(2) == 0 {
		b.WriteString(g.code(g.r.Intn(3)))
	}
	if g.hang || g.r.Intn(12) == 0 {
		if g.r.Intn(3) == 0 {
			b.WriteString("`" + g.interior("`", 3) + "`")
		} else {
			b.WriteString("/*" + g.interior("*/", 3) + "*/")
		}
	}
	b.WriteString(g.code(g.r.Intn(3)))
	return b.String()
}

func (g *c12cgen) text() string {
	r := g.r
	var b strings.Builder
	n := 1 + r.Intn(24)
	mode := 0 // 0 code 1 in block comment 2 in raw string
	ppCont := false
	for li := 0; li < n; li++ {
		b.WriteString(g.ws())
		if mode != 0 {
			stop := "*/"
			if mode == 2 {
				stop = "`"
			}
			b.WriteString(g.interior(stop, 5))
			if r.Intn(2) == 0 || li == n-1 {
				b.WriteString(stop)
				mode = 0
				b.WriteString(g.afterClose())
				// possibly open the next multi-line section right away
				if r.Intn(8) == 0 && li < n-1 {
					if r.Intn(2) == 0 {
						b.WriteString("/*" + g.interior("*/", 2))
						mode = 1
					} else {
						b.WriteString("`" + g.interior("`", 2))
						mode = 2
					}
				} else if r.Intn(5) == 0 {
					b.WriteString("//" + g.interior("\n", 4))
				}
			}
			b.WriteString(g.ws() + "\n")
			continue
		}
		if ppCont {
			b.WriteString(g.code(r.Intn(4)))
			if r.Intn(2) == 0 && li < n-1 {
				b.WriteString(g.ws() + "\\")
			} else {
				ppCont = false
			}
			b.WriteString(g.ws() + "\n")
			continue
		}
		switch p := r.Intn(100); {
		case p < 6:
			// blank or white-space-only line
		case p < 16:
			b.WriteString("#" + g.ws() + g.pick([]string{"include <a.h>", "define X", "if defined(A) &&", "ifdef A", "endif", "pragma once", "define M(a) do {", "else", "error bad", "define S"}))
			b.WriteString(g.ws() + g.code(r.Intn(3)))
			switch r.Intn(6) {
			case 0:
				if li < n-1 {
					b.WriteString(g.ws() + "\\")
					ppCont = true
				}
			case 1:
				b.WriteString("// " + g.interior("\n", 3))
			case 2:
				if li < n-1 {
					b.WriteString("/*" + g.interior("*/", 2))
					mode = 1
				}
			}
		case p < 21:
			b.WriteString(g.pick([]string{"label:", "fail :", "case 0:", "case 'a':", "default:", "public:", "case X: {", "exit: ;"}))
		case p < 25:
			b.WriteString(g.pick([]string{"}", "}}", "} }", "});", "} else {", "},", "} // end", "} /* end */ x"}))
		default:
			b.WriteString(g.code(1 + r.Intn(6)))
			switch q := r.Intn(100); {
			case q < 22:
				b.WriteString("//" + g.interior("\n", 5))
			case q < 36:
				if li < n-1 {
					b.WriteString("/*" + g.interior("*/", 3))
					mode = 1
				}
			case q < 44:
				if li < n-1 {
					b.WriteString("`" + g.interior("`", 3))
					mode = 2
				}
			case q < 50:
				b.WriteString(g.pick([]string{"=", "\\", "(", "{", ",", "+"}))
			}
		}
		b.WriteString(g.ws() + "\n")
	}
	s := b.String()
	switch r.Intn(6) {
	case 0:
		s = strings.TrimSuffix(s, "\n")
	case 1:
		s += strings.Repeat(g.ws()+"\n", 1+r.Intn(3))
	}
	return s
}

// ---- corpus of real C

type c12cfile struct {
	name   string
	data   []byte
	starts []int  // byte offset of each line
	codeBO []bool // lexer is in code state at the start of line i
}

func c12loadC() []*c12cfile {
	root := c12repo()
	var names []string
	for _, pat := range []string{"release/c/*.c", "internal/cgen/base/*.c", "internal/cgen/base/*.h", "example/*/*.c", "example/*/*.cc"} {
		m, _ := filepath.Glob(filepath.Join(root, pat))
		names = append(names, m...)
	}
	sort.Strings(names)
	var out []*c12cfile
	for _, n := range names {
		b, err := os.ReadFile(n)
		if err != nil || len(b) == 0 {
			continue
		}
		rel, _ := filepath.Rel(root, n)
		f := &c12cfile{name: rel, data: b}
		f.starts = append(f.starts, 0)
		for i, c := range b {
			if c == '\n' && i+1 < len(b) {
				f.starts = append(f.starts, i+1)
			}
		}
		feats, _, _ := c12lex(b)
		f.codeBO = make([]bool, len(f.starts))
		for i := range f.codeBO {
			if i == 0 {
				f.codeBO[i] = true
				continue
			}
			if i-1 < len(feats) {
				p := feats[i-1]
				f.codeBO[i] = p&(c12fBlkOpen|c12fBlkIn|c12fRawOpen|c12fRawIn|c12fStrCont) == 0
			}
		}
		out = append(out, f)
	}
	return out
}

func (f *c12cfile) slice(a, b int) []byte { // lines [a, b)
	lo := f.starts[a]
	hi := len(f.data)
	if b < len(f.starts) {
		hi = f.starts[b]
	}
	return f.data[lo:hi]
}

// c12respaceC perturbs the blanks at the start and end of each line.
func c12respaceC(r *rand.Rand, b []byte) []byte {
	mode := r.Intn(4) // 0 keep, 1 strip all leading, 2 random leading, 3 random leading+trailing
	if mode == 0 {
		return b
	}
	lines := strings.Split(string(b), "\n")
	var out strings.Builder
	ind := []string{"", "", " ", "  ", "\t", "    ", "\t\t", " \t", "          "}
	for i, l := range lines {
		l = strings.TrimLeft(l, " \t")
		if mode >= 2 && (l != "" || r.Intn(3) == 0) {
			l = ind[r.Intn(len(ind))] + l
		}
		if mode == 3 && r.Intn(4) == 0 {
			l = strings.TrimRight(l, " \t") + ind[1+r.Intn(len(ind)-1)]
		}
		out.WriteString(l)
		if i+1 < len(lines) {
			out.WriteByte('\n')
		}
	}
	return []byte(out.String())
}

// c12prepare trims a candidate text to something the property covers; ok is
// false if nothing is left.
func c12prepare(rc *vk.Rec, b []byte) (text []byte, feats []uint32, ok bool) {
	b = c12dropLeadingBlank(b)
	feats, closed, last := c12lex(b)
	if !closed {
		rc.Count("dumb_candidates_cut_to_closed_prefix", 1)
		if last < 0 {
			return nil, nil, false
		}
		// keep lines [0, last]
		off, ln := 0, 0
		for off < len(b) && ln <= last {
			if b[off] == '\n' {
				ln++
			}
			off++
		}
		b = b[:off]
		feats, closed, _ = c12lex(b)
		if !closed {
			return nil, nil, false
		}
	}
	if len(bytes.TrimSpace(b)) == 0 {
		return nil, nil, false
	}
	if _, open := c12dumbView(b); open {
		rc.Count("dumb_candidates_open_in_dumbindent_reading", 1)
		return nil, nil, false
	}
	return b, feats, true
}

func c12dumb(rc *vk.Rec, hangFamily bool) {
	if hangFamily {
		phase := "dumbh"
		n := rc.N(9600, 1500000)
		for idx := int64(0); idx < int64(n); idx++ {
			if rc.SkipCase(phase, idx) {
				continue
			}
			r := rc.RNG(phase, idx)
			g := &c12cgen{r: r, hang: true}
			text, feats, ok := c12prepare(rc, []byte(g.text()))
			opt := c12pickOpt(r)
			if !ok {
				rc.Count("dumbh_unclosed_skipped", 1)
				continue
			}
			if !c12dumbStale(text) {
				rc.Count("dumbh_without_the_shape_skipped", 1)
				continue
			}
			// The unfixed tree dies here; keep what has been seen so far.
			if idx < 64 || idx%64 == 0 {
				rc.Finish()
			}
			rc.Mark(phase, idx)
			rc.Count("dumbh_cases", 1)
			c12dumbCheck(rc, phase, idx, "grammar(hang family)", text, feats, opt, C12StaleSig, idx == 0)
		}
		return
	}

	files := c12loadC()
	if len(files) == 0 {
		rc.Inconclusive("C12: no C sources found under " + c12repo())
		return
	}
	// whole files
	phase := "dumb-file"
	for i, f := range files {
		idx := int64(i)
		if i%rc.NShards != rc.Shard || rc.SkipCase(phase, idx) {
			continue
		}
		r := rc.RNG(phase, idx)
		text, feats, ok := c12prepare(rc, f.data)
		if !ok {
			continue
		}
		if c12dumbStale(text) {
			rc.Count("dumb_deferred_to_hang_family", 1)
			continue
		}
		rc.Mark(phase, idx)
		c12dumbCheck(rc, phase, idx, f.name, text, feats, c12opt{nil, "nil"}, "", false)
		if t2, f2, ok2 := c12prepare(rc, c12respaceC(r, text)); ok2 && !c12dumbStale(t2) {
			c12dumbCheck(rc, phase, idx, f.name+" (re-spaced)", t2, f2, c12pickOpt(r), "", false)
		}
		rc.Count("dumb_whole_files", 1)
	}
	rc.Finish()

	total := 0
	for _, f := range files {
		total += len(f.starts)
	}
	phase = "dumb-slice"
	n := rc.N(9600, 1500000)
	for idx := int64(0); idx < int64(n); idx++ {
		if rc.SkipCase(phase, idx) {
			continue
		}
		r := rc.RNG(phase, idx)
		var f *c12cfile
		if r.Intn(2) == 0 {
			f = files[r.Intn(len(files))]
		} else {
			k := r.Intn(total)
			for _, g := range files {
				if k < len(g.starts) {
					f = g
					break
				}
				k -= len(g.starts)
			}
		}
		a := r.Intn(len(f.starts))
		for tries := 0; tries < 50 && !f.codeBO[a]; tries++ {
			a = r.Intn(len(f.starts))
		}
		ln := []int{3, 10, 40, 150, 400}[r.Intn(5)]
		b := a + 1 + r.Intn(ln)
		if b > len(f.starts) {
			b = len(f.starts)
		}
		cand := c12respaceC(r, f.slice(a, b))
		opt := c12pickOpt(r)
		text, feats, ok := c12prepare(rc, cand)
		if !ok {
			rc.Count("dumb_unclosed_skipped", 1)
			continue
		}
		if c12dumbStale(text) {
			rc.Count("dumb_deferred_to_hang_family", 1)
			continue
		}
		rc.Mark(phase, idx)
		c12dumbCheck(rc, phase, idx, fmt.Sprintf("%s:%d-%d", f.name, a+1, b), text, feats, opt, "", idx == 1)
		if idx%4096 == 4095 {
			rc.Finish()
		}
	}
	rc.Finish()

	phase = "dumb-gram"
	n = rc.N(48000, 8000000)
	for idx := int64(0); idx < int64(n); idx++ {
		if rc.SkipCase(phase, idx) {
			continue
		}
		r := rc.RNG(phase, idx)
		g := &c12cgen{r: r}
		text, feats, ok := c12prepare(rc, []byte(g.text()))
		opt := c12pickOpt(r)
		if !ok {
			rc.Count("dumb_unclosed_skipped", 1)
			continue
		}
		if c12dumbStale(text) {
			rc.Count("dumb_deferred_to_hang_family", 1)
			continue
		}
		rc.Mark(phase, idx)
		c12dumbCheck(rc, phase, idx, "grammar", text, feats, opt, "", idx == 2)
		if idx%8192 == 8191 {
			rc.Finish()
		}
	}
}

// C12 runs the wuffsfmt phases and the ordinary dumbindent phases.
func C12(rc *vk.Rec) {
	c12limitAS(rc, 1<<30)
	c12wfmt(rc)
	rc.Finish()
	c12dumb(rc, false)
}

// C12H runs the dumbindent text family that contains a section start after a
// multi-line section has closed on the same line.
func C12H(rc *vk.Rec) {
	// These texts are a few hundred bytes and the whole child needs ~10 MB;
	// 256 MiB is reached (on the unfixed tree) within seconds.
	c12limitAS(rc, 256<<20)
	c12dumb(rc, true)
}
