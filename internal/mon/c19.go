package mon

import (
	"bytes"
	"encoding/hex"
	"errors"
	"fmt"
	"image"
	"image/png"
	"math/rand"

	"github.com/google/wuffs/lib/uncompng"

	"verif/internal/vk"
)

// C19: lib/uncompng writes PNGs that a standard decoder accepts, with the same
// dimensions and pixel values, wherever the rows fall across the encoder's
// 64 KiB buffer, also when one Encoder is reused.
//
// Oracles (all independent of the encoder's own helpers):
//   - image/png.Decode of the written bytes, compared pixel by pixel on the
//     decoded image's native model;
//   - c19walk, a PNG / zlib / stored-deflate walker written from the specs
//     (own CRC-32 and Adler-32), which also reconstructs the scanlines;
//   - for failing writers: Encode returns a non-nil error and never panics.
//
// The chunk capacities below are workload parameters only (where to aim the
// image sizes, and how to label classes); no verdict depends on them.

const (
	c19Cap1      = 0xFFF8 - 0x0030 // raw bytes the first IDAT's stored block can hold (ejMax - eiFirst)
	c19CapL      = 0xFFF8 - 0x000D // ... a later IDAT's stored block (ejMax - eiLater)
	c19IDATLimit = 65528           // the payload limit the property names
)

type c19type struct {
	name   string
	ct     uncompng.ColorType
	depth  uncompng.Depth
	inBpp  int  // bytes per pixel in pix
	outBpp int  // bytes per pixel in the PNG scanline
	pngCT  byte // IHDR colour type
}

var c19types = []c19type{
	{"g8", uncompng.ColorTypeGray, uncompng.Depth8, 1, 1, 0},
	{"g16", uncompng.ColorTypeGray, uncompng.Depth16, 2, 2, 0},
	{"x8", uncompng.ColorTypeRGBX, uncompng.Depth8, 4, 3, 2},
	{"x16", uncompng.ColorTypeRGBX, uncompng.Depth16, 8, 6, 2},
	{"n8", uncompng.ColorTypeNRGBA, uncompng.Depth8, 4, 4, 6},
	{"n16", uncompng.ColorTypeNRGBA, uncompng.Depth16, 8, 8, 6},
}

// c19spec is one Encode request; the pixel buffer is a pure function of it
// (see c19pix), so a spec is enough to reproduce a case.
type c19spec struct {
	Type    string `json:"type"` // g8 g16 x8 x16 n8 n16
	TI      int    `json:"-"`
	W       int    `json:"w"`
	H       int    `json:"h"`
	Stride  int    `json:"stride"`
	PixLen  int    `json:"pixlen"`
	Pat     string `json:"pattern"`
	PatSeed int64  `json:"patseed"`
	Mode    string `json:"mode"`
}

// --- workload -------------------------------------------------------------

// c19sim predicts the stored-block fills of the greedy packing (filter byte =
// 1-byte unit, pixel = bpp-byte unit, a unit that does not fit starts a new
// block). Used only to aim sizes at the capacity boundaries.
func c19sim(w, h, bpp int) []int {
	var fills []int
	capN, cur := c19Cap1, 0
	for y := 0; y < h; y++ {
		if cur+1 > capN {
			fills = append(fills, cur)
			cur, capN = 0, c19CapL
		}
		cur++
		left := w
		for left > 0 {
			fit := (capN - cur) / bpp
			if fit == 0 {
				fills = append(fills, cur)
				cur, capN = 0, c19CapL
				continue
			}
			if fit > left {
				fit = left
			}
			cur += fit * bpp
			left -= fit
		}
	}
	return append(fills, cur)
}

func c19capCum(k int) int { // virtual cumulative capacity of the first k blocks
	if k <= 0 {
		return 0
	}
	return c19Cap1 + (k-1)*c19CapL
}

func c19virt(f []int) int { return c19capCum(len(f)-1) + f[len(f)-1] }

// c19target picks (w,h) whose encoded data ends near the k-th capacity
// boundary: the last block is short of full by s bytes, or one to a few bytes
// spill into block k+1.
func c19target(r *rand.Rand, bpp int) (w, h int, note string) {
	k := 1
	switch p := r.Intn(20); {
	case p < 8:
		k = 1
	case p < 13:
		k = 2
	case p < 18:
		k = 3
	default:
		k = 4 + r.Intn(2)
	}
	var want int
	switch p := r.Intn(10); {
	case p < 3: // around the IEND-fits boundary (slack 11 / 12)
		want = c19capCum(k) - (9 + r.Intn(6))
	case p < 6: // nearly or exactly full
		want = c19capCum(k) - r.Intn(10)
	default: // just spilled: the last unit(s) alone in block k+1
		want = c19capCum(k) + 1 + r.Intn(bpp+3)
	}
	shape := r.Intn(7)
	if bpp == 1 && r.Intn(3) == 0 {
		shape = 6
	}
	solve := func(fixed int, freeIsH bool) (int, int, int) {
		// returns (w, h, |error|) after a few refinement steps of the free dimension
		gran := fixed * bpp // bytes added per +1 of the free dimension (free = w)
		if freeIsH {
			gran = 1 + fixed*bpp
		}
		free := want / gran
		if !freeIsH {
			free = (want/fixed - 1) / bpp
		}
		if free < 1 {
			free = 1
		}
		bestFree, bestErr := free, 1<<60
		for it := 0; it < 8; it++ {
			ww, hh := free, fixed
			if freeIsH {
				ww, hh = fixed, free
			}
			e := want - c19virt(c19sim(ww, hh, bpp))
			ae := e
			if ae < 0 {
				ae = -ae
			}
			if ae < bestErr {
				bestErr, bestFree = ae, free
			}
			d := e / gran
			if d == 0 {
				if 2*ae > gran {
					if e > 0 {
						d = 1
					} else {
						d = -1
					}
				} else {
					break
				}
			}
			free += d
			if free < 1 {
				free = 1
			}
		}
		if freeIsH {
			return fixed, bestFree, bestErr
		}
		return bestFree, fixed, bestErr
	}
	search := func(base int, freeIsH bool, ds []int) {
		best := 1 << 60
		for _, d := range ds {
			if base+d < 1 {
				continue
			}
			ww, hh, e := solve(base+d, freeIsH)
			if e < best {
				best, w, h = e, ww, hh
			}
			if e == 0 {
				break
			}
		}
	}
	wideDs := []int{0, 1, -1, 2, -2, 3, -3, 4, -4}
	switch shape {
	case 0: // N x 1
		w, h, _ = solve(1, false)
		note = "Nx1"
	case 1: // 1 x N
		w, h, _ = solve(1, true)
		note = "1xN"
	case 2: // wide, few rows; neighbouring row counts give every residue mod bpp
		search(1+r.Intn(16), false, wideDs)
		note = "wide"
	case 3: // tall, few columns
		search(2+r.Intn(15), true, []int{0, 1, -1})
		note = "tall"
	case 4:
		search(17+r.Intn(600), false, wideDs)
		note = "mid"
	case 5:
		search(17+r.Intn(600), true, wideDs)
		note = "mid"
	default: // exact factorisation want = h * (1 + w*bpp); then maybe extra rows
		note = "div"
		start := 1 + r.Intn(400)
		for d := 0; d < 4000 && w == 0; d++ {
			hh := start + d
			if want%hh == 0 && (want/hh-1)%bpp == 0 && want/hh-1 >= bpp {
				w, h = (want/hh-1)/bpp, hh
			}
		}
		if w == 0 {
			w, h, _ = solve(1, false)
			note = "Nx1"
		} else if r.Intn(3) == 0 {
			h += 1 + r.Intn(3) // the boundary then falls exactly on a row start
		}
	}
	return w, h, fmt.Sprintf("T%d:%s", k, note)
}

func c19gen(r *rand.Rand, thorough bool) c19spec {
	ti := r.Intn(len(c19types))
	t := c19types[ti]
	sp := c19spec{Type: t.name, TI: ti}
	switch p := r.Intn(100); {
	case p < 52:
		sp.W, sp.H, sp.Mode = c19target(r, t.outBpp)
	case p < 66:
		sp.W, sp.H, sp.Mode = 1+r.Intn(40), 1+r.Intn(40), "small"
		if r.Intn(8) == 0 {
			sp.W, sp.H = 1, 1
		}
	case p < 80:
		limit := 200000
		if thorough && r.Intn(40) == 0 {
			limit = 1000000
		}
		n := 1 + r.Intn(1<<uint(1+r.Intn(20)))
		if n > limit {
			n = limit - r.Intn(64)
		}
		if r.Intn(2) == 0 {
			sp.W, sp.H, sp.Mode = n, 1, "line:Nx1"
		} else {
			sp.W, sp.H, sp.Mode = 1, n, "line:1xN"
		}
	default:
		sp.W = 1 + r.Intn(800)
		maxH := 400000/(sp.W*t.outBpp) + 1
		if maxH > 800 {
			maxH = 800
		}
		sp.H, sp.Mode = 1+r.Intn(maxH), "medium"
	}
	rb := sp.W * t.inBpp
	sp.Stride = rb
	if r.Intn(2) == 0 {
		extra := 1 + r.Intn(64)
		if sp.H <= 64 && r.Intn(4) == 0 {
			extra = 1 + r.Intn(5000)
		}
		if (rb+extra)*sp.H > 6<<20 {
			extra = 1 + r.Intn(3)
		}
		sp.Stride = rb + extra
	}
	switch r.Intn(4) {
	case 0, 1:
		sp.PixLen = (sp.H-1)*sp.Stride + rb // the minimum: last row has no padding
	case 2:
		sp.PixLen = sp.H * sp.Stride
	default:
		sp.PixLen = sp.H*sp.Stride + 1 + r.Intn(32)
	}
	sp.Pat = []string{"zero", "ff", "grad", "rand", "rand", "alpha0", "rowmark"}[r.Intn(7)]
	sp.PatSeed = r.Int63() >> 11 // 52 bits: survives a JSON round trip
	return sp
}

// c19pix builds the pixel buffer of a spec: the pattern in the pixels, PRNG
// garbage in the stride padding, in the bytes after the last row and in the X
// channel of RGBX. Everything derives from rand.NewSource(sp.PatSeed).
func c19pix(sp *c19spec) []byte {
	t := c19types[sp.TI]
	r := rand.New(rand.NewSource(sp.PatSeed))
	pix := c19grow(&c19scr.pix, sp.PixLen)
	pix = pix[:sp.PixLen:sp.PixLen] // cap == len: reading past the end must panic, not see scratch
	r.Read(pix)                     // garbage everywhere first (padding, tail, X channel)
	rb := sp.W * t.inBpp
	for y := 0; y < sp.H; y++ {
		row := pix[y*sp.Stride : y*sp.Stride+rb]
		switch sp.Pat {
		case "zero":
			for i := range row {
				row[i] = 0
			}
		case "ff":
			for i := range row {
				row[i] = 0xFF
			}
		case "grad":
			for i := range row {
				row[i] = byte(y*31 + i*7 + (i >> 8) + (y >> 8))
			}
		case "rowmark":
			for i := range row {
				row[i] = byte(i)
			}
			if rb >= 4 {
				row[0], row[1], row[2], row[3] = byte(y>>24), byte(y>>16), byte(y>>8), byte(y)
			} else {
				row[0] = byte(y)
			}
		case "alpha0":
			// random colours already there; NRGBA: many alpha 0 / opaque pixels
			if t.ct == uncompng.ColorTypeNRGBA {
				as := t.inBpp / 4 // alpha sample size
				for x := 0; x < sp.W; x++ {
					a := row[x*t.inBpp+3*as : (x+1)*t.inBpp]
					switch r.Intn(4) {
					case 0, 1:
						for i := range a {
							a[i] = 0
						}
					case 2:
						for i := range a {
							a[i] = 0xFF
						}
					}
				}
			}
		}
		if t.ct == uncompng.ColorTypeRGBX && (sp.Pat == "zero" || sp.Pat == "ff" || sp.Pat == "grad" || sp.Pat == "rowmark") {
			// X channel: never the opaque value by accident of the pattern
			xs := t.inBpp / 4
			for x := 0; x < sp.W; x++ {
				xb := row[x*t.inBpp+3*xs : (x+1)*t.inBpp]
				for i := range xb {
					xb[i] = byte(r.Intn(255)) // 0..254
				}
			}
		}
	}
	return pix
}

// c19expRaw is the filter-free scanline data the PNG must carry: per row a
// slot for the filter byte, then the colour samples (X dropped).
func c19expRaw(sp *c19spec, pix []byte) []byte {
	t := c19types[sp.TI]
	orb := sp.W * t.outBpp
	exp := c19grow(&c19scr.exp, sp.H*(1+orb))
	o := 0
	for y := 0; y < sp.H; y++ {
		row := pix[y*sp.Stride:]
		exp[o] = 0
		o++
		if t.inBpp == t.outBpp {
			copy(exp[o:o+orb], row[:orb])
			o += orb
			continue
		}
		for x := 0; x < sp.W; x++ {
			copy(exp[o:o+t.outBpp], row[x*t.inBpp:x*t.inBpp+t.outBpp])
			o += t.outBpp
		}
	}
	return exp
}

// scratch buffers reused across images (the monitor is single-threaded)
var c19scr struct{ pix, exp, z, raw []byte }

func c19grow(b *[]byte, n int) []byte {
	if cap(*b) < n {
		*b = make([]byte, n+n/4)
	}
	return (*b)[:n]
}

// --- writers ----------------------------------------------------------------

var errC19Injected = errors.New("c19: injected write failure")

type c19writer struct {
	buf    []byte
	writes []int
	failAt int // index of the Write call that fails; -1 never
	fmode  int // 0: (0,err)  1: (len/2,err)  2: (len-1,err)  3: (len/2,nil) contract-breaking
	failed bool
	after  int // Write calls made after the failing one
}

func (w *c19writer) Write(p []byte) (int, error) {
	k := len(w.writes)
	w.writes = append(w.writes, len(p))
	if w.failed {
		w.after++
	}
	if k == w.failAt {
		w.failed = true
		switch w.fmode {
		case 0:
			return 0, errC19Injected
		case 1:
			w.buf = append(w.buf, p[:len(p)/2]...)
			return len(p) / 2, errC19Injected
		case 2:
			w.buf = append(w.buf, p[:len(p)-1]...)
			return len(p) - 1, errC19Injected
		default:
			w.buf = append(w.buf, p[:len(p)/2]...)
			return len(p) / 2, nil
		}
	}
	w.buf = append(w.buf, p...)
	return len(p), nil
}

// --- the independent walker ---------------------------------------------------

var c19crcTab = func() (t [256]uint32) {
	for i := range t {
		c := uint32(i)
		for k := 0; k < 8; k++ {
			if c&1 != 0 {
				c = 0xEDB88320 ^ (c >> 1)
			} else {
				c >>= 1
			}
		}
		t[i] = c
	}
	return
}()

func c19crc(b []byte) uint32 {
	c := ^uint32(0)
	for _, v := range b {
		c = c19crcTab[byte(c)^v] ^ (c >> 8)
	}
	return ^c
}

func c19adler(b []byte) uint32 {
	var s1, s2 uint64 = 1, 0
	for len(b) > 0 {
		n := len(b)
		if n > 1<<16 {
			n = 1 << 16
		}
		for _, v := range b[:n] {
			s1 += uint64(v)
			s2 += s1
		}
		s1 %= 65521
		s2 %= 65521
		b = b[n:]
	}
	return uint32(s2<<16 | s1)
}

func c19be32(b []byte) uint32 {
	return uint32(b[0])<<24 | uint32(b[1])<<16 | uint32(b[2])<<8 | uint32(b[3])
}

type c19walked struct {
	IDAT   []int // payload length of each IDAT
	Blocks []int // LEN of each stored block
	raw    []byte
}

// c19walk returns ("", "") or (failure kind, detail).
func c19walk(out []byte, w, h int, depth, pngCT byte, outBpp int, exp []byte) (wk c19walked, kind, msg string) {
	if len(out) < 8 || string(out[:8]) != "\x89PNG\r\n\x1a\n" {
		return wk, "signature", "bad 8-byte signature"
	}
	z := c19scr.z[:0]
	defer func() { c19scr.z = z[:0] }()
	state := 0 // 0 want IHDR, 1 want first IDAT, 2 in IDATs, 3 after IEND
	for pos := 8; pos < len(out); {
		if state == 3 {
			return wk, "trailing-bytes", fmt.Sprintf("%d bytes after IEND", len(out)-pos)
		}
		if len(out)-pos < 12 {
			return wk, "truncated-chunk", fmt.Sprintf("%d bytes left at offset %d", len(out)-pos, pos)
		}
		ln := int64(c19be32(out[pos:]))
		typ := string(out[pos+4 : pos+8])
		if ln > 0x7FFFFFFF || int64(pos)+12+ln > int64(len(out)) {
			return wk, "chunk-length", fmt.Sprintf("chunk %q at offset %d declares length %d, %d bytes follow", typ, pos, ln, len(out)-pos-8)
		}
		n := int(ln)
		payload := out[pos+8 : pos+8+n]
		tname := "other"
		switch typ {
		case "IHDR", "IDAT", "IEND":
			tname = typ
		}
		if got, want := c19be32(out[pos+8+n:]), c19crc(out[pos+4:pos+8+n]); got != want {
			return wk, "crc:" + tname, fmt.Sprintf("chunk %q #%d at offset %d (length %d): stored CRC %08x, computed %08x", typ, len(wk.IDAT), pos, n, got, want)
		}
		switch {
		case state == 0:
			if typ != "IHDR" {
				return wk, "chunk-order", fmt.Sprintf("first chunk is %q", typ)
			}
			if n != 13 {
				return wk, "ihdr-length", fmt.Sprintf("IHDR length %d", n)
			}
			if int64(c19be32(payload)) != int64(w) || int64(c19be32(payload[4:])) != int64(h) ||
				payload[8] != depth || payload[9] != pngCT || payload[10] != 0 || payload[11] != 0 || payload[12] != 0 {
				return wk, "ihdr-fields", fmt.Sprintf("IHDR % x, want %dx%d depth %d colour type %d, 0 0 0", payload, w, h, depth, pngCT)
			}
			state = 1
		case typ == "IDAT":
			wk.IDAT = append(wk.IDAT, n)
			if n > c19IDATLimit {
				return wk, "idat-limit", fmt.Sprintf("IDAT #%d payload %d > %d", len(wk.IDAT), n, c19IDATLimit)
			}
			z = append(z, payload...)
			state = 2
		case typ == "IEND":
			if state == 1 {
				return wk, "chunk-order", "IEND before any IDAT"
			}
			if n != 0 {
				return wk, "iend-length", fmt.Sprintf("IEND length %d", n)
			}
			state = 3
		default:
			return wk, "chunk-order", fmt.Sprintf("unexpected chunk %q at offset %d", typ, pos)
		}
		pos += 12 + n
	}
	if state != 3 {
		return wk, "missing-iend", fmt.Sprintf("stream ends in state %d after %d IDATs", state, len(wk.IDAT))
	}
	// zlib
	if len(z) < 2 {
		return wk, "zlib-header", "IDAT data shorter than a zlib header"
	}
	cmf, flg := z[0], z[1]
	if cmf&0x0F != 8 || cmf>>4 > 7 || (uint(cmf)<<8|uint(flg))%31 != 0 || flg&0x20 != 0 {
		return wk, "zlib-header", fmt.Sprintf("CMF/FLG %02x %02x", cmf, flg)
	}
	p := 2
	raw := c19grow(&c19scr.raw, len(z))[:0]
	for {
		if p == len(z) {
			return wk, "no-final-block", fmt.Sprintf("deflate data ends after %d blocks, none with BFINAL", len(wk.Blocks))
		}
		hdr := z[p]
		if (hdr>>1)&3 != 0 {
			return wk, "deflate-btype", fmt.Sprintf("block #%d header %02x is not a stored block", len(wk.Blocks), hdr)
		}
		if len(z)-p < 5 {
			return wk, "deflate-truncated", fmt.Sprintf("block #%d header truncated", len(wk.Blocks))
		}
		ln := int(z[p+1]) | int(z[p+2])<<8
		nln := int(z[p+3]) | int(z[p+4])<<8
		if ln^nln != 0xFFFF {
			return wk, "deflate-nlen", fmt.Sprintf("block #%d LEN %04x NLEN %04x", len(wk.Blocks), ln, nln)
		}
		p += 5
		if len(z)-p < ln {
			return wk, "deflate-truncated", fmt.Sprintf("block #%d LEN %d, %d bytes left", len(wk.Blocks), ln, len(z)-p)
		}
		raw = append(raw, z[p:p+ln]...)
		wk.Blocks = append(wk.Blocks, ln)
		p += ln
		if hdr&1 != 0 {
			break
		}
	}
	wk.raw = raw
	switch rem := len(z) - p; {
	case rem < 4:
		return wk, "adler-missing", fmt.Sprintf("%d bytes after the final block", rem)
	case rem > 4:
		return wk, "data-after-final-block", fmt.Sprintf("BFINAL on block #%d of the IDAT data but %d bytes follow it (4 expected)", len(wk.Blocks)-1, rem)
	}
	if got, want := c19be32(z[p:]), c19adler(raw); got != want {
		return wk, "adler32", fmt.Sprintf("stored Adler-32 %08x, computed %08x over %d bytes", got, want, len(raw))
	}
	// scanlines
	rb := w * outBpp
	if len(raw) != h*(1+rb) {
		return wk, "raw-length", fmt.Sprintf("inflated length %d, want %d*(1+%d)", len(raw), h, rb)
	}
	prev := make([]byte, rb)
	cur := make([]byte, rb)
	for y := 0; y < h; y++ {
		ft := raw[y*(1+rb)]
		line := raw[y*(1+rb)+1 : (y+1)*(1+rb)]
		want := exp[y*(1+rb)+1 : (y+1)*(1+rb)]
		rec := line
		if ft != 0 {
			if ft > 4 {
				return wk, "filter-type", fmt.Sprintf("row %d filter type %d", y, ft)
			}
			for i := range line {
				var a, b, c int
				if i >= outBpp {
					a, c = int(cur[i-outBpp]), int(prev[i-outBpp])
				}
				b = int(prev[i])
				var pr int
				switch ft {
				case 1:
					pr = a
				case 2:
					pr = b
				case 3:
					pr = (a + b) / 2
				case 4:
					pa, pb, pc := b-c, a-c, a+b-2*c
					if pa < 0 {
						pa = -pa
					}
					if pb < 0 {
						pb = -pb
					}
					if pc < 0 {
						pc = -pc
					}
					switch {
					case pa <= pb && pa <= pc:
						pr = a
					case pb <= pc:
						pr = b
					default:
						pr = c
					}
				}
				cur[i] = line[i] + byte(pr)
			}
			rec = cur
		}
		if !bytes.Equal(rec, want) {
			i := 0
			for rec[i] == want[i] {
				i++
			}
			return wk, "pixels", fmt.Sprintf("row %d (filter %d) byte %d (pixel %d): got %02x want %02x", y, ft, i, i/outBpp, rec[i], want[i])
		}
		if ft != 0 {
			prev, cur = cur, prev
		} else {
			copy(prev, line)
		}
	}
	return wk, "", ""
}

// --- image/png leg -------------------------------------------------------------

func c19decode(out []byte, sp *c19spec, pix []byte) (kind, msg string) {
	defer func() {
		if rv := recover(); rv != nil {
			kind, msg = "panic", fmt.Sprint(rv)
		}
	}()
	t := c19types[sp.TI]
	img, err := png.Decode(bytes.NewReader(out))
	if err != nil {
		return "error", err.Error()
	}
	if b := img.Bounds(); b != image.Rect(0, 0, sp.W, sp.H) {
		return "bounds", fmt.Sprintf("decoded bounds %v, want %dx%d", b, sp.W, sp.H)
	}
	var dpix []byte
	var dstride, dbpp int
	switch m := img.(type) {
	case *image.Gray:
		dpix, dstride, dbpp = m.Pix, m.Stride, 1
	case *image.Gray16:
		dpix, dstride, dbpp = m.Pix, m.Stride, 2
	case *image.RGBA:
		dpix, dstride, dbpp = m.Pix, m.Stride, 4
	case *image.RGBA64:
		dpix, dstride, dbpp = m.Pix, m.Stride, 8
	case *image.NRGBA:
		dpix, dstride, dbpp = m.Pix, m.Stride, 4
	case *image.NRGBA64:
		dpix, dstride, dbpp = m.Pix, m.Stride, 8
	}
	wantModel := map[string]string{"g8": "*image.Gray", "g16": "*image.Gray16", "x8": "*image.RGBA", "x16": "*image.RGBA64",
		"n8": "*image.NRGBA", "n16": "*image.NRGBA64"}[t.name]
	if got := fmt.Sprintf("%T", img); got != wantModel {
		return "model", fmt.Sprintf("decoded as %s, want %s", got, wantModel)
	}
	rb := sp.W * dbpp // == sp.W * t.inBpp for every type
	want := make([]byte, rb)
	for y := 0; y < sp.H; y++ {
		copy(want, pix[y*sp.Stride:y*sp.Stride+rb])
		if t.ct == uncompng.ColorTypeRGBX {
			xs := dbpp / 4
			for x := 0; x < sp.W; x++ {
				for i := dbpp - xs; i < dbpp; i++ {
					want[x*dbpp+i] = 0xFF
				}
			}
		}
		got := dpix[y*dstride : y*dstride+rb]
		if !bytes.Equal(got, want) {
			i := 0
			for got[i] == want[i] {
				i++
			}
			return "pixels", fmt.Sprintf("pixel (%d,%d) byte %d: decoded % x, want % x", i/dbpp, y, i%dbpp,
				got[i/dbpp*dbpp:i/dbpp*dbpp+dbpp], want[i/dbpp*dbpp:i/dbpp*dbpp+dbpp])
		}
	}
	return "", ""
}

// --- the monitor ------------------------------------------------------------------

type c19sample struct {
	Spec   c19spec `json:"spec"`
	Pos    string  `json:"reuse_position"`
	Bytes  int     `json:"png_bytes"`
	IDAT   []int   `json:"idat_payloads"`
	Blocks []int   `json:"stored_block_lens"`
	IEND   string  `json:"iend"`
	Head   string  `json:"head"`
}

func init() { Table["C19"] = C19 }

func C19(rc *vk.Rec) {
	phase := "c19"
	n := rc.N(6000, 300000)
	for idx := int64(0); idx < int64(n); idx++ {
		if rc.SkipCase(phase, idx) {
			continue
		}
		rc.Mark(phase, idx)
		c19case(rc, rc.RNG(phase, idx), phase, idx)
	}
}

// c19encode calls Encode under recover.
func c19encode(enc *uncompng.Encoder, w *c19writer, sp *c19spec, pix []byte) (err error, panicSig, panicMsg string) {
	defer func() {
		if rv := recover(); rv != nil {
			panicSig, panicMsg = vk.PanicSig(rv), fmt.Sprint(rv)
		}
	}()
	t := c19types[sp.TI]
	err = enc.Encode(w, pix, sp.W, sp.H, sp.Stride, t.depth, t.ct)
	return
}

func c19trimInts(v []int) []int {
	if len(v) > 8 {
		return append(append([]int{}, v[:4]...), v[len(v)-3:]...)
	}
	return v
}

func c19case(rc *vk.Rec, r *rand.Rand, phase string, idx int64) {
	nImg := []int{1, 1, 1, 2, 2, 2, 3, 3, 4, 4}[r.Intn(10)]
	enc := new(uncompng.Encoder)
	var history []interface{}
	afterErr := false
	wr := &c19writer{}
	for i := 0; i < nImg; i++ {
		sp := c19gen(r, rc.Thorough())
		t := c19types[sp.TI]
		probe := r.Intn(5) == 0
		pmode := r.Intn(4)
		pix := c19pix(&sp)
		pos := fmt.Sprint(i)
		posSig := "first"
		if afterErr {
			pos, posSig = pos+"e", "after-error"
		} else if i > 0 {
			posSig = "reuse"
		}
		history = append(history, sp)
		extra := func() map[string]interface{} {
			m := map[string]interface{}{"sequence": append([]interface{}{}, history...), "at": i, "reuse_position": pos,
				"call":       fmt.Sprintf("Encode(w, pix, %d, %d, %d, Depth%d, %s)", sp.W, sp.H, sp.Stride, t.depth, t.name),
				"pix_recipe": "c19pix(spec) in /verif/internal/mon/c19.go: math/rand.NewSource(patseed)"}
			if len(pix) <= 512 {
				m["pix_hex"] = hex.EncodeToString(pix)
			}
			return m
		}
		viol := func(leg, kind, msg string) {
			rc.ViolateCase("uncompng:"+leg+":"+kind+":"+t.name+":"+posSig,
				fmt.Sprintf("%s %s: %dx%d stride %d %s (mode %s, pattern %s), Encode #%d on this Encoder: %s",
					leg, kind, sp.W, sp.H, sp.Stride, t.name, sp.Mode, sp.Pat, i, msg), phase, idx, extra())
		}

		*wr = c19writer{buf: wr.buf[:0], failAt: -1}
		err, psig, pmsg := c19encode(enc, wr, &sp, pix)
		rc.Eval(1)
		rc.Count("images", 1)
		if i > 0 {
			rc.Count("reuse_encodes", 1)
		}
		afterErr = false
		if psig != "" {
			rc.ViolateCase("uncompng:"+psig+":"+t.name, fmt.Sprintf("Encode panicked: %s (%dx%d stride %d %s pixlen %d)", pmsg, sp.W, sp.H, sp.Stride, t.name, len(pix)), phase, idx, extra())
			return
		}
		if err != nil {
			viol("encode", "error", "Encode returned "+err.Error()+" with a writer that never fails")
			return
		}
		out := wr.buf
		exp := c19expRaw(&sp, pix)
		wk, kind, msg := c19walk(out, sp.W, sp.H, byte(t.depth), t.pngCT, t.outBpp, exp)
		if kind != "" {
			viol("walk", kind, msg)
		}
		dkind, dmsg := c19decode(out, &sp, pix)
		if dkind != "" {
			viol("decode", dkind, dmsg)
		}
		rc.Count("png_bytes", int64(len(out)))
		rc.Count("idat_chunks", int64(len(wk.IDAT)))
		rc.Count("stored_blocks", int64(len(wk.Blocks)))
		rc.Count("writes", int64(len(wr.writes)))
		rc.Max("max_idats_in_one_image", int64(len(wk.IDAT)))
		if kind != "" || dkind != "" {
			continue
		}
		rc.Count("images_passing_both_oracles", 1)

		// classes, measured on the stream that was written
		iend := "a"
		nw := len(wr.writes)
		if nw >= 2 && wr.writes[nw-1] == 12 && nw == len(wk.IDAT)+1 {
			iend = "s"
			rc.Count("separate_iend", 1)
		}
		nb := len(wk.Blocks)
		last := wk.Blocks[nb-1]
		capLast := c19CapL
		if nb == 1 {
			capLast = c19Cap1
		}
		endc := "mid"
		switch {
		case capLast-last >= 0 && capLast-last <= 13:
			endc = fmt.Sprintf("full-%d", capLast-last)
		case nb > 1 && last <= 10:
			endc = fmt.Sprintf("tail%d", last)
		case nb == 1 && last <= 64:
			endc = "tiny"
		}
		nbc := fmt.Sprint(nb)
		if nb >= 5 {
			nbc = "5+"
		}
		rc.Class(fmt.Sprintf("%s|n%s|%s|r%s|%s", t.name, nbc, endc, pos, iend))
		// what did not fit at each block boundary
		off, rowLen := 0, 1+sp.W*t.outBpp
		for bi := 0; bi < nb-1; bi++ {
			off += wk.Blocks[bi]
			capN := c19CapL
			if bi == 0 {
				capN = c19Cap1
			}
			what := "F" // a filter byte did not fit
			if off%rowLen != 0 {
				what = fmt.Sprintf("P%d", capN-wk.Blocks[bi]) // a pixel did not fit with that many bytes free
			} else if capN != wk.Blocks[bi] {
				what = fmt.Sprintf("F%d", capN-wk.Blocks[bi])
			}
			bc := fmt.Sprint(bi + 1)
			if bi >= 3 {
				bc = "4+"
			}
			rc.Class(fmt.Sprintf("split|%s|b%s|%s", t.name, bc, what))
		}
		if sp.Stride > sp.W*t.inBpp {
			rc.Count("images_with_stride_padding", 1)
		}
		if rc.NSamples() < 6 && (len(wk.IDAT) > 1 || r.Intn(20) == 0) && r.Intn(30) == 0 {
			rc.Sample(c19sample{sp, pos, len(out), c19trimInts(wk.IDAT), c19trimInts(wk.Blocks), map[string]string{"a": "appended", "s": "separate Write"}[iend], vk.Trunc(out, 48)})
		}

		// fault probes: every Write index of this image, enumerated
		if probe {
			nWrites := len(wr.writes)
			for k := 0; k < nWrites; k++ {
				*wr = c19writer{buf: wr.buf[:0], failAt: k, fmode: pmode}
				err, psig, pmsg := c19encode(enc, wr, &sp, pix)
				rc.Count("fault_points_enumerated", 1)
				afterErr = true
				fx := extra()
				fx["fail_write_index"] = k
				fx["fail_mode"] = []string{"(0,err)", "(len/2,err)", "(len-1,err)", "(len/2,nil)"}[pmode]
				if psig != "" {
					rc.ViolateCase("uncompng:"+psig+":failing-writer", fmt.Sprintf("Encode panicked (%s) when Write #%d failed: %dx%d %s", pmsg, k, sp.W, sp.H, t.name), phase, idx, fx)
					return
				}
				if pmode != 3 && wr.failed && err == nil {
					rc.ViolateCase("uncompng:writer-error-swallowed:"+t.name, fmt.Sprintf("Write #%d of %d returned an error (mode %v) but Encode returned nil: %dx%d %s", k, nWrites, fx["fail_mode"], sp.W, sp.H, t.name), phase, idx, fx)
				}
				if !wr.failed && err != nil {
					rc.ViolateCase("uncompng:spurious-error:"+t.name, fmt.Sprintf("no Write failed but Encode returned %v", err), phase, idx, fx)
				}
				if wr.failed && err != nil {
					rc.Count("write_errors_propagated", 1)
				}
			}
			wc := fmt.Sprint(nWrites)
			if nWrites >= 6 {
				wc = "6+"
			}
			rc.Class(fmt.Sprintf("fault|%s|w%s|m%d", t.name, wc, pmode))
		}
	}
}
