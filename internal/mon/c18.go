package mon

import (
	"bytes"
	"encoding/hex"
	"errors"
	"fmt"
	"image/jpeg"
	"math"
	"math/rand"
	"testing"

	llj "github.com/google/wuffs/lib/lowleveljpeg"

	"verif/internal/vk"
)

// C18: lib/lowleveljpeg. The encoder writes (no panic, no allocation) a
// baseline JPEG whose headers declare the requested size / sampling / tables
// and whose entropy-coded data decodes, block for block, to coef/q rounded to
// nearest; it accepts exactly ceil(w/mcuW)*ceil(h/mcuH) units and then ends
// the file. FDCT of any pixel block is a valid block and IDCT(FDCT(p)) is
// within one of p.
//
// The reader below is written from ITU T.81 (Annex A zig-zag, B marker
// segments, C Huffman table generation, F.2.2 decoding procedures); it shares
// no table with the encoder: the zig-zag is generated, the Huffman decoders
// are built from the DHT segments found in the file.

func init() { Table["C18"] = C18 }

// ---------------------------------------------------------------------
// Independent baseline-JPEG reader.

// c18zz[k] is the natural (row*8+col) index of zig-zag position k (T.81 Fig. A.6).
var c18zz = func() (zz [64]int) {
	r, c := 0, 0
	for k := 0; k < 64; k++ {
		zz[k] = r*8 + c
		if (r+c)%2 == 0 { // moving up-right
			if c == 7 {
				r++
			} else if r == 0 {
				c++
			} else {
				r--
				c++
			}
		} else { // moving down-left
			if r == 7 {
				c++
			} else if c == 0 {
				r++
			} else {
				r++
				c--
			}
		}
	}
	return
}()

type c18comp struct {
	id, h, v, tq int
	td, ta       int
	inScan       bool
}

type c18huff struct {
	mincode [17]int32
	maxcode [17]int32 // -1 when no code of that length
	valptr  [17]int
	vals    []byte
	nbits   [256]uint8 // code length per symbol (0 = absent); for statistics
}

type c18file struct {
	w, h, prec  int
	comps       []c18comp
	qt          [4]*[64]int // natural order
	huff        [2][4]*c18huff
	scan        []int // indices into comps, in scan order
	dataOff     int   // offset of the entropy-coded segment
	unsupported string
}

type c18perr struct{ kind, msg string }

func c18e(kind, f string, a ...interface{}) *c18perr {
	return &c18perr{kind, fmt.Sprintf(f, a...)}
}

func c18buildHuff(counts []byte, vals []byte) (*c18huff, *c18perr) {
	h := &c18huff{vals: append([]byte(nil), vals...)}
	code := int32(0)
	k := 0
	for l := 1; l <= 16; l++ {
		n := int(counts[l-1])
		if n == 0 {
			h.maxcode[l] = -1
		} else {
			h.valptr[l] = k
			h.mincode[l] = code
			for i := 0; i < n; i++ {
				if h.nbits[vals[k]] != 0 {
					return nil, c18e("dht-duplicate-symbol", "symbol 0x%02X twice", vals[k])
				}
				h.nbits[vals[k]] = uint8(l)
				k++
				code++
			}
			h.maxcode[l] = code - 1
			// T.81 C: the all-ones code of any length is reserved, so the
			// codes of length l must stay below (1<<l)-1.
			if code > (int32(1)<<uint(l))-1 {
				return nil, c18e("dht-overfull", "codes of length %d overflow", l)
			}
		}
		code <<= 1
	}
	return h, nil
}

// c18parseHeaders parses from SOI up to and including the SOS header.
func c18parseHeaders(d []byte) (*c18file, *c18perr) {
	f := &c18file{}
	if len(d) < 4 || d[0] != 0xFF || d[1] != 0xD8 {
		return nil, c18e("no-soi", "file does not start with SOI")
	}
	p := 2
	seenSOF := false
	for {
		if p+4 > len(d) {
			return nil, c18e("truncated-header", "ran out of bytes in the headers at %d", p)
		}
		if d[p] != 0xFF {
			return nil, c18e("bad-marker", "expected a marker at %d, found 0x%02X", p, d[p])
		}
		for p+1 < len(d) && d[p+1] == 0xFF { // fill bytes
			p++
		}
		m := d[p+1]
		if p+4 > len(d) {
			return nil, c18e("truncated-header", "ran out of bytes in the headers at %d", p)
		}
		L := int(d[p+2])<<8 | int(d[p+3])
		if L < 2 || p+2+L > len(d) {
			return nil, c18e("bad-segment-length", "marker 0x%02X at %d has length %d beyond the file", m, p, L)
		}
		body := d[p+4 : p+2+L]
		switch {
		case m == 0xDB: // DQT
			for len(body) > 0 {
				pq, tq := int(body[0]>>4), int(body[0]&15)
				if pq != 0 {
					return nil, c18e("dqt-precision", "DQT Pq=%d is not baseline", pq)
				}
				if tq > 3 {
					return nil, c18e("dqt-id", "DQT Tq=%d", tq)
				}
				if len(body) < 65 {
					return nil, c18e("dqt-length", "DQT segment too short")
				}
				t := new([64]int)
				for k := 0; k < 64; k++ {
					t[c18zz[k]] = int(body[1+k])
					if body[1+k] == 0 {
						return nil, c18e("dqt-zero", "DQT table %d has a zero entry", tq)
					}
				}
				f.qt[tq] = t
				body = body[65:]
			}
		case m == 0xC0: // SOF0
			if seenSOF {
				return nil, c18e("sof-twice", "two SOF segments")
			}
			seenSOF = true
			if len(body) < 6 {
				return nil, c18e("sof-length", "SOF0 too short")
			}
			f.prec = int(body[0])
			f.h = int(body[1])<<8 | int(body[2])
			f.w = int(body[3])<<8 | int(body[4])
			nf := int(body[5])
			if len(body) != 6+3*nf {
				return nil, c18e("sof-length", "SOF0 length %d does not match Nf=%d", L, nf)
			}
			for i := 0; i < nf; i++ {
				c := c18comp{id: int(body[6+3*i]), h: int(body[7+3*i] >> 4), v: int(body[7+3*i] & 15), tq: int(body[8+3*i])}
				if c.h < 1 || c.h > 4 || c.v < 1 || c.v > 4 || c.tq > 3 {
					return nil, c18e("sof-component", "component %d has H=%d V=%d Tq=%d", c.id, c.h, c.v, c.tq)
				}
				for _, o := range f.comps {
					if o.id == c.id {
						return nil, c18e("sof-component", "component id %d twice", c.id)
					}
				}
				f.comps = append(f.comps, c)
			}
		case m == 0xC4: // DHT
			for len(body) > 0 {
				if len(body) < 17 {
					return nil, c18e("dht-length", "DHT segment too short")
				}
				tc, th := int(body[0]>>4), int(body[0]&15)
				if tc > 1 || th > 1 {
					return nil, c18e("dht-id", "DHT Tc=%d Th=%d is not baseline", tc, th)
				}
				n := 0
				for i := 1; i <= 16; i++ {
					n += int(body[i])
				}
				if n > 256 || len(body) < 17+n {
					return nil, c18e("dht-length", "DHT table %d/%d declares %d symbols, segment too short", tc, th, n)
				}
				h, e := c18buildHuff(body[1:17], body[17:17+n])
				if e != nil {
					return nil, e
				}
				f.huff[tc][th] = h
				body = body[17+n:]
			}
		case m == 0xDA: // SOS
			if !seenSOF {
				return nil, c18e("sos-before-sof", "SOS before SOF0")
			}
			if len(body) < 1 {
				return nil, c18e("sos-length", "SOS too short")
			}
			ns := int(body[0])
			if ns < 1 || ns > 4 || len(body) != 1+2*ns+3 {
				return nil, c18e("sos-length", "SOS length %d does not match Ns=%d", L, ns)
			}
			for i := 0; i < ns; i++ {
				cs := int(body[1+2*i])
				td, ta := int(body[2+2*i]>>4), int(body[2+2*i]&15)
				found := -1
				for j := range f.comps {
					if f.comps[j].id == cs {
						found = j
					}
				}
				if found < 0 || f.comps[found].inScan {
					return nil, c18e("sos-component", "SOS names component %d (unknown or repeated)", cs)
				}
				if td > 1 || ta > 1 {
					return nil, c18e("sos-table", "SOS selects Huffman tables %d/%d", td, ta)
				}
				f.comps[found].inScan = true
				f.comps[found].td, f.comps[found].ta = td, ta
				f.scan = append(f.scan, found)
			}
			tail := body[1+2*ns:]
			if tail[0] != 0 || tail[1] != 63 || tail[2] != 0 {
				return nil, c18e("sos-spectral", "SOS Ss/Se/AhAl = %d/%d/0x%02X is not baseline sequential", tail[0], tail[1], tail[2])
			}
			if len(f.scan) != len(f.comps) {
				// A multi-scan file: legal, but not something this reader follows.
				f.unsupported = "more than one scan"
			}
			f.dataOff = p + 2 + L
			return f, nil
		case m == 0xDD: // DRI
			if len(body) == 2 && (body[0] != 0 || body[1] != 0) {
				f.unsupported = "restart interval"
			}
		case m >= 0xE0 && m <= 0xEF, m == 0xFE: // APPn, COM: skipped
		case m == 0xC1 || m == 0xC2 || m == 0xC3 || (m >= 0xC5 && m <= 0xCF && m != 0xC8 && m != 0xCC):
			return nil, c18e("not-baseline", "frame marker 0x%02X is not SOF0", m)
		default:
			return nil, c18e("bad-marker", "unexpected marker 0x%02X at %d", m, p)
		}
		p += 2 + L
	}
}

// c18bits reads the entropy-coded segment with 0xFF00 unstuffing.
type c18bits struct {
	d       []byte
	pos     int
	cur     byte
	n       uint // bits left in cur
	stuffed int
	eof     bool
	marker  bool
}

func (b *c18bits) bit() int {
	if b.n == 0 {
		if b.pos >= len(b.d) {
			b.eof = true
			return -1
		}
		c := b.d[b.pos]
		if c == 0xFF {
			if b.pos+1 >= len(b.d) {
				b.eof = true
				return -1
			}
			if b.d[b.pos+1] != 0 {
				b.marker = true
				return -1
			}
			b.pos += 2
			b.stuffed++
		} else {
			b.pos++
		}
		b.cur = c
		b.n = 8
	}
	b.n--
	return int(b.cur>>b.n) & 1
}

func (b *c18bits) receive(s int) (int, bool) {
	v := 0
	for i := 0; i < s; i++ {
		x := b.bit()
		if x < 0 {
			return 0, false
		}
		v = v<<1 | x
	}
	return v, true
}

// decode is T.81 F.2.2.3 (Figure F.16).
func (b *c18bits) decode(h *c18huff) (int, bool, bool) {
	code := int32(0)
	for l := 1; l <= 16; l++ {
		x := b.bit()
		if x < 0 {
			return 0, false, false
		}
		code = code<<1 | int32(x)
		if h.maxcode[l] >= 0 && code <= h.maxcode[l] && code >= h.mincode[l] {
			return int(h.vals[h.valptr[l]+int(code-h.mincode[l])]), true, false
		}
	}
	return 0, false, true // not a code word
}

func c18extend(v, t int) int {
	if t == 0 {
		return 0
	}
	if v < 1<<uint(t-1) {
		return v - (1 << uint(t)) + 1
	}
	return v
}

type c18blockStat struct {
	dcCat   int
	maxACat int
	runs    uint64 // bit r set: a run of exactly r zeros followed by a non-zero (r<=62)
	eobOnly bool
	zrl     int
	last63  bool // coefficient 63 non-zero (no EOB)
	bytes   int
}

// c18decodeBlock decodes one block into natural order. status: 0 ok, 1 ran
// out of data, 2 hit a marker, 3 corrupt.
func (b *c18bits) block(dcT, acT *c18huff, pred *int, out *[64]int, st *c18blockStat) (int, string) {
	*out = [64]int{}
	*st = c18blockStat{}
	fail := func() (int, string) {
		if b.eof {
			return 1, "out of data"
		}
		if b.marker {
			return 2, "marker inside the entropy-coded segment"
		}
		return 3, "bit pattern is not a code word of the file's Huffman table"
	}
	start := b.pos
	t, ok, _ := b.decode(dcT)
	if !ok {
		return fail()
	}
	if t > 11 {
		return 3, fmt.Sprintf("DC category %d", t)
	}
	v, ok := b.receive(t)
	if !ok {
		return fail()
	}
	*pred += c18extend(v, t)
	out[0] = *pred
	st.dcCat = t
	k := 1
	run := 0
	first := true
	for k < 64 {
		rs, ok, _ := b.decode(acT)
		if !ok {
			return fail()
		}
		r, s := rs>>4, rs&15
		if s == 0 {
			if r == 15 {
				k += 16
				run += 16
				st.zrl++
				if k > 63 {
					return 3, "ZRL runs past coefficient 63"
				}
				continue
			}
			if r != 0 {
				return 3, fmt.Sprintf("AC symbol 0x%02X is not valid in a sequential scan", rs)
			}
			if first {
				st.eobOnly = true
			}
			break // EOB
		}
		if s > 10 {
			return 3, fmt.Sprintf("AC category %d", s)
		}
		k += r
		run += r
		if k > 63 {
			return 3, "AC run goes past coefficient 63"
		}
		v, ok := b.receive(s)
		if !ok {
			return fail()
		}
		out[c18zz[k]] = c18extend(v, s)
		if s > st.maxACat {
			st.maxACat = s
		}
		if run < 64 {
			st.runs |= 1 << uint(run)
		}
		if k == 63 {
			st.last63 = true
		}
		run = 0
		first = false
		k++
	}
	st.bytes = b.pos - start + 1
	return 0, ""
}

// ---------------------------------------------------------------------
// One image on one Encoder: parameters, oracle.

type c18img struct {
	ct         llj.ColorType
	ctName     string
	w, h       int
	nb         int // blocks per unit
	mcuW, mcuH int
	N          int // units required
	q          llj.Array2QuantizationFactors
	optsMode   int // 0 explicit tables, 1 nil options, 2 options with nil tables
	qClass     string
	coefClass  string
	hist       string
	sizeClass  string
	reused     string
	histAt     int // unit index / write index the history event refers to
}

type c18sess struct {
	rc    *vk.Rec
	phase string
	idx   int64
	im    int
	p     *c18img
	added []llj.BlockI16 // every block accepted so far, in order
	bad   bool
}

func (s *c18sess) extra(more map[string]interface{}) map[string]interface{} {
	p := s.p
	m := map[string]interface{}{
		"image_in_case": s.im, "color_type": p.ctName, "width": p.w, "height": p.h, "units_required": p.N,
		"options":        []string{"explicit tables", "nil options", "options with nil tables"}[p.optsMode],
		"quant_luma_hex": hex.EncodeToString(p.q[0][:]), "quant_chroma_hex": hex.EncodeToString(p.q[1][:]),
		"quant_class": p.qClass, "coef_class": p.coefClass, "history": p.hist, "history_at": p.histAt, "encoder": p.reused,
	}
	for k, v := range more {
		m[k] = v
	}
	return m
}

func (s *c18sess) viol(sig, what string, more map[string]interface{}) {
	s.bad = true
	s.rc.ViolateCase(sig, fmt.Sprintf("%s %dx%d (%s, %s, %s, %s): %s", s.p.ctName, s.p.w, s.p.h, s.p.qClass, s.p.coefClass, s.p.hist, s.p.reused, what),
		s.phase, s.idx, s.extra(more))
}

// call runs f, turning a panic into a violation.
func (s *c18sess) call(where string, f func() error) (err error, panicked bool) {
	defer func() {
		if x := recover(); x != nil {
			sig := vk.PanicSig(x)
			s.viol(sig, fmt.Sprintf("%s panicked: %v", where, x), map[string]interface{}{"call": where, "units_added": len(s.added) / s.p.nb})
			panicked = true
		}
	}()
	return f(), false
}

// c18roundOK: is got == c/q rounded to nearest? An exact tie (remainder q/2)
// admits both neighbours, the property does not say which.
func c18roundOK(c, q, got int) (ok bool, tie bool) {
	lo := c / q
	rem := c % q
	if rem < 0 {
		lo--
		rem += q
	}
	switch {
	case 2*rem < q:
		return got == lo, false
	case 2*rem > q:
		return got == lo+1, false
	}
	return got == lo || got == lo+1, true
}

type c18agg struct {
	dc11, ac10    bool
	runs          uint64
	eobOnly       bool
	last63        bool
	zrl           int
	stuffed       int
	ties          int64
	blocks        int
	maxBlockBytes int
	entropyBytes  int
}

func c18ints(b []int16) []int {
	o := make([]int, len(b))
	for i, v := range b {
		o[i] = int(v)
	}
	return o
}

// verify checks the bytes d written so far. units = number of accepted
// units; complete = the encoder should have ended the file.
func (s *c18sess) verify(d []byte, units int, complete bool) (agg c18agg, ok bool) {
	p := s.p
	rc := s.rc
	f, pe := c18parseHeaders(d)
	if pe != nil {
		s.viol("header:"+pe.kind, "own reader: "+pe.msg, map[string]interface{}{"file_head": vk.Trunc(d, 700)})
		return agg, false
	}
	if f.unsupported != "" {
		rc.Inconclusive("C18 reader does not follow: " + f.unsupported)
		return agg, false
	}
	rc.Count("headers_parsed", 1)
	hv := func(kind, msg string) {
		s.viol("header:"+kind, msg, map[string]interface{}{"file_head": vk.Trunc(d[:f.dataOff], 700)})
	}
	if f.prec != 8 {
		hv("precision", fmt.Sprintf("SOF0 declares %d-bit samples", f.prec))
		return agg, false
	}
	if f.w != p.w || f.h != p.h {
		hv("dimensions", fmt.Sprintf("SOF0 declares %dx%d", f.w, f.h))
		return agg, false
	}
	wantComps := 3
	if p.ct == llj.ColorTypeGray {
		wantComps = 1
	}
	if len(f.comps) != wantComps {
		hv("components", fmt.Sprintf("SOF0 declares %d components, want %d", len(f.comps), wantComps))
		return agg, false
	}
	for i, c := range f.comps {
		wh, wv := 1, 1
		if p.ct == llj.ColorTypeYCbCr420 && i == 0 {
			wh, wv = 2, 2
		}
		if wantComps > 1 && (c.h != wh || c.v != wv) { // sampling factors of a lone component have no effect
			hv("sampling", fmt.Sprintf("component %d declares sampling %dx%d, want %dx%d", i, c.h, c.v, wh, wv))
			return agg, false
		}
		t := f.qt[c.tq]
		if t == nil {
			hv("quant-table-missing", fmt.Sprintf("component %d selects quantisation table %d which is not in the file", i, c.tq))
			return agg, false
		}
		want := &p.q[0]
		if i > 0 {
			want = &p.q[1]
		}
		for j := 0; j < 64; j++ {
			if t[j] != int(want[j]) {
				hv("quant-table", fmt.Sprintf("component %d: table %d entry [%d] (natural order) is %d, requested %d", i, c.tq, j, t[j], want[j]))
				return agg, false
			}
		}
		if f.huff[0][c.td] == nil || f.huff[1][c.ta] == nil {
			hv("huffman-table-missing", fmt.Sprintf("component %d selects Huffman tables DC %d / AC %d, not both in the file", i, c.td, c.ta))
			return agg, false
		}
	}
	for i := range f.scan {
		if f.scan[i] != i {
			hv("scan-order", "scan components are not in frame order")
			return agg, false
		}
	}
	if ds := c18stdlibConfig(d); ds != "" && ds != fmt.Sprintf("%dx%d", p.w, p.h) {
		hv("stdlib-config", "image/jpeg.DecodeConfig: "+ds)
		return agg, false
	}

	// Entropy-coded segment.
	br := &c18bits{d: d, pos: f.dataOff}
	var pred [3]int
	var out [64]int
	var st c18blockStat
	truncatedTail := false
	bi := 0
decode:
	for m := 0; m < units; m++ {
		for ci, c := range f.comps {
			nblk := c.h * c.v
			if len(f.comps) == 1 {
				nblk = 1
			}
			for k := 0; k < nblk; k++ {
				status, why := br.block(f.huff[0][c.td], f.huff[1][c.ta], &pred[ci], &out, &st)
				if status == 1 && !complete && m == units-1 {
					truncatedTail = true // up to 7 bits are still inside the encoder
					break decode
				}
				in := &s.added[bi]
				if status != 0 {
					kind := []string{"", "truncated", "marker", "corrupt"}[status]
					s.viol("entropy:"+p.ctName+":"+kind, fmt.Sprintf("unit %d block %d (component %d): %s", m, k, ci, why),
						map[string]interface{}{"unit": m, "block_in_unit": bi % p.nb, "input_block": c18ints(in[:]), "offset": br.pos, "file_len": len(d)})
					return agg, false
				}
				qt := &p.q[0]
				if ci > 0 {
					qt = &p.q[1]
				}
				for j := 0; j < 64; j++ {
					okv, tie := c18roundOK(int(in[j]), int(qt[j]), out[j])
					if tie {
						agg.ties++
					}
					if !okv {
						which := "ac"
						if j == 0 {
							which = "dc"
						}
						more := map[string]interface{}{"unit": m, "block_in_unit": bi % p.nb, "component": ci, "coef_index_natural": j,
							"coef": int(in[j]), "q": int(qt[j]), "decoded": out[j], "input_block": c18ints(in[:]), "decoded_block": out[:]}
						if bi >= p.nb {
							more["previous_unit_same_slot"] = c18ints(s.added[bi-p.nb][:])
						}
						s.viol("coef-mismatch:"+p.ctName+":"+which,
							fmt.Sprintf("unit %d block %d coefficient [%d]: %d / %d decoded as %d", m, bi%p.nb, j, in[j], qt[j], out[j]), more)
						return agg, false
					}
				}
				agg.blocks++
				if st.dcCat == 11 {
					agg.dc11 = true
				}
				if st.maxACat == 10 {
					agg.ac10 = true
				}
				agg.runs |= st.runs
				agg.eobOnly = agg.eobOnly || st.eobOnly
				agg.last63 = agg.last63 || st.last63
				agg.zrl += st.zrl
				if st.bytes > agg.maxBlockBytes {
					agg.maxBlockBytes = st.bytes
				}
				bi++
			}
		}
	}
	agg.stuffed = br.stuffed
	agg.entropyBytes = br.pos - f.dataOff
	rc.Count("blocks_decoded_and_compared", int64(agg.blocks))
	rc.Count("rounding_ties_either_way_accepted", agg.ties)
	rc.Count("stuffed_ff_bytes", int64(agg.stuffed))
	rc.Count("zrl_symbols", int64(agg.zrl))
	rc.Max("max_block_bytes_observed", int64(agg.maxBlockBytes))
	rc.Max("max_block_bytes_documented_bound", 448)

	if !complete {
		// Nothing but the headers and whole bytes of the units so far may
		// have been written: in particular no EOI.
		if !truncatedTail && br.pos != len(d) {
			s.viol("early-end:"+p.ctName, fmt.Sprintf("after %d of %d units the output has %d byte(s) beyond the coded units: % X", units, p.N, len(d)-br.pos, d[br.pos:min(len(d), br.pos+8)]),
				map[string]interface{}{"units_added": units})
			return agg, false
		}
		if bytes.Contains(d[f.dataOff:], []byte{0xFF, 0xD9}) {
			s.viol("early-end:"+p.ctName, fmt.Sprintf("EOI present after %d of %d units", units, p.N), map[string]interface{}{"units_added": units})
			return agg, false
		}
		rc.Count("prefixes_checked", 1)
		return agg, true
	}
	// Complete: padding, EOI, nothing after.
	if br.n > 0 && int(br.cur)&(1<<br.n-1) != 1<<br.n-1 {
		s.viol("pad-bits-not-ones", fmt.Sprintf("the %d bit(s) after the last unit are not 1-bits (byte 0x%02X)", br.n, br.cur), nil)
		return agg, false
	}
	pos := br.pos
	for pos+2 < len(d) && d[pos] == 0xFF && d[pos+1] == 0xFF {
		pos++
	}
	if pos+2 > len(d) || d[pos] != 0xFF || d[pos+1] != 0xD9 {
		s.viol("no-eoi:"+p.ctName, fmt.Sprintf("after %d units: expected EOI at %d of %d, found % X", units, pos, len(d), d[min(pos, len(d)):min(len(d), pos+8)]), nil)
		return agg, false
	}
	if pos+2 != len(d) {
		s.viol("bytes-after-eoi", fmt.Sprintf("%d byte(s) after EOI", len(d)-pos-2), nil)
		return agg, false
	}
	rc.Count("complete_files_checked", 1)
	// Second, independent decoder.
	img, err := jpeg.Decode(bytes.NewReader(d))
	if err != nil {
		s.viol("stdlib-rejects:"+p.ctName, "image/jpeg.Decode: "+err.Error(), map[string]interface{}{"file": vk.Trunc(d, 1200)})
		return agg, false
	}
	if b := img.Bounds(); b.Min.X != 0 || b.Min.Y != 0 || b.Dx() != p.w || b.Dy() != p.h {
		s.viol("stdlib-dimensions", fmt.Sprintf("image/jpeg.Decode reports %v", b), nil)
		return agg, false
	}
	rc.Count("stdlib_decodes", 1)
	return agg, true
}

func c18stdlibConfig(d []byte) string {
	cfg, err := jpeg.DecodeConfig(bytes.NewReader(d))
	if err != nil {
		return "error: " + err.Error()
	}
	return fmt.Sprintf("%dx%d", cfg.Width, cfg.Height)
}

// ---------------------------------------------------------------------
// Workload generators.

type c18w struct {
	buf    []byte
	calls  int
	failAt int  // index of the Write that fails (-1: never)
	sticky bool // every later Write fails too
	failed bool
}

var errC18Write = errors.New("c18: injected write failure")

func (w *c18w) Write(p []byte) (int, error) {
	i := w.calls
	w.calls++
	if w.failAt >= 0 && (i == w.failAt || (w.sticky && i > w.failAt)) {
		w.failed = true
		return 0, errC18Write
	}
	w.buf = append(w.buf, p...)
	return len(p), nil
}

type c18countw struct{ n int }

func (w *c18countw) Write(p []byte) (int, error) { w.n += len(p); return len(p), nil }

func c18add(enc *llj.Encoder, w interface{ Write([]byte) (int, error) }, n int, blocks []llj.BlockI16) error {
	switch n {
	case 1:
		var a llj.Array1BlockI16
		copy(a[:], blocks)
		return enc.Add1(w, &a)
	case 3:
		var a llj.Array3BlockI16
		copy(a[:], blocks)
		return enc.Add3(w, &a)
	}
	var a llj.Array6BlockI16
	copy(a[:], blocks)
	return enc.Add6(w, &a)
}

func c18genQuant(r *rand.Rand) (q llj.Array2QuantizationFactors, class string, optsMode int) {
	fill := func(t *llj.QuantizationFactors, v uint8) {
		for i := range t {
			t[i] = v
		}
	}
	switch x := r.Intn(20); {
	case x < 3:
		fill(&q[0], 1)
		fill(&q[1], 1)
		return q, "all1", 0
	case x < 5:
		fill(&q[0], 255)
		fill(&q[1], 255)
		return q, "all255", 0
	case x < 10:
		q.SetToStandardValues(1 + r.Intn(100))
		return q, "std", 0
	case x < 11:
		q.SetToStandardValues(llj.DefaultQuality)
		return q, "default", 1 + r.Intn(2)
	case x < 15:
		for t := range q {
			for i := range q[t] {
				q[t][i] = uint8(1 + r.Intn(255))
			}
		}
		return q, "rand", 0
	case x < 16:
		fill(&q[0], 1)
		fill(&q[1], 255)
		if r.Intn(2) == 0 {
			q[0], q[1] = q[1], q[0]
		}
		return q, "split", 0
	}
	pick := []uint8{1, 2, 3, 4, 6, 16, 100, 254, 255}
	for t := range q {
		for i := range q[t] {
			if r.Intn(4) == 0 {
				q[t][i] = uint8(2 * (1 + r.Intn(127)))
			} else {
				q[t][i] = pick[r.Intn(len(pick))]
			}
		}
	}
	return q, "mix", 0
}

// c18pixels fills p with a pattern of the given kind and names it.
func c18pixels(r *rand.Rand, kind int, p *llj.BlockU8) string {
	ext := func() uint8 { return []uint8{0, 255, 128, 1, 254, 127}[r.Intn(6)] }
	switch kind {
	case 0:
		v := []int{0, 255, 128, r.Intn(256)}[r.Intn(4)]
		for i := range p {
			p[i] = uint8(v)
		}
		return "const"
	case 1:
		per := []int{1, 2, 4}[r.Intn(3)]
		a, b := uint8(0), uint8(255)
		if r.Intn(3) == 0 {
			a, b = uint8(r.Intn(256)), uint8(r.Intn(256))
		}
		if r.Intn(2) == 0 {
			a, b = b, a
		}
		for y := 0; y < 8; y++ {
			for x := 0; x < 8; x++ {
				if (x/per+y/per)%2 == 0 {
					p[8*y+x] = a
				} else {
					p[8*y+x] = b
				}
			}
		}
		return "checker"
	case 2:
		bg, fg := ext(), ext()
		for i := range p {
			p[i] = bg
		}
		p[r.Intn(64)] = fg
		return "impulse"
	case 3:
		dx, dy := r.Intn(73)-36, r.Intn(73)-36
		base := r.Intn(256)
		for y := 0; y < 8; y++ {
			for x := 0; x < 8; x++ {
				v := base + dx*x + dy*y
				if v < 0 {
					v = 0
				} else if v > 255 {
					v = 255
				}
				p[8*y+x] = uint8(v)
			}
		}
		return "gradient"
	case 4: // the sign pattern of one DCT basis function at full swing
		u, v := r.Intn(8), r.Intn(8)
		pol := r.Intn(2) == 0
		for y := 0; y < 8; y++ {
			for x := 0; x < 8; x++ {
				c := math.Cos(float64(2*x+1)*float64(u)*math.Pi/16) * math.Cos(float64(2*y+1)*float64(v)*math.Pi/16)
				if (c >= 0) == pol {
					p[8*y+x] = 255
				} else {
					p[8*y+x] = 0
				}
			}
		}
		return "basis-sign"
	case 5:
		for i := range p {
			p[i] = uint8(r.Intn(256))
		}
		return "uniform"
	case 6:
		for i := range p {
			p[i] = uint8(r.Intn(2) * 255)
		}
		return "binary"
	case 7:
		b, w := r.Intn(256), 1+r.Intn(20)
		for i := range p {
			v := b + r.Intn(2*w+1) - w
			if v < 0 {
				v = 0
			} else if v > 255 {
				v = 255
			}
			p[i] = uint8(v)
		}
		return "narrow"
	case 8:
		for i := range p {
			p[i] = []uint8{0, 1, 127, 128, 129, 254, 255}[r.Intn(7)]
		}
		return "edge-values"
	}
	a, b := ext(), ext()
	horiz := r.Intn(2) == 0
	for y := 0; y < 8; y++ {
		for x := 0; x < 8; x++ {
			k := x
			if horiz {
				k = y
			}
			if k%2 == 0 {
				p[8*y+x] = a
			} else {
				p[8*y+x] = b
			}
		}
	}
	return "stripes"
}

const c18pixelKinds = 10

var c18coefClasses = []string{"extreme", "dcswing", "run15", "run16", "run17", "run62", "run63eob", "sparse", "random", "small", "nearhalf", "stuff", "fdct"}

type c18gen struct {
	r     *rand.Rand
	class string
	mode  int
	tog   [3]int
	pool  [2][]llj.BlockI16
	units [][]llj.BlockI16 // whole units refined for output length ("stuff")
}

// unit fills one unit's worth of blocks.
func (g *c18gen) unit(p *c18img, tmp []llj.BlockI16) {
	if g.class == "stuff" && len(g.units) > 0 && g.r.Intn(3) != 0 {
		copy(tmp, g.units[g.r.Intn(len(g.units))])
		if g.r.Intn(2) == 0 {
			for b := range tmp {
				tmp[b][0] = -tmp[b][0] - 1
			}
		}
		return
	}
	for b := 0; b < p.nb; b++ {
		g.block(c18compOf(p.nb, b), c18tableOf(&p.q, p.nb, b), &tmp[b])
	}
}

func c18clamp(v, lo, hi int) int16 {
	if v < lo {
		return int16(lo)
	}
	if v > hi {
		return int16(hi)
	}
	return int16(v)
}

// nz returns a coefficient that is certainly non-zero after division by q.
func (g *c18gen) nz(q int) int16 {
	r := g.r
	m := 0
	switch r.Intn(4) {
	case 0:
		m = q * (1 + r.Intn(1023/q))
	case 1:
		m = 1023
	case 2:
		m = q + r.Intn(q+1)
	default:
		m = q + r.Intn(1024-q)
	}
	if m > 1023 {
		m = 1023
	}
	if r.Intn(2) == 0 {
		m = -m
	}
	return int16(m)
}

// zeroish returns a coefficient that is certainly zero after division by q.
func (g *c18gen) zeroish(q int) int16 {
	if g.r.Intn(5) < 3 {
		return 0
	}
	h := (q - 1) / 2
	return int16(g.r.Intn(2*h+1) - h)
}

func (g *c18gen) swingDC(comp int) int16 {
	g.tog[comp] ^= 1
	if g.tog[comp] == 1 {
		return 1023
	}
	return -1024
}

func (g *c18gen) block(comp int, q *llj.QuantizationFactors, out *llj.BlockI16) {
	r := g.r
	class := g.class
	if r.Intn(8) == 0 {
		class = []string{"small", "random", "sparse"}[r.Intn(3)]
	}
	*out = llj.BlockI16{}
	runN := -1
	switch class {
	case "extreme":
		for i := 1; i < 64; i++ {
			v := int16(1023)
			switch g.mode {
			case 1:
				v = -1023
			case 2:
				if i%2 == 0 {
					v = -1023
				}
			case 3:
				if r.Intn(2) == 0 {
					v = -1023
				}
			}
			out[i] = v
		}
		out[0] = g.swingDC(comp)
	case "dcswing":
		for k := 1; k < 64; k++ {
			out[c18zz[k]] = g.zeroish(int(q[c18zz[k]]))
		}
		for n := r.Intn(4); n > 0; n-- {
			z := c18zz[1+r.Intn(63)]
			out[z] = g.nz(int(q[z]))
		}
		out[0] = g.swingDC(comp)
	case "run15":
		runN = 15
	case "run16":
		runN = 16
	case "run17":
		runN = 17
	case "run62":
		runN = 62
	case "run63eob":
		out[0] = int16(r.Intn(2048) - 1024)
		for k := 1; k < 64; k++ {
			out[c18zz[k]] = g.zeroish(int(q[c18zz[k]]))
		}
	case "sparse":
		out[0] = int16(r.Intn(2048) - 1024)
		for n := 1 + r.Intn(4); n > 0; n-- {
			z := c18zz[1+r.Intn(63)]
			out[z] = g.nz(int(q[z]))
		}
	case "random":
		out[0] = int16(r.Intn(2048) - 1024)
		for i := 1; i < 64; i++ {
			out[i] = int16(r.Intn(2047) - 1023)
		}
	case "small":
		for i := 0; i < 64; i++ {
			qq := int(q[i])
			out[i] = c18clamp(r.Intn(6*qq+1)-3*qq, -1023, 1023)
		}
	case "nearhalf":
		for i := 0; i < 64; i++ {
			qq := int(q[i])
			v := qq*r.Intn(5) + qq/2 + r.Intn(3) - 1
			if r.Intn(2) == 0 {
				v = -v
			}
			lo := -1023
			if i == 0 {
				lo = -1024
			}
			out[i] = c18clamp(v, lo, 1023)
		}
	case "stuff":
		slot := 0
		if comp > 0 {
			slot = 1
		}
		if len(g.pool[slot]) > 0 {
			*out = g.pool[slot][r.Intn(len(g.pool[slot]))]
		} else {
			for i := 1; i < 64; i++ {
				out[i] = 1023
			}
		}
		if r.Intn(2) == 0 {
			out[0] = g.swingDC(comp)
		}
	case "fdct":
		var px llj.BlockU8
		c18pixels(r, r.Intn(c18pixelKinds), &px)
		out.ForwardDCTFrom(&px)
		out[0] = c18clamp(int(out[0]), -1024, 1023)
		for i := 1; i < 64; i++ {
			out[i] = c18clamp(int(out[i]), -1023, 1023)
		}
	}
	if runN >= 0 {
		// zig-zag positions: [1,s) free, s non-zero (s=0: the DC), s+1..s+runN
		// zero, e=s+runN+1 non-zero, then either nothing or a sparse tail.
		out[0] = int16(r.Intn(2048) - 1024)
		s := r.Intn(63 - runN)
		e := s + runN + 1
		at := func(k int) int { return int(q[c18zz[k]]) }
		for k := 1; k < 64; k++ {
			out[c18zz[k]] = g.zeroish(at(k))
		}
		for k := 1; k < s; k++ {
			if r.Intn(3) == 0 {
				out[c18zz[k]] = g.nz(at(k))
			}
		}
		if s > 0 {
			out[c18zz[s]] = g.nz(at(s))
		}
		out[c18zz[e]] = g.nz(at(e))
		if r.Intn(2) == 0 {
			for k := e + 1; k < 64; k++ {
				if r.Intn(6) == 0 {
					out[c18zz[k]] = g.nz(at(k))
				}
			}
			if r.Intn(3) == 0 {
				out[c18zz[63]] = g.nz(at(63))
			}
		}
	}
}

// buildPool hill-climbs, with the encoder's own output length as fitness,
// towards blocks that make one AddN emit as many bytes as possible (long code
// words, 1-bits, 0xFF stuffing). Only a workload generator: no verdict here
// other than "no panic".
func (g *c18gen) buildPool(s *c18sess, q *llj.Array2QuantizationFactors) {
	r := g.r
	cands := []int16{1023, -1023, 1022, -1022, 1021, 1019, 1015, 1007, 991, 959, 895, 767, 511, -511, 512, -512, 255, -255, 256, -256, 127, 0, 1, -1}
	s.call("AddN (search for long blocks)", func() error {
		enc := &llj.Encoder{}
		cw := &c18countw{}
		qq := *q
		if err := enc.Reset(cw, llj.ColorTypeYCbCr444, 65535, 65535, &llj.EncoderOptions{QuantizationFactors: &qq}); err != nil {
			return nil
		}
		var a llj.Array3BlockI16
		fit := func(slot int, b *llj.BlockI16) int {
			a = llj.Array3BlockI16{}
			a[slot] = *b
			n0 := cw.n
			enc.Add3(cw, &a)
			a[slot][0] = -a[slot][0] - 1
			enc.Add3(cw, &a)
			return cw.n - n0
		}
		for slot := 0; slot < 2; slot++ {
			for k := 0; k < 3; k++ {
				var b llj.BlockI16
				for i := 1; i < 64; i++ {
					b[i] = cands[r.Intn(2)]
				}
				b[0] = 1023
				best := fit(slot, &b)
				for it := 0; it < 120; it++ {
					i := r.Intn(64)
					old := b[i]
					b[i] = cands[r.Intn(len(cands))]
					if i == 0 && r.Intn(2) == 0 {
						b[i] = -1024
					}
					if f := fit(slot, &b); f >= best {
						best = f
					} else {
						b[i] = old
					}
				}
				g.pool[slot] = append(g.pool[slot], b)
			}
		}
		return nil
	})
}

// refineUnits continues the climb on whole units of the image's colour type,
// so that the bit alignment between the blocks of a unit is part of the search.
func (g *c18gen) refineUnits(s *c18sess, iters int) {
	r := g.r
	p := s.p
	cands := []int16{1023, -1023, 1022, -1022, 1021, 1019, 1015, 1007, 991, 959, 895, 767, 511, -511, 512, -512, 255, -255, 0}
	s.call("AddN (search for long units)", func() error {
		enc := &llj.Encoder{}
		cw := &c18countw{}
		qq := p.q
		if err := enc.Reset(cw, p.ct, 65535, 65535, &llj.EncoderOptions{QuantizationFactors: &qq}); err != nil {
			return nil
		}
		flip := make([]llj.BlockI16, p.nb)
		fit := func(u []llj.BlockI16) int {
			n0 := cw.n
			c18add(enc, cw, p.nb, u)
			for b := range u {
				flip[b] = u[b]
				flip[b][0] = -u[b][0] - 1
			}
			c18add(enc, cw, p.nb, flip)
			return cw.n - n0
		}
		for k := 0; k < 2; k++ {
			u := make([]llj.BlockI16, p.nb)
			for b := range u {
				pool := g.pool[0]
				if c18compOf(p.nb, b) > 0 {
					pool = g.pool[1]
				}
				u[b] = pool[r.Intn(len(pool))]
			}
			best := fit(u)
			for it := 0; it < iters; it++ {
				b, i := r.Intn(p.nb), r.Intn(64)
				old := u[b][i]
				u[b][i] = cands[r.Intn(len(cands))]
				if i == 0 {
					u[b][i] = []int16{1023, -1024}[r.Intn(2)]
				}
				if f := fit(u); f >= best {
					best = f
				} else {
					u[b][i] = old
				}
			}
			g.units = append(g.units, u)
		}
		return nil
	})
}

var c18specialDims = []int{1, 7, 8, 9, 15, 16, 17, 31, 32, 33, 47, 48, 49, 63, 64, 65}

func c18dims(r *rand.Rand) (w, h int) {
	sp := func() int { return c18specialDims[r.Intn(len(c18specialDims))] }
	first7 := func() int { return c18specialDims[r.Intn(7)] }
	switch x := r.Intn(100); {
	case x < 40:
		w, h = sp(), sp()
	case x < 68:
		w, h = 1+r.Intn(200), 1+r.Intn(200)
	case x < 83:
		w, h = sp(), 1+r.Intn(600)
	case x < 90:
		w, h = 65535, first7()
	case x < 93:
		w, h = 65535, []int{65535, 65534, 4096, 1000 + r.Intn(60000), 200 + r.Intn(800)}[r.Intn(5)]
	default:
		w, h = []int{65534, 65529, 65528, 65521, 65520, 65519, 32768, 32769}[r.Intn(8)], first7()
	}
	if r.Intn(2) == 0 {
		w, h = h, w
	}
	return
}

// ---------------------------------------------------------------------
// Image phase.

type c18sample struct {
	Color    string `json:"color_type"`
	W        int    `json:"width"`
	H        int    `json:"height"`
	Units    int    `json:"units_required"`
	Quant    string `json:"quant_class"`
	Coef     string `json:"coef_class"`
	History  string `json:"history"`
	FileLen  int    `json:"file_len"`
	Stuffed  int    `json:"stuffed_ff"`
	MaxBlock int    `json:"max_block_bytes"`
	Head     string `json:"file_head"`
}

func c18ctName(ct llj.ColorType) string {
	switch ct {
	case llj.ColorTypeGray:
		return "gray"
	case llj.ColorTypeYCbCr444:
		return "444"
	case llj.ColorTypeYCbCr420:
		return "420"
	}
	return fmt.Sprintf("ct%d", ct)
}

const c18maxComplete = 20000

// afterError: once a call has returned an error, further AddN calls (with
// valid blocks and the right N) must be refused until Reset.
func (s *c18sess) afterError(enc *llj.Encoder, wr *c18w, g *c18gen) {
	if s.bad {
		return
	}
	p := s.p
	tmp := make([]llj.BlockI16, p.nb)
	for n := 1 + g.r.Intn(2); n > 0; n-- {
		g.unit(p, tmp)
		before := len(wr.buf)
		err, pan := s.call("AddN after an error", func() error { return c18add(enc, wr, p.nb, tmp) })
		if pan {
			return
		}
		if err == nil {
			s.viol("accepts-after-error:"+p.ctName+":"+p.hist, "an AddN call after an error returned nil", nil)
			return
		}
		s.rc.Count("calls_after_error_refused", 1)
		if errors.Is(err, llj.ErrPreviouslyReturnedError) {
			s.rc.Count("calls_after_error_refused_with_ErrPreviouslyReturnedError", 1)
		}
		s.rc.Count("bytes_written_by_refused_calls", int64(len(wr.buf)-before))
	}
}

func c18compOf(nb, b int) int {
	switch nb {
	case 3:
		return b
	case 6:
		if b >= 4 {
			return b - 3
		}
	}
	return 0
}

func c18tableOf(q *llj.Array2QuantizationFactors, nb, b int) *llj.QuantizationFactors {
	if c18compOf(nb, b) > 0 {
		return &q[1]
	}
	return &q[0]
}

func c18badReset(s *c18sess, enc *llj.Encoder, r *rand.Rand, g *c18gen) {
	p := s.p
	w, h, ct := p.w, p.h, p.ct
	qq := p.q
	opts := &llj.EncoderOptions{QuantizationFactors: &qq}
	what := ""
	switch r.Intn(6) {
	case 0:
		w, what = []int{0, -1, 65536, 1 << 20}[r.Intn(4)], "width"
	case 1:
		h, what = []int{0, -1, 65536, -65535}[r.Intn(4)], "height"
	case 2:
		ct, what = llj.ColorType([]int{0, 2, 4, 5, 7, 255}[r.Intn(6)]), "colour type"
	case 3:
		qq[0][r.Intn(64)], what = 0, "luma table with a zero"
	case 4:
		qq[1][r.Intn(64)], what = 0, "chroma table with a zero"
	default:
		w, h, what = 0, 0, "width and height"
	}
	wr := &c18w{failAt: -1}
	err, pan := s.call("Reset (bad "+what+")", func() error { return enc.Reset(wr, ct, w, h, opts) })
	if pan {
		return
	}
	if err == nil {
		s.rc.Count("bad_reset_accepted_case_abandoned", 1)
		return
	}
	s.rc.Count("bad_resets_refused", 1)
	s.afterError(enc, wr, g)
	if !s.bad {
		s.rc.Class(fmt.Sprintf("%s|badreset|-|%s|%s", p.ctName, p.qClass, p.hist))
	}
}

// c18image runs one image on enc.
func c18image(rc *vk.Rec, enc *llj.Encoder, r *rand.Rand, phase string, idx int64, im int, reused string) (ok bool) {
	p := &c18img{reused: reused}
	p.ct = []llj.ColorType{llj.ColorTypeGray, llj.ColorTypeYCbCr444, llj.ColorTypeYCbCr420}[r.Intn(3)]
	p.ctName = c18ctName(p.ct)
	p.nb = int(p.ct)
	p.mcuW, p.mcuH = 8, 8
	if p.ct == llj.ColorTypeYCbCr420 {
		p.mcuW, p.mcuH = 16, 16
	}
	p.w, p.h = c18dims(r)
	p.N = ((p.w + p.mcuW - 1) / p.mcuW) * ((p.h + p.mcuH - 1) / p.mcuH)
	p.q, p.qClass, p.optsMode = c18genQuant(r)
	g := &c18gen{r: r, class: c18coefClasses[r.Intn(len(c18coefClasses))], mode: r.Intn(4)}
	p.coefClass = g.class
	s := &c18sess{rc: rc, phase: phase, idx: idx, im: im, p: p}

	huge := p.N > c18maxComplete
	target := p.N
	extra := false
	switch x := r.Intn(100); {
	case x < 50:
		p.hist = "full"
		if r.Intn(10) < 7 {
			p.hist, extra = "full+extra", true
		}
	case x < 60:
		p.hist = "few"
		target = r.Intn(p.N)
		p.histAt = target
	case x < 70:
		p.hist = "wrongN"
		p.histAt = r.Intn(p.N + 1)
	case x < 78:
		p.hist = "invalid"
		p.histAt = r.Intn(p.N)
	case x < 92:
		p.hist = "wfail"
		p.histAt = r.Intn(p.N + 1)
	default:
		p.hist = "badreset"
	}
	switch {
	case huge:
		p.sizeClass = "huge-prefix"
	case p.w == 65535 || p.h == 65535:
		p.sizeClass = "axis-max"
	case p.N == 1:
		p.sizeClass = "one-unit"
	case p.w%p.mcuW == 0 && p.h%p.mcuH == 0:
		p.sizeClass = "aligned"
	default:
		p.sizeClass = "ragged"
	}
	if huge {
		lim := 1500 + r.Intn(2500)
		if target > lim {
			target = lim
		}
		if p.histAt >= lim {
			p.histAt = r.Intn(lim)
		}
		if p.hist == "full" || p.hist == "full+extra" {
			p.hist, extra = "few", false
		}
	}
	rc.Count("hist_"+p.hist, 1)
	if p.hist == "badreset" {
		c18badReset(s, enc, r, g)
		return !s.bad
	}
	if g.class == "stuff" {
		g.buildPool(s, &p.q)
		if !s.bad {
			iters := 150
			if rc.Thorough() {
				iters = 600
			}
			g.refineUnits(s, iters)
		}
		if s.bad {
			return false
		}
	}

	wr := &c18w{failAt: -1}
	if p.hist == "wfail" {
		wr.failAt = p.histAt
		wr.sticky = r.Intn(2) == 0
	}
	var opts *llj.EncoderOptions
	qq := p.q
	switch p.optsMode {
	case 0:
		opts = &llj.EncoderOptions{QuantizationFactors: &qq}
	case 2:
		opts = &llj.EncoderOptions{}
	}
	err, pan := s.call("Reset", func() error { return enc.Reset(wr, p.ct, p.w, p.h, opts) })
	if pan {
		return false
	}
	if wr.failed {
		if err == nil {
			s.viol("write-error-swallowed:Reset", "the writer failed but Reset returned nil", nil)
			return false
		}
		rc.Count("write_errors_reported", 1)
		s.afterError(enc, wr, g)
		if !s.bad {
			rc.Class(fmt.Sprintf("%s|%s|-|%s|wfail@reset", p.ctName, p.sizeClass, p.qClass))
		}
		return !s.bad
	}
	if err != nil {
		s.viol("reset-refuses-valid:"+p.ctName, "Reset returned "+err.Error(), nil)
		return false
	}
	if qq != p.q {
		s.viol("reset-modifies-tables", "Reset changed the caller's quantisation tables", nil)
		return false
	}

	tmp := make([]llj.BlockI16, p.nb)
	orig := make([]llj.BlockI16, p.nb)
	s.added = make([]llj.BlockI16, 0, target*p.nb)
	errored := false
	wrongN := func() bool {
		n := []int{1, 3, 6}[r.Intn(3)]
		for n == p.nb {
			n = []int{1, 3, 6}[r.Intn(3)]
		}
		before := len(wr.buf)
		err, pan := s.call(fmt.Sprintf("Add%d on a %s encoder", n, p.ctName), func() error { return c18add(enc, wr, n, tmp) })
		if pan {
			return false
		}
		if err == nil {
			s.viol("wrong-n-accepted:"+p.ctName, fmt.Sprintf("Add%d returned nil on a %s image", n, p.ctName), nil)
			return false
		}
		rc.Count("wrong_n_refused", 1)
		rc.Count("bytes_written_by_refused_calls", int64(len(wr.buf)-before))
		errored = true
		s.afterError(enc, wr, g)
		return !s.bad
	}
	for u := 0; u < target && !errored; u++ {
		g.unit(p, tmp)
		if p.hist == "wrongN" && u == p.histAt {
			if !wrongN() {
				return false
			}
			break
		}
		if p.hist == "invalid" && u == p.histAt {
			copy(orig, tmp)
			bi := r.Intn(p.nb)
			if r.Intn(3) == 0 {
				tmp[bi][0] = []int16{-1025, 1024, 32767, -32768}[r.Intn(4)]
			} else {
				tmp[bi][1+r.Intn(63)] = []int16{-1024, 1024, 2047, -2048, 32767, -32768}[r.Intn(6)]
			}
			err, pan := s.call("AddN with a block that is not IsValid", func() error { return c18add(enc, wr, p.nb, tmp) })
			if pan {
				return false
			}
			if err == nil {
				rc.Count("invalid_block_accepted_case_abandoned", 1)
				return true
			}
			rc.Count("invalid_blocks_refused", 1)
			errored = true
			s.afterError(enc, wr, g)
			break
		}
		before := len(wr.buf)
		err, pan := s.call("AddN", func() error { return c18add(enc, wr, p.nb, tmp) })
		if pan {
			return false
		}
		if wr.failed {
			if err == nil {
				s.viol("write-error-swallowed:AddN", fmt.Sprintf("the writer failed at Write #%d but AddN returned nil", wr.failAt), nil)
				return false
			}
			rc.Count("write_errors_reported", 1)
			errored = true
			s.afterError(enc, wr, g)
			break
		}
		if err != nil {
			s.viol("add-refuses-valid:"+p.ctName, fmt.Sprintf("AddN for unit %d of %d returned %v", u, p.N, err), map[string]interface{}{"unit": u, "blocks": [][]int{c18ints(tmp[0][:])}})
			return false
		}
		s.added = append(s.added, tmp...)
		rc.Max("max_bytes_per_unit_"+p.ctName, int64(len(wr.buf)-before))
	}
	if s.bad {
		return false
	}
	units := len(s.added) / p.nb
	complete := units == p.N
	if complete && !errored && p.hist == "wrongN" {
		g.unit(p, tmp)
		if !wrongN() {
			return false
		}
	}
	agg, vok := s.verify(wr.buf, units, complete)
	if !vok {
		return false
	}
	if complete && extra {
		g.unit(p, tmp)
		before := len(wr.buf)
		err, pan := s.call("AddN beyond the last unit", func() error { return c18add(enc, wr, p.nb, tmp) })
		if pan {
			return false
		}
		if err == nil {
			s.viol("too-many-accepted:"+p.ctName, fmt.Sprintf("unit %d of %d was accepted", p.N+1, p.N), nil)
			return false
		}
		rc.Count("extra_units_refused", 1)
		rc.Count("bytes_written_by_refused_calls", int64(len(wr.buf)-before))
		s.afterError(enc, wr, g)
		if s.bad {
			return false
		}
	}
	// Non-trivial class: only what the decoded stream shows was exercised.
	coef := p.coefClass
	if agg.blocks == 0 {
		coef = "-"
	} else {
		switch p.coefClass {
		case "extreme":
			if !agg.ac10 {
				coef = "extreme-scaled"
			}
		case "dcswing":
			if !agg.dc11 {
				coef = "dcswing-scaled"
			}
		case "run15", "run16", "run17", "run62":
			var n uint
			fmt.Sscanf(p.coefClass[3:], "%d", &n)
			if agg.runs&(1<<n) == 0 {
				coef = "other"
			}
		case "run63eob":
			if !agg.eobOnly {
				coef = "other"
			}
		case "stuff":
			if agg.stuffed*2 < agg.blocks {
				coef = "stuff-weak"
			}
		}
	}
	hist := p.hist
	if hist == "wfail" {
		hist = "wfail@add"
	}
	if (p.hist == "wfail" || p.hist == "wrongN" || p.hist == "invalid") && !errored {
		hist += "-missed"
	}
	rc.Class(fmt.Sprintf("%s|%s|%s|%s|%s", p.ctName, p.sizeClass, coef, p.qClass, hist))
	rc.Count("images_on_"+p.reused+"_encoder", 1)
	if agg.dc11 {
		rc.Count("images_with_dc_category_11", 1)
	}
	if agg.ac10 {
		rc.Count("images_with_ac_category_10", 1)
	}
	if agg.last63 {
		rc.Count("images_with_block_ending_without_eob", 1)
	}
	for _, n := range []uint{15, 16, 17, 62} {
		if agg.runs&(1<<n) != 0 {
			rc.Count(fmt.Sprintf("images_with_zero_run_%d", n), 1)
		}
	}
	if rc.NSamples() < 6 && (idx%7 == 0) {
		rc.Sample(c18sample{p.ctName, p.w, p.h, p.N, p.qClass, coef, p.hist, len(wr.buf), agg.stuffed, agg.maxBlockBytes, vk.Trunc(wr.buf, 48)})
	}
	return true
}

func c18images(rc *vk.Rec) {
	phase := "img"
	n := rc.N(1200, 60000)
	for idx := int64(0); idx < int64(n); idx++ {
		if rc.SkipCase(phase, idx) {
			continue
		}
		rc.Mark(phase, idx)
		r := rc.RNG(phase, idx)
		enc := &llj.Encoder{}
		nimg := 1
		if r.Intn(3) == 0 {
			nimg = 2 + r.Intn(3)
		}
		reused := "fresh"
		for im := 0; im < nimg; im++ {
			rc.Eval(1)
			if !c18image(rc, enc, r, phase, idx, im, reused) {
				break
			}
			reused = "reused"
		}
	}
}

// ---------------------------------------------------------------------
// Allocation phase: "An Encoder makes no allocations, other than the Encoder
// struct itself and any allocations that the passed io.Writer makes."

func c18alloc(rc *vk.Rec) {
	phase := "alloc"
	n := rc.N(16*3, 16*12)
	for idx := int64(0); idx < int64(n); idx++ {
		if rc.SkipCase(phase, idx) {
			continue
		}
		rc.Mark(phase, idx)
		rc.Eval(1)
		r := rc.RNG(phase, idx)
		p := &c18img{reused: "prewarmed", hist: "full+extra"}
		p.ct = []llj.ColorType{llj.ColorTypeGray, llj.ColorTypeYCbCr444, llj.ColorTypeYCbCr420}[(int(idx)+rc.Shard)%3]
		p.ctName = c18ctName(p.ct)
		p.nb = int(p.ct)
		p.mcuW, p.mcuH = 8, 8
		if p.ct == llj.ColorTypeYCbCr420 {
			p.mcuW, p.mcuH = 16, 16
		}
		p.w, p.h = 1+r.Intn(3*p.mcuW), 1+r.Intn(2*p.mcuH)
		p.N = ((p.w + p.mcuW - 1) / p.mcuW) * ((p.h + p.mcuH - 1) / p.mcuH)
		p.q, p.qClass, p.optsMode = c18genQuant(r)
		g := &c18gen{r: r, class: []string{"extreme", "random", "stuff", "small", "run16"}[r.Intn(5)], mode: r.Intn(4)}
		p.coefClass = g.class
		s := &c18sess{rc: rc, phase: phase, idx: idx, p: p}
		units := make([][]llj.BlockI16, p.N+1)
		for u := range units {
			units[u] = make([]llj.BlockI16, p.nb)
			g.unit(p, units[u])
		}
		var a1 []llj.Array1BlockI16
		var a3 []llj.Array3BlockI16
		var a6 []llj.Array6BlockI16
		for _, u := range units {
			switch p.nb {
			case 1:
				var a llj.Array1BlockI16
				copy(a[:], u)
				a1 = append(a1, a)
			case 3:
				var a llj.Array3BlockI16
				copy(a[:], u)
				a3 = append(a3, a)
			default:
				var a llj.Array6BlockI16
				copy(a[:], u)
				a6 = append(a6, a)
			}
		}
		enc := &llj.Encoder{}
		cw := &c18countw{}
		qq := p.q
		var opts *llj.EncoderOptions
		switch p.optsMode {
		case 0:
			opts = &llj.EncoderOptions{QuantizationFactors: &qq}
		case 2:
			opts = &llj.EncoderOptions{}
		}
		nerr := 0
		run := func() {
			if enc.Reset(cw, p.ct, p.w, p.h, opts) != nil {
				nerr++
			}
			for u := 0; u <= p.N; u++ { // the last one is one too many
				var err error
				switch p.nb {
				case 1:
					err = enc.Add1(cw, &a1[u])
				case 3:
					err = enc.Add3(cw, &a3[u])
				default:
					err = enc.Add6(cw, &a6[u])
				}
				if (err != nil) != (u == p.N) {
					nerr++
				}
			}
		}
		best := math.Inf(1)
		_, pan := s.call("Reset/AddN under AllocsPerRun", func() error {
			run() // pre-warm
			for try := 0; try < 3 && best != 0; try++ {
				if a := testing.AllocsPerRun(10, run); a < best {
					best = a
				}
			}
			return nil
		})
		if pan {
			continue
		}
		if nerr != 0 {
			s.viol("alloc-run-unexpected-result", fmt.Sprintf("%d call(s) in the measured loop returned an unexpected result", nerr), nil)
			continue
		}
		rc.Count("alloc_measurements", 1)
		if best != 0 {
			s.viol("allocates:"+p.ctName, fmt.Sprintf("Reset + %d AddN (+1 refused) allocate %.0f object(s) per run (minimum of 3 measurements of 10 runs, non-allocating writer)", p.N, best), nil)
			continue
		}
		rc.Class(fmt.Sprintf("%s|alloc|%s|%s|full+extra", p.ctName, p.coefClass, p.qClass))
	}
}

// ---------------------------------------------------------------------
// DCT phase.

var c18basis *[64][64]float64

func c18getBasis() *[64][64]float64 {
	if c18basis != nil {
		return c18basis
	}
	var bs [64][64]float64
	al := func(u int) float64 {
		if u == 0 {
			return 1 / math.Sqrt2
		}
		return 1
	}
	for v := 0; v < 8; v++ {
		for u := 0; u < 8; u++ {
			for y := 0; y < 8; y++ {
				for x := 0; x < 8; x++ {
					bs[8*v+u][8*y+x] = 0.25 * al(u) * al(v) *
						math.Cos(float64(2*x+1)*float64(u)*math.Pi/16) * math.Cos(float64(2*y+1)*float64(v)*math.Pi/16)
				}
			}
		}
	}
	c18basis = &bs
	return c18basis
}

// c18dctAccuracy: how far each transform is from the real-valued DCT
// (T.81 A.3.3) of its own input. Used only to name the signature of a
// round-trip failure that the property's own oracle has already found.
func c18dctAccuracy(p *llj.BlockU8, c *llj.BlockI16, q *llj.BlockU8) (fdev, idev float64) {
	bs := c18getBasis()
	for k := 0; k < 64; k++ {
		s := 0.0
		for i := 0; i < 64; i++ {
			s += (float64(p[i]) - 128) * bs[k][i]
		}
		fdev = math.Max(fdev, math.Abs(float64(c[k])-s))
	}
	for i := 0; i < 64; i++ {
		s := 128.0
		for k := 0; k < 64; k++ {
			s += float64(c[k]) * bs[k][i]
		}
		s = math.Min(255, math.Max(0, s))
		idev = math.Max(idev, math.Abs(float64(q[i])-s))
	}
	return
}

// c18dctWitness is a block whose round trip is off by two even in exact
// arithmetic with correctly rounded integer coefficients (see
// tools/proposed-fixes/C18-1.md). Shard 0 always runs it, so that the known
// finding is reported by every run rather than by one run in a few.
var c18dctWitness = llj.BlockU8{
	230, 230, 223, 230, 227, 224, 224, 224, 228, 229, 231, 226, 227, 227, 229, 230,
	229, 223, 227, 225, 228, 231, 223, 230, 225, 231, 229, 223, 228, 229, 231, 227,
	227, 230, 228, 228, 231, 223, 223, 230, 224, 231, 230, 223, 229, 231, 223, 225,
	229, 231, 225, 224, 228, 228, 228, 228, 228, 231, 224, 224, 229, 228, 228, 230,
}

func c18dct(rc *vk.Rec) {
	phase := "dct"
	n := rc.N(16*20000, 16*600000)
	for idx := int64(0); idx < int64(n); idx++ {
		if rc.SkipCase(phase, idx) {
			continue
		}
		if idx%1024 == 0 {
			rc.Mark(phase, idx)
		}
		r := rc.RNG(phase, idx)
		var px, back llj.BlockU8
		var co llj.BlockI16
		kind := c18pixels(r, int(idx%c18pixelKinds), &px)
		if rc.Shard == 0 && idx == 0 {
			px, kind = c18dctWitness, "known-witness"
		}
		rc.Eval(1)
		viol := func(sig, what string, more map[string]interface{}) {
			m := map[string]interface{}{"pixels": px[:], "kind": kind}
			for k, v := range more {
				m[k] = v
			}
			rc.ViolateCase(sig, "DCT ("+kind+" block): "+what, phase, idx, m)
		}
		panicked := false
		func() {
			defer func() {
				if x := recover(); x != nil {
					panicked = true
					viol(vk.PanicSig(x), fmt.Sprintf("panic: %v", x), nil)
				}
			}()
			co.ForwardDCTFrom(&px)
			back.InverseDCTFrom(&co)
		}()
		if panicked {
			continue
		}
		// Validity as the package documents it: DC in [-1024, +1023], AC in [-1023, +1023].
		valid := co[0] >= -1024 && co[0] <= 1023
		for _, v := range co[1:] {
			if v < -1023 || v > 1023 {
				valid = false
			}
		}
		if !valid || !co.IsValid() {
			viol("fdct-invalid-block", fmt.Sprintf("ForwardDCTFrom gives a block outside the documented range (IsValid=%v)", co.IsValid()), map[string]interface{}{"coefficients": c18ints(co[:])})
			continue
		}
		worst, at := 0, 0
		for i := range px {
			d := int(px[i]) - int(back[i])
			if d < 0 {
				d = -d
			}
			if d > worst {
				worst, at = d, i
			}
		}
		rc.Count(fmt.Sprintf("dct_roundtrip_max_error_%d", min(worst, 3)), 1)
		if worst > 1 {
			fdev, idev := c18dctAccuracy(&px, &co, &back)
			sig := fmt.Sprintf("dct-roundtrip:off-by-%d", min(worst, 3))
			if worst >= 3 {
				sig += "+"
			}
			if fdev <= 0.55 && idev <= 0.55 {
				// Each transform is, on its own, as accurate as integer
				// output allows; the claim fails for the composition.
				sig += ":each-transform-correctly-rounded"
			} else {
				sig += ":transform-inaccurate"
			}
			viol(sig, fmt.Sprintf("pixel [%d] = %d comes back as %d (FDCT within %.3f and IDCT within %.3f of the real-valued transform)", at, px[at], back[at], fdev, idev),
				map[string]interface{}{"coefficients": c18ints(co[:]), "returned": back[:]})
			continue
		}
		if idx < 4096 {
			rc.Class("dct|" + kind)
		}
	}
}

func C18(rc *vk.Rec) {
	c18dct(rc)
	c18alloc(rc)
	c18images(rc)
}
