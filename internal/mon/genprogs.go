package mon

import (
	"fmt"
	"os"
	"path/filepath"

	"verif/internal/vk"
	"verif/internal/wprog"
)

// GENPROGS writes generated Wuffs packages (safe variants only) into the
// directory named by VERIF_GENPROGS_DIR, one file per program, for the
// driver-side checks that feed the real tools with programs beyond std (C20's
// determinism leg, C10's object inspection).
func init() { Table["GENPROGS"] = GenProgs }

func GenProgs(rc *vk.Rec) {
	dir := os.Getenv("VERIF_GENPROGS_DIR")
	if dir == "" {
		rc.Inconclusive("VERIF_GENPROGS_DIR not set")
		return
	}
	n := rc.N(48, 2000)
	for idx := int64(0); idx < int64(n); idx++ {
		r := rc.RNG("genprogs", idx)
		c := wprog.GenCase(r, wprog.GenOptions{Variant: -1, SafeOnly: true, MaxScens: 4})
		if c == nil {
			continue
		}
		p, rejected, err := wprog.Compile(c)
		if err != nil || rejected != "" || p == nil {
			rc.Count("genprogs_rejected", 1)
			continue
		}
		name := filepath.Join(dir, fmt.Sprintf("g%d_%d.wuffs", rc.Shard, idx))
		if os.WriteFile(name, []byte(c.Source), 0o644) == nil {
			rc.Eval(1)
		}
	}
}
