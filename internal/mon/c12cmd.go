package mon

import (
	"bytes"
	"fmt"
	"os"
	"os/exec"
	"path/filepath"
	"sort"
	"strings"

	"github.com/google/wuffs/lang/parse"
	"github.com/google/wuffs/lang/render"
	"github.com/google/wuffs/lib/dumbindent"

	t "github.com/google/wuffs/lang/token"

	"verif/internal/vk"
)

// C12CMD: the two formatters as commands (cmd/wuffsfmt, cmd/dumbindent, built
// from the tree under test by the driver): several files per invocation in
// every mix and order of already-formatted and not-yet-formatted ones, the
// -w, -l and stdin modes. What each file holds afterwards (or what is printed)
// must be exactly what the formatter package produces for that file alone, and
// -l must list exactly the files whose formatting differs.

func init() { Table["C12CMD"] = C12Cmd }

func c12render(src []byte) ([]byte, bool) {
	tm := &t.Map{}
	tokens, comments, err := t.Tokenize(tm, "x.wuffs", src)
	if err != nil {
		return nil, false
	}
	if _, err := parse.Parse(tm, "x.wuffs", tokens, &parse.Options{AllowDoubleUnderscoreNames: true}); err != nil {
		return nil, false
	}
	var b bytes.Buffer
	if err := render.Render(&b, tm, tokens, comments); err != nil {
		return nil, false
	}
	return b.Bytes(), true
}

// c12unformat changes white space only: deeper indentation, trailing blanks,
// extra blank lines.
func c12unformat(r interface{ Intn(int) int }, src []byte) []byte {
	var out []byte
	for _, ln := range bytes.SplitAfter(src, []byte("\n")) {
		if len(bytes.TrimSpace(ln)) == 0 {
			out = append(out, ln...)
			continue
		}
		if r.Intn(3) == 0 {
			out = append(out, ' ', ' ')
		}
		body := bytes.TrimRight(ln, "\n")
		out = append(out, body...)
		if r.Intn(4) == 0 {
			out = append(out, ' ', '\t')
		}
		if bytes.HasSuffix(ln, []byte("\n")) {
			out = append(out, '\n')
		}
	}
	return out
}

func C12Cmd(rc *vk.Rec) {
	wf, di := os.Getenv("VERIF_WUFFSFMT"), os.Getenv("VERIF_DUMBINDENT")
	if wf == "" || di == "" {
		rc.Inconclusive("C12CMD: formatter binaries not provided")
		return
	}
	repo := c12repo()
	var wsrc []string
	for _, g := range []string{"std/*/*.wuffs", "hello-wuffs-c/*.wuffs"} {
		m, _ := filepath.Glob(filepath.Join(repo, g))
		wsrc = append(wsrc, m...)
	}
	sort.Strings(wsrc)
	csrc, _ := filepath.Glob(filepath.Join(repo, "internal/cgen/base/*.c"))
	hsrc, _ := filepath.Glob(filepath.Join(repo, "internal/cgen/base/*.h"))
	csrc = append(csrc, hsrc...)
	sort.Strings(csrc)
	dir, err := os.MkdirTemp("", "c12cmd")
	if err != nil {
		rc.Inconclusive("C12CMD: " + err.Error())
		return
	}
	defer os.RemoveAll(dir)
	phase := "cmd"
	n := rc.N(160, 4000)
	for idx := int64(0); idx < int64(n); idx++ {
		if rc.SkipCase(phase, idx) {
			continue
		}
		rc.Mark(phase, idx)
		r := rc.RNG(phase, idx)
		isW := r.Intn(2) == 0
		pool, bin, ext := wsrc, wf, ".wuffs"
		var flags []string
		format := func(b []byte) ([]byte, bool) { return c12render(b) }
		if !isW {
			pool, bin, ext = csrc, di, ".c"
			opt := &dumbindent.Options{Spaces: 2}
			switch r.Intn(3) {
			case 0:
				k := 1 + r.Intn(8)
				opt.Spaces = k
				flags = append(flags, fmt.Sprintf("-spaces=%d", k))
			case 1:
				opt.Tabs = true
				flags = append(flags, "-tabs")
			}
			format = func(b []byte) ([]byte, bool) { return dumbindent.FormatBytes(nil, b, opt), true }
		}
		if len(pool) == 0 {
			continue
		}
		// 1..5 files, each either in its formatted form or with white space disturbed
		k := 1 + r.Intn(5)
		type fl struct {
			path      string
			in, want  []byte
			canonical bool
		}
		var files []fl
		for j := 0; j < k; j++ {
			raw, err := os.ReadFile(pool[r.Intn(len(pool))])
			if err != nil {
				continue
			}
			if len(raw) > 60000 {
				raw = raw[:bytes.LastIndexByte(raw[:60000], '\n')+1]
				if isW { // a cut Wuffs file may not parse: use the canonical whole file instead
					raw, _ = os.ReadFile(pool[0])
				}
			}
			canon, ok := format(raw)
			if !ok {
				continue
			}
			in := canon
			if r.Intn(2) == 0 {
				in = c12unformat(r, canon)
			}
			want, ok := format(in)
			if !ok {
				continue
			}
			p := filepath.Join(dir, fmt.Sprintf("f%d_%d%s", idx, j, ext))
			os.WriteFile(p, in, 0o644)
			files = append(files, fl{p, in, want, bytes.Equal(in, want)})
		}
		if len(files) == 0 {
			continue
		}
		mode := []string{"-w", "-w", "-l", "-lw", "stdin"}[r.Intn(5)]
		var args []string
		args = append(args, flags...)
		var stdin []byte
		switch mode {
		case "-w", "-l":
			args = append(args, mode)
			for _, f := range files {
				args = append(args, f.path)
			}
		case "-lw":
			args = append(args, "-l", "-w")
			for _, f := range files {
				args = append(args, f.path)
			}
		case "stdin":
			stdin = files[0].in
			files = files[:1]
		}
		cmd := exec.Command(bin, args...)
		cmd.Stdin = bytes.NewReader(stdin)
		var so, se bytes.Buffer
		cmd.Stdout, cmd.Stderr = &so, &se
		runErr := cmd.Run()
		rc.Eval(1)
		tool := filepath.Base(bin)
		detail := map[string]interface{}{"tool": tool, "args": strings.Join(args, " "), "stderr": headS(se.String(), 400)}
		for j, f := range files {
			detail[fmt.Sprintf("file%d_canonical", j)] = f.canonical
		}
		bad := func(kind, msg string) {
			rc.ViolateCase("cmd:"+tool+":"+mode+":"+kind, fmt.Sprintf("%s %s: %s", tool, strings.Join(args, " "), msg), phase, idx, detail)
		}
		if runErr != nil {
			bad("exit", fmt.Sprintf("exit error %v on inputs the package formats fine", runErr))
			continue
		}
		if mode == "-lw" || mode == "-l" {
			var want []string
			for _, f := range files {
				if !f.canonical {
					want = append(want, f.path)
				}
			}
			got := strings.Fields(so.String())
			if strings.Join(got, " ") != strings.Join(want, " ") {
				bad("list", fmt.Sprintf("listed %d files, %d differ from their formatting", len(got), len(want)))
			}
		}
		switch mode {
		case "-w", "-lw":
			for j, f := range files {
				got, _ := os.ReadFile(f.path)
				if !bytes.Equal(got, f.want) {
					bad("file-content", fmt.Sprintf("file %d of %d (canonical before: %v) holds %d bytes afterwards, the package gives %d for it alone", j, len(files), f.canonical, len(got), len(f.want)))
					break
				}
			}
		case "-l":
			for _, f := range files {
				if got, _ := os.ReadFile(f.path); !bytes.Equal(got, f.in) {
					bad("file-touched", "-l without -w changed a file")
				}
			}
		case "stdin":
			if !bytes.Equal(so.Bytes(), files[0].want) {
				bad("stdout", fmt.Sprintf("printed %d bytes, the package gives %d", so.Len(), len(files[0].want)))
			}
		}
		nc := 0
		for _, f := range files {
			if f.canonical {
				nc++
			}
		}
		rc.Class(fmt.Sprintf("cmd|%s|%s|files=%d|canonical=%d", tool, mode, len(files), nc))
		for _, f := range files {
			os.Remove(f.path)
		}
	}
}

func headS(s string, n int) string {
	if len(s) > n {
		return s[:n]
	}
	return s
}
