package mon

import (
	"bytes"
	"compress/zlib"
	"encoding/hex"
	"errors"
	"fmt"
	"hash/crc32"
	"io"
	"math/rand"
	"os"
	"runtime"
	"runtime/debug"
	"sort"
	"strings"
	"syscall"

	"github.com/google/wuffs/lib/rac"
	"github.com/google/wuffs/lib/raczlib"

	"verif/internal/vk"
)

// C15: RAC readers survive hostile files. For every byte string presented as a
// RAC file (of any claimed size): opening, walking chunks, seeking and reading
// terminate within work proportional to the file, never panic, and either
// fail with an error or yield chunks whose primary compressed range is
// well-formed and inside the file and whose decompressed ranges are non-empty,
// ascending, contiguous and end at the reported decompressed size; a file
// that decodes without error decodes to the same bytes every time.
//
// Work is counted logically: every Read/Seek on the instrumented io.ReadSeeker
// is one unit and a phase (one full walk, one group of seeks, one decode) may
// use at most 1000 + 64*(S/16)^2 of them, S being the number of file bytes the
// reader can see (min(len(data), CompressedSize)). A per-case RLIMIT_CPU
// budget backs this up for loops that perform no I/O.

func init() { Table["C15"] = C15 }

const (
	c15magic       = "\x72\xC3\x63"
	c15outCap      = 16 << 20 // decoded bytes kept per decode; beyond = skipped
	c15caseCPUSec  = 30       // CPU budget of one case (a case needs milliseconds)
	c15allocBig    = 64 << 20
	c15smallFile   = 64 << 10
	c15maxPerSig   = 2
	c15tailChunks  = 300
	c15seekChunks  = 3
	c15walkChunkMx = 1 << 40
)

var (
	c15errCap      = errors.New("c15: read/seek call cap hit")
	c15errSinkFull = errors.New("c15: output cap reached")
)

// ---------------------------------------------------------------------------
// Instrumented io.ReadSeeker (deliberately not an io.ReaderAt).

type c15rs struct {
	data    []byte
	pos     int64
	calls   int64
	cap     int64
	hit     bool
	sawEOF  bool
	wlo     int64 // watched (mutated) byte range
	whi     int64
	touched bool
}

func (s *c15rs) Read(p []byte) (int, error) {
	s.calls++
	if s.hit || s.calls > s.cap {
		s.hit = true
		return 0, c15errCap
	}
	if len(p) == 0 {
		return 0, nil
	}
	if s.pos < 0 || s.pos >= int64(len(s.data)) {
		s.sawEOF = true
		return 0, io.EOF
	}
	n := copy(p, s.data[s.pos:])
	if s.pos < s.whi && s.pos+int64(n) > s.wlo {
		s.touched = true
	}
	s.pos += int64(n)
	return n, nil
}

func (s *c15rs) Seek(off int64, whence int) (int64, error) {
	s.calls++
	if s.hit || s.calls > s.cap {
		s.hit = true
		return 0, c15errCap
	}
	np := off
	switch whence {
	case io.SeekStart:
	case io.SeekCurrent:
		np = s.pos + off
	case io.SeekEnd:
		np = int64(len(s.data)) + off
	default:
		return 0, errors.New("c15: invalid whence")
	}
	if np < 0 {
		return 0, errors.New("c15: negative position")
	}
	s.pos = np
	return np, nil
}

// c15cap is the logical work bound of DESIGN C15 for one phase.
func c15cap(csize int64, n int) int64 {
	s := int64(n)
	if csize < s {
		s = csize
	}
	if s < 0 {
		s = 0
	}
	q := s / 16
	return 1000 + 64*q*q
}

// c15sink keeps at most cap decoded bytes.
type c15sink struct {
	buf []byte
	cap int
}

func (k *c15sink) Write(p []byte) (int, error) {
	if len(k.buf)+len(p) > k.cap {
		return 0, c15errSinkFull
	}
	k.buf = append(k.buf, p...)
	return len(p), nil
}

// c15smallReads makes io.Copy issue reads of varying small sizes.
type c15smallReads struct {
	r io.Reader
	g *rand.Rand
}

func (s *c15smallReads) Read(p []byte) (int, error) {
	if n := 1 + s.g.Intn(700); len(p) > n {
		p = p[:n]
	}
	return s.r.Read(p)
}

// ---------------------------------------------------------------------------
// Branch node codec written from doc/spec/rac-spec.md.

func c15put48(b []byte, v int64) {
	for i := 0; i < 6; i++ {
		b[i] = byte(uint64(v) >> (8 * uint(i)))
	}
}

func c15get48(b []byte) int64 {
	v := uint64(0)
	for i := 0; i < 6; i++ {
		v |= uint64(b[i]) << (8 * uint(i))
	}
	return int64(v)
}

// c15sum computes the 2-byte checksum of the node at b[0:size].
func c15sum(b []byte, size int) (byte, byte) {
	c := crc32.ChecksumIEEE(b[6:size])
	c ^= c >> 16
	return byte(c), byte(c >> 8)
}

// c15repair rewrites the checksum of the node at off (arity taken from its
// fourth byte). It reports false when the node does not fit in data.
func c15repair(data []byte, off int64) bool {
	if off < 0 || off+4 > int64(len(data)) {
		return false
	}
	a := int(data[off+3])
	if a == 0 {
		return false
	}
	size := 16*a + 16
	if off+int64(size) > int64(len(data)) {
		return false
	}
	data[off+4], data[off+5] = c15sum(data[off:], size)
	return true
}

type c15elem struct {
	ttag, stag, clen uint8
	cptr             int64
	dsize            int64 // DRange size of this element
}

type c15bn struct {
	elems   []c15elem
	codec   uint8
	version uint8
	cptrmax int64
	// overrides (hostile builders)
	badArity2 int // -1 = none
	rawDPtr   []int64
}

func c15newbn(codec uint8, cptrmax int64, elems ...c15elem) *c15bn {
	return &c15bn{elems: elems, codec: codec, version: 1, cptrmax: cptrmax, badArity2: -1}
}

func (n *c15bn) size() int { return 16*len(n.elems) + 16 }

func (n *c15bn) dmax() int64 {
	d := int64(0)
	for _, e := range n.elems {
		d += e.dsize
	}
	return d
}

func (n *c15bn) bytes() []byte {
	a := len(n.elems)
	b := make([]byte, 16*a+16)
	copy(b, c15magic)
	b[3] = byte(a)
	d := int64(0)
	for i, e := range n.elems {
		if i > 0 {
			c15put48(b[8*i:], d)
		}
		b[8*i+7] = e.ttag
		d += e.dsize
		c15put48(b[8*a+8+8*i:], e.cptr)
		b[8*a+8+8*i+6] = e.clen
		b[8*a+8+8*i+7] = e.stag
	}
	c15put48(b[8*a:], d)
	if n.rawDPtr != nil {
		for i := 1; i <= a && i < len(n.rawDPtr); i++ {
			c15put48(b[8*i:], n.rawDPtr[i])
		}
	}
	b[8*a+7] = n.codec
	c15put48(b[16*a+8:], n.cptrmax)
	b[16*a+14] = n.version
	b[16*a+15] = byte(a)
	if n.badArity2 >= 0 {
		b[16*a+15] = byte(n.badArity2)
	}
	b[4], b[5] = c15sum(b, len(b))
	return b
}

// c15nv is a read-only view of a node inside a file.
type c15nv struct {
	b   []byte
	off int64
	a   int
}

func c15view(data []byte, off int64, limit int64) (c15nv, bool) {
	if limit > int64(len(data)) {
		limit = int64(len(data))
	}
	if off < 0 || off+4 > limit {
		return c15nv{}, false
	}
	a := int(data[off+3])
	if a == 0 || off+int64(16*a+16) > limit {
		return c15nv{}, false
	}
	return c15nv{data[off : off+int64(16*a+16)], off, a}, true
}

func (v c15nv) size() int { return 16*v.a + 16 }
func (v c15nv) dptr(i int) int64 {
	if i == 0 {
		return 0
	}
	return c15get48(v.b[8*i:])
}
func (v c15nv) ttag(i int) uint8    { return v.b[8*i+7] }
func (v c15nv) cptr(i int) int64    { return c15get48(v.b[8*v.a+8+8*i:]) }
func (v c15nv) stag(i int) uint8    { return v.b[8*v.a+8+8*i+7] }
func (v c15nv) cptrmax() int64      { return c15get48(v.b[16*v.a+8:]) }
func (v c15nv) dptrmax() int64      { return c15get48(v.b[8*v.a:]) }
func (v c15nv) version() uint8      { return v.b[16*v.a+14] }
func (v c15nv) codecByte() uint8    { return v.b[8*v.a+7] }
func (v c15nv) dsize(i int) int64   { return v.dptr(i+1) - v.dptr(i) }
func (v c15nv) isBranch(i int) bool { return v.ttag(i) == 0xFE }

// codecKey identifies the codec (without the mix bit); ok=false when a long
// codec has no 0xFD element.
func (v c15nv) codecKey() (string, bool) {
	c := v.codecByte()
	if c&0x80 == 0 {
		return fmt.Sprintf("s%02x", c&0x3F), true
	}
	c &= 0x3F
	for j := 0; j < 4; j++ {
		i := int(c) | j<<6
		if i < v.a && v.ttag(i) == 0xFD {
			return "l" + hex.EncodeToString(v.b[8*v.a+8+8*i:8*v.a+8+8*i+7]), true
		}
	}
	return "", false
}

// validSpec is the spec's "Branch Node Validation" for a node on its own.
func (v c15nv) validSpec() bool {
	if string(v.b[:3]) != c15magic || v.a == 0 || int(v.b[v.size()-1]) != v.a {
		return false
	}
	kids := false
	for i := 0; i <= v.a; i++ {
		if v.b[8*i+6] != 0 {
			return false
		}
		if i == v.a {
			break
		}
		t := v.ttag(i)
		if t >= 0xC0 && t < 0xFD {
			return false
		}
		if t != 0xFD {
			kids = true
		}
	}
	if !kids {
		return false
	}
	for i := 0; i < v.a; i++ {
		if v.dptr(i+1) < v.dptr(i) {
			return false
		}
		if v.ttag(i) == 0xFD {
			if v.dsize(i) != 0 {
				return false
			}
		} else if v.cptr(i) > v.cptrmax() {
			return false
		}
	}
	if v.version() == 0 {
		return false
	}
	lo, hi := c15sum(v.b, v.size())
	if v.b[4] != lo || v.b[5] != hi {
		return false
	}
	if c := v.codecByte(); c&0x80 == 0 {
		// Short codec: the reader accepts any 6-bit value as a Codec.
		return true
	}
	_, ok := v.codecKey()
	return ok
}

// c15findRoot follows the spec's "Root Node" section.
func c15findRoot(data []byte, csize int64) (int64, bool) {
	if csize < 32 || csize > int64(len(data)) || string(data[:3]) != c15magic {
		return 0, false
	}
	if v, ok := c15view(data, 0, csize); ok && v.validSpec() && v.cptrmax() == csize {
		return 0, true
	}
	a := int64(data[csize-1])
	if a == 0 || 16*a+16 > csize {
		return 0, false
	}
	off := csize - (16*a + 16)
	if v, ok := c15view(data, off, csize); ok && v.validSpec() && v.cptrmax() == csize {
		return off, true
	}
	return 0, false
}

// c15ninfo locates one branch node of a file.
type c15ninfo struct {
	off, cbias, dbias int64
	arity             int
	depth             int
	parent            int
}

// c15parse lists the branch nodes reachable from the root (each offset once).
func c15parse(data []byte) []c15ninfo {
	csize := int64(len(data))
	root, ok := c15findRoot(data, csize)
	if !ok {
		return nil
	}
	seen := map[int64]bool{root: true}
	rv, _ := c15view(data, root, csize)
	out := []c15ninfo{{off: root, arity: rv.a, parent: -1}}
	for k := 0; k < len(out) && len(out) < 100000; k++ {
		n := out[k]
		v, _ := c15view(data, n.off, csize)
		for i := 0; i < v.a; i++ {
			if !v.isBranch(i) || v.dsize(i) <= 0 {
				continue
			}
			co := n.cbias + v.cptr(i)
			cb := n.cbias
			if s := int(v.stag(i)); s < v.a {
				cb = n.cbias + v.cptr(s)
			}
			cv, ok := c15view(data, co, csize)
			if !ok || !cv.validSpec() || seen[co] {
				continue
			}
			seen[co] = true
			out = append(out, c15ninfo{off: co, cbias: cb, dbias: n.dbias + v.dptr(i), arity: cv.a, depth: n.depth + 1, parent: k})
		}
	}
	return out
}

// c15diag explains a cap hit with the spec model: "self-or-ancestor-child"
// when a branch node is reachable from itself through children the reader
// accepts, "shared-subtree" when the index is an acyclic graph whose number
// of root-to-node paths dwarfs its number of nodes, else "other".
func c15diag(data []byte, csize int64) string {
	root, ok := c15findRoot(data, csize)
	if !ok {
		return "other"
	}
	type key struct{ off, cb int64 }
	color := map[key]int8{}
	paths := map[key]float64{}
	cycle := false
	limit := false
	var visit func(k key) float64
	visit = func(k key) float64 {
		if cycle || limit {
			return 0
		}
		switch color[k] {
		case 1:
			cycle = true
			return 0
		case 2:
			return paths[k]
		}
		if len(color) > 200000 {
			limit = true
			return 0
		}
		color[k] = 1
		v, _ := c15view(data, k.off, csize)
		pk, _ := v.codecKey()
		mix := v.codecByte()&0x40 != 0
		total := 1.0
		for i := 0; i < v.a && !cycle; i++ {
			if !v.isBranch(i) || v.dsize(i) <= 0 {
				continue
			}
			co := k.cb + v.cptr(i)
			cb := k.cb
			if s := int(v.stag(i)); s < v.a {
				cb = k.cb + v.cptr(s)
			}
			if co < 0 || co > csize-4 {
				continue
			}
			cv, ok := c15view(data, co, csize)
			if !ok || !cv.validSpec() {
				continue
			}
			ck, _ := cv.codecKey()
			if (ck != pk && !mix) || cv.version() > v.version() ||
				cb+cv.cptrmax() > k.cb+v.cptrmax() || cv.dptrmax() != v.dsize(i) {
				continue
			}
			total += visit(key{co, cb})
		}
		color[k] = 2
		paths[k] = total
		return total
	}
	p := visit(key{root, 0})
	switch {
	case cycle:
		return "self-or-ancestor-child"
	case limit:
		return "other"
	case p > 4*float64(len(color)):
		return "shared-subtree"
	}
	return "other"
}

// ---------------------------------------------------------------------------
// Valid files from the real writers.

type c15base struct {
	data  []byte
	nodes []c15ninfo
	desc  string
}

var c15words = strings.Fields("the quick brown fox jumps over a lazy dog while random access compression keeps every chunk independent of its neighbours index node pointer")

func c15text(r *rand.Rand, n int) []byte {
	var b bytes.Buffer
	for b.Len() < n {
		switch r.Intn(10) {
		case 0:
			b.Write(make([]byte, 1+r.Intn(200)))
		case 1:
			for i := 0; i < 8; i++ {
				b.WriteByte(byte(r.Intn(256)))
			}
		default:
			b.WriteString(c15words[r.Intn(len(c15words))])
			b.WriteByte(' ')
		}
	}
	return b.Bytes()[:n]
}

var c15zw *zlib.Writer

func c15deflate(p []byte) []byte {
	var b bytes.Buffer
	if c15zw == nil {
		c15zw, _ = zlib.NewWriterLevel(&b, zlib.BestSpeed)
	} else {
		c15zw.Reset(&b)
	}
	c15zw.Write(p)
	c15zw.Close()
	return append([]byte(nil), b.Bytes()...)
}

var c15chunkCounts = []int{1, 1, 2, 3, 5, 17, 60, 84, 85, 86, 170, 254, 255, 256, 257, 300, 511, 600, 1000, 2000}

// c15genBase builds one valid file. kind 0 = rac.Writer + raczlib.CodecWriter,
// kind 1 = rac.ChunkWriter with hand-compressed chunks, kind 2 = the large
// three-level file.
func c15genBase(r *rand.Rand, kind int) (*c15base, error) {
	loc := rac.IndexLocation(r.Intn(2))
	var tmp io.ReadWriter
	if loc == rac.IndexLocationAtStart {
		tmp = &bytes.Buffer{}
	}
	cpage := []uint64{0, 0, 0, 16, 64, 256, 1024, 4096}[r.Intn(8)]
	out := &bytes.Buffer{}
	desc := ""
	switch kind {
	case 0:
		n := c15chunkCounts[r.Intn(len(c15chunkCounts))]
		var dcs, ccs uint64
		var input []byte
		if r.Intn(4) == 0 {
			ccs = uint64(40 + r.Intn(200))
			input = c15text(r, 200+r.Intn(6000))
		} else {
			dcs = uint64(8 + r.Intn(120))
			if n <= 17 && r.Intn(2) == 0 {
				dcs = uint64(1000 + r.Intn(6000)) // primaries longer than 1 KiB: CLen >= 2
			}
			input = c15text(r, int(dcs)*n-r.Intn(int(dcs)))
		}
		var res [][]byte
		// (CChunkSize together with ResourcesData makes the writer itself fail
		// now and then; that is not this property's business.)
		for k := r.Intn(3); k > 0 && ccs == 0; k-- {
			res = append(res, c15text(r, 20+r.Intn(300)))
		}
		w := &rac.Writer{Writer: out, CodecWriter: &raczlib.CodecWriter{}, IndexLocation: loc, TempFile: tmp,
			CPageSize: cpage, CChunkSize: ccs, DChunkSize: dcs, ResourcesData: res}
		if _, err := w.Write(input); err != nil {
			return nil, fmt.Errorf("Write: %v (cchunk=%d dchunk=%d res=%d in=%d cpage=%d loc=%d)", err, ccs, dcs, len(res), len(input), cpage, loc)
		}
		if err := w.Close(); err != nil {
			return nil, fmt.Errorf("Close: %v (cchunk=%d dchunk=%d res=%d in=%d cpage=%d loc=%d)", err, ccs, dcs, len(res), len(input), cpage, loc)
		}
		desc = fmt.Sprintf("writer n~%d loc=%d cpage=%d cchunk=%d dchunk=%d res=%d in=%d", n, loc, cpage, ccs, dcs, len(res), len(input))
	default:
		n := c15chunkCounts[r.Intn(len(c15chunkCounts))]
		nres := []int{0, 0, 1, 2, 7}[r.Intn(5)]
		codec := rac.CodecZlib
		switch r.Intn(8) {
		case 0:
			codec = rac.CodecZeroes
		case 1:
			codec = rac.CodecLZ4
		case 2:
			codec = rac.Codec(0x8000_0000_326F_646D)
		}
		perChunkRes := false
		if kind == 2 {
			n, nres, codec, perChunkRes, cpage = 22000+r.Intn(400), 0, rac.CodecZeroes, true, 0
		}
		cw := &rac.ChunkWriter{Writer: out, IndexLocation: loc, TempFile: tmp, CPageSize: cpage}
		var ids []rac.OptResource
		for k := 0; k < nres; k++ {
			id, err := cw.AddResource([]byte{0, 0, 0, 0, 0, 0, 0, 0})
			if err != nil {
				return nil, err
			}
			ids = append(ids, id)
		}
		var pay [][]byte
		var plen []int
		bigPay := n <= 60 && r.Intn(2) == 0
		for k := 0; k < 6; k++ {
			p := c15text(r, 1+r.Intn(90))
			if bigPay && k < 3 {
				// incompressible, so the primary is longer than 1 KiB: CLen >= 2
				p = make([]byte, 1100+r.Intn(3000))
				r.Read(p)
			}
			plen = append(plen, len(p))
			pay = append(pay, c15deflate(p))
		}
		for k := 0; k < n; k++ {
			var s2, s3 rac.OptResource
			if perChunkRes {
				s2, _ = cw.AddResource(nil)
				s3, _ = cw.AddResource(nil)
			} else if len(ids) > 0 && r.Intn(2) == 0 {
				s2 = ids[r.Intn(len(ids))]
				if r.Intn(8) == 0 {
					s3 = ids[r.Intn(len(ids))]
				}
			}
			j := r.Intn(len(pay))
			prim, dsz := pay[j], uint64(plen[j])
			if r.Intn(6) == 0 {
				dsz += uint64(r.Intn(300)) // implicit trailing zeroes
			}
			if codec != rac.CodecZlib {
				prim = prim[:r.Intn(3)]
			}
			if kind == 2 {
				prim, dsz = nil, 1
			}
			if err := cw.AddChunk(dsz, codec, prim, s2, s3); err != nil {
				return nil, err
			}
		}
		if err := cw.Close(); err != nil {
			return nil, err
		}
		desc = fmt.Sprintf("chunkwriter n=%d loc=%d cpage=%d codec=%x res=%d perchunkres=%v", n, loc, cpage, uint64(codec), nres, perChunkRes)
	}
	b := &c15base{data: out.Bytes(), desc: desc}
	b.nodes = c15parse(b.data)
	if len(b.nodes) == 0 {
		return nil, fmt.Errorf("c15: own parser finds no root in a writer-made file (%s)", desc)
	}
	return b, nil
}

// ---------------------------------------------------------------------------
// One hostile file and what was done to it.

type c15case struct {
	fam   string
	mut   string // mutated field(s) / sub-family, part of the class
	data  []byte
	csize int64
	wlo   int64
	whi   int64
	valid bool // produced by the real writer, unmodified
	desc  string
}

type c15res struct {
	walk    string
	dec     string
	chunks  int
	touched bool
}

type c15mon struct {
	rc     *vk.Rec
	sigs   map[string]int
	hard   uint64
	bufA   c15sink
	bufB   c15sink
	phase  string
	idx    int64
	pool   []*c15base
	big    *c15base
	nviolC int

	pendingCap []func()
}

func (m *c15mon) armCPU() {
	var ru syscall.Rusage
	if syscall.Getrusage(syscall.RUSAGE_SELF, &ru) != nil {
		return
	}
	used := uint64(ru.Utime.Sec + ru.Stime.Sec)
	lim := used + c15caseCPUSec + 2
	if m.hard != 0 && lim > m.hard {
		lim = m.hard
	}
	syscall.Setrlimit(syscall.RLIMIT_CPU, &syscall.Rlimit{Cur: lim, Max: m.hard})
}

func (m *c15mon) violate(cs *c15case, sig, what string) {
	m.nviolC++
	m.sigs[sig]++
	if m.sigs[sig] > c15maxPerSig {
		m.rc.Count("violations_not_listed_again", 1)
		return
	}
	x := map[string]interface{}{"family": cs.fam, "mutation": cs.mut, "compressed_size_arg": cs.csize,
		"file_len": len(cs.data), "desc": cs.desc}
	if len(cs.data) <= 4096 {
		x["file_hex"] = hex.EncodeToString(cs.data)
	} else {
		x["file_hex_head"] = hex.EncodeToString(cs.data[:512])
		x["file_hex_tail"] = hex.EncodeToString(cs.data[len(cs.data)-512:])
		if cs.whi > cs.wlo && cs.wlo >= 0 && cs.whi <= int64(len(cs.data)) {
			lo, hi := cs.wlo-64, cs.whi+64
			if lo < 0 {
				lo = 0
			}
			if hi > int64(len(cs.data)) {
				hi = int64(len(cs.data))
			}
			x["mutated_region_off"] = lo
			x["mutated_region_hex"] = hex.EncodeToString(cs.data[lo:hi])
		}
	}
	if dir := os.Getenv("C15_DUMP"); dir != "" {
		// developer aid: keep the whole witness file
		name := fmt.Sprintf("%s/s%d-%s-%d.rac", dir, m.rc.Shard, m.phase, m.idx)
		os.WriteFile(name, cs.data, 0o644)
		x["dumped_to"] = name
	}
	m.rc.ViolateCase(sig, what, m.phase, m.idx, x)
}

func c15errClass(err error) string {
	switch {
	case err == nil:
		return "ok"
	case err == io.EOF:
		return "EOF"
	case err == io.ErrUnexpectedEOF:
		return "unexpected-EOF"
	case errors.Is(err, c15errCap):
		return "cap"
	case errors.Is(err, c15errSinkFull):
		return "outcap"
	}
	s := err.Error()
	out := make([]byte, 0, 48)
	prevN := false
	for i := 0; i < len(s) && len(out) < 48; i++ {
		c := s[i]
		switch {
		case c >= '0' && c <= '9':
			if !prevN {
				out = append(out, 'N')
			}
			prevN = true
			continue
		case c == ' ' || c == ':':
			c = '-'
		}
		prevN = false
		out = append(out, c)
	}
	return string(out)
}

// chunkCheck asserts the per-chunk clauses of the property. prevEnd < 0 means
// "no previous chunk"; first tells whether the walk started at DSpace offset 0.
func (m *c15mon) chunkCheck(cs *c15case, where string, c rac.Chunk, prevEnd int64, fromZero bool, openFailed bool) bool {
	ok := true
	if openFailed {
		// The reader had already reported that the file is not a RAC file,
		// yet hands out a chunk: one narrow signature for whatever is wrong
		// with such a chunk.
		if c.CPrimary[0] > c.CPrimary[1] || c.CPrimary[0] < 0 || c.CPrimary[1] > cs.csize || c.DRange[0] >= c.DRange[1] ||
			(prevEnd >= 0 && c.DRange[0] != prevEnd) || (prevEnd < 0 && fromZero && c.DRange[0] != 0) {
			m.violate(cs, "rac-hostile:chunk-invariant:after-failed-open",
				fmt.Sprintf("%s: the open had failed, a later NextChunk returned nil error and chunk CPrimary %v DRange %v (previous end %d, CompressedSize %d)",
					where, c.CPrimary, c.DRange, prevEnd, cs.csize))
			return false
		}
		return true
	}
	fd := ""
	if c.TTag == 0xFD {
		// An 0xFD element is a Codec Element attribute, not a node; name the
		// narrower kind of failure.
		fd = ":codec-element-as-chunk"
	}
	if c.CPrimary[0] > c.CPrimary[1] {
		m.violate(cs, "rac-hostile:cprimary:low>high"+fd, fmt.Sprintf("%s: chunk with CPrimary %v (low > high), DRange %v", where, c.CPrimary, c.DRange))
		ok = false
	} else if c.CPrimary[0] < 0 || c.CPrimary[1] > cs.csize {
		m.violate(cs, "rac-hostile:cprimary:out-of-file"+fd, fmt.Sprintf("%s: chunk with CPrimary %v outside [0, %d], DRange %v", where, c.CPrimary, cs.csize, c.DRange))
		ok = false
	}
	if c.DRange[0] >= c.DRange[1] {
		m.violate(cs, "rac-hostile:drange:empty-or-descending", fmt.Sprintf("%s: chunk with DRange %v", where, c.DRange))
		ok = false
	}
	if prevEnd >= 0 {
		if c.DRange[0] != prevEnd {
			m.violate(cs, "rac-hostile:drange:not-contiguous", fmt.Sprintf("%s: chunk DRange %v follows a chunk that ended at %d", where, c.DRange, prevEnd))
			ok = false
		}
	} else if fromZero && c.DRange[0] != 0 {
		m.violate(cs, "rac-hostile:drange:first-not-at-0", fmt.Sprintf("%s: first chunk DRange %v does not start at 0", where, c.DRange))
		ok = false
	}
	return ok
}

func (m *c15mon) capViolation(cs *c15case, where string, rs *c15rs) {
	// Deferred to the end of run(): the diagnosis allocates and must not be
	// charged to the reader by memCheck.
	m.pendingCap = append(m.pendingCap, func() { m.capViolationNow(cs, where, rs) })
}

func (m *c15mon) capViolationNow(cs *c15case, where string, rs *c15rs) {
	cls := c15diag(cs.data, cs.csize)
	m.violate(cs, "rac-hostile:unbounded-walk:"+cls,
		fmt.Sprintf("%s: more than %d Read/Seek calls (cap 1000+64*(S/16)^2, S=%d) on a %d-byte file: work not proportional to the file [%s]",
			where, rs.cap, c15min(cs.csize, int64(len(cs.data))), len(cs.data), cls))
}

func c15min(a, b int64) int64 {
	if a < b {
		return a
	}
	return b
}

func (m *c15mon) newRS(cs *c15case) *c15rs {
	return &c15rs{data: cs.data, cap: c15cap(cs.csize, len(cs.data)), wlo: cs.wlo, whi: cs.whi}
}

// guard runs f; a panic is a violation.
func (m *c15mon) guard(cs *c15case, where string, f func()) (panicked bool) {
	defer func() {
		if r := recover(); r != nil {
			panicked = true
			m.violate(cs, "rac-hostile:"+vk.PanicSig(r), fmt.Sprintf("%s panicked: %v", where, r))
		}
	}()
	f()
	return false
}

// run performs every observation on one file.
func (m *c15mon) run(cs *c15case) c15res {
	rc := m.rc
	res := c15res{walk: "?", dec: "-"}
	var ms0, ms1 runtime.MemStats
	runtime.ReadMemStats(&ms0)

	// (i) full walk.
	rs := m.newRS(cs)
	dsize := int64(-1)
	capHit := false
	if m.guard(cs, "walk", func() {
		cr := &rac.ChunkReader{ReadSeeker: rs, CompressedSize: cs.csize}
		ds, derr := cr.DecompressedSize()
		if derr == nil {
			dsize = ds
		}
		prevEnd := int64(-1)
		var err error
		for n := int64(0); n < c15walkChunkMx; n++ {
			var c rac.Chunk
			c, err = cr.NextChunk()
			if err != nil {
				break
			}
			res.chunks++
			if !m.chunkCheck(cs, "walk", c, prevEnd, true, derr != nil) {
				err = errors.New("c15: stopped after an invariant violation")
				res.walk = "violated"
				return
			}
			prevEnd = c.DRange[1]
		}
		switch {
		case rs.hit:
			capHit = true
			res.walk = "cap"
			m.capViolation(cs, "walk", rs)
		case err == io.EOF:
			res.walk = "accepted"
			if res.chunks == 0 {
				res.walk = "accepted-empty"
			}
			if derr != nil {
				res.walk = "open:" + c15errClass(derr)
			} else if prevEnd >= 0 && prevEnd != dsize {
				sig := "rac-hostile:drange:end!=decompressed-size"
				if rs.sawEOF {
					sig += ":underlying-eof-reported-as-end"
				}
				m.violate(cs, sig, fmt.Sprintf("walk ended with io.EOF after %d chunks, last DRange ends at %d, DecompressedSize() = %d (underlying reader hit its own EOF: %v)",
					res.chunks, prevEnd, dsize, rs.sawEOF))
				res.walk = "violated"
			}
		default:
			res.walk = c15errClass(err)
			if res.chunks > 0 {
				res.walk = "partial+" + res.walk
			} else if derr != nil {
				res.walk = "open:" + c15errClass(derr)
			}
		}
	}) {
		res.walk = "panic"
	}
	res.touched = rs.touched
	walkCalls := rs.calls
	if cs.valid {
		rc.Max("max_valid_walk_calls_ppm_of_cap", walkCalls*1000000/rs.cap)
		if res.walk != "accepted" && res.walk != "accepted-empty" {
			rc.Count("valid_file_not_accepted", 1)
		}
	}
	rc.Count("chunks_checked", int64(res.chunks))
	rc.Max("max_walk_calls", walkCalls)
	if capHit || res.walk == "panic" || res.walk == "violated" {
		m.memCheck(cs, &ms0, &ms1)
		return res
	}

	// (ii) seeks.
	rs2 := m.newRS(cs)
	m.guard(cs, "seek", func() {
		cr := &rac.ChunkReader{ReadSeeker: rs2, CompressedSize: cs.csize}
		ds, derr := cr.DecompressedSize()
		if derr != nil {
			ds = 1 << 20
		}
		offs := []int64{0, ds / 2, ds - 1, ds, ds + 1, rac.MaxSize, 1 << 62, -1}
		for k, o := range offs {
			if k == 1 && res.chunks > 0 && res.chunks <= c15tailChunks {
				// For small indexes walk from the middle to the end.
				m.seekWalk(cs, cr, rs2, o, c15tailChunks+1, ds, derr == nil)
			} else {
				m.seekWalk(cs, cr, rs2, o, c15seekChunks, ds, derr == nil)
			}
			if rs2.hit {
				break
			}
		}
		rc.Count("seeks_checked", int64(len(offs)))
	})
	if rs2.hit {
		m.capViolation(cs, "seek", rs2)
		m.memCheck(cs, &ms0, &ms1)
		return res
	}
	if cs.valid {
		rc.Max("max_valid_seek_calls_ppm_of_cap", rs2.calls*1000000/rs2.cap)
	}

	// (iii) decode twice.
	m.bufA.buf = m.bufA.buf[:0]
	m.bufB.buf = m.bufB.buf[:0]
	var errA, errB error
	rs3 := m.newRS(cs)
	pa := m.guard(cs, "decode", func() { errA = m.decode(cs, rs3, &m.bufA, nil) })
	res.touched = res.touched || rs3.touched
	switch {
	case pa:
		res.dec = "panic"
	case rs3.hit:
		res.dec = "cap"
		m.capViolation(cs, "decode", rs3)
	default:
		res.dec = c15errClass(errA)
	}
	if cs.valid {
		rc.Max("max_valid_decode_calls_ppm_of_cap", rs3.calls*1000000/rs3.cap)
		if errA != nil {
			rc.Count("valid_file_decode_error:"+res.dec, 1)
		}
	}
	if errors.Is(errA, c15errSinkFull) {
		rc.Count("decode_skipped_output_cap", 1)
	}
	if errA == nil && !pa {
		rc.Count("decodes_ok", 1)
		rc.Count("decoded_bytes", int64(len(m.bufA.buf)))
		rs4 := m.newRS(cs)
		g := rand.New(rand.NewSource(int64(len(cs.data))*7919 + m.idx))
		pb := m.guard(cs, "decode#2", func() { errB = m.decode(cs, rs4, &m.bufB, g) })
		switch {
		case pb:
		case rs4.hit:
			m.capViolation(cs, "decode#2", rs4)
		case errB == nil:
			rc.Count("decode_pairs_compared", 1)
			if !bytes.Equal(m.bufA.buf, m.bufB.buf) {
				d := 0
				for d < len(m.bufA.buf) && d < len(m.bufB.buf) && m.bufA.buf[d] == m.bufB.buf[d] {
					d++
				}
				m.violate(cs, "rac-hostile:decode:nondeterministic",
					fmt.Sprintf("two error-free decodes differ: %d vs %d bytes, first difference at %d", len(m.bufA.buf), len(m.bufB.buf), d))
			}
		default:
			rc.Count("decode_second_errored:"+c15errClass(errB), 1)
		}

		// Reader-level Seek + short Read; only where the discarded prefix is
		// bounded by the output cap.
		if dsize >= 0 && dsize <= c15outCap {
			rs5 := m.newRS(cs)
			m.guard(cs, "reader-seek", func() {
				r := &rac.Reader{ReadSeeker: rs5, CompressedSize: cs.csize, CodecReaders: []rac.CodecReader{&raczlib.CodecReader{}}}
				defer r.Close()
				var p [64]byte
				for _, o := range []int64{dsize / 2, dsize - 1, dsize, dsize + 5, 0} {
					if _, err := r.Seek(o, io.SeekStart); err != nil {
						break
					}
					r.Read(p[:])
				}
				if _, err := r.Seek(-3, io.SeekEnd); err == nil {
					r.Read(p[:])
				}
			})
			if rs5.hit {
				m.capViolation(cs, "reader-seek", rs5)
			}
			rc.Count("reader_seek_probes", 1)
		} else {
			rc.Count("reader_seek_probe_skipped_huge_dsize", 1)
		}
	}
	m.memCheck(cs, &ms0, &ms1)
	return res
}

func (m *c15mon) memCheck(cs *c15case, ms0, ms1 *runtime.MemStats) {
	runtime.ReadMemStats(ms1)
	defer func() {
		for _, f := range m.pendingCap {
			f()
		}
		m.pendingCap = m.pendingCap[:0]
	}()
	delta := int64(ms1.TotalAlloc - ms0.TotalAlloc)
	m.rc.Max("max_alloc_bytes_one_case", delta)
	if delta <= c15allocBig {
		return
	}
	m.rc.Count("cases_allocating_over_64MiB", 1)
	fsz := int64(len(cs.data))
	if cs.csize > fsz {
		fsz = cs.csize
	}
	if fsz < c15smallFile {
		m.violate(cs, "rac-hostile:alloc-by-claim", fmt.Sprintf("reading a %d-byte file (CompressedSize %d) allocated %d bytes", len(cs.data), cs.csize, delta))
	} else if len(cs.data) < c15smallFile {
		m.rc.Count("alloc_over_64MiB_excused_by_compressed_size_arg", 1)
	}
	debug.FreeOSMemory()
}

// seekWalk seeks to DSpace offset o and checks up to maxChunks chunks.
func (m *c15mon) seekWalk(cs *c15case, cr *rac.ChunkReader, rs *c15rs, o int64, maxChunks int, ds int64, dsOK bool) {
	if err := cr.SeekToChunkContaining(o); err != nil {
		return
	}
	prevEnd := int64(-1)
	where := fmt.Sprintf("after SeekToChunkContaining(%d)", o)
	for n := 0; n < maxChunks; n++ {
		c, err := cr.NextChunk()
		if err != nil {
			if err == io.EOF && !rs.hit && dsOK && prevEnd >= 0 && prevEnd != ds {
				sig := "rac-hostile:drange:end!=decompressed-size"
				if rs.sawEOF {
					sig += ":underlying-eof-reported-as-end"
				}
				m.violate(cs, sig, fmt.Sprintf("%s: io.EOF after a chunk ending at %d, DecompressedSize() = %d", where, prevEnd, ds))
			}
			return
		}
		if !m.chunkCheck(cs, where, c, prevEnd, false, !dsOK) {
			return
		}
		prevEnd = c.DRange[1]
	}
}

func (m *c15mon) decode(cs *c15case, rs *c15rs, sink *c15sink, g *rand.Rand) error {
	r := &rac.Reader{ReadSeeker: rs, CompressedSize: cs.csize,
		CodecReaders: []rac.CodecReader{&raczlib.CodecReader{}}, Concurrency: 0}
	defer r.Close()
	var src io.Reader = r
	if g != nil {
		src = &c15smallReads{r, g}
	}
	_, err := io.Copy(sink, src)
	return err
}

// ---------------------------------------------------------------------------
// Hostile families.

func c15pick(r *rand.Rand, vals ...int64) int64 { return vals[r.Intn(len(vals))] }

var c15fields = []string{"magic", "arity1", "arity2", "arity-both", "checksum", "reserved", "ttag", "dptr", "dptrmax",
	"codec", "cptr", "cptr", "clen", "stag", "cptrmax", "version", "dptr", "ttag", "to-codec-element"}

// c15mutate applies one field mutation to node n of data; it returns the
// field name ("" when nothing changed).
func c15mutate(r *rand.Rand, data []byte, b *c15base, ni int) string {
	n := b.nodes[ni]
	a := n.arity
	o := n.off
	fsz := int64(len(data))
	f := c15fields[r.Intn(len(c15fields))]
	old := append([]byte(nil), data[o:o+int64(16*a+16)]...)
	i := r.Intn(a)
	nodeOff := func() int64 { return b.nodes[r.Intn(len(b.nodes))].off - n.cbias }
	switch f {
	case "magic":
		data[o+int64(r.Intn(3))] ^= byte(1 << uint(r.Intn(8)))
	case "arity1":
		data[o+3] = byte(c15pick(r, 0, int64(a)+1, int64(a)-1, 255, int64(r.Intn(256))))
	case "arity2":
		data[o+int64(16*a+15)] = byte(c15pick(r, 0, int64(a)+1, int64(a)-1, 255, int64(r.Intn(256))))
	case "arity-both":
		na := int(c15pick(r, int64(a)+1, int64(a)-1, 1, 255, int64(1+r.Intn(255))))
		if na < 1 || na > 255 || o+int64(16*na+16) > fsz {
			return ""
		}
		data[o+3] = byte(na)
		data[o+int64(16*na+15)] = byte(na)
	case "checksum":
		data[o+4+int64(r.Intn(2))] ^= byte(1 << uint(r.Intn(8)))
	case "reserved":
		j := r.Intn(a + 1)
		data[o+int64(8*j+6)] = byte(1 + r.Intn(255))
	case "ttag":
		data[o+int64(8*i+7)] = byte(c15pick(r, 0xFE, 0xFD, 0xFF, 0xC0, 0xFC, 0xBF, 0, int64(i), int64(r.Intn(a)), int64(r.Intn(256))))
	case "to-codec-element":
		// Element i becomes a Codec Element: TTag 0xFD and 7 bytes of codec
		// name where CPtr|CLen would be.
		data[o+int64(8*i+7)] = 0xFD
		p := o + int64(8*a+8+8*i)
		for k := int64(0); k < 7; k++ {
			data[p+k] = byte(r.Intn(256))
		}
	case "dptr", "dptrmax":
		j := 1 + r.Intn(a)
		if f == "dptrmax" {
			j = a
		} else if a > 1 {
			j = 1 + r.Intn(a-1)
		}
		v := c15get48(data[o+int64(8*j):])
		prev := int64(0)
		if j > 1 {
			prev = c15get48(data[o+int64(8*(j-1)):])
		}
		next := v
		if j < a {
			next = c15get48(data[o+int64(8*(j+1)):])
		}
		nv := c15pick(r, prev, prev-1, next, next+1, 0, 1, rac.MaxSize, 1<<47, v+1, v-1, v+int64(r.Intn(5000)), int64(1)<<uint(r.Intn(48)), c15get48(data[o+int64(8*a):]))
		if nv < 0 {
			nv = rac.MaxSize
		}
		c15put48(data[o+int64(8*j):], nv)
	case "codec":
		data[o+int64(8*a+7)] = byte(c15pick(r, 0, 1, 2, 3, 4, 0x3F, 0x40, 0x41, 0x43, 0x80, 0x81, 0x80|int64(i), 0xC0|int64(i), 0xFF, int64(r.Intn(256))))
	case "cptr":
		p := o + int64(8*a+8+8*i)
		v := c15get48(data[p:])
		cmax := c15get48(data[o+int64(16*a+8):])
		nv := c15pick(r, 0, o-n.cbias, nodeOff(), nodeOff(), b.nodes[0].off-n.cbias, cmax, cmax+1, cmax-1, cmax-3, cmax-4, fsz, fsz+1,
			fsz-4, fsz-3, fsz-32, rac.MaxSize, v+1, v-1, v+1024, int64(r.Intn(int(fsz)+1)), int64(1)<<uint(r.Intn(48)))
		if nv < 0 {
			nv = 0
		}
		c15put48(data[p:], nv)
	case "clen":
		data[o+int64(8*a+8+8*i+6)] = byte(c15pick(r, 0, 1, 2, 255, int64(r.Intn(256))))
	case "stag":
		data[o+int64(8*a+8+8*i+7)] = byte(c15pick(r, 0, int64(i), int64(a)-1, int64(a), 0xFF, 0xFE, 0xFD, int64(r.Intn(a)), int64(r.Intn(256))))
	case "cptrmax":
		p := o + int64(16*a+8)
		v := c15get48(data[p:])
		nv := c15pick(r, 0, v+1, v-1, v+1024, v+4096, fsz, fsz+1, fsz-1, fsz+70000, rac.MaxSize, 1<<47, v/2, int64(r.Intn(int(fsz)+1)))
		if nv < 0 {
			nv = 0
		}
		c15put48(data[p:], nv)
	case "version":
		data[o+int64(16*a+14)] = byte(c15pick(r, 0, 2, 3, 255, int64(r.Intn(256))))
	}
	if bytes.Equal(old, data[o:o+int64(len(old))]) {
		return ""
	}
	return f
}

func (m *c15mon) famMutate(r *rand.Rand) *c15case {
	b := m.pool[r.Intn(len(m.pool))]
	if r.Intn(60) == 0 && m.big != nil {
		b = m.big
	}
	data := append([]byte(nil), b.data...)
	nm := 1
	switch p := r.Intn(10); {
	case p >= 9:
		nm = 3
	case p >= 7:
		nm = 2
	}
	kinds := map[string]bool{}
	var labels []string
	touchedNodes := map[int]bool{}
	wlo, whi := int64(1<<62), int64(-1)
	lastNi := -1
	for k := 0; k < nm; k++ {
		ni := 0
		if len(b.nodes) > 1 && r.Intn(5) >= 2 {
			ni = 1 + r.Intn(len(b.nodes)-1)
		}
		if k > 0 && lastNi >= 0 && r.Intn(2) == 0 {
			ni = lastNi
		}
		f := ""
		for try := 0; try < 4 && f == ""; try++ {
			f = c15mutate(r, data, b, ni)
		}
		if f == "" {
			continue
		}
		touchedNodes[ni] = true
		lastNi = ni
		kind := "root"
		if ni != 0 {
			kind = "branch"
		}
		if l := kind + "." + f; !kinds[l] {
			kinds[l] = true
			labels = append(labels, l)
		}
		n := b.nodes[ni]
		if n.off < wlo {
			wlo = n.off
		}
		if e := n.off + int64(16*n.arity+16); e > whi {
			whi = e
		}
	}
	repair := r.Intn(7) != 0
	if repair {
		var nis []int
		for ni := range touchedNodes {
			nis = append(nis, ni)
		}
		sort.Ints(nis)
		for _, ni := range nis {
			c15repair(data, b.nodes[ni].off)
		}
	}
	sort.Strings(labels)
	mut := strings.Join(labels, "+")
	if mut == "" {
		mut = "none"
	}
	if !repair {
		mut += ":norepair"
	}
	return &c15case{fam: "mutate", mut: mut, data: data, csize: int64(len(data)), wlo: wlo, whi: whi, desc: b.desc}
}

func (m *c15mon) smallBase(r *rand.Rand) *c15base {
	for t := 0; t < 20; t++ {
		if b := m.pool[r.Intn(len(m.pool))]; len(b.data) <= 1<<16 {
			return b
		}
	}
	return m.pool[0]
}

func (m *c15mon) famTrunc(r *rand.Rand) *c15case {
	b := m.smallBase(r)
	n := b.nodes[r.Intn(len(b.nodes))]
	cut := n.off
	edge := "node-start"
	if r.Intn(2) == 0 {
		cut = n.off + int64(16*n.arity+16)
		edge = "node-end"
	}
	if r.Intn(6) == 0 {
		cut = int64(r.Intn(len(b.data) + 1))
		edge = "random"
	}
	cut += int64(r.Intn(3)) - 1
	if cut < 0 {
		cut = 0
	}
	if cut > int64(len(b.data)) {
		cut = int64(len(b.data))
	}
	cs := &c15case{fam: "trunc", data: append([]byte(nil), b.data[:cut]...), csize: cut, desc: b.desc}
	cs.mut = edge + ":honest-size"
	if r.Intn(3) == 0 {
		cs.csize = int64(len(b.data))
		cs.mut = edge + ":original-size"
	}
	return cs
}

func (m *c15mon) famExtend(r *rand.Rand) *c15case {
	b := m.smallBase(r)
	k := int(c15pick(r, 1, 2, 15, 16, 31, 32, 33, 48, int64(1+r.Intn(5000))))
	tail := make([]byte, k)
	r.Read(tail)
	mut := "random-tail"
	switch r.Intn(4) {
	case 0: // the tail ends like a node of the same arity as the real root
		rn := b.nodes[0]
		if k >= 16*rn.arity+16 {
			copy(tail[k-(16*rn.arity+16):], b.data[rn.off:rn.off+int64(16*rn.arity+16)])
			mut = "tail-is-copy-of-root"
		}
	case 1:
		tail[k-1] = 0
		mut = "tail-ends-with-0"
	}
	data := append(append([]byte(nil), b.data...), tail...)
	cs := &c15case{fam: "extend", mut: mut + ":new-size", data: data, csize: int64(len(data)), desc: b.desc}
	if r.Intn(3) == 0 {
		cs.csize = int64(len(b.data))
		cs.mut = mut + ":original-size"
	}
	return cs
}

func (m *c15mon) famEmbed(r *rand.Rand) *c15case {
	b := m.smallBase(r)
	pre := make([]byte, int(c15pick(r, 1, 3, 4, 16, 32, int64(r.Intn(300)))))
	post := make([]byte, int(c15pick(r, 0, 0, 1, 32, int64(r.Intn(300)))))
	r.Read(pre)
	r.Read(post)
	mut := "random-prefix"
	if r.Intn(2) == 0 && len(pre) >= 4 {
		copy(pre, c15magic)
		pre[3] = byte(c15pick(r, 0, 1, int64(r.Intn(256))))
		mut = "magic-prefix"
	}
	data := append(append(append([]byte(nil), pre...), b.data...), post...)
	return &c15case{fam: "embed", mut: fmt.Sprintf("%s:post%v", mut, len(post) > 0), data: data,
		csize: c15pick(r, int64(len(data)), int64(len(data)), int64(len(pre)+len(b.data)), int64(len(b.data))), desc: b.desc}
}

var c15claims = []int64{0, 1, 4, 31, 32, 33, 47, 48, 4096, 1 << 16, 1 << 31, 1<<31 - 1, 1 << 32, 1<<32 + 32, 1 << 40, 1 << 47, rac.MaxSize - 1, rac.MaxSize, rac.MaxSize + 1, 1 << 62, 1<<63 - 1, -1, -32}

func (m *c15mon) famClaimed(r *rand.Rand) *c15case {
	b := m.smallBase(r)
	data := append([]byte(nil), b.data...)
	cs := &c15case{fam: "claimed", data: data, desc: b.desc}
	claim := c15claims[r.Intn(len(c15claims))]
	if r.Intn(4) == 0 {
		claim = int64(len(data)) + int64(r.Intn(65)) - 32
	}
	root := b.nodes[0]
	switch r.Intn(4) {
	case 0:
		cs.csize = claim
		cs.mut = "size-arg-only"
	case 1: // the root agrees with the lie
		cs.csize = claim
		c15put48(data[root.off+int64(16*root.arity+8):], claim)
		c15repair(data, root.off)
		cs.mut = "size-arg+root-cptrmax"
	case 2: // huge decompressed size
		cs.csize = int64(len(data))
		c15put48(data[root.off+int64(8*root.arity):], c15pick(r, 0, 1, 1<<31, 1<<32, 1<<47, rac.MaxSize, int64(1)<<uint(r.Intn(48))))
		c15repair(data, root.off)
		cs.mut = "root-dptrmax"
	default: // a minimal root at the start that claims everything
		d := c15pick(r, 0, 1, 1<<32, rac.MaxSize, int64(1)<<uint(r.Intn(48)))
		codec := uint8(c15pick(r, 0, 1))
		n := c15newbn(codec, claim&rac.MaxSize, c15elem{ttag: 0xFF, stag: 0xFF, cptr: c15pick(r, 0, 32, claim&rac.MaxSize), dsize: d})
		cs.data = append(n.bytes(), data[:r.Intn(len(data)+1)]...)
		cs.csize = claim
		cs.mut = fmt.Sprintf("tiny-root-claims-all:codec%d", codec)
		cs.desc = ""
	}
	cs.mut += ":" + c15claimBucket(cs.csize, int64(len(cs.data)))
	return cs
}

func c15claimBucket(claim, n int64) string {
	switch {
	case claim < 0:
		return "negative"
	case claim < 32:
		return "<32"
	case claim < n:
		return "<len"
	case claim == n:
		return "=len"
	case claim <= rac.MaxSize:
		return ">len"
	}
	return ">2^48"
}

// c15layout places nodes in a file.
type c15layout struct{ b []byte }

func (l *c15layout) at(off int64, p []byte) {
	if need := off + int64(len(p)); need > int64(len(l.b)) {
		l.b = append(l.b, make([]byte, need-int64(len(l.b)))...)
	}
	copy(l.b[off:], p)
}

// famLoop: self- and mutually-referential branch nodes.
func (m *c15mon) famLoop(r *rand.Rand) *c15case {
	ring := 1 + r.Intn(4) // nodes in the cycle
	if r.Intn(3) == 0 {
		ring = 1
	}
	entry := r.Intn(3) // nodes between the root and the ring (0 = root is in the ring)
	d := c15pick(r, 1, 16, 1000, 1<<32, rac.MaxSize)
	atEnd := r.Intn(3) != 0
	codec := uint8(c15pick(r, 0, 1, 1, 0x41))
	total := entry + ring
	// Each node: optional empty leading/trailing leaves, one branch child with all of D.
	type plan struct {
		pre, post int
		stagSelf  bool
		off       int64
		size      int
	}
	ps := make([]plan, total)
	for i := range ps {
		ps[i] = plan{pre: r.Intn(3) / 2, post: r.Intn(3) / 2, stagSelf: r.Intn(5) == 0}
		ps[i].size = 16*(ps[i].pre+ps[i].post+1) + 16
	}
	// Layout order: index 0 is the root. atEnd: root last, others before it in
	// random order; else root first.
	order := r.Perm(total - 1)
	off := int64(0)
	if atEnd {
		off = 4 + int64(r.Intn(40))
		for _, k := range order {
			ps[k+1].off = off
			off += int64(ps[k+1].size) + int64(r.Intn(2)*r.Intn(20))
		}
		ps[0].off = off
		off += int64(ps[0].size)
	} else {
		ps[0].off = 0
		off = int64(ps[0].size)
		for _, k := range order {
			ps[k+1].off = off
			off += int64(ps[k+1].size) + int64(r.Intn(2)*r.Intn(20))
		}
		off += int64(r.Intn(2) * r.Intn(40))
	}
	fsz := off
	nearMiss := r.Intn(6) == 0 // child D size off by one: must be rejected
	lay := &c15layout{}
	if atEnd {
		lay.at(0, []byte(c15magic+"\x00"))
	}
	for i := range ps {
		next := i + 1
		if next == total {
			next = entry // close the ring
		}
		var es []c15elem
		for k := 0; k < ps[i].pre; k++ {
			es = append(es, c15elem{ttag: 0xFF, stag: 0xFF, cptr: 0})
		}
		e := c15elem{ttag: 0xFE, stag: 0xFF, cptr: ps[next].off, dsize: d}
		if ps[i].stagSelf {
			// CBiasing through an element whose CPtr is 0: bias stays 0.
			if ps[i].pre > 0 {
				e.stag = 0
			}
		}
		es = append(es, e)
		for k := 0; k < ps[i].post; k++ {
			es = append(es, c15elem{ttag: 0xFF, stag: 0xFF, cptr: fsz})
		}
		n := c15newbn(codec, fsz, es...)
		if nearMiss && i == total-1 {
			n.rawDPtr = make([]int64, len(es)+1)
			acc := int64(0)
			for k, x := range es {
				acc += x.dsize
				n.rawDPtr[k+1] = acc
			}
			// make the node's own DPtrMax disagree with what its parent says
			if d > 1 {
				for k := ps[i].pre + 1; k <= len(es); k++ {
					n.rawDPtr[k] = d - 1
				}
			} else {
				nearMiss = false
			}
		}
		lay.at(ps[i].off, n.bytes())
	}
	if int64(len(lay.b)) < fsz {
		lay.at(fsz-1, []byte{0})
	}
	mut := fmt.Sprintf("ring%d:entry%d:atEnd%v", ring, entry, atEnd)
	if nearMiss {
		mut += ":dsize-mismatch"
	}
	return &c15case{fam: "loop", mut: mut, data: lay.b, csize: int64(len(lay.b))}
}

// famChain: a chain of branch nodes deeper than any sane index.
func (m *c15mon) famChain(r *rand.Rand) *c15case {
	shrink := r.Intn(2) == 0 // each node also holds a 1-byte leaf, so D shrinks
	depth := 1 + r.Intn(3000)
	if shrink {
		depth = 1 + r.Intn(500)
	}
	if r.Intn(4) == 0 {
		depth = 1 + r.Intn(40)
	}
	descending := r.Intn(2) == 0 // root at the end, children at lower offsets
	nsz := 32
	if shrink {
		nsz = 48
	}
	fsz := int64(depth*nsz) + 4
	offOf := func(level int) int64 { // level 0 = root
		if descending {
			return 4 + int64((depth-1-level)*nsz)
		}
		return int64(level * nsz)
	}
	if !descending {
		fsz = int64(depth * nsz)
	}
	lay := &c15layout{}
	if descending {
		lay.at(0, []byte(c15magic+"\x00"))
	}
	for lv := 0; lv < depth; lv++ {
		rest := int64(depth - lv) // D size of this node when shrinking
		var es []c15elem
		last := lv == depth-1
		switch {
		case shrink && last:
			es = []c15elem{{ttag: 0xFF, stag: 0xFF, cptr: 0, dsize: 1}, {ttag: 0xFF, stag: 0xFF, cptr: 0, dsize: 0}}
		case shrink:
			es = []c15elem{{ttag: 0xFF, stag: 0xFF, cptr: 0, dsize: 1}, {ttag: 0xFE, stag: 0xFF, cptr: offOf(lv + 1), dsize: rest - 1}}
		case last:
			es = []c15elem{{ttag: 0xFF, stag: 0xFF, cptr: 0, dsize: 7}}
		default:
			es = []c15elem{{ttag: 0xFE, stag: 0xFF, cptr: offOf(lv + 1), dsize: 7}}
		}
		lay.at(offOf(lv), c15newbn(0, fsz, es...).bytes())
	}
	db := "d<=20"
	switch {
	case depth > 1000:
		db = "d>1000"
	case depth > 100:
		db = "d>100"
	case depth > 20:
		db = "d>20"
	}
	return &c15case{fam: "chain", mut: fmt.Sprintf("shrink%v:descending%v:%s", shrink, descending, db), data: lay.b, csize: int64(len(lay.b)),
		desc: fmt.Sprintf("depth=%d", depth)}
}

// famDAG: k levels of arity-m nodes whose children all point at the one node
// of the next level: m^k leaf chunks from k small nodes.
func (m *c15mon) famDAG(r *rand.Rand) *c15case {
	var mm, k int
	for {
		mm = 2 + r.Intn(7)
		if r.Intn(4) == 0 {
			mm = []int{16, 40, 255}[r.Intn(3)]
		}
		k = 1 + r.Intn(40)
		// m^k must fit DSpace.
		bits := 0.0
		for x := mm; x > 1; x >>= 1 {
			bits++
		}
		if float64(k)*(bits+1) > 46 {
			continue
		}
		fsz := int64(4 + k*(16*mm+16))
		if !m.rc.Thorough() && fsz > 2200 {
			continue
		}
		if fsz > 3600 {
			continue
		}
		cap := float64(c15cap(fsz, int(fsz)))
		visits := 1.0
		for i := 1; i < k; i++ {
			visits *= float64(mm)
		}
		calls := visits * float64(4*k) // leaf-level node visits * descent cost
		chunks := visits * float64(mm)
		if calls > cap*4 || (calls < cap/20 && chunks < 300000) {
			break
		}
	}
	nsz := 16*mm + 16
	fsz := int64(4 + k*nsz)
	lay := &c15layout{}
	lay.at(0, []byte(c15magic+"\x00"))
	dsz := int64(1)
	for lv := 0; lv < k; lv++ { // lv 0 = bottom, at the lowest offset
		var es []c15elem
		for i := 0; i < mm; i++ {
			if lv == 0 {
				es = append(es, c15elem{ttag: 0xFF, stag: 0xFF, cptr: 0, dsize: 1})
			} else {
				es = append(es, c15elem{ttag: 0xFE, stag: 0xFF, cptr: 4 + int64((lv-1)*nsz), dsize: dsz})
			}
		}
		lay.at(4+int64(lv*nsz), c15newbn(0, fsz, es...).bytes())
		dsz *= int64(mm)
	}
	return &c15case{fam: "dag", mut: fmt.Sprintf("m%d:k%d", mm, k), data: lay.b, csize: int64(len(lay.b)),
		desc: fmt.Sprintf("arity=%d levels=%d leaf chunks=%d", mm, k, dsz)}
}

// famRandNodes: a root and a few children with random but mostly plausible
// fields: overlapping / out-of-file CPtrs, plateaus, biasing STags.
func (m *c15mon) famRandNodes(r *rand.Rand) *c15case {
	nn := 1 + r.Intn(4)
	atEnd := r.Intn(2) == 0
	plateau := r.Intn(4) == 0
	dataLen := int64(r.Intn(200))
	ar := make([]int, nn)
	offs := make([]int64, nn)
	off := int64(0)
	if atEnd {
		off = 4 + dataLen
	}
	for i := nn - 1; i >= 0; i-- { // children first, root (index 0) last when atEnd
		j := i
		if !atEnd {
			j = nn - 1 - i
		}
		ar[j] = 1 + r.Intn(9)
		if r.Intn(20) == 0 {
			ar[j] = 255
		}
		offs[j] = off
		off += int64(16*ar[j] + 16)
	}
	if !atEnd {
		off += dataLen
	}
	fsz := off
	lay := &c15layout{}
	lay.at(0, []byte(c15magic+"\x00"))
	zs := c15deflate([]byte("hello hello hello hello"))
	if atEnd && dataLen > int64(len(zs)) {
		lay.at(4, zs)
	}
	feat := map[string]bool{}
	// Build children first so parents can quote their sizes.
	dmaxOf := make([]int64, nn)
	var build func(j int, cbias int64) []byte
	build = func(j int, cbias int64) []byte {
		var es []c15elem
		for i := 0; i < ar[j]; i++ {
			e := c15elem{ttag: 0xFF, stag: 0xFF}
			e.dsize = c15pick(r, 0, 1, 5, 23, int64(r.Intn(100000)))
			if plateau && r.Intn(3) != 0 {
				e.dsize = 0
			}
			switch r.Intn(12) {
			case 0:
				e.cptr = fsz
			case 1:
				e.cptr = fsz + 1 + int64(r.Intn(5))
				feat["cptr>max"] = true
			case 2:
				e.cptr = c15pick(r, rac.MaxSize, 1<<40)
				feat["cptr>max"] = true
			case 3:
				e.cptr = offs[r.Intn(nn)]
				feat["cptr-into-index"] = true
			default:
				e.cptr = int64(r.Intn(int(fsz) + 1))
			}
			e.clen = uint8(c15pick(r, 0, 0, 1, 1, 2, 255, int64(r.Intn(256))))
			switch r.Intn(6) {
			case 0:
				e.stag = uint8(r.Intn(ar[j]))
				feat["stag<arity"] = true
			case 1:
				e.stag = uint8(r.Intn(256))
			}
			switch r.Intn(14) {
			case 0:
				e.ttag = 0xFD
				if r.Intn(3) != 0 {
					e.dsize = 0
				} else if e.dsize != 0 {
					feat["fd-nonempty"] = true
				}
				e.cptr = c15pick(r, 0, rac.MaxSize, int64(r.Intn(1<<30)))
				feat["fd"] = true
			case 1:
				e.ttag = uint8(r.Intn(ar[j]))
				feat["ttag<arity"] = true
			case 2:
				e.ttag = uint8(c15pick(r, 0xC0, 0xFC, 0xBF, int64(r.Intn(256))))
			case 3, 4:
				if j+1 < nn { // branch child: the next node
					e.ttag = 0xFE
					e.cptr = offs[j+1] - cbias
					if r.Intn(5) != 0 {
						e.dsize = dmaxOf[j+1]
					}
					if e.dsize == 0 {
						feat["empty-branch"] = true
					}
					feat["branch"] = true
				}
			}
			es = append(es, e)
		}
		codec := uint8(c15pick(r, 0, 1, 1, 1, 0x41, 2, 0x80, int64(r.Intn(256))))
		n := c15newbn(codec, c15pick(r, fsz, fsz, fsz, fsz-cbias, fsz+1, fsz-1, int64(r.Intn(int(fsz)+1))), es...)
		if j == 0 {
			n.cptrmax = c15pick(r, fsz, fsz, fsz, fsz, fsz, fsz+1)
		}
		if r.Intn(25) == 0 {
			n.version = uint8(r.Intn(4))
		}
		dmaxOf[j] = n.dmax()
		if r.Intn(30) == 0 { // unsorted DPtrs
			n.rawDPtr = make([]int64, len(es)+1)
			for i := range n.rawDPtr {
				n.rawDPtr[i] = int64(r.Intn(1000))
			}
			feat["unsorted"] = true
		}
		return n.bytes()
	}
	for j := nn - 1; j >= 0; j-- {
		lay.at(offs[j], build(j, 0))
	}
	if int64(len(lay.b)) < fsz {
		lay.at(fsz-1, []byte{byte(r.Intn(256))})
	}
	if !atEnd {
		// restore the root's first bytes (the at(0, magic+0) above was overwritten by the root anyway)
	}
	var fs []string
	for f := range feat {
		fs = append(fs, f)
	}
	sort.Strings(fs)
	if len(fs) > 3 {
		fs = fs[:3]
	}
	mut := strings.Join(fs, "+")
	if plateau {
		mut = "plateau:" + mut
	}
	return &c15case{fam: "randnodes", mut: mut, data: lay.b, csize: int64(len(lay.b))}
}

// famAmbig: candidate roots at both the start and the end.
func (m *c15mon) famAmbig(r *rand.Rand) *c15case {
	gap := int64(r.Intn(64))
	a1, a2 := 1+r.Intn(3), 1+r.Intn(3)
	fsz := int64(16*a1+16) + gap + int64(16*a2+16)
	mk := func(a int, d int64, cmax int64) []byte {
		var es []c15elem
		for i := 0; i < a; i++ {
			es = append(es, c15elem{ttag: 0xFF, stag: 0xFF, cptr: int64(r.Intn(int(fsz))), dsize: d})
		}
		return c15newbn(0, cmax, es...).bytes()
	}
	c1 := c15pick(r, fsz, fsz, fsz+1, fsz-1, 0)
	c2 := c15pick(r, fsz, fsz, fsz+1, fsz-1)
	lay := &c15layout{}
	lay.at(0, mk(a1, 3, c1))
	lay.at(fsz-int64(16*a2+16), mk(a2, 5, c2))
	if r.Intn(5) == 0 {
		lay.b[4] ^= 1 // start root's checksum is off
		c1 = -1
	}
	return &c15case{fam: "ambig", mut: fmt.Sprintf("start-ok%v:end-ok%v", c1 == fsz, c2 == fsz), data: lay.b, csize: fsz}
}

// famRandMagic: noise behind a valid magic; optionally made to pass the
// arity and checksum tests so that deeper validation runs.
func (m *c15mon) famRandMagic(r *rand.Rand) *c15case {
	n := int(c15pick(r, 4, 31, 32, 33, 48, 64, int64(32+r.Intn(5000))))
	data := make([]byte, n)
	r.Read(data)
	copy(data, c15magic)
	mut := "noise"
	if n >= 32 && r.Intn(2) == 0 {
		a := 1 + r.Intn((n-16)/16)
		if a > 255 {
			a = 255
		}
		atEnd := r.Intn(2) == 0
		off := int64(0)
		if atEnd {
			off = int64(n - (16*a + 16))
			data[3] = 0
			copy(data[off:], c15magic)
		}
		data[off+3] = byte(a)
		data[off+int64(16*a+15)] = byte(a)
		mut = "noise+arity"
		if r.Intn(2) == 0 {
			for i := 0; i <= a; i++ {
				data[off+int64(8*i+6)] = 0
			}
			for i := 0; i < a; i++ {
				if t := data[off+int64(8*i+7)]; t >= 0xC0 && t < 0xFD {
					data[off+int64(8*i+7)] = 0xFF
				}
			}
			data[off+int64(16*a+14)] = 1
			c15put48(data[off+int64(16*a+8):], int64(n))
			mut = "noise+arity+reserved+cptrmax"
			if r.Intn(2) == 0 {
				// sorted DPtrs and in-range CPtrs: only the codec and tags stay random
				ds := make([]int64, a)
				for i := range ds {
					ds[i] = int64(r.Intn(1 << 20))
				}
				sort.Slice(ds, func(i, j int) bool { return ds[i] < ds[j] })
				for i := 1; i <= a; i++ {
					c15put48(data[off+int64(8*i):], ds[i-1])
				}
				for i := 0; i < a; i++ {
					c15put48(data[off+int64(8*a+8+8*i):], int64(r.Intn(n+1)))
					if data[off+int64(8*i+7)] == 0xFD {
						data[off+int64(8*i+7)] = 0xFE
					}
				}
				data[off+int64(8*a+7)] &= 0x43
				mut = "noise+plausible-node"
			}
		}
		c15repair(data, off)
	}
	return &c15case{fam: "randmagic", mut: mut, data: data, csize: int64(n)}
}

func (m *c15mon) famValid(r *rand.Rand) *c15case {
	b := m.pool[r.Intn(len(m.pool))]
	if r.Intn(12) == 0 && m.big != nil {
		b = m.big
	}
	return &c15case{fam: "valid", mut: fmt.Sprintf("nodes%d", c15bucket(len(b.nodes))), data: b.data, csize: int64(len(b.data)), valid: true, desc: b.desc}
}

func c15bucket(n int) int {
	switch {
	case n <= 1:
		return 1
	case n <= 3:
		return 3
	case n <= 10:
		return 10
	}
	return 100
}

func (m *c15mon) gen(r *rand.Rand) *c15case {
	switch p := r.Intn(100); {
	case p < 52:
		return m.famMutate(r)
	case p < 60:
		return m.famTrunc(r)
	case p < 64:
		return m.famExtend(r)
	case p < 67:
		return m.famEmbed(r)
	case p < 73:
		return m.famClaimed(r)
	case p < 79:
		return m.famLoop(r)
	case p < 82:
		return m.famChain(r)
	case p < 83:
		return m.famDAG(r)
	case p < 92:
		return m.famRandNodes(r)
	case p < 94:
		return m.famAmbig(r)
	case p < 98:
		return m.famRandMagic(r)
	}
	return m.famValid(r)
}

// C15 is the monitor entry point.
func C15(rc *vk.Rec) {
	m := &c15mon{rc: rc, sigs: map[string]int{}, phase: "hostile"}
	m.bufA.cap, m.bufB.cap = c15outCap, c15outCap
	m.bufA.buf = make([]byte, 0, c15outCap)
	m.bufB.buf = make([]byte, 0, c15outCap)
	var rl syscall.Rlimit
	if syscall.Getrlimit(syscall.RLIMIT_CPU, &rl) == nil {
		m.hard = rl.Max
	}

	// The pool of valid files is a function of (seed, shard) only.
	npool := 20
	if rc.Thorough() {
		npool = 80
	}
	for k := 0; k < npool; k++ {
		rc.Mark("pool", int64(k))
		b, err := c15genBase(rc.RNG("pool", int64(k)), k%2)
		if err != nil {
			rc.Inconclusive(fmt.Sprintf("C15: cannot build valid file %d: %v", k, err))
			return
		}
		m.pool = append(m.pool, b)
		rc.Max("max_pool_nodes", int64(len(b.nodes)))
		d := 0
		for _, n := range b.nodes {
			if n.depth > d {
				d = n.depth
			}
		}
		rc.Max("max_pool_index_depth", int64(d+1))
	}
	if b, err := c15genBase(rc.RNG("pool", 1000), 2); err == nil {
		m.big = b
		d := 0
		for _, n := range b.nodes {
			if n.depth > d {
				d = n.depth
			}
		}
		rc.Max("max_pool_index_depth", int64(d+1))
	} else {
		rc.Inconclusive(fmt.Sprintf("C15: cannot build the three-level file: %v", err))
		return
	}

	// Every pool file is also run unmodified once (cap calibration).
	m.phase = "valid"
	all := append(append([]*c15base(nil), m.pool...), m.big)
	for k, b := range all {
		if rc.SkipCase(m.phase, int64(k)) {
			continue
		}
		m.idx = int64(k)
		rc.Mark(m.phase, m.idx)
		m.armCPU()
		cs := &c15case{fam: "valid", mut: fmt.Sprintf("nodes%d", c15bucket(len(b.nodes))), data: b.data, csize: int64(len(b.data)), valid: true, desc: b.desc}
		res := m.run(cs)
		rc.Eval(1)
		rc.Class("valid:" + cs.mut + ":" + res.walk + "/" + res.dec)
	}

	m.phase = "hostile"
	total := rc.N(20000, 2000000)
	for idx := 0; idx < total; idx++ {
		if rc.SkipCase(m.phase, int64(idx)) {
			continue
		}
		m.idx = int64(idx)
		rc.Mark(m.phase, m.idx)
		m.armCPU()
		r := rc.RNG(m.phase, m.idx)
		cs := m.gen(r)
		before := m.nviolC
		res := m.run(cs)
		rc.Eval(1)
		rc.Count("files:"+cs.fam, 1)
		out := res.walk + "/" + res.dec
		if cs.fam != "mutate" || res.touched {
			rc.Class(cs.fam + ":" + cs.mut + ":" + out)
		} else {
			rc.Count("mutation_never_read", 1)
		}
		rc.Class("family:" + cs.fam + ":" + out)
		if m.nviolC == before && rc.NSamples() < 6 && (idx%97 == 0 || cs.fam == "loop") {
			rc.Sample(map[string]interface{}{"family": cs.fam, "mutation": cs.mut, "len": len(cs.data), "compressed_size_arg": cs.csize,
				"walk": res.walk, "decode": res.dec, "chunks": res.chunks, "head": vk.Trunc(cs.data, 48), "base": cs.desc})
		}
	}
}
