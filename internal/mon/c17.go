package mon

import (
	"bytes"
	"crypto/sha256"
	"encoding/binary"
	"encoding/hex"
	"fmt"
	"hash/crc32"
	"math/rand"
	"os"
	"os/exec"
	"strings"
	"syscall"

	lol "github.com/google/wuffs/lib/litonlylzma"

	"verif/internal/vk"
)

// C17: lib/litonlylzma. For every payload x and format F in {LZMA, Xz}:
// F.Decode(F.Encode(x)) == (x, no remainder, nil), and the independent `xz`
// tool decodes F.Encode(x) to exactly x. For arbitrary bytes F.Decode returns
// without panicking and with len(output) <= 4096*len(src)+4096.
//
// Phases (each case is a pure function of (seed, shard, phase, idx)):
//   sw  exhaustive sweep of small lengths x {incompressible, constant, text}
//   bd  fixed table of boundary lengths (k*64KiB+d, varint boundaries,
//       targeted unpadded sizes) x payload kinds
//   rt  random payload kind x random length class
//   rb  robustness: mutated valid encodings, constructed hostile files, random bytes
//
// Besides the three deciding legs (own Decode, xz, and later Wuffs), two
// classification helpers run on every round trip and never decide anything
// beyond what the xz file format specification states:
//   - c17walkXZ: a structural walker of the .xz container written from the
//     format specification (its complaints are conformance violations),
//   - c17shadow: an independent literal-only range *encoder* used only to
//     count carry-propagation events, so that the carry class in the evidence
//     is observed, not assumed.

func init() { Table["C17"] = C17 }

const (
	c17chunk64k = 65536
	c17boundMul = 4096
	c17boundAdd = 4096
	c17hexLimit = 160
)

var c17formats = []struct {
	f    lol.FileFormat
	name string
	flag string
}{
	{lol.FileFormatLZMA, "lzma", "--format=lzma"},
	{lol.FileFormatXz, "xz", "--format=xz"},
}

// ---------------------------------------------------------------------------
// xz tool leg

type c17xzTool struct {
	path     string
	broken   bool // could not be started (reported once) or keeps dying abnormally
	abnormal int
}

func c17findXz() string {
	if p, err := exec.LookPath("xz"); err == nil {
		return p
	}
	for _, p := range []string{"/usr/bin/xz", "/root/miniconda/bin/xz"} {
		if st, err := os.Stat(p); err == nil && !st.IsDir() {
			return p
		}
	}
	return ""
}

// run returns (stdout, exit code, stderr, started). exit code -1 means the
// process did not exit normally (killed by a signal).
func (t *c17xzTool) run(flag string, in []byte) (out []byte, code int, stderr string, started bool) {
	cmd := exec.Command(t.path, "-dc", "-T1", flag)
	cmd.Env = []string{"LC_ALL=C", "PATH=/usr/bin:/bin"}
	cmd.Stdin = bytes.NewReader(in)
	var ob, eb bytes.Buffer
	cmd.Stdout = &ob
	cmd.Stderr = &eb
	if err := cmd.Start(); err != nil {
		return nil, 0, err.Error(), false
	}
	err := cmd.Wait()
	code = 0
	if err != nil {
		code = -1
		if ee, ok := err.(*exec.ExitError); ok {
			if ws, ok := ee.Sys().(syscall.WaitStatus); ok && ws.Exited() {
				code = ws.ExitStatus()
			}
		}
	}
	s := eb.String()
	if len(s) > 300 {
		s = s[:300]
	}
	return ob.Bytes(), code, s, true
}

// ---------------------------------------------------------------------------
// TODO(C17-wuffs-leg): third decoder leg. The generated Wuffs std/lzma and
// std/xz C decoders (ASan+UBSan wdrive) must accept `enc` and produce exactly
// `x`. Hook point: called once per (format, payload) in c17roundTrip right
// after the xz leg, with the encoding and the payload in memory. Nothing is
// written or run today.
func c17wuffsLegHook(rc *vk.Rec, format string, enc, x []byte, phase string, idx int64) {
	// Third decoder leg (generated Wuffs std/lzma, std/xz): the child only
	// exports a bounded number of encodings; the driver (props/c17.go) decodes
	// them with the sanitized wdrive build and compares with the payload hash.
	dir := os.Getenv("VERIF_C17_WDIR")
	if dir == "" || len(enc) > 400000 {
		return
	}
	limit := 70
	if rc.Thorough() {
		limit = 1500
	}
	if c17wExported >= limit {
		return
	}
	// spread over phases: skip most of the dense length sweep
	if phase == "sw" && idx%23 != 0 {
		return
	}
	c17wExported++
	kind := "lzma"
	if strings.Contains(strings.ToLower(format), "xz") {
		kind = "xz"
	}
	name := fmt.Sprintf("%s/s%d-%s-%d.%s", dir, rc.Shard, phase, idx, kind)
	if err := os.WriteFile(name, enc, 0o644); err != nil {
		return
	}
	h := uint64(0xcbf29ce484222325)
	for _, c := range x {
		h ^= uint64(c)
		h *= 0x100000001b3
	}
	f, err := os.OpenFile(fmt.Sprintf("%s/manifest.%d", dir, rc.Shard), os.O_APPEND|os.O_CREATE|os.O_WRONLY, 0o644)
	if err != nil {
		return
	}
	fmt.Fprintf(f, "%s %s %d %016x %d %s %d\n", name, kind, len(x), h, len(enc), phase, idx)
	f.Close()
}

var c17wExported int

// ---------------------------------------------------------------------------
// Shadow range encoder: counts carry events only (standard LZMA rc_shift_low
// formulation with cache/cacheSize; lc=3 lp=0 pb=2, literals only).

type c17carryStats struct {
	carries       int // carry events (low overflowed 32 bits at a shift)
	maxCarryChain int // max number of pending 0xFF bytes flipped to 0x00 by one carry
	maxFFChain    int // max number of pending 0xFF bytes released without a carry
	outLen        int
}

// c17rc is the shadow encoder state. It is a plain value (no pointers), so an
// assignment clones it.
type c17rc struct {
	low       uint64
	rng       uint32
	cacheSize uint64
	isMatch   [4]uint16
	lit       [8][256]uint16
	prev      byte
	pos       uint32
	st        c17carryStats
	// Boundary tracking for the carry-chain payload generator: while tracking,
	// B = low + t is a fixed code value with all-zero trailing bytes that the
	// current interval [low, low+rng) still contains (0 < t < rng).
	tracking bool
	t        uint64
}

func c17newRC() *c17rc {
	e := &c17rc{rng: 0xFFFFFFFF, cacheSize: 1}
	for i := range e.isMatch {
		e.isMatch[i] = 1024
	}
	for i := range e.lit {
		for j := range e.lit[i] {
			e.lit[i][j] = 1024
		}
	}
	return e
}

func (e *c17rc) shiftLow() {
	if uint32(e.low) < 0xFF000000 || (e.low>>32) != 0 {
		extras := int(e.cacheSize - 1)
		if (e.low >> 32) != 0 {
			e.st.carries++
			if extras > e.st.maxCarryChain {
				e.st.maxCarryChain = extras
			}
		} else if extras > e.st.maxFFChain {
			e.st.maxFFChain = extras
		}
		e.st.outLen += int(e.cacheSize)
		e.cacheSize = 0
	}
	e.cacheSize++
	e.low = (e.low & 0x00FFFFFF) << 8
	e.t <<= 8
}

// encBit encodes bit, or when follow is set the bit whose sub-interval keeps
// containing the tracked boundary; it returns the bit encoded.
func (e *c17rc) encBit(p *uint16, bit uint32, follow bool) uint32 {
	bound := (e.rng >> 11) * uint32(*p)
	if follow && e.tracking {
		if e.t < uint64(bound) {
			bit = 0
		} else {
			bit = 1
		}
	}
	if bit == 0 {
		e.rng = bound
		*p += (2048 - *p) >> 5
	} else {
		e.low += uint64(bound)
		e.rng -= bound
		*p -= *p >> 5
		if e.tracking {
			if e.t <= uint64(bound) {
				e.tracking = false // low reached or passed the boundary: a carry
			} else {
				e.t -= uint64(bound)
			}
		}
	}
	if e.tracking && e.t >= uint64(e.rng) {
		e.tracking = false // the interval now lies wholly below the boundary
	}
	for e.rng < (1 << 24) {
		e.rng <<= 8
		e.shiftLow()
	}
	return bit
}

// encByte encodes one literal; with follow set it encodes (and returns) the
// literal whose interval contains the tracked boundary.
func (e *c17rc) encByte(c byte, follow bool) byte {
	e.encBit(&e.isMatch[e.pos&3], 0, false)
	pr := &e.lit[e.prev>>5]
	sym := uint32(1)
	for i := 7; i >= 0; i-- {
		b := e.encBit(&pr[sym], (uint32(c)>>uint(i))&1, follow)
		sym = sym<<1 | b
	}
	e.prev = byte(sym)
	e.pos++
	return byte(sym)
}

// track starts following the (j+1)-th code value above low whose trailing
// bytes are all zero; it reports whether the current interval contains it.
func (e *c17rc) track(j int) bool {
	t := uint64(0x1000000) - (e.low & 0xFFFFFF) + uint64(j)<<24
	if t >= uint64(e.rng) {
		return false
	}
	e.tracking, e.t = true, t
	return true
}

func (e *c17rc) finish() c17carryStats {
	for i := 0; i < 5; i++ {
		e.shiftLow()
	}
	return e.st
}

func c17shadow(src []byte) c17carryStats {
	e := c17newRC()
	for _, c := range src {
		e.encByte(c, false)
	}
	return e.finish()
}

// c17carryPayload builds n bytes whose range coding holds the interval across
// a ...FF FF FF | 00 00 00... boundary for many output bytes and then resolves
// it upwards (a carry through the whole pending chain), downwards, or by
// running out of input. Works on the first 64 KiB (one Xz chunk).
func c17carryPayload(r *rand.Rand, n int) []byte {
	x := make([]byte, 0, n)
	e := c17newRC()
	put := func(c byte, follow bool) {
		x = append(x, e.encByte(c, follow))
	}
	// The is-literal probabilities need ~450 literals to saturate; before that
	// a boundary survives only a few literals.
	if n > 700 && r.Intn(4) != 0 {
		for k := 450 + r.Intn(100); k > 0; k-- {
			put(byte(r.Intn(256))>>uint(r.Intn(8)), false)
		}
	}
	for len(x) < n && len(x) < c17chunk64k-1 {
		// some ordinary bytes first
		for k := r.Intn(40); k > 0 && len(x) < n; k-- {
			put(byte(r.Intn(256))>>uint(r.Intn(8)), false)
		}
		want := []int{1, 2, 3, 4, 5, 8, 16, 40, 100, 270, 270, 300}[r.Intn(12)]
		if want > n-len(x) {
			want = n - len(x)
		}
		// The boundary is lost whenever it falls into the "match" part of an
		// is-literal bit (about 1.5 % per literal): try several boundaries and
		// keep the one that survives longest.
		snap, bestJ, bestLen := *e, -1, -1
		for j := 0; j < 160; j++ {
			c := snap
			if !c.track(j) {
				break
			}
			k := 0
			for ; k < want && c.tracking; k++ {
				c.encByte(0, true)
			}
			surv := k
			if !c.tracking {
				surv = k - 1
			}
			if surv > bestLen {
				bestJ, bestLen = j, surv
			}
			if surv == want {
				break
			}
		}
		if bestJ < 0 || !e.track(bestJ) {
			continue
		}
		for k := 0; k < bestLen && e.tracking && len(x) < n; k++ {
			put(0, true)
		}
		if !e.tracking || len(x) >= n {
			e.tracking = false
			continue
		}
		c := *e
		s := c.encByte(0, true)
		switch r.Intn(4) {
		case 0: // run out of input (or ordinary bytes) while still pending
		case 1: // resolve downwards: a literal below the boundary's literal
			if s > 0 {
				put(byte(r.Intn(int(s))), false)
			}
		default: // resolve upwards: the carry
			if s < 0xFF {
				put(s+1+byte(r.Intn(0xFF-int(s))), false)
			}
		}
		e.tracking = false
		if r.Intn(3) == 0 {
			break
		}
	}
	for len(x) < n {
		x = append(x, byte(r.Intn(256)))
	}
	return x
}

func (a *c17carryStats) merge(b c17carryStats) {
	a.carries += b.carries
	if b.maxCarryChain > a.maxCarryChain {
		a.maxCarryChain = b.maxCarryChain
	}
	if b.maxFFChain > a.maxFFChain {
		a.maxFFChain = b.maxFFChain
	}
}

func (a c17carryStats) class() string {
	switch c := a.maxCarryChain; {
	case a.carries == 0:
		return "cy-"
	case c >= 256:
		return "cy256+"
	case c >= 32:
		return "cy32+"
	case c >= 8:
		return "cy8+"
	case c >= 3:
		return "cy3+"
	default:
		return fmt.Sprintf("cy%d", c)
	}
}

// ---------------------------------------------------------------------------
// XZ structural walker, written from the .xz file format specification
// (sections 2.1 Stream, 3 Block, 4 Index, 5.3.1 LZMA2) and the LZMA2 chunk
// layout. It does not decode LZMA data; it checks every container field.

type c17chunk struct {
	Kind  byte // 'C' LZMA-compressed, 'R' uncompressed
	Ctl   byte
	Off   int // offset of the control byte
	USize int
	CSize int // bytes of chunk data following the chunk header
	HLen  int
}

type c17xzInfo struct {
	Chunks    []c17chunk
	BlockOff  int // offset of the (single) block header
	DataOff   int
	EndOff    int // offset of the 0x00 end-of-chunks marker
	PadOff    int
	PadLen    int
	CheckOff  int
	IndexOff  int
	IndexPad  int
	IndexCRC  int
	FooterOff int
	End       int // offset just past the stream footer
	Unpadded  uint64
	USizeRec  uint64
	UnpLen    int // varint length of the unpadded-size record field
	USzLen    int
	NBlocks   int
	GaveUp    string // not an error: a valid feature this walker does not follow
}

func c17le32(b []byte) uint32 { return binary.LittleEndian.Uint32(b) }

// c17varint decodes an xz multibyte integer: at most 9 bytes, 63 bits, no
// trailing zero byte other than for the value zero in a single byte.
func c17varint(b []byte) (v uint64, n int, ok bool) {
	for i := 0; i < 9; i++ {
		if i >= len(b) {
			return 0, 0, false
		}
		c := b[i]
		v |= uint64(c&0x7F) << (7 * uint(i))
		if c&0x80 == 0 {
			if c == 0 && i != 0 {
				return 0, 0, false
			}
			return v, i + 1, true
		}
	}
	return 0, 0, false
}

// c17walkXZ checks enc as a single-stream .xz file. When x != nil the content
// dependent fields (uncompressed chunk payloads, total sizes, check value) are
// checked against x too. The returned string is "" or a short reason.
func c17walkXZ(enc []byte, x []byte) (*c17xzInfo, string) {
	in := &c17xzInfo{}
	if len(enc) < 12 {
		return in, "stream-header:short"
	}
	if !bytes.Equal(enc[:6], []byte{0xFD, '7', 'z', 'X', 'Z', 0x00}) {
		return in, "stream-header:magic"
	}
	if enc[6] != 0x00 || enc[7]&0xF0 != 0 {
		return in, "stream-header:reserved-flags"
	}
	checkType := enc[7] & 0x0F
	if crc32.ChecksumIEEE(enc[6:8]) != c17le32(enc[8:12]) {
		return in, "stream-header:crc32"
	}
	checkSize := 0
	switch {
	case checkType == 0:
		checkSize = 0
	case checkType <= 3:
		checkSize = 4
	case checkType <= 6:
		checkSize = 8
	case checkType <= 9:
		checkSize = 16
	case checkType <= 12:
		checkSize = 32
	default:
		checkSize = 64
	}
	p := 12
	type rec struct{ unpadded, usize uint64 }
	var recs []rec
	xoff := 0
	for {
		if p >= len(enc) {
			return in, "block:missing-index"
		}
		if enc[p] == 0x00 {
			break // index indicator
		}
		// ---- block header
		hsize := (int(enc[p]) + 1) * 4
		if p+hsize > len(enc) {
			return in, "block-header:truncated"
		}
		hdr := enc[p : p+hsize]
		if crc32.ChecksumIEEE(hdr[:hsize-4]) != c17le32(hdr[hsize-4:]) {
			return in, "block-header:crc32"
		}
		flags := hdr[1]
		if flags&0x3C != 0 {
			return in, "block-header:reserved-flags"
		}
		nfilters := int(flags&3) + 1
		q := 2
		lim := hsize - 4
		var haveCS, haveUS bool
		var declCS, declUS uint64
		if flags&0x40 != 0 {
			v, n, ok := c17varint(hdr[q:lim])
			if !ok || v == 0 {
				return in, "block-header:compressed-size"
			}
			haveCS, declCS = true, v
			q += n
		}
		if flags&0x80 != 0 {
			v, n, ok := c17varint(hdr[q:lim])
			if !ok {
				return in, "block-header:uncompressed-size"
			}
			haveUS, declUS = true, v
			q += n
		}
		lastFilter := uint64(0)
		var lastProps []byte
		for i := 0; i < nfilters; i++ {
			id, n, ok := c17varint(hdr[q:lim])
			if !ok {
				return in, "block-header:filter-id"
			}
			q += n
			ps, n, ok := c17varint(hdr[q:lim])
			if !ok || ps > uint64(lim-q-n) {
				return in, "block-header:filter-props-size"
			}
			q += n
			lastFilter, lastProps = id, hdr[q:q+int(ps)]
			q += int(ps)
		}
		for ; q < lim; q++ {
			if hdr[q] != 0 {
				return in, "block-header:padding"
			}
		}
		if nfilters != 1 || lastFilter != 0x21 {
			in.GaveUp = "filter chain other than a single LZMA2"
			return in, ""
		}
		if len(lastProps) != 1 || lastProps[0] > 40 {
			return in, "block-header:lzma2-props"
		}
		if in.NBlocks == 0 {
			in.BlockOff = p
			in.DataOff = p + hsize
		}
		in.NBlocks++
		// ---- LZMA2 chunks
		d := p + hsize
		needDictReset := true
		needProps := true
		busize := 0
		for {
			if d >= len(enc) {
				return in, "lzma2:truncated"
			}
			ctl := enc[d]
			if ctl == 0x00 {
				in.EndOff = d
				d++
				break
			}
			if ctl >= 0xE0 || ctl == 0x01 {
				needProps = true
				needDictReset = false
			} else if needDictReset {
				return in, "lzma2:first-chunk-without-dict-reset"
			}
			if ctl >= 0x80 {
				if d+5 > len(enc) {
					return in, "lzma2:truncated"
				}
				us := (int(ctl&0x1F)<<16 | int(enc[d+1])<<8 | int(enc[d+2])) + 1
				cs := (int(enc[d+3])<<8 | int(enc[d+4])) + 1
				hl := 5
				if ctl >= 0xC0 {
					if d+6 > len(enc) {
						return in, "lzma2:truncated"
					}
					pb := enc[d+5]
					if pb >= 225 {
						return in, "lzma2:props"
					}
					lc, lp := int(pb%9), int(pb/9%5)
					if lc+lp > 4 {
						return in, "lzma2:props-lc-lp"
					}
					needProps = false
					hl = 6
				} else if needProps {
					return in, "lzma2:lzma-chunk-without-props"
				}
				if d+hl+cs > len(enc) {
					return in, "lzma2:chunk-data-truncated"
				}
				in.Chunks = append(in.Chunks, c17chunk{'C', ctl, d, us, cs, hl})
				d += hl + cs
				busize += us
			} else {
				if ctl > 2 {
					return in, "lzma2:control-byte"
				}
				if d+3 > len(enc) {
					return in, "lzma2:truncated"
				}
				us := (int(enc[d+1])<<8 | int(enc[d+2])) + 1
				if d+3+us > len(enc) {
					return in, "lzma2:chunk-data-truncated"
				}
				if x != nil {
					if xoff+busize+us > len(x) || !bytes.Equal(enc[d+3:d+3+us], x[xoff+busize:xoff+busize+us]) {
						return in, "lzma2:uncompressed-chunk-content"
					}
				}
				in.Chunks = append(in.Chunks, c17chunk{'R', ctl, d, us, us, 3})
				d += 3 + us
				busize += us
			}
		}
		csize := d - (p + hsize)
		if haveCS && declCS != uint64(csize) {
			return in, "block-header:compressed-size-mismatch"
		}
		if haveUS && declUS != uint64(busize) {
			return in, "block-header:uncompressed-size-mismatch"
		}
		// ---- block padding
		in.PadOff = d
		in.PadLen = 0
		for (d-p)&3 != 0 {
			if d >= len(enc) {
				return in, "block-padding:truncated"
			}
			if enc[d] != 0 {
				return in, "block-padding:nonzero"
			}
			d++
			in.PadLen++
		}
		// ---- check
		if d+checkSize > len(enc) {
			return in, "check:truncated"
		}
		in.CheckOff = d
		if x != nil {
			if xoff+busize > len(x) {
				return in, "lzma2:total-uncompressed-size"
			}
			if checkType == 1 && crc32.ChecksumIEEE(x[xoff:xoff+busize]) != c17le32(enc[d:d+4]) {
				return in, "check:crc32"
			}
		}
		d += checkSize
		recs = append(recs, rec{uint64(hsize + csize + checkSize), uint64(busize)})
		xoff += busize
		p = d
	}
	if x != nil && xoff != len(x) {
		return in, "lzma2:total-uncompressed-size"
	}
	// ---- index
	in.IndexOff = p
	q := p + 1
	nrec, n, ok := c17varint(enc[q:])
	if !ok {
		return in, "index:record-count"
	}
	q += n
	if nrec != uint64(len(recs)) {
		return in, "index:record-count-mismatch"
	}
	for _, rc := range recs {
		v, n, ok := c17varint(enc[q:])
		if !ok {
			return in, "index:unpadded-size-varint"
		}
		if v != rc.unpadded {
			return in, fmt.Sprintf("index:unpadded-size-mismatch(r%d)", rc.unpadded&3)
		}
		in.Unpadded, in.UnpLen = v, n
		q += n
		v, n, ok = c17varint(enc[q:])
		if !ok {
			return in, "index:uncompressed-size-varint"
		}
		if v != rc.usize {
			return in, "index:uncompressed-size-mismatch"
		}
		in.USizeRec, in.USzLen = v, n
		q += n
	}
	in.IndexPad = q
	for (q-p)&3 != 0 {
		if q >= len(enc) {
			return in, "index-padding:truncated"
		}
		if enc[q] != 0 {
			return in, "index-padding:nonzero"
		}
		q++
	}
	if q+4 > len(enc) {
		return in, "index:crc32-truncated"
	}
	in.IndexCRC = q
	if crc32.ChecksumIEEE(enc[p:q]) != c17le32(enc[q:q+4]) {
		return in, fmt.Sprintf("index:crc32(r%d)", (in.IndexPad-p)&3)
	}
	q += 4
	indexSize := q - p
	// ---- footer
	in.FooterOff = q
	if q+12 > len(enc) {
		return in, "footer:truncated"
	}
	ft := enc[q : q+12]
	if crc32.ChecksumIEEE(ft[4:10]) != c17le32(ft[0:4]) {
		return in, "footer:crc32"
	}
	if (uint64(c17le32(ft[4:8]))+1)*4 != uint64(indexSize) {
		return in, "footer:backward-size"
	}
	if ft[8] != enc[6] || ft[9] != enc[7] {
		return in, "footer:stream-flags"
	}
	if ft[10] != 'Y' || ft[11] != 'Z' {
		return in, "footer:magic"
	}
	q += 12
	in.End = q
	if q&3 != 0 {
		return in, "stream:size-not-multiple-of-4"
	}
	// ---- stream padding / further streams
	rest := enc[q:]
	allZero := true
	for _, c := range rest {
		if c != 0 {
			allZero = false
			break
		}
	}
	if !allZero {
		in.GaveUp = "bytes after the first stream (concatenated streams are not followed)"
		return in, ""
	}
	if len(rest)&3 != 0 {
		return in, "stream-padding:not-multiple-of-4"
	}
	return in, ""
}

func c17chunkSeqClass(in *c17xzInfo) string {
	n := len(in.Chunks)
	if n == 0 {
		return "none"
	}
	if n <= 5 {
		b := make([]byte, n)
		for i, c := range in.Chunks {
			b[i] = c.Kind
		}
		return string(b)
	}
	nc := 0
	for _, c := range in.Chunks {
		if c.Kind == 'C' {
			nc++
		}
	}
	switch {
	case nc == n:
		return "n6+allC"
	case nc == 0:
		return "n6+allR"
	}
	return "n6+mixed"
}

// ---------------------------------------------------------------------------
// Payloads

var c17words = strings.Fields(`the of and to in is that it was for on are as with his they at be this from
have or by one had not but what all were when we there can an your which their said if do will each about how up
out them then she many some so these would other into has more her two like him see time could no make than first
been its who now people my made over did down only way find use may water long little very after words called
just where most know Romeo Juliet wherefore art thou deny thy father refuse name sworn love Capulet Montague
3.14159 26535 89793 23846 0x1F 65536 {"key": "value"} <tag attr="x"/> ; // /* */ -- == != <= >=`)

var c17kinds = []string{"rand", "zero", "ff", "same", "ffrun", "alt", "text", "lowent", "ramp", "sparse", "hibits", "mix", "mix64k", "carry", "carry"}

func c17fill(r *rand.Rand, kind string, b []byte) {
	switch kind {
	case "rand":
		r.Read(b)
	case "zero":
		for i := range b {
			b[i] = 0
		}
	case "ff":
		for i := range b {
			b[i] = 0xFF
		}
	case "same":
		v := byte(r.Intn(256))
		for i := range b {
			b[i] = v
		}
	case "ffrun":
		// long 0xFF runs separated by a few other bytes
		mean := []int{8, 50, 500, 5000, 40000}[r.Intn(5)]
		seps := []byte{0x00, 0xFE, 0x7F, 0x80, 0x01}
		for i := 0; i < len(b); {
			run := 1 + r.Intn(2*mean)
			for ; run > 0 && i < len(b); run-- {
				b[i] = 0xFF
				i++
			}
			for k := 1 + r.Intn(3); k > 0 && i < len(b); k-- {
				if r.Intn(3) == 0 {
					b[i] = byte(r.Intn(256))
				} else {
					b[i] = seps[r.Intn(len(seps))]
				}
				i++
			}
		}
	case "alt":
		// 0xFF / 0x00 alternation with run lengths (a, b), optionally jittered
		lens := []int{1, 1, 2, 3, 4, 8, 16, 1 + r.Intn(64), 1 + r.Intn(700)}
		a, c := lens[r.Intn(len(lens))], lens[r.Intn(len(lens))]
		jit := r.Intn(3) == 0
		hi, lo := byte(0xFF), byte(0x00)
		if r.Intn(6) == 0 {
			hi, lo = 0xFE, 0x01
		}
		for i := 0; i < len(b); {
			na, nc := a, c
			if jit {
				na, nc = 1+r.Intn(2*a), 1+r.Intn(2*c)
			}
			for ; na > 0 && i < len(b); na-- {
				b[i] = hi
				i++
			}
			for ; nc > 0 && i < len(b); nc-- {
				b[i] = lo
				i++
			}
		}
	case "text":
		i := 0
		for i < len(b) {
			w := c17words[r.Intn(len(c17words))]
			i += copy(b[i:], w)
			if i < len(b) {
				if r.Intn(12) == 0 {
					b[i] = '\n'
				} else {
					b[i] = ' '
				}
				i++
			}
		}
	case "lowent":
		alpha := []byte("aaaaaaaabbbbccd e\x00\xff")
		if r.Intn(2) == 0 {
			alpha = alpha[:2+r.Intn(len(alpha)-2)]
		}
		for i := range b {
			b[i] = alpha[r.Intn(len(alpha))]
		}
	case "ramp":
		s, step := byte(r.Intn(256)), byte(1+r.Intn(3))
		for i := range b {
			b[i] = s
			s += step
		}
	case "sparse":
		for i := range b {
			b[i] = 0
		}
		gap := 1 + r.Intn(200)
		for i := r.Intn(gap + 1); i < len(b); i += 1 + r.Intn(2*gap) {
			b[i] = byte(r.Intn(256))
		}
	case "hibits":
		vals := []byte{0x7F, 0x80, 0xFF, 0x00, 0xFE, 0x01, 0xC0, 0x3F}
		vals = vals[:2+r.Intn(len(vals)-1)]
		for i := range b {
			b[i] = vals[r.Intn(len(vals))]
		}
	case "carry":
		copy(b, c17carryPayload(r, len(b)))
	case "mix", "mix64k":
		base := []string{"rand", "zero", "ff", "ffrun", "alt", "text", "lowent", "sparse", "hibits", "rand", "text"}
		for i := 0; i < len(b); {
			n := 0
			if kind == "mix64k" {
				// segments aligned to the encoder's 64 KiB partition, so raw and
				// compressed chunks alternate
				n = c17chunk64k * (1 + r.Intn(2))
			} else {
				n = 1 + r.Intn(1+len(b)/(1+r.Intn(6)))
			}
			if i+n > len(b) {
				n = len(b) - i
			}
			c17fill(r, base[r.Intn(len(base))], b[i:i+n])
			i += n
		}
	default:
		panic("c17: bad kind " + kind)
	}
}

func c17lenClass(n int) string {
	switch n {
	case 0:
		return "L0"
	case 1:
		return "L1"
	}
	for _, v := range []struct {
		at   int
		name string
	}{{128, "v7"}, {16384, "v14"}, {1 << 21, "v21"}} {
		if d := n - v.at; d >= -2 && d <= 2 {
			return fmt.Sprintf("L%s%+d", v.name, d)
		}
	}
	if n >= c17chunk64k-2 {
		k := (n + 2) / c17chunk64k
		d := n - k*c17chunk64k
		ks := fmt.Sprint(k)
		switch {
		case k >= 9:
			ks = "9+"
		case k >= 5:
			ks = "5-8"
		}
		if d >= -2 && d <= 2 {
			return fmt.Sprintf("Lk%s%+d", ks, d)
		}
		return "Lk" + ks + "~"
	}
	bl := 0
	for v := n; v > 0; v >>= 1 {
		bl++
	}
	return fmt.Sprintf("Lb%d", bl)
}

// ---------------------------------------------------------------------------
// Calls into the code under test

type c17call struct {
	out, rem []byte
	err      error
	panicked bool
	short    bool // output shorter than the dst it was appended to
	psig     string
	pval     string
}

// c17pfx returns a fresh dst argument of the given length (nil for 0). Encode
// and Decode append to dst; what they append is "the encoding" / "the decoding".
func c17pfx(n int) []byte {
	if n == 0 {
		return nil
	}
	p := make([]byte, n, n+c17min(n, 3))
	for i := range p {
		p[i] = byte(0xA5 + i)
	}
	return p
}

// strip removes the dst prefix from c.out; short reports an output shorter
// than the dst it was asked to append to.
func (c *c17call) strip(n int) {
	if len(c.out) >= n {
		c.out = c.out[n:]
		return
	}
	c.short = c.err == nil && !c.panicked
	c.out = nil
}

func c17encode(f lol.FileFormat, x []byte, pfx int) (c c17call) {
	defer func() {
		if r := recover(); r != nil {
			c.panicked, c.psig, c.pval = true, vk.PanicSig(r), fmt.Sprint(r)
		}
	}()
	c.out, c.err = f.Encode(c17pfx(pfx), x)
	c.strip(pfx)
	return
}

func c17decode(f lol.FileFormat, src []byte, pfx int) (c c17call) {
	defer func() {
		if r := recover(); r != nil {
			c.panicked, c.psig, c.pval = true, vk.PanicSig(r), fmt.Sprint(r)
		}
	}()
	c.out, c.rem, c.err = f.Decode(c17pfx(pfx), src)
	c.strip(pfx)
	return
}

func c17hex(b []byte) string {
	if len(b) <= c17hexLimit {
		return hex.EncodeToString(b)
	}
	h := sha256.Sum256(b)
	return hex.EncodeToString(b[:c17hexLimit/2]) + "..." + hex.EncodeToString(b[len(b)-c17hexLimit/4:]) +
		fmt.Sprintf(" (%d bytes, sha256 %x)", len(b), h[:8])
}

func c17firstDiff(a, b []byte) int {
	n := len(a)
	if len(b) < n {
		n = len(b)
	}
	for i := 0; i < n; i++ {
		if a[i] != b[i] {
			return i
		}
	}
	if len(a) != len(b) {
		return n
	}
	return -1
}

// ---------------------------------------------------------------------------
// Round trip

type c17env struct {
	rc   *vk.Rec
	xz   *c17xzTool
	seen map[string]int
	nsmp map[string]int // samples recorded per phase
}

// sampleOK spreads the few written-out samples over the phases.
func (e *c17env) sampleOK(phase string) bool {
	limit := 2
	if phase == "sw" || phase == "bd" {
		limit = 1
	}
	if e.nsmp[phase] >= limit {
		return false
	}
	e.nsmp[phase]++
	return true
}

// wantXz decides whether the xz leg runs for this case. Spawning xz is the
// expensive part, so the quick tier runs it for every boundary-table case and
// for the first case of each (format, length class, chunk-kind sequence) seen
// by the shard; the thorough tier and replays run it for every case.
func (e *c17env) wantXz(phase, key string) bool {
	if e.rc.Thorough() || e.rc.Only >= 0 || phase == "bd" {
		return true
	}
	e.seen[key]++
	return e.seen[key] == 1
}

type c17sample struct {
	Phase   string `json:"phase"`
	Format  string `json:"format"`
	Kind    string `json:"kind"`
	Len     int    `json:"len"`
	EncLen  int    `json:"enc_len"`
	Chunks  string `json:"chunks,omitempty"`
	Carry   string `json:"carry"`
	Payload string `json:"payload"`
}

// c17roundTrip checks one payload against both formats.
func (e *c17env) roundTrip(phase string, idx int64, kind string, x []byte, pfx int, desc map[string]interface{}) {
	rc := e.rc
	lc := c17lenClass(len(x))
	if pfx > 0 {
		rc.Count("roundtrips_with_nonempty_dst", 1)
	}
	for _, ff := range c17formats {
		rc.Eval(1)
		extra := map[string]interface{}{"format": ff.name, "kind": kind, "len": len(x), "payload": c17hex(x), "dst_prefix_len": pfx}
		for k, v := range desc {
			extra[k] = v
		}
		viol := func(sig, what string) {
			rc.ViolateCase("c17:"+sig, fmt.Sprintf("%s (format=%s kind=%s len=%d)", what, ff.name, kind, len(x)), phase, idx, extra)
		}
		en := c17encode(ff.f, x, pfx)
		if en.panicked {
			viol("encode:"+ff.name+":"+en.psig, "Encode panicked: "+en.pval)
			continue
		}
		if en.short {
			viol("encode:"+ff.name+":output-shorter-than-dst", "Encode returned fewer bytes than the dst it appends to")
			continue
		}
		if en.err != nil {
			viol("encode:"+ff.name+":error", "Encode returned error "+en.err.Error())
			continue
		}
		enc := en.out
		extra["encoded"] = c17hex(enc)
		// ---- leg 1: the package's own decoder
		de := c17decode(ff.f, enc, pfx)
		switch {
		case de.short:
			viol("roundtrip:"+ff.name+":output-shorter-than-dst", "Decode returned fewer bytes than the dst it appends to")
		case de.panicked:
			viol("roundtrip:"+ff.name+":decode-"+de.psig, "Decode(Encode(x)) panicked: "+de.pval)
		case de.err != nil:
			viol("roundtrip:"+ff.name+":decode-error", "Decode(Encode(x)) returned error "+de.err.Error())
		case !bytes.Equal(de.out, x):
			viol("roundtrip:"+ff.name+":wrong-bytes", fmt.Sprintf("Decode(Encode(x)) gave %d bytes, first difference at %d", len(de.out), c17firstDiff(de.out, x)))
		case len(de.rem) != 0:
			viol("roundtrip:"+ff.name+":remainder", fmt.Sprintf("Decode(Encode(x)) left %d bytes unconsumed", len(de.rem)))
		}
		rc.Count("roundtrips_"+ff.name, 1)
		// ---- classification helpers
		var carry c17carryStats
		ck := "-"
		if ff.f == lol.FileFormatXz {
			in, bad := c17walkXZ(enc, x)
			rc.Count("xz_walked", 1)
			if bad != "" {
				extra["walker"] = bad
				viol("xz-structure:"+bad, "the .xz container does not follow the file format specification: "+bad)
			} else if in.GaveUp != "" {
				rc.Count("xz_walker_gave_up", 1)
				ck = "unwalked"
			} else {
				ck = c17chunkSeqClass(in)
				nC, nR := 0, 0
				for _, c := range in.Chunks {
					if c.Kind == 'C' {
						nC++
					} else {
						nR++
					}
				}
				rc.Count("xz_chunks_compressed", int64(nC))
				rc.Count("xz_chunks_raw", int64(nR))
				rc.Count(fmt.Sprintf("xz_blockpad_%d", in.PadLen), 1)
				rc.Count(fmt.Sprintf("xz_indexpad_%d", (4-(in.IndexPad-in.IndexOff)&3)&3), 1)
				rc.Count(fmt.Sprintf("xz_index_varint_lens_%d_%d", in.UnpLen, in.USzLen), 1)
			}
			for o := 0; o < len(x); o += c17chunk64k {
				h := o + c17chunk64k
				if h > len(x) {
					h = len(x)
				}
				carry.merge(c17shadow(x[o:h]))
			}
		} else {
			// .lzma header per the LZMA specification: props, dict size, size
			if len(enc) < 13+5 {
				viol("lzma-structure:short", "the .lzma file is shorter than header + 5 range coder bytes")
			} else {
				sz := binary.LittleEndian.Uint64(enc[5:13])
				if enc[0] >= 225 {
					viol("lzma-structure:props", "invalid properties byte")
				} else if sz != uint64(len(x)) && sz != ^uint64(0) {
					viol("lzma-structure:size-field", fmt.Sprintf("header claims %d uncompressed bytes", sz))
				}
			}
			carry = c17shadow(x)
			if carry.outLen != len(enc)-13 {
				rc.Count("shadow_encoder_length_differs", 1) // diagnostic only
			}
		}
		rc.Count("shadow_carries", int64(carry.carries))
		rc.Max("max_carry_chain", int64(carry.maxCarryChain))
		rc.Max("max_ff_chain", int64(carry.maxFFChain))
		if carry.maxCarryChain >= 1 {
			rc.Count("payloads_with_carry_through_pending_ff", 1)
		}
		// ---- leg 2: xz
		if !e.xz.broken && e.wantXz(phase, ff.name+"|"+lc+"|"+ck) {
			out, code, stderr, started := e.xz.run(ff.flag, enc)
			switch {
			case !started:
				e.xz.broken = true
				rc.Inconclusive("cannot start " + e.xz.path + ": " + stderr)
			case code < 0:
				// killed by a signal: no verdict of xz about the file
				rc.Inconclusive(fmt.Sprintf("xz did not exit normally at %s/%d (%s)", phase, idx, stderr))
				if e.xz.abnormal++; e.xz.abnormal >= 3 {
					e.xz.broken = true
				}
			case code != 0:
				extra["xz_stderr"] = stderr
				viol("xz-reject:"+ff.name, fmt.Sprintf("xz -dc %s exited with status %d: %s", ff.flag, code, strings.TrimSpace(stderr)))
			case !bytes.Equal(out, x):
				viol("xz-wrong-bytes:"+ff.name, fmt.Sprintf("xz -dc %s produced %d bytes, first difference at %d", ff.flag, len(out), c17firstDiff(out, x)))
			}
			if started && code >= 0 {
				rc.Count("xz_tool_decodes_"+ff.name, 1)
			}
		}
		// ---- leg 3: Wuffs (TODO hook)
		c17wuffsLegHook(rc, ff.name, enc, x, phase, idx)

		rc.Class(ff.name + "|" + lc + "|" + ck + "|" + carry.class())
		if (phase == "sw" && idx == 40 || phase != "sw" && len(x) > c17chunk64k) && e.sampleOK(phase) {
			rc.Sample(c17sample{phase, ff.name, kind, len(x), len(enc), ck, carry.class(), vk.Trunc(x, 24)})
		}
	}
}

// c17pickPfx: one case in four passes a non-empty dst (1..7 bytes, so the
// appended file starts at an unaligned offset of the slice).
func c17pickPfx(r *rand.Rand) int {
	if r.Intn(4) != 0 {
		return 0
	}
	return 1 + r.Intn(7)
}

// c17global maps a per-shard case index to a global index so that a table can
// be partitioned over the shards.
func c17global(rc *vk.Rec, idx int64) int64 { return idx*int64(rc.NShards) + int64(rc.Shard) }

var c17sweepKinds = []string{"rand", "same", "text"}

type c17bdCase struct {
	n      int
	kind   string
	target int // >0: adjust n so that the block's unpadded size equals target
}

func c17boundaryTable(thorough bool) []c17bdCase {
	var t []c17bdCase
	ks := []int{1, 2, 3, 4, 5, 8}
	if thorough {
		ks = append(ks, 6, 7, 9, 16, 17, 32, 33)
	}
	kinds := []string{"rand", "text", "alt", "ffrun", "mix64k"}
	for _, k := range ks {
		for d := -2; d <= 2; d++ {
			for _, kind := range kinds {
				if k > 5 && !thorough && kind != "rand" && kind != "text" {
					continue
				}
				t = append(t, c17bdCase{n: k*c17chunk64k + d, kind: kind})
			}
		}
	}
	for _, at := range []int{128, 16384, 1 << 21} {
		for d := -2; d <= 2; d++ {
			for _, kind := range []string{"rand", "text", "zero", "ff"} {
				if at == 1<<21 && !thorough && (kind == "zero" || kind == "ff" || d == -2 || d == 2) {
					continue
				}
				t = append(t, c17bdCase{n: at + d, kind: kind})
			}
		}
	}
	// unpadded-size boundaries (index varint lengths change at 2^7, 2^14)
	for _, at := range []int{128, 16384} {
		for d := -1; d <= 1; d++ {
			for _, kind := range []string{"rand", "text", "lowent", "same"} {
				t = append(t, c17bdCase{n: at, kind: kind, target: at + d})
			}
		}
	}
	return t
}

// c17targetUnpadded searches for a prefix length of stream whose Xz encoding
// has exactly the wanted unpadded size (best effort; returns the closest).
func c17targetUnpadded(stream []byte, want int) int {
	unp := func(n int) int {
		c := c17encode(lol.FileFormatXz, stream[:n], 0)
		if c.panicked || c.err != nil {
			return -1
		}
		in, bad := c17walkXZ(c.out, nil)
		if bad != "" || in.GaveUp != "" {
			return -1
		}
		return int(in.Unpadded)
	}
	lo, hi := 0, len(stream)
	for lo < hi {
		mid := (lo + hi) / 2
		u := unp(mid)
		if u < 0 {
			return mid
		}
		if u < want {
			lo = mid + 1
		} else {
			hi = mid
		}
	}
	for _, n := range []int{lo, lo - 1, lo + 1, lo - 2, lo + 2, lo - 3, lo + 3} {
		if n >= 0 && n <= len(stream) && unp(n) == want {
			return n
		}
	}
	return lo
}

func c17randLen(r *rand.Rand, thorough bool) int {
	switch p := r.Intn(100); {
	case p < 50:
		return r.Intn(2049)
	case p < 77:
		return 2048 + r.Intn(c17chunk64k-2048)
	case p < 89:
		k := []int{1, 1, 1, 1, 1, 2, 2, 2, 3, 4}[r.Intn(10)]
		d := r.Intn(5) - 2
		if r.Intn(3) == 0 {
			d = r.Intn(129) - 64
		}
		return k*c17chunk64k + d
	case p < 97:
		return c17chunk64k + r.Intn(3*c17chunk64k)
	case p < 99 || !thorough:
		return c17chunk64k + r.Intn(8*c17chunk64k)
	}
	return c17chunk64k + r.Intn(24*c17chunk64k)
}

// ---------------------------------------------------------------------------
// Robustness

var c17hostileSizes = []uint64{0, 1, 2, 0x7F, 0x80, 0xFF, 0x100, 0xFFFF, 0x10000, 0x10001, 1 << 21, 1<<31 - 1, 1 << 31,
	1<<32 - 1, 1 << 32, 1 << 40, 1 << 62, 1<<63 - 1, 1 << 63, 1<<63 + 1, ^uint64(0) - 1, ^uint64(0)}

func c17putVarint(dst []byte, v uint64, overlong int) []byte {
	for ; v >= 0x80; v >>= 7 {
		dst = append(dst, byte(v)|0x80)
	}
	if overlong == 0 {
		return append(dst, byte(v))
	}
	dst = append(dst, byte(v)|0x80)
	for ; overlong > 1; overlong-- {
		dst = append(dst, 0x80)
	}
	return append(dst, 0x00)
}

func c17putLE32(b []byte, v uint32) { binary.LittleEndian.PutUint32(b, v) }

var c17mutKinds = []string{"bitflip", "byteset", "trunc", "extend", "splice", "size-field", "header", "chunk-ctl", "chunk-size",
	"pad-check", "index", "footer", "random", "hdr+random", "zeros-expand", "built"}

// c17mutate returns the hostile input for one robustness case.
func c17mutate(r *rand.Rand, mk string, fidx int, base []byte, info *c17xzInfo) []byte {
	isXz := fidx == 1
	b := append([]byte(nil), base...)
	pick := func(n int) int {
		if n <= 0 {
			return 0
		}
		return r.Intn(n)
	}
	switch mk {
	case "bitflip":
		for k := 1 + r.Intn(4); k > 0 && len(b) > 0; k-- {
			b[pick(len(b))] ^= 1 << uint(r.Intn(8))
		}
	case "byteset":
		for k := 1 + r.Intn(3); k > 0 && len(b) > 0; k-- {
			v := []byte{0x00, 0xFF, 0x01, 0x80, 0xE0, byte(r.Intn(256))}[r.Intn(6)]
			b[pick(len(b))] = v
		}
	case "trunc":
		cuts := []int{0, 1, 5, 12, 13, 17, 18, 23, 24, 25, 27, 30, len(b) - 1, len(b) - 4, len(b) - 11, len(b) - 12, len(b) - 13, len(b) - 16, len(b) - 20}
		if isXz && info != nil {
			cuts = append(cuts, info.EndOff, info.EndOff+1, info.PadOff, info.CheckOff, info.CheckOff+3, info.IndexOff, info.IndexOff+1,
				info.IndexOff+2, info.IndexPad, info.IndexCRC, info.FooterOff, info.FooterOff+4)
			for _, c := range info.Chunks {
				cuts = append(cuts, c.Off+1, c.Off+2, c.Off+3, c.Off+5, c.Off+c.HLen, c.Off+c.HLen+1, c.Off+c.HLen+c.CSize-1)
			}
		}
		n := cuts[r.Intn(len(cuts))]
		if r.Intn(3) == 0 {
			n = pick(len(b) + 1)
		}
		if n < 0 {
			n = 0
		}
		if n > len(b) {
			n = len(b)
		}
		b = b[:n]
	case "extend":
		switch r.Intn(4) {
		case 0:
			b = append(b, base...)
		case 1:
			b = append(b, make([]byte, 1+r.Intn(64))...)
		default:
			t := make([]byte, 1+r.Intn(64))
			r.Read(t)
			b = append(b, t...)
		}
	case "splice":
		if len(b) > 2 {
			i := pick(len(b))
			n := 1 + pick(c17min(len(b)-i, 40))
			switch r.Intn(3) {
			case 0: // delete
				b = append(b[:i], b[i+n:]...)
			case 1: // duplicate
				seg := append([]byte(nil), b[i:i+n]...)
				b = append(b[:i+n], append(seg, b[i+n:]...)...)
			default: // overwrite with random
				r.Read(b[i : i+n])
			}
		}
	case "size-field":
		v := c17hostileSizes[r.Intn(len(c17hostileSizes))]
		if r.Intn(4) == 0 {
			v = r.Uint64() >> uint(r.Intn(64))
		}
		if !isXz {
			if len(b) >= 13 {
				binary.LittleEndian.PutUint64(b[5:13], v)
			}
		} else if info != nil {
			// claimed sizes live in the index record
			idx := []byte{0x00, 0x01}
			if r.Intn(2) == 0 {
				idx = c17putVarint(idx, v&(1<<63-1), 0)
				idx = c17putVarint(idx, info.USizeRec, 0)
			} else {
				idx = c17putVarint(idx, info.Unpadded, 0)
				idx = c17putVarint(idx, v&(1<<63-1), 0)
			}
			b = c17rebuildTail(r, b[:info.IndexOff], idx, true, true)
		}
	case "header":
		if !isXz {
			if len(b) >= 5 {
				switch r.Intn(4) {
				case 0:
					b[0] = byte(r.Intn(256))
				case 1:
					b[0] = []byte{0x5D, 0x5E, 0xE0, 0xE1, 224, 225, 0x00}[r.Intn(7)]
				case 2:
					c17putLE32(b[1:5], []uint32{0, 1, 0xFFF, 0x1000, 0x1001, 1 << 16, 1 << 30, 1<<32 - 1}[r.Intn(8)])
				default:
					if len(b) > 13 {
						b[13] = byte(r.Intn(256)) // first range coder byte (must be 0x00)
					}
				}
			}
		} else if len(b) >= 24 {
			i := pick(24)
			b[i] = []byte{0x00, 0x01, 0x02, 0x04, 0x21, 0xFF, byte(r.Intn(256))}[r.Intn(7)]
			if r.Intn(2) == 0 {
				c17putLE32(b[8:12], crc32.ChecksumIEEE(b[6:8]))
				c17putLE32(b[20:24], crc32.ChecksumIEEE(b[12:20]))
			}
		}
	case "chunk-ctl":
		if isXz && info != nil {
			offs := []int{info.EndOff}
			for _, c := range info.Chunks {
				offs = append(offs, c.Off)
			}
			o := offs[r.Intn(len(offs))]
			if o < len(b) {
				b[o] = []byte{0x00, 0x01, 0x02, 0x03, 0x7F, 0x80, 0xA0, 0xC0, 0xE0, 0xE1, 0xFF, byte(r.Intn(256))}[r.Intn(12)]
			}
		} else if len(b) > 13 {
			b[13+pick(c17min(5, len(b)-13))] = byte(r.Intn(256))
		}
	case "chunk-size":
		if isXz && info != nil && len(info.Chunks) > 0 {
			c := info.Chunks[r.Intn(len(info.Chunks))]
			vals := []int{0, 1, 0xFF, 0x100, 0xFFFE, 0xFFFF, c.USize - 2, c.USize, c.CSize - 2, c.CSize, r.Intn(65536)}
			v := vals[r.Intn(len(vals))] & 0xFFFF
			field := 1
			if c.Kind == 'C' && r.Intn(2) == 0 {
				field = 3
			}
			if c.Kind == 'C' && r.Intn(8) == 0 {
				b[c.Off+5] = byte(r.Intn(256)) // properties byte
			} else {
				b[c.Off+field], b[c.Off+field+1] = byte(v>>8), byte(v)
			}
		} else if len(b) >= 13 {
			binary.LittleEndian.PutUint64(b[5:13], uint64(r.Intn(1+2*len(base))))
		}
	case "pad-check":
		if isXz && info != nil {
			switch r.Intn(3) {
			case 0:
				if info.PadLen > 0 {
					b[info.PadOff+pick(info.PadLen)] = byte(1 + r.Intn(255))
				} else {
					b[info.CheckOff] ^= 0x01
				}
			case 1:
				b[info.CheckOff+pick(4)] ^= byte(1 + r.Intn(255))
			default: // remove or add one padding byte
				if info.PadLen > 0 && r.Intn(2) == 0 {
					b = append(b[:info.PadOff], b[info.PadOff+1:]...)
				} else {
					b = append(b[:info.PadOff+1], b[info.PadOff:]...)
					b[info.PadOff] = 0
				}
			}
		} else if len(b) > 0 {
			b[len(b)-1-pick(c17min(5, len(b)))] ^= byte(1 + r.Intn(255))
		}
	case "index":
		if isXz && info != nil {
			idx := []byte{[]byte{0x00, 0x00, 0x00, 0x01, 0x02}[r.Intn(5)]}
			nrec := []uint64{1, 1, 1, 0, 2, 3, 1 << 32, 1<<63 - 1}[r.Intn(8)]
			idx = c17putVarint(idx, nrec, 0)
			nwrite := int(nrec)
			if nrec > 3 {
				nwrite = r.Intn(3)
			}
			for i := 0; i < nwrite || i == 0; i++ {
				u, s := info.Unpadded, info.USizeRec
				switch r.Intn(6) {
				case 0:
					u = c17hostileSizes[r.Intn(len(c17hostileSizes))] & (1<<63 - 1)
				case 1:
					s = c17hostileSizes[r.Intn(len(c17hostileSizes))] & (1<<63 - 1)
				case 2:
					u += uint64(r.Intn(7)) - 3
				case 3:
					s += uint64(r.Intn(7)) - 3
				}
				ol := 0
				if r.Intn(5) == 0 {
					ol = 1 + r.Intn(9)
				}
				idx = c17putVarint(idx, u, ol)
				if r.Intn(8) == 0 {
					// 10+ byte varint (more than 63 bits)
					idx = append(idx, 0xFF, 0xFF, 0xFF, 0xFF, 0xFF, 0xFF, 0xFF, 0xFF, 0xFF, byte(r.Intn(256)))
				}
				idx = c17putVarint(idx, s, 0)
			}
			b = c17rebuildTail(r, b[:info.IndexOff], idx, r.Intn(4) != 0, r.Intn(4) != 0)
		} else if len(b) > 0 {
			b = b[:pick(len(b))]
		}
	case "footer":
		if isXz && info != nil && info.FooterOff+12 <= len(b) {
			ft := b[info.FooterOff : info.FooterOff+12]
			switch r.Intn(5) {
			case 0:
				c17putLE32(ft[4:8], []uint32{0, 1, 2, 0xFF, 1 << 16, 1<<32 - 1, c17le32(ft[4:8]) + 1, c17le32(ft[4:8]) - 1}[r.Intn(8)])
			case 1:
				ft[8+pick(2)] = byte(r.Intn(256))
			case 2:
				ft[10+pick(2)] = byte(r.Intn(256))
			case 3:
				ft[pick(12)] ^= 1 << uint(r.Intn(8))
			default:
				b = b[:info.FooterOff+pick(12)]
				ft = nil
			}
			if ft != nil && r.Intn(3) != 0 {
				c17putLE32(ft[0:4], crc32.ChecksumIEEE(ft[4:10]))
			}
		} else if len(b) > 13 {
			b = append(b[:13], b[13+pick(len(b)-13):]...)
		}
	case "random":
		b = make([]byte, r.Intn([]int{8, 32, 64, 600, 5000}[r.Intn(5)]))
		r.Read(b)
	case "hdr+random":
		t := make([]byte, r.Intn([]int{8, 40, 300, 3000, 70000}[r.Intn(5)]))
		r.Read(t)
		if r.Intn(3) == 0 {
			for i := range t {
				t[i] >>= uint(r.Intn(8)) // bias towards small values: longer literal-only prefixes
			}
		}
		if !isXz {
			b = append([]byte{0x5D, 0x00, 0x10, 0x00, 0x00}, make([]byte, 8)...)
			v := c17hostileSizes[r.Intn(len(c17hostileSizes))]
			if r.Intn(2) == 0 {
				v = 1<<63 - 1
			}
			binary.LittleEndian.PutUint64(b[5:13], v)
			if r.Intn(4) != 0 && len(t) > 0 {
				t[0] = 0x00
			}
			b = append(b, t...)
		} else {
			b = append(b[:0], base[:c17min(24, len(base))]...)
			b = append(b, t...)
		}
	case "zeros-expand":
		// all-zero range coder input decodes to the longest possible output
		n := r.Intn([]int{16, 200, 2000, 20000, 70000}[r.Intn(5)])
		fill := byte(0)
		if r.Intn(6) == 0 {
			fill = byte(r.Intn(4))
		}
		if !isXz {
			b = append([]byte{0x5D, 0x00, 0x10, 0x00, 0x00}, make([]byte, 8)...)
			v := uint64(1<<63 - 1)
			if r.Intn(3) == 0 {
				v = c17hostileSizes[r.Intn(len(c17hostileSizes))]
			}
			binary.LittleEndian.PutUint64(b[5:13], v)
			z := make([]byte, 5+n)
			for i := 1; i < len(z); i++ {
				z[i] = fill
			}
			b = append(b, z...)
		} else {
			b = append(b[:0], base[:c17min(24, len(base))]...)
			for k := 1 + r.Intn(4); k > 0; k-- {
				us := 0xFFFF
				if r.Intn(3) == 0 {
					us = r.Intn(65536)
				}
				cs := c17min(n, 65535)
				if r.Intn(3) == 0 {
					cs = r.Intn(65536)
				}
				b = append(b, 0xE0, byte(us>>8), byte(us), byte(cs>>8), byte(cs), 0x5D)
				z := make([]byte, 5+n)
				for i := 1; i < len(z); i++ {
					z[i] = fill
				}
				b = append(b, z...)
			}
			b = append(b, 0x00)
			b = append(b, make([]byte, r.Intn(24))...)
		}
	case "built":
		// A structurally valid container around chunks taken from valid
		// encodings, with a correct check value, then a hostile index/footer.
		if !isXz {
			// valid header + valid range coded data, claimed size varied around the real one
			if len(b) >= 13 {
				real := binary.LittleEndian.Uint64(b[5:13])
				binary.LittleEndian.PutUint64(b[5:13], real+uint64(r.Intn(9))-4)
			}
		} else if info != nil {
			// repeat / reorder whole chunks; output then differs from the check value
			var body []byte
			n := 1 + r.Intn(6)
			for i := 0; i < n && len(info.Chunks) > 0; i++ {
				c := info.Chunks[r.Intn(len(info.Chunks))]
				body = append(body, base[c.Off:c.Off+c.HLen+c.CSize]...)
			}
			b = append(append([]byte(nil), base[:24]...), body...)
			b = append(b, 0x00)
			for (len(b)-12)&3 != 0 {
				b = append(b, 0x00)
			}
			// the check value must be that of the decoded output: take it from a trial decode
			trial := c17decode(lol.FileFormatXz, append(append([]byte(nil), b...), 0, 0, 0, 0), 0)
			var ck [4]byte
			if !trial.panicked {
				c17putLE32(ck[:], crc32.ChecksumIEEE(trial.out))
			}
			b = append(b, ck[:]...)
			idx := []byte{0x00, 0x01}
			// unpadded size = block header + chunks + end marker + check (no block padding)
			u := uint64(12 + len(body) + 1 + 4)
			s := uint64(len(trial.out))
			if r.Intn(3) == 0 {
				u += uint64(r.Intn(5)) - 2
			}
			if r.Intn(3) == 0 {
				s = c17hostileSizes[r.Intn(len(c17hostileSizes))] & (1<<63 - 1)
			}
			idx = c17putVarint(idx, u, 0)
			idx = c17putVarint(idx, s, 0)
			b = c17rebuildTail(r, b, idx, true, r.Intn(3) != 0)
		}
	}
	return b
}

// c17rebuildTail appends index (padded, with CRC-32) and a stream footer to
// head. fixCRC / fixBackward choose whether those derived fields are correct.
func c17rebuildTail(r *rand.Rand, head []byte, idx []byte, fixCRC, fixBackward bool) []byte {
	b := append([]byte(nil), head...)
	start := len(b)
	b = append(b, idx...)
	for (len(b)-start)&3 != 0 {
		if fixCRC || r.Intn(2) == 0 {
			b = append(b, 0x00)
		} else {
			b = append(b, byte(r.Intn(256)))
		}
	}
	crc := crc32.ChecksumIEEE(b[start:])
	if !fixCRC && r.Intn(2) == 0 {
		crc ^= 1 << uint(r.Intn(32))
	}
	var t [4]byte
	c17putLE32(t[:], crc)
	b = append(b, t[:]...)
	back := uint32((len(b)-start)/4 - 1)
	if !fixBackward {
		back += uint32(r.Intn(5)) - 2
	}
	ft := make([]byte, 12)
	c17putLE32(ft[4:8], back)
	ft[8], ft[9], ft[10], ft[11] = 0x00, 0x01, 'Y', 'Z'
	c17putLE32(ft[0:4], crc32.ChecksumIEEE(ft[4:10]))
	return append(b, ft...)
}

func c17min(a, b int) int {
	if a < b {
		return a
	}
	return b
}

func c17outcome(c c17call) string {
	o := "out0"
	if len(c.out) > 0 {
		o = "out+"
	}
	if c.err == nil {
		if len(c.rem) > 0 {
			return "ok+rem|" + o
		}
		return "ok|" + o
	}
	msg := c.err.Error()
	msg = strings.TrimPrefix(msg, "litonlylzma: ")
	if len(msg) > 40 {
		msg = msg[:40]
	}
	return "err:" + strings.ReplaceAll(msg, " ", "-") + "|" + o
}

type c17rbSample struct {
	Format   string `json:"format"`
	Mutation string `json:"mutation"`
	SrcLen   int    `json:"src_len"`
	OutLen   int    `json:"out_len"`
	Outcome  string `json:"outcome"`
	Src      string `json:"src"`
}

func (e *c17env) robustness(phase string, idx int64) {
	rc := e.rc
	r := rc.RNG(phase, idx)
	fidx := r.Intn(2)
	ff := c17formats[fidx]
	mk := c17mutKinds[r.Intn(len(c17mutKinds))]
	// base: a valid encoding of a small (sometimes multi-chunk) payload
	n := 0
	switch p := r.Intn(100); {
	case p < 50:
		n = r.Intn(64)
	case p < 85:
		n = r.Intn(1500)
	case p < 97:
		n = r.Intn(20000)
	default:
		n = c17chunk64k - 3 + r.Intn(2*c17chunk64k)
	}
	kind := []string{"rand", "text", "zero", "lowent", "ffrun", "mix", "mix64k", "same"}[r.Intn(8)]
	x := make([]byte, n)
	c17fill(r, kind, x)
	en := c17encode(ff.f, x, 0)
	if en.panicked || en.err != nil || en.short {
		return // the round-trip phases report encoder failures
	}
	var info *c17xzInfo
	if fidx == 1 {
		in, bad := c17walkXZ(en.out, nil)
		if bad == "" && in.GaveUp == "" {
			info = in
		}
	}
	src := c17mutate(r, mk, fidx, en.out, info)
	for k := r.Intn(3); k > 0 && mk != "random"; k-- {
		// stack a second, simple mutation on some cases
		if r.Intn(3) == 0 {
			src = c17mutate(r, []string{"bitflip", "trunc", "extend"}[r.Intn(3)], fidx, src, nil)
		}
	}
	rc.Eval(1)
	pfx := 0
	if r.Intn(8) == 0 {
		pfx = 1 + r.Intn(7)
	}
	de := c17decode(ff.f, src, pfx)
	if de.short {
		de.out = nil
	}
	extra := map[string]interface{}{"format": ff.name, "mutation": mk, "src_len": len(src), "src": c17hex(src), "dst_prefix_len": pfx,
		"base_kind": kind, "base_len": n}
	if de.panicked {
		rc.ViolateCase("c17:robust:"+ff.name+":"+de.psig, fmt.Sprintf("Decode panicked on %d hostile bytes (%s of a valid %s file): %s", len(src), mk, ff.name, de.pval), phase, idx, extra)
		return
	}
	limit := c17boundMul*len(src) + c17boundAdd
	rc.Max("max_robust_output_len", int64(len(de.out)))
	if len(src) > 0 {
		rc.Max("max_robust_expansion_x100", int64(len(de.out))*100/int64(len(src)))
	}
	if len(de.out) > limit {
		extra["out_len"] = len(de.out)
		rc.ViolateCase("c17:robust:"+ff.name+":output-too-large", fmt.Sprintf("Decode produced %d bytes from %d input bytes (limit %d)", len(de.out), len(src), limit), phase, idx, extra)
		return
	}
	oc := c17outcome(de)
	rc.Class("rb|" + ff.name + "|" + mk + "|" + oc)
	rc.Count("robust_"+strings.SplitN(oc, "|", 2)[0], 1)
	if idx%1013 == 7 && e.sampleOK(phase) {
		rc.Sample(c17rbSample{ff.name, mk, len(src), len(de.out), oc, vk.Trunc(src, 32)})
	}
}

// ---------------------------------------------------------------------------

// C17 runs the litonlylzma monitor.
func C17(rc *vk.Rec) {
	if !rc.Thorough() {
		// quick tier: a tighter logical budget than the driver's (a hang is a verdict)
		vk.SetLimits(600, 0)
	}
	e := &c17env{rc: rc, xz: &c17xzTool{path: c17findXz()}, seen: map[string]int{}, nsmp: map[string]int{}}
	if e.xz.path == "" {
		e.xz.broken = true
		rc.Inconclusive("no xz executable found (PATH, /usr/bin/xz, /root/miniconda/bin/xz)")
	}

	// ---- sw: every small length x three payload kinds
	{
		phase := "sw"
		nk := len(c17sweepKinds)
		total := 1100 * nk
		if rc.Thorough() {
			total = 5000 * nk
		}
		for idx := int64(0); idx < int64(rc.N(total, total)); idx++ {
			if rc.SkipCase(phase, idx) {
				continue
			}
			g := c17global(rc, idx)
			if g >= int64(total) {
				continue
			}
			rc.Mark(phase, idx)
			r := rc.RNG(phase, idx)
			n, kind := int(g)/nk, c17sweepKinds[int(g)%nk]
			x := make([]byte, n)
			c17fill(r, kind, x)
			e.roundTrip(phase, idx, kind, x, c17pickPfx(r), nil)
		}
	}

	// ---- bd: boundary table
	{
		phase := "bd"
		tab := c17boundaryTable(rc.Thorough())
		for idx := int64(0); idx < int64(rc.N(len(tab), len(tab))); idx++ {
			if rc.SkipCase(phase, idx) {
				continue
			}
			g := c17global(rc, idx)
			if g >= int64(len(tab)) {
				continue
			}
			rc.Mark(phase, idx)
			r := rc.RNG(phase, idx)
			tc := tab[g]
			var x []byte
			desc := map[string]interface{}{}
			if tc.target > 0 {
				stream := make([]byte, 4*tc.target+64)
				c17fill(r, tc.kind, stream)
				n := c17targetUnpadded(stream, tc.target)
				x = stream[:n]
				desc["target_unpadded"] = tc.target
			} else {
				x = make([]byte, tc.n)
				c17fill(r, tc.kind, x)
			}
			e.roundTrip(phase, idx, tc.kind, x, c17pickPfx(r), desc)
		}
	}

	// ---- ck: the raw-vs-LZMA choice per 64 KiB chunk of the XZ encoder, at
	// its boundary: a full chunk of z zeroes + incompressible bytes, with z
	// swept across the point where the literal-only LZMA coding of the chunk is
	// as long as the chunk itself (the 16-bit size fields of the chunk header
	// are at their limit exactly there); alone and as the middle of three chunks
	{
		phase := "ck"
		nSeeds := 4
		if rc.Thorough() {
			nSeeds = 64
		}
		const span = 20
		per := 2 * (2*span + 1)
		for idx := int64(0); idx < int64(rc.N(nSeeds*per, nSeeds*per)); idx++ {
			if rc.SkipCase(phase, idx) {
				continue
			}
			g := c17global(rc, idx)
			if g >= int64(nSeeds*per) {
				continue
			}
			rc.Mark(phase, idx)
			seed, k := int(g)/per, int(g)%per
			r := vk.CaseRNG(rc.Seed, 0, phase+"-chunk", int64(seed)) // the same random fill for every z of one seed
			fill := make([]byte, 65536)
			r.Read(fill)
			mk := func(z int) []byte {
				x := append([]byte(nil), fill...)
				for i := 0; i < z && i < len(x); i++ {
					x[i] = 0
				}
				return x
			}
			size := func(z int) int { return len(c17encode(lol.FileFormatLZMA, mk(z), 0).out) }
			lo, hi := 0, 4096 // encoded size shrinks as z grows
			for lo < hi {
				mid := (lo + hi) / 2
				if size(mid) > 65536+13+5 {
					lo = mid + 1
				} else {
					hi = mid
				}
			}
			z := lo + k/2 - span
			if z < 0 {
				z = 0
			}
			x := mk(z)
			desc := map[string]interface{}{"leading_zeroes": z, "crossing_at": lo, "lzma_file_len": size(z)}
			if k%2 == 1 {
				pre := make([]byte, 65536)
				r.Read(pre)
				x = append(append(pre, x...), fill[:1000+r.Intn(3000)]...)
				desc["position"] = "middle chunk of three"
			}
			e.roundTrip(phase, idx, "chunk-form-boundary", x, 0, desc)
		}
	}

	// ---- rt: random payloads
	{
		phase := "rt"
		for idx := int64(0); idx < int64(rc.N(3000, 100000)); idx++ {
			if rc.SkipCase(phase, idx) {
				continue
			}
			rc.Mark(phase, idx)
			r := rc.RNG(phase, idx)
			kind := c17kinds[r.Intn(len(c17kinds))]
			n := c17randLen(r, rc.Thorough())
			x := make([]byte, n)
			c17fill(r, kind, x)
			e.roundTrip(phase, idx, kind, x, c17pickPfx(r), nil)
		}
	}

	// ---- rb: robustness
	{
		phase := "rb"
		for idx := int64(0); idx < int64(rc.N(64000, 2400000)); idx++ {
			if rc.SkipCase(phase, idx) {
				continue
			}
			rc.Mark(phase, idx)
			e.robustness(phase, idx)
		}
	}
}
