package mon

import (
	"fmt"
	"math/big"
	"math/rand"

	"github.com/google/wuffs/lib/interval"

	"verif/internal/vk"
)

// C06: interval arithmetic over-approximates every concrete result, is tight
// on finite boxes, reports failure exactly when some pair is undefined, and
// never shares storage with its operands.

type ir = interval.IntRange

var c06ops = []string{"add", "sub", "mul", "quo", "lsh", "rsh", "and", "or", "unite", "intersect"}

func c06apply(op string, x, y ir) (z ir, ok bool) {
	switch op {
	case "add":
		return x.TryAdd(y)
	case "sub":
		return x.TrySub(y)
	case "mul":
		return x.TryMul(y)
	case "quo":
		return x.TryQuo(y)
	case "lsh":
		return x.TryLsh(y)
	case "rsh":
		return x.TryRsh(y)
	case "and":
		return x.TryAnd(y)
	case "or":
		return x.TryOr(y)
	case "unite":
		return x.TryUnite(y)
	case "intersect":
		return x.TryIntersect(y)
	}
	panic("bad op")
}

// c06concrete evaluates x op y on members; ok=false when undefined.
func c06concrete(op string, x, y *big.Int) (*big.Int, bool) {
	z := new(big.Int)
	switch op {
	case "add":
		return z.Add(x, y), true
	case "sub":
		return z.Sub(x, y), true
	case "mul":
		return z.Mul(x, y), true
	case "quo":
		if y.Sign() == 0 {
			return nil, false
		}
		return z.Quo(x, y), true
	case "lsh":
		if y.Sign() < 0 {
			return nil, false
		}
		return z.Lsh(x, uint(y.Uint64())), true
	case "rsh":
		if y.Sign() < 0 {
			return nil, false
		}
		if y.BitLen() > 31 {
			if x.Sign() < 0 {
				return z.SetInt64(-1), true
			}
			return z.SetInt64(0), true
		}
		return z.Rsh(x, uint(y.Uint64())), true
	case "and":
		return z.And(x, y), true
	case "or":
		return z.Or(x, y), true
	}
	panic("bad op")
}

func bi(v int64) *big.Int { return big.NewInt(v) }

func pow2(k int) *big.Int { return new(big.Int).Lsh(bi(1), uint(k)) }

// c06bound picks a bit-pattern-aware bound.
func c06bound(r *rand.Rand, small bool) *big.Int {
	var v *big.Int
	maxk := 80
	if small {
		maxk = 7
	}
	switch r.Intn(8) {
	case 0:
		v = bi(int64(r.Intn(17)) - 8)
	case 1:
		v = pow2(r.Intn(maxk + 1))
	case 2:
		v = new(big.Int).Sub(pow2(r.Intn(maxk+1)), bi(1))
	case 3:
		v = new(big.Int).Add(pow2(r.Intn(maxk+1)), bi(1))
	case 4: // straddling 2^32 / 2^64
		base := []int{8, 16, 31, 32, 33, 63, 64, 65}[r.Intn(8)]
		if small {
			base = r.Intn(8)
		}
		v = new(big.Int).Add(pow2(base), bi(int64(r.Intn(9))-4))
	case 5: // random bits
		n := 1 + r.Intn(maxk)
		v = new(big.Int)
		for i := 0; i < n; i++ {
			if r.Intn(2) == 0 {
				v.SetBit(v, i, 1)
			}
		}
	case 6: // bit-filled pattern with a hole
		n := 2 + r.Intn(maxk)
		v = new(big.Int).Sub(pow2(n), bi(1))
		v.SetBit(v, r.Intn(n), 0)
	default:
		v = bi(int64(r.Intn(512)) - 256)
	}
	if r.Intn(3) == 0 {
		v.Neg(v)
	}
	return v
}

// c06interval builds an interval; shape: 0 finite, 1 lower-infinite, 2 upper-infinite, 3 infinite, 4 empty, 5 point.
func c06interval(r *rand.Rand, forShift bool, narrow int) (ir, int) {
	shape := 0
	switch p := r.Intn(20); {
	case p < 11:
		shape = 0
	case p < 13:
		shape = 1
	case p < 15:
		shape = 2
	case p < 16:
		shape = 3
	case p < 17:
		shape = 4
	default:
		shape = 5
	}
	a := c06bound(r, forShift)
	b := c06bound(r, forShift)
	if narrow > 0 {
		// a narrow window at any magnitude, for exhaustive enumeration
		b = new(big.Int).Add(a, bi(int64(r.Intn(narrow))))
	}
	if a.Cmp(b) > 0 {
		a, b = b, a
	}
	switch shape {
	case 0:
		return ir{a, b}, 0
	case 1:
		return ir{nil, b}, 1
	case 2:
		return ir{a, nil}, 2
	case 3:
		return ir{nil, nil}, 3
	case 4:
		if a.Cmp(b) == 0 {
			b = new(big.Int).Sub(a, bi(1+int64(r.Intn(5))))
			return ir{a, b}, 4
		}
		return ir{b, a}, 4
	default:
		return ir{a, new(big.Int).Set(a)}, 5
	}
}

func c06clone(x ir) ir {
	var z ir
	if x[0] != nil {
		z[0] = new(big.Int).Set(x[0])
	}
	if x[1] != nil {
		z[1] = new(big.Int).Set(x[1])
	}
	return z
}

func c06same(x, y ir) bool {
	for i := 0; i < 2; i++ {
		if (x[i] == nil) != (y[i] == nil) {
			return false
		}
		if x[i] != nil && x[i].Cmp(y[i]) != 0 {
			return false
		}
	}
	return true
}

func c06signClass(x ir) string {
	if x.Empty() {
		return "e"
	}
	s := ""
	if x.ContainsNegative() {
		s += "n"
	}
	if x.ContainsZero() {
		s += "z"
	}
	if x.ContainsPositive() {
		s += "p"
	}
	return s
}

func c06mag(x, y ir) string {
	m := 0
	for _, b := range []*big.Int{x[0], x[1], y[0], y[1]} {
		if b != nil && b.BitLen() > m {
			m = b.BitLen()
		}
	}
	switch {
	case m <= 8:
		return "b8"
	case m <= 32:
		return "b32"
	case m <= 64:
		return "b64"
	}
	return "big"
}

// members returns sample members of x (corners, neighbours, far points for
// infinite sides, random interior points).
func c06members(r *rand.Rand, x ir, extra ...*big.Int) []*big.Int {
	if x.Empty() {
		return nil
	}
	var ms []*big.Int
	add := func(v *big.Int) {
		if x.ContainsInt(v) {
			ms = append(ms, v)
		}
	}
	for _, e := range extra {
		add(e)
	}
	for _, c := range []int64{-1, 0, 1} {
		add(bi(c))
	}
	lo, hi := x[0], x[1]
	switch {
	case lo != nil && hi != nil:
		add(lo)
		add(hi)
		add(new(big.Int).Add(lo, bi(1)))
		add(new(big.Int).Sub(hi, bi(1)))
		w := new(big.Int).Sub(hi, lo)
		w.Add(w, bi(1))
		for i := 0; i < 4; i++ {
			v := new(big.Int).Rand(r, w)
			add(v.Add(v, lo))
		}
		// bit-fill extremes inside the interval
		for k := 0; k < 90; k += 1 + r.Intn(7) {
			p := pow2(k)
			add(p)
			add(new(big.Int).Sub(p, bi(1)))
			add(new(big.Int).Neg(p))
		}
	case lo != nil:
		add(lo)
		add(new(big.Int).Add(lo, bi(1)))
		for _, k := range []int{3, 17, 40, 70, 100} {
			add(new(big.Int).Add(lo, pow2(k)))
			add(pow2(k))
			add(new(big.Int).Sub(pow2(k), bi(1)))
		}
		v := new(big.Int).Rand(r, pow2(1+r.Intn(90)))
		add(v.Add(v, lo))
	case hi != nil:
		add(hi)
		add(new(big.Int).Sub(hi, bi(1)))
		for _, k := range []int{3, 17, 40, 70, 100} {
			add(new(big.Int).Sub(hi, pow2(k)))
			add(new(big.Int).Neg(pow2(k)))
		}
		v := new(big.Int).Rand(r, pow2(1+r.Intn(90)))
		add(v.Sub(hi, v))
	default:
		for _, k := range []int{3, 17, 40, 70, 100} {
			add(pow2(k))
			add(new(big.Int).Neg(pow2(k)))
			add(new(big.Int).Sub(pow2(k), bi(1)))
		}
		v := new(big.Int).Rand(r, pow2(1+r.Intn(90)))
		if r.Intn(2) == 0 {
			v.Neg(v)
		}
		add(v)
	}
	return ms
}

type c06case struct {
	Op string `json:"op"`
	X  string `json:"x"`
	Y  string `json:"y"`
	Z  string `json:"z"`
	Ok bool   `json:"ok"`
}

func allFinite(x, y ir) bool {
	return x[0] != nil && x[1] != nil && y[0] != nil && y[1] != nil
}

func init() { Table["C06"] = C06 }

// c06grid enumerates (not samples) every pair of intervals whose bounds come
// from a small set of machine-word corner values (and nil), for the
// arithmetic operators: word-sized fast paths in the implementation fail
// exactly at such corners (e.g. -2^63 / -1), which random bounds hit with
// negligible probability.
func c06grid(rc *vk.Rec) {
	phase := "c06grid"
	var vals []*big.Int
	addv := func(v *big.Int) { vals = append(vals, v, new(big.Int).Neg(v)) }
	vals = append(vals, big.NewInt(0))
	for _, v := range []int64{1, 2, 5} {
		addv(big.NewInt(v))
	}
	ks := []int{31, 63, 64}
	if rc.Thorough() {
		ks = []int{7, 8, 15, 16, 31, 32, 62, 63, 64, 65, 127, 128}
	}
	for _, k := range ks {
		p := pow2(k)
		addv(p)
		addv(new(big.Int).Sub(p, big.NewInt(1)))
		addv(new(big.Int).Add(p, big.NewInt(1)))
	}
	var ivs []ir
	for _, lo := range vals {
		ivs = append(ivs, ir{lo, nil}, ir{nil, lo})
		for _, hi := range vals {
			if lo.Cmp(hi) <= 0 {
				ivs = append(ivs, ir{lo, hi})
			}
		}
	}
	ivs = append(ivs, ir{nil, nil})
	ops := []string{"add", "sub", "mul", "quo", "and", "or"}
	idx := int64(0)
	for _, x := range ivs {
		for _, y := range ivs {
			idx++
			if rc.SkipCase(phase, idx) || (rc.Only < 0 && int(idx)%rc.NShards != rc.Shard) {
				continue
			}
			r := rc.RNG(phase, idx)
			for _, op := range ops {
				c06one(rc, r, phase, idx, op, c06clone(x), c06clone(y))
			}
		}
	}
	rc.Count("grid_interval_pairs", idx/int64(rc.NShards))
}

// C06 runs the interval monitor.
func C06(rc *vk.Rec) {
	c06grid(rc)
	n := rc.N(24000, 2400000)
	phase := "c06"
	for idx := int64(0); idx < int64(n); idx++ {
		if rc.SkipCase(phase, idx) {
			continue
		}
		r := rc.RNG(phase, idx)
		narrow := 0
		switch r.Intn(4) {
		case 0:
			narrow = 64
		case 1:
			if r.Intn(8) == 0 {
				narrow = 512
			} else {
				narrow = 16
			}
		}
		x, _ := c06interval(r, false, narrow)
		y, _ := c06interval(r, false, narrow)
		ys, _ := c06interval(r, true, 0) // a small-magnitude interval for shift counts
		for _, op := range c06ops {
			yy := y
			if op == "lsh" || op == "rsh" {
				yy = ys
				if yy[1] == nil && op == "lsh" && r.Intn(4) != 0 {
					// keep most left shifts finite on the right
					yy = ir{yy[0], bi(int64(r.Intn(130)))}
				}
			}
			c06one(rc, r, phase, idx, op, x, yy)
		}
	}
}

func c06one(rc *vk.Rec, r *rand.Rand, phase string, idx int64, op string, x, y ir) {
	x0, y0 := c06clone(x), c06clone(y)
	var z ir
	var ok bool
	if pv := func() (pv interface{}) {
		defer func() { pv = recover() }()
		z, ok = c06apply(op, x, y)
		return nil
	}(); pv != nil {
		// no interval at all for operands the method's documentation accepts
		rc.Eval(1)
		rc.ViolateCase("interval:"+op+":panic:"+vk.PanicSig(pv), fmt.Sprintf("panic: %s %s %s: %v", x0.String(), op, y0.String(), pv),
			phase, idx, map[string]interface{}{"case": c06case{op, x0.String(), y0.String(), "", false}})
		return
	}
	rc.Eval(1)
	desc := c06case{op, x.String(), y.String(), z.String(), ok}
	bad := func(kind, msg string) {
		rc.ViolateCase("interval:"+op+":"+kind, fmt.Sprintf("%s: %s %s %s = %s ok=%v: %s", kind, desc.X, op, desc.Y, desc.Z, ok, msg),
			phase, idx, map[string]interface{}{"case": desc})
	}
	if !c06same(x, x0) || !c06same(y, y0) {
		bad("operand-mutated", fmt.Sprintf("operands became %v %v", x, y))
		return
	}
	// storage sharing with operands
	for i := 0; i < 2; i++ {
		if z[i] == nil {
			continue
		}
		for _, p := range []*big.Int{x[0], x[1], y[0], y[1]} {
			if p != nil && p == z[i] {
				bad("shares-storage", "a result bound is the same *big.Int as an operand bound")
				return
			}
		}
	}
	xe, ye := x.Empty(), y.Empty()
	// ok flag: failure exactly when some pair is undefined
	wantOk := true
	if !xe && !ye {
		switch op {
		case "quo":
			wantOk = !y.ContainsZero()
		case "lsh", "rsh":
			wantOk = !y.ContainsNegative()
		}
	}
	if ok != wantOk {
		bad("ok-flag", fmt.Sprintf("ok=%v but expected %v", ok, wantOk))
		return
	}
	cls := fmt.Sprintf("%s|%s|%s|%s|%s", op, c06signClass(x), c06signClass(y), shapeOf(x)+shapeOf(y), c06mag(x, y))
	if !ok {
		rc.Class(cls + "|fail")
		return
	}
	rc.Class(cls)
	if rc.NSamples() < 6 && r.Intn(50) == 0 {
		rc.Sample(desc)
	}
	switch op {
	case "unite":
		// tightest hull containing both
		if !z.ContainsIntRange(x) || !z.ContainsIntRange(y) {
			bad("unsound", "union does not contain an operand")
			return
		}
		var want ir
		switch {
		case xe && ye:
			if !z.Empty() {
				bad("not-tight", "union of empties is not empty")
			}
			return
		case xe:
			want = y
		case ye:
			want = x
		default:
			if x[0] != nil && y[0] != nil {
				want[0] = x[0]
				if y[0].Cmp(x[0]) < 0 {
					want[0] = y[0]
				}
			}
			if x[1] != nil && y[1] != nil {
				want[1] = x[1]
				if y[1].Cmp(x[1]) > 0 {
					want[1] = y[1]
				}
			}
		}
		if !z.Eq(want) {
			bad("not-tight", fmt.Sprintf("want %v", want))
		}
		return
	case "intersect":
		ms := append(c06members(r, x), c06members(r, y)...)
		for _, m := range ms {
			in := x.ContainsInt(m) && y.ContainsInt(m)
			if in != z.ContainsInt(m) {
				bad("unsound", fmt.Sprintf("member %v: in both=%v, in result=%v", m, in, z.ContainsInt(m)))
				return
			}
		}
		if (xe || ye) && !z.Empty() {
			bad("not-tight", "intersection with empty is not empty")
		}
		return
	}
	if xe || ye {
		if !z.Empty() {
			bad("not-tight", "an operand is empty (no pairs) but the result is not empty")
		}
		return
	}
	// soundness on sampled members
	var xs, ys []*big.Int
	if op == "quo" {
		xs = c06members(r, x)
		ys = c06members(r, y)
	} else if op == "lsh" || op == "rsh" {
		xs = c06members(r, x)
		for _, m := range c06members(r, y) {
			if op == "lsh" && m.BitLen() > 13 { // keep results small enough to compute
				continue
			}
			ys = append(ys, m)
		}
		if len(ys) > 12 {
			ys = ys[:12]
		}
	} else {
		xs = c06members(r, x)
		ys = c06members(r, y)
	}
	var lo, hi *big.Int
	enumerated := false
	if (op == "and" || op == "or") && allFinite(x, y) {
		wx := new(big.Int).Sub(x[1], x[0])
		wy := new(big.Int).Sub(y[1], y[0])
		if wx.IsInt64() && wy.IsInt64() && wx.Int64() < 512 && wy.Int64() < 512 && (wx.Int64()+1)*(wy.Int64()+1) <= 70000 {
			// full enumeration of the box: exact hull
			enumerated = true
			xv := new(big.Int).Set(x[0])
			for i := int64(0); i <= wx.Int64(); i++ {
				yv := new(big.Int).Set(y[0])
				for j := int64(0); j <= wy.Int64(); j++ {
					v, _ := c06concrete(op, xv, yv)
					if lo == nil || v.Cmp(lo) < 0 {
						lo = v
					}
					if hi == nil || v.Cmp(hi) > 0 {
						hi = new(big.Int).Set(v)
					}
					yv.Add(yv, bi(1))
				}
				xv.Add(xv, bi(1))
			}
			rc.Count("boxes_enumerated", 1)
			rc.Count("pairs_enumerated", (wx.Int64()+1)*(wy.Int64()+1))
		}
	}
	npairs := int64(0)
	for _, xm := range xs {
		for _, ym := range ys {
			v, def := c06concrete(op, xm, ym)
			if !def {
				bad("ok-flag", fmt.Sprintf("ok=true but pair (%v,%v) is undefined", xm, ym))
				return
			}
			npairs++
			if !z.ContainsInt(v) {
				bad("unsound", fmt.Sprintf("x=%v y=%v gives %v which is outside the result", xm, ym, v))
				return
			}
		}
	}
	rc.Count("member_pairs_checked", npairs)
	if !allFinite(x, y) {
		return
	}
	// tightness on finite boxes
	if !enumerated {
		switch op {
		case "add", "sub", "mul", "quo", "lsh", "rsh":
			cx := []*big.Int{x[0], x[1]}
			cy := []*big.Int{y[0], y[1]}
			if op == "quo" {
				for _, c := range []int64{-1, 1} {
					if y.ContainsInt(bi(c)) {
						cy = append(cy, bi(c))
					}
				}
			}
			if op == "lsh" && y[1].BitLen() > 13 {
				return // too large to compute the reference
			}
			for _, xm := range cx {
				for _, ym := range cy {
					v, _ := c06concrete(op, xm, ym)
					if lo == nil || v.Cmp(lo) < 0 {
						lo = v
					}
					if hi == nil || v.Cmp(hi) > 0 {
						hi = v
					}
				}
			}
		default:
			return // and/or on a box too wide to enumerate: soundness only
		}
	}
	rc.Count("tight_hulls_checked", 1)
	if z[0] == nil || z[1] == nil || z[0].Cmp(lo) != 0 || z[1].Cmp(hi) != 0 {
		bad("not-tight", fmt.Sprintf("tight hull is [%v ..= %v]", lo, hi))
	}
}

func shapeOf(x ir) string {
	switch {
	case x.Empty():
		return "E"
	case x[0] == nil && x[1] == nil:
		return "I"
	case x[0] == nil:
		return "L"
	case x[1] == nil:
		return "U"
	case x[0].Cmp(x[1]) == 0:
		return "P"
	}
	return "F"
}
