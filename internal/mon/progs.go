package mon

import (
	"bytes"
	"fmt"
	"os"
	"os/exec"
	"regexp"
	"sort"
	"strings"

	"verif/internal/vk"
	"verif/internal/wprog"
)

// PROGS: generated Wuffs programs through the real checker, the reference
// interpreter (with its C01/C02 monitors) and the production C. One engine,
// three verdict modes selected by VERIF_PROGS_MODE:
//
//	c01  accepted programs must raise no safety-obligation event (interpreter) and no sanitizer report (C)
//	c02  every recorded fact / assert / loop condition must evaluate true when reached
//	c04  the production C's trace must equal the interpreter's trace (programs with any C01/C02 event are excluded)
//	c05  the production C's result for one program and one input must not depend on how source and destination are split

func init() { Table["PROGS"] = Progs }

var reScenPfx = regexp.MustCompile(`\bs(\d+)_`)

// scenTag finds the scenario a monitor event belongs to from the sN_ prefix of
// the identifiers in its text; the whole case ID otherwise.
func scenTag(c *wprog.Case, texts ...string) string {
	tags := strings.Split(c.ID, "+")
	for _, t := range texts {
		if m := reScenPfx.FindStringSubmatch(t); m != nil {
			var i int
			fmt.Sscanf(m[1], "%d", &i)
			if i < len(tags) {
				return tags[i]
			}
		}
	}
	if len(tags) == 1 {
		return tags[0]
	}
	return c.ID
}

func numClass(s string) string {
	var b strings.Builder
	prev := false
	for _, ch := range s {
		if ch >= '0' && ch <= '9' {
			if !prev {
				b.WriteByte('N')
			}
			prev = true
			continue
		}
		prev = false
		b.WriteRune(ch)
		if b.Len() > 60 {
			break
		}
	}
	return b.String()
}

func Progs(rc *vk.Rec) {
	mode := os.Getenv("VERIF_PROGS_MODE")
	env := &wprog.Env{WuffsC: os.Getenv("VERIF_WUFFSC"), Root: os.Getenv("VERIF_WROOT"), BaseC: os.Getenv("VERIF_BASEC"), Scratch: os.Getenv("VERIF_PROGS_SCRATCH")}
	if env.WuffsC == "" || env.Root == "" || env.BaseC == "" {
		rc.Inconclusive("PROGS: tool paths not provided")
		return
	}
	if env.Scratch == "" {
		env.Scratch, _ = os.MkdirTemp("", "progs")
	}
	// 16 shards run side by side: each keeps its own compiler fan-out small
	wprog.CParallel = 3
	env.Scratch = fmt.Sprintf("%s/shard%d", env.Scratch, rc.Shard)
	os.MkdirAll(env.Scratch, 0o755)
	var nTotal, cEvery int
	opts := wprog.GenOptions{Variant: -1}
	switch mode {
	case "c01", "c02":
		nTotal = rc.N(1600, 48000)
		cEvery = 6 // one accepted program in six also runs as sanitized C
	case "c10":
		// purity: every call of a method without an effect mark is bracketed by
		// a hash of the receiver and of all argument memory (interpreter only)
		nTotal = rc.N(480, 16000)
		cEvery = 1 << 30
	case "c04":
		nTotal = rc.N(640, 16000)
		cEvery = 1
		// every variant: an accepted near-miss on which the interpreter raises no
		// event is as good a program as the safe form (those with events are excluded)
		opts.MaxScens = 3
	case "c05":
		progsC05(rc, env)
		return
	case "c20":
		progsC20(rc, env)
		return
	default:
		rc.Inconclusive("PROGS: unknown mode " + mode)
		return
	}
	phase := "progs-" + mode
	type pending struct {
		c   *wprog.Case
		out *wprog.Outcome
		idx int64
	}
	var batch []pending
	flush := func() {
		if len(batch) == 0 {
			return
		}
		for _, sanitize := range []bool{true, false} {
			if mode != "c04" && !sanitize {
				continue
			}
			env.Sanitize = sanitize
			cases := make([]*wprog.Case, len(batch))
			for i, p := range batch {
				cases[i] = p.c
			}
			traces, events, err := wprog.RunC(env, cases)
			if err != nil {
				rc.Inconclusive("RunC: " + err.Error())
				continue
			}
			build := "O2"
			if sanitize {
				build = "asan"
			}
			for i, p := range batch {
				rc.Count("c_runs_"+build, 1)
				var evs []wprog.Event
				if i < len(events) {
					evs = events[i]
				}
				for _, ev := range evs {
					tag := scenTag(p.c, ev.Node, ev.Fact, ev.Values)
					switch {
					case strings.HasPrefix(ev.Kind, "sanitizer:") && (mode == "c01"):
						rc.ViolateCase("unsafe-accepted:"+tag+":"+numClass(ev.Kind), fmt.Sprintf("accepted program [%s] run as %s C: %s at %s", p.c.ID, build, ev.Kind, ev.Node), phase, p.idx,
							map[string]interface{}{"source": p.c.Source, "calls": p.c.Calls, "event": ev})
					case ev.Prop == "C11" || strings.HasPrefix(ev.Kind, "cc-failed") || strings.HasPrefix(ev.Kind, "compile") || strings.HasPrefix(ev.Kind, "gcc"):
						// accepted by the checker but the emitted C does not compile: that is C11's
						// clause (its own check covers it); here the program is only counted out
						rc.Count("emitted_c_rejected_by_gcc", 1)
						rc.Class("c-rejected|" + tag)
					}
				}
				if mode != "c04" || i >= len(traces) || traces[i] == nil {
					continue
				}
				// a safety or fact event means the program has no defined meaning;
				// other interpreter notes (C04: shapes where the C is expected to
				// stray) do not excuse anything: the traces are compared
				undefined := p.out.Unsupported != ""
				for _, ev := range p.out.Events {
					if ev.Prop == "C01" || ev.Prop == "C02" {
						undefined = true
					}
				}
				if undefined {
					continue
				}
				// C04: trace comparison
				rc.Count("traces_compared_"+build, 1)
				it, ct := p.out.Trace, traces[i]
				n := len(it)
				if len(ct) < n {
					n = len(ct)
				}
				diff := ""
				for k := 0; k < n && diff == ""; k++ {
					a, b := it[k], ct[k]
					switch {
					case a.Ret != b.Ret:
						diff = fmt.Sprintf("call %d %s: return/status %q (Wuffs semantics) vs %q (C)", k, a.Method, a.Ret, b.Ret)
					case a.SrcRI != b.SrcRI || a.SrcWI != b.SrcWI:
						diff = fmt.Sprintf("call %d %s: source ri/wi %d/%d vs %d/%d", k, a.Method, a.SrcRI, a.SrcWI, b.SrcRI, b.SrcWI)
					case a.DstWI != b.DstWI || a.DstRI != b.DstRI:
						diff = fmt.Sprintf("call %d %s: destination ri/wi %d/%d vs %d/%d", k, a.Method, a.DstRI, a.DstWI, b.DstRI, b.DstWI)
					case a.DstHash != b.DstHash:
						diff = fmt.Sprintf("call %d %s: bytes written differ", k, a.Method)
					case fmt.Sprint(a.Slices) != fmt.Sprint(b.Slices):
						diff = fmt.Sprintf("call %d %s: slice argument contents differ", k, a.Method)
					case fmt.Sprint(a.Getters) != fmt.Sprint(b.Getters):
						diff = fmt.Sprintf("call %d %s: getters %v vs %v", k, a.Method, a.Getters, b.Getters)
					}
				}
				if diff == "" && len(it) != len(ct) {
					diff = fmt.Sprintf("trace lengths %d vs %d", len(it), len(ct))
				}
				if diff != "" {
					field := strings.SplitN(strings.SplitN(diff, ": ", 2)[len(strings.SplitN(diff, ": ", 2))-1], " ", 2)[0]
					rc.ViolateCase("miscompile:"+p.c.ID+":"+field+":"+build, fmt.Sprintf("generated C (%s) disagrees with the Wuffs semantics on [%s]: %s", build, p.c.ID, diff), phase, p.idx,
						map[string]interface{}{"source": p.c.Source, "calls": p.c.Calls, "interp": it, "c": ct})
				}
			}
		}
		batch = batch[:0]
	}
	accepted := 0
	// Besides the seeded random sample every run enumerates, spread over the
	// shards: (a) families aimed at the code generator rather than the checker
	// (accepted programs whose C was once undefined): always run as C, under
	// UBSan (c01) and trace comparison (c04); (b) the whole fact-invalidation
	// matrix (M-kill: target x killer x loop exit x use), so that a checker
	// that forgets one invalidation is seen whatever the seed.
	type extra struct {
		o       wprog.GenOptions
		alwaysC bool
		fixed   *wprog.Case // a hand-written case instead of a generated one
	}
	var extras []extra
	if mode == "c01" || mode == "c04" {
		for _, f := range []string{"G-high-bits-zero", "G-sat-small", "G-refined-arg-result", "G-io-arg-only-in-builtin"} {
			for k := 0; k < 3; k++ {
				extras = append(extras, extra{o: wprog.GenOptions{Family: f, Variant: 0, MaxScens: 1}, alwaysC: true})
			}
		}
	}
	// hand-written programs (constructs no family emits: io_limit / io_bind,
	// marks, history copies, statuses as values, nested public coroutines ...)
	for _, hc := range wprog.HandCases() {
		extras = append(extras, extra{alwaysC: mode == "c01" || mode == "c04", fixed: hc})
	}
	fams := wprog.Families()
	for k := 0; k < 4*fams["R-signed"]; k++ { // each variant on several signed types
		extras = append(extras, extra{o: wprog.GenOptions{Family: "R-signed", Variant: k % fams["R-signed"], MaxScens: 1, MaxCalls: 1 << 20}, alwaysC: mode == "c01" || mode == "c04"})
	}
	// every variant of every other family at least once, alone in its program
	// (the random sample mixes 1-3 scenarios and picks variants at random)
	var fnames []string
	for f := range fams {
		if f != "M-kill" && f != "R-signed" && !strings.HasPrefix(f, "G-") {
			fnames = append(fnames, f)
		}
	}
	sort.Strings(fnames)
	for _, f := range fnames {
		rounds := 1
		if f == "O-probe" {
			rounds = 5 // seeded operand ranges and types: several per operator
		}
		if f == "K-loop-carry" {
			rounds = 6 // seeded inputs: whether a stale local shows depends on the data
		}
		for k := 0; k < rounds*fams[f]; k++ {
			extras = append(extras, extra{o: wprog.GenOptions{Family: f, Variant: k % fams[f], MaxScens: 1, MaxCalls: 1 << 20}, alwaysC: false})
		}
	}
	for v := 0; v < wprog.KillVariants(); v++ {
		extras = append(extras, extra{o: wprog.GenOptions{Family: "M-kill", Variant: v, MaxScens: 1, MaxCalls: 1 << 20}, alwaysC: false})
	}
	for idx := int64(0); idx < int64(nTotal)+int64(len(extras)); idx++ {
		if rc.SkipCase(phase, idx) {
			continue
		}
		o := opts
		alwaysC := false
		var fixed *wprog.Case
		if idx >= int64(nTotal) {
			k := int(idx - int64(nTotal))
			if rc.Only < 0 && k%rc.NShards != rc.Shard {
				continue
			}
			o, alwaysC, fixed = extras[k].o, extras[k].alwaysC, extras[k].fixed
		}
		rc.Mark(phase, idx)
		r := rc.RNG(phase, idx)
		c := fixed
		if c == nil {
			c = wprog.GenCase(r, o)
		}
		if c == nil {
			continue
		}
		rc.Eval(1)
		p, rejected, err := wprog.Compile(c)
		if err != nil {
			rc.Count("compile_errors", 1)
			continue
		}
		if rejected != "" {
			rc.Count("rejected", 1)
			rc.Class("rejected|" + c.ID)
			continue
		}
		accepted++
		rc.Count("accepted", 1)
		out := p.Interpret(c)
		if out.Unsupported != "" {
			rc.Count("interp_unsupported", 1)
			rc.Class("unsupported|" + numClass(out.Unsupported))
			continue
		}
		rc.Count("calls_interpreted", int64(len(out.Trace)))
		rc.Count("suspensions", out.Stats.Suspensions)
		rc.Count("facts_skipped", out.Stats.FactsSkipped)
		for k, v := range out.Stats.Obligations {
			rc.Count("obligations_"+k, v)
		}
		for k, v := range out.Stats.FactsEval {
			rc.Count("facts_evaluated", v)
			_ = k
		}
		seen := map[string]bool{}
		for _, ev := range out.Events {
			tag := scenTag(c, ev.Node, ev.Fact, ev.Values)
			extra := map[string]interface{}{"source": c.Source, "calls": c.Calls, "event": ev}
			switch {
			case ev.Prop == "C01" && mode == "c01":
				sig := "unsafe-accepted:" + tag + ":" + ev.Kind
				if !seen[sig] {
					seen[sig] = true
					rc.ViolateCase(sig, fmt.Sprintf("the checker accepted [%s] but at run time: %s at %s (values %s, limit %s)", c.ID, ev.Kind, ev.Node, ev.Values, ev.Limit), phase, idx, extra)
				}
			case ev.Prop == "C10" && mode == "c10":
				sig := "pure-method-modified-state:" + tag
				if !seen[sig] {
					seen[sig] = true
					rc.ViolateCase(sig, fmt.Sprintf("the compiler accepted [%s] but calling the unmarked (pure) method %s changed the receiver or argument memory (%s)", c.ID, ev.Node, ev.Values), phase, idx, extra)
				}
			case ev.Prop == "C02" && mode == "c02":
				sig := "false-fact:" + tag + ":" + ev.Kind
				if !seen[sig] {
					seen[sig] = true
					rc.ViolateCase(sig, fmt.Sprintf("[%s]: %s: %s is false when execution reaches %s (%s)", c.ID, ev.Kind, ev.Fact, ev.Node, ev.Values), phase, idx, extra)
				}
			}
		}
		switch mode {
		case "c01":
			for k, v := range out.Stats.NearEdge {
				if v > 0 {
					rc.Class(c.ID + "|" + k)
				}
			}
			if len(out.Stats.NearEdge) == 0 {
				rc.Class(c.ID + "|ran")
			}
		case "c10":
			rc.Class("pure-calls|" + c.ID)
		case "c02":
			for k, v := range out.Stats.FactsNontriv {
				if v > 0 {
					rc.Class(scenTag(c, k) + "|" + k)
				}
			}
			rc.Class(c.ID + "|facts-evaluated")
		case "c04":
			cls := c.ID
			if out.Stats.Suspensions > 0 {
				cls += "|suspended"
			}
			rc.Class(cls)
		}
		if rc.NSamples() < 3 && len(c.Calls) > 0 && len(c.Calls) < 12 {
			rc.Sample(map[string]interface{}{"id": c.ID, "source": c.Source, "calls": len(c.Calls), "trace_head": headRecs(out.Trace, 3), "stats": out.Stats})
		}
		if accepted%cEvery == 0 || alwaysC {
			batch = append(batch, pending{c, out, idx})
			if len(batch) >= 24 {
				flush()
			}
		}
	}
	flush()
	os.RemoveAll(env.Scratch)
}

func headRecs(t []wprog.Rec, n int) []wprog.Rec {
	if len(t) > n {
		return t[:n]
	}
	return t
}

// c05Families are the coroutine families whose programs touch their streams
// only through `?` methods (wprog.SplitIndependent has the variant list).
var c05Families = []string{"K-live", "K-live", "K-live", "K-read-seq", "K-read-loop", "K-write-loop", "K-nested-coro", "K-peek-skip"}

// progsC05 is the generated-program leg of C05: one accepted coroutine program,
// one input, many partitions of the source bytes and of the destination
// capacity (every single split point, byte by byte, random multi-splits); the
// production C (ASan+UBSan and -O2 builds) must produce the same result as for
// the one-shot delivery: completion, final status, bytes written, getters and
// (when the final status is ok) consumed count.
func progsC05(rc *vk.Rec, env *wprog.Env) {
	const phase = "progs-c05"
	nTotal := rc.N(64, 6000)
	maxVar := 48
	if !rc.Thorough() {
		maxVar = 16 // quick tier: every variant is a package to generate, compile and run (~1 CPU-second)
	}
	// every split-independent family/variant is run at least twice whatever the
	// seed (spread over the shards), then the seeded random sample
	nEnum := 2 * len(wprog.SplitIndependentIDs)
	for idx := int64(0); idx < int64(nTotal+nEnum); idx++ {
		if rc.SkipCase(phase, idx) {
			continue
		}
		o := wprog.GenOptions{Variant: -1, MaxScens: 1, MaxCalls: 1 << 20}
		if idx >= int64(nTotal) {
			k := int(idx - int64(nTotal))
			if rc.Only < 0 && k%rc.NShards != rc.Shard {
				continue
			}
			id := wprog.SplitIndependentIDs[k%len(wprog.SplitIndependentIDs)]
			o.Family = id[:strings.LastIndex(id, "/v")]
			fmt.Sscanf(id[strings.LastIndex(id, "/v")+2:], "%d", &o.Variant)
		}
		rc.Mark(phase, idx)
		r := rc.RNG(phase, idx)
		if o.Family == "" {
			o.Family = c05Families[r.Intn(len(c05Families))]
		}
		c := wprog.GenCase(r, o)
		if c == nil || !wprog.SplitIndependent(c.ID) {
			continue
		}
		p, rejected, err := wprog.Compile(c)
		if err != nil {
			rc.Count("compile_errors", 1)
			continue
		}
		if rejected != "" {
			rc.Count("rejected", 1)
			continue
		}
		vars := wprog.Resplit(c, r, maxVar)
		if len(vars) < 2 {
			rc.Count("not_a_feed_block", 1)
			continue
		}
		// the reference semantics of the one-shot run decide whether the case is
		// in scope: a safety / fact event means the program has no defined meaning
		out := p.Interpret(vars[0])
		if out.Unsupported != "" || len(out.Events) > 0 {
			rc.Count("excluded_by_interpreter", 1)
			continue
		}
		rc.Eval(1)
		for _, sanitize := range []bool{true, false} {
			if !sanitize && !rc.Thorough() && idx%3 != 0 {
				continue // quick tier: the -O2 build for every third program
			}
			env.Sanitize = sanitize
			build := "O2"
			if sanitize {
				build = "asan"
			}
			traces, events, err := wprog.RunC(env, vars)
			if err != nil {
				rc.Inconclusive("RunC: " + err.Error())
				break
			}
			if len(traces) == 0 || traces[0] == nil {
				rc.Count("c_one_shot_failed", 1)
				break
			}
			ref, refDone := wprog.Final(traces[0])
			// sanity of the harness: the one-shot C result must be the interpreter's
			// (that comparison is C04's verdict; here a mismatch only excludes the case)
			if it, itDone := wprog.Final(out.Trace); itDone != refDone || it.Ret != ref.Ret {
				rc.Count("one_shot_c_differs_from_interpreter", 1)
				break
			}
			susp := 0
			for k := 1; k < len(vars); k++ {
				if k >= len(traces) || traces[k] == nil {
					rc.Count("c_variant_failed_"+build, 1)
					continue
				}
				if k < len(events) {
					for _, ev := range events[k] {
						if strings.HasPrefix(ev.Kind, "sanitizer:") {
							rc.ViolateCase("split-dependence:gen:"+c.ID+":sanitizer", fmt.Sprintf("[%s] %s C, chunked run %d: %s at %s (one-shot run is clean)", c.ID, build, k, ev.Kind, ev.Node), phase, idx,
								map[string]interface{}{"source": c.Source, "calls": vars[k].Calls, "event": ev})
						}
					}
				}
				rc.Count("chunked_runs_"+build, 1)
				got, done := wprog.Final(traces[k])
				for _, x := range traces[k] {
					if strings.HasPrefix(x.Ret, "$") {
						susp++
					}
				}
				diff := ""
				switch {
				case done != refDone:
					diff = fmt.Sprintf("completed=%v (status %q) vs one-shot completed=%v (status %q)", done, got.Ret, refDone, ref.Ret)
				case got.Ret != ref.Ret:
					diff = fmt.Sprintf("status %q vs one-shot %q", got.Ret, ref.Ret)
				case got.DstWI != ref.DstWI || got.DstHash != ref.DstHash:
					diff = fmt.Sprintf("bytes written wi=%d hash=%x vs one-shot wi=%d hash=%x", got.DstWI, got.DstHash, ref.DstWI, ref.DstHash)
				case fmt.Sprint(got.Getters) != fmt.Sprint(ref.Getters):
					diff = fmt.Sprintf("getters %v vs one-shot %v", got.Getters, ref.Getters)
				case done && ref.Ret == "" && got.SrcRI != ref.SrcRI:
					diff = fmt.Sprintf("consumed %d vs one-shot %d", got.SrcRI, ref.SrcRI)
				}
				if diff != "" {
					field := strings.SplitN(diff, " ", 2)[0]
					rc.ViolateCase("split-dependence:gen:"+c.ID+":"+field, fmt.Sprintf("generated coroutine [%s], %s C: chunked delivery %d of the same input gives %s", c.ID, build, k, diff), phase, idx,
						map[string]interface{}{"source": c.Source, "one_shot_calls": vars[0].Calls, "chunked_calls": vars[k].Calls, "one_shot_trace": traces[0], "chunked_trace": traces[k]})
					break
				}
			}
			rc.Count("gen_suspensions_resumed", int64(susp))
			cls := "gen|" + c.ID
			if susp > 0 {
				cls += "|resumed"
			}
			if !refDone {
				cls += "|ends-suspended"
			} else if ref.Ret != "" {
				cls += "|error"
			}
			rc.Class(cls)
		}
		if rc.NSamples() < 2 {
			rc.Sample(map[string]interface{}{"id": c.ID, "source": c.Source, "variants": len(vars)})
		}
	}
	os.RemoveAll(env.Scratch)
}

// progsC20 is the generated-program leg of C20: every family/variant alone and
// seeded mixes of 1-3 scenarios (coroutines, several I/O arguments, iterate,
// choose, statuses, const tables ...) are compiled by the real wuffs-c in
// repeated fresh processes (new map seeds each time) under varied GOMAXPROCS /
// GOGC; the emitted C must be byte-identical every time.
func progsC20(rc *vk.Rec, env *wprog.Env) {
	const phase = "progs-c20"
	nTotal := rc.N(96, 4000)
	reps := 10
	if rc.Thorough() {
		reps = 24
	}
	type item struct{ o wprog.GenOptions }
	var enum []item
	fams := wprog.Families()
	var fnames []string
	for f := range fams {
		if f != "M-kill" {
			fnames = append(fnames, f)
		}
	}
	sort.Strings(fnames)
	for _, f := range fnames {
		for v := 0; v < fams[f]; v++ {
			enum = append(enum, item{wprog.GenOptions{Family: f, Variant: v, MaxScens: 1, MaxCalls: 1}})
		}
	}
	for v := 0; v < wprog.KillVariants(); v += 7 {
		enum = append(enum, item{wprog.GenOptions{Family: "M-kill", Variant: v, MaxScens: 1, MaxCalls: 1}})
	}
	os.MkdirAll(env.Scratch, 0o755)
	for idx := int64(0); idx < int64(nTotal+len(enum)); idx++ {
		if rc.SkipCase(phase, idx) {
			continue
		}
		o := wprog.GenOptions{Variant: -1, MaxScens: 3, MaxCalls: 1}
		if idx >= int64(nTotal) {
			k := int(idx - int64(nTotal))
			if rc.Only < 0 && k%rc.NShards != rc.Shard {
				continue
			}
			o = enum[k].o
		}
		rc.Mark(phase, idx)
		r := rc.RNG(phase, idx)
		c := wprog.GenCase(r, o)
		if c == nil {
			continue
		}
		file := fmt.Sprintf("%s/d%d.wuffs", env.Scratch, idx)
		if err := os.WriteFile(file, []byte(c.Source), 0o644); err != nil {
			continue
		}
		gen := func(extraEnv ...string) ([]byte, bool) {
			cmd := exec.Command(env.WuffsC, "gen", "-package_name", "det", file)
			cmd.Dir = env.Root
			cmd.Env = append(os.Environ(), extraEnv...)
			out, err := cmd.Output()
			return out, err == nil
		}
		ref, ok := gen()
		if !ok {
			rc.Count("rejected_or_failed", 1)
			os.Remove(file)
			continue
		}
		rc.Eval(1)
		for k := 0; k < reps; k++ {
			var ev []string
			switch k % 4 {
			case 1:
				ev = []string{"GOMAXPROCS=1"}
			case 2:
				ev = []string{"GOGC=1", "GOMAXPROCS=16"}
			case 3:
				ev = []string{"VERIF_UNRELATED=" + fmt.Sprint(k), "LANG=C", "TZ=Pacific/Kiritimati"}
			}
			out, ok := gen(ev...)
			rc.Count("generated_program_compilations", 1)
			if !ok || !bytes.Equal(out, ref) {
				d := 0
				for d < len(out) && d < len(ref) && out[d] == ref[d] {
					d++
				}
				lo := d - 60
				if lo < 0 {
					lo = 0
				}
				rc.ViolateCase("nondeterministic:generated-program:"+c.ID, fmt.Sprintf("wuffs-c gen of [%s] differs between two runs on the same file (run %d, env %v): first difference at byte %d: %q vs %q", c.ID, k, ev, d, clip(ref, lo, d+60), clip(out, lo, d+60)),
					phase, idx, map[string]interface{}{"source": c.Source})
				break
			}
		}
		rc.Class("det|" + c.ID)
		os.Remove(file)
	}
	os.RemoveAll(env.Scratch)
}

func clip(b []byte, lo, hi int) string {
	if lo > len(b) {
		lo = len(b)
	}
	if hi > len(b) {
		hi = len(b)
	}
	return string(b[lo:hi])
}
