package mon

// C13: RAC write -> read round trip, spec validity of the written file, and
// stickiness of underlying-writer / temp-file failures.
//
// Oracles (exactly what the property states):
//   - Close()==nil  =>  racspecWalk (racspec.go, written from the spec text)
//     accepts the bytes that reached Writer.Writer, and a rac.Reader with the
//     same codec package's CodecReader (Concurrency 0) returns exactly the
//     concatenation of all Write arguments (io.ReadAll and Seek+Read probes).
//   - a failing underlying io.Writer / TempFile (k-th call, every k): every
//     public call after the one in which the failure happened returns a
//     non-nil error, Close never returns nil, nothing panics.
//   - CPageSize > 0: the Writer field's documented promise (padding is made of
//     zeroes; each chunk occupies the minimum number of pages). Reported under
//     the separate "rac-page:" prefix.

import (
	"bytes"
	"compress/zlib"
	"encoding/hex"
	"errors"
	"fmt"
	"hash/crc32"
	"io"
	"math/rand"
	"os"
	"strings"

	"github.com/google/wuffs/lib/rac"
	"github.com/google/wuffs/lib/raclz4"
	"github.com/google/wuffs/lib/raczlib"
	"github.com/google/wuffs/lib/raczstd"

	"verif/internal/vk"
)

func init() { Table["C13"] = C13 }

var c13ErrInjected = errors.New("c13: injected failure")

// ---------------------------------------------------------------- config --

type c13Cfg struct {
	Codec   string `json:"codec"`
	CChunk  uint64 `json:"cchunk"`
	DChunk  uint64 `json:"dchunk"`
	CPage   uint64 `json:"cpage"`
	AtStart bool   `json:"at_start"`
	Temp    string `json:"temp"` // nil rawbuf rawfile rawfile-off lbuf lseek lseek-off
	Sink    string `json:"sink"` // log rawbuf
	NRes    int    `json:"nres"`
	PClass  string `json:"payload_class"`
	PLen    int    `json:"payload_len"`
	Part    string `json:"partition"`
	NWrites int    `json:"writes"`
	ShortRd bool   `json:"temp_short_reads"`
	RSKind  string `json:"reader_source"` // readerat, readseeker
	Invalid string `json:"invalid,omitempty"`
}

func (c *c13Cfg) mode() string {
	switch {
	case c.DChunk > 0:
		return "dchunk"
	case c.CChunk > 0:
		return "cchunk"
	}
	return "dchunk" // both zero: the default DChunkSize
}

func (c *c13Cfg) pageClass() string {
	switch {
	case c.CPage == 0:
		return "p0"
	case c.CPage <= 8:
		return "p4-8"
	case c.CPage <= 128:
		return "p64-128"
	}
	return "p4096"
}

func (c *c13Cfg) locClass() string {
	switch {
	case !c.AtStart:
		return "end"
	case strings.HasPrefix(c.Temp, "rawfile") || strings.HasPrefix(c.Temp, "lseek"):
		return "start/seekable"
	}
	return "start/rw"
}

var c13vocab = strings.Fields("the of and to in is that for it as was with be by on not he this are or his from at which but have an had they you were their one all we can her has there been if more when will would who so no out up into than them only some could time these two may then do first any my now such like our over man me even most made after also did many before must through back years where much your way well down should because each just those people how too little state good very make world still own see men work long get here between both life being under never day same another know while last might us great old year off come since against go came right used take three")

var c13cchunks = []uint64{64, 100, 256, 1000, 4096, 65536}
var c13dchunks = []uint64{1, 2, 7, 8, 64, 100, 256, 1000, 4096, 65536}
var c13pages = []uint64{4, 8, 64, 128, 4096}

func c13pick(r *rand.Rand, xs []uint64) uint64 { return xs[r.Intn(len(xs))] }

// c13zeroish appends zero-heavy bytes: zero runs and non-zero islands.
func c13zeroish(r *rand.Rand, b []byte, n int, maxZ, maxNZ int, longEvery int) []byte {
	end := len(b) + n
	for len(b) < end {
		if r.Intn(2) == 0 {
			k := 1 + r.Intn(maxZ)
			if longEvery > 0 && r.Intn(longEvery) == 0 {
				k = 100 + r.Intn(2500)
			}
			b = append(b, make([]byte, k)...)
		} else {
			k := 1 + r.Intn(maxNZ)
			for i := 0; i < k; i++ {
				b = append(b, byte(1+r.Intn(255)))
			}
		}
	}
	return b[:end]
}

func c13text(r *rand.Rand, b []byte, n int) []byte {
	end := len(b) + n
	for len(b) < end {
		b = append(b, c13vocab[r.Intn(len(c13vocab))]...)
		if r.Intn(12) == 0 {
			b = append(b, '.', '\n')
		} else {
			b = append(b, ' ')
		}
	}
	return b[:end]
}

func c13phrases(r *rand.Rand, b []byte, n int, pools [][][]byte) []byte {
	end := len(b) + n
	for len(b) < end {
		// the first half of the payload prefers pool 0, the second half the last pool
		pi := 0
		if len(pools) > 1 && len(b)-(end-n) > n/2 {
			pi = len(pools) - 1
		}
		pool := pools[pi]
		b = append(b, pool[r.Intn(len(pool))]...)
		if r.Intn(4) == 0 {
			b = append(b, byte(r.Intn(256)))
		}
	}
	return b[:end]
}

func c13segment(r *rand.Rand, b []byte, class string, n int, pools [][][]byte) []byte {
	switch class {
	case "zshort":
		return c13zeroish(r, b, n, 8, 8, 24)
	case "zlong":
		return c13zeroish(r, b, n, 3000, 40, 0)
	case "zmid":
		return c13zeroish(r, b, n, 40, 6, 12)
	case "random":
		for i := 0; i < n; i++ {
			b = append(b, byte(r.Intn(256)))
		}
		return b
	case "text":
		return c13text(r, b, n)
	case "phrase":
		return c13phrases(r, b, n, pools)
	}
	panic("c13: bad payload class " + class)
}

var c13baseClasses = []string{"zshort", "zlong", "zmid", "random", "text", "phrase"}

func c13payload(r *rand.Rand, class string, n int, pools [][][]byte) []byte {
	b := make([]byte, 0, n)
	switch class {
	case "empty":
		return b
	case "zedge":
		// zeroes at the very start and the very end
		if n < 3 || r.Intn(5) == 0 {
			return make([]byte, n) // all zeroes
		}
		lead := 1 + r.Intn(n/2)
		trail := 1 + r.Intn(n/2)
		mid := n - lead - trail
		if mid < 1 {
			mid, trail = 1, n-lead-1
		}
		b = append(b, make([]byte, lead)...)
		b = c13segment(r, b, c13baseClasses[r.Intn(len(c13baseClasses))], mid, pools)
		if b[lead] == 0 {
			b[lead] = 'x'
		}
		return append(b, make([]byte, trail)...)
	case "mixed":
		for len(b) < n {
			k := 1 + r.Intn(n)
			if k > n-len(b) {
				k = n - len(b)
			}
			b = c13segment(r, b, c13baseClasses[r.Intn(len(c13baseClasses))], k, pools)
		}
		return b
	}
	return c13segment(r, b, class, n, pools)
}

// c13partition returns the Write-call piece lengths (summing to n).
func c13partition(r *rand.Rand, kind string, n int, fixed int, zeroLen bool) []int {
	var ps []int
	add := func(k int) {
		if zeroLen && r.Intn(7) == 0 {
			ps = append(ps, 0)
		}
		ps = append(ps, k)
	}
	switch kind {
	case "single":
		if n > 0 || r.Intn(2) == 0 {
			add(n)
		}
	case "fixed":
		for rem := n; rem > 0; {
			k := fixed
			if k > rem {
				k = rem
			}
			add(k)
			rem -= k
		}
	case "rand60":
		for rem := n; rem > 0; {
			k := 1 + r.Intn(60)
			if k > rem {
				k = rem
			}
			add(k)
			rem -= k
		}
	case "byte":
		for rem := n; rem > 0; rem-- {
			add(1)
		}
	}
	if zeroLen && r.Intn(2) == 0 {
		ps = append(ps, 0)
	}
	return ps
}

type c13Case struct {
	Cfg     c13Cfg
	Payload []byte
	Pieces  []int
	Dicts   [][]byte
}

// c13genResDeep draws a multi-level index whose leaves use shared
// dictionaries: several hundred zlib chunks that each compress to more than 256 bytes
// (below that the codec does not try a dictionary) from a payload made of the
// dictionaries' phrases.
func c13genResDeep(r *rand.Rand, minChunks, span int) *c13Case {
	var c c13Cfg
	c.Codec = "zlib"
	c.DChunk = []uint64{400, 512, 640}[r.Intn(3)]
	c.NRes = 1 + r.Intn(2)
	if minChunks > 500 {
		c.NRes = 2
	}
	if r.Intn(2) == 0 {
		c.CPage = c13pick(r, c13pages)
	}
	c.AtStart = r.Intn(2) == 0
	c.Temp = "nil"
	if c.AtStart {
		c.Temp = []string{"rawbuf", "lbuf", "lseek", "rawfile"}[r.Intn(4)]
	}
	c.Sink = "log"
	c.RSKind = []string{"readerat", "readseeker"}[r.Intn(2)]
	c.PClass = "phrase"
	n := (minChunks+r.Intn(span))*int(c.DChunk) + r.Intn(int(c.DChunk))
	c.PLen = n
	var pools [][][]byte
	var dicts [][]byte
	for i := 0; i < c.NRes; i++ {
		var pool [][]byte
		var d []byte
		for j := 0; j < 24; j++ {
			ph := make([]byte, 8+r.Intn(32))
			for k := range ph {
				ph[k] = byte(r.Intn(256))
			}
			pool = append(pool, ph)
			d = append(d, ph...)
		}
		pools = append(pools, pool)
		dicts = append(dicts, d)
	}
	payload := c13payload(r, "phrase", n, pools[:1])
	if c.NRes == 2 {
		// The second dictionary serves only a few single chunks placed around the
		// points where the index writer starts a new branch node (arity 255
		// including resources): a resource with exactly one user in its branch.
		dc := int(c.DChunk)
		for _, base := range []int{253, 506} {
			k := base + r.Intn(2)
			if (k+1)*dc <= n {
				copy(payload[k*dc:(k+1)*dc], c13payload(r, "phrase", dc, pools[1:]))
			}
		}
	}
	c.Part = "fixed"
	pieces := c13partition(r, "fixed", n, []int{1000, 4096, 65536}[r.Intn(3)], false)
	c.NWrites = len(pieces)
	return &c13Case{Cfg: c, Payload: payload, Pieces: pieces, Dicts: dicts}
}

// c13genDeep3 draws a three-level index: more than 255*255 one-byte chunks.
// It costs 10..30 CPU seconds (a codec reset per chunk): one case per quick
// run (lz4, in a child of its own), one per shard in the thorough tier.
func c13genDeep3(r *rand.Rand, quick bool) *c13Case {
	var c c13Cfg
	c.Codec = "lz4" // the cheapest per chunk
	if !quick && r.Intn(2) == 0 {
		c.Codec = "zlib"
	}
	c.DChunk = 1
	if r.Intn(2) == 0 {
		c.CPage = c13pick(r, c13pages[:2])
	}
	c.AtStart = r.Intn(2) == 0
	c.Temp = "nil"
	if c.AtStart {
		c.Temp = []string{"rawbuf", "lbuf", "lseek"}[r.Intn(3)]
	}
	c.Sink = "log"
	c.RSKind = "readerat"
	c.PClass = []string{"zshort", "random", "text"}[r.Intn(3)]
	// 255*255+1 .. 255*256 chunks: 256 first-level branch nodes, so the last
	// second-level group has a single member.
	n := 255*255 + 1 + r.Intn(255)
	if !quick && r.Intn(2) == 0 {
		n += r.Intn(2000)
	}
	c.PLen = n
	payload := c13payload(r, c.PClass, n, nil)
	c.Part = "fixed"
	pieces := c13partition(r, "fixed", n, 4096, false)
	c.NWrites = len(pieces)
	return &c13Case{Cfg: c, Payload: payload, Pieces: pieces}
}

// c13gen draws one case. small = few chunks and few underlying calls, so that
// an exhaustive fault sweep is cheap.
func c13gen(r *rand.Rand, thorough, small bool, force string) *c13Case {
	switch force {
	case "deep3":
		return c13genDeep3(r, !thorough)
	case "resdeep2":
		return c13genResDeep(r, 260, 140) // two leaf-level branch nodes
	case "resdeep3":
		return c13genResDeep(r, 512, 30) // three
	}
	zstd := force == "zstd"
	var c c13Cfg
	// zstd at LevelSmall costs seconds of CPU per Writer (huge match-finder
	// tables), so the caller schedules it by case index rather than by chance.
	switch {
	case zstd:
		c.Codec = "zstd"
	case r.Intn(10) < 3:
		c.Codec = "lz4"
	default:
		c.Codec = "zlib"
	}
	// sizing
	modeRoll := r.Intn(100)
	wantC := false
	if c.Codec == "zlib" {
		wantC = modeRoll < 50
	} else {
		wantC = modeRoll < 6 // documented invalid: the codec cannot cut
	}
	switch {
	case wantC:
		c.CChunk = c13pick(r, c13cchunks)
		if r.Intn(40) == 0 {
			c.CChunk = []uint64{16, 33}[r.Intn(2)]
		}
		if c.Codec != "zlib" {
			c.Invalid = "cchunk-without-cut"
		}
	case modeRoll >= 96:
		// both zero: default DChunkSize
	default:
		c.DChunk = c13pick(r, c13dchunks)
		if r.Intn(20) == 0 {
			c.CChunk = c13pick(r, c13cchunks) // ignored: DChunkSize takes precedence
		}
	}
	if r.Intn(5) >= 2 {
		c.CPage = c13pick(r, c13pages)
	}
	c.AtStart = r.Intn(2) == 0
	if c.AtStart {
		c.Temp = []string{"rawbuf", "rawfile", "rawfile-off", "lbuf", "lbuf", "lseek", "lseek", "lseek-off"}[r.Intn(8)]
	} else {
		c.Temp = "nil"
	}
	c.Sink = "log"
	if r.Intn(6) == 0 {
		c.Sink = "rawbuf"
	}
	c.ShortRd = r.Intn(3) == 0
	c.RSKind = []string{"readerat", "readseeker"}[r.Intn(2)]
	if r.Intn(60) == 0 && c.Invalid == "" {
		switch r.Intn(3) {
		case 0:
			c.CPage = []uint64{3, 6, 100, 1 << 50}[r.Intn(4)]
			c.Invalid = "cpagesize"
		case 1:
			if c.AtStart {
				c.Temp = "nil"
				c.Invalid = "atstart-nil-tempfile"
			} else {
				c.Temp = "lbuf"
				c.Invalid = "atend-with-tempfile"
			}
		case 2:
			c.Invalid = "" // keep valid
		}
	}
	// resources (shared dictionaries): zlib and zstd understand them
	if c.Codec != "lz4" && r.Intn(3) == 0 {
		c.NRes = 1 + r.Intn(2)
		if r.Intn(8) == 0 {
			c.NRes = 3
		}
	}
	// payload class
	switch p := r.Intn(100); {
	case p < 22:
		c.PClass = "zshort"
	case p < 32:
		c.PClass = "zlong"
	case p < 40:
		c.PClass = "zmid"
	case p < 50:
		c.PClass = "zedge"
	case p < 60:
		c.PClass = "random"
	case p < 70:
		c.PClass = "text"
	case p < 78:
		c.PClass = "phrase"
	case p < 94:
		c.PClass = "mixed"
	case p < 97:
		c.PClass = "empty"
	default:
		c.PClass = "one"
	}
	if c.NRes > 0 && r.Intn(10) < 7 {
		c.PClass = []string{"phrase", "phrase", "text", "mixed"}[r.Intn(4)]
	}
	// payload length
	n := 0
	switch p := r.Intn(100); {
	case small:
		n = r.Intn(1500)
	case p < 30:
		n = r.Intn(700)
	case p < 80:
		n = r.Intn(7000)
	case p < 96 || !thorough:
		n = r.Intn(30000)
	default:
		n = r.Intn(300000)
	}
	if c.NRes > 0 && n < 3000 && !small {
		n += 3000 // a dictionary is only tried for chunks that compress to >= 256 bytes
	}
	// partition
	fixed := []int{2, 3, 7, 64, 1000, 4096}[r.Intn(6)]
	switch p := r.Intn(100); {
	case p < 15:
		c.Part = "single"
	case p < 40:
		c.Part = "fixed"
	case p < 85:
		c.Part = "rand60"
	default:
		c.Part = "byte"
	}
	zeroLen := r.Intn(4) == 0

	// --- cost control (all by counts, no clocks) ---
	if c.Part == "byte" && n > 1500 {
		n = 1500
	}
	// chunk-count caps
	dc := c.DChunk
	if dc == 0 && c.CChunk == 0 {
		dc = 65536
	}
	if dc > 0 {
		capChunks := 700
		if r.Intn(30) == 0 {
			capChunks = 3000
		}
		if thorough && r.Intn(150) == 0 {
			capChunks = 70000 // three index levels
		}
		if c.NRes > 0 {
			capChunks = 400
		}
		if c.Codec == "zstd" {
			capChunks = 40
		}
		if small {
			capChunks = 24
		}
		if uint64(n) > uint64(capChunks)*dc {
			n = capChunks * int(dc)
			if small {
				// prefer raising the chunk size to cutting the payload to nothing
				n = r.Intn(1500)
				for _, d := range c13dchunks {
					if uint64(n) <= uint64(capChunks)*d {
						c.DChunk = d
						break
					}
				}
			}
		}
	}
	if small && c.CChunk > 0 && c.CChunk > 256 && c.Codec == "zlib" {
		c.CChunk = []uint64{64, 100, 256}[r.Intn(3)]
	}
	switch c.PClass {
	case "empty":
		n = 0
	case "one":
		n = 1
	}
	c.PLen = n

	// dictionaries
	var pools [][][]byte
	var dicts [][]byte
	npools := c.NRes
	if npools < 1 {
		npools = 1
	}
	for i := 0; i < npools; i++ {
		var pool [][]byte
		var d []byte
		for j := 0; j < 24; j++ {
			ph := make([]byte, 8+r.Intn(32))
			for k := range ph {
				ph[k] = byte(r.Intn(256))
			}
			pool = append(pool, ph)
			d = append(d, ph...)
		}
		pools = append(pools, pool)
		dicts = append(dicts, d)
	}
	if c.NRes == 0 {
		dicts = nil
	} else if c.PClass == "text" {
		dicts[0] = []byte(strings.Join(c13vocab, " "))
	} else if c.NRes == 3 {
		dicts[1] = []byte(strings.Join(c13vocab, " ")) // middle dictionary of little use
	}

	var payload []byte
	if c.PClass == "one" {
		payload = []byte{byte(r.Intn(3) * 127)} // 0x00, 0x7f or 0xfe
	} else {
		payload = c13payload(r, c.PClass, n, pools)
	}

	// Write-call budget: in CChunkSize mode every Write recompresses what is
	// pending, so bound (writes x pending bytes).
	maxWrites := 4000
	if small {
		maxWrites = 40
	}
	if c.CChunk > 0 && c.DChunk == 0 {
		pend := uint64(n)
		if lim := 64 * c.CChunk; lim < pend {
			pend = lim
		}
		budget := uint64(800000)
		if thorough {
			budget = 3000000
		}
		if pend > 0 {
			if mw := int(budget / pend); mw < maxWrites {
				maxWrites = mw
			}
		}
		if maxWrites < 1 {
			maxWrites = 1
		}
	}
	est := 1
	switch c.Part {
	case "fixed":
		est = n/fixed + 1
	case "rand60":
		est = n/30 + 1
	case "byte":
		est = n
	}
	if est > maxWrites {
		c.Part = "fixed"
		fixed = n/maxWrites + 1
	}
	pieces := c13partition(r, c.Part, n, fixed, zeroLen)
	c.NWrites = len(pieces)
	return &c13Case{Cfg: c, Payload: payload, Pieces: pieces, Dicts: dicts}
}

// ------------------------------------------------------- instrumentation --

type c13Rec struct {
	Off int64
	Len int
}

type c13Fault struct {
	Target  string `json:"target"` // w, tw, tr, ts
	K       int    `json:"k"`
	Kind    string `json:"kind"` // err, short, eof
	fired   bool
	firedOp int
}

type c13Env struct {
	op    int // index of the public call in progress
	fault *c13Fault
}

func (e *c13Env) hit(target string, call int) *c13Fault {
	if f := e.fault; f != nil && f.Target == target && f.K == call {
		return f
	}
	return nil
}

// c13Sink is the underlying io.Writer.
type c13Sink struct {
	env   *c13Env
	buf   []byte
	log   []c13Rec
	calls int
}

func (s *c13Sink) Write(p []byte) (int, error) {
	s.calls++
	if f := s.env.hit("w", s.calls); f != nil {
		f.fired, f.firedOp = true, s.env.op
		if f.Kind == "short" {
			n := len(p) / 2
			s.log = append(s.log, c13Rec{int64(len(s.buf)), n})
			s.buf = append(s.buf, p[:n]...)
			return n, io.ErrShortWrite
		}
		return 0, c13ErrInjected
	}
	s.log = append(s.log, c13Rec{int64(len(s.buf)), len(p)})
	s.buf = append(s.buf, p...)
	return len(p), nil
}

// c13TempState backs the logged temp files.
type c13TempState struct {
	env        *c13Env
	seekable   bool
	data       []byte
	pos        int64 // seekable: the single file position
	rpos       int64 // non-seekable: read position (writes append)
	start      int64 // position when handed to the Writer
	log        []c13Rec
	nW, nR, nS int
	shortRd    bool
	lcg        uint32
}

func (t *c13TempState) write(p []byte) (int, error) {
	t.nW++
	n := len(p)
	var err error
	if f := t.env.hit("tw", t.nW); f != nil {
		f.fired, f.firedOp = true, t.env.op
		if f.Kind == "short" {
			n, err = len(p)/2, io.ErrShortWrite
		} else {
			return 0, c13ErrInjected
		}
	}
	if t.seekable {
		if end := t.pos + int64(n); end > int64(len(t.data)) {
			t.data = append(t.data, make([]byte, end-int64(len(t.data)))...)
		}
		t.log = append(t.log, c13Rec{t.pos, n})
		copy(t.data[t.pos:], p[:n])
		t.pos += int64(n)
	} else {
		t.log = append(t.log, c13Rec{int64(len(t.data)), n})
		t.data = append(t.data, p[:n]...)
	}
	return n, err
}

func (t *c13TempState) read(p []byte) (int, error) {
	t.nR++
	pos := &t.rpos
	if t.seekable {
		pos = &t.pos
	}
	rem := int64(len(t.data)) - *pos
	if f := t.env.hit("tr", t.nR); f != nil {
		if f.Kind == "eof" {
			if rem > 0 && len(p) > 0 {
				f.fired, f.firedOp = true, t.env.op
			}
			return 0, io.EOF
		}
		f.fired, f.firedOp = true, t.env.op
		return 0, c13ErrInjected
	}
	if rem <= 0 {
		return 0, io.EOF
	}
	if len(p) == 0 {
		return 0, nil
	}
	n := len(p)
	if t.shortRd {
		t.lcg = t.lcg*1664525 + 1013904223
		n = 1 + int(t.lcg>>8)%n
	}
	if int64(n) > rem {
		n = int(rem)
	}
	copy(p, t.data[*pos:*pos+int64(n)])
	*pos += int64(n)
	return n, nil
}

func (t *c13TempState) seek(off int64, whence int) (int64, error) {
	t.nS++
	if f := t.env.hit("ts", t.nS); f != nil {
		f.fired, f.firedOp = true, t.env.op
		return 0, c13ErrInjected
	}
	switch whence {
	case io.SeekStart:
	case io.SeekCurrent:
		off += t.pos
	case io.SeekEnd:
		off += int64(len(t.data))
	default:
		return 0, errors.New("c13: bad whence")
	}
	if off < 0 {
		return 0, errors.New("c13: negative position")
	}
	t.pos = off
	return off, nil
}

// c13TempRW has separate read and write positions, like a bytes.Buffer.
type c13TempRW struct{ t *c13TempState }

func (x c13TempRW) Read(p []byte) (int, error)  { return x.t.read(p) }
func (x c13TempRW) Write(p []byte) (int, error) { return x.t.write(p) }

// c13TempRWS is seekable, like an *os.File.
type c13TempRWS struct{ t *c13TempState }

func (x c13TempRWS) Read(p []byte) (int, error)                { return x.t.read(p) }
func (x c13TempRWS) Write(p []byte) (int, error)               { return x.t.write(p) }
func (x c13TempRWS) Seek(off int64, whence int) (int64, error) { return x.t.seek(off, whence) }

// c13RS hides bytes.Reader's ReadAt, leaving only Read and Seek.
type c13RS struct{ r *bytes.Reader }

func (x c13RS) Read(p []byte) (int, error)         { return x.r.Read(p) }
func (x c13RS) Seek(o int64, w int) (int64, error) { return x.r.Seek(o, w) }

// c13Spy is a transparent rac.CodecWriter wrapper that counts calls; it is the
// only way to see whether Cut really happened and which resources were wrapped.
type c13SpyStats struct {
	compress, cut, cutOK, resPicked int
	wrapped                         [][]byte
}

type c13Spy struct {
	inner rac.CodecWriter
	st    *c13SpyStats
}

func (s *c13Spy) Close() error           { return s.inner.Close() }
func (s *c13Spy) Clone() rac.CodecWriter { return &c13Spy{s.inner.Clone(), s.st} }
func (s *c13Spy) CanCut() bool           { return s.inner.CanCut() }
func (s *c13Spy) Compress(p, q []byte, res [][]byte) (rac.Codec, []byte, int, int, error) {
	s.st.compress++
	c, b, i2, i3, err := s.inner.Compress(p, q, res)
	if err == nil && i2 >= 0 && i2 < len(res) {
		s.st.resPicked++
	}
	return c, b, i2, i3, err
}
func (s *c13Spy) Cut(c rac.Codec, enc []byte, max int) (int, int, error) {
	s.st.cut++
	e, d, err := s.inner.Cut(c, enc, max)
	if err == nil && d > 0 {
		s.st.cutOK++
	}
	return e, d, err
}
func (s *c13Spy) WrapResource(raw []byte) ([]byte, error) {
	b, err := s.inner.WrapResource(raw)
	if err == nil && len(b) > 0 {
		s.st.wrapped = append(s.st.wrapped, append([]byte(nil), b...))
	}
	return b, err
}

func c13codecWriter(name string) rac.CodecWriter {
	switch name {
	case "zlib":
		return &raczlib.CodecWriter{}
	case "lz4":
		return &raclz4.CodecWriter{}
	case "zstd":
		return &raczstd.CodecWriter{}
	}
	panic("c13: codec " + name)
}

func c13codecReader(name string) rac.CodecReader {
	switch name {
	case "zlib":
		return &raczlib.CodecReader{}
	case "lz4":
		return &raclz4.CodecReader{}
	case "zstd":
		return &raczstd.CodecReader{}
	}
	panic("c13: codec " + name)
}

// ------------------------------------------------------------------- run --

type c13Out struct {
	WriteErrs           []error
	WriteNs             []int
	CloseErr, Close2Err error
	File                []byte
	SinkLog             []c13Rec // nil when the sink was a raw bytes.Buffer
	TempLog             []c13Rec // nil when the temp file was raw
	TempStart           int64
	TempData            []byte
	NW, NTW, NTR, NTS   int
	Spy                 c13SpyStats
	PanicSig            string
	PanicOp             int
	HarnessErr          string
}

// c13run drives one Writer through the whole history.
func c13run(cs *c13Case, fault *c13Fault) (out *c13Out) {
	cfg := &cs.Cfg
	out = &c13Out{PanicOp: -1}
	env := &c13Env{fault: fault}
	var sink *c13Sink
	var rawSink *bytes.Buffer
	var wr io.Writer
	if cfg.Sink == "rawbuf" {
		rawSink = &bytes.Buffer{}
		wr = rawSink
	} else {
		sink = &c13Sink{env: env}
		wr = sink
	}
	var temp io.ReadWriter
	var ts *c13TempState
	var tf *os.File
	switch cfg.Temp {
	case "nil":
	case "rawbuf":
		temp = &bytes.Buffer{}
	case "rawfile", "rawfile-off":
		f, err := os.CreateTemp(".", "c13-*.tmp")
		if err != nil {
			out.HarnessErr = "CreateTemp: " + err.Error()
			return out
		}
		tf = f
		defer func() {
			tf.Close()
			os.Remove(tf.Name())
		}()
		if cfg.Temp == "rawfile-off" {
			if _, err := f.Write(bytes.Repeat([]byte("junk"), 1+len(cs.Payload)%700)); err != nil {
				out.HarnessErr = "temp prefix: " + err.Error()
				return out
			}
		}
		temp = f
	case "lbuf":
		ts = &c13TempState{env: env, shortRd: cfg.ShortRd, lcg: uint32(len(cs.Payload))}
		temp = c13TempRW{ts}
	case "lseek", "lseek-off":
		ts = &c13TempState{env: env, seekable: true, shortRd: cfg.ShortRd, lcg: uint32(len(cs.Payload))}
		if cfg.Temp == "lseek-off" {
			ts.data = bytes.Repeat([]byte("junk"), 1+len(cs.Payload)%700)
			ts.pos = int64(len(ts.data))
		}
		ts.start = ts.pos
		temp = c13TempRWS{ts}
	default:
		panic("c13: temp kind " + cfg.Temp)
	}
	spy := &c13Spy{inner: c13codecWriter(cfg.Codec), st: &out.Spy}
	w := &rac.Writer{
		Writer:        wr,
		CodecWriter:   spy,
		TempFile:      temp,
		CPageSize:     cfg.CPage,
		CChunkSize:    cfg.CChunk,
		DChunkSize:    cfg.DChunk,
		ResourcesData: cs.Dicts,
	}
	if cfg.AtStart {
		w.IndexLocation = rac.IndexLocationAtStart
	}
	finish := func() {
		if sink != nil {
			out.File, out.SinkLog, out.NW = sink.buf, sink.log, sink.calls
		} else {
			out.File = rawSink.Bytes()
		}
		if ts != nil {
			out.TempLog, out.TempStart, out.TempData = ts.log, ts.start, ts.data
			out.NTW, out.NTR, out.NTS = ts.nW, ts.nR, ts.nS
		}
	}
	defer finish()
	call := func(f func()) (ok bool) {
		defer func() {
			if rec := recover(); rec != nil {
				out.PanicSig = vk.PanicSig(rec)
				out.PanicOp = env.op
				ok = false
			}
		}()
		f()
		return true
	}
	p := cs.Payload
	for i, k := range cs.Pieces {
		env.op = i
		var n int
		var err error
		piece := p[:k:k]
		if !call(func() { n, err = w.Write(piece) }) {
			// A panic is a verdict by itself; still release the codec's C memory.
			call(func() { w.Close() })
			return out
		}
		out.WriteNs = append(out.WriteNs, n)
		out.WriteErrs = append(out.WriteErrs, err)
		p = p[k:]
	}
	env.op = len(cs.Pieces)
	if !call(func() { out.CloseErr = w.Close() }) {
		return out
	}
	env.op = len(cs.Pieces) + 1
	call(func() { out.Close2Err = w.Close() })
	return out
}

// ----------------------------------------------------------------- check --

type c13Info struct {
	elided, cut, res bool
	depth            int
	chunks           int
}

func c13depthClass(d int) string {
	switch {
	case d <= 1:
		return "d1"
	case d == 2:
		return "d2"
	}
	return "d3+"
}

func c13errClass(err error) string {
	s := err.Error()
	out := make([]byte, 0, len(s))
	for i := 0; i < len(s) && len(out) < 60; i++ {
		c := s[i]
		if c >= '0' && c <= '9' {
			c = 'N'
		}
		if c == ' ' {
			c = '-'
		}
		out = append(out, c)
	}
	return string(out)
}

func c13allZero(b []byte) bool {
	for _, c := range b {
		if c != 0 {
			return false
		}
	}
	return true
}

// c13diffKind names how got differs from want (they are known to differ).
func c13diffKind(got, want []byte) (kind string, first int) {
	for first < len(got) && first < len(want) && got[first] == want[first] {
		first++
	}
	if len(got) != len(want) {
		return "wrong-length", first
	}
	nz := func(b []byte) []byte {
		o := make([]byte, 0, len(b))
		for _, c := range b {
			if c != 0 {
				o = append(o, c)
			}
		}
		return o
	}
	if bytes.Equal(nz(got), nz(want)) {
		// only the placement of zero bytes differs
		if got[first] == 0 {
			return "zero-run", first // zeroes delivered too early
		}
		return "zero-run-late", first
	}
	return "no-zero-run", first
}

func c13window(b []byte, at int) string {
	lo, hi := at-24, at+24
	if lo < 0 {
		lo = 0
	}
	if hi > len(b) {
		hi = len(b)
	}
	if lo > hi {
		lo = hi
	}
	return hex.EncodeToString(b[lo:hi])
}

type c13Checker struct {
	rc    *vk.Rec
	phase string
	idx   int64
	cs    *c13Case
}

func (ck *c13Checker) extra(more map[string]interface{}) map[string]interface{} {
	m := map[string]interface{}{"cfg": ck.cs.Cfg}
	if len(ck.cs.Payload) <= 3000 {
		m["payload_hex"] = hex.EncodeToString(ck.cs.Payload)
	} else {
		m["payload_note"] = "regenerate from (seed, shard, phase, idx); too long to inline"
	}
	if len(ck.cs.Pieces) <= 400 {
		m["pieces"] = ck.cs.Pieces
	}
	for i, d := range ck.cs.Dicts {
		if len(d) <= 1200 {
			m[fmt.Sprintf("dict%d_hex", i)] = hex.EncodeToString(d)
		}
	}
	for k, v := range more {
		m[k] = v
	}
	return m
}

func (ck *c13Checker) viol(sig, what string, more map[string]interface{}) {
	ck.rc.ViolateCase(sig, what+fmt.Sprintf(" [cfg %+v]", ck.cs.Cfg), ck.phase, ck.idx, ck.extra(more))
}

func c13pagesOf(x, p uint64) uint64 { return (x + p - 1) / p }

// pageCheck checks the CPageSize promise using the write log. It needs the log
// of the stream that received the chunks (the sink for AtEnd, the temp file
// for AtStart); without it the check is skipped and counted.
func (ck *c13Checker) pageCheck(out *c13Out, res *racspecResult) bool {
	rc, cfg := ck.rc, &ck.cs.Cfg
	P := cfg.CPage
	var log []c13Rec
	var base int64
	f := out.File
	if cfg.AtStart {
		if out.TempLog == nil {
			rc.Count("page_skipped_raw", 1)
			return true
		}
		td := out.TempData[out.TempStart:]
		base = int64(len(f)) - int64(len(td))
		if base < 0 || !bytes.Equal(f[base:], td) {
			rc.Count("page_unmappable", 1)
			return true
		}
		for _, r := range out.TempLog {
			log = append(log, c13Rec{r.Off - out.TempStart + base, r.Len})
		}
		// between the index and the data only padding may appear
		covered := make([]bool, base)
		for _, n := range res.Nodes {
			for i := n.COff; i < n.COff+n.size() && i < base; i++ {
				covered[i] = true
			}
		}
		for i := int64(0); i < base; i++ {
			rc.Count("page_gap_bytes", 1)
			if !covered[i] && f[i] != 0 {
				ck.viol("rac-page:padding-nonzero:index-gap", fmt.Sprintf("byte %d between the index and the data is 0x%02x, not padding zero", i, f[i]), nil)
				return false
			}
		}
	} else {
		if out.SinkLog == nil {
			rc.Count("page_skipped_raw", 1)
			return true
		}
		log = out.SinkLog
	}
	leafAt := map[int64]*racspecLeaf{}
	for i := range res.Leaves {
		leafAt[res.Leaves[i].CPrimary[0]] = &res.Leaves[i]
	}
	nodeAt := map[int64]bool{}
	for _, n := range res.Nodes {
		nodeAt[n.COff] = true
	}
	mapped := 0
	for _, r := range log {
		if r.Len == 0 {
			continue
		}
		b := f[r.Off : r.Off+int64(r.Len)]
		if !cfg.AtStart && (nodeAt[r.Off] || (r.Off == 0 && r.Len == 4)) {
			continue
		}
		lf := leafAt[r.Off]
		isRes := false
		if lf == nil {
			for _, wrp := range out.Spy.wrapped {
				if bytes.Equal(wrp, b) {
					isRes = true
					break
				}
			}
		}
		if lf == nil && !isRes {
			rc.Count("page_padding_writes", 1)
			if !c13allZero(b) {
				ck.viol("rac-page:padding-nonzero", fmt.Sprintf("padding write at COffset %d (%d bytes) is not all zeroes: %s", r.Off, r.Len, vk.Trunc(b, 16)), nil)
				return false
			}
			continue
		}
		if lf != nil {
			mapped++
			rc.Count("spec_crange-covers-chunk", 1)
			if int64(r.Len) > lf.CPrimary[1]-lf.CPrimary[0] {
				ck.viol("rac-spec:crange-covers-chunk", fmt.Sprintf("the %d byte chunk written at COffset %d exceeds its Primary CRange [%d .. %d)", r.Len, r.Off, lf.CPrimary[0], lf.CPrimary[1]), nil)
				return false
			}
		}
		if P > 0 {
			rc.Count("page_chunks_checked", 1)
			off := uint64(r.Off) % P
			if c13pagesOf(off+uint64(r.Len), P) != c13pagesOf(uint64(r.Len), P) {
				ck.viol("rac-page:straddle", fmt.Sprintf("the %d byte chunk at COffset %d occupies %d pages of %d bytes, the minimum is %d",
					r.Len, r.Off, c13pagesOf(off+uint64(r.Len), P), P, c13pagesOf(uint64(r.Len), P)), nil)
				return false
			}
			if off+uint64(r.Len) == P || uint64(r.Len)%P == 0 {
				rc.Count("page_chunk_ends_on_boundary", 1)
			}
		}
	}
	if mapped < len(res.Leaves) {
		rc.Count("page_leaf_unmapped", int64(len(res.Leaves)-mapped))
	}
	return true
}

// elided reports whether some chunk's codec output is shorter than its DRange
// (the writer dropped zeroes and relies on the implicit NUL fill).
func (ck *c13Checker) elided(f []byte, res *racspecResult) bool {
	pl := ck.cs.Payload
	for _, lf := range res.Leaves {
		if lf.CodecByte == 0x01 {
			var dict []byte
			if s := lf.CSecondary; s[1]-s[0] >= 8 {
				n := int64(f[s[0]]) | int64(f[s[0]+1])<<8 | int64(f[s[0]+2])<<16 | int64(f[s[0]+3])<<24
				if s[0]+4+n <= s[1] {
					dict = f[s[0]+4 : s[0]+4+n]
				}
			}
			zr, err := zlib.NewReaderDict(bytes.NewReader(f[lf.CPrimary[0]:lf.CPrimary[1]]), dict)
			if err == nil {
				n, err := io.Copy(io.Discard, zr)
				if err == nil {
					if n < lf.DRange[1]-lf.DRange[0] {
						return true
					}
					continue
				}
			}
		}
		// other codecs: the chunk's DRange ends in a zero byte of the payload,
		// which the DChunkSize path always strips before compressing
		if e := lf.DRange[1]; e >= 1 && e <= int64(len(pl)) && pl[e-1] == 0 {
			return true
		}
	}
	return false
}

// checkFile applies the Close()==nil obligations. It returns the class info
// and whether the case is clean.
func (ck *c13Checker) checkFile(out *c13Out) (info c13Info, ok bool) {
	rc, cfg, pl := ck.rc, &ck.cs.Cfg, ck.cs.Payload
	f := out.File
	res, v := racspecWalk(f)
	for k, n := range res.Checks {
		rc.Count("spec_"+k, n)
	}
	loc := "atend"
	if cfg.AtStart {
		loc = "atstart"
	}
	if v != nil {
		fh := map[string]interface{}{}
		if len(f) <= 4096 {
			fh["file_hex"] = hex.EncodeToString(f)
		}
		ck.viol("rac-spec:"+v.Clause+":"+loc+":"+c13depthClass(res.MaxDepth), "the written file violates the RAC spec: "+v.Error(), fh)
		return info, false
	}
	rc.Count("files_spec_valid", 1)
	info.depth, info.chunks = res.MaxDepth, len(res.Leaves)
	rc.Max("max_chunks", int64(len(res.Leaves)))
	rc.Max("max_depth", int64(res.MaxDepth))
	if res.RootAtStart != cfg.AtStart && len(pl) > 0 {
		// not a spec matter, only a remark: IndexLocation asked for the other end
		rc.Count("root_location_differs_from_request", 1)
	}
	rc.Count("spec_dfilesize", 1)
	if res.DFileSize != int64(len(pl)) {
		ck.viol("rac-roundtrip:dfilesize:"+cfg.mode(), fmt.Sprintf("the root's DPtrMax says DFileSize=%d but %d bytes were written", res.DFileSize, len(pl)), nil)
		return info, false
	}
	for _, lf := range res.Leaves {
		if lf.CSecondary[0] != lf.CSecondary[1] {
			info.res = true
			break
		}
	}
	info.cut = out.Spy.cutOK > 0
	if !ck.pageCheck(out, res) {
		return info, false
	}
	info.elided = ck.elided(f, res)

	// Reader.
	var rs io.ReadSeeker = bytes.NewReader(f)
	if cfg.RSKind == "readseeker" {
		rs = c13RS{bytes.NewReader(f)}
	}
	rd := &rac.Reader{
		ReadSeeker:     rs,
		CompressedSize: int64(len(f)),
		CodecReaders:   []rac.CodecReader{c13codecReader(cfg.Codec)},
	}
	writes := "single-write"
	nonEmpty := 0
	for _, k := range ck.cs.Pieces {
		if k > 0 {
			nonEmpty++
		}
	}
	if nonEmpty > 1 {
		writes = "multi-write"
	}
	clean := true
	func() {
		defer func() {
			if rec := recover(); rec != nil {
				clean = false
				ck.viol("rac-roundtrip:reader-"+vk.PanicSig(rec), fmt.Sprintf("rac.Reader panicked on the written file: %v", rec), nil)
			}
		}()
		defer rd.Close()
		got, err := io.ReadAll(rd)
		rc.Count("reads_full", 1)
		if err != nil {
			clean = false
			ck.viol("rac-roundtrip:reader-error:"+cfg.mode()+":"+c13errClass(err), fmt.Sprintf("rac.Reader failed after %d of %d bytes: %v", len(got), len(pl), err), nil)
			return
		}
		if !bytes.Equal(got, pl) {
			clean = false
			kind, first := c13diffKind(got, pl)
			more := map[string]interface{}{"first_diff": first, "got_window_hex": c13window(got, first), "want_window_hex": c13window(pl, first)}
			if kind == "wrong-length" {
				ck.viol("rac-roundtrip:wrong-length:"+cfg.mode()+"+"+writes, fmt.Sprintf("rac.Reader returned %d bytes, %d were written (first difference at %d)", len(got), len(pl), first), more)
			} else {
				ck.viol("rac-roundtrip:wrong-bytes:"+cfg.mode()+"+"+kind+"+"+writes, fmt.Sprintf("rac.Reader returned %d bytes of the right length but different from what was written; first difference at %d (%s)", len(got), first, kind), more)
			}
			return
		}
		// Seek + Read probes.
		r := ck.rc.RNG(ck.phase+"/probe", ck.idx)
		for i := 0; i < 4 && len(pl) > 0; i++ {
			off := r.Intn(len(pl) + 1)
			n := r.Intn(300)
			if r.Intn(4) == 0 {
				n = r.Intn(len(pl) + 1)
			}
			if off+n > len(pl) {
				n = len(pl) - off
			}
			rc.Count("reads_probe", 1)
			if _, err := rd.Seek(int64(off), io.SeekStart); err != nil {
				clean = false
				ck.viol("rac-roundtrip:seek-error:"+cfg.mode()+":"+c13errClass(err), fmt.Sprintf("Seek(%d) failed: %v", off, err), nil)
				return
			}
			buf := make([]byte, n)
			if _, err := io.ReadFull(rd, buf); err != nil {
				clean = false
				ck.viol("rac-roundtrip:probe-error:"+cfg.mode()+":"+c13errClass(err), fmt.Sprintf("reading [%d .. %d) after Seek failed: %v", off, off+n, err), nil)
				return
			}
			if !bytes.Equal(buf, pl[off:off+n]) {
				clean = false
				ck.viol("rac-roundtrip:probe-mismatch:"+cfg.mode(), fmt.Sprintf("Seek(%d)+Read(%d) returned bytes that differ from the written ones", off, n), nil)
				return
			}
		}
	}()
	return info, clean
}

// c13faultFree runs the case without faults and checks it. It returns the
// class prefix ("" when nothing class-worthy was observed).
func (ck *c13Checker) faultFree() (cls string, out *c13Out) {
	rc, cfg := ck.rc, &ck.cs.Cfg
	out = c13run(ck.cs, nil)
	rc.Eval(1)
	rc.Count("bytes_in", int64(len(ck.cs.Payload)))
	rc.Count("write_calls", int64(len(ck.cs.Pieces)))
	if out.HarnessErr != "" {
		rc.Inconclusive("c13 harness: " + out.HarnessErr)
		return "", out
	}
	if out.PanicSig != "" {
		ck.viol("rac-writer:"+out.PanicSig, fmt.Sprintf("rac.Writer panicked in call #%d", out.PanicOp), nil)
		return "", out
	}
	var werr error
	for _, e := range out.WriteErrs {
		if e != nil {
			werr = e
			break
		}
	}
	if werr != nil || out.CloseErr != nil {
		e := werr
		if e == nil {
			e = out.CloseErr
		}
		if cfg.Invalid != "" {
			rc.Count("invalid_config_rejected:"+cfg.Invalid, 1)
		} else {
			rc.Count("writer_error:"+c13errClass(e), 1)
		}
		if out.CloseErr == nil {
			// A Write failed without any injected fault and Close still said nil:
			// outside what the property speaks about; only counted.
			rc.Count("close_nil_after_write_error", 1)
		}
		return "", out
	}
	if cfg.Invalid != "" {
		rc.Count("invalid_config_accepted:"+cfg.Invalid, 1)
	}
	for i, n := range out.WriteNs {
		if n != ck.cs.Pieces[i] {
			rc.Count("write_n_mismatch", 1)
		}
	}
	info, ok := ck.checkFile(out)
	if !ok {
		return "", out
	}
	rc.Count("roundtrips_ok", 1)
	rc.Count("bytes_out", int64(len(ck.cs.Payload)))
	if info.elided {
		rc.Count("files_with_elided_zeroes", 1)
	}
	if info.cut {
		rc.Count("files_with_cut", 1)
	}
	if info.res {
		rc.Count("files_with_resources", 1)
	}
	cls = fmt.Sprintf("%s|%s|elide=%v|cut=%v|%s|%s|res=%v|%s", cfg.Codec, cfg.mode(), info.elided, info.cut,
		c13depthClass(info.depth), cfg.pageClass(), info.res, cfg.locClass())
	rc.Class(cls + "|nofault")
	if rc.NSamples() < 4 && info.chunks > 1 {
		rc.Sample(map[string]interface{}{"cfg": *cfg, "payload": vk.Trunc(ck.cs.Payload, 24), "file_bytes": len(out.File),
			"chunks": info.chunks, "index_depth": info.depth, "elided": info.elided, "cut": info.cut, "resources": info.res,
			"underlying_writes": out.NW, "compress_calls": out.Spy.compress, "cut_calls": out.Spy.cut})
	}
	return cls, out
}

// sweep re-runs the case with the k-th underlying call failing, for every k.
func (ck *c13Checker) sweep(cls string, maxRuns int) {
	rc := ck.rc
	// Faults need the instrumented sink and temp file.
	cs := *ck.cs
	cs.Cfg.Sink = "log"
	switch cs.Cfg.Temp {
	case "rawbuf":
		cs.Cfg.Temp = "lbuf"
	case "rawfile":
		cs.Cfg.Temp = "lseek"
	case "rawfile-off":
		cs.Cfg.Temp = "lseek-off"
	}
	sub := &c13Checker{rc: rc, phase: ck.phase, idx: ck.idx, cs: &cs}
	base := c13run(&cs, nil)
	if base.HarnessErr != "" || base.PanicSig != "" {
		return
	}
	type tgt struct {
		target, kind string
		n            int
	}
	tgts := []tgt{{"w", "err", base.NW}, {"w", "short", base.NW}}
	if cs.Cfg.Temp != "nil" {
		tgts = append(tgts, tgt{"tw", "err", base.NTW}, tgt{"tw", "short", base.NTW},
			tgt{"tr", "err", base.NTR}, tgt{"tr", "eof", base.NTR}, tgt{"ts", "err", base.NTS})
	}
	// The caller's estimate of the call count can be off (a raw temp file hides
	// its calls); the exact number of re-runs is known here. Bounded by count.
	total := 0
	for _, t := range tgts {
		total += t.n
	}
	if total > maxRuns {
		rc.Count("fault_sweep_skipped_too_many_calls", 1)
		return
	}
	nops := len(cs.Pieces) + 2
	opName := func(i int) string {
		switch {
		case i < len(cs.Pieces):
			return "write"
		case i == len(cs.Pieces):
			return "close"
		}
		return "close2"
	}
	for _, t := range tgts {
		firedWrite, firedClose := false, false
		for k := 1; k <= t.n; k++ {
			f := &c13Fault{Target: t.target, K: k, Kind: t.kind}
			out := c13run(&cs, f)
			rc.Count("fault_runs", 1)
			fk := t.target + "-" + t.kind
			more := map[string]interface{}{"fault": f, "fired_in_call": f.firedOp, "calls_fault_free": t.n}
			if out.PanicSig != "" {
				sub.viol("rac-fault:"+fk+":"+out.PanicSig, fmt.Sprintf("rac.Writer panicked in call #%d with the %s call #%d failing (%s)", out.PanicOp, t.target, k, t.kind), more)
				continue
			}
			if !f.fired {
				rc.Count("fault_not_fired", 1)
				continue
			}
			rc.Count("fault_fired:"+fk, 1)
			if f.firedOp < len(cs.Pieces) {
				firedWrite = true
			} else {
				firedClose = true
			}
			errs := append(append([]error{}, out.WriteErrs...), out.CloseErr, out.Close2Err)
			if len(errs) != nops {
				rc.Inconclusive("c13 harness: history length mismatch")
				continue
			}
			if errs[f.firedOp] != nil {
				rc.Count("fault_reported_by_same_call", 1)
			} else {
				rc.Count("fault_not_reported_by_same_call", 1)
			}
			bad := false
			for j := f.firedOp + 1; j < nops && !bad; j++ {
				rc.Count("sticky_checks", 1)
				if errs[j] == nil {
					bad = true
					sub.viol("rac-sticky:later-call-nil:"+fk+":"+opName(f.firedOp)+"->"+opName(j),
						fmt.Sprintf("the %s call #%d failed (%s) during public call #%d (%s) but the later call #%d (%s) returned nil",
							t.target, k, t.kind, f.firedOp, opName(f.firedOp), j, opName(j)), more)
				}
			}
			if !bad && out.CloseErr == nil {
				sub.viol("rac-sticky:close-nil:"+fk+":"+opName(f.firedOp),
					fmt.Sprintf("the %s call #%d failed (%s) during public call #%d (%s) and Close returned nil", t.target, k, t.kind, f.firedOp, opName(f.firedOp)), more)
			}
		}
		if firedWrite {
			rc.Class(cls + "|" + t.target + "-" + t.kind + "@write")
		}
		if firedClose {
			rc.Class(cls + "|" + t.target + "-" + t.kind + "@close")
		}
	}
	rc.Count("fault_sweeps", 1)
}

// ------------------------------------------------------------ self test --

const c13specMore = "\x72\xC3\x63\x00\x78\x9C\x01\x06\x00\xF9\xFF\x4D\x6F\x72\x65\x21" +
	"\x0A\x07\x42\x01\xBF\x72\xC3\x63\x01\x65\xA9\x00\xFF\x06\x00\x00" +
	"\x00\x00\x00\x00\x01\x04\x00\x00\x00\x00\x00\x01\xFF\x35\x00\x00" +
	"\x00\x00\x00\x01\x01"

const c13specSheep = "\x72\xC3\x63\x04\x37\x39\x00\xFF\x00\x00\x00\x00\x00\x00\x00\xFF" +
	"\x0B\x00\x00\x00\x00\x00\x00\xFF\x16\x00\x00\x00\x00\x00\x00\xFF" +
	"\x23\x00\x00\x00\x00\x00\x00\x01\x50\x00\x00\x00\x00\x00\x01\xFF" +
	"\x60\x00\x00\x00\x00\x00\x01\x00\x75\x00\x00\x00\x00\x00\x01\x00" +
	"\x8A\x00\x00\x00\x00\x00\x01\x00\xA1\x00\x00\x00\x00\x00\x01\x04" +
	"\x08\x00\x00\x00\x20\x73\x68\x65\x65\x70\x2E\x0A\xD0\x8D\x7A\x47" +
	"\x78\xF9\x0B\xE0\x02\x6E\xF2\xCF\x4B\x85\x31\x01\x01\x00\x00\xFF" +
	"\xFF\x17\x21\x03\x90\x78\xF9\x0B\xE0\x02\x6E\x0A\x29\xCF\x87\x31" +
	"\x01\x01\x00\x00\xFF\xFF\x18\x0C\x03\xA8\x78\xF9\x0B\xE0\x02\x6E" +
	"\x0A\xC9\x28\x4A\x4D\x85\x71\x00\x01\x00\x00\xFF\xFF\x21\x6E\x04" +
	"\x66"

const c13specConcatRoot = "\x72\xc3\x63\x03\x83\x16\x00\xff\x00\x00\x00\x00\x00\x00\x00\xfe" +
	"\x23\x00\x00\x00\x00\x00\x00\xfe\x29\x00\x00\x00\x00\x00\x00\x01" +
	"\xa1\x00\x00\x00\x00\x00\x00\xff\x00\x00\x00\x00\x00\x00\x04\x01" +
	"\xb6\x00\x00\x00\x00\x00\x04\x00\x16\x01\x00\x00\x00\x00\x01\x03"

// c13selfTest runs the walker on the three example files of the spec and on
// single-byte corruptions of their index nodes (canary for the harness).
func c13selfTest(rc *vk.Rec) bool {
	type ex struct {
		name   string
		f      string
		dsize  int64
		leaves int
		depth  int
	}
	exs := []ex{
		{"more", c13specMore, 6, 1, 1},
		{"sheep", c13specSheep, 35, 3, 1},
		{"concat", c13specSheep + c13specMore + c13specConcatRoot, 41, 4, 2},
	}
	for _, e := range exs {
		res, v := racspecWalk([]byte(e.f))
		if v != nil || res.DFileSize != e.dsize || len(res.Leaves) != e.leaves || res.MaxDepth != e.depth {
			rc.Inconclusive(fmt.Sprintf("c13 self-test: spec example %q: viol=%v dsize=%d leaves=%d depth=%d", e.name, v, res.DFileSize, len(res.Leaves), res.MaxDepth))
			return false
		}
	}
	// Every single-bit flip inside the root node of "sheep" (bytes 0..0x4F) and
	// of "more" (its last 32 bytes) must be rejected: the checksum covers all
	// bytes but Magic/Arity/Checksum, which have their own clauses.
	for _, c := range []struct {
		f      string
		lo, hi int
	}{{c13specSheep, 0, 0x50}, {c13specMore, len(c13specMore) - 32, len(c13specMore)}} {
		for i := c.lo; i < c.hi; i++ {
			for bit := uint(0); bit < 8; bit++ {
				b := []byte(c.f)
				b[i] ^= 1 << bit
				if _, v := racspecWalk(b); v == nil {
					rc.Inconclusive(fmt.Sprintf("c13 self-test: flipping bit %d of byte %d was not noticed", bit, i))
					return false
				}
				rc.Count("selftest_corruptions_rejected", 1)
			}
		}
	}
	// Long Codec form: a file made by rac.ChunkWriter with a Long Codec must be
	// accepted with the 7 codec bytes recovered; without its 0xFD element (and
	// with the checksum recomputed) it must be rejected under "codec-long".
	{
		buf := &bytes.Buffer{}
		cw := &rac.ChunkWriter{Writer: buf}
		const long = rac.Codec(0x8000_0000_326F_646D) // "mdo2\x00\x00\x00"
		err := cw.AddChunk(5, long, []byte("abcde"), 0, 0)
		if err == nil {
			err = cw.AddChunk(7, long, []byte("fghijkl"), 0, 0)
		}
		if err == nil {
			err = cw.Close()
		}
		f := buf.Bytes()
		res, v := racspecWalk(f)
		if err != nil || v != nil || len(res.Leaves) != 2 || res.Leaves[0].CodecByte&0x80 == 0 || string(res.Leaves[0].Long[:]) != "mdo2\x00\x00\x00" {
			rc.Inconclusive(fmt.Sprintf("c13 self-test: long codec file: err=%v viol=%v", err, v))
			return false
		}
		root := res.Nodes[0]
		g := append([]byte(nil), f...)
		node := g[root.COff : root.COff+root.size()]
		for i := 0; i < root.Arity; i++ {
			if node[8*i+7] == 0xFD {
				node[8*i+7] = 0xFF
			}
		}
		crc := crc32.ChecksumIEEE(node[6:])
		crc ^= crc >> 16
		node[4], node[5] = byte(crc), byte(crc>>8)
		if _, v := racspecWalk(g); v == nil || v.Clause != "codec-long" {
			rc.Inconclusive(fmt.Sprintf("c13 self-test: long codec without its 0xFD element: viol=%v", v))
			return false
		}
		rc.Count("selftest_long_codec", 1)
	}
	return true
}

// ------------------------------------------------------------------ main --

// c13sweepOK bounds the cost of a fault sweep by the number of underlying calls
// of the fault-free run (every re-run pays the codec's set-up cost again).
func c13sweepOK(cfg *c13Cfg, out *c13Out, npieces int, thorough bool, phase string, idx int64) bool {
	if out.SinkLog == nil && phase == "rt" {
		return false // raw sink: the call count is unknown
	}
	calls := out.NW + out.NTW + out.NTR + out.NTS
	if cfg.Temp == "rawbuf" || cfg.Temp == "rawfile" || cfg.Temp == "rawfile-off" {
		// a raw temp file hides its calls: every chunk and every padding is one
		calls += 2*out.Spy.compress + 8
	}
	limit := 24
	if thorough {
		limit = 60
	}
	if phase == "flt" {
		limit = 120
	}
	if cfg.Codec == "zstd" {
		// every re-run costs seconds: only tiny histories, only in the
		// thorough tier's fault phase
		limit = 0
		if thorough && phase == "flt" && out.SinkLog != nil && (cfg.Temp == "nil" || out.TempLog != nil) {
			limit = 8 // the call count is exact only with the instrumented sink and temp file
		}
	}
	if calls > limit || npieces > 64 {
		return false
	}
	if thorough {
		return phase == "flt" || idx%2 == 0
	}
	return phase == "flt" || idx%8 == 0
}

// C13 runs the monitor.
func C13(rc *vk.Rec) {
	if !c13selfTest(rc) {
		return
	}
	if os.Getenv("C13_ONLY") == "deep3" {
		// The quick tier's three-level-index case costs as much as a whole
		// ordinary shard, so the driver gives it a child of its own.
		phase := "deep3"
		if !rc.SkipCase(phase, 0) {
			rc.Mark(phase, 0)
			ck := &c13Checker{rc: rc, phase: phase, idx: 0, cs: c13gen(rc.RNG(phase, 0), false, false, "deep3")}
			ck.faultFree()
		}
		return
	}
	race := os.Getenv("C13_RACE") != ""
	nrt := rc.N(960, 16000)
	nflt := rc.N(160, 1600)
	if race {
		nrt, nflt = 12, 1
	}
	thorough := rc.Thorough()
	for _, ph := range []struct {
		phase string
		n     int
	}{{"rt", nrt}, {"flt", nflt}} {
		for idx := int64(0); idx < int64(ph.n); idx++ {
			if rc.SkipCase(ph.phase, idx) {
				continue
			}
			rc.Mark(ph.phase, idx)
			r := rc.RNG(ph.phase, idx)
			force := ""
			switch {
			case ph.phase == "rt" && thorough && idx%20 == 3, ph.phase == "rt" && !thorough && idx%30 == 3,
				ph.phase == "flt" && thorough && idx%50 == 49:
				force = "zstd"
			case ph.phase == "rt" && !race && thorough && idx == 77:
				// > 255*255 chunks: once per thorough shard (the quick tier runs
				// one such case in a child of its own, see C13_ONLY above)
				force = "deep3"
			case ph.phase == "rt" && idx%60 == 17 && !race && (thorough || rc.Shard%4 == 1):
				// costs seconds (a fresh zlib.Writer per dictionary trial):
				// 4 cases in the quick tier, 1 in 60 in the thorough tier
				force = "resdeep2"
				if (thorough && idx%120 == 17) || (!thorough && rc.Shard%8 == 1) {
					force = "resdeep3"
				}
			}
			ck := &c13Checker{rc: rc, phase: ph.phase, idx: idx, cs: c13gen(r, thorough, ph.phase == "flt", force)}
			cls, out := ck.faultFree()
			if cls != "" && !race && c13sweepOK(&ck.cs.Cfg, out, len(ck.cs.Pieces), thorough, ph.phase, idx) {
				maxRuns := 500
				if ck.cs.Cfg.Codec == "zstd" {
					maxRuns = 30
				}
				ck.sweep(cls, maxRuns)
			}
		}
	}
}
