//go:build verif

package mon

import "github.com/google/wuffs/lib/rac"

func c14installHook() { rac.VerifSchedHook = c14sched }

const c14hooked = true
