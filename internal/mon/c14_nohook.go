//go:build !verif

package mon

func c14installHook() {}

const c14hooked = false
