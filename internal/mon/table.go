// Package mon holds the monitors that run inside the Go child (vmon).
package mon

import "verif/internal/vk"

// Table maps a monitor name to its entry point; each cNN.go registers itself.
var Table = map[string]func(*vk.Rec){}
