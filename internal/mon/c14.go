package mon

import (
	"bytes"
	"fmt"
	"io"
	"math/rand"
	"os"
	"runtime"
	"strings"
	"sync"

	"github.com/google/wuffs/lib/rac"
	"github.com/google/wuffs/lib/raczlib"

	"verif/internal/vk"
)

// C14: RAC random access equals slicing the full decode, at any Concurrency,
// under perturbed goroutine schedules; no deadlock (decided by the Go
// runtime's own detector in a cgo-free build), no goroutine left after Close.

func init() { Table["C14"] = C14 }

type c14op struct {
	Kind   string `json:"k"` // read seek range close closenw
	N      int    `json:"n,omitempty"`
	Off    int64  `json:"off,omitempty"`
	Whence int    `json:"wh,omitempty"`
	Lo, Hi int64  `json:"lo,omitempty"`
}

func (o c14op) String() string {
	switch o.Kind {
	case "read":
		return fmt.Sprintf("Read(%d)", o.N)
	case "seek":
		return fmt.Sprintf("Seek(%d,%d)", o.Off, o.Whence)
	case "range":
		return fmt.Sprintf("SeekRange(%d,%d)", o.Lo, o.Off)
	}
	return o.Kind
}

type c14file struct {
	desc    string
	payload []byte
	enc     []byte
	nchunks int
}

// c14makeFile builds one RAC file with the real writer.
func c14makeFile(r *rand.Rand) (*c14file, error) {
	var size int
	switch r.Intn(6) {
	case 0:
		size = r.Intn(40)
	case 1:
		size = 100 + r.Intn(2000)
	case 2, 3:
		size = 5000 + r.Intn(60000)
	case 4:
		size = 100000 + r.Intn(300000)
	default:
		size = 65536*(1+r.Intn(3)) + r.Intn(3) - 1
	}
	p := make([]byte, size)
	// text-ish with zero runs
	for i := 0; i < size; {
		switch r.Intn(5) {
		case 0: // zero run
			n := 1 + r.Intn(3000)
			i += n
		case 1: // random
			n := 1 + r.Intn(500)
			for j := 0; j < n && i < size; j++ {
				p[i] = byte(r.Intn(256))
				i++
			}
		default:
			n := 1 + r.Intn(800)
			for j := 0; j < n && i < size; j++ {
				p[i] = "the quick brown fox jumps over the lazy dog\n"[(i*7+j)%44]
				i++
			}
		}
	}
	// Stamp position markers so that a read at a wrong offset cannot match by accident.
	for i := 0; i+4 <= size; i += 97 {
		if p[i] != 0 || r.Intn(2) == 0 {
			p[i], p[i+1], p[i+2] = byte(i), byte(i>>8), byte(i>>16)|1
		}
	}
	buf := &bytes.Buffer{}
	w := &rac.Writer{Writer: buf, CodecWriter: &raczlib.CodecWriter{}}
	desc := fmt.Sprintf("size=%d", size)
	switch r.Intn(8) {
	case 0, 1, 2, 3:
		w.DChunkSize = uint64([]int{16, 64, 200, 1000, 4096, 30000, 70000}[r.Intn(7)])
		if size/int(w.DChunkSize) > 3000 {
			w.DChunkSize = uint64(size/3000 + 1)
		}
		desc += fmt.Sprintf(" dchunk=%d", w.DChunkSize)
	case 4:
		w.CChunkSize = uint64([]int{300, 1000, 4096, 20000}[r.Intn(4)])
		desc += fmt.Sprintf(" cchunk=%d", w.CChunkSize)
	case 5:
		w.DChunkSize = uint64(1 + r.Intn(50))
		if size/int(w.DChunkSize) > 2500 {
			w.DChunkSize = uint64(size/2500 + 1)
		}
		desc += fmt.Sprintf(" dchunk=%d", w.DChunkSize)
	default:
		desc += " default"
	}
	if r.Intn(3) == 0 {
		w.IndexLocation = rac.IndexLocationAtStart
		w.TempFile = &bytes.Buffer{}
		desc += " ilastart"
	}
	if r.Intn(4) == 0 {
		w.CPageSize = uint64([]int{16, 64, 512}[r.Intn(3)])
		desc += fmt.Sprintf(" cpage=%d", w.CPageSize)
	}
	if r.Intn(4) == 0 && size > 500 {
		w.ResourcesData = [][]byte{append([]byte(nil), p[:200]...)}
		desc += " dict"
	}
	// write in pieces
	for q := p; len(q) > 0; {
		n := 1 + r.Intn(20000)
		if n > len(q) {
			n = len(q)
		}
		if _, err := w.Write(q[:n]); err != nil {
			return nil, err
		}
		q = q[n:]
	}
	if err := w.Close(); err != nil {
		return nil, err
	}
	f := &c14file{desc: desc, payload: p, enc: buf.Bytes()}
	// count chunks and confirm the sequential reader agrees with the payload
	cr := &rac.ChunkReader{ReadSeeker: bytes.NewReader(f.enc), CompressedSize: int64(len(f.enc))}
	for {
		_, err := cr.NextChunk()
		if err != nil {
			break
		}
		f.nchunks++
	}
	return f, nil
}

func c14reader(f *c14file, conc int) *rac.Reader {
	return &rac.Reader{
		ReadSeeker:     bytes.NewReader(f.enc),
		CompressedSize: int64(len(f.enc)),
		CodecReaders:   []rac.CodecReader{&raczlib.CodecReader{}},
		Concurrency:    conc,
	}
}

// c14history generates a seeded call history.
func c14history(r *rand.Rand, size int64) []c14op {
	n := 2 + r.Intn(38)
	var ops []c14op
	pickOff := func() int64 {
		switch r.Intn(10) {
		case 0:
			return 0
		case 1:
			return size
		case 2:
			return size - 1
		case 3:
			return size + int64(r.Intn(100))
		case 4:
			return int64(r.Intn(70000))
		default:
			if size <= 0 {
				return 0
			}
			return r.Int63n(size + 1)
		}
	}
	readLen := func() int {
		switch r.Intn(10) {
		case 0:
			return 0
		case 1:
			return 1
		case 2:
			return 65536
		case 3:
			return 65537 + r.Intn(100000)
		case 4:
			return 1 + r.Intn(20)
		default:
			return 1 + r.Intn(9000)
		}
	}
	for i := 0; i < n; i++ {
		switch p := r.Intn(100); {
		case p < 50:
			ops = append(ops, c14op{Kind: "read", N: readLen()})
		case p < 75:
			wh := r.Intn(3)
			off := pickOff()
			switch wh {
			case 1:
				off = int64(r.Intn(20000)) - 10000
				switch r.Intn(6) {
				case 0:
					off = 0 // "where am I": must still lift a SeekRange limit
				case 1:
					off = int64(r.Intn(5)) - 2
				}
			case 2:
				off = -pickOff()
				if r.Intn(8) == 0 {
					off = int64(r.Intn(50))
				}
			}
			if r.Intn(40) == 0 {
				wh = 3 + r.Intn(3) // invalid whence
			}
			if r.Intn(40) == 0 {
				off = -1 - int64(r.Intn(1000))
				wh = 0
			}
			if wh == 0 && r.Intn(8) == 0 {
				off = -7777777 // resolved to the current position when executed
			}
			ops = append(ops, c14op{Kind: "seek", Off: off, Whence: wh})
		case p < 95:
			lo, hi := pickOff(), pickOff()
			switch r.Intn(10) {
			case 0: // inverted (error)
				if lo < hi {
					lo, hi = hi, lo
				}
			case 1: // empty
				hi = lo
			default:
				if lo > hi {
					lo, hi = hi, lo
				}
			}
			ops = append(ops, c14op{Kind: "range", Lo: lo, Off: hi})
		default:
			if i > n/2 {
				if r.Intn(3) == 0 {
					ops = append(ops, c14op{Kind: "closenw"})
				} else {
					ops = append(ops, c14op{Kind: "close"})
				}
				return ops
			}
			ops = append(ops, c14op{Kind: "read", N: readLen()})
		}
	}
	if r.Intn(4) == 0 {
		ops = append(ops, c14op{Kind: "closenw"})
	} else {
		ops = append(ops, c14op{Kind: "close"})
	}
	return ops
}

// c14run executes a history against a reader and the model. It returns a
// description of the first divergence ("" if none), its kind, and a shape class.
func c14run(f *c14file, rd *rac.Reader, ops []c14op, closed *string) (kind, what string, shape string) {
	size := int64(len(f.payload))
	pos, limit := int64(0), size
	buf := make([]byte, 0, 1<<18)
	seenRead, seekAfterRead, seekMidChunk, eofSeen, rangeUsed := false, false, false, false, false
	defer func() {
		var s []string
		if seekAfterRead {
			s = append(s, "seek-after-read")
		}
		if seekMidChunk {
			s = append(s, "seek-with-work-outstanding")
		}
		if eofSeen {
			s = append(s, "eof")
		}
		if rangeUsed {
			s = append(s, "range")
		}
		shape = strings.Join(s, "+")
	}()
	for i, op := range ops {
		switch op.Kind {
		case "read":
			if cap(buf) < op.N {
				buf = make([]byte, 0, op.N)
			}
			p := buf[:op.N]
			for j := range p {
				p[j] = 0xA5
			}
			n, err := rd.Read(p)
			want := int64(op.N)
			if rem := limit - pos; rem < want {
				want = rem
			}
			if want < 0 {
				want = 0
			}
			if err != nil && err != io.EOF {
				return "read-error", fmt.Sprintf("op %d %v at pos %d limit %d: unexpected error %v", i, op, pos, limit, err), ""
			}
			if int64(n) != want {
				return "read-count", fmt.Sprintf("op %d %v at pos %d limit %d: n=%d, model n=%d (err=%v)", i, op, pos, limit, n, want, err), ""
			}
			if n > 0 && !bytes.Equal(p[:n], f.payload[pos:pos+int64(n)]) {
				k := 0
				for k < n && p[k] == f.payload[pos+int64(k)] {
					k++
				}
				return "read-bytes", fmt.Sprintf("op %d %v at pos %d: byte %d differs (got %#x want %#x)", i, op, pos, k, p[k], f.payload[pos+int64(k)]), ""
			}
			if err == io.EOF && pos+int64(n) < limit {
				return "early-eof", fmt.Sprintf("op %d %v at pos %d limit %d: io.EOF after %d bytes", i, op, pos, limit, n), ""
			}
			if err == nil && want == 0 && op.N > 0 {
				return "missing-eof", fmt.Sprintf("op %d %v at pos %d limit %d: (0, nil) where the model returns io.EOF", i, op, pos, limit), ""
			}
			if err == io.EOF {
				eofSeen = true
			}
			pos += int64(n)
			seenRead = true
			if pos < limit {
				seekMidChunk = true // work is (possibly) outstanding beyond pos
			} else {
				seekMidChunk = false
			}
		case "seek":
			if op.Whence == io.SeekStart && op.Off == -7777777 {
				op.Off = pos // generated as "seek to where the cursor already is"
			}
			got, err := rd.Seek(op.Off, op.Whence)
			var np int64
			bad := false
			switch op.Whence {
			case io.SeekStart:
				np = op.Off
			case io.SeekCurrent:
				np = pos + op.Off
			case io.SeekEnd:
				np = size + op.Off
			default:
				bad = true
			}
			if bad || np < 0 {
				if err == nil {
					return "seek-no-error", fmt.Sprintf("op %d %v at pos %d: no error for an invalid seek (returned %d)", i, op, pos, got), ""
				}
				return "", "", "" // errors are sticky in rac.Reader: the history ends here
			}
			if err != nil {
				return "seek-error", fmt.Sprintf("op %d %v at pos %d: unexpected error %v", i, op, pos, err), ""
			}
			if got != np {
				return "seek-pos", fmt.Sprintf("op %d %v at pos %d: returned %d, model %d", i, op, pos, got, np), ""
			}
			if seenRead {
				seekAfterRead = true
			}
			pos, limit = np, size
		case "range":
			rangeUsed = true
			err := rd.SeekRange(op.Lo, op.Off)
			if op.Lo > op.Off || op.Lo < 0 {
				if err == nil {
					return "range-no-error", fmt.Sprintf("op %d %v: no error for an invalid range", i, op), ""
				}
				return "", "", ""
			}
			if err != nil {
				return "range-error", fmt.Sprintf("op %d %v at pos %d: unexpected error %v", i, op, pos, err), ""
			}
			if seenRead {
				seekAfterRead = true
			}
			pos, limit = op.Lo, op.Off
			if limit > size {
				limit = size
			}
		case "close":
			*closed = "close"
			if err := rd.Close(); err != nil {
				return "close-error", fmt.Sprintf("op %d Close: %v", i, err), ""
			}
			return "", "", ""
		case "closenw":
			*closed = "closenw"
			if err := rd.CloseWithoutWaiting(); err != nil {
				return "close-error", fmt.Sprintf("op %d CloseWithoutWaiting: %v", i, err), ""
			}
			return "", "", ""
		}
	}
	return "", "", ""
}

// c14leaked polls for goroutines of the rac pipeline. It returns the number
// still present and whether they are blocked (a leak) rather than merely not
// yet scheduled.
func c14leaked() (n int, blocked bool, dump string) {
	buf := make([]byte, 1<<20)
	var prev map[string]string
	for iter := 0; iter < 3000; iter++ {
		m := runtime.Stack(buf, true)
		cur := map[string]string{}
		for _, g := range strings.Split(string(buf[:m]), "\n\n") {
			if strings.Contains(g, "lib/rac.runR") {
				hdr := g
				if k := strings.IndexByte(g, '\n'); k > 0 {
					hdr = g[:k]
				}
				cur[hdr] = g
			}
		}
		if len(cur) == 0 {
			return 0, false, ""
		}
		if iter >= 2000 && prev != nil {
			// the same goroutine in the same blocked state on two polls far apart
			for h, g := range cur {
				if _, ok := prev[h]; ok && (strings.Contains(h, "[select") || strings.Contains(h, "[chan ")) {
					return len(cur), true, g
				}
			}
		}
		if iter == 1000 {
			prev = cur
		}
		runtime.Gosched()
	}
	return 1, false, ""
}

var (
	c14schedMu   sync.Mutex
	c14schedHash uint64
	c14schedN    uint64
	c14schedSeed uint64
	c14schedOn   bool
)

// c14sched is the VerifSchedHook: it perturbs the goroutine schedule by a
// seeded choice and folds the order of sites into a signature.
//
//go:norace
func c14sched(site int) {
	if !c14schedOn {
		return
	}
	// Deliberately unsynchronised (and excluded from race instrumentation) so
	// that the hook adds no happens-before edges of its own.
	c14schedN++
	x := c14schedSeed ^ (c14schedN * 0x9E3779B97F4A7C15) ^ uint64(site)*0xBF58476D1CE4E5B9
	x ^= x >> 29
	x *= 0x94D049BB133111EB
	x ^= x >> 32
	c14schedHash = (c14schedHash ^ uint64(site)) * 0x100000001b3
	switch x % 16 {
	case 0, 1, 2, 3:
		runtime.Gosched()
	case 4:
		for i := 0; i < 3; i++ {
			runtime.Gosched()
		}
	}
}

func C14(rc *vk.Rec) {
	raceMode := os.Getenv("VERIF_C14_MODE") == "race"
	c14installHook()
	nfiles := rc.N(160, 4000)
	histPerFile := 12
	if raceMode {
		nfiles = rc.N(48, 600)
		histPerFile = 6
	}
	phase := "c14"
	concs := []int{0, 1, 2, 4, 16}
	// GOMAXPROCS is fixed per monitor child (the 16 shards cover 1, 2, 4 and 16
	// four times each). It used to be changed before every case, but
	// runtime.GOMAXPROCS stops the world, and in the CGO_ENABLED=0 child whose
	// only verdict is the runtime's deadlock detector one such call in ~100 000
	// was itself reported as "all goroutines are asleep" (a dump with the main
	// goroutine inside runtime.GOMAXPROCS and nothing else: no wuffs frame).
	procs := []int{1, 2, 4, 16}[rc.Shard%4]
	runtime.GOMAXPROCS(procs)
	sigs := map[uint64]bool{}
	var idx int64
	for fi := 0; fi < nfiles; fi++ {
		fr := rc.RNG("c14file", int64(fi))
		f, err := c14makeFile(fr)
		if err != nil {
			rc.Count("writer_errors", 1)
			idx += int64(histPerFile)
			continue
		}
		// The reference is the original payload; a file whose plain sequential
		// decode already differs is the writer's problem (C13), not C14's.
		{
			rd := c14reader(f, 0)
			got, err := io.ReadAll(rd)
			if err != nil || !bytes.Equal(got, f.payload) {
				rc.Count("files_skipped_writer_mismatch", 1)
				idx += int64(histPerFile)
				continue
			}
			rd.Close()
		}
		rc.Count("files", 1)
		rc.Max("max_chunks", int64(f.nchunks))
		for h := 0; h < histPerFile; h++ {
			idx++
			if rc.SkipCase(phase, idx) {
				continue
			}
			hr := rc.RNG(phase, idx)
			ops := c14history(hr, int64(len(f.payload)))
			for _, conc := range concs {
				if raceMode && conc <= 1 {
					continue
				}
				_ = hr.Intn(4) // (keeps the per-case PRNG stream of earlier evidence)
				rc.Mark(phase, idx)
				if rc.Only >= 0 {
					fmt.Fprintf(os.Stderr, "REPLAY case %d conc=%d gomaxprocs=%d file[%s] chunks=%d history=%v\n", idx, conc, procs, f.desc, f.nchunks, ops)
				}
				c14schedSeed = uint64(hr.Int63())
				c14schedHash, c14schedN = 0xcbf29ce484222325, 0
				c14schedOn = conc > 1
				rd := c14reader(f, conc)
				var kind, what, shape, last string
				func() {
					defer func() {
						if rec := recover(); rec != nil {
							kind, what = "panic", vk.PanicSig(rec)
						}
					}()
					kind, what, shape = c14run(f, rd, ops, &last)
				}()
				c14schedOn = false
				rc.Eval(1)
				rc.Count("calls", int64(len(ops)))
				rc.Count("sched_points", int64(c14schedN))
				if conc > 1 {
					sigs[c14schedHash] = true
				}
				ck := "seq"
				if conc > 1 {
					ck = "conc"
				}
				szc := "few-chunks"
				if f.nchunks > 255 {
					szc = "multi-level"
				} else if f.nchunks > 8 {
					szc = "many-chunks"
				}
				rc.Class(fmt.Sprintf("%s|%s|%s", ck, szc, shape))
				extra := map[string]interface{}{"file": f.desc, "conc": conc, "gomaxprocs": procs, "history": fmt.Sprint(ops), "chunks": f.nchunks}
				if kind != "" {
					rc.ViolateCase(fmt.Sprintf("rac-reader:%s:%s", ck, kind), fmt.Sprintf("conc=%d file[%s]: %s", conc, f.desc, what), phase, idx, extra)
				}
				// goroutines must be gone after Close
				if last == "" {
					// The history ended early (a violation, or an error return that
					// rac.Reader documents as sticky): Close must still wind everything up.
					last = "close-after-error"
					func() {
						defer func() { recover() }()
						rd.Close()
					}()
				}
				if n, blocked, dump := c14leaked(); n > 0 {
					if blocked {
						extra["goroutine"] = dump
						rc.ViolateCase("rac-reader:goroutine-leak:after-"+last, fmt.Sprintf("conc=%d: %d rac goroutine(s) still blocked after %s", conc, n, last), phase, idx, extra)
					} else {
						rc.Inconclusive("rac goroutines still runnable after polling")
					}
				} else {
					rc.Count("leak_checks_clean", 1)
				}
				if rc.NSamples() < 4 && conc == 4 && len(ops) < 12 {
					rc.Sample(extra)
				}
			}
		}
	}
	runtime.GOMAXPROCS(4)
	rc.Count("schedule_signatures", int64(len(sigs)))
}
