package mon

// racspec: an independent structural validator for RAC files, written from
// the text of /repo/doc/spec/rac-spec.md (not from lib/rac/chunk_reader.go).
//
// Spec clauses checked (the clause name is what racspecViol.Clause carries and
// what C13 counts as "spec_<clause>"):
//
//	file-min-size      "A RAC file must be at least 32 bytes long"
//	file-magic         "... and start with the 3 byte Magic"
//	root-start/-end    "Root Node" section: look at the CFile start (4th byte
//	                   gives the Arity; zero or too large a node => fail over),
//	                   and if and only if that fails at the CFile end (last
//	                   byte gives the Arity; CFileSize < size => invalid)
//	root-cptrmax       "For the Root Node, its COffMax must equal the CFileSize"
//	                   (Branch CBias and DBias of the root are zero)
//	magic              "Every Branch Node must start with these Magic bytes"
//	arity              "The two [Arity] values must match" and are non-zero
//	checksum           low16 XOR high16 of CRC-32/IEEE over the (Arity*16+10)
//	                   bytes immediately after the Checksum
//	reserved-zero      "The Reserved (0) bytes must have the value 0x00"
//	version            "Version must have the value 0x01"
//	codec-short        Short Codec low 6 bits: 0..3, "all other values are
//	                   reserved"
//	codec-long         Long Codec: lowest i in {c64, c64+64, c64+128, c64+192}
//	                   with TTag[i]==0xFD; "It is invalid for no such i to exist"
//	ttag-reserved      "A TTag[a] in the half-open range [0xC0 .. 0xFD) is
//	                   reserved"
//	has-child          "there is at least one child Node (not just non-Node
//	                   attributes)"
//	dptr-sorted        DPtr[0] is implicitly zero; "(DOff[a] <= DOff[a+1]) for
//	                   every a in [0 .. Arity)"
//	codec-elem-drange  a 0xFD Codec Element's "DRange must be empty"
//	cptr-le-cptrmax    "other than Codec Element attributes, all of its COff
//	                   values do not exceed COffMax"
//	cremaining         "It invalid for CRemaining to be less than 4, or to be
//	                   less than the child's size implied by the child's Arity"
//	child-codec        "if the parent's Codec does not have the Mix Bit set then
//	                   the child's Codec must equal its parent's"
//	child-version      child's "Version must be less than or equal to its
//	                   parent's"
//	child-coffmax      child's "COffMax must be less than or equal to its
//	                   parent's COffMax"
//	child-doffmax      child's "DOffMax must equal its parent's SubBranch
//	                   DOffMax"
//	anti-loop          "at least one of these two conditions must hold: the
//	                   child's Branch COffset is less than the parent's Branch
//	                   COffset; the child's DPtrMax is less than the parent's
//	                   DPtrMax"
//	crange             MakeCRange: a CRange is a Range, "It is invalid to have
//	                   (i > j)"
//	dict-format        Common Dictionary Format (Zlib, Zstandard): a non-empty
//	                   Secondary CRange is >= 8 bytes, length's high 2 bits
//	                   zero, length+8 fits, CRC-32/IEEE of the dictionary
//	leaf-ttag-ff       Common Dictionary Format: "The Leaf TTag must be 0xFF"
//	dfile-tiling       derived (by the spec's own induction): the non-empty
//	                   leaves in depth-first order tile [0 .. DFileSize)
//
// Nodes (branch or leaf) whose DRange is empty are skipped, as "Continuing the
// Reconstruction" tells a reader to do; attributes other than 0xFD are encoded
// as empty-DRange leaf elements and so are only looked at when a leaf's STag or
// TTag refers to them.

import (
	"fmt"
	"hash/crc32"
)

const racspecMagic = "\x72\xC3\x63"

type racspecViol struct {
	Clause string
	Msg    string
}

func (v *racspecViol) Error() string { return v.Clause + ": " + v.Msg }

// racspecBranch is a decoded Branch Node.
type racspecBranch struct {
	COff      int64 // Branch COffset
	CBias     int64
	DBias     int64
	Arity     int
	Depth     int
	DPtr      []int64 // Arity+1 values, DPtr[0] == 0
	CPtr      []int64 // Arity+1 values
	CLen      []uint8
	STag      []uint8
	TTag      []uint8
	CodecByte uint8
	Long      [7]byte // valid when CodecByte&0x80 != 0
	Version   uint8
}

func (b *racspecBranch) size() int64    { return int64(b.Arity)*16 + 16 }
func (b *racspecBranch) cOffMax() int64 { return b.CBias + b.CPtr[b.Arity] }
func (b *racspecBranch) dPtrMax() int64 { return b.DPtr[b.Arity] }
func (b *racspecBranch) mix() bool      { return b.CodecByte&0x40 != 0 }

// racspecLeaf is a Leaf Node with a non-empty DRange.
type racspecLeaf struct {
	DRange     [2]int64
	CPrimary   [2]int64
	CSecondary [2]int64
	CTertiary  [2]int64
	STag, TTag uint8
	CodecByte  uint8 // without the Mix Bit
	Long       [7]byte
	Depth      int
	ParentCOff int64
	Index      int
}

type racspecResult struct {
	RootAtStart bool
	RootCOff    int64
	DFileSize   int64
	Nodes       []*racspecBranch // every visited Branch Node, root first
	Leaves      []racspecLeaf    // non-empty leaves in depth-first (DSpace) order
	MaxDepth    int              // 1 = the root only
	Checks      map[string]int64 // clause -> number of times it was evaluated
	SkippedEmpt int64            // elements skipped because their DRange is empty
}

type racspecWalker struct {
	f   []byte
	res *racspecResult
}

func (w *racspecWalker) chk(clause string) { w.res.Checks[clause]++ }

func racspecU48(b []byte) int64 {
	return int64(b[0]) | int64(b[1])<<8 | int64(b[2])<<16 | int64(b[3])<<24 | int64(b[4])<<32 | int64(b[5])<<40
}

// decode parses and locally validates the Branch Node of the given arity at
// cOff ("Branch Node Validation", first three paragraphs).
func (w *racspecWalker) decode(cOff int64, arity int, cBias, dBias int64, depth int) (*racspecBranch, *racspecViol) {
	bad := func(clause, format string, a ...interface{}) (*racspecBranch, *racspecViol) {
		return nil, &racspecViol{clause, fmt.Sprintf("node@%d: ", cOff) + fmt.Sprintf(format, a...)}
	}
	size := int64(arity)*16 + 16
	w.chk("arity")
	if arity == 0 {
		return bad("arity", "arity is zero")
	}
	if cOff < 0 || cOff+size > int64(len(w.f)) {
		return bad("cremaining", "node of %d bytes does not fit in the %d byte file", size, len(w.f))
	}
	b := w.f[cOff : cOff+size]
	w.chk("magic")
	if string(b[:3]) != racspecMagic {
		return bad("magic", "magic is % x", b[:3])
	}
	if int(b[3]) != arity || int(b[size-1]) != arity {
		return bad("arity", "arity bytes are %d (4th byte) and %d (last byte)", b[3], b[size-1])
	}
	w.chk("checksum")
	crc := crc32.ChecksumIEEE(b[6:size]) // the (arity*16 + 10) bytes after the Checksum
	want := uint16(crc) ^ uint16(crc>>16)
	got := uint16(b[4]) | uint16(b[5])<<8
	if got != want {
		return bad("checksum", "listed checksum 0x%04x, computed 0x%04x", got, want)
	}
	n := &racspecBranch{COff: cOff, CBias: cBias, DBias: dBias, Arity: arity, Depth: depth}
	n.DPtr = make([]int64, arity+1)
	n.CPtr = make([]int64, arity+1)
	n.CLen = make([]uint8, arity)
	n.STag = make([]uint8, arity)
	n.TTag = make([]uint8, arity)
	// Segment i (0 <= i <= arity) of the first half: XPtr | Reserved | TTag (or CodecByte).
	for i := 0; i <= arity; i++ {
		seg := b[8*i : 8*i+8]
		w.chk("reserved-zero")
		if seg[6] != 0 {
			return bad("reserved-zero", "reserved byte of segment %d is 0x%02x", i, seg[6])
		}
		if i > 0 {
			n.DPtr[i] = racspecU48(seg)
		}
		if i < arity {
			n.TTag[i] = b[8*i+7]
		}
	}
	// TTag[i] sits in the high byte of the segment that *starts* element i: the
	// first segment (Magic|A|Che|0|T) carries TTag[0], DPtr[i]'s carries TTag[i].
	n.CodecByte = b[8*arity+7]
	base := 8 * (arity + 1)
	for i := 0; i <= arity; i++ {
		seg := b[base+8*i : base+8*i+8]
		n.CPtr[i] = racspecU48(seg)
		if i < arity {
			n.CLen[i] = seg[6]
			n.STag[i] = seg[7]
		}
	}
	n.Version = b[size-2]
	w.chk("version")
	if n.Version != 1 {
		return bad("version", "version is %d", n.Version)
	}
	// TTags.
	children := 0
	for i := 0; i < arity; i++ {
		t := n.TTag[i]
		w.chk("ttag-reserved")
		if t >= 0xC0 && t < 0xFD {
			return bad("ttag-reserved", "TTag[%d] is 0x%02x", i, t)
		}
		if t != 0xFD {
			children++
		}
	}
	w.chk("has-child")
	if children == 0 {
		return bad("has-child", "all %d elements are attributes", arity)
	}
	// Codec.
	if n.CodecByte&0x80 == 0 {
		w.chk("codec-short")
		if n.CodecByte&0x3F > 3 {
			return bad("codec-short", "short codec 0x%02x is reserved", n.CodecByte)
		}
	} else {
		w.chk("codec-long")
		c64 := int(n.CodecByte & 0x3F)
		found := -1
		for k := 0; k < 4; k++ {
			i := c64 + 64*k
			if i < arity && n.TTag[i] == 0xFD {
				found = i
				break
			}
		}
		if found < 0 {
			return bad("codec-long", "long codec 0x%02x has no 0xFD element", n.CodecByte)
		}
		copy(n.Long[:], b[base+8*found:base+8*found+7])
	}
	// DPtrs.
	for i := 0; i < arity; i++ {
		w.chk("dptr-sorted")
		if n.DPtr[i] > n.DPtr[i+1] {
			return bad("dptr-sorted", "DPtr[%d]=%d > DPtr[%d]=%d", i, n.DPtr[i], i+1, n.DPtr[i+1])
		}
		if n.TTag[i] == 0xFD {
			w.chk("codec-elem-drange")
			if n.DPtr[i] != n.DPtr[i+1] {
				return bad("codec-elem-drange", "codec element %d has DRange size %d", i, n.DPtr[i+1]-n.DPtr[i])
			}
		}
	}
	// CPtrs.
	for i := 0; i < arity; i++ {
		if n.TTag[i] == 0xFD {
			continue
		}
		w.chk("cptr-le-cptrmax")
		if n.CPtr[i] > n.CPtr[arity] {
			return bad("cptr-le-cptrmax", "CPtr[%d]=%d > CPtrMax=%d", i, n.CPtr[i], n.CPtr[arity])
		}
	}
	return n, nil
}

func (w *racspecWalker) tryRoot(cOff int64, arity int) (*racspecBranch, *racspecViol) {
	n, v := w.decode(cOff, arity, 0, 0, 1)
	if v != nil {
		return nil, v
	}
	w.chk("root-cptrmax")
	if n.cOffMax() != int64(len(w.f)) {
		return nil, &racspecViol{"root-cptrmax", fmt.Sprintf("node@%d: CPtrMax=%d but CFileSize=%d", cOff, n.cOffMax(), len(w.f))}
	}
	return n, nil
}

// makeCRange is the spec's MakeCRange(i).
func (n *racspecBranch) makeCRange(i int) [2]int64 {
	max := n.cOffMax()
	if i >= n.Arity {
		return [2]int64{max, max}
	}
	lo := n.CBias + n.CPtr[i]
	hi := max
	if n.CLen[i] != 0 {
		if x := lo + int64(n.CLen[i])*1024; x < hi {
			hi = x
		}
	}
	return [2]int64{lo, hi}
}

func (w *racspecWalker) walk(n *racspecBranch, nodes *int) *racspecViol {
	w.res.Nodes = append(w.res.Nodes, n)
	if n.Depth > w.res.MaxDepth {
		w.res.MaxDepth = n.Depth
	}
	*nodes++
	if *nodes > 1<<22 {
		return &racspecViol{"anti-loop", "more than 2^22 branch nodes visited"}
	}
	for a := 0; a < n.Arity; a++ {
		t := n.TTag[a]
		if t == 0xFD {
			continue
		}
		d0, d1 := n.DBias+n.DPtr[a], n.DBias+n.DPtr[a+1]
		if d0 == d1 {
			w.res.SkippedEmpt++
			continue
		}
		if t == 0xFE {
			sub := n.CBias + n.CPtr[a] // SubBranch COffset
			w.chk("cremaining")
			rem := n.cOffMax() - sub
			if rem < 4 {
				return &racspecViol{"cremaining", fmt.Sprintf("node@%d child %d: CRemaining=%d < 4", n.COff, a, rem)}
			}
			if sub+4 > int64(len(w.f)) {
				return &racspecViol{"cremaining", fmt.Sprintf("node@%d child %d: SubBranch COffset %d is past the file end", n.COff, a, sub)}
			}
			ar := int(w.f[sub+3])
			if rem < int64(ar)*16+16 {
				return &racspecViol{"cremaining", fmt.Sprintf("node@%d child %d: CRemaining=%d < child size %d", n.COff, a, rem, ar*16+16)}
			}
			cb := n.CBias
			if int(n.STag[a]) < n.Arity {
				cb = n.CBias + n.CPtr[n.STag[a]]
			}
			c, v := w.decode(sub, ar, cb, d0, n.Depth+1)
			if v != nil {
				return v
			}
			if !n.mix() {
				w.chk("child-codec")
				if c.CodecByte&0xBF != n.CodecByte&0xBF || (n.CodecByte&0x80 != 0 && c.Long != n.Long) {
					return &racspecViol{"child-codec", fmt.Sprintf("node@%d child %d: codec 0x%02x differs from the (non-Mix) parent's 0x%02x", n.COff, a, c.CodecByte, n.CodecByte)}
				}
			}
			w.chk("child-version")
			if c.Version > n.Version {
				return &racspecViol{"child-version", fmt.Sprintf("node@%d child %d: version %d > parent's %d", n.COff, a, c.Version, n.Version)}
			}
			w.chk("child-coffmax")
			if c.cOffMax() > n.cOffMax() {
				return &racspecViol{"child-coffmax", fmt.Sprintf("node@%d child %d: COffMax %d > parent's %d", n.COff, a, c.cOffMax(), n.cOffMax())}
			}
			w.chk("child-doffmax")
			if c.DBias+c.dPtrMax() != d1 {
				return &racspecViol{"child-doffmax", fmt.Sprintf("node@%d child %d: DOffMax %d != parent's SubBranch DOffMax %d", n.COff, a, c.DBias+c.dPtrMax(), d1)}
			}
			w.chk("anti-loop")
			if !(c.COff < n.COff || c.dPtrMax() < n.dPtrMax()) {
				return &racspecViol{"anti-loop", fmt.Sprintf("node@%d child %d @%d: neither COffset nor DPtrMax decreases (%d vs %d)", n.COff, a, c.COff, c.dPtrMax(), n.dPtrMax())}
			}
			if v := w.walk(c, nodes); v != nil {
				return v
			}
			continue
		}
		// Leaf Node.
		lf := racspecLeaf{
			DRange: [2]int64{d0, d1}, STag: n.STag[a], TTag: t,
			CodecByte: n.CodecByte &^ 0x40, Long: n.Long, Depth: n.Depth, ParentCOff: n.COff, Index: a,
		}
		lf.CPrimary = n.makeCRange(a)
		lf.CSecondary = n.makeCRange(int(n.STag[a]))
		lf.CTertiary = n.makeCRange(int(t))
		for _, r := range [][2]int64{lf.CPrimary, lf.CSecondary, lf.CTertiary} {
			w.chk("crange")
			if r[0] > r[1] || r[1] > int64(len(w.f)) {
				return &racspecViol{"crange", fmt.Sprintf("node@%d leaf %d: CRange [%d .. %d) is invalid (CFileSize %d)", n.COff, a, r[0], r[1], len(w.f))}
			}
		}
		if lf.CodecByte == 0x01 || lf.CodecByte == 0x03 { // Zlib, Zstandard: common dictionary format
			w.chk("leaf-ttag-ff")
			if t != 0xFF {
				return &racspecViol{"leaf-ttag-ff", fmt.Sprintf("node@%d leaf %d: Leaf TTag is 0x%02x", n.COff, a, t)}
			}
			if s := lf.CSecondary; s[0] != s[1] {
				w.chk("dict-format")
				if v := racspecDict(w.f[s[0]:s[1]]); v != "" {
					return &racspecViol{"dict-format", fmt.Sprintf("node@%d leaf %d: secondary CRange [%d .. %d): %s", n.COff, a, s[0], s[1], v)}
				}
			}
		}
		w.res.Leaves = append(w.res.Leaves, lf)
	}
	return nil
}

// racspecDict validates the common dictionary format; "" means valid.
func racspecDict(b []byte) string {
	if len(b) < 8 {
		return fmt.Sprintf("only %d bytes long", len(b))
	}
	n := uint32(b[0]) | uint32(b[1])<<8 | uint32(b[2])<<16 | uint32(b[3])<<24
	if n>>30 != 0 {
		return "reserved high bits of the Dictionary Length are set"
	}
	if int64(n)+8 > int64(len(b)) {
		return fmt.Sprintf("Dictionary Length %d does not fit in %d bytes", n, len(b))
	}
	d := b[4 : 4+n]
	c := b[4+n : 8+n]
	got := uint32(c[0]) | uint32(c[1])<<8 | uint32(c[2])<<16 | uint32(c[3])<<24
	if want := crc32.ChecksumIEEE(d); got != want {
		return fmt.Sprintf("Dictionary Checksum 0x%08x, computed 0x%08x", got, want)
	}
	return ""
}

// racspecWalk validates a whole RAC file. It returns what it decoded (also
// partially, on failure) and the first violated clause, or nil.
func racspecWalk(f []byte) (*racspecResult, *racspecViol) {
	res := &racspecResult{Checks: map[string]int64{}}
	w := &racspecWalker{f: f, res: res}
	w.chk("file-min-size")
	if len(f) < 32 {
		return res, &racspecViol{"file-min-size", fmt.Sprintf("the file is %d bytes long", len(f))}
	}
	w.chk("file-magic")
	if string(f[:3]) != racspecMagic {
		return res, &racspecViol{"file-magic", fmt.Sprintf("the file starts with % x", f[:3])}
	}
	var root *racspecBranch
	var vStart *racspecViol
	if a := int(f[3]); a != 0 && int64(a)*16+16 <= int64(len(f)) {
		w.chk("root-start")
		root, vStart = w.tryRoot(0, a)
		if root != nil {
			res.RootAtStart = true
		}
	}
	if root == nil {
		w.chk("root-end")
		a := int(f[len(f)-1])
		size := int64(a)*16 + 16
		var vEnd *racspecViol
		if size > int64(len(f)) {
			vEnd = &racspecViol{"root-end", fmt.Sprintf("the last byte gives arity %d but the file is %d bytes long", a, len(f))}
		} else {
			root, vEnd = w.tryRoot(int64(len(f))-size, a)
		}
		if root == nil {
			// A non-zero fourth byte says the writer meant the root to be at the
			// start, so that attempt's reason is the informative one.
			if vStart != nil {
				return res, &racspecViol{vStart.Clause, "no root node; at the start: " + vStart.Msg + "; at the end: " + vEnd.Msg}
			}
			return res, &racspecViol{vEnd.Clause, "no root node; at the end: " + vEnd.Msg}
		}
	}
	res.RootCOff = root.COff
	res.DFileSize = root.dPtrMax()
	nodes := 0
	if v := w.walk(root, &nodes); v != nil {
		return res, v
	}
	w.chk("dfile-tiling")
	pos := int64(0)
	for i, lf := range res.Leaves {
		if lf.DRange[0] != pos {
			return res, &racspecViol{"dfile-tiling", fmt.Sprintf("leaf #%d starts at DOffset %d, expected %d", i, lf.DRange[0], pos)}
		}
		pos = lf.DRange[1]
	}
	if pos != res.DFileSize {
		return res, &racspecViol{"dfile-tiling", fmt.Sprintf("the leaves end at DOffset %d but DFileSize is %d", pos, res.DFileSize)}
	}
	return res, nil
}
