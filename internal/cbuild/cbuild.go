// Package cbuild generates the standard library's C from the tree under test
// (through the real `wuffs gen`) and compiles the wdrive driver against it in
// several variants. Results are cached under /verif/.cache keyed by a hash of
// the tree's content, so the checks of one sweep share one build; a changed
// working tree always gets a fresh build.
package cbuild

import (
	"bytes"
	"crypto/sha256"
	"encoding/hex"
	"fmt"
	"os"
	"os/exec"
	"path/filepath"
	"sort"
	"strings"
	"sync"
	"syscall"
	"time"

	"verif/internal/drv"
	"verif/internal/wgen"
)

// TreeHash hashes HEAD, the diff against HEAD and untracked files of the tree
// under test, plus the driver sources of /verif/c.
func TreeHash() string {
	h := sha256.New()
	run := func(args ...string) {
		cmd := exec.Command("git", args...)
		cmd.Dir = drv.RepoDir
		out, _ := cmd.Output()
		h.Write(out)
		h.Write([]byte{0})
	}
	run("rev-parse", "HEAD")
	run("diff", "HEAD", "--", ".")
	cmd := exec.Command("git", "ls-files", "--others", "--exclude-standard")
	cmd.Dir = drv.RepoDir
	out, _ := cmd.Output()
	files := strings.Split(strings.TrimSpace(string(out)), "\n")
	sort.Strings(files)
	for _, f := range files {
		if f == "" {
			continue
		}
		h.Write([]byte(f))
		b, _ := os.ReadFile(filepath.Join(drv.RepoDir, f))
		h.Write(b)
		h.Write([]byte{0})
	}
	for _, f := range []string{"wdrive.c", "verif_rt.h"} {
		b, _ := os.ReadFile(filepath.Join(drv.VerifDir, "c", f))
		h.Write(b)
	}
	return hex.EncodeToString(h.Sum(nil))[:24]
}

// Std is a generated standard library.
type Std struct {
	Dir      string // cache directory for this tree
	ReleaseC string // monolithic generated C
	GenDir   string // per-package generated C (gen/c)
	Hash     string
}

func cacheRoot() string { return filepath.Join(drv.VerifDir, ".cache") }

func withLock(dir string, f func() error) error {
	os.MkdirAll(dir, 0o755)
	lf, err := os.OpenFile(filepath.Join(dir, "lock"), os.O_CREATE|os.O_RDWR, 0o644)
	if err != nil {
		return err
	}
	defer lf.Close()
	if err := syscall.Flock(int(lf.Fd()), syscall.LOCK_EX); err != nil {
		return err
	}
	defer syscall.Flock(int(lf.Fd()), syscall.LOCK_UN)
	return f()
}

// pruneCache keeps the most recently used few entries.
func pruneCache(keep string) {
	ents, err := os.ReadDir(cacheRoot())
	if err != nil {
		return
	}
	type ent struct {
		name string
		t    time.Time
	}
	var es []ent
	for _, e := range ents {
		if !e.IsDir() || e.Name() == keep {
			continue
		}
		st, err := os.Stat(filepath.Join(cacheRoot(), e.Name(), "stamp"))
		t := time.Time{}
		if err == nil {
			t = st.ModTime()
		}
		es = append(es, ent{e.Name(), t})
	}
	sort.Slice(es, func(i, j int) bool { return es[i].t.After(es[j].t) })
	for i, e := range es {
		if i >= 2 {
			os.RemoveAll(filepath.Join(cacheRoot(), e.name))
		}
	}
}

// GenStd makes sure the std C for the current tree exists and returns it.
// env is extra environment for the generator (e.g. WUFFS_VERIF=...); variant
// names the flavour ("plain" for the production emission).
func GenStd(r *drv.Run, variant string, tags string, env []string) (*Std, error) {
	hash := TreeHash()
	dir := filepath.Join(cacheRoot(), hash)
	s := &Std{Dir: dir, Hash: hash}
	gdir := filepath.Join(dir, "gen-"+variant)
	s.ReleaseC = filepath.Join(gdir, "release", "c", "wuffs-unsupported-snapshot.c")
	s.GenDir = filepath.Join(gdir, "gen", "c")
	err := withLock(dir, func() error {
		os.WriteFile(filepath.Join(dir, "stamp"), []byte(time.Now().String()), 0o644)
		if _, err := os.Stat(filepath.Join(gdir, "ok")); err == nil {
			return nil
		}
		os.RemoveAll(gdir)
		tools, err := wgen.BuildTools(r, tags, "tools-"+variant)
		if err != nil {
			return err
		}
		if err := wgen.PopulateRoot(drv.RepoDir, gdir, "forward"); err != nil {
			return err
		}
		out, err := tools.GenAll(gdir, tools.Env(env...))
		if err != nil {
			return fmt.Errorf("wuffs gen failed: %v\n%s", err, tailS(out, 3000))
		}
		if _, err := os.Stat(s.ReleaseC); err != nil {
			return fmt.Errorf("wuffs gen produced no release file: %s", tailS(out, 2000))
		}
		return os.WriteFile(filepath.Join(gdir, "ok"), []byte("ok"), 0o644)
	})
	if err != nil {
		return nil, err
	}
	pruneCache(hash)
	return s, nil
}

func tailS(s string, n int) string {
	if len(s) <= n {
		return s
	}
	return "..." + s[len(s)-n:]
}

// Modules lists the WUFFS_CONFIG__MODULE__ names to compile (std packages + BASE).
func Modules(s *Std) []string {
	b, _ := os.ReadFile(s.ReleaseC)
	seen := map[string]bool{}
	var ms []string
	for _, ln := range bytes.Split(b, []byte("\n")) {
		const p = "#if !defined(WUFFS_CONFIG__MODULES) || defined(WUFFS_CONFIG__MODULE__"
		if bytes.HasPrefix(ln, []byte(p)) {
			m := string(ln[len(p):])
			if i := strings.IndexByte(m, ')'); i > 0 {
				m = m[:i]
			}
			if strings.HasPrefix(m, "AUX") || strings.Contains(m, "__") && !strings.HasPrefix(m, "BASE") {
				continue
			}
			if strings.HasPrefix(m, "BASE__") {
				m = "BASE"
			}
			if !seen[m] {
				seen[m] = true
				ms = append(ms, m)
			}
		}
	}
	sort.Strings(ms)
	return ms
}

// Variant describes a compilation flavour of wdrive + std.
type Variant struct {
	Name   string
	CC     string
	CFlags []string
	LFlags []string
	GenVar string // which generated flavour to use
}

var (
	VAsan = Variant{Name: "asan", CC: "gcc", GenVar: "plain",
		CFlags: []string{"-O1", "-g", "-fno-omit-frame-pointer", "-fsanitize=address,undefined", "-fno-sanitize=nonnull-attribute,returns-nonnull-attribute", "-fno-sanitize-recover=all"},
		LFlags: []string{"-fsanitize=address,undefined"}}
	VPlain = Variant{Name: "plain", CC: "gcc", GenVar: "plain",
		CFlags: []string{"-O2", "-DWDRIVE_WRAP_ALLOC"},
		LFlags: []string{"-Wl,--wrap=malloc", "-Wl,--wrap=calloc", "-Wl,--wrap=realloc", "-Wl,--wrap=free"}}
	VNoSimd = Variant{Name: "nosimd", CC: "gcc", GenVar: "plain",
		CFlags: []string{"-O2", "-DWUFFS_CONFIG__AVOID_CPU_ARCH", "-DWDRIVE_WRAP_ALLOC"},
		LFlags: []string{"-Wl,--wrap=malloc", "-Wl,--wrap=calloc", "-Wl,--wrap=realloc", "-Wl,--wrap=free"}}
	// VChecked compiles the C emitted by the verif-tagged generator with
	// WUFFS_VERIF=ranges (run-time assertions of the checker's obligations)
	// under ASan+UBSan.
	VChecked = Variant{Name: "checked", CC: "gcc", GenVar: "checked",
		CFlags: []string{"-O1", "-g", "-fno-omit-frame-pointer", "-fsanitize=address,undefined", "-fno-sanitize=nonnull-attribute,returns-nonnull-attribute", "-fno-sanitize-recover=all",
			"-include", filepath.Join(drv.VerifDir, "c", "verif_rt.h")},
		LFlags: []string{"-fsanitize=address,undefined"}}
	VAsanNoSimd = Variant{Name: "asan-nosimd", CC: "gcc", GenVar: "plain",
		CFlags: []string{"-O1", "-g", "-fno-omit-frame-pointer", "-fsanitize=address,undefined", "-fno-sanitize=nonnull-attribute,returns-nonnull-attribute", "-fno-sanitize-recover=all", "-DWUFFS_CONFIG__AVOID_CPU_ARCH"},
		LFlags: []string{"-fsanitize=address,undefined"}}
)

// BuildWdrive compiles (or finds cached) the driver for a variant.
func BuildWdrive(r *drv.Run, s *Std, v Variant) (string, error) {
	fh := sha256.Sum256([]byte(strings.Join(v.CFlags, " ") + "|" + strings.Join(v.LFlags, " ")))
	vdir := filepath.Join(s.Dir, "bin-"+v.Name+"-"+hex.EncodeToString(fh[:4]))
	bin := filepath.Join(vdir, "wdrive")
	err := withLock(vdir, func() error {
		if _, err := os.Stat(filepath.Join(vdir, "ok")); err == nil {
			return nil
		}
		t0 := time.Now()
		mods := Modules(s)
		if len(mods) < 10 {
			return fmt.Errorf("only %d modules found in %s", len(mods), s.ReleaseC)
		}
		var wg sync.WaitGroup
		sem := make(chan struct{}, 16)
		errs := make(chan error, 4)
		var objs []string
		compile := func(out string, args ...string) {
			defer wg.Done()
			sem <- struct{}{}
			defer func() { <-sem }()
			full := append([]string{}, v.CFlags...)
			full = append(full, "-w", "-c", "-o", out)
			full = append(full, args...)
			cmd := exec.Command(v.CC, full...)
			if o, err := cmd.CombinedOutput(); err != nil {
				errs <- fmt.Errorf("%s %s: %v\n%s", v.CC, strings.Join(full, " "), err, tailS(string(o), 3000))
			}
		}
		// The release file's per-module switches also gate the declarations a
		// module's dependants need, so the library is one translation unit.
		{
			obj := filepath.Join(vdir, "wuffs_all.o")
			objs = append(objs, obj)
			wg.Add(1)
			go compile(obj, "-x", "c", "-DWUFFS_IMPLEMENTATION", s.ReleaseC)
		}
		dobj := filepath.Join(vdir, "wdrive.o")
		objs = append(objs, dobj)
		wg.Add(1)
		go compile(dobj, "-DWUFFS_C_PATH=\""+s.ReleaseC+"\"", filepath.Join(drv.VerifDir, "c", "wdrive.c"))
		wg.Wait()
		close(errs)
		for e := range errs {
			return e
		}
		largs := append([]string{"-o", bin}, objs...)
		largs = append(largs, v.LFlags...)
		cmd := exec.Command(v.CC, largs...)
		if o, err := cmd.CombinedOutput(); err != nil {
			return fmt.Errorf("link: %v\n%s", err, tailS(string(o), 3000))
		}
		drv.Logf("built wdrive[%s] (%d modules) in %.1fs", v.Name, len(mods), time.Since(t0).Seconds())
		return os.WriteFile(filepath.Join(vdir, "ok"), []byte("ok"), 0o644)
	})
	if err != nil {
		return "", err
	}
	return bin, nil
}
