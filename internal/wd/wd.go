// Package wd runs wdrive scripts in child processes and maps their output,
// sanitizer reports and exit statuses back to jobs.
package wd

import (
	"bufio"
	"encoding/json"
	"fmt"
	"os"
	"os/exec"
	"path/filepath"
	"regexp"
	"strconv"
	"strings"
	"sync"
	"syscall"
	"time"
)

// Job is one script block: a "job=decode ..." line, or a "job=hist" line
// followed by step lines and "end".
type Job struct {
	Text string      // the script text of the job (one or more lines, newline-terminated)
	Tag  interface{} // caller's description, carried to the result
}

// Result is what came back for one job.
type Result struct {
	Job    *Job
	Idx    int
	Objs   []map[string]interface{} // JSON objects printed during the job
	Ended  bool                     // END seen
	Crash  string                   // stderr excerpt if the child died in this job
	CrashK string                   // classification: "asan:<kind>", "ubsan:<kind>", "cpu-budget", "signal:<n>", "exit:<n>"
	NotRun bool
}

// Mon returns the monitor messages reported for the job.
func (r *Result) Mon() []string {
	var out []string
	for _, o := range r.Objs {
		if ms, ok := o["mon"].([]interface{}); ok {
			for _, m := range ms {
				out = append(out, fmt.Sprint(m))
			}
		}
	}
	return out
}

// First returns the first JSON object of the job (decode jobs print exactly one).
func (r *Result) First() map[string]interface{} {
	if len(r.Objs) == 0 {
		return nil
	}
	return r.Objs[0]
}

func Str(m map[string]interface{}, k string) string {
	if m == nil {
		return ""
	}
	if v, ok := m[k]; ok && v != nil {
		return fmt.Sprint(v)
	}
	return ""
}

func Num(m map[string]interface{}, k string) int64 {
	if m == nil {
		return 0
	}
	if v, ok := m[k].(float64); ok {
		return int64(v)
	}
	return 0
}

var (
	reAsan  = regexp.MustCompile(`ERROR: AddressSanitizer: ([a-zA-Z0-9_-]+)`)
	reUbsan = regexp.MustCompile(`runtime error: ([^\n]{0,80})`)
	reLoc   = regexp.MustCompile(`(?m)^\s+#\d+ 0x[0-9a-f]+ in (wuffs_[a-zA-Z0-9_]+)`)
	reNum   = regexp.MustCompile(`0x[0-9a-fA-F]+|\d+`)
	reVerif = regexp.MustCompile(`VERIF-FAIL ([a-z-]+) at ([^:]+:\d+)`)
)

// Classify turns a dead child's stderr into a crash kind.
func Classify(stderr string, ws syscall.WaitStatus) string {
	loc := ""
	if m := reLoc.FindStringSubmatch(stderr); m != nil {
		loc = "@" + m[1]
	}
	if m := reVerif.FindStringSubmatch(stderr); m != nil {
		return "checked:" + m[1] + "@" + m[2]
	}
	if m := reAsan.FindStringSubmatch(stderr); m != nil {
		return "asan:" + m[1] + loc
	}
	if m := reUbsan.FindStringSubmatch(stderr); m != nil {
		return "ubsan:" + reNum.ReplaceAllString(m[1], "N") + loc
	}
	if strings.Contains(stderr, "CPUBUDGET") {
		return "cpu-budget"
	}
	if ws.Signaled() {
		return "signal:" + ws.Signal().String()
	}
	return fmt.Sprintf("exit:%d", ws.ExitStatus())
}

// RunBatch runs the jobs sequentially in (restarted as needed) child
// processes. dir must exist; name distinguishes the batch's files.
func RunBatch(bin string, jobs []*Job, dir, name string, env []string, wallSec int) ([]*Result, error) {
	script := filepath.Join(dir, name+".script")
	outp := filepath.Join(dir, name+".out")
	var sb strings.Builder
	for _, j := range jobs {
		sb.WriteString(j.Text)
		if !strings.HasSuffix(j.Text, "\n") {
			sb.WriteByte('\n')
		}
	}
	if err := os.WriteFile(script, []byte(sb.String()), 0o644); err != nil {
		return nil, err
	}
	os.Remove(outp)
	res := make([]*Result, len(jobs))
	for i := range res {
		res[i] = &Result{Job: jobs[i], Idx: i, NotRun: true}
	}
	first := 0
	deadline := time.Now().Add(time.Duration(wallSec) * time.Second)
	for first < len(jobs) {
		errp := filepath.Join(dir, fmt.Sprintf("%s.err.%d", name, first))
		ef, _ := os.Create(errp)
		cmd := exec.Command(bin, script, outp, strconv.Itoa(first))
		cmd.Env = append(os.Environ(), env...)
		cmd.Env = append(cmd.Env, "ASAN_OPTIONS=abort_on_error=0:halt_on_error=1:detect_leaks=0:allocator_may_return_null=1:malloc_context_size=8",
			"UBSAN_OPTIONS=print_stacktrace=1:halt_on_error=1")
		cmd.Stderr = ef
		cmd.Stdout = ef
		cmd.Dir = dir
		if err := cmd.Start(); err != nil {
			ef.Close()
			return res, err
		}
		done := make(chan error, 1)
		go func() { done <- cmd.Wait() }()
		var werr error
		timedOut := false
		select {
		case werr = <-done:
		case <-time.After(time.Until(deadline)):
			timedOut = true
			cmd.Process.Kill()
			werr = <-done
		}
		ef.Close()
		last, lastEnded := parseOut(outp, res)
		if timedOut {
			return res, fmt.Errorf("wall-clock watchdog fired in batch %s at job %d", name, last)
		}
		if werr == nil {
			break
		}
		// the child died: attribute to the job that had begun but not ended
		eb, _ := os.ReadFile(errp)
		ws, _ := cmd.ProcessState.Sys().(syscall.WaitStatus)
		if last < 0 || lastEnded {
			// died between jobs (should not happen)
			return res, fmt.Errorf("wdrive died outside a job (after job %d): %v\n%s", last, werr, tailS(string(eb), 1500))
		}
		res[last].Crash = tailS(string(eb), 6000)
		res[last].CrashK = Classify(string(eb), ws)
		first = last + 1
		// truncate output marker so the next parse does not see stale state: keep file, parseOut is idempotent
	}
	return res, nil
}

func tailS(s string, n int) string {
	if len(s) <= n {
		return s
	}
	return "..." + s[len(s)-n:]
}

// parseOut re-reads the whole output file and fills results; returns the last
// job number begun and whether it ended.
func parseOut(path string, res []*Result) (last int, ended bool) {
	last = -1
	f, err := os.Open(path)
	if err != nil {
		return
	}
	defer f.Close()
	for _, r := range res {
		r.Objs = nil
	}
	sc := bufio.NewScanner(f)
	sc.Buffer(make([]byte, 1<<20), 1<<26)
	cur := -1
	for sc.Scan() {
		ln := sc.Text()
		switch {
		case strings.HasPrefix(ln, "BEGIN "):
			cur, _ = strconv.Atoi(ln[6:])
			last, ended = cur, false
			if cur >= 0 && cur < len(res) {
				res[cur].NotRun = false
				res[cur].Ended = false
			}
		case strings.HasPrefix(ln, "END "):
			n, _ := strconv.Atoi(ln[4:])
			if n >= 0 && n < len(res) {
				res[n].Ended = true
			}
			if n == last {
				ended = true
			}
			cur = -1
		case strings.HasPrefix(ln, "{"):
			var m map[string]interface{}
			if json.Unmarshal([]byte(ln), &m) == nil && cur >= 0 && cur < len(res) {
				res[cur].Objs = append(res[cur].Objs, m)
			}
		}
	}
	return
}

// RunParallel splits jobs round-robin over n workers.
func RunParallel(bin string, jobs []*Job, dir, name string, env []string, n, wallSec int) ([]*Result, error) {
	if n < 1 {
		n = 1
	}
	if n > len(jobs) {
		n = len(jobs)
	}
	if n == 0 {
		return nil, nil
	}
	parts := make([][]*Job, n)
	idxs := make([][]int, n)
	for i, j := range jobs {
		parts[i%n] = append(parts[i%n], j)
		idxs[i%n] = append(idxs[i%n], i)
	}
	out := make([]*Result, len(jobs))
	var wg sync.WaitGroup
	var mu sync.Mutex
	var firstErr error
	for w := 0; w < n; w++ {
		wg.Add(1)
		go func(w int) {
			defer wg.Done()
			rs, err := RunBatch(bin, parts[w], dir, fmt.Sprintf("%s.w%d", name, w), env, wallSec)
			mu.Lock()
			defer mu.Unlock()
			if err != nil && firstErr == nil {
				firstErr = err
			}
			for k, r := range rs {
				if r != nil {
					r.Idx = idxs[w][k]
					out[idxs[w][k]] = r
				}
			}
		}(w)
	}
	wg.Wait()
	return out, firstErr
}
