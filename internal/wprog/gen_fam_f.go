package wprog

import (
	"fmt"
	"math/rand"
)

// F-families: facts from conditions and assignments, their invalidation,
// reconciliation across branches, loop invariants, axioms.

func init() {
	allFamilies = append(allFamilies,
		family{"F-if-chain", 5, famIfChain},
		family{"F-assign-fact", 6, famAssignFact},
		family{"F-while-inv", 7, famWhileInv},
		family{"F-loop-cond-entry-fact", 2, famLoopCondEntryFact},
		family{"F-impure-call", 4, famImpureCall},
		family{"F-pure-call-fact", 3, famPureCallFact},
		family{"F-slice-alias", 3, famSliceAlias},
		family{"F-axiom", 4, famAxiom},
		family{"F-nested-jump", 4, famNestedJump},
		family{"F-unify", 4, famUnify},
	)
}

// if / else if chains with reconciliation through asserts
func famIfChain(g *genctx, v int) *scen {
	L := uint64(g.pick(4, 8, 10))
	a, m := g.n("a"), g.n("chain")
	els := fmt.Sprintf("        x = %d\n        assert x < %d", L-1, L)
	mid := fmt.Sprintf("    } else if x < %d {\n        x -= %d", 2*L, L)
	switch v {
	case 1: // else branch establishes a weaker fact than needed
		els = fmt.Sprintf("        x = %d\n        assert x <= %d", L-1, L)
	case 2: // middle branch lower bound missing: x in [L, 2L) minus L is < L: safe; break it by subtracting less
		mid = fmt.Sprintf("    } else if x < %d {\n        x -= %d", 2*L, L-1)
	case 3: // else assigns out of range
		els = fmt.Sprintf("        x = %d\n        assert x < %d", L, L+1)
	case 4: // no assert in the else arm: reconciliation must lose the fact
		els = fmt.Sprintf("        x = %d", L-1)
	}
	s := &scen{features: []string{"if-else-chain", "assert", "reconcile"}}
	s.fields = []string{fmt.Sprintf("%s : array[%d] base.u8", a, L)}
	s.methods = []string{fmt.Sprintf("pub func obj.%s!(x: base.u32) base.u32 {\n    var x : base.u32\n    x = args.x\n    if x < %d {\n        // keep\n%s\n        assert x < %d via \"a < b: a < c; c <= b\"(c: %d)\n    } else {\n%s\n    }\n    this.%s[x] = 5\n    return x\n}",
		m, L, mid, L, L, els, a)}
	if v == 2 {
		// the via-proof above would no longer hold; let the checker find it by itself
		s.methods = []string{fmt.Sprintf("pub func obj.%s!(x: base.u32) base.u32 {\n    var x : base.u32\n    x = args.x\n    if x < %d {\n        // keep\n%s\n    } else {\n%s\n    }\n    this.%s[x] = 5\n    return x\n}",
			m, L, mid, els, a)}
	}
	s.drive = func(r *rand.Rand) []Call {
		return callsOver(r, m, [][]uint64{{0, 1, L - 1, L, L + 1, 2*L - 1, 2 * L, 2*L + 1, 1 << 31, 1<<32 - 1}}, 20)
	}
	return s
}

// facts minted by assignments, including self-referential right-hand sides
func famAssignFact(g *genctx, v int) *scen {
	L := uint64(g.pick(4, 16))
	a, m := g.n("a"), g.n("asg")
	var body string
	switch v {
	case 0: // y = x & mask: fact y == (x & mask), range from the expression
		body = fmt.Sprintf("    y = args.x & %d\n    this.%s[y] = 1\n    return y", L-1, a)
	case 1: // x = x + 1 (known hole: mints x == x + 1)
		body = fmt.Sprintf("    y = args.x & %d\n    if y < %d {\n        y = y + 1\n        this.%s[y] = 1\n    }\n    return y", 2*L-1, L, a)
	case 2: // += rewrites the fact y < L into y < L + 1
		body = fmt.Sprintf("    y = args.x & %d\n    if y < %d {\n        y += 1\n        this.%s[y] = 1\n    }\n    return y", 2*L-1, L, a)
	case 3: // safe form of the above
		body = fmt.Sprintf("    y = args.x & %d\n    if y < %d {\n        y += 1\n        this.%s[y] = 1\n    }\n    return y", 2*L-1, L-1, a)
	case 4: // y -= y
		body = fmt.Sprintf("    y = args.x & %d\n    if y > %d {\n        y -= y\n        this.%s[y] = 1\n    }\n    return y", 2*L-1, L, a)
	case 5: // t == (t ~sat+ c) style self-reference
		body = fmt.Sprintf("    y = args.x\n    y = y ~sat+ 0xFFFFFF00\n    if y < %d {\n        this.%s[y] = 1\n    }\n    return y", L, a)
	}
	s := &scen{features: []string{"assign-fact", "+="}}
	s.fields = []string{fmt.Sprintf("%s : array[%d] base.u8", a, L)}
	s.methods = []string{fmt.Sprintf("pub func obj.%s!(x: base.u32) base.u32 {\n    var y : base.u32\n%s\n}", m, body)}
	s.drive = func(r *rand.Rand) []Call {
		return callsOver(r, m, [][]uint64{{0, 1, L - 2, L - 1, L, L + 1, 2*L - 1, 2 * L, 255, 256, 1<<32 - 1}}, 20)
	}
	return s
}

// while loops with invariants and post-conditions
func famWhileInv(g *genctx, v int) *scen {
	L := uint64(g.pick(4, 8, 32))
	a, m := g.n("a"), g.n("loop")
	inv := fmt.Sprintf("inv i <= %d", L)
	cond := fmt.Sprintf("i < %d", L)
	step := "i += 1"
	post := fmt.Sprintf("post i >= %d", L)
	tail := fmt.Sprintf("    assert i == %d via \"a == b: a <= b; a >= b\"()\n    return i", L)
	tail = "    return i"
	switch v {
	case 1:
		cond = fmt.Sprintf("i <= %d", L) // index may reach L
	case 2:
		step = "i += 2" // may jump past L: invariant i <= L fails for odd L... L is even: i stays even; still safe
	case 3:
		inv = fmt.Sprintf("inv i <= %d", L+1)
	case 4: // break in the middle: post must hold at the break
		step = fmt.Sprintf("if this.%s[i] == 7 {\n            break\n        }\n        i += 1", a)
	case 5: // continue before the increment would loop forever; use a bounded variant with a second counter
		step = fmt.Sprintf("i += 1\n        if (i & 1) == 0 {\n            continue\n        }\n        n ~mod+= 1")
	case 6: // post condition too strong
		post = fmt.Sprintf("post i > %d", L)
	}
	s := &scen{features: []string{"while", "inv", "post"}}
	s.fields = []string{fmt.Sprintf("%s : array[%d] base.u8", a, L)}
	s.methods = []string{fmt.Sprintf("pub func obj.%s!(v: base.u8) base.u32 {\n    var i : base.u32\n    var n : base.u32\n    while %s,\n            %s,\n            %s,\n    {\n        this.%s[i] = args.v\n        %s\n    }\n%s\n}",
		m, cond, inv, post, a, step, tail)}
	if v == 4 {
		// with a break the post-condition is not implied by the negated loop condition
		s.methods = []string{fmt.Sprintf("pub func obj.%s!(v: base.u8) base.u32 {\n    var i : base.u32\n    var n : base.u32\n    while %s,\n            %s,\n    {\n        this.%s[i] = args.v\n        %s\n    }\n%s\n}",
			m, cond, inv, a, step, tail)}
	}
	s.drive = func(r *rand.Rand) []Call {
		return callsOver(r, m, [][]uint64{{0, 7, 255}}, 6)
	}
	return s
}

// the loop condition itself indexes with a variable the body changes (known hole)
func famLoopCondEntryFact(g *genctx, v int) *scen {
	a, m := g.n("a"), g.n("scan")
	body := "i = (i & 0xFF) + 1"
	if v == 1 {
		body = "i = (i + 1) & 3"
	}
	s := &scen{features: []string{"while", "loop-condition-index"}}
	s.fields = []string{fmt.Sprintf("%s : array[4] base.u8", a)}
	s.methods = []string{
		fmt.Sprintf("pub func obj.%s!(v: base.u8) base.u32 {\n    var i : base.u32\n    var n : base.u32\n    this.%s[3] = args.v\n    i = 0\n    while (this.%s[i] == 0) and (n < 10) {\n        %s\n        n += 1\n    }\n    return i\n}", m, a, a, body),
	}
	s.drive = func(r *rand.Rand) []Call {
		return callsOver(r, m, [][]uint64{{0, 1}}, 4)
	}
	return s
}

// facts about fields across impure method calls
func famImpureCall(g *genctx, v int) *scen {
	L := uint64(g.pick(4, 8))
	a, idx, m, bump := g.n("a"), g.n("idx"), g.n("use"), g.n("bump")
	var body string
	switch v {
	case 0: // re-check after the call
		body = fmt.Sprintf("    if this.%s < %d {\n        this.%s!()\n        if this.%s < %d {\n            this.%s[this.%s] = 1\n        }\n    }\n    return this.%s", idx, L, bump, idx, L, a, idx, idx)
	case 1: // fact used after the impure call changed the field
		body = fmt.Sprintf("    if this.%s < %d {\n        this.%s!()\n        this.%s[this.%s] = 1\n    }\n    return this.%s", idx, L, bump, a, idx, idx)
	case 2: // local copy survives the call (safe)
		body = fmt.Sprintf("    var k : base.u32\n    k = this.%s\n    if k < %d {\n        this.%s!()\n        this.%s[k] = 1\n    }\n    return this.%s", idx, L, bump, a, idx)
	case 3: // fact on args survives an impure call (safe)
		body = fmt.Sprintf("    if args.x < %d {\n        this.%s!()\n        this.%s[args.x] = 1\n    }\n    return this.%s", L, bump, a, idx)
	}
	if v == 2 {
		// var declarations must come first
		body = fmt.Sprintf("    k = this.%s\n    if k < %d {\n        this.%s!()\n        this.%s[k] = 1\n    }\n    return this.%s", idx, L, bump, a, idx)
	}
	s := &scen{features: []string{"impure-call", "field-fact"}}
	s.fields = []string{fmt.Sprintf("%s : array[%d] base.u8", a, L), idx + " : base.u32"}
	s.methods = []string{
		fmt.Sprintf("pri func obj.%s!() {\n    this.%s ~mod+= 3\n}", bump, idx),
		fmt.Sprintf("pub func obj.%s!(x: base.u32) base.u32 {\n    var k : base.u32\n%s\n}", m, body),
		fmt.Sprintf("pub func obj.%s!(x: base.u32) {\n    this.%s = args.x\n}", g.n("setidx"), idx),
	}
	s.drive = func(r *rand.Rand) []Call {
		var out []Call
		for _, x := range []uint64{0, L - 3, L - 2, L - 1, L, 1<<32 - 2} {
			out = append(out, Call{Method: g.n("setidx"), Args: []Arg{iarg(x)}})
			out = append(out, Call{Method: m, Args: []Arg{iarg(x % (L + 1))}})
		}
		return out
	}
	return s
}

// a fact about a pure method's result must die when a field it reads changes (known hole)
func famPureCallFact(g *genctx, v int) *scen {
	a, idx, get, m := g.n("a"), g.n("idx"), g.n("get"), g.n("pcf")
	var body string
	switch v {
	case 0: // safe: the call is repeated after the store
		body = fmt.Sprintf("    if this.%s() < 4 {\n        this.%s[this.%s()] = 1\n    }", get, a, get)
	case 1: // stale fact after this.idx = ...
		body = fmt.Sprintf("    if this.%s() < 4 {\n        this.%s = args.x\n        this.%s[this.%s()] = 1\n    }", get, idx, a, get)
	case 2: // store to an unrelated field: still safe in reality
		body = fmt.Sprintf("    if this.%s() < 4 {\n        this.%s[0] = 2\n        this.%s[this.%s()] = 1\n    }", get, a, a, get)
	}
	s := &scen{features: []string{"pure-call-fact"}}
	s.fields = []string{fmt.Sprintf("%s : array[4] base.u8", a), idx + " : base.u32"}
	s.methods = []string{
		fmt.Sprintf("pub func obj.%s() base.u32 {\n    return this.%s\n}", get, idx),
		fmt.Sprintf("pub func obj.%s!(x: base.u32) {\n%s\n}", m, body),
	}
	s.getters = []string{get}
	s.drive = func(r *rand.Rand) []Call {
		return callsOver(r, m, [][]uint64{{0, 3, 4, 5, 1000}}, 8)
	}
	return s
}

// a store through a slice that aliases a field (known hole)
func famSliceAlias(g *genctx, v int) *scen {
	a, b, m := g.n("a"), g.n("b"), g.n("alias")
	var body string
	switch v {
	case 0: // re-check after the store
		body = fmt.Sprintf("    s = this.%s[.. 8]\n    if this.%s[0] < 4 {\n        s[0] = args.x\n        if this.%s[0] < 4 {\n            this.%s[this.%s[0]] = 7\n        }\n    }", b, b, b, a, b)
	case 1: // stale fact
		body = fmt.Sprintf("    s = this.%s[.. 8]\n    if this.%s[0] < 4 {\n        s[0] = args.x\n        this.%s[this.%s[0]] = 7\n    }", b, b, a, b)
	case 2: // store through the slice to another element (safe in reality)
		body = fmt.Sprintf("    s = this.%s[.. 8]\n    if this.%s[0] < 4 {\n        s[1] = args.x\n        this.%s[this.%s[0]] = 7\n    }", b, b, a, b)
	}
	s := &scen{features: []string{"slice-alias"}}
	s.fields = []string{fmt.Sprintf("%s : array[4] base.u8", a), fmt.Sprintf("%s : array[8] base.u8", b)}
	s.methods = []string{fmt.Sprintf("pub func obj.%s!(x: base.u8) {\n    var s : slice base.u8\n%s\n}", m, body)}
	s.drive = func(r *rand.Rand) []Call {
		return callsOver(r, m, [][]uint64{{0, 3, 4, 200, 0, 255}}, 8)
	}
	return s
}

// every axiom: premises established by enclosing ifs over small refined
// arguments; all argument tuples are driven; variants drop one premise.
var axioms = []struct {
	name       string
	concl      string   // conclusion with a, b (and c / b0, c0 as further terms)
	premises   []string // in terms of a, b, c, b0, c0
	extraTerms []string // names other than a, b that the via clause must bind
}{
	{"a < b: b > a", "a < b", []string{"b > a"}, nil},
	{"a < b: a < c; c < b", "a < b", []string{"a < c", "c < b"}, []string{"c"}},
	{"a < b: a < c; c == b", "a < b", []string{"a < c", "c == b"}, []string{"c"}},
	{"a < b: a == c; c < b", "a < b", []string{"a == c", "c < b"}, []string{"c"}},
	{"a < b: a < c; c <= b", "a < b", []string{"a < c", "c <= b"}, []string{"c"}},
	{"a < b: a <= c; c < b", "a < b", []string{"a <= c", "c < b"}, []string{"c"}},
	{"a > b: b < a", "a > b", []string{"b < a"}, nil},
	{"a <= b: a == b", "a <= b", []string{"a == b"}, nil},
	{"a <= b: b >= a", "a <= b", []string{"b >= a"}, nil},
	{"a <= b: a <= c; c <= b", "a <= b", []string{"a <= c", "c <= b"}, []string{"c"}},
	{"a <= b: a <= c; c == b", "a <= b", []string{"a <= c", "c == b"}, []string{"c"}},
	{"a <= b: a == c; c <= b", "a <= b", []string{"a == c", "c <= b"}, []string{"c"}},
	{"a >= b: a == b", "a >= b", []string{"a == b"}, nil},
	{"a >= b: b <= a", "a >= b", []string{"b <= a"}, nil},
	{"a >= b: a >= (b + c); 0 <= c", "a >= b", []string{"a >= (b + c)", "0 <= c"}, []string{"c"}},
	{"a < (b + c): a < c; 0 <= b", "a < (b + c)", []string{"a < c", "0 <= b"}, nil},
	{"a < (b + c): a < (b0 + c0); b0 <= b; c0 <= c", "a < (b + c)", []string{"a < (b0 + c0)", "b0 <= b", "c0 <= c"}, []string{"b0", "c0"}},
	{"a <= (a + b): 0 <= b", "a <= (a + b)", []string{"0 <= b"}, nil},
	{"(a + b) <= c: a <= (c - b)", "(a + b) <= c", []string{"a <= (c - b)"}, nil},
	{"(a - b) < c: a < c; 0 <= b", "(a - b) < c", []string{"a < c", "0 <= b"}, nil},
}

func famAxiom(g *genctx, v int) *scen {
	ax := axioms[g.r.Intn(len(axioms))]
	// variant: 0 = all premises; k>0 = drop premise (k-1) mod len
	drop := -1
	if v > 0 {
		drop = (v - 1) % len(ax.premises)
	}
	// terms are small refined arguments
	terms := []string{"a", "b", "c", "b0", "c0"}
	used := map[string]bool{}
	for _, t := range terms {
		for _, s := range append([]string{ax.concl}, ax.premises...) {
			for _, tok := range splitIdents(s) {
				if tok == t {
					used[t] = true
				}
			}
		}
	}
	var argDecl []string
	var argNames []string
	for _, t := range terms {
		if used[t] {
			argDecl = append(argDecl, fmt.Sprintf("%s: base.u32[..= 5]", t))
			argNames = append(argNames, t)
		}
	}
	subst := func(s string) string {
		out := ""
		for _, tok := range splitTokens(s) {
			if used[tok] {
				out += "args." + tok
			} else {
				out += tok
			}
		}
		return out
	}
	m, f := g.n("ax"), g.n("hit")
	var sb string
	indent := "    "
	nOpen := 0
	if ax.name == "(a - b) < c: a < c; 0 <= b" {
		sb += indent + "if args.a >= args.b {\n"
		indent += "    "
		nOpen++
	}
	if ax.name == "(a + b) <= c: a <= (c - b)" {
		// the premise itself must be a valid expression: c - b must not underflow
		sb += indent + "if args.c >= args.b {\n"
		indent += "    "
		nOpen++
	}
	for i, p := range ax.premises {
		if i == drop {
			continue
		}
		if p == "0 <= b" || p == "0 <= c" {
			continue // unsigned: true by type, the checker proves it from the range
		}
		sb += fmt.Sprintf("%sif %s {\n", indent, subst(p))
		indent += "    "
		nOpen++
	}
	via := ""
	for i, t := range ax.extraTerms {
		if i > 0 {
			via += ", "
		}
		via += fmt.Sprintf("%s: args.%s", t, t)
	}
	sb += fmt.Sprintf("%sassert %s via \"%s\"(%s)\n", indent, subst(ax.concl), ax.name, via)
	sb += fmt.Sprintf("%sthis.%s ~mod+= 1\n", indent, f)
	for i := 0; i < nOpen; i++ {
		indent = indent[:len(indent)-4]
		sb += indent + "}\n"
	}
	s := &scen{features: []string{"axiom:" + ax.name}}
	s.fields = []string{f + " : base.u32"}
	s.methods = []string{fmt.Sprintf("pub func obj.%s!(%s) {\n%s}", m, joinComma(argDecl), sb)}
	s.drive = func(r *rand.Rand) []Call {
		vals := make([][]uint64, len(argNames))
		for i := range vals {
			vals[i] = []uint64{0, 1, 2, 3, 4, 5}
		}
		return callsOver(r, m, vals, 7776) // all tuples up to 6^5
	}
	return s
}

func joinComma(ss []string) string {
	out := ""
	for i, s := range ss {
		if i > 0 {
			out += ", "
		}
		out += s
	}
	return out
}

func isIdentByte(c byte) bool {
	return c == '_' || (c >= 'a' && c <= 'z') || (c >= 'A' && c <= 'Z') || (c >= '0' && c <= '9')
}

func splitTokens(s string) []string {
	var out []string
	for i := 0; i < len(s); {
		j := i
		if isIdentByte(s[i]) {
			for j < len(s) && isIdentByte(s[j]) {
				j++
			}
		} else {
			j = i + 1
		}
		out = append(out, s[i:j])
		i = j
	}
	return out
}

func splitIdents(s string) []string {
	var out []string
	for _, t := range splitTokens(s) {
		if isIdentByte(t[0]) {
			out = append(out, t)
		}
	}
	return out
}

// labelled break / continue out of nested loops, facts at the jump targets
func famNestedJump(g *genctx, v int) *scen {
	L := uint64(g.pick(3, 5))
	a, m := g.n("grid"), g.n("nest")
	inner := "break.outer"
	switch v {
	case 1:
		inner = "continue.outer"
	case 2:
		inner = "break"
	case 3:
		inner = "continue"
	}
	s := &scen{features: []string{"labelled-jump", inner}}
	s.fields = []string{fmt.Sprintf("%s : array[%d] array[%d] base.u8", a, L, L)}
	s.methods = []string{fmt.Sprintf(`pub func obj.%s!(stop: base.u32) base.u32 {
    var i : base.u32
    var j : base.u32
    var k : base.u32
    var n : base.u32
    while.outer i < %d,
            inv n <= 1000,
    {
        k = i
        j = 0
        i += 1
        while j < %d,
                inv k < %d,
                inv n <= 1000,
        {
            this.%s[k][j] = (n & 0xFF) as base.u8
            j += 1
            if n < 1000 {
                n += 1
            }
            if n == args.stop {
                %s
            }
        }
    }.outer
    return (n * 16) + (i & 15)
}`, m, L, L, L, a, inner)}
	s.drive = func(r *rand.Rand) []Call {
		return callsOver(r, m, [][]uint64{{0, 1, 2, L, L + 1, L*L - 1, L * L, 1000}}, 10)
	}
	return s
}

// facts reconciled after an if: a fact survives only if every non-terminating
// branch holds it. Near-misses make ONE branch hold the fact twice (two
// differently spelled guards that an I/O advance rewrites to the same fact),
// which must not make up for the branch that does not hold it.
func famUnify(g *genctx, v int) *scen {
	m, f := g.n("uni"), g.n("v")
	var sig, body string
	switch v {
	case 0: // safe: the use after the if is guarded again
		sig = "dst: base.io_writer, sel: base.u32"
		body = "    if args.sel <> 0 {\n        if args.dst.length() < 8 {\n            return nothing\n        }\n        args.dst.write_u32le_fast!(a: 0x1111_1111)\n    }\n    if args.dst.length() >= 4 {\n        args.dst.write_u32le_fast!(a: 0x2222_2222)\n    }"
	case 1: // writer: `> 7` and `>= 8` both become `>= 4` after the fast write
		sig = "dst: base.io_writer, sel: base.u32"
		body = "    if args.sel <> 0 {\n        if args.dst.length() <= 7 {\n            return nothing\n        }\n        if args.dst.length() < 8 {\n            return nothing\n        }\n        args.dst.write_u32le_fast!(a: 0x1111_1111)\n    }\n    args.dst.write_u32le_fast!(a: 0x2222_2222)"
	case 2: // reader: same through skip_u32_fast
		sig = "src: base.io_reader, sel: base.u32"
		body = fmt.Sprintf("    if args.sel <> 0 {\n        if args.src.length() <= 7 {\n            return nothing\n        }\n        if args.src.length() < 8 {\n            return nothing\n        }\n        this.%s = args.src.peek_u32le()\n        args.src.skip_u32_fast!(actual: 4, worst_case: 4)\n    }\n    this.%s ~mod+= args.src.peek_u32le()", f, f)
	case 3: // three branches, the fact twice in one of them and once in another
		sig = "dst: base.io_writer, sel: base.u32"
		body = "    if args.sel == 1 {\n        if args.dst.length() <= 7 {\n            return nothing\n        }\n        if args.dst.length() < 8 {\n            return nothing\n        }\n        args.dst.write_u32le_fast!(a: 0x1111_1111)\n    } else if args.sel == 2 {\n        if args.dst.length() < 4 {\n            return nothing\n        }\n    } else {\n        this." + f + " = 7\n    }\n    args.dst.write_u32le_fast!(a: 0x2222_2222)"
	}
	s := &scen{features: []string{"if-reconcile", "io-advance-facts"}}
	s.fields = []string{f + " : base.u32"}
	s.methods = []string{
		fmt.Sprintf("pub func obj.%s!(%s) {\n%s\n}", m, sig, body),
		fmt.Sprintf("pub func obj.%s() base.u32 {\n    return this.%s\n}", g.n("getv"), f),
	}
	s.getters = []string{g.n("getv")}
	s.drive = func(r *rand.Rand) []Call {
		var out []Call
		for _, sel := range []uint64{0, 1, 2, 3} {
			for _, n := range []int{0, 1, 2, 3, 3, 5, 9} {
				var io Arg
				if v == 2 {
					io = Arg{Kind: "reader", Reader: &ReaderOp{Append: randBytes(r, n), Close: r.Intn(2) == 0}}
				} else {
					io = Arg{Kind: "writer", Writer: &WriterOp{Grow: n}}
				}
				out = append(out, Call{Method: m, Args: []Arg{io, iarg(sel)}})
			}
		}
		r.Shuffle(len(out), func(i, j int) { out[i], out[j] = out[j], out[i] })
		// the branch that does not establish the fact, on a nearly empty buffer, first
		for i, c := range out {
			small := (c.Args[0].Writer != nil && c.Args[0].Writer.Grow < 4) || (c.Args[0].Reader != nil && len(c.Args[0].Reader.Append) < 4)
			if small && (c.Args[1].Int == 0 || c.Args[1].Int == 3) {
				out[0], out[i] = out[i], out[0]
				break
			}
		}
		return out
	}
	return s
}
