package wprog

// Expressions and the C01 obligations attached to them.

import (
	"fmt"
	a "github.com/google/wuffs/lang/ast"
	t "github.com/google/wuffs/lang/token"
)

// ---- obligations

func (in *interp) monitoring() bool { return in.ideal == 0 && in.quiet == 0 }

// obligation records that an obligation of the given kind was evaluated.
func (in *interp) obligation(kind string, nearEdge bool) {
	if !in.monitoring() {
		return
	}
	in.out.Stats.Obligations[kind]++
	if nearEdge {
		in.out.Stats.NearEdge[kind]++
	}
}

func (in *interp) violation(fr *frame, kind string, e *a.Expr, values, limit string) {
	if in.ideal > 0 {
		panic(evalFail{kind})
	}
	in.event(Event{Prop: "C01", Kind: kind, Node: in.nodeText(fr, e), Line: fr.line, Values: values, Limit: limit})
}

// checkRange checks lo <= v <= hi for a (refined) destination type; on a
// violation it reports and returns the value the C would hold (wrapped).
func (in *interp) checkRange(fr *frame, kind string, e *a.Expr, v num, nt *numType) num {
	if in.ideal > 0 {
		return v
	}
	near := false
	if v.isU64() && nt.hi.isU64() && v.u <= nt.hi.u && nt.hi.u-v.u <= 1 {
		near = true
	}
	if !nt.lo.isZero() && v.isU64() && nt.lo.isU64() && v.u >= nt.lo.u && v.u-nt.lo.u <= 1 {
		near = true
	}
	in.obligation(kind, near)
	if v.cmp(nt.lo) < 0 || v.cmp(nt.hi) > 0 {
		in.violation(fr, kind, e, v.String(), "["+nt.lo.String()+" ..= "+nt.hi.String()+"]")
		return nU(v.wrap(nt.bits))
	}
	return v
}

// checkFits checks that an ideal arithmetic result fits an unsigned type of
// the given width.
func (in *interp) checkFits(fr *frame, kind string, e *a.Expr, v num, nbits uint, operands string) num {
	if in.ideal > 0 {
		return v
	}
	max := maxOfBits(nbits)
	near := false
	if v.isU64() && v.u <= max {
		if kind == "overflow:-" {
			near = v.u <= 1
		} else {
			near = max-v.u <= 1
		}
	}
	in.obligation(kind, near)
	if !v.isU64() || v.u > max {
		in.violation(fr, kind, e, operands+" -> "+v.String(), "[0 ..= "+nU(max).String()+"]")
		return nU(v.wrap(nbits))
	}
	return v
}

// checkIndex checks 0 <= i < n.
func (in *interp) checkIndex(fr *frame, e *a.Expr, i num, n int) (int, bool) {
	ok := i.isU64() && i.u < uint64(n)
	if in.ideal > 0 {
		if !ok {
			panic(evalFail{"index"})
		}
		return int(i.u), true
	}
	in.obligation("index-out-of-range", ok && uint64(n)-i.u <= 2)
	if !ok {
		in.violation(fr, "index-out-of-range", e, i.String(), "< "+nI(int64(n)).String())
		return 0, false
	}
	return int(i.u), true
}

// ---- typed evaluation helpers

func (in *interp) evalNum(fr *frame, e *a.Expr) num {
	if cv := e.ConstValue(); cv != nil {
		if cv.IsUint64() {
			return nU(cv.Uint64())
		}
		return nBig(cv)
	}
	return in.eval(fr, e).n
}

func (in *interp) evalBool(fr *frame, e *a.Expr) bool {
	if cv := e.ConstValue(); cv != nil {
		return cv.Sign() != 0
	}
	return !in.eval(fr, e).n.isZero()
}

func (in *interp) evalStatus(fr *frame, e *a.Expr) string {
	v := in.eval(fr, e)
	if v.k != vkStatus {
		unsupp("status expression %s", e.Str(in.p.tm))
	}
	return v.s
}

func (in *interp) evalSlice(fr *frame, e *a.Expr) sliceVal {
	v := in.eval(fr, e)
	if v.k != vkSlice {
		unsupp("slice expression %s", e.Str(in.p.tm))
	}
	return v.sl
}

func (in *interp) evalObj(fr *frame, e *a.Expr) *object {
	if e.Operator() == 0 && e.Ident() == t.IDThis {
		return fr.this
	}
	v := in.eval(fr, e)
	if v.k != vkObj {
		unsupp("object expression %s", e.Str(in.p.tm))
	}
	return v.obj
}

func typeBits(p *Program, typ *a.TypeExpr) uint {
	if typ == nil {
		return 0
	}
	if nt := p.numTypeOf(typ); nt != nil {
		return nt.bits
	}
	return 0
}

// ---- eval

// eval evaluates e and, while monitoring, checks the C01 clause "every value
// ... lies inside the range the compiler derived for that use": the bounds the
// checker attached to the expression node (MBounds) must contain the value
// every time the node is evaluated.
func (in *interp) eval(fr *frame, e *a.Expr) value {
	v := in.eval0(fr, e)
	if v.k == vkNum && in.monitoring() {
		if mb := e.MBounds(); mb[0] != nil && mb[1] != nil {
			if x := v.n.big(); x.Cmp(mb[0]) < 0 || x.Cmp(mb[1]) > 0 {
				in.event(Event{Prop: "C01", Kind: "value-outside-derived-range", Node: in.nodeText(fr, e), Line: fr.line,
					Values: v.n.String(), Limit: fmt.Sprintf("[%s ..= %s]", mb[0], mb[1])})
			}
		}
	}
	return v
}

func (in *interp) eval0(fr *frame, e *a.Expr) value {
	if cv := e.ConstValue(); cv != nil {
		typ := e.MType()
		switch {
		case typ == nil || typ.IsNumTypeOrIdeal():
			if cv.IsUint64() {
				return value{k: vkNum, n: nU(cv.Uint64())}
			}
			return value{k: vkNum, n: nBig(cv)}
		case typ.IsBool():
			return value{k: vkBool, n: nBool(cv.Sign() != 0)}
		case typ.IsStatus():
			return value{k: vkStatus}
		case typ.IsEmptyStruct():
			return value{k: vkNone}
		}
		unsupp("constant of type %s", typ.Str(in.p.tm))
	}

	switch op := e.Operator(); {
	case op.IsXUnaryOp():
		return in.evalUnary(fr, e)
	case op.IsXBinaryOp():
		return in.evalBinary(fr, e)
	case op.IsXAssociativeOp():
		return in.evalAssociative(fr, e)
	}

	switch e.Operator() {
	case 0:
		return in.evalIdent(fr, e)
	case t.IDOpenParen:
		return in.evalCall(fr, e)
	case t.IDOpenBracket:
		return in.evalIndex(fr, e)
	case t.IDDotDot:
		return in.evalSliceExpr(fr, e)
	case t.IDDot:
		return in.evalDot(fr, e)
	}
	unsupp("expression %s", e.Str(in.p.tm))
	return value{}
}

func (in *interp) evalIdent(fr *frame, e *a.Expr) value {
	id := e.Ident()
	if idx, ok := fr.fn.locIdx[id]; ok {
		return fr.locals[idx].v
	}
	switch id {
	case t.IDThis:
		return value{k: vkObj, obj: fr.this}
	case t.IDCoroutineResumed:
		return value{k: vkBool, n: nBool(fr.act != nil && fr.resumed)}
	}
	if id.IsDQStrLiteral(in.p.tm) {
		if s, ok := in.p.statuses[id]; ok {
			return value{k: vkStatus, s: s}
		}
		unsupp("status %s", id.Str(in.p.tm))
	}
	if ci, ok := in.p.consts[id]; ok {
		return value{k: vkArray, arr: in.constArray(ci)}
	}
	unsupp("identifier %s", id.Str(in.p.tm))
	return value{}
}

func (in *interp) constArray(ci *constInfo) arrayRef {
	in.p.constMu.Lock()
	defer in.p.constMu.Unlock()
	if ci.arr.m != nil {
		return ci.arr
	}
	typ := ci.node.XType()
	arr := in.newArray(typ)
	i := 0
	var fill func(e *a.Expr)
	fill = func(e *a.Expr) {
		if args, ok := e.IsList(); ok {
			for _, o := range args {
				fill(o.AsExpr())
			}
			return
		}
		cv := e.ConstValue()
		if cv == nil || !cv.IsUint64() {
			unsupp("const element")
		}
		if arr.m.b != nil {
			arr.m.b[i] = byte(cv.Uint64())
		} else {
			arr.m.w[i] = cv.Uint64()
		}
		i++
	}
	fill(ci.node.Value())
	arr.m.ro = true
	ci.arr = arr
	return arr
}

func (in *interp) evalDot(fr *frame, e *a.Expr) value {
	lhs := e.LHS().AsExpr()
	if lhs.Operator() == 0 {
		switch lhs.Ident() {
		case t.IDArgs:
			if idx, ok := fr.fn.argIdx[e.Ident()]; ok {
				return fr.args[idx].v
			}
			unsupp("argument %s", e.Str(in.p.tm))
		case t.IDBase:
			if e.Ident().IsDQStrLiteral(in.p.tm) {
				msg, _ := t.Unescape(e.Ident().Str(in.p.tm))
				if msg != "" {
					return value{k: vkStatus, s: msg[:1] + "base: " + msg[1:]}
				}
			}
			unsupp("base.%s", e.Ident().Str(in.p.tm))
		}
	}
	obj := in.evalObj(fr, lhs)
	if idx, ok := obj.si.index[e.Ident()]; ok {
		return obj.fields[idx].v
	}
	unsupp("selector %s", e.Str(in.p.tm))
	return value{}
}

func (in *interp) evalIndex(fr *frame, e *a.Expr) value {
	base := e.LHS().AsExpr()
	bt := base.MType()
	switch {
	case bt.IsEitherArrayType():
		arr := in.eval(fr, base).arr
		iv := in.evalNum(fr, e.RHS().AsExpr())
		n := arrayLen(bt)
		i, ok := in.checkIndex(fr, e, iv, n)
		inner := bt.Inner()
		if inner.IsEitherArrayType() {
			cnt, _ := in.arrayDims(inner)
			if !ok {
				i = 0
			}
			return value{k: vkArray, arr: arrayRef{m: arr.m, off: arr.off + i*cnt, typ: inner}}
		}
		if !ok {
			return value{k: vkNum}
		}
		if arr.m.b != nil {
			return value{k: vkNum, n: nU(uint64(arr.m.b[arr.off+i]))}
		}
		return value{k: vkNum, n: nU(arr.m.w[arr.off+i])}
	case bt.IsEitherSliceType():
		sv := in.evalSlice(fr, base)
		iv := in.evalNum(fr, e.RHS().AsExpr())
		i, ok := in.checkIndex(fr, e, iv, sv.n)
		if !ok {
			return value{k: vkNum}
		}
		return value{k: vkNum, n: nU(uint64(sv.m.b[sv.off+i]))}
	}
	unsupp("index of %s", bt.Str(in.p.tm))
	return value{}
}

func (in *interp) evalSliceExpr(fr *frame, e *a.Expr) value {
	base := e.LHS().AsExpr()
	bt := base.MType()
	var whole sliceVal
	switch {
	case bt.IsEitherArrayType():
		if !isU8(bt.Inner()) {
			unsupp("slice of %s", bt.Str(in.p.tm))
		}
		arr := in.eval(fr, base).arr
		whole = sliceVal{m: arr.m, off: arr.off, n: arrayLen(bt)}
	case bt.IsEitherSliceType():
		whole = in.evalSlice(fr, base)
	default:
		unsupp("slice of %s", bt.Str(in.p.tm))
	}
	lo, hi := nU(0), nU(uint64(whole.n))
	if m := e.MHS().AsExpr(); m != nil {
		lo = in.evalNum(fr, m)
	}
	if r := e.RHS().AsExpr(); r != nil {
		hi = in.evalNum(fr, r)
	}
	if e.MHS() == nil && e.RHS() == nil {
		return value{k: vkSlice, sl: whole}
	}
	ok := lo.sign() >= 0 && lo.cmp(hi) <= 0 && hi.isU64() && hi.u <= uint64(whole.n)
	if in.ideal > 0 {
		if !ok {
			panic(evalFail{"slice"})
		}
	} else {
		near := ok && (uint64(whole.n)-hi.u <= 1 || hi.u-lo.u <= 1)
		in.obligation("slice-bounds", near)
		if !ok {
			in.violation(fr, "slice-bounds", e, lo.String()+" .. "+hi.String(), "<= "+nI(int64(whole.n)).String())
			// the C helpers return an empty slice (for slices) or compute an
			// out-of-bounds pointer (for arrays)
			return value{k: vkSlice}
		}
	}
	return value{k: vkSlice, sl: sliceVal{m: whole.m, off: whole.off + int(lo.u), n: int(hi.u - lo.u)}}
}

// ---- operators

func (in *interp) evalUnary(fr *frame, e *a.Expr) value {
	r := e.RHS().AsExpr()
	switch e.Operator() {
	case t.IDXUnaryNot:
		return value{k: vkBool, n: nBool(!in.evalBool(fr, r))}
	case t.IDXUnaryPlus:
		return value{k: vkNum, n: in.evalNum(fr, r)}
	case t.IDXUnaryMinus:
		x := in.evalNum(fr, r)
		z := x.negate()
		if b := typeBits(in.p, e.MType()); b != 0 {
			z = in.checkFits(fr, "overflow:neg", e, z, b, "-"+x.String())
		}
		return value{k: vkNum, n: z}
	}
	unsupp("unary operator in %s", e.Str(in.p.tm))
	return value{}
}

func (in *interp) evalBinary(fr *frame, e *a.Expr) value {
	op := e.Operator()
	l := e.LHS().AsExpr()
	switch op {
	case t.IDXBinaryAs:
		return in.evalAs(fr, e)
	case t.IDXBinaryAnd:
		if !in.evalBool(fr, l) {
			return value{k: vkBool}
		}
		return value{k: vkBool, n: nBool(in.evalBool(fr, e.RHS().AsExpr()))}
	case t.IDXBinaryOr:
		if in.evalBool(fr, l) {
			return value{k: vkBool, n: nU(1)}
		}
		return value{k: vkBool, n: nBool(in.evalBool(fr, e.RHS().AsExpr()))}
	}
	r := e.RHS().AsExpr()

	switch op {
	case t.IDXBinaryNotEq, t.IDXBinaryEqEq:
		if isStatusType(l.MType()) {
			eq := in.evalStatus(fr, l) == in.evalStatus(fr, r)
			return value{k: vkBool, n: nBool(eq == (op == t.IDXBinaryEqEq))}
		}
		if isBoolType(l.MType()) {
			eq := in.evalBool(fr, l) == in.evalBool(fr, r)
			return value{k: vkBool, n: nBool(eq == (op == t.IDXBinaryEqEq))}
		}
		if l.MType() != nil && !l.MType().IsNumTypeOrIdeal() {
			unsupp("comparison of %s", l.MType().Str(in.p.tm))
		}
		fallthrough
	case t.IDXBinaryLessThan, t.IDXBinaryLessEq, t.IDXBinaryGreaterEq, t.IDXBinaryGreaterThan:
		c := in.evalNum(fr, l).cmp(in.evalNum(fr, r))
		res := false
		switch op {
		case t.IDXBinaryNotEq:
			res = c != 0
		case t.IDXBinaryEqEq:
			res = c == 0
		case t.IDXBinaryLessThan:
			res = c < 0
		case t.IDXBinaryLessEq:
			res = c <= 0
		case t.IDXBinaryGreaterEq:
			res = c >= 0
		case t.IDXBinaryGreaterThan:
			res = c > 0
		}
		return value{k: vkBool, n: nBool(res)}
	}

	x := in.evalNum(fr, l)
	y := in.evalNum(fr, r)
	bits := typeBits(in.p, e.MType())
	return value{k: vkNum, n: in.binaryNum(fr, op, e, l, r, x, y, bits, isIdealType(e.MType()))}
}

func isIdealType(typ *a.TypeExpr) bool { return typ == nil || typ.IsIdeal() }

func isStatusType(typ *a.TypeExpr) bool { return typ != nil && typ.IsStatus() }

func isBoolType(typ *a.TypeExpr) bool { return typ != nil && typ.IsBool() }

// binaryNum applies an arithmetic operator. e is the expression node for
// reports (nil for op= forms, where l is reported); bits is the width of the
// result type; typeless means the result has the ideal type.
func (in *interp) binaryNum(fr *frame, op t.ID, e, l, r *a.Expr, x, y num, bits uint, typeless bool) num {
	rep := e
	if rep == nil {
		rep = l
	}
	operands := func() string { return x.String() + " " + opText(op) + " " + y.String() }
	chk := in.ideal == 0 && !typeless && bits != 0

	switch op {
	case t.IDXBinaryPlus:
		z := x.add(y)
		if chk && e != nil {
			z = in.checkFits(fr, "overflow:+", rep, z, bits, operands())
		}
		return z
	case t.IDXBinaryMinus:
		z := x.sub(y)
		if chk && e != nil {
			z = in.checkFits(fr, "overflow:-", rep, z, bits, operands())
		}
		return z
	case t.IDXBinaryStar:
		z := x.mul(y)
		if chk && e != nil {
			z = in.checkFits(fr, "overflow:*", rep, z, bits, operands())
		}
		return z
	case t.IDXBinarySlash, t.IDXBinaryPercent:
		if in.ideal == 0 {
			in.obligation("div-by-zero", y.isU64() && y.u == 1)
		}
		if y.isZero() {
			in.violation(fr, "div-by-zero", rep, operands(), "<> 0")
			return nU(0)
		}
		if x.sign() < 0 || y.sign() < 0 {
			if in.ideal > 0 {
				panic(evalFail{"negative division"})
			}
			unsupp("division of negative numbers")
		}
		if op == t.IDXBinarySlash {
			return x.quo(y)
		}
		return x.rem(y)
	case t.IDXBinaryShiftL, t.IDXBinaryShiftR, t.IDXBinaryTildeModShiftL:
		lbits := uint(0)
		if l != nil {
			lbits = typeBits(in.p, l.MType())
		}
		if lbits == 0 {
			lbits = bits
		}
		okCount := y.isU64() && (lbits == 0 || y.u < uint64(lbits))
		if in.ideal == 0 && lbits != 0 {
			in.obligation("shift-count", okCount && uint64(lbits)-1-y.u <= 1)
			if !okCount {
				in.violation(fr, "shift-count", rep, operands(), "< "+nU(uint64(lbits)).String())
				return nU(0)
			}
		}
		if !y.isU64() || y.u > 4096 {
			if in.ideal > 0 {
				panic(evalFail{"shift"})
			}
			return nU(0)
		}
		switch op {
		case t.IDXBinaryShiftL:
			z := x.lsh(uint(y.u))
			if chk && e != nil {
				z = in.checkFits(fr, "overflow:<<", rep, z, bits, operands())
			}
			return z
		case t.IDXBinaryTildeModShiftL:
			z := x.lsh(uint(y.u))
			if in.ideal > 0 && bits == 0 {
				return z
			}
			return nU(z.wrap(bits))
		default:
			if x.sign() < 0 {
				if in.ideal > 0 {
					panic(evalFail{"negative shift"})
				}
				unsupp("shift of a negative number")
			}
			return x.rsh(uint(y.u))
		}
	case t.IDXBinaryAmp, t.IDXBinaryPipe, t.IDXBinaryHat:
		if x.sign() < 0 || y.sign() < 0 {
			if in.ideal > 0 {
				panic(evalFail{"negative bitwise"})
			}
			unsupp("bitwise operator on a negative number")
		}
		switch op {
		case t.IDXBinaryAmp:
			return x.and(y)
		case t.IDXBinaryPipe:
			return x.or(y)
		}
		return x.xor(y)
	case t.IDXBinaryTildeModPlus:
		return nU(x.add(y).wrap(bits))
	case t.IDXBinaryTildeModMinus:
		return nU(x.sub(y).wrap(bits))
	case t.IDXBinaryTildeModStar:
		return nU(x.mul(y).wrap(bits))
	case t.IDXBinaryTildeSatPlus:
		z := x.add(y)
		if m := nU(maxOfBits(bits)); z.cmp(m) > 0 {
			return m
		}
		return z
	case t.IDXBinaryTildeSatMinus:
		z := x.sub(y)
		if z.sign() < 0 {
			return nU(0)
		}
		return z
	}
	unsupp("binary operator %s", opText(op))
	return num{}
}

func opText(op t.ID) string {
	switch op {
	case t.IDXBinaryPlus, t.IDXAssociativePlus:
		return "+"
	case t.IDXBinaryMinus:
		return "-"
	case t.IDXBinaryStar, t.IDXAssociativeStar:
		return "*"
	case t.IDXBinarySlash:
		return "/"
	case t.IDXBinaryPercent:
		return "%"
	case t.IDXBinaryShiftL:
		return "<<"
	case t.IDXBinaryShiftR:
		return ">>"
	case t.IDXBinaryTildeModShiftL:
		return "~mod<<"
	case t.IDXBinaryAmp, t.IDXAssociativeAmp:
		return "&"
	case t.IDXBinaryPipe, t.IDXAssociativePipe:
		return "|"
	case t.IDXBinaryHat, t.IDXAssociativeHat:
		return "^"
	case t.IDXBinaryTildeModPlus:
		return "~mod+"
	case t.IDXBinaryTildeModMinus:
		return "~mod-"
	case t.IDXBinaryTildeModStar:
		return "~mod*"
	case t.IDXBinaryTildeSatPlus:
		return "~sat+"
	case t.IDXBinaryTildeSatMinus:
		return "~sat-"
	case t.IDXBinaryEqEq:
		return "=="
	case t.IDXBinaryNotEq:
		return "<>"
	case t.IDXBinaryLessThan:
		return "<"
	case t.IDXBinaryLessEq:
		return "<="
	case t.IDXBinaryGreaterEq:
		return ">="
	case t.IDXBinaryGreaterThan:
		return ">"
	case t.IDXBinaryAnd, t.IDXAssociativeAnd:
		return "and"
	case t.IDXBinaryOr, t.IDXAssociativeOr:
		return "or"
	case t.IDXBinaryAs:
		return "as"
	}
	return "?"
}

func (in *interp) evalAs(fr *frame, e *a.Expr) value {
	l := e.LHS().AsExpr()
	typ := e.RHS().AsTypeExpr()
	if !typ.IsNumType() || !l.MType().IsNumTypeOrIdeal() {
		unsupp("conversion %s", e.Str(in.p.tm))
	}
	nt := in.p.numTypeOf(typ)
	if nt == nil {
		unsupp("conversion to %s", typ.Str(in.p.tm))
	}
	x := in.evalNum(fr, l)
	if in.ideal > 0 {
		return value{k: vkNum, n: x}
	}
	return value{k: vkNum, n: in.checkRange(fr, "as-range", e, x, nt)}
}

func (in *interp) evalAssociative(fr *frame, e *a.Expr) value {
	args := e.Args()
	switch e.Operator() {
	case t.IDXAssociativeAnd:
		for _, o := range args {
			if !in.evalBool(fr, o.AsExpr()) {
				return value{k: vkBool}
			}
		}
		return value{k: vkBool, n: nU(1)}
	case t.IDXAssociativeOr:
		for _, o := range args {
			if in.evalBool(fr, o.AsExpr()) {
				return value{k: vkBool, n: nU(1)}
			}
		}
		return value{k: vkBool}
	}
	bop := e.Operator().AmbiguousForm().BinaryForm()
	bits := typeBits(in.p, e.MType())
	acc := in.evalNum(fr, args[0].AsExpr())
	for _, o := range args[1:] {
		y := in.evalNum(fr, o.AsExpr())
		acc = in.binaryNum(fr, bop, e, args[0].AsExpr(), o.AsExpr(), acc, y, bits, isIdealType(e.MType()))
	}
	return value{k: vkNum, n: acc}
}

// ---- calls

// prepareUserCall evaluates the receiver and the arguments of a call to a
// method of a generated struct.
func (in *interp) prepareUserCall(fr *frame, e *a.Expr) (*object, *funcInfo, []value) {
	method := e.LHS().AsExpr()
	recv := method.LHS().AsExpr()
	this := in.evalObj(fr, recv)
	fn := this.si.funcs[method.Ident()]
	if fn == nil {
		if method.Ident() == t.IDReset {
			return this, nil, nil
		}
		unsupp("method %s", method.Str(in.p.tm))
	}
	args := in.evalArgs(fr, fn, e.Args())
	return this, fn, args
}

func (in *interp) evalArgs(fr *frame, fn *funcInfo, argNodes []*a.Node) []value {
	if len(argNodes) != len(fn.args) {
		unsupp("argument count of %s", fn.name)
	}
	args := make([]value, len(argNodes))
	for i, o := range argNodes {
		ae := o.AsArg().Value()
		v := in.eval(fr, ae)
		prm := fn.args[i]
		if prm.typ.IsNumType() {
			nt := in.p.numTypeOf(prm.typ)
			v.n = in.checkRange(fr, "arg-range", ae, v.n, nt)
			v.k = vkNum
		}
		args[i] = v
	}
	return args
}

func (in *interp) evalCall(fr *frame, e *a.Expr) value {
	method := e.LHS().AsExpr()
	if method.Operator() != t.IDDot {
		unsupp("call %s", e.Str(in.p.tm))
	}
	recv := method.LHS().AsExpr()
	rt := recv.MType()
	if rt == nil {
		unsupp("call %s", e.Str(in.p.tm))
	}
	switch {
	case rt.IsPointerType() && !(recv.Operator() == 0 && recv.Ident() == t.IDThis):
		unsupp("pointer receiver in %s", e.Str(in.p.tm))
	case rt.IsEitherSliceType():
		return in.builtinSlice(fr, e)
	case rt.Decorator() == 0 && rt.QID()[0] == t.IDBase:
		switch {
		case rt.IsNumType():
			return in.builtinNum(fr, e)
		case rt.IsStatus():
			return in.builtinStatus(fr, e)
		case rt.IsIOType():
			if e.Effect().Coroutine() {
				if in.ideal > 0 {
					panic(evalFail{"coroutine call in a fact"})
				}
				unsupp("built-in coroutine call inside an expression")
			}
			return in.builtinIO(fr, e)
		case rt.QID()[1] == t.IDUtility:
			return in.builtinUtility(fr, e)
		}
		unsupp("method of %s", rt.Str(in.p.tm))
	}

	if e.Effect().Coroutine() {
		unsupp("coroutine call inside an expression")
	}
	if in.ideal > 0 && !e.Effect().Pure() {
		panic(evalFail{"impure call in a fact"})
	}
	this, fn, args := in.prepareUserCall(fr, e)
	if fn == nil { // reset!
		recv := method.LHS().AsExpr()
		in.resetObject(this, recv.IsThisDotFoo() != 0)
		return value{k: vkNone}
	}
	return in.invoke(fr, fn, this, args, e.Args())
}
