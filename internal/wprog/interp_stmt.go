package wprog

// Statements.

import (
	"strconv"

	a "github.com/google/wuffs/lang/ast"
	t "github.com/google/wuffs/lang/token"
)

func (in *interp) execBlock(fr *frame, block []*a.Node) ctl {
	for _, n := range block {
		if c := in.execStmt(fr, n); c != ctlNext {
			return c
		}
	}
	return ctlNext
}

func (in *interp) countStmt(kind string) {
	if in.quiet == 0 {
		in.out.Stats.Statements[kind]++
	}
}

func (in *interp) execStmt(fr *frame, n *a.Node) ctl {
	in.step()
	_, line := n.AsRaw().FilenameLine()
	fr.line = line
	in.checkFacts(fr, n)

	switch n.Kind() {
	case a.KVar:
		in.countStmt("var")
		return ctlNext

	case a.KAssert:
		in.countStmt("assert")
		in.checkAssert(fr, n.AsAssert(), "assert")
		return ctlNext

	case a.KAssign:
		return in.execAssign(fr, n.AsAssign())

	case a.KChoose:
		in.countStmt("choose")
		in.execChoose(fr, n.AsChoose())
		return ctlNext

	case a.KIOManip:
		return in.execIOManip(fr, n.AsIOManip())

	case a.KIf:
		in.countStmt("if")
		for o := n.AsIf(); o != nil; o = o.ElseIf() {
			if in.evalBool(fr, o.Condition()) {
				return in.execBlock(fr, o.BodyIfTrue())
			}
			if bif := o.BodyIfFalse(); len(bif) > 0 {
				return in.execBlock(fr, bif)
			}
		}
		return ctlNext

	case a.KIterate:
		in.countStmt("iterate")
		return in.execIterate(fr, n.AsIterate())

	case a.KJump:
		j := n.AsJump()
		tgt := j.JumpTarget()
		if j.Keyword() == t.IDBreak {
			in.countStmt("break")
			in.checkLoopAsserts(fr, tgt, t.IDPre, "break")
			fr.jump = tgt
			return ctlBreak
		}
		in.countStmt("continue")
		in.checkLoopAsserts(fr, tgt, t.IDPost, "continue")
		fr.jump = tgt
		return ctlContinue

	case a.KRet:
		return in.execRet(fr, n.AsRet())

	case a.KWhile:
		in.countStmt("while")
		return in.execWhile(fr, n.AsWhile())
	}
	unsupp("statement kind %s", n.Kind())
	return ctlNext
}

// checkLoopAsserts evaluates the loop's pre/inv/post conditions except those
// with keyword skip.
func (in *interp) checkLoopAsserts(fr *frame, l a.Loop, skip t.ID, where string) {
	for _, o := range l.Asserts() {
		as := o.AsAssert()
		if as.Keyword() == skip {
			continue
		}
		in.checkAssert(fr, as, where)
	}
}

func (in *interp) checkAssert(fr *frame, as *a.Assert, where string) {
	kw := "assert"
	switch as.Keyword() {
	case t.IDPre:
		kw = "pre"
	case t.IDInv:
		kw = "inv"
	case t.IDPost:
		kw = "post"
	}
	ok, evaluable := in.evalFact(fr, as.Condition())
	if !evaluable {
		in.out.Stats.FactsSkipped++
		return
	}
	in.noteFact(fr, as.Condition(), kw)
	if !ok {
		in.event(Event{Prop: "C02", Kind: kw + "-false", Node: strconv.Itoa(int(fr.line)) + ": " + kw + " (" + where + ")",
			Line: fr.line, Fact: as.Condition().Str(in.p.tm), Values: in.factValues(fr, as.Condition())})
	}
}

func (in *interp) execWhile(fr *frame, n *a.While) ctl {
	line := fr.line
	in.checkLoopAsserts(fr, n, t.IDPost, "entry")
	for {
		in.step()
		fr.line = line
		if !in.evalBool(fr, n.Condition()) {
			in.checkLoopAsserts(fr, n, t.IDPre, "exit")
			return ctlNext
		}
		c := in.execBlock(fr, n.Body())
		switch c {
		case ctlReturn:
			return c
		case ctlBreak:
			if fr.jump == a.Loop(n) {
				fr.jump = nil
				return ctlNext
			}
			return c
		case ctlContinue:
			if fr.jump != a.Loop(n) {
				return c
			}
			fr.jump = nil
			// the jump statement has checked pre/inv
		case ctlNext:
			in.checkLoopAsserts(fr, n, t.IDPost, "bottom")
		}
	}
}

func (in *interp) execIterate(fr *frame, n *a.Iterate) ctl {
	assigns := n.Assigns()
	if len(assigns) == 0 {
		return ctlNext
	}
	type itv struct {
		v     *variable
		whole sliceVal
	}
	vars := make([]itv, len(assigns))
	for i, o := range assigns {
		o := o.AsAssign()
		lhs := o.LHS()
		idx, ok := fr.fn.locIdx[lhs.Ident()]
		if !ok || lhs.Operator() != 0 {
			unsupp("iterate variable %s", lhs.Str(in.p.tm))
		}
		sv := in.evalSlice(fr, o.RHS())
		vars[i] = itv{v: &fr.locals[idx], whole: sv}
		vars[i].v.v = value{k: vkSlice, sl: sliceVal{m: sv.m, off: sv.off, n: vars[i].v.v.sl.n}}
		if i > 0 && sv.n < vars[0].whole.n {
			vars[0].whole.n = sv.n
		}
	}
	fr.manip = append(fr.manip, "iterate")
	defer func() { fr.manip = fr.manip[:len(fr.manip)-1] }()

	for it := n; it != nil; it = it.ElseIterate() {
		length, _ := strconv.Atoi(it.Length().Str(in.p.tm))
		advance, _ := strconv.Atoi(it.Advance().Str(in.p.tm))
		unroll, _ := strconv.Atoi(it.Unroll().Str(in.p.tm))
		if length <= 0 || advance <= 0 || unroll <= 0 {
			unsupp("iterate parameters")
		}
		for {
			for i := range vars {
				vars[i].v.v.sl.n = length
			}
			v0 := &vars[0].v.v.sl
			w0 := vars[0].whole
			remaining := w0.n - (v0.off - w0.off)
			var end int
			switch {
			case length == 1 && advance == 1 && unroll == 1:
				end = w0.off + w0.n
			case length == advance:
				end = v0.off + (remaining/(length*unroll))*(length*unroll)
			default:
				il, ia := length+advance*(unroll-1), advance*unroll
				ta := 0
				if remaining >= il {
					ta = ((remaining-il)/ia)*ia + ia
				}
				end = v0.off + ta
			}
			for v0.off < end {
				in.step()
				for u := 0; u < unroll; u++ {
					c := in.execBlock(fr, it.Body())
					switch c {
					case ctlReturn:
						return c
					case ctlBreak, ctlContinue:
						unsupp("break/continue inside an iterate body")
					}
					for i := range vars {
						vars[i].v.v.sl.off += advance
					}
				}
			}
			if unroll == 1 {
				break
			}
			unroll = 1
		}
	}
	for i := range vars {
		vars[i].v.v.sl.n = 0
	}
	return ctlNext
}

func (in *interp) execChoose(fr *frame, n *a.Choose) {
	args := n.Args()
	if len(args) == 0 {
		return
	}
	for _, o := range args {
		id := o.AsExpr().Ident()
		alt := fr.this.si.funcs[id]
		if alt == nil {
			unsupp("choose: no method %s", id.Str(in.p.tm))
		}
		if alt.node.HasChooseCPUArch() {
			unsupp("choose with a cpu_arch alternative")
		}
		if id == n.Name() {
			delete(fr.this.choosy, n.Name())
		} else {
			fr.this.choosy[n.Name()] = alt
		}
		return
	}
}

func (in *interp) execRet(fr *frame, n *a.Ret) ctl {
	fn := fr.fn
	e := n.Value()
	if n.Keyword() == t.IDYield {
		in.countStmt("yield")
		st := in.evalStatus(fr, e)
		switch {
		case st == "":
			fr.ret = value{k: vkStatus}
			return ctlReturn
		case !isSuspension(st):
			fr.ret = value{k: vkStatus, s: st}
			fr.staleExit = true
			return ctlReturn
		}
		in.suspend(fr, st)
		return ctlNext
	}
	in.countStmt("return")

	if fn.effect.Coroutine() || (fn.retStat && fn.derived) {
		st := in.evalStatus(fr, e)
		literal := e.Operator() == 0 && (e.Ident() == t.IDOk || e.Ident().IsDQStrLiteral(in.p.tm))
		switch {
		case st == "":
			// goto ok
		case n.RetsError():
			fr.staleExit = true
		case literal && isNote(st):
			// goto ok
		case isError(st):
			fr.staleExit = true
		case isSuspension(st):
			st = stCannotReturn
			fr.staleExit = true
		}
		fr.ret = value{k: vkStatus, s: st}
		return ctlReturn
	}

	if fn.out == nil {
		fr.ret = value{k: vkNone}
		if e.MType() != nil && !e.MType().IsEmptyStruct() {
			in.eval(fr, e)
		}
		return ctlReturn
	}
	v := in.eval(fr, e)
	switch {
	case fn.out.IsStatus():
		if isSuspension(v.s) && !n.RetsError() {
			v.s = stCannotReturn
		}
	case fn.out.IsNumType():
		nt := in.p.numTypeOf(fn.out)
		v.n = in.checkRange(fr, "return-range", e, v.n, nt)
		v.k = vkNum
	case fn.out.IsBool():
	case fn.out.IsEitherSliceType():
	default:
		unsupp("return of type %s", fn.out.Str(in.p.tm))
	}
	fr.ret = v
	return ctlReturn
}

// ---- assignment

func isAssignOpTilde(op t.ID) bool {
	switch op {
	case t.IDTildeModPlusEq, t.IDTildeModMinusEq, t.IDTildeModStarEq, t.IDTildeModShiftLEq,
		t.IDTildeSatPlusEq, t.IDTildeSatMinusEq:
		return true
	}
	return false
}

func (in *interp) execAssign(fr *frame, n *a.Assign) ctl {
	op, lhs, rhs := n.Operator(), n.LHS(), n.RHS()

	if rhs.Operator() == a.ExprOperatorCall && rhs.Effect().Coroutine() {
		in.countStmt("call?")
		return in.execCoroutineCall(fr, op, lhs, rhs)
	}
	if rhs.Operator() == a.ExprOperatorCall && rhs.Effect().Impure() {
		in.countStmt("call!")
	} else if op == t.IDEq {
		in.countStmt("=")
	} else {
		in.countStmt(op.Str(in.p.tm))
	}

	if lhs == nil {
		in.eval(fr, rhs)
		return ctlNext
	}
	if op == t.IDEq {
		v := in.eval(fr, rhs)
		in.assign(fr, lhs, v, rhs)
		return ctlNext
	}

	// op=
	nt := in.p.numTypeOf(lhs.MType())
	if nt == nil {
		unsupp("compound assignment to %s", lhs.MType().Str(in.p.tm))
	}
	ref := in.lvalue(fr, lhs)
	x := in.load(ref).n
	y := in.evalNum(fr, rhs)
	r := in.binaryNum(fr, op.BinaryForm(), nil, lhs, rhs, x, y, nt.bits, false)
	r = in.checkRange(fr, "assign-range", lhs, r, nt)
	in.store(ref, value{k: vkNum, n: r})
	return ctlNext
}

// assign stores v into the l-value lhs, checking the destination's range.
func (in *interp) assign(fr *frame, lhs *a.Expr, v value, rhs *a.Expr) {
	typ := lhs.MType()
	switch {
	case typ.IsNumType():
		nt := in.p.numTypeOf(typ)
		ref := in.lvalue(fr, lhs)
		v.n = in.checkRange(fr, "assign-range", lhs, v.n, nt)
		v.k = vkNum
		in.store(ref, v)
	case typ.IsBool(), typ.IsStatus(), typ.IsEitherSliceType():
		ref := in.lvalue(fr, lhs)
		in.store(ref, v)
	case typ.IsEitherArrayType():
		dst := in.eval(fr, lhs)
		if dst.k != vkArray || v.k != vkArray {
			unsupp("array assignment")
		}
		in.copyArray(dst.arr, v.arr)
	default:
		unsupp("assignment to %s", typ.Str(in.p.tm))
	}
}

func (in *interp) copyArray(dst, src arrayRef) {
	n, elem := in.arrayDims(dst.typ)
	n2, _ := in.arrayDims(src.typ)
	if n != n2 {
		unsupp("array assignment of different sizes")
	}
	if dst.m.ro {
		unsupp("store to a read-only array")
	}
	if isU8(elem) {
		copy(dst.m.b[dst.off:dst.off+n], src.m.b[src.off:src.off+n])
	} else {
		copy(dst.m.w[dst.off:dst.off+n], src.m.w[src.off:src.off+n])
	}
}

// ref is a resolved l-value.
type ref struct {
	v    *variable // a scalar variable, or
	m    *mem      // an element of m at idx
	idx  int
	u8   bool
	skip bool // the index was out of range: loads give 0, stores are dropped
}

func (in *interp) load(r ref) value {
	if r.v != nil {
		return r.v.v
	}
	if r.skip {
		return value{k: vkNum}
	}
	if r.u8 {
		return value{k: vkNum, n: nU(uint64(r.m.b[r.idx]))}
	}
	return value{k: vkNum, n: nU(r.m.w[r.idx])}
}

func (in *interp) store(r ref, v value) {
	if r.v != nil {
		r.v.v = v
		return
	}
	if r.skip {
		return
	}
	if r.m.ro {
		unsupp("store to read-only memory")
	}
	if r.u8 {
		r.m.b[r.idx] = byte(v.n.wrap(8))
	} else {
		r.m.w[r.idx] = v.n.wrap(64)
	}
}

// lvalue resolves an assignable expression.
func (in *interp) lvalue(fr *frame, e *a.Expr) ref {
	switch e.Operator() {
	case 0:
		if idx, ok := fr.fn.locIdx[e.Ident()]; ok {
			return ref{v: &fr.locals[idx]}
		}
	case t.IDDot:
		lhs := e.LHS().AsExpr()
		if lhs.Operator() == 0 && lhs.Ident() == t.IDArgs {
			if idx, ok := fr.fn.argIdx[e.Ident()]; ok {
				return ref{v: &fr.args[idx]}
			}
		}
		obj := in.evalObj(fr, lhs)
		if idx, ok := obj.si.index[e.Ident()]; ok {
			return ref{v: &obj.fields[idx]}
		}
	case t.IDOpenBracket:
		return in.elemRef(fr, e)
	}
	unsupp("l-value %s", e.Str(in.p.tm))
	return ref{}
}

// elemRef resolves a[i] where the element is numeric.
func (in *interp) elemRef(fr *frame, e *a.Expr) ref {
	base := e.LHS().AsExpr()
	bt := base.MType()
	iv := in.evalNum(fr, e.RHS().AsExpr())
	switch {
	case bt.IsEitherArrayType():
		arr := in.eval(fr, base).arr
		n := arrayLen(bt)
		i, ok := in.checkIndex(fr, e, iv, n)
		inner := bt.Inner()
		if inner.IsEitherArrayType() {
			unsupp("l-value of array type %s", e.Str(in.p.tm))
		}
		if !ok {
			return ref{skip: true}
		}
		return ref{m: arr.m, idx: arr.off + i, u8: arr.m.b != nil}
	case bt.IsEitherSliceType():
		sv := in.evalSlice(fr, base)
		i, ok := in.checkIndex(fr, e, iv, sv.n)
		if !ok {
			return ref{skip: true}
		}
		return ref{m: sv.m, idx: sv.off + i, u8: true}
	}
	unsupp("index of %s", bt.Str(in.p.tm))
	return ref{}
}

// ---- coroutine calls as statements

func (in *interp) execCoroutineCall(fr *frame, op t.ID, lhs *a.Expr, rhs *a.Expr) ctl {
	method := rhs.LHS().AsExpr()
	recv := method.LHS().AsExpr()
	if recv.MType().IsIOType() {
		if op == t.IDEqQuestion {
			unsupp("=? with a built-in coroutine")
		}
		v := in.builtinQuestion(fr, rhs)
		if lhs != nil {
			in.assign(fr, lhs, v, rhs)
		}
		return ctlNext
	}
	if fr.act == nil {
		unsupp("coroutine call outside a coroutine")
	}
	for {
		this, fn, args := in.prepareUserCall(fr, rhs)
		v := in.invoke(fr, fn, this, args, rhs.Args())
		if lhs != nil {
			in.assign(fr, lhs, v, rhs)
		}
		if op == t.IDEqQuestion || v.s == "" {
			return ctlNext
		}
		if isSuspension(v.s) {
			in.suspend(fr, v.s)
			continue
		}
		// An error or a note from the callee ends this function too.
		fr.ret = v
		return ctlReturn
	}
}

// ---- io_bind / io_limit

func (in *interp) execIOManip(fr *frame, n *a.IOManip) ctl {
	e := n.IO()
	var vr *variable
	switch {
	case e.Operator() == 0:
		if idx, ok := fr.fn.locIdx[e.Ident()]; ok {
			vr = &fr.locals[idx]
		}
	case e.IsArgsDotFoo() != 0:
		if idx, ok := fr.fn.argIdx[e.Ident()]; ok {
			vr = &fr.args[idx]
		}
	}
	if vr == nil || vr.v.k != vkIO {
		unsupp("io manipulation of %s", e.Str(in.p.tm))
	}
	io := vr.v.io

	switch n.Keyword() {
	case t.IDIOBind:
		in.countStmt("io_bind")
		if e.Operator() != 0 {
			unsupp("io_bind of an argument")
		}
		if io.bound > 0 {
			unsupp("nested io_bind of one variable")
		}
		data := in.evalSlice(fr, n.Arg1())
		hp := in.evalNum(fr, n.HistoryPosition())
		saved, savedIO1 := *io, vr.io1
		*io = ioState{m: data.m, base: data.off, dlen: data.n, pos: hp.wrap(64), writer: saved.writer, bound: 1}
		if !io.writer {
			io.wi = data.n
		}
		if io.m == nil {
			io.m = &mem{}
		}
		vr.io1 = 0
		fr.manip = append(fr.manip, "io_bind")
		c := in.execBlock(fr, n.Body())
		fr.manip = fr.manip[:len(fr.manip)-1]
		*io, vr.io1 = saved, savedIO1
		in.checkManipExit(fr, c, "io_bind")
		return c

	case t.IDIOLimit:
		in.countStmt("io_limit")
		lim := in.evalNum(fr, n.Arg1())
		var c ctl
		if io.writer {
			savedLen := io.dlen
			avail := in.writerAvail(io)
			if lim.isU64() && uint64(avail) > lim.u {
				io.dlen = io.wi + int(lim.u)
			} else if io.closed {
				io.dlen = io.wi
			}
			fr.manip = append(fr.manip, "io_limit")
			c = in.execBlock(fr, n.Body())
			fr.manip = fr.manip[:len(fr.manip)-1]
			if io.closed {
				// io2 was iop at function entry; the C restores data.len from it.
				savedLen = io.dlen
			}
			io.dlen = savedLen
		} else {
			savedWI, savedClosed := io.wi, io.closed
			avail := io.wi - io.ri
			if lim.isU64() && uint64(avail) > lim.u {
				io.wi = io.ri + int(lim.u)
			}
			io.closed = savedClosed && savedWI <= io.wi
			fr.manip = append(fr.manip, "io_limit")
			c = in.execBlock(fr, n.Body())
			fr.manip = fr.manip[:len(fr.manip)-1]
			io.wi, io.closed = savedWI, savedClosed
		}
		in.checkManipExit(fr, c, "io_limit")
		return c
	}
	unsupp("%s", n.Keyword().Str(in.p.tm))
	return ctlNext
}

// checkManipExit: the generated C restores the I/O state at the closing brace
// of an io_bind / io_limit block only; a return, break or continue that
// leaves the block skips the restoration.
func (in *interp) checkManipExit(fr *frame, c ctl, what string) {
	if c != ctlNext {
		in.event(Event{Prop: "C01", Kind: "jump-out-of-" + what, Node: fr.fn.recv.name + "." + fr.fn.name, Line: fr.line})
	}
}

func (in *interp) writerAvail(io *ioState) int {
	if io.closed {
		return 0
	}
	return io.dlen - io.wi
}
