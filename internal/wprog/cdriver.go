package wprog

// The C side: run the real wuffs-c on each case, emit a main() that replays
// the history, compile (plain -O2 or ASan+UBSan) against a pre-built base
// object, run, and parse the per-call records and any sanitizer report.

import (
	"bytes"
	"context"
	"crypto/sha256"
	"encoding/hex"
	"fmt"
	"os"
	"os/exec"
	"path/filepath"
	"regexp"
	"runtime"
	"strconv"
	"strings"
	"sync"
	"sync/atomic"
	"syscall"
	"time"

	a "github.com/google/wuffs/lang/ast"
	"github.com/google/wuffs/lang/parse"
	t "github.com/google/wuffs/lang/token"
)

// Tunables (variables so that the dev tool can change them).
var (
	CBatchSize   = 0                // cases per translation unit (0: chosen from the number of cases)
	CParallel    = runtime.NumCPU() // concurrent wuffs-c / gcc / case processes
	CRunTimeout  = 20 * time.Second // per case process
	CCompiler    = "gcc"
	CKeepScratch = false
)

var (
	plainFlags = []string{"-O2"}
	sanFlags   = []string{"-O1", "-g", "-fno-omit-frame-pointer", "-fsanitize=address,undefined",
		"-fno-sanitize=nonnull-attribute", "-fno-sanitize-recover=all"}
	commonDefs = []string{"-w", "-DWUFFS_CONFIG__AVOID_CPU_ARCH"}
)

var runCounter int64

type csig struct {
	fn      *a.Func
	retKind string // "status" | "num" | "bool" | "none"
	retC    string
	args    []*a.TypeExpr
}

type ccase struct {
	idx    int
	c      *Case
	pkg    string // vt0007
	wfile  string // input .wuffs
	cfile  string // generated package C
	clines []string
	sigs   map[string]*csig
	err    *Event // generation failure
	body   string // run_NNNN function text
}

// RunC generates, compiles and runs the production C for the cases (all
// accepted by the checker). traces[i] is nil if case i produced no trace at
// all; events[i] holds sanitizer reports, crashes, time-outs and tool-chain
// failures of case i.
func RunC(env *Env, cases []*Case) (traces [][]Rec, events [][]Event, err error) {
	traces = make([][]Rec, len(cases))
	events = make([][]Event, len(cases))
	if len(cases) == 0 {
		return traces, events, nil
	}
	if env == nil || env.WuffsC == "" || env.BaseC == "" || env.Scratch == "" {
		return nil, nil, fmt.Errorf("wprog.RunC: incomplete Env")
	}
	variant := "plain"
	flags := plainFlags
	if env.Sanitize {
		variant, flags = "san", sanFlags
	}
	baseObj, err := baseObject(env, variant, flags)
	if err != nil {
		return nil, nil, err
	}

	dir := filepath.Join(env.Scratch, fmt.Sprintf("wprog-%d-%d", os.Getpid(), atomic.AddInt64(&runCounter, 1)))
	if err := os.MkdirAll(dir, 0o755); err != nil {
		return nil, nil, err
	}
	if !CKeepScratch {
		defer os.RemoveAll(dir)
	}
	// The generated code says #include "./wuffs-base.c".
	if err := os.Symlink(env.BaseC, filepath.Join(dir, "wuffs-base.c")); err != nil {
		return nil, nil, err
	}

	tPhase := time.Now()
	phase := func(name string) {
		if os.Getenv("WPROG_TIMING") != "" {
			fmt.Fprintf(os.Stderr, "[wprog.RunC %s] %s: %.2fs\n", variant, name, time.Since(tPhase).Seconds())
		}
		tPhase = time.Now()
	}
	ccs := make([]*ccase, len(cases))
	parallel(len(cases), func(i int) {
		cc := &ccase{idx: i, c: cases[i], pkg: fmt.Sprintf("vt%04d", i)}
		ccs[i] = cc
		cc.generate(env, dir)
	})

	phase("wuffs-c gen")
	// Batches of cases whose generation succeeded.
	var good []*ccase
	for _, cc := range ccs {
		if cc.err != nil {
			events[cc.idx] = append(events[cc.idx], *cc.err)
		} else {
			good = append(good, cc)
		}
	}
	type batch struct {
		cases []*ccase
		bin   string
	}
	var batches []*batch
	bsz := CBatchSize
	if bsz <= 0 {
		bsz = (len(good) + CParallel - 1) / max1(CParallel)
		if bsz < 4 {
			bsz = 4
		}
		if bsz > 24 {
			bsz = 24
		}
	}
	for i := 0; i < len(good); i += bsz {
		j := i + bsz
		if j > len(good) {
			j = len(good)
		}
		batches = append(batches, &batch{cases: good[i:j]})
	}
	var mu sync.Mutex
	var single []*batch
	parallel(len(batches), func(bi int) {
		b := batches[bi]
		bin, msg := buildTU(dir, fmt.Sprintf("b%04d", bi), b.cases, flags, baseObj, env.Sanitize)
		if msg == "" {
			b.bin = bin
			return
		}
		if len(b.cases) == 1 {
			mu.Lock()
			events[b.cases[0].idx] = append(events[b.cases[0].idx], Event{Prop: "C11", Kind: "cc-failed", Values: trunc(msg, 1500)})
			mu.Unlock()
			return
		}
		mu.Lock()
		for _, cc := range b.cases {
			single = append(single, &batch{cases: []*ccase{cc}})
		}
		mu.Unlock()
	})
	parallel(len(single), func(si int) {
		b := single[si]
		bin, msg := buildTU(dir, fmt.Sprintf("s%04d", b.cases[0].idx), b.cases, flags, baseObj, env.Sanitize)
		if msg == "" {
			b.bin = bin
			return
		}
		mu.Lock()
		events[b.cases[0].idx] = append(events[b.cases[0].idx], Event{Prop: "C11", Kind: "cc-failed", Values: trunc(msg, 1500)})
		mu.Unlock()
	})
	batches = append(batches, single...)

	phase("gcc")
	var runnable []*batch
	for _, b := range batches {
		if b.bin != "" {
			runnable = append(runnable, b)
		}
	}
	parallel(len(runnable), func(bi int) {
		b := runnable[bi]
		trs, evs := runBatch(b.bin, b.cases)
		mu.Lock()
		for k, cc := range b.cases {
			traces[cc.idx] = trs[k]
			events[cc.idx] = append(events[cc.idx], evs[k]...)
		}
		mu.Unlock()
	})
	phase("run")
	return traces, events, nil
}

func max1(n int) int {
	if n < 1 {
		return 1
	}
	return n
}

func trunc(s string, n int) string {
	if len(s) <= n {
		return s
	}
	return s[:n] + "..."
}

func parallel(n int, f func(i int)) {
	if n == 0 {
		return
	}
	w := CParallel
	if w < 1 {
		w = 1
	}
	if w > n {
		w = n
	}
	var wg sync.WaitGroup
	var next int64 = -1
	for g := 0; g < w; g++ {
		wg.Add(1)
		go func() {
			defer wg.Done()
			for {
				i := int(atomic.AddInt64(&next, 1))
				if i >= n {
					return
				}
				f(i)
			}
		}()
	}
	wg.Wait()
}

// ---- base object

var baseMu sync.Mutex

func baseObject(env *Env, variant string, flags []string) (string, error) {
	baseMu.Lock()
	defer baseMu.Unlock()
	st, err := os.Stat(env.BaseC)
	if err != nil {
		return "", fmt.Errorf("wprog.RunC: base C: %v", err)
	}
	h := sha256.Sum256([]byte(fmt.Sprintf("%s|%d|%d|%s|%s", env.BaseC, st.Size(), st.ModTime().UnixNano(), variant, strings.Join(flags, " "))))
	obj := filepath.Join(env.Scratch, "wprog-base-"+hex.EncodeToString(h[:6])+"-"+variant+".o")
	if _, err := os.Stat(obj); err == nil {
		return obj, nil
	}
	if err := os.MkdirAll(env.Scratch, 0o755); err != nil {
		return "", err
	}
	lf, err := os.OpenFile(obj+".lock", os.O_CREATE|os.O_RDWR, 0o644)
	if err != nil {
		return "", err
	}
	defer lf.Close()
	if err := syscall.Flock(int(lf.Fd()), syscall.LOCK_EX); err != nil {
		return "", err
	}
	defer syscall.Flock(int(lf.Fd()), syscall.LOCK_UN)
	if _, err := os.Stat(obj); err == nil {
		return obj, nil
	}
	tmp := obj + fmt.Sprintf(".tmp%d", os.Getpid())
	args := append([]string{}, flags...)
	args = append(args, commonDefs...)
	args = append(args, "-DWUFFS_IMPLEMENTATION", "-DWUFFS_CONFIG__MODULES", "-DWUFFS_CONFIG__MODULE__BASE__CORE",
		"-x", "c", "-c", env.BaseC, "-o", tmp)
	out, err := exec.Command(CCompiler, args...).CombinedOutput()
	if err != nil {
		return "", fmt.Errorf("wprog.RunC: compiling base: %v\n%s", err, trunc(string(out), 2000))
	}
	if err := os.Rename(tmp, obj); err != nil {
		return "", err
	}
	return obj, nil
}

// ---- per-case generation

// The output of wuffs-c is cached in memory (bounded), so that running the
// same cases for the second build variant does not run wuffs-c again.
type genEntry struct {
	gen     []byte
	failure string
}

var (
	genCacheMu    sync.Mutex
	genCache      = map[[32]byte]genEntry{}
	genCacheOrder [][32]byte
	genCacheBytes int
)

const genCacheMax = 96 << 20

func genKey(env *Env, cc *ccase) [32]byte {
	return sha256.Sum256([]byte(env.WuffsC + "\x00" + cc.pkg + "\x00" + filepath.Base(cc.wfile) + "\x00" + cc.c.Source))
}

func genCacheGet(k [32]byte) ([]byte, string, bool) {
	genCacheMu.Lock()
	defer genCacheMu.Unlock()
	e, ok := genCache[k]
	return e.gen, e.failure, ok
}

func genCachePut(k [32]byte, gen []byte, failure string) {
	genCacheMu.Lock()
	defer genCacheMu.Unlock()
	if _, ok := genCache[k]; ok {
		return
	}
	genCache[k] = genEntry{gen, failure}
	genCacheOrder = append(genCacheOrder, k)
	genCacheBytes += len(gen) + len(failure) + 64
	for genCacheBytes > genCacheMax && len(genCacheOrder) > 1 {
		old := genCacheOrder[0]
		genCacheOrder = genCacheOrder[1:]
		e := genCache[old]
		genCacheBytes -= len(e.gen) + len(e.failure) + 64
		delete(genCache, old)
	}
}

func (cc *ccase) fail(kind, msg string) {
	cc.err = &Event{Prop: "C11", Kind: kind, Values: trunc(msg, 1500)}
}

func (cc *ccase) generate(env *Env, dir string) {
	defer func() {
		if r := recover(); r != nil {
			cc.fail("driver-gen-failed", fmt.Sprint(r))
		}
	}()
	cc.wfile = filepath.Join(dir, fmt.Sprintf("c%04d.wuffs", cc.idx))
	cc.cfile = filepath.Join(dir, fmt.Sprintf("c%04d.c", cc.idx))
	if err := os.WriteFile(cc.wfile, []byte(cc.c.Source), 0o644); err != nil {
		cc.fail("driver-gen-failed", err.Error())
		return
	}
	key := genKey(env, cc)
	gen, failure, hit := genCacheGet(key)
	if !hit {
		cmd := exec.Command(env.WuffsC, "gen", "-package_name", cc.pkg, "-genlinenum", cc.wfile)
		if env.Root != "" {
			cmd.Dir = env.Root
		}
		var stdout, stderr bytes.Buffer
		cmd.Stdout, cmd.Stderr = &stdout, &stderr
		if err := cmd.Run(); err != nil {
			failure = strings.TrimSpace(stderr.String()) + " (" + err.Error() + ")"
		} else {
			gen = stdout.Bytes()
		}
		genCachePut(key, gen, failure)
	}
	if failure != "" {
		cc.fail("wuffs-c-failed", failure)
		return
	}
	if err := os.WriteFile(cc.cfile, gen, 0o644); err != nil {
		cc.fail("driver-gen-failed", err.Error())
		return
	}
	cc.clines = strings.Split(string(gen), "\n")
	if msg := cc.parseSigs(); msg != "" {
		cc.fail("driver-gen-failed", msg)
		return
	}
	if msg := cc.emitRun(); msg != "" {
		cc.fail("driver-gen-failed", msg)
	}
}

func cNumType(typ *a.TypeExpr) string {
	if typ == nil || typ.Decorator() != 0 || typ.QID()[0] != t.IDBase {
		return ""
	}
	switch typ.QID()[1] {
	case t.IDU8:
		return "uint8_t"
	case t.IDU16:
		return "uint16_t"
	case t.IDU32:
		return "uint32_t"
	case t.IDU64:
		return "uint64_t"
	case t.IDI8:
		return "int8_t"
	case t.IDI16:
		return "int16_t"
	case t.IDI32:
		return "int32_t"
	case t.IDI64:
		return "int64_t"
	}
	return ""
}

func (cc *ccase) parseSigs() string {
	tm := &t.Map{}
	tokens, _, err := t.Tokenize(tm, "vt.wuffs", []byte(cc.c.Source))
	if err != nil {
		return err.Error()
	}
	f, err := parse.Parse(tm, "vt.wuffs", tokens, nil)
	if err != nil {
		return err.Error()
	}
	cc.sigs = map[string]*csig{}
	for _, n := range f.TopLevelDecls() {
		if n.Kind() != a.KFunc {
			continue
		}
		fn := n.AsFunc()
		if fn.Receiver()[1].Str(tm) != cc.c.Struct || !fn.Public() {
			continue
		}
		s := &csig{fn: fn}
		out := fn.Out()
		switch {
		case fn.Effect().Coroutine() || (out != nil && out.Decorator() == 0 && out.QID() == t.QID{t.IDBase, t.IDStatus}):
			s.retKind = "status"
		case out == nil:
			s.retKind = "none"
		case out.Decorator() == 0 && out.QID() == t.QID{t.IDBase, t.IDBool}:
			s.retKind = "bool"
		case cNumType(out) != "":
			s.retKind, s.retC = "num", cNumType(out)
		default:
			s.retKind = "unsupported"
		}
		for _, o := range fn.In().Fields() {
			s.args = append(s.args, o.AsField().XType())
		}
		cc.sigs[fn.FuncName().Str(tm)] = s
	}
	return ""
}

func cBytes(b []byte) string {
	if len(b) == 0 {
		return "{0}"
	}
	var sb strings.Builder
	sb.WriteString("{")
	for i, x := range b {
		if i > 0 {
			sb.WriteString(",")
		}
		sb.WriteString(strconv.Itoa(int(x)))
	}
	sb.WriteString("}")
	return sb.String()
}

// emitRun writes the C function that replays the history of one case.
func (cc *ccase) emitRun() string {
	var b strings.Builder
	pfx := "wuffs_" + cc.pkg + "__" + cc.c.Struct
	w := func(format string, args ...interface{}) { fmt.Fprintf(&b, format, args...) }
	w("static int run_%04d(void) {\n", cc.idx)
	w("  wd_reset();\n")
	w("  %s* o = (%s*)calloc(1, sizeof__%s());\n", pfx, pfx, pfx)
	w("  if (!o) { return 3; }\n")
	w("  { wuffs_base__status z = %s__initialize(o, sizeof__%s(), WUFFS_VERSION, WUFFS_INITIALIZE__DEFAULT_OPTIONS);\n", pfx, pfx)
	w("    if (z.repr) { printf(\"I\\t%%s\\n\", z.repr); return 4; } }\n")

	var getters []*csig
	for _, g := range cc.c.Getters {
		s := cc.sigs[g]
		if s == nil || len(s.args) != 0 || s.retKind == "none" || s.retKind == "unsupported" {
			return "bad getter " + g
		}
		getters = append(getters, s)
	}

	for ci, call := range cc.c.Calls {
		s := cc.sigs[call.Method]
		if s == nil {
			return "no pub method " + call.Method
		}
		if len(call.Args) != len(s.args) {
			return "argument count of " + call.Method
		}
		if s.retKind == "unsupported" {
			return "result type of " + call.Method
		}
		w("  { /* call %d */\n", ci)
		var argv []string
		nSlices := 0
		for ai, arg := range call.Args {
			typ := s.args[ai]
			switch arg.Kind {
			case "int", "bool":
				if typ.Decorator() == 0 && typ.QID() == (t.QID{t.IDBase, t.IDBool}) {
					if arg.Int != 0 {
						argv = append(argv, "true")
					} else {
						argv = append(argv, "false")
					}
					continue
				}
				ct := cNumType(typ)
				if ct == "" {
					return "argument type of " + call.Method
				}
				argv = append(argv, fmt.Sprintf("((%s)(%du))", ct, arg.Int))
			case "reader":
				if arg.Reader != nil && (len(arg.Reader.Append) > 0 || arg.Reader.Close) {
					w("    static const uint8_t lit_%d_%d[] = %s;\n", ci, ai, cBytes(arg.Reader.Append))
					cl := "false"
					if arg.Reader.Close {
						cl = "true"
					}
					w("    wd_src_append(lit_%d_%d, %d, %s);\n", ci, ai, len(arg.Reader.Append), cl)
				}
				argv = append(argv, "&wd_src")
			case "writer":
				if arg.Writer != nil && arg.Writer.Grow > 0 {
					w("    wd_dst_grow(%d);\n", arg.Writer.Grow)
				}
				argv = append(argv, "&wd_dst")
			case "slice":
				w("    static const uint8_t lit_%d_%d[] = %s;\n", ci, ai, cBytes(arg.Slice))
				w("    wuffs_base__slice_u8 sl_%d = wd_slice(lit_%d_%d, %d);\n", nSlices, ci, ai, len(arg.Slice))
				argv = append(argv, fmt.Sprintf("sl_%d", nSlices))
				nSlices++
			default:
				return "argument kind " + arg.Kind
			}
		}
		callExpr := fmt.Sprintf("%s__%s(o%s)", pfx, call.Method, prefixJoin(argv))
		switch s.retKind {
		case "status":
			w("    wuffs_base__status z = %s;\n", callExpr)
			w("    wd_rec_begin(%d, z.repr ? z.repr : \"\");\n", ci)
		case "num":
			w("    uint64_t z = (uint64_t)(%s);\n", callExpr)
			w("    { char buf[32]; snprintf(buf, sizeof buf, \"%%\" PRIu64, z); wd_rec_begin(%d, buf); }\n", ci)
		case "bool":
			w("    bool z = %s;\n", callExpr)
			w("    wd_rec_begin(%d, z ? \"1\" : \"0\");\n", ci)
		case "none":
			w("    %s;\n", callExpr)
			w("    wd_rec_begin(%d, \"\");\n", ci)
		}
		w("    printf(\"\\t%d\");\n", nSlices)
		for si := 0; si < nSlices; si++ {
			w("    printf(\"\\t%%\" PRIu64, wd_fnv(sl_%d.ptr, sl_%d.len)); free(sl_%d.ptr);\n", si, si, si)
		}
		w("    printf(\"\\t%d\");\n", len(getters))
		for gi, g := range getters {
			ge := fmt.Sprintf("%s__%s(o)", pfx, cc.c.Getters[gi])
			switch g.retKind {
			case "status":
				w("    { wuffs_base__status g = %s; printf(\"\\t%%s\", g.repr ? g.repr : \"\"); }\n", ge)
			case "num":
				w("    printf(\"\\t%%\" PRIu64, (uint64_t)(%s));\n", ge)
			case "bool":
				w("    printf(\"\\t%%d\", (%s) ? 1 : 0);\n", ge)
			}
		}
		w("    printf(\"\\n\"); fflush(stdout);\n")
		w("  }\n")
	}
	w("  free(o);\n  wd_reset();\n  printf(\"E\\n\");\n  return 0;\n}\n")
	cc.body = b.String()
	return ""
}

func prefixJoin(xs []string) string {
	if len(xs) == 0 {
		return ""
	}
	return ", " + strings.Join(xs, ", ")
}

const cPrelude = `
#include <inttypes.h>
#include <stdio.h>
#include <stdlib.h>
#include <string.h>

static wuffs_base__io_buffer wd_src;
static wuffs_base__io_buffer wd_dst;

static void wd_reset(void) {
  free(wd_src.data.ptr);
  free(wd_dst.data.ptr);
  memset(&wd_src, 0, sizeof wd_src);
  memset(&wd_dst, 0, sizeof wd_dst);
}

/* The buffers are re-allocated at their exact length on every change, so
   that a sanitizer's red zone starts right after the last valid byte. */
static void wd_src_append(const uint8_t* p, size_t n, bool closed) {
  size_t old = wd_src.meta.wi;
  if (n > 0) {
    uint8_t* q = (uint8_t*)malloc(old + n);
    if (!q) { abort(); }
    if (old) { memcpy(q, wd_src.data.ptr, old); }
    memcpy(q + old, p, n);
    free(wd_src.data.ptr);
    wd_src.data.ptr = q;
    wd_src.data.len = old + n;
    wd_src.meta.wi = old + n;
  }
  if (closed) { wd_src.meta.closed = true; }
}

static void wd_dst_grow(size_t n) {
  size_t old = wd_dst.data.len;
  uint8_t* q = (uint8_t*)calloc(old + n, 1);
  if (!q) { abort(); }
  if (wd_dst.meta.wi) { memcpy(q, wd_dst.data.ptr, wd_dst.meta.wi); }
  free(wd_dst.data.ptr);
  wd_dst.data.ptr = q;
  wd_dst.data.len = old + n;
}

static wuffs_base__slice_u8 wd_slice(const uint8_t* p, size_t n) {
  wuffs_base__slice_u8 s;
  s.ptr = NULL;
  s.len = 0;
  if (n > 0) {
    s.ptr = (uint8_t*)malloc(n);
    if (!s.ptr) { abort(); }
    memcpy(s.ptr, p, n);
    s.len = n;
  }
  return s;
}

static uint64_t wd_fnv(const uint8_t* p, size_t n) {
  uint64_t h = 0xcbf29ce484222325ull;
  for (size_t i = 0; i < n; i++) {
    h ^= p[i];
    h *= 0x100000001b3ull;
  }
  return h;
}

static void wd_rec_begin(int idx, const char* ret) {
  printf("R\t%d\t%s\t%zu\t%zu\t%zu\t%zu\t%" PRIu64, idx, ret,
         wd_src.meta.ri, wd_src.meta.wi, wd_dst.meta.ri, wd_dst.meta.wi,
         wd_fnv(wd_dst.data.ptr, wd_dst.meta.wi));
}
`

// cMain runs every case of the translation unit in a forked child: one exec
// per batch, yet a crash (or memory corruption) of one case cannot touch the
// others. Markers on stdout and stderr delimit the cases.
const cMain = `
#include <signal.h>
#include <sys/types.h>
#include <sys/wait.h>
#include <unistd.h>

int main(int argc, char** argv) {
  int from = (argc > 1) ? atoi(argv[1]) : 0;
  for (int k = from; k < WD_N; k++) {
    printf("B\t%d\n", k);
    fflush(stdout);
    fprintf(stderr, "@@B\t%d\n", k);
    fflush(stderr);
    pid_t pid = fork();
    if (pid < 0) {
      return 6;
    } else if (pid == 0) {
      alarm(WD_TIMEOUT);
      int rc = wd_table[k]();
      fflush(stdout);
      _exit(rc);
    }
    int st = 0;
    while ((waitpid(pid, &st, 0) < 0)) {
    }
    printf("X\t%d\t%d\t%d\n", k, WIFEXITED(st) ? WEXITSTATUS(st) : -1, WIFSIGNALED(st) ? WTERMSIG(st) : 0);
    fflush(stdout);
  }
  return 0;
}
`

// buildTU compiles and links one translation unit holding the given cases.
func buildTU(dir, name string, cases []*ccase, flags []string, baseObj string, sanitize bool) (bin string, errMsg string) {
	var b strings.Builder
	b.WriteString("#define WUFFS_IMPLEMENTATION\n#define WUFFS_CONFIG__MODULES\n")
	for _, cc := range cases {
		fmt.Fprintf(&b, "#define WUFFS_CONFIG__MODULE__%s\n", strings.ToUpper(cc.pkg))
	}
	for _, cc := range cases {
		fmt.Fprintf(&b, "#include \"%s\"\n", cc.cfile)
	}
	b.WriteString(cPrelude)
	for _, cc := range cases {
		b.WriteString(cc.body)
		b.WriteString("\n")
	}
	b.WriteString("typedef int (*wd_run_func)(void);\nstatic wd_run_func wd_table[] = {\n")
	for _, cc := range cases {
		fmt.Fprintf(&b, "  run_%04d,\n", cc.idx)
	}
	fmt.Fprintf(&b, "};\n#define WD_N %d\n#define WD_TIMEOUT %d\n", len(cases), int(CRunTimeout.Seconds())+1)
	b.WriteString(cMain)
	src := filepath.Join(dir, name+".c")
	if err := os.WriteFile(src, []byte(b.String()), 0o644); err != nil {
		return "", err.Error()
	}
	bin = filepath.Join(dir, name+".bin")
	args := append([]string{}, flags...)
	args = append(args, commonDefs...)
	args = append(args, "-I", dir, src, baseObj, "-o", bin)
	out, err := exec.Command(CCompiler, args...).CombinedOutput()
	if err != nil {
		return "", fmt.Sprintf("%v\n%s", err, string(out))
	}
	return bin, ""
}

// ---- running and parsing

var (
	reUBSan   = regexp.MustCompile(`(?m)^(\S+?):(\d+):(\d+): runtime error: (.*)$`)
	reASan    = regexp.MustCompile(`(?m)^==\d+==ERROR: (\w+Sanitizer): (\S+)(.*)$`)
	reFrame   = regexp.MustCompile(`(?m)^\s+#\d+ 0x[0-9a-f]+ in (\S+) (\S+?):(\d+)`)
	reDigits  = regexp.MustCompile(`-?\d+`)
	reQuoted  = regexp.MustCompile(`'[^']*'`)
	reLineCmt = regexp.MustCompile(`^\s*// \S+\.wuffs:(\d+)\s*$`)
	rePkgPfx  = regexp.MustCompile(`^([#$@])vt\d{4}: `)
)

func normStatus(s string) string {
	return rePkgPfx.ReplaceAllString(s, "${1}"+PackageName+": ")
}

func (cc *ccase) wuffsLine(cline int) uint32 {
	for i := cline - 1; i >= 0 && i < len(cc.clines); i-- {
		if m := reLineCmt.FindStringSubmatch(cc.clines[i]); m != nil {
			n, _ := strconv.Atoi(m[1])
			return uint32(n)
		}
	}
	return 0
}

func (cc *ccase) cLineText(cline int) string {
	if cline >= 1 && cline <= len(cc.clines) {
		return strings.TrimSpace(cc.clines[cline-1])
	}
	return ""
}

// runBatch executes the batch binary once and splits its output per case.
func runBatch(bin string, cases []*ccase) ([][]Rec, [][]Event) {
	trs := make([][]Rec, len(cases))
	evs := make([][]Event, len(cases))
	ctx, cancel := context.WithTimeout(context.Background(), time.Duration(len(cases)+1)*(CRunTimeout+2*time.Second))
	defer cancel()
	cmd := exec.CommandContext(ctx, bin, "0")
	cmd.Env = append(os.Environ(),
		"ASAN_OPTIONS=detect_leaks=0:abort_on_error=0:allocator_may_return_null=1:handle_abort=1",
		"UBSAN_OPTIONS=print_stacktrace=0:halt_on_error=1")
	var stdout, stderr bytes.Buffer
	cmd.Stdout, cmd.Stderr = &stdout, &stderr
	runErr := cmd.Run()

	// stderr sections
	errSec := make([]string, len(cases))
	for _, sec := range strings.Split("\n"+stderr.String(), "\n@@B\t")[1:] {
		nl := strings.IndexByte(sec, '\n')
		if nl < 0 {
			nl = len(sec)
		}
		if k, err := strconv.Atoi(strings.TrimSpace(sec[:nl])); err == nil && k >= 0 && k < len(cases) {
			errSec[k] = sec[nl:]
		}
	}
	// stdout sections
	cur := -1
	started := make([]bool, len(cases))
	finished := make([]bool, len(cases))
	exitCode := make([]int, len(cases))
	exitSig := make([]int, len(cases))
	exited := make([]bool, len(cases))
	for _, ln := range strings.Split(stdout.String(), "\n") {
		f := strings.Split(ln, "\t")
		switch {
		case f[0] == "B" && len(f) == 2:
			if k, err := strconv.Atoi(f[1]); err == nil && k >= 0 && k < len(cases) {
				cur = k
				started[k] = true
			}
		case f[0] == "X" && len(f) == 4:
			if k, err := strconv.Atoi(f[1]); err == nil && k >= 0 && k < len(cases) {
				exitCode[k], _ = strconv.Atoi(f[2])
				exitSig[k], _ = strconv.Atoi(f[3])
				exited[k] = true
			}
		case ln == "E" && cur >= 0:
			finished[cur] = true
		case f[0] == "R" && len(f) >= 9 && cur >= 0:
			if r, ok := parseRec(cases[cur], f); ok {
				trs[cur] = append(trs[cur], r)
			}
		}
	}
	for k, cc := range cases {
		callIdx := len(trs[k])
		evs[k] = sanitizerEvents(cc, errSec[k], callIdx)
		switch {
		case !started[k] || !exited[k]:
			kind := "c-not-run"
			if ctx.Err() == context.DeadlineExceeded {
				kind = "c-timeout"
			} else if runErr != nil {
				kind = "c-batch-failed:" + runErr.Error()
			}
			evs[k] = append(evs[k], Event{Prop: "C11", Kind: kind, Call: callIdx})
		case exitSig[k] == int(syscall.SIGALRM):
			evs[k] = append(evs[k], Event{Prop: "C11", Kind: "c-timeout", Call: callIdx})
		case exitSig[k] != 0 && len(evs[k]) == 0:
			evs[k] = append(evs[k], Event{Prop: "C01", Kind: "crash:" + syscall.Signal(exitSig[k]).String(), Values: trunc(strings.TrimSpace(errSec[k]), 500), Call: callIdx})
		case exitCode[k] != 0 && len(evs[k]) == 0:
			evs[k] = append(evs[k], Event{Prop: "C01", Kind: fmt.Sprintf("c-exit:%d", exitCode[k]), Values: trunc(strings.TrimSpace(errSec[k]), 500), Call: callIdx})
		case exitCode[k] == 0 && exitSig[k] == 0 && !finished[k]:
			evs[k] = append(evs[k], Event{Prop: "C11", Kind: "c-truncated-output", Call: callIdx})
		}
	}
	return trs, evs
}

func parseRec(cc *ccase, f []string) (Rec, bool) {
	idx, _ := strconv.Atoi(f[1])
	if idx < 0 || idx >= len(cc.c.Calls) {
		return Rec{}, false
	}
	r := Rec{Method: cc.c.Calls[idx].Method, Ret: normStatus(f[2])}
	r.SrcRI, _ = strconv.ParseUint(f[3], 10, 64)
	r.SrcWI, _ = strconv.ParseUint(f[4], 10, 64)
	r.DstRI, _ = strconv.ParseUint(f[5], 10, 64)
	r.DstWI, _ = strconv.ParseUint(f[6], 10, 64)
	r.DstHash, _ = strconv.ParseUint(f[7], 10, 64)
	p := 8
	ns, _ := strconv.Atoi(f[p])
	p++
	for i := 0; i < ns && p < len(f); i++ {
		h, _ := strconv.ParseUint(f[p], 10, 64)
		r.Slices = append(r.Slices, h)
		p++
	}
	if p < len(f) {
		ng, _ := strconv.Atoi(f[p])
		p++
		for i := 0; i < ng && p < len(f); i++ {
			r.Getters = append(r.Getters, normStatus(f[p]))
			p++
		}
	}
	return r, true
}

// sanitizerEvents turns the sanitizer output of one case into events.
func sanitizerEvents(cc *ccase, se string, callIdx int) []Event {
	var evs []Event
	if m := reUBSan.FindStringSubmatch(se); m != nil {
		cl, _ := strconv.Atoi(m[2])
		class := strings.TrimSpace(reDigits.ReplaceAllString(reQuoted.ReplaceAllString(m[4], "T"), "N"))
		e := Event{Prop: "C01", Kind: "sanitizer:ubsan:" + class, Values: m[4], Call: callIdx}
		if filepath.Base(m[1]) == filepath.Base(cc.cfile) {
			e.Line = cc.wuffsLine(cl)
			e.Node = fmt.Sprintf("%d: C line %d: %s", e.Line, cl, cc.cLineText(cl))
		} else {
			e.Node = filepath.Base(m[1]) + ":" + m[2]
		}
		evs = append(evs, e)
	}
	if m := reASan.FindStringSubmatch(se); m != nil {
		e := Event{Prop: "C01", Kind: "sanitizer:asan:" + m[2], Values: trunc(strings.TrimSpace(m[0]), 300), Call: callIdx}
		for _, fm := range reFrame.FindAllStringSubmatch(se, 12) {
			if filepath.Base(fm[2]) == filepath.Base(cc.cfile) {
				cl, _ := strconv.Atoi(fm[3])
				e.Line = cc.wuffsLine(cl)
				e.Node = fmt.Sprintf("%d: C line %d in %s: %s", e.Line, cl, fm[1], cc.cLineText(cl))
				break
			}
		}
		evs = append(evs, e)
	}
	return evs
}
