package wprog

// Built-in methods: numerics, statuses, slices, io_reader / io_writer and
// base.utility, following internal/cgen/builtin.go and base/io-private.h.

import (
	"strconv"
	"strings"

	a "github.com/google/wuffs/lang/ast"
	t "github.com/google/wuffs/lang/token"
)

func (in *interp) argNum(fr *frame, e *a.Expr, i int) num {
	return in.evalNum(fr, e.Args()[i].AsArg().Value())
}

func (in *interp) methodName(e *a.Expr) string {
	return e.LHS().AsExpr().Ident().Str(in.p.tm)
}

// pre records a built-in's pre-condition: have >= need.
func (in *interp) pre(fr *frame, e *a.Expr, what string, have, need uint64) bool {
	kind := "pre:" + what
	ok := have >= need
	if in.ideal > 0 {
		if !ok {
			panic(evalFail{kind})
		}
		return true
	}
	in.obligation(kind, ok && have-need <= 1)
	if !ok {
		in.violation(fr, kind, e, "have "+strconv.FormatUint(have, 10), ">= "+strconv.FormatUint(need, 10))
	}
	return ok
}

// ---- numerics

func (in *interp) builtinNum(fr *frame, e *a.Expr) value {
	recv := e.LHS().AsExpr().LHS().AsExpr()
	x := in.evalNum(fr, recv)
	bits := typeBits(in.p, recv.MType())
	if bits == 0 {
		unsupp("receiver of %s", e.Str(in.p.tm))
	}
	name := in.methodName(e)
	switch name {
	case "low_bits", "high_bits":
		n := in.argNum(fr, e, 0)
		nt := &numType{bits: 32, hi: nU(uint64(bits - 1))}
		n = in.checkRange(fr, "arg-range", e.Args()[0].AsArg().Value(), n, nt)
		if !n.isU64() || n.u >= uint64(bits) {
			return value{k: vkNum}
		}
		if name == "low_bits" {
			return value{k: vkNum, n: nU(x.wrap(bits) & (uint64(1)<<n.u - 1))}
		}
		// high_bits: (x) >> (bits - n); n == 0 shifts by the full width, which
		// the language (and the checker's own bound, bitMask(0)) says is 0.
		// Whether the generated C agrees is observed, not modelled: the
		// G-high-bits-zero family runs as UBSan C (C01) and its trace is
		// compared with this one (C04).
		if n.u == 0 {
			return value{k: vkNum}
		}
		return value{k: vkNum, n: nU(x.wrap(bits) >> (uint64(bits) - n.u))}
	case "min", "max":
		y := in.argNum(fr, e, 0)
		if (name == "min") == (y.cmp(x) < 0) {
			return value{k: vkNum, n: y}
		}
		return value{k: vkNum, n: x}
	}
	unsupp("numeric method %s", name)
	return value{}
}

// ---- statuses

func (in *interp) builtinStatus(fr *frame, e *a.Expr) value {
	recv := e.LHS().AsExpr().LHS().AsExpr()
	s := in.evalStatus(fr, recv)
	switch in.methodName(e) {
	case "is_ok":
		return value{k: vkBool, n: nBool(s == "")}
	case "is_error":
		return value{k: vkBool, n: nBool(isError(s))}
	case "is_note":
		return value{k: vkBool, n: nBool(isNote(s))}
	case "is_suspension":
		return value{k: vkBool, n: nBool(isSuspension(s))}
	}
	unsupp("status method %s", in.methodName(e))
	return value{}
}

// ---- byte peeking and poking

// endianOf parses names like "peek_u24be_as_u32", "poke_u16le", "write_u8_fast",
// "read_u40le_as_u64": the number of bytes and the endianness.
func endianOf(name string) (nbytes int, le bool, ok bool) {
	i := strings.Index(name, "_u")
	if i < 0 {
		return 0, false, false
	}
	s := name[i+2:]
	j := 0
	for j < len(s) && s[j] >= '0' && s[j] <= '9' {
		j++
	}
	n, err := strconv.Atoi(s[:j])
	if err != nil || n%8 != 0 || n < 8 || n > 64 {
		return 0, false, false
	}
	rest := s[j:]
	switch {
	case strings.HasPrefix(rest, "le"):
		le = true
	case strings.HasPrefix(rest, "be"):
	case n == 8:
	default:
		return 0, false, false
	}
	return n / 8, le, true
}

func peekBytes(b []byte, n int, le bool) uint64 {
	var x uint64
	if le {
		for i := n - 1; i >= 0; i-- {
			x = x<<8 | uint64(b[i])
		}
	} else {
		for i := 0; i < n; i++ {
			x = x<<8 | uint64(b[i])
		}
	}
	return x
}

func pokeBytes(b []byte, n int, le bool, x uint64) {
	if le {
		for i := 0; i < n; i++ {
			b[i] = byte(x >> (8 * uint(i)))
		}
	} else {
		for i := 0; i < n; i++ {
			b[n-1-i] = byte(x >> (8 * uint(i)))
		}
	}
}

// ---- slices

func (in *interp) builtinSlice(fr *frame, e *a.Expr) value {
	recv := e.LHS().AsExpr().LHS().AsExpr()
	if !isU8(recv.MType().Inner()) {
		unsupp("slice of %s", recv.MType().Inner().Str(in.p.tm))
	}
	s := in.evalSlice(fr, recv)
	name := in.methodName(e)
	switch name {
	case "length":
		return value{k: vkNum, n: nU(uint64(s.n))}
	case "copy_from_slice":
		if in.ideal > 0 {
			panic(evalFail{"impure"})
		}
		src := in.evalSlice(fr, e.Args()[0].AsArg().Value())
		n := s.n
		if src.n < n {
			n = src.n
		}
		if n > 0 {
			if s.m.ro {
				unsupp("store to read-only memory")
			}
			copy(s.m.b[s.off:s.off+n], src.m.b[src.off:src.off+n]) // memmove semantics
		}
		return value{k: vkNum, n: nU(uint64(n))}
	case "suffix":
		up := in.argNum(fr, e, 0)
		if up.isU64() && uint64(s.n) > up.u {
			s.off += s.n - int(up.u)
			s.n = int(up.u)
		}
		return value{k: vkSlice, sl: s}
	case "prefix":
		// (internal/cgen has no case for prefix: see Program.CGenIssues.)
		up := in.argNum(fr, e, 0)
		if up.isU64() && uint64(s.n) > up.u {
			s.n = int(up.u)
		}
		return value{k: vkSlice, sl: s}
	}
	if strings.HasPrefix(name, "peek_u") {
		nb, le, ok := endianOf(name)
		if !ok {
			unsupp("slice method %s", name)
		}
		if !in.pre(fr, e, "slice."+name, uint64(s.n), uint64(nb)) {
			return value{k: vkNum}
		}
		return value{k: vkNum, n: nU(peekBytes(s.m.b[s.off:], nb, le))}
	}
	if strings.HasPrefix(name, "poke_u") {
		if in.ideal > 0 {
			panic(evalFail{"impure"})
		}
		nb, le, ok := endianOf(name)
		if !ok {
			unsupp("slice method %s", name)
		}
		x := in.argNum(fr, e, 0)
		if !in.pre(fr, e, "slice."+name, uint64(s.n), uint64(nb)) {
			return value{k: vkNone}
		}
		if s.m.ro {
			unsupp("store to read-only memory")
		}
		pokeBytes(s.m.b[s.off:], nb, le, x.wrap(64))
		return value{k: vkNone}
	}
	unsupp("slice method %s", name)
	return value{}
}

// ---- I/O

// ioVar resolves an io_reader / io_writer expression to its variable.
func (in *interp) ioVar(fr *frame, e *a.Expr) *variable {
	switch {
	case e.Operator() == 0:
		if idx, ok := fr.fn.locIdx[e.Ident()]; ok && fr.locals[idx].v.k == vkIO {
			return &fr.locals[idx]
		}
	case e.IsArgsDotFoo() != 0:
		if idx, ok := fr.fn.argIdx[e.Ident()]; ok && fr.args[idx].v.k == vkIO {
			return &fr.args[idx]
		}
	}
	unsupp("I/O receiver %s", e.Str(in.p.tm))
	return nil
}

func (io *ioState) bytes() []byte {
	if io.m == nil {
		return nil
	}
	return io.m.b[io.base:]
}

func (in *interp) readerAvail(io *ioState) int { return io.wi - io.ri }

func satAdd64(x, y uint64) uint64 {
	z := x + y
	if z < x {
		return ^uint64(0)
	}
	return z
}

func (in *interp) ioSince(io *ioState, mark num, index int, ro bool) sliceVal {
	if mark.isU64() && uint64(index) >= mark.u {
		return sliceVal{m: io.m, off: io.base + int(mark.u), n: index - int(mark.u)}
	}
	return sliceVal{}
}

func (in *interp) builtinIO(fr *frame, e *a.Expr) value {
	recv := e.LHS().AsExpr().LHS().AsExpr()
	vr := in.ioVar(fr, recv)
	io := vr.v.io
	name := in.methodName(e)
	if !e.Effect().Pure() && in.ideal > 0 {
		panic(evalFail{"impure"})
	}
	if io.writer {
		return in.builtinWriter(fr, e, vr, io, name)
	}
	return in.builtinReader(fr, e, vr, io, name)
}

func (in *interp) builtinReader(fr *frame, e *a.Expr, vr *variable, io *ioState, name string) value {
	avail := in.readerAvail(io)
	switch name {
	case "length":
		return value{k: vkNum, n: nU(uint64(avail))}
	case "is_closed":
		return value{k: vkBool, n: nBool(io.closed)}
	case "position":
		return value{k: vkNum, n: nU(satAdd64(io.pos, uint64(io.ri)))}
	case "mark":
		return value{k: vkNum, n: nU(uint64(io.ri))}
	case "count_since":
		m := in.argNum(fr, e, 0)
		if m.isU64() && uint64(io.ri) >= m.u {
			return value{k: vkNum, n: nU(uint64(io.ri) - m.u)}
		}
		return value{k: vkNum}
	case "since":
		return value{k: vkSlice, sl: in.ioSince(io, in.argNum(fr, e, 0), io.ri, true)}
	case "can_undo_byte":
		return value{k: vkBool, n: nBool(io.ri > vr.io1)}
	case "peek_undo_byte":
		if !in.pre(fr, e, "reader.peek_undo_byte", uint64(io.ri), uint64(vr.io1)+1) || io.ri == 0 {
			return value{k: vkNum}
		}
		return value{k: vkNum, n: nU(uint64(io.bytes()[io.ri-1]))}
	case "undo_byte":
		if !in.pre(fr, e, "reader.undo_byte", uint64(io.ri), uint64(vr.io1)+1) || io.ri == 0 {
			return value{k: vkNone}
		}
		io.ri--
		return value{k: vkNone}
	case "peek_u8_at", "peek_u64le_at":
		off := in.argNum(fr, e, 0)
		nb := 1
		if name == "peek_u64le_at" {
			nb = 8
		}
		if !off.isU64() || off.u > 0xFFFF {
			unsupp("peek offset")
		}
		if !in.pre(fr, e, "reader."+name, uint64(avail), off.u+uint64(nb)) {
			return value{k: vkNum}
		}
		return value{k: vkNum, n: nU(peekBytes(io.bytes()[io.ri+int(off.u):], nb, true))}
	case "skip_u32_fast":
		actual, worst := in.argNum(fr, e, 0), in.argNum(fr, e, 1)
		okA := in.pre(fr, e, "reader.skip_u32_fast(actual<=worst_case)", worst.wrap(64), actual.wrap(64))
		okB := in.pre(fr, e, "reader.skip_u32_fast(worst_case<=length)", uint64(avail), worst.wrap(64))
		if !okA || !okB {
			if actual.isU64() && actual.u <= uint64(avail) {
				io.ri += int(actual.u)
			}
			return value{k: vkNone}
		}
		io.ri += int(actual.u)
		return value{k: vkNone}
	case "limited_copy_u32_to_slice":
		up := in.argNum(fr, e, 0)
		dst := in.evalSlice(fr, e.Args()[1].AsArg().Value())
		n := dst.n
		if up.isU64() && uint64(n) > up.u {
			n = int(up.u)
		}
		if n > avail {
			n = avail
		}
		if n > 0 {
			if dst.m.ro {
				unsupp("store to read-only memory")
			}
			copy(dst.m.b[dst.off:dst.off+n], io.bytes()[io.ri:io.ri+n])
			io.ri += n
		}
		return value{k: vkNum, n: nU(uint64(n))}
	}
	if strings.HasPrefix(name, "peek_u") {
		nb, le, ok := endianOf(name)
		if !ok {
			unsupp("reader method %s", name)
		}
		if !in.pre(fr, e, "reader."+name, uint64(avail), uint64(nb)) {
			return value{k: vkNum}
		}
		return value{k: vkNum, n: nU(peekBytes(io.bytes()[io.ri:], nb, le))}
	}
	unsupp("reader method %s", name)
	return value{}
}

func (in *interp) builtinWriter(fr *frame, e *a.Expr, vr *variable, io *ioState, name string) value {
	avail := in.writerAvail(io)
	switch name {
	case "length":
		return value{k: vkNum, n: nU(uint64(avail))}
	case "history_length", "mark":
		return value{k: vkNum, n: nU(uint64(io.wi))}
	case "history_position":
		return value{k: vkNum, n: nU(io.pos)}
	case "position":
		return value{k: vkNum, n: nU(satAdd64(io.pos, uint64(io.wi)))}
	case "count_since":
		m := in.argNum(fr, e, 0)
		if m.isU64() && uint64(io.wi) >= m.u {
			return value{k: vkNum, n: nU(uint64(io.wi) - m.u)}
		}
		return value{k: vkNum}
	case "since":
		return value{k: vkSlice, sl: in.ioSince(io, in.argNum(fr, e, 0), io.wi, false)}
	case "can_undo_byte":
		return value{k: vkBool, n: nBool(io.wi > vr.io1)}
	case "peek_undo_byte":
		if !in.pre(fr, e, "writer.peek_undo_byte", uint64(io.wi), uint64(vr.io1)+1) || io.wi == 0 {
			return value{k: vkNum}
		}
		return value{k: vkNum, n: nU(uint64(io.bytes()[io.wi-1]))}
	case "undo_byte":
		if !in.pre(fr, e, "writer.undo_byte", uint64(io.wi), uint64(vr.io1)+1) || io.wi == 0 {
			return value{k: vkNone}
		}
		io.wi--
		return value{k: vkNone}
	case "copy_from_slice", "limited_copy_u32_from_slice":
		var src sliceVal
		n := 0
		if name == "copy_from_slice" {
			src = in.evalSlice(fr, e.Args()[0].AsArg().Value())
			n = src.n
		} else {
			up := in.argNum(fr, e, 0)
			src = in.evalSlice(fr, e.Args()[1].AsArg().Value())
			n = src.n
			if up.isU64() && uint64(n) > up.u {
				n = int(up.u)
			}
		}
		if n > avail {
			n = avail
		}
		if n > 0 {
			copy(io.bytes()[io.wi:io.wi+n], src.m.b[src.off:src.off+n])
			io.wi += n
		}
		return value{k: vkNum, n: nU(uint64(n))}
	case "limited_copy_u32_from_reader":
		up := in.argNum(fr, e, 0)
		re := e.Args()[1].AsArg().Value()
		rv := in.ioVar(fr, re)
		r := rv.v.io
		n := avail
		if up.isU64() && uint64(n) > up.u {
			n = int(up.u)
		}
		if ra := in.readerAvail(r); n > ra {
			n = ra
		}
		if n > 0 {
			copy(io.bytes()[io.wi:io.wi+n], r.bytes()[r.ri:r.ri+n])
			io.wi += n
			r.ri += n
		}
		return value{k: vkNum, n: nU(uint64(n))}
	case "limited_copy_u32_from_history":
		length, dist := in.argNum(fr, e, 0), in.argNum(fr, e, 1)
		if dist.isZero() || !dist.isU64() || uint64(io.wi) < dist.u {
			return value{k: vkNum}
		}
		n := avail
		if length.isU64() && uint64(n) > length.u {
			n = int(length.u)
		}
		b := io.bytes()
		p, q := io.wi, io.wi-int(dist.u)
		for i := 0; i < n; i++ {
			b[p+i] = b[q+i]
		}
		io.wi += n
		return value{k: vkNum, n: nU(uint64(n))}
	}

	if strings.HasPrefix(name, "limited_copy_u32_from_history_") {
		return in.historyFast(fr, e, io, name, avail)
	}

	if strings.HasPrefix(name, "write_u") && strings.HasSuffix(name, "_fast") {
		nb, le, ok := endianOf(name)
		if !ok {
			unsupp("writer method %s", name)
		}
		x := in.argNum(fr, e, 0)
		if nb != 1 && nb != 2 && nb != 4 && nb != 8 {
			nt := &numType{bits: 64, hi: nU(maxOfBits(uint(nb * 8)))}
			x = in.checkRange(fr, "arg-range", e.Args()[0].AsArg().Value(), x, nt)
		}
		if !in.pre(fr, e, "writer."+name, uint64(avail), uint64(nb)) {
			return value{k: vkNone}
		}
		pokeBytes(io.bytes()[io.wi:], nb, le, x.wrap(64))
		io.wi += nb
		return value{k: vkNone}
	}
	unsupp("writer method %s", name)
	return value{}
}

// historyFast implements the limited_copy_u32_from_history*_fast family with
// the pre-conditions documented in base/io-private.h.
func (in *interp) historyFast(fr *frame, e *a.Expr, io *ioState, name string, avail int) value {
	length, dist := in.argNum(fr, e, 0), in.argNum(fr, e, 1)
	chunks := strings.Contains(name, "8_byte_chunks")
	dist1 := strings.Contains(name, "distance_1")
	cusp := strings.HasSuffix(name, "_return_cusp")
	if !strings.Contains(name, "_fast") {
		unsupp("writer method %s", name)
	}
	L, D := length.wrap(32), dist.wrap(32)
	ok := in.pre(fr, e, "writer."+name+"(up_to>=1)", L, 1)
	need := L
	if chunks {
		need = L + 8
	}
	ok = in.pre(fr, e, "writer."+name+"(length)", uint64(avail), need) && ok
	switch {
	case dist1:
		ok = in.pre(fr, e, "writer."+name+"(distance==1)", 1, D) && ok
		ok = in.pre(fr, e, "writer."+name+"(distance>=1)", D, 1) && ok
	case chunks:
		ok = in.pre(fr, e, "writer."+name+"(distance>=8)", D, 8) && ok
	default:
		ok = in.pre(fr, e, "writer."+name+"(distance>=1)", D, 1) && ok
	}
	ok = in.pre(fr, e, "writer."+name+"(history)", uint64(io.wi), D) && ok
	if !ok {
		return value{k: vkNum}
	}
	b := io.bytes()
	p := io.wi
	q := p - int(D)
	n := int(L)
	switch {
	case !chunks:
		for i := 0; i < n; i++ {
			b[p+i] = b[q+i]
		}
		q += n
	case dist1:
		x := b[p-1]
		pp, m := p, n
		for {
			for i := 0; i < 8; i++ {
				b[pp+i] = x
			}
			if m <= 8 {
				q += m
				break
			}
			pp += 8
			q += 8
			m -= 8
		}
	default:
		pp, m := p, n
		for {
			copy(b[pp:pp+8], b[q:q+8])
			if m <= 8 {
				q += m
				break
			}
			pp += 8
			q += 8
			m -= 8
		}
	}
	io.wi += n
	if cusp {
		return value{k: vkNum, n: nU(peekBytes(b[q-1:], 2, true))}
	}
	return value{k: vkNum, n: nU(L)}
}

// ---- built-in coroutines (read_uN?, skip?, write_u8?)

func (in *interp) builtinQuestion(fr *frame, e *a.Expr) value {
	recv := e.LHS().AsExpr().LHS().AsExpr()
	name := in.methodName(e)
	if fr.act == nil {
		unsupp("built-in coroutine outside a coroutine")
	}
	io := func() *ioState { return in.ioVar(fr, recv).v.io }

	switch {
	case name == "write_u8":
		if !io().writer {
			unsupp("write_u8 on a reader")
		}
		x := in.argNum(fr, e, 0)
		for in.writerAvail(io()) == 0 {
			in.suspend(fr, stShortWrite)
		}
		w := io()
		w.bytes()[w.wi] = byte(x.wrap(8))
		w.wi++
		return value{k: vkStatus}

	case name == "skip" || name == "skip_u32":
		n := in.argNum(fr, e, 0)
		if !n.isU64() {
			unsupp("skip count")
		}
		scratch := n.u
		for {
			r := io()
			avail := uint64(in.readerAvail(r))
			if scratch > avail {
				scratch -= avail
				r.ri = r.wi
				in.suspend(fr, stShortRead)
				continue
			}
			r.ri += int(scratch)
			return value{k: vkStatus}
		}

	case strings.HasPrefix(name, "read_u"):
		if io().writer {
			unsupp("read on a writer")
		}
		nb, le, ok := endianOf(name)
		if !ok {
			unsupp("reader method %s", name)
		}
		var buf [8]byte
		have := 0
		if r := io(); in.readerAvail(r) >= nb {
			copy(buf[:nb], r.bytes()[r.ri:r.ri+nb])
			r.ri += nb
			have = nb
		}
		for have < nb {
			r := io()
			if r.ri == r.wi {
				in.suspend(fr, stShortRead)
				continue
			}
			buf[have] = r.bytes()[r.ri]
			r.ri++
			have++
		}
		return value{k: vkNum, n: nU(peekBytes(buf[:], nb, le))}
	}
	unsupp("built-in coroutine %s (not implemented by the C generator)", name)
	return value{}
}

// ---- base.utility

func signExtend(x uint64, from uint) int64 {
	sh := 64 - from
	return int64(x<<sh) >> sh
}

func (in *interp) builtinUtility(fr *frame, e *a.Expr) value {
	name := in.methodName(e)
	switch name {
	case "empty_slice_u8":
		return value{k: vkSlice}
	case "cpu_arch_is_32_bit":
		return value{k: vkBool}
	case "empty_io_reader":
		return value{k: vkIO, io: &ioState{}}
	case "empty_io_writer":
		return value{k: vkIO, io: &ioState{writer: true}}
	case "sign_extend_convert_u8_u32", "sign_extend_convert_u8_u64",
		"sign_extend_convert_u16_u32", "sign_extend_convert_u16_u64", "sign_extend_convert_u32_u64":
		parts := strings.Split(strings.TrimPrefix(name, "sign_extend_convert_u"), "_u")
		from, _ := strconv.Atoi(parts[0])
		to, _ := strconv.Atoi(parts[1])
		x := in.argNum(fr, e, 0).wrap(uint(from))
		return value{k: vkNum, n: nU(uint64(signExtend(x, uint(from))) & maxOfBits(uint(to)))}
	case "sign_extend_rshift_u32", "sign_extend_rshift_u64":
		bits := uint(32)
		if name == "sign_extend_rshift_u64" {
			bits = 64
		}
		x := in.argNum(fr, e, 0).wrap(bits)
		n := in.argNum(fr, e, 1)
		nt := &numType{bits: 32, hi: nU(uint64(bits - 1))}
		n = in.checkRange(fr, "arg-range", e.Args()[1].AsArg().Value(), n, nt)
		if !n.isU64() || n.u >= uint64(bits) {
			return value{k: vkNum}
		}
		return value{k: vkNum, n: nU(uint64(signExtend(x, bits)>>n.u) & maxOfBits(bits))}
	case "i64_divide":
		x, y := in.argNum(fr, e, 0).wrap(64), in.argNum(fr, e, 1)
		nt := &numType{bits: 64, lo: nU(1), hi: nU(^uint64(0))}
		y = in.checkRange(fr, "arg-range", e.Args()[1].AsArg().Value(), y, nt)
		d := int64(y.wrap(64))
		if d == 0 || (int64(x) == -1<<63 && d == -1) {
			// C: undefined (SIGFPE); the documented signature allows it.
			in.violation(fr, "pre:utility.i64_divide", e, strconv.FormatInt(int64(x), 10)+" / "+strconv.FormatInt(d, 10), "defined")
			return value{k: vkNum}
		}
		return value{k: vkNum, n: nU(uint64(int64(x) / d))}
	}
	unsupp("utility method %s", name)
	return value{}
}

var _ = t.IDBase
