package wprog

// C02: the checker's facts (check.VerifFacts), assertions and loop conditions
// evaluated in ideal integers in the concrete state.

import (
	"sort"
	"strconv"
	"strings"

	a "github.com/google/wuffs/lang/ast"
	t "github.com/google/wuffs/lang/token"
)

// checkFacts evaluates every fact the checker held just before statement n.
func (in *interp) checkFacts(fr *frame, n *a.Node) {
	if in.quiet > 0 {
		return
	}
	snaps := in.p.facts[n]
	for _, snap := range snaps {
		for _, f := range snap {
			ok, evaluable := in.evalFact(fr, f)
			if !evaluable {
				in.out.Stats.FactsSkipped++
				continue
			}
			in.noteFact(fr, f, "fact")
			if !ok {
				in.event(Event{Prop: "C02", Kind: "fact-false",
					Node: strconv.Itoa(int(fr.line)) + ": before " + in.stmtText(n),
					Line: fr.line, Fact: f.Str(in.p.tm), Values: in.factValues(fr, f)})
			}
		}
	}
}

func (in *interp) stmtText(n *a.Node) string {
	switch n.Kind() {
	case a.KAssign:
		as := n.AsAssign()
		if as.LHS() == nil {
			return as.RHS().Str(in.p.tm)
		}
		return as.LHS().Str(in.p.tm) + " " + as.Operator().Str(in.p.tm) + " " + as.RHS().Str(in.p.tm)
	case a.KIf:
		return "if " + n.AsIf().Condition().Str(in.p.tm)
	case a.KWhile:
		return "while " + n.AsWhile().Condition().Str(in.p.tm)
	case a.KRet:
		return n.AsRet().Keyword().Str(in.p.tm) + " " + n.AsRet().Value().Str(in.p.tm)
	case a.KAssert:
		return "assert " + n.AsAssert().Condition().Str(in.p.tm)
	case a.KVar:
		return "var " + n.AsVar().Name().Str(in.p.tm)
	case a.KJump:
		return n.AsJump().Keyword().Str(in.p.tm)
	case a.KIterate:
		return "iterate"
	case a.KIOManip:
		return n.AsIOManip().Keyword().Str(in.p.tm)
	case a.KChoose:
		return "choose " + n.AsChoose().Name().Str(in.p.tm)
	}
	return n.Kind().String()
}

// evalFact evaluates a boolean expression in ideal arithmetic without side
// effects on the monitors. evaluable is false if the expression is outside
// what can be evaluated (then nothing is claimed).
func (in *interp) evalFact(fr *frame, f *a.Expr) (ok bool, evaluable bool) {
	in.ideal++
	in.quiet++
	defer func() {
		in.ideal--
		in.quiet--
		if r := recover(); r != nil {
			switch r.(type) {
			case evalFail:
				ok, evaluable = false, false
			case unsupported:
				if m := r.(unsupported).msg; m == "step budget" || m == "call depth" {
					panic(r)
				}
				ok, evaluable = false, false
			default:
				panic(r)
			}
		}
	}()
	if cv := f.ConstValue(); cv != nil {
		return cv.Sign() != 0, true
	}
	v := in.eval(fr, f)
	if v.k != vkBool {
		return false, false
	}
	return !v.n.isZero(), true
}

// factValues renders the values of the leaves of a fact, for reports.
func (in *interp) factValues(fr *frame, f *a.Expr) string {
	seen := map[string]bool{}
	var parts []string
	var walk func(e *a.Expr)
	walk = func(e *a.Expr) {
		if e == nil {
			return
		}
		if e.ConstValue() != nil {
			return
		}
		leaf := false
		switch e.Operator() {
		case 0, t.IDDot, t.IDOpenBracket, t.IDOpenParen:
			leaf = true
		}
		if leaf && e.MType() != nil && (e.MType().IsNumType() || e.MType().IsBool() || e.MType().IsStatus()) {
			s := e.Str(in.p.tm)
			if !seen[s] {
				seen[s] = true
				val := "?"
				func() {
					in.ideal++
					in.quiet++
					defer func() {
						in.ideal--
						in.quiet--
						recover()
					}()
					v := in.eval(fr, e)
					switch v.k {
					case vkNum, vkBool:
						val = v.n.String()
					case vkStatus:
						val = strconv.Quote(v.s)
					}
				}()
				parts = append(parts, s+"="+val)
			}
			if e.Operator() != t.IDOpenBracket {
				return
			}
		}
		if e.Operator() == t.IDXBinaryAs {
			walk(e.LHS().AsExpr())
			return
		}
		if l := e.LHS(); l != nil && l.Kind() == a.KExpr {
			walk(l.AsExpr())
		}
		if m := e.MHS(); m != nil && m.Kind() == a.KExpr {
			walk(m.AsExpr())
		}
		if r := e.RHS(); r != nil && r.Kind() == a.KExpr {
			walk(r.AsExpr())
		}
		for _, o := range e.Args() {
			if o.Kind() == a.KExpr {
				walk(o.AsExpr())
			} else if o.Kind() == a.KArg {
				walk(o.AsArg().Value())
			}
		}
	}
	walk(f)
	sort.Strings(parts)
	return strings.Join(parts, ", ")
}

// ---- shape classes and triviality

func (in *interp) noteFact(fr *frame, f *a.Expr, origin string) {
	if in.quiet > 0 {
		return
	}
	shape := in.factShape(f)
	if origin != "fact" {
		shape = origin + ":" + shape
	}
	in.out.Stats.FactsEval[shape]++
	if !in.factTrivial(fr, f) {
		in.out.Stats.FactsNontriv[shape]++
	}
}

func (in *interp) operandKind(fr *frame, e *a.Expr) string {
	if e == nil {
		return "nil"
	}
	if e.ConstValue() != nil {
		return "const"
	}
	switch e.Operator() {
	case 0:
		return "local"
	case t.IDDot:
		if l := e.LHS().AsExpr(); l.Operator() == 0 {
			switch l.Ident() {
			case t.IDArgs:
				return "arg"
			case t.IDThis:
				return "field"
			}
		}
		return "field"
	case t.IDOpenBracket:
		return in.operandKind(fr, e.LHS().AsExpr()) + "[" + in.operandKind(fr, e.RHS().AsExpr()) + "]"
	case t.IDOpenParen:
		recv, meth, _, ok := e.IsMethodCall()
		if !ok {
			return "call"
		}
		rk := "expr"
		if rt := recv.MType(); rt != nil {
			switch {
			case rt.IsEitherSliceType():
				rk = "slice"
			case rt.IsIOType() && rt.QID()[1] == t.IDIOReader:
				rk = "reader"
			case rt.IsIOType():
				rk = "writer"
			case rt.IsStatus():
				rk = "status"
			case rt.IsNumType():
				rk = "num"
			case recv.Operator() == 0 && recv.Ident() == t.IDThis:
				rk = "this"
			case rt.IsPointerType() || rt.Decorator() == 0:
				rk = "obj"
			}
		}
		return rk + "." + meth.Str(in.p.tm) + "()"
	case t.IDXBinaryAs:
		return in.operandKind(fr, e.LHS().AsExpr())
	}
	if e.Operator().IsXBinaryOp() {
		return "(" + in.operandKind(fr, e.LHS().AsExpr()) + opText(e.Operator()) + in.operandKind(fr, e.RHS().AsExpr()) + ")"
	}
	if e.Operator().IsXUnaryOp() {
		return "(" + opText(e.Operator()) + in.operandKind(fr, e.RHS().AsExpr()) + ")"
	}
	return "expr"
}

func (in *interp) factShape(f *a.Expr) string {
	op := f.Operator()
	switch {
	case op == t.IDXUnaryNot:
		return "not " + in.operandKind(nil, f.RHS().AsExpr())
	case op.IsXBinaryOp() && op != t.IDXBinaryAs:
		return in.operandKind(nil, f.LHS().AsExpr()) + opText(op) + in.operandKind(nil, f.RHS().AsExpr())
	case op.IsXAssociativeOp():
		return opText(op) + "(...)"
	}
	return in.operandKind(nil, f)
}

// typeRange is the range an expression can take judging by the types of its
// leaves alone (never by the checker's cached bounds).
func (in *interp) typeRange(e *a.Expr) (lo, hi num, ok bool) {
	if e == nil {
		return num{}, num{}, false
	}
	if cv := e.ConstValue(); cv != nil {
		v := nBig(cv)
		return v, v, true
	}
	switch e.Operator() {
	case t.IDXBinaryPlus, t.IDXBinaryMinus:
		l0, l1, ok1 := in.typeRange(e.LHS().AsExpr())
		r0, r1, ok2 := in.typeRange(e.RHS().AsExpr())
		if !ok1 || !ok2 {
			return num{}, num{}, false
		}
		if e.Operator() == t.IDXBinaryPlus {
			return l0.add(r0), l1.add(r1), true
		}
		return l0.sub(r1), l1.sub(r0), true
	case t.IDXBinaryAs:
		l0, l1, ok1 := in.typeRange(e.LHS().AsExpr())
		if nt := in.p.numTypeOf(e.RHS().AsTypeExpr()); nt != nil {
			if ok1 && l0.cmp(nt.lo) >= 0 && l1.cmp(nt.hi) <= 0 {
				return l0, l1, true
			}
			return nt.lo, nt.hi, true
		}
		return l0, l1, ok1
	}
	typ := e.MType()
	if typ == nil {
		return num{}, num{}, false
	}
	if typ.IsNumType() || typ.IsBool() {
		if nt := in.p.numTypeOf(typ); nt != nil {
			return nt.lo, nt.hi, true
		}
	}
	return num{}, num{}, false
}

// factTrivial reports whether a comparison is implied by the operand types.
func (in *interp) factTrivial(fr *frame, f *a.Expr) bool {
	op := f.Operator()
	switch op {
	case t.IDXBinaryLessThan, t.IDXBinaryLessEq, t.IDXBinaryGreaterEq, t.IDXBinaryGreaterThan,
		t.IDXBinaryEqEq, t.IDXBinaryNotEq:
	default:
		return false
	}
	l0, l1, ok1 := in.typeRange(f.LHS().AsExpr())
	r0, r1, ok2 := in.typeRange(f.RHS().AsExpr())
	if !ok1 || !ok2 {
		return false
	}
	switch op {
	case t.IDXBinaryLessThan:
		return l1.cmp(r0) < 0
	case t.IDXBinaryLessEq:
		return l1.cmp(r0) <= 0
	case t.IDXBinaryGreaterEq:
		return l0.cmp(r1) >= 0
	case t.IDXBinaryGreaterThan:
		return l0.cmp(r1) > 0
	case t.IDXBinaryEqEq:
		return l0.cmp(l1) == 0 && r0.cmp(r1) == 0 && l0.cmp(r0) == 0
	case t.IDXBinaryNotEq:
		return l1.cmp(r0) < 0 || r1.cmp(l0) < 0
	}
	return false
}
