package wprog

import (
	"embed"
	"encoding/json"
	"sort"
	"strings"
)

//go:embed testdata/*.json
var handFS embed.FS

// HandCase is one hand-written program + history (written by `wprogtest
// -emit`, validated against the production C of the unchanged tree).
type HandCase struct {
	Case
	ExpectDiff bool `json:"expect_diff,omitempty"`
	SkipC      bool `json:"skip_c,omitempty"`
}

// HandCases returns the embedded hand-written cases, sorted by name: programs
// with constructs no generator family emits (io_limit / io_bind blocks, marks
// and undo, history copies, statuses as values, nested public coroutines,
// utility sub-structs, ...). Cases whose C must not be run are left out; the
// trigger cases written for defects of the pinned tree are included (the
// repaired ones are rejected by the checker or behave; the others are judged
// like any program).
func HandCases() []*Case {
	ents, _ := handFS.ReadDir("testdata")
	var names []string
	for _, e := range ents {
		if strings.HasSuffix(e.Name(), ".json") {
			names = append(names, e.Name())
		}
	}
	sort.Strings(names)
	var out []*Case
	for _, n := range names {
		b, err := handFS.ReadFile("testdata/" + n)
		if err != nil {
			continue
		}
		hc := &HandCase{}
		if json.Unmarshal(b, hc) != nil || hc.SkipC {
			continue
		}
		c := hc.Case
		c.ID = "hand/" + strings.TrimSuffix(n, ".json")
		out = append(out, &c)
	}
	return out
}
