package wprog

import (
	"fmt"
	"math/rand"
	"strings"
)

// K-live: randomly structured coroutine bodies aimed at the liveness analysis
// of the code generator (internal/cgen/liveness.go): locals written before and
// read after suspension points on every path shape (if / else if / else,
// labelled loops, break, continue, nested coroutine calls). Every arithmetic
// operator is modular, so the checker has nothing to refuse, and the only I/O
// is through `?` methods, so by construction the result cannot depend on how
// the streams are split (which is what the C05 generated leg relies on).

func init() {
	allFamilies = append(allFamilies, family{"K-live", 1, famLive})
}

// SplitIndependent reports whether programs of this case's (single) scenario
// only touch their streams through `?` methods, i.e. whether C05's statement
// applies to them unconditionally.
func SplitIndependent(id string) bool {
	for _, x := range SplitIndependentIDs {
		if x == id {
			return true
		}
	}
	return false
}

// SplitIndependentIDs lists the family/variant pairs for which C05's statement
// applies unconditionally.
var SplitIndependentIDs = []string{"K-live/v0",
	"K-read-seq/v0", "K-read-seq/v1", "K-read-seq/v2",
	"K-read-loop/v0", "K-read-loop/v1", "K-read-loop/v2", "K-read-loop/v3", "K-read-loop/v4",
	"K-write-loop/v0", "K-write-loop/v1",
	"K-nested-coro/v0", "K-nested-coro/v1", "K-nested-coro/v2", "K-nested-coro/v3", "K-nested-coro/v4", "K-nested-coro/v5",
	"K-peek-skip/v0",
	"K-loop-carry/v0", "K-loop-carry/v1", "K-loop-carry/v2", "K-loop-carry/v3", "K-loop-carry/v4", "K-loop-carry/v5",
	// several seeded inputs for the two shapes taken from std/png
	"K-loop-carry/v4", "K-loop-carry/v5", "K-loop-carry/v4", "K-loop-carry/v5"}

type liveGen struct {
	g       *genctx
	r       *rand.Rand
	nLocals int
	hasDst  bool
	sub     string
	acc     string
	labels  int
	stmts   int
}

func (l *liveGen) x() string { return fmt.Sprintf("x%d", l.r.Intn(l.nLocals)) }

func (l *liveGen) read(ind string) string {
	fns := []string{"read_u8_as_u32?", "read_u8_as_u32?", "read_u16le_as_u32?", "read_u16be_as_u32?", "read_u24le_as_u32?", "read_u24be_as_u32?", "read_u32le?", "read_u32be?"}
	return fmt.Sprintf("%s%s = args.src.%s()\n", ind, l.x(), fns[l.r.Intn(len(fns))])
}

func (l *liveGen) cond() string {
	m := []int{1, 3, 7, 15}[l.r.Intn(4)]
	return fmt.Sprintf("(%s & %d) == %d", l.x(), m, l.r.Intn(m+1))
}

// simple emits one statement without nested blocks.
func (l *liveGen) simple(ind string) string {
	l.stmts++
	switch k := l.r.Intn(10); {
	case k < 3:
		return l.read(ind)
	case k < 5:
		return fmt.Sprintf("%s%s = (%s ~mod* 31) ~mod+ %s\n", ind, l.x(), l.x(), l.x())
	case k < 6:
		return fmt.Sprintf("%s%s ~mod+= %d\n", ind, l.x(), 1+l.r.Intn(9))
	case k < 7:
		return fmt.Sprintf("%s%s = %s ^ %s\n", ind, l.x(), l.x(), l.x())
	case k < 8:
		return fmt.Sprintf("%sthis.%s = (this.%s ~mod* 33) ~mod+ %s\n", ind, l.acc, l.acc, l.x())
	case k < 9 && l.hasDst:
		return fmt.Sprintf("%sargs.dst.write_u8?(a: (%s & 0xFF) as base.u8)\n", ind, l.x())
	}
	return l.nested(ind)
}

// nested emits a call of the private coroutine: its numeric argument is a
// bare local, a compound expression over locals (which must be saved across
// the callee's suspensions just the same) or a constant; the callee uses the
// argument after its own suspension points.
func (l *liveGen) nested(ind string) string {
	var arg string
	switch l.r.Intn(5) {
	case 0:
		arg = l.x()
	case 1:
		arg = fmt.Sprintf("%s ~mod+ %d", l.x(), 1+l.r.Intn(9))
	case 2:
		arg = fmt.Sprintf("(%s ~mod* 3) ^ %s", l.x(), l.x())
	case 3:
		arg = fmt.Sprintf("this.%s ~mod+ %s", l.acc, l.x())
	default:
		arg = fmt.Sprint(l.r.Intn(1000))
	}
	return fmt.Sprintf("%sthis.%s?(src: args.src, k: %s)\n", ind, l.sub, arg)
}

// block emits n statements at the given depth; loop is the label of the
// innermost enclosing loop ("" if none).
func (l *liveGen) block(ind string, n, depth int, loop string) string {
	var sb strings.Builder
	for i := 0; i < n && l.stmts < 40; i++ {
		k := l.r.Intn(10)
		switch {
		case depth < 3 && k < 3: // if / else if / else
			sb.WriteString(fmt.Sprintf("%sif %s {\n", ind, l.cond()))
			sb.WriteString(l.block(ind+"    ", 1+l.r.Intn(3), depth+1, loop))
			if l.r.Intn(3) == 0 {
				sb.WriteString(fmt.Sprintf("%s} else if %s {\n", ind, l.cond()))
				sb.WriteString(l.block(ind+"    ", 1+l.r.Intn(2), depth+1, loop))
			}
			if l.r.Intn(2) == 0 {
				sb.WriteString(ind + "} else {\n")
				sb.WriteString(l.block(ind+"    ", 1+l.r.Intn(3), depth+1, loop))
			}
			sb.WriteString(ind + "}\n")
			l.stmts++
		case depth < 2 && k < 5: // labelled loop; each iteration starts with a read, so it ends with the input
			lab := fmt.Sprintf("l%d", l.labels)
			l.labels++
			in := ind + "    "
			sb.WriteString(fmt.Sprintf("%swhile.%s true {\n", ind, lab))
			sb.WriteString(l.read(in))
			sb.WriteString(fmt.Sprintf("%sif %s {\n%s    break.%s\n%s}\n", in, l.cond(), in, lab, in))
			sb.WriteString(l.block(in, 1+l.r.Intn(3), depth+1, lab))
			sb.WriteString(fmt.Sprintf("%s}.%s\n", ind, lab))
			l.stmts += 2
		case loop != "" && k < 7: // jump out of / to the head of the enclosing loop from inside an if
			j := "break"
			if l.r.Intn(2) == 0 {
				j = "continue"
			}
			sb.WriteString(fmt.Sprintf("%sif %s {\n", ind, l.cond()))
			if l.r.Intn(2) == 0 {
				sb.WriteString(l.simple(ind + "    "))
			}
			sb.WriteString(fmt.Sprintf("%s    %s.%s\n%s}\n", ind, j, loop, ind))
			l.stmts++
		default:
			sb.WriteString(l.simple(ind))
		}
	}
	return sb.String()
}

func famLive(g *genctx, v int) *scen {
	l := &liveGen{g: g, r: g.r, nLocals: 2 + g.r.Intn(4), hasDst: g.r.Intn(3) == 0, sub: g.n("sub"), acc: g.n("acc")}
	m := g.n("live")
	var decl string
	for i := 0; i < l.nLocals; i++ {
		decl += fmt.Sprintf("    var x%d : base.u32\n", i)
	}
	body := l.read("    ") + l.block("    ", 3+g.r.Intn(6), 0, "")
	// only some locals are read again at the end: the others are dead after
	// their last use, which may be inside a nested call's argument
	mix := "this." + l.acc
	for i := 0; i < l.nLocals; i++ {
		if g.r.Intn(2) == 0 {
			mix = fmt.Sprintf("((%s ~mod* 131) ~mod+ x%d)", mix, i)
		}
	}
	body += fmt.Sprintf("    this.%s = %s\n    this.%s ~mod+= 1\n", l.acc, mix, g.n("done"))
	sig := "src: base.io_reader"
	if l.hasDst {
		sig = "src: base.io_reader, dst: base.io_writer"
	}
	s := &scen{coro: true, features: []string{"coroutine", "liveness", "labelled-jumps"}}
	s.fields = []string{l.acc + " : base.u32", g.n("done") + " : base.u32", g.n("subsum") + " : base.u32"}
	s.methods = []string{
		fmt.Sprintf("pri func obj.%s?(src: base.io_reader, k: base.u32) {\n    var a : base.u32\n    var b : base.u32\n    a = args.src.read_u8_as_u32?()\n    this.%s = (this.%s ~mod* 7) ~mod+ args.k\n    b = args.src.read_u16le_as_u32?()\n    this.%s = (this.%s ~mod* 7) ~mod+ ((a ~mod+ b) ^ args.k)\n}", l.sub, g.n("subsum"), g.n("subsum"), g.n("subsum"), g.n("subsum")),
		fmt.Sprintf("pub func obj.%s?(%s) {\n%s\n%s}", m, sig, decl, body),
		fmt.Sprintf("pub func obj.%s() base.u32 {\n    return this.%s\n}", g.n("getacc"), l.acc),
		fmt.Sprintf("pub func obj.%s() base.u32 {\n    return this.%s\n}", g.n("getdone"), g.n("done")),
		fmt.Sprintf("pub func obj.%s() base.u32 {\n    return this.%s\n}", g.n("getsub"), g.n("subsum")),
	}
	s.getters = []string{g.n("getacc"), g.n("getdone"), g.n("getsub")}
	s.drive = func(r *rand.Rand) []Call {
		n := 4 + r.Intn(36)
		data := randBytes(r, n)
		for i := range data { // small values keep the masked conditions mixed
			if r.Intn(3) == 0 {
				data[i] = byte(r.Intn(16))
			}
		}
		return feedCalls(r, m, data, true, l.hasDst, r.Intn(24), nil)
	}
	return s
}

// Resplit returns re-partitioned versions of a case whose history is one feed
// block (consecutive calls of a single coroutine method that differ only in
// their reader / writer arguments): index 0 is the one-shot delivery (all
// source bytes, closed as in the original, the whole destination capacity, in
// one call), followed by every single split point of the source, every single
// split point of the destination capacity, byte-by-byte delivery and random
// multi-splits, up to max variants. It returns nil when the history is not one
// feed block.
func Resplit(c *Case, r *rand.Rand, max int) []*Case {
	if len(c.Calls) == 0 {
		return nil
	}
	m := c.Calls[0].Method
	var data []byte
	closed, hasSrc, hasDst := false, false, false
	grow := 0
	first := c.Calls[0]
	for _, cl := range c.Calls {
		if cl.Method != m || len(cl.Args) != len(first.Args) {
			return nil
		}
		for i, a := range cl.Args {
			if a.Kind != first.Args[i].Kind {
				return nil
			}
			switch a.Kind {
			case "reader":
				hasSrc = true
				if a.Reader != nil {
					data = append(data, a.Reader.Append...)
					closed = closed || a.Reader.Close
				}
			case "writer":
				hasDst = true
				if a.Writer != nil {
					grow += a.Writer.Grow
				}
			case "int":
				if a.Int != first.Args[i].Int {
					return nil
				}
			default:
				return nil
			}
		}
	}
	if !hasSrc && !hasDst {
		return nil
	}
	// build makes a history delivering the source in the pieces ending at the
	// (ascending) offsets sCuts + len(data) and the capacity at gCuts + grow;
	// call i carries source piece i and capacity piece i (the shorter list is
	// padded with empty pieces), and `closed` arrives with the last source byte.
	build := func(sCuts, gCuts []int) *Case {
		sEnds := append(append([]int{}, sCuts...), len(data))
		gEnds := append(append([]int{}, gCuts...), grow)
		n := len(sEnds)
		if len(gEnds) > n {
			n = len(gEnds)
		}
		nc := *c
		nc.Calls = nil
		soff, goff := 0, 0
		for i := 0; i < n; i++ {
			var args []Arg
			for _, a := range first.Args {
				switch a.Kind {
				case "reader":
					e := len(data)
					if i < len(sEnds) {
						e = sEnds[i]
					}
					args = append(args, Arg{Kind: "reader", Reader: &ReaderOp{Append: data[soff:e], Close: closed && e == len(data)}})
					soff = e
				case "writer":
					e := grow
					if i < len(gEnds) {
						e = gEnds[i]
					}
					args = append(args, Arg{Kind: "writer", Writer: &WriterOp{Grow: e - goff}})
					goff = e
				default:
					args = append(args, a)
				}
			}
			nc.Calls = append(nc.Calls, Call{Method: m, Args: args})
		}
		return &nc
	}
	// one-shot first; then the byte-by-byte and random multi-split plans; the
	// single split points fill what is left of max (all of them when they fit,
	// an even seeded sample otherwise)
	out := []*Case{build(nil, nil)}
	var all, allg []int
	for k := 1; k < len(data); k++ {
		all = append(all, k)
	}
	for k := 1; k < grow; k++ {
		allg = append(allg, k)
	}
	if hasSrc && hasDst {
		out = append(out, build(all, allg), build(all, nil), build(nil, allg))
	} else if hasSrc {
		out = append(out, build(all, nil))
	} else {
		out = append(out, build(nil, allg))
	}
	for i := 0; i < 5; i++ {
		out = append(out, build(randCuts(r, len(data)), randCuts(r, grow)))
	}
	var singles []*Case
	if hasSrc {
		for k := 0; k <= len(data); k++ { // k == 0 and k == len: an empty piece first / a late `closed`
			singles = append(singles, build([]int{k}, nil))
		}
	}
	if hasDst {
		for k := 0; k <= grow; k++ {
			singles = append(singles, build(nil, []int{k}))
		}
	}
	if room := max - len(out); room < len(singles) {
		r.Shuffle(len(singles), func(a, b int) { singles[a], singles[b] = singles[b], singles[a] })
		if room < 0 {
			room = 0
		}
		singles = singles[:room]
	}
	return append(out, singles...)
}

func randCuts(r *rand.Rand, n int) []int {
	var cuts []int
	if n <= 0 {
		return nil
	}
	k := r.Intn(5)
	pos := 0
	for i := 0; i < k && pos < n; i++ {
		pos += r.Intn(n - pos + 1)
		cuts = append(cuts, pos)
	}
	return cuts
}

// Final summarises a feed-block trace for the split comparison: the record of
// the first call that did not return a suspension (the coroutine's result), or
// the last record when every call suspended.
func Final(t []Rec) (rec Rec, completed bool) {
	for _, x := range t {
		if !strings.HasPrefix(x.Ret, "$") {
			return x, true
		}
	}
	if len(t) == 0 {
		return Rec{}, false
	}
	return t[len(t)-1], false
}

// K-loop-carry: a local written on only some iterations (in a branch that ends
// with `continue`) and read at the top of a later iteration, after the read
// that can suspend; another branch further down leaves by `break`. Whether the
// local is saved across the suspension is only found by the liveness analysis'
// second round over the loop body.
func init() {
	allFamilies = append(allFamilies, family{"K-loop-carry", 6, famLoopCarry})
}

func famLoopCarry(g *genctx, v int) *scen {
	m, acc := g.n("carry"), g.n("cacc")
	if v >= 4 {
		// the shape of png.decoder.do_tell_me_more: a local assigned only when a
		// staging area is empty, an inner drain loop that yields and continues
		// the OUTER loop when the destination is full, and a test of the local
		// after the drain loop that decides about the break
		ri, wi := g.n("ri"), g.n("wi")
		after := "        if (v & 0x80) <> 0 {\n            break.l0\n        }\n"
		if v == 5 {
			after = "        if (v & 0x80) <> 0 {\n            this." + acc + " ~mod+= v\n            break.l0\n        } else if (v & 0x40) <> 0 {\n            continue.l0\n        }\n        this." + acc + " ~mod+= 3\n"
		}
		body := "    while.l0 true {\n        if this." + ri + " == this." + wi + " {\n            v = args.src.read_u8_as_u32?()\n            this." + ri + " = 0\n            this." + wi + " = (v & 7) + 1\n        }\n" +
			"        while this." + ri + " < this." + wi + " {\n            if args.dst.length() <= 0 {\n                yield? base.\"$short write\"\n                continue.l0\n            }\n            assert this." + ri + " < 8 via \"a < b: a < c; c <= b\"(c: this." + wi + ")\n            this." + ri + " += 1\n            args.dst.write_u8_fast!(a: ((v ~mod+ this." + ri + ") & 0xFF) as base.u8)\n        }\n" + after + "    }.l0\n    this." + acc + " = (this." + acc + " ~mod* 131) ~mod+ v\n"
		s := &scen{coro: true, features: []string{"coroutine", "liveness", "loop-carried-local", "yield-continue-outer"}}
		s.fields = []string{acc + " : base.u32", ri + " : base.u32[..= 8]", wi + " : base.u32[..= 8]"}
		s.methods = []string{
			fmt.Sprintf("pub func obj.%s?(src: base.io_reader, dst: base.io_writer) {\n    var v : base.u32\n%s}", m, body),
			fmt.Sprintf("pub func obj.%s() base.u32 {\n    return this.%s\n}", g.n("getcacc"), acc),
		}
		s.getters = []string{g.n("getcacc")}
		s.drive = func(r *rand.Rand) []Call {
			n := 3 + r.Intn(8)
			data := make([]byte, n)
			total := 0
			for i := range data {
				data[i] = byte(r.Intn(64))
				total += int(data[i]&7) + 1
			}
			data[n-1] |= 0x80
			return feedCalls(r, m, data, true, true, total+r.Intn(3), nil)
		}
		return s
	}
	contFirst := "        if (c & 3) == 0 {\n            v = c ~mod+ 1\n            continue.l0\n        }\n"
	brk := "        if (c & 7) == 7 {\n            break.l0\n        }\n"
	var mid string
	switch v {
	case 0:
		mid = contFirst + brk
	case 1:
		mid = brk + contFirst
	case 2: // the write sits in an inner loop that continues the outer one
		mid = "        while.l1 true {\n            d = args.src.read_u8_as_u32?()\n            if (d & 1) == 0 {\n                v = d ~mod+ 7\n                continue.l0\n            }\n            break.l1\n        }.l1\n" + brk
	case 3: // two carried locals, continue / break / continue
		mid = contFirst + brk + "        if (c & 3) == 1 {\n            u = c ~mod* 5\n            continue.l0\n        }\n"
	}
	body := "    while.l0 true {\n        c = args.src.read_u8_as_u32?()\n        this." + acc + " = ((this." + acc + " ~mod* 33) ~mod+ v) ~mod+ (u ~mod* 3)\n" + mid + "        w = w ~mod+ c\n    }.l0\n    this." + acc + " = (this." + acc + " ~mod* 131) ~mod+ (w ~mod+ v)\n"
	s := &scen{coro: true, features: []string{"coroutine", "liveness", "loop-carried-local"}}
	s.fields = []string{acc + " : base.u32"}
	s.methods = []string{
		fmt.Sprintf("pub func obj.%s?(src: base.io_reader) {\n    var c : base.u32\n    var d : base.u32\n    var u : base.u32\n    var v : base.u32\n    var w : base.u32\n%s}", m, body),
		fmt.Sprintf("pub func obj.%s() base.u32 {\n    return this.%s\n}", g.n("getcacc"), acc),
	}
	s.getters = []string{g.n("getcacc")}
	s.drive = func(r *rand.Rand) []Call {
		n := 6 + r.Intn(20)
		data := make([]byte, n)
		for i := range data {
			data[i] = byte(r.Intn(256))
			if r.Intn(3) == 0 {
				data[i] &^= 3 // takes the continue branch
			}
			if data[i]&7 == 7 && i < n-2 {
				data[i]-- // keep the break for the end
			}
		}
		data[n-1] |= 7
		return feedCalls(r, m, data, true, false, 0, nil)
	}
	return s
}
