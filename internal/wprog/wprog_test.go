package wprog

import (
	"encoding/json"
	"fmt"
	"math/rand"
	"os"
	"path/filepath"
	"reflect"
	"runtime"
	"strings"
	"sync"
	"testing"
	"time"
)

type testCase struct {
	Case
	ExpectEvents      []string `json:"expect_events"`
	ExpectUnsupported bool     `json:"expect_unsupported"`
	ExpectRejected    bool     `json:"expect_rejected"`
}

func loadTestdata(t testing.TB) map[string]*testCase {
	files, _ := filepath.Glob("testdata/*.json")
	if len(files) == 0 {
		t.Fatal("no testdata")
	}
	m := map[string]*testCase{}
	for _, f := range files {
		b, err := os.ReadFile(f)
		if err != nil {
			t.Fatal(err)
		}
		tc := &testCase{}
		if err := json.Unmarshal(b, tc); err != nil {
			t.Fatalf("%s: %v", f, err)
		}
		m[strings.TrimSuffix(filepath.Base(f), ".json")] = tc
	}
	return m
}

// TestInterpreterOnTestdata: every hand-written case compiles, is interpreted
// without leaving the subset, raises exactly the expected kinds of events and
// is deterministic.
//
// The trigger cases (expect_events) describe the pinned tree: once a checker
// defect is repaired in the tree under test the program is rejected or the
// event no longer fires, which is reported but is not a failure. At least
// half of them must still fire, or the monitors themselves are broken.
func TestInterpreterOnTestdata(t *testing.T) {
	triggers, fired := 0, 0
	defer func() {
		t.Logf("%d of %d trigger cases fired", fired, triggers)
		if triggers > 0 && fired*2 < triggers {
			t.Errorf("only %d of %d trigger cases fired", fired, triggers)
		}
	}()
	for name, tc := range loadTestdata(t) {
		if len(tc.ExpectEvents) > 0 {
			triggers++
		}
		p, rej, err := Compile(&tc.Case)
		if err != nil {
			t.Errorf("%s: Compile: %v", name, err)
			continue
		}
		if p == nil {
			if len(tc.ExpectEvents) > 0 {
				t.Logf("%s: trigger case is rejected by this tree (repaired?): %s", name, rej)
			} else if !tc.ExpectRejected {
				t.Errorf("%s: rejected: %s", name, rej)
			}
			continue
		}
		out := p.Interpret(&tc.Case)
		if (out.Unsupported != "") != tc.ExpectUnsupported {
			t.Errorf("%s: unsupported = %q", name, out.Unsupported)
			continue
		}
		got := map[string]bool{}
		for _, e := range out.Events {
			got[e.Prop+":"+e.Kind] = true
			got[fmt.Sprintf("%s:%s@%d", e.Prop, e.Kind, e.Line)] = true
		}
		missing := false
		for _, w := range tc.ExpectEvents {
			if !got[w] {
				missing = true
				t.Logf("%s: trigger event %s did not fire on this tree (have %v)", name, w, got)
			}
		}
		if len(tc.ExpectEvents) > 0 && !missing {
			fired++
		}
		if len(tc.ExpectEvents) == 0 && len(out.Events) > 0 {
			t.Errorf("%s: unexpected event %+v", name, out.Events[0])
		}
		if !tc.ExpectUnsupported && len(out.Trace) != len(tc.Calls) {
			t.Errorf("%s: %d records for %d calls", name, len(out.Trace), len(tc.Calls))
		}
		out2 := p.Interpret(&tc.Case)
		if !reflect.DeepEqual(out, out2) {
			t.Errorf("%s: the interpreter is not deterministic", name)
		}
	}
}

// TestConcurrentInterpret: one Program may be interpreted from several
// goroutines; no goroutine of a finished interpretation stays behind.
func TestConcurrentInterpret(t *testing.T) {
	cases := loadTestdata(t)
	before := runtime.NumGoroutine()
	var wg sync.WaitGroup
	for name, tc := range cases {
		p, _, _ := Compile(&tc.Case)
		if p == nil {
			continue
		}
		ref := p.Interpret(&tc.Case)
		for g := 0; g < 4; g++ {
			wg.Add(1)
			go func(name string, tc *testCase) {
				defer wg.Done()
				if out := p.Interpret(&tc.Case); !reflect.DeepEqual(out, ref) {
					t.Errorf("%s: concurrent interpretation differs", name)
				}
			}(name, tc)
		}
	}
	wg.Wait()
	time.Sleep(50 * time.Millisecond)
	if after := runtime.NumGoroutine(); after > before+2 {
		t.Errorf("goroutines: %d before, %d after", before, after)
	}
}

// TestRobustness: mutilated programs and histories never make Compile or
// Interpret panic or hang.
func TestRobustness(t *testing.T) {
	cases := loadTestdata(t)
	r := rand.New(rand.NewSource(1))
	var names []string
	for n := range cases {
		names = append(names, n)
	}
	// deterministic order
	for i := range names {
		for j := i + 1; j < len(names); j++ {
			if names[j] < names[i] {
				names[i], names[j] = names[j], names[i]
			}
		}
	}
	n := 0
	deadline := time.Now().Add(60 * time.Second)
	for _, name := range names {
		tc := cases[name]
		if len(tc.Calls) > 120 {
			continue
		}
		for k := 0; k < 12 && time.Now().Before(deadline); k++ {
			c := tc.Case
			src := []byte(c.Source)
			switch k % 4 {
			case 0: // delete a line
				ls := strings.Split(c.Source, "\n")
				i := r.Intn(len(ls))
				src = []byte(strings.Join(append(append([]string{}, ls[:i]...), ls[i+1:]...), "\n"))
			case 1: // change a digit
				for tries := 0; tries < 50; tries++ {
					i := r.Intn(len(src))
					if src[i] >= '0' && src[i] <= '9' {
						src[i] = byte('0' + r.Intn(10))
						break
					}
				}
			case 2: // swap two operators / comparison directions
				s := string(src)
				pairs := [][2]string{{" < ", " <= "}, {" + ", " - "}, {" >= ", " > "}, {"~mod+", "~sat+"}, {" and ", " or "}}
				pr := pairs[r.Intn(len(pairs))]
				if r.Intn(2) == 0 {
					pr[0], pr[1] = pr[1], pr[0]
				}
				src = []byte(strings.Replace(s, pr[0], pr[1], 1+r.Intn(3)))
			case 3: // scramble the history
				calls := append([]Call{}, c.Calls...)
				r.Shuffle(len(calls), func(i, j int) { calls[i], calls[j] = calls[j], calls[i] })
				c.Calls = calls
			}
			c.Source = string(src)
			done := make(chan struct{})
			go func() {
				defer close(done)
				p, _, err := Compile(&c)
				if err != nil {
					t.Errorf("%s/%d: Compile error: %v", name, k, err)
				}
				if p != nil {
					p.Interpret(&c)
				}
			}()
			select {
			case <-done:
			case <-time.After(30 * time.Second):
				t.Fatalf("%s/%d: hang", name, k)
			}
			n++
		}
	}
	t.Logf("%d mutilated cases", n)
}

// TestInfiniteLoopBudget: a program that does not terminate ends in
// Unsupported "step budget".
func TestInfiniteLoopBudget(t *testing.T) {
	c := &Case{Struct: "obj", Source: `
pub struct obj?(
        n : base.u32,
)

pub func obj.spin!() {
    while true {
        this.n ~mod+= 1
    }
}
`, Calls: []Call{{Method: "spin"}}}
	p, rej, err := Compile(c)
	if p == nil {
		t.Fatal(rej, err)
	}
	out := p.Interpret(c)
	if out.Unsupported != "step budget" {
		t.Errorf("unsupported = %q", out.Unsupported)
	}
}

func BenchmarkCompileInterpret(b *testing.B) {
	cases := loadTestdata(b)
	tc := cases["f01_nested_coroutines"]
	for i := 0; i < b.N; i++ {
		p, _, _ := Compile(&tc.Case)
		p.Interpret(&tc.Case)
	}
}

func BenchmarkInterpret(b *testing.B) {
	cases := loadTestdata(b)
	tc := cases["f01_nested_coroutines"]
	p, _, _ := Compile(&tc.Case)
	b.ResetTimer()
	for i := 0; i < b.N; i++ {
		p.Interpret(&tc.Case)
	}
}

func TestCGenIssues(t *testing.T) {
	want := map[string]string{
		"t12_cgen_invalid_c": "pub-func-returning-bool",
	}
	for name, tc := range loadTestdata(t) {
		p, _, _ := Compile(&tc.Case)
		if p == nil {
			continue
		}
		got := p.CGenIssues()
		if w, ok := want[name]; ok {
			if len(got) != 1 || got[0] != w {
				t.Errorf("%s: CGenIssues = %v, want [%s]", name, got, w)
			}
		} else if len(got) != 0 {
			t.Errorf("%s: unexpected CGenIssues %v", name, got)
		}
	}
}
