package wprog

import (
	"fmt"
	"math/rand"
	"strings"
)

// M-kill: the fact-invalidation matrix. Every program establishes one fact F
// about one kind of target (local, field, argument, array element, slice
// element, I/O length, slice length), then performs one "killer" action that
// can falsify F (assignment, compound assignment, impure call, callee writing
// through a slice argument, suspension, yield, store through an alias, store
// to a sibling element, partial kill in a nested if, nested coroutine call,
// I/O advance, or any of these inside a loop that claims F as its invariant,
// leaving through break / continue / the end of the body), and finally USES F
// (as an index or I/O pre-condition, or re-asserts it). A sound checker
// rejects every combination whose killer can reach the target; the control
// (no killer) must be accepted. Accepted programs are executed with values
// that make the killer falsify F, so a checker that forgets one invalidation
// is observed as a false fact (C02) or an unsafe access (C01) at run time.
//
// The matrix is enumerated, not sampled: variant v decodes to one
// (target, killer, exit, use) combination.

type killTarget struct {
	name  string
	fact  func(g *genctx) string // F
	guard func(g *genctx) string // extra enclosing guard ("" if none)
	expr  func(g *genctx) string // the target as an assignee, "" if not assignable
	val   string                 // an expression of the target's type that can be out of F's range
	use   func(g *genctx) string // statement relying on F
}

var killTargets = []killTarget{
	{"local", func(g *genctx) string { return "x < 4" }, nil, func(g *genctx) string { return "x" }, "args.v",
		func(g *genctx) string { return "this." + g.n("a") + "[x] = 1" }},
	{"field", func(g *genctx) string { return "this." + g.n("f") + " < 4" }, nil, func(g *genctx) string { return "this." + g.n("f") }, "args.v",
		func(g *genctx) string { return "this." + g.n("a") + "[this." + g.n("f") + "] = 1" }},
	{"arg", func(g *genctx) string { return "args.n < 4" }, nil, func(g *genctx) string { return "" }, "",
		func(g *genctx) string { return "this." + g.n("a") + "[args.n] = 1" }},
	{"array-elem", func(g *genctx) string { return "this." + g.n("b") + "[0] < 4" }, nil, func(g *genctx) string { return "this." + g.n("b") + "[0]" }, "((args.v & 0xFF) as base.u8)",
		func(g *genctx) string { return "this." + g.n("a") + "[this." + g.n("b") + "[0]] = 1" }},
	{"slice-elem", func(g *genctx) string { return "args.s[0] < 4" }, func(g *genctx) string { return "args.s.length() > 0" }, func(g *genctx) string { return "args.s[0]" }, "((args.v & 0xFF) as base.u8)",
		func(g *genctx) string { return "this." + g.n("a") + "[args.s[0]] = 1" }},
	{"io-length", func(g *genctx) string { return "args.src.length() >= 4" }, nil, func(g *genctx) string { return "" }, "",
		func(g *genctx) string { return "this." + g.n("g") + " = args.src.peek_u32le()" }},
	{"io-length-eq", func(g *genctx) string { return "args.src.length() == 8" }, nil, func(g *genctx) string { return "" }, "",
		func(g *genctx) string { return "this." + g.n("g") + " = (args.src.length() & 0xFFFF) as base.u32" }},
	{"slice-length", func(g *genctx) string { return "s2.length() >= 4" }, nil, func(g *genctx) string { return "" }, "",
		func(g *genctx) string { return "t = s2[3]" }},
}

// killers; each returns the statements (indented by ind) or "" when it does
// not apply to the target.
type killer struct {
	name    string
	suspend bool
	make    func(g *genctx, t *killTarget, ind string) string
}

var killers = []killer{
	{"none", false, func(g *genctx, t *killTarget, ind string) string { return ind + "this." + g.n("g") + " ~mod+= 1\n" }},
	{"assign", false, func(g *genctx, t *killTarget, ind string) string {
		if t.name == "slice-length" {
			return ind + "s2 = s2[1 ..]\n"
		}
		if e := t.expr(g); e != "" {
			return ind + e + " = " + t.val + "\n"
		}
		return ""
	}},
	{"plus-assign", false, func(g *genctx, t *killTarget, ind string) string {
		if e := t.expr(g); e != "" {
			return ind + e + " += 1\n"
		}
		return ""
	}},
	{"mod-plus-assign", false, func(g *genctx, t *killTarget, ind string) string {
		if e := t.expr(g); e != "" {
			return ind + e + " ~mod+= " + t.val + "\n"
		}
		return ""
	}},
	{"impure-call", false, func(g *genctx, t *killTarget, ind string) string { return ind + "this." + g.n("mut") + "!()\n" }},
	{"callee-writes-slice", false, func(g *genctx, t *killTarget, ind string) string {
		if t.name == "slice-elem" {
			return ind + "this." + g.n("scribble") + "!(s: args.s)\n"
		}
		if t.name == "array-elem" {
			return ind + "this." + g.n("scribble") + "!(s: this." + g.n("b") + "[..])\n"
		}
		return ""
	}},
	{"suspend-read", true, func(g *genctx, t *killTarget, ind string) string { return ind + "t = args.src.read_u8?()\n" }},
	{"yield", true, func(g *genctx, t *killTarget, ind string) string { return ind + "yield? \"$" + g.n("pause") + "\"\n" }},
	{"nested-coroutine", true, func(g *genctx, t *killTarget, ind string) string {
		return ind + "this." + g.n("sub") + "?(src: args.src)\n"
	}},
	{"alias-store", false, func(g *genctx, t *killTarget, ind string) string {
		switch t.name {
		case "array-elem":
			return ind + "s3 = this." + g.n("b") + "[..]\n" + ind + "if s3.length() > 0 {\n" + ind + "    s3[0] = ((args.v & 0xFF) as base.u8)\n" + ind + "}\n"
		case "slice-elem":
			return ind + "s3 = args.s\n" + ind + "if s3.length() > 0 {\n" + ind + "    s3[0] = ((args.v & 0xFF) as base.u8)\n" + ind + "}\n"
		}
		return ""
	}},
	{"sibling-store", false, func(g *genctx, t *killTarget, ind string) string {
		switch t.name {
		case "array-elem":
			return ind + "this." + g.n("b") + "[args.n & 1] = ((args.v & 0xFF) as base.u8)\n"
		case "slice-elem":
			return ind + "if (args.n as base.u64) < args.s.length() {\n" + ind + "    args.s[args.n as base.u64] = ((args.v & 0xFF) as base.u8)\n" + ind + "}\n"
		}
		return ""
	}},
	{"sibling-compound-store", false, func(g *genctx, t *killTarget, ind string) string {
		switch t.name {
		case "array-elem":
			return ind + "this." + g.n("b") + "[args.n & 1] ~mod+= ((args.v & 0xFF) as base.u8)\n"
		case "slice-elem":
			return ind + "if (args.n as base.u64) < args.s.length() {\n" + ind + "    args.s[args.n as base.u64] ~mod+= ((args.v & 0xFF) as base.u8)\n" + ind + "}\n"
		}
		return ""
	}},
	{"alias-compound-store", false, func(g *genctx, t *killTarget, ind string) string {
		switch t.name {
		case "array-elem":
			return ind + "s3 = this." + g.n("b") + "[..]\n" + ind + "if s3.length() > 0 {\n" + ind + "    s3[0] |= ((args.v & 0xFF) as base.u8)\n" + ind + "}\n"
		case "slice-elem":
			return ind + "s3 = args.s\n" + ind + "if s3.length() > 0 {\n" + ind + "    s3[0] ~mod+= ((args.v & 0xFF) as base.u8)\n" + ind + "}\n"
		}
		return ""
	}},
	{"field-compound-via-call", false, func(g *genctx, t *killTarget, ind string) string {
		if t.name == "field" {
			return ind + "this." + g.n("f") + " ~mod+= args.v\n"
		}
		return ""
	}},
	{"partial-in-if", false, func(g *genctx, t *killTarget, ind string) string {
		if t.name == "slice-length" {
			return ind + "if args.c {\n" + ind + "    s2 = s2[1 ..]\n" + ind + "}\n"
		}
		if e := t.expr(g); e != "" {
			return ind + "if args.c {\n" + ind + "    " + e + " = " + t.val + "\n" + ind + "}\n"
		}
		return ""
	}},
	{"io-advance-partial", false, func(g *genctx, t *killTarget, ind string) string {
		if t.name == "io-length-eq" || t.name == "io-length" {
			return ind + "args.src.skip_u32_fast!(actual: args.n & 3, worst_case: 4)\n"
		}
		return ""
	}},
	{"io-advance", false, func(g *genctx, t *killTarget, ind string) string {
		if t.name == "io-length" || t.name == "io-length-eq" {
			return ind + "args.src.skip_u32_fast!(actual: 2, worst_case: 2)\n"
		}
		return ""
	}},
	{"io-read-fast", false, func(g *genctx, t *killTarget, ind string) string {
		if t.name == "io-length" || t.name == "io-length-eq" {
			return ind + "this." + g.n("g") + " = args.src.peek_u8_as_u32()\n" + ind + "args.src.skip_u32_fast!(actual: 1, worst_case: 1)\n"
		}
		return ""
	}},
}

// loop exits for the invariant form: "" = straight line (no loop)
var killExits = []string{"", "break", "continue", "fall-through"}

// uses: index / pre-condition, or re-assert
var killUses = []string{"use", "assert"}

// KillVariants is the size of the matrix.
func KillVariants() int { return len(killTargets) * len(killers) * len(killExits) * len(killUses) }

func init() {
	allFamilies = append(allFamilies, family{"M-kill", KillVariants(), famKill})
}

func famKill(g *genctx, v int) *scen {
	ti := v % len(killTargets)
	v /= len(killTargets)
	ki := v % len(killers)
	v /= len(killers)
	xi := v % len(killExits)
	v /= len(killExits)
	ui := v % len(killUses)
	t, k, exit, use := &killTargets[ti], &killers[ki], killExits[xi], killUses[ui]
	if exit != "" && k.suspend && t.name == "slice-length" {
		return nil
	}
	ind := "        "
	if t.guard != nil {
		ind += "    "
	}
	if exit != "" {
		ind += "    "
	}
	kill := k.make(g, t, ind)
	if kill == "" {
		return nil
	}
	F := t.fact(g)
	useStmt := t.use(g)
	if use == "assert" {
		useStmt = "assert " + F
	}
	var b strings.Builder
	b.WriteString("    x = args.n\n    s2 = args.s\n")
	base := "    "
	if t.guard != nil {
		b.WriteString(base + "if " + t.guard(g) + " {\n")
		base += "    "
	}
	b.WriteString(base + "if " + F + " {\n")
	if exit == "" {
		b.WriteString(kill)
		b.WriteString(base + "    " + useStmt + "\n")
	} else {
		// F is the loop invariant; the killer runs inside the body; F is relied
		// upon after the loop (break) or at the top of the next round.
		b.WriteString(base + "    while i < 3,\n")
		if t.guard != nil {
			b.WriteString(base + "            inv " + t.guard(g) + ",\n")
		}
		b.WriteString(base + "            inv " + F + ",\n" + base + "    {\n")
		b.WriteString(base + "        i += 1\n")
		if exit == "continue" || exit == "fall-through" {
			// the use sits before the killer: it relies on the invariant at the top of a round
			b.WriteString(base + "        " + useStmt + "\n")
		}
		b.WriteString(kill)
		switch exit {
		case "break":
			b.WriteString(base + "        break\n")
		case "continue":
			b.WriteString(base + "        continue\n")
		}
		b.WriteString(base + "    }\n")
		if exit == "break" {
			b.WriteString(base + "    " + useStmt + "\n")
		}
	}
	b.WriteString(base + "}\n")
	if t.guard != nil {
		b.WriteString("    }\n")
	}
	m := g.n("kill")
	eff := "!"
	if k.suspend {
		eff = "?"
	}
	pause := "$" + g.n("pause")
	s := &scen{coro: k.suspend, features: []string{"fact-invalidation", t.name, k.name}}
	s.tag = fmt.Sprintf("M-kill/%s/%s/%s/%s", t.name, k.name, map[string]string{"": "line", "break": "break", "continue": "continue", "fall-through": "fall"}[exit], use)
	s.consts = []string{fmt.Sprintf("pub status \"%s\"", pause)}
	s.fields = []string{g.n("a") + " : array[4] base.u8", g.n("b") + " : array[2] base.u8", g.n("f") + " : base.u32", g.n("g") + " : base.u32"}
	s.methods = []string{
		fmt.Sprintf("pri func obj.%s!() {\n    this.%s = 1000\n    this.%s[0] = 200\n    this.%s[1] = 201\n}", g.n("mut"), g.n("f"), g.n("b"), g.n("b")),
		fmt.Sprintf("pri func obj.%s!(s: slice base.u8) {\n    if args.s.length() > 0 {\n        args.s[0] = 200\n    }\n}", g.n("scribble")),
		fmt.Sprintf("pri func obj.%s?(src: base.io_reader) {\n    this.%s = args.src.read_u8_as_u32?()\n    this.%s = 1000\n    this.%s[0] = 200\n}", g.n("sub"), g.n("g"), g.n("f"), g.n("b")),
		fmt.Sprintf("pub func obj.%s!(v: base.u32) {\n    this.%s = args.v\n    this.%s[0] = (args.v & 0xFF) as base.u8\n}", g.n("setf"), g.n("f"), g.n("b")),
		fmt.Sprintf("pub func obj.%s%s(src: base.io_reader, s: slice base.u8, n: base.u32, v: base.u32, c: base.bool) {\n    var x : base.u32\n    var i : base.u32\n    var t : base.u8\n    var s2 : slice base.u8\n    var s3 : slice base.u8\n%s}", m, eff, b.String()),
		fmt.Sprintf("pub func obj.%s() base.u32 {\n    return this.%s\n}", g.n("getg"), g.n("g")),
		fmt.Sprintf("pub func obj.%s() base.u32 {\n    return this.%s\n}", g.n("getf"), g.n("f")),
	}
	s.getters = []string{g.n("getg"), g.n("getf")}
	suspends := k.suspend
	tname, kname, loopExit := t.name, k.name, exit
	s.drive = func(r *rand.Rand) []Call {
		if tname == "io-length-eq" && !suspends {
			// the guard needs exactly 8 readable bytes: top the source up to 8
			// before every call, tracking what the body consumes
			var out []Call
			avail := 0
			for round := 0; round < 6; round++ {
				n := uint64(r.Intn(4))
				add := 8 - avail
				if add < 0 {
					add = 0
				}
				avail += add
				cv := uint64(1)
				out = append(out, Call{Method: g.n("setf"), Args: []Arg{iarg(uint64(r.Intn(4)))}})
				out = append(out, Call{Method: m, Args: []Arg{{Kind: "reader", Reader: &ReaderOp{Append: randBytes(r, add)}}, {Kind: "slice", Slice: []byte{1, 9, 9, 9}}, iarg(n), iarg(1000), {Kind: "bool", Int: cv}}})
				times := 1
				if loopExit == "continue" || loopExit == "fall-through" {
					times = 3 // the loop body runs up to three times (the invariant fails earlier on a sound checker's rejects)
				}
				switch kname {
				case "io-advance-partial":
					avail -= times * int(n&3)
				case "io-advance":
					avail -= times * 2
				case "io-read-fast":
					avail -= times * 1
				}
				if avail < 0 {
					avail = 0
				}
			}
			return out
		}
		sl := func() []byte { return []byte{byte(r.Intn(4)), 9, 9, 9, 9}[:4+r.Intn(2)] }
		rd := func(b []byte, cl bool) Arg { return Arg{Kind: "reader", Reader: &ReaderOp{Append: b, Close: cl}} }
		call := func(src Arg, n, vv uint64, c bool) Call {
			cv := uint64(0)
			if c {
				cv = 1
			}
			return Call{Method: m, Args: []Arg{src, {Kind: "slice", Slice: sl()}, iarg(n), iarg(vv), {Kind: "bool", Int: cv}}}
		}
		var out []Call
		for round := 0; round < 3; round++ {
			n := uint64(r.Intn(4))
			out = append(out, Call{Method: g.n("setf"), Args: []Arg{iarg(uint64(r.Intn(4)))}})
			if !suspends {
				out = append(out, call(rd(randBytes(r, 4+r.Intn(3)), false), n, 1000+uint64(r.Intn(5)), true))
				continue
			}
			// first call establishes the fact and suspends on an empty source;
			// then the state the fact speaks about is changed; then the resumption
			// (with different argument values and a different slice) uses the fact
			out = append(out, call(rd(nil, false), n, 1000, true))
			out = append(out, Call{Method: g.n("setf"), Args: []Arg{iarg(1000)}})
			c2 := call(rd(randBytes(r, 3), false), 1000, 1000, true)
			c2.Args[1].Slice = []byte{200, 9, 9}
			out = append(out, c2)
			out = append(out, call(rd(randBytes(r, 6), true), 1000, 1000, true))
		}
		return out
	}
	return s
}
