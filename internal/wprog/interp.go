package wprog

// The reference interpreter: state, values, the call protocol of generated
// objects (magic / disabled / argument checks / coroutine resumption) and the
// driver loop that replays a Case's history.

import (
	"fmt"
	"strconv"

	a "github.com/google/wuffs/lang/ast"
	t "github.com/google/wuffs/lang/token"
)

// ---- values

type vkind uint8

const (
	vkNone   vkind = iota // the empty struct
	vkNum                 // base.u8 .. base.u64 (and ideal)
	vkBool                // n is 0 or 1
	vkStatus              // s is the C string, "" is ok
	vkSlice
	vkArray
	vkIO
	vkObj
	vkUtil
)

// mem is a block of element storage: bytes for base.u8 elements (so that
// slices, arrays and I/O buffers can alias), words for wider elements.
type mem struct {
	b  []byte
	w  []uint64
	ro bool
}

type sliceVal struct {
	m   *mem
	off int
	n   int
}

type arrayRef struct {
	m   *mem
	off int
	typ *a.TypeExpr // the array type (length and inner type)
}

// ioState is a wuffs_base__io_buffer: data (ptr,len) and meta (ri, wi, pos,
// closed). ri and wi are relative to base.
type ioState struct {
	m      *mem
	base   int
	dlen   int
	ri, wi int
	pos    uint64
	closed bool
	writer bool
	bound  int // io_bind nesting depth on this variable
}

type value struct {
	k   vkind
	n   num
	s   string
	sl  sliceVal
	arr arrayRef
	io  *ioState
	obj *object
}

// variable is a local, an argument or a struct field.
type variable struct {
	typ *a.TypeExpr
	v   value
	io1 int // for I/O typed variables: the index at function entry / resumption
}

// object is an instance of a generated struct.
type object struct {
	si       *structInfo
	fields   []variable
	magic    int // 0 uninitialised, 1 MAGIC, 2 DISABLED
	activeCo int
	choosy   map[t.ID]*funcInfo
	acts     map[*funcInfo]*activation
	stale    map[*funcInfo]bool
}

const (
	magicNone = iota
	magicOK
	magicDisabled
)

// ---- control

type ctl uint8

const (
	ctlNext ctl = iota
	ctlBreak
	ctlContinue
	ctlReturn
)

type frame struct {
	fn      *funcInfo
	this    *object
	args    []variable
	locals  []variable
	act     *activation
	resumed bool
	ret     value
	jump    a.Loop
	manip   []string // enclosing io_bind / io_limit / iterate blocks (innermost last)
	line    uint32
	argSrc  []*a.Node // call-site argument nodes (nil for driver calls)

	// staleExit: the function left through the C's "goto exit" path, which
	// does not reset the recorded suspension point.
	staleExit bool
}

// unsupported is the panic value for constructs outside the subset.
type unsupported struct{ msg string }

// evalFail is the panic value that aborts the evaluation of a fact.
type evalFail struct{ why string }

type killed struct{}

type resumeMsg struct{ kill bool }

type resultMsg struct {
	status string
	done   bool
	pnc    interface{}
}

type activation struct {
	fn     *funcInfo
	fr     *frame
	resume chan resumeMsg
	result chan resultMsg
	exited chan struct{}
	wasRes bool // has been resumed at least once
}

type interp struct {
	p   *Program
	c   *Case
	out *Outcome

	root *object
	src  *ioState
	dst  *ioState
	objs []*object

	callIdx int
	steps   int64
	ideal   int // >0: evaluating a fact / assertion: ideal arithmetic, no obligations
	quiet   int // >0: no events, no stats (inside fact evaluation)
	depth   int
	onStack map[*funcInfo]int // non-coroutine functions with a live activation (recursion monitor)

	seen map[eventKey]int
}

const (
	stepBudget  = 3_000_000
	depthBudget = 200
	eventCap    = 200
)

func unsupp(format string, args ...interface{}) {
	panic(unsupported{fmt.Sprintf(format, args...)})
}

func newStats() Stats {
	return Stats{
		Obligations:  map[string]int64{},
		NearEdge:     map[string]int64{},
		FactsEval:    map[string]int64{},
		FactsNontriv: map[string]int64{},
		Statements:   map[string]int64{},
	}
}

// Interpret runs the case's history on the reference semantics.
func (p *Program) Interpret(c *Case) (out *Outcome) {
	out = &Outcome{Stats: newStats()}
	in := &interp{p: p, c: c, out: out}
	defer in.cleanup()
	defer func() {
		if r := recover(); r != nil {
			switch r := r.(type) {
			case unsupported:
				out.Unsupported = r.msg
			case evalFail:
				out.Unsupported = "internal: stray evalFail: " + r.why
			default:
				out.Unsupported = fmt.Sprintf("panic: %v", r)
			}
		}
		out.Stats.Steps = in.steps
	}()
	in.run()
	return out
}

func (in *interp) cleanup() {
	for _, o := range in.objs {
		for fn, act := range o.acts {
			if act != nil {
				act.resume <- resumeMsg{kill: true}
				<-act.exited
			}
			delete(o.acts, fn)
		}
	}
}

func (in *interp) step() {
	in.steps++
	if in.steps > stepBudget {
		unsupp("step budget")
	}
}

func (in *interp) newObject(si *structInfo) *object {
	o := &object{si: si, choosy: map[t.ID]*funcInfo{}, acts: map[*funcInfo]*activation{}, stale: map[*funcInfo]bool{}}
	o.fields = make([]variable, len(si.fields))
	for i, f := range si.fields {
		o.fields[i] = variable{typ: f.typ, v: in.zeroValue(f.typ)}
	}
	o.magic = magicOK
	in.objs = append(in.objs, o)
	return o
}

// resetObject is what initialize does: all fields zero, choosy defaults. With
// partial (WUFFS_INITIALIZE__LEAVE_INTERNAL_BUFFERS_UNINITIALIZED) only the
// first-part fields are zeroed; sub-structs are initialized recursively.
func (in *interp) resetObject(o *object, partial bool) {
	for i, f := range o.si.fields {
		if o.fields[i].v.k == vkObj {
			in.resetObject(o.fields[i].v.obj, partial)
			continue
		}
		if partial && f.priv {
			continue
		}
		o.fields[i] = variable{typ: f.typ, v: in.zeroValue(f.typ)}
	}
	o.choosy = map[t.ID]*funcInfo{}
	o.magic = magicOK
	o.activeCo = 0
	for fn, act := range o.acts {
		if act != nil {
			act.resume <- resumeMsg{kill: true}
			<-act.exited
		}
		delete(o.acts, fn)
	}
	o.stale = map[*funcInfo]bool{}
}

func (in *interp) zeroValue(typ *a.TypeExpr) value {
	switch {
	case typ.IsNumType():
		if in.p.numTypeOf(typ) == nil {
			unsupp("numeric type %s", typ.Str(in.p.tm))
		}
		return value{k: vkNum}
	case typ.IsBool():
		return value{k: vkBool}
	case typ.IsStatus():
		return value{k: vkStatus}
	case typ.IsEitherSliceType():
		if !isU8(typ.Inner()) {
			unsupp("slice of %s", typ.Inner().Str(in.p.tm))
		}
		return value{k: vkSlice}
	case typ.IsEitherArrayType():
		return value{k: vkArray, arr: in.newArray(typ)}
	case typ.IsIOType():
		return value{k: vkIO, io: &ioState{writer: typ.QID()[1] == t.IDIOWriter}}
	case typ.IsEtcUtilityType():
		if typ.QID()[1] == t.IDUtility {
			return value{k: vkUtil}
		}
	case typ.Decorator() == 0 && typ.QID()[0] == 0:
		if si := in.p.structs[typ.QID()[1]]; si != nil {
			return value{k: vkObj, obj: in.newObject(si)}
		}
	}
	unsupp("type %s", typ.Str(in.p.tm))
	return value{}
}

func isU8(typ *a.TypeExpr) bool {
	return typ != nil && typ.Decorator() == 0 && typ.QID() == (t.QID{t.IDBase, t.IDU8})
}

// arrayDims returns the total element count and the innermost element type.
func (in *interp) arrayDims(typ *a.TypeExpr) (count int, elem *a.TypeExpr) {
	count = 1
	for typ.IsEitherArrayType() {
		cv := typ.ArrayLength().ConstValue()
		if cv == nil || !cv.IsInt64() || cv.Int64() <= 0 || cv.Int64() > 1<<20 {
			unsupp("array length %v", cv)
		}
		count *= int(cv.Int64())
		if count > 1<<22 {
			unsupp("array too large")
		}
		typ = typ.Inner()
	}
	if !typ.IsNumType() || in.p.numTypeOf(typ) == nil {
		unsupp("array of %s", typ.Str(in.p.tm))
	}
	return count, typ
}

func (in *interp) newArray(typ *a.TypeExpr) arrayRef {
	count, elem := in.arrayDims(typ)
	m := &mem{}
	if isU8(elem) {
		m.b = make([]byte, count)
	} else {
		m.w = make([]uint64, count)
	}
	return arrayRef{m: m, typ: typ}
}

func arrayLen(typ *a.TypeExpr) int {
	return int(typ.ArrayLength().ConstValue().Int64())
}

// ---- the driver loop

func (in *interp) run() {
	p, c := in.p, in.c
	var rootSI *structInfo
	for id, si := range p.structs {
		if id.Str(p.tm) == c.Struct {
			rootSI = si
		}
	}
	if rootSI == nil {
		unsupp("no struct %q", c.Struct)
	}
	in.root = in.newObject(rootSI)
	in.src = &ioState{m: &mem{}}
	in.dst = &ioState{m: &mem{}, writer: true}

	getters := make([]*funcInfo, len(c.Getters))
	for i, g := range c.Getters {
		fi := in.lookupFunc(rootSI, g)
		if fi == nil || !fi.pub || !fi.effect.Pure() || len(fi.args) != 0 || fi.out == nil {
			unsupp("getter %q is not a zero-argument pure pub method with a result", g)
		}
		getters[i] = fi
	}

	for ci := range c.Calls {
		call := &c.Calls[ci]
		in.callIdx = ci
		fi := in.lookupFunc(rootSI, call.Method)
		if fi == nil || !fi.pub {
			unsupp("no pub method %q", call.Method)
		}
		if len(call.Args) != len(fi.args) {
			unsupp("method %q: %d args given, %d wanted", call.Method, len(call.Args), len(fi.args))
		}
		args := make([]value, len(fi.args))
		var sliceArgs []sliceVal
		for i, prm := range fi.args {
			ca := &call.Args[i]
			switch {
			case prm.typ.IsNumType():
				nt := p.numTypeOf(prm.typ)
				if nt == nil || ca.Kind != "int" {
					unsupp("argument %d of %q", i, call.Method)
				}
				raw := ca.Int & maxOfBits(nt.bits)
				args[i] = value{k: vkNum, n: nU(raw)}
				if nt.signed && raw>>(nt.bits-1) != 0 {
					// two's complement of the parameter's width, as the C driver's cast does
					args[i].n = nI(int64(raw | ^maxOfBits(nt.bits)))
				}
			case prm.typ.IsBool():
				if ca.Kind != "bool" && ca.Kind != "int" {
					unsupp("argument %d of %q", i, call.Method)
				}
				args[i] = value{k: vkBool, n: nBool(ca.Int != 0)}
			case prm.typ.IsIOType() && prm.typ.QID()[1] == t.IDIOReader:
				if ca.Kind != "reader" {
					unsupp("argument %d of %q", i, call.Method)
				}
				if ca.Reader != nil {
					in.src.m.b = append(in.src.m.b, ca.Reader.Append...)
					in.src.wi = len(in.src.m.b)
					in.src.dlen = in.src.wi
					if ca.Reader.Close {
						in.src.closed = true
					}
				}
				args[i] = value{k: vkIO, io: in.src}
			case prm.typ.IsIOType():
				if ca.Kind != "writer" {
					unsupp("argument %d of %q", i, call.Method)
				}
				if ca.Writer != nil && ca.Writer.Grow > 0 {
					if ca.Writer.Grow > 1<<24 {
						unsupp("writer growth too large")
					}
					in.dst.m.b = append(in.dst.m.b, make([]byte, ca.Writer.Grow)...)
					in.dst.dlen = len(in.dst.m.b)
				}
				args[i] = value{k: vkIO, io: in.dst}
			case prm.typ.IsEitherSliceType() && isU8(prm.typ.Inner()):
				if ca.Kind != "slice" {
					unsupp("argument %d of %q", i, call.Method)
				}
				sv := sliceVal{}
				if len(ca.Slice) > 0 {
					sv = sliceVal{m: &mem{b: append([]byte(nil), ca.Slice...)}, n: len(ca.Slice)}
				}
				sliceArgs = append(sliceArgs, sv)
				args[i] = value{k: vkSlice, sl: sv}
			default:
				unsupp("argument type %s", prm.typ.Str(p.tm))
			}
		}

		ret := in.invoke(nil, fi, in.root, args, nil)

		rec := Rec{Method: call.Method, Ret: in.retString(fi, ret)}
		rec.SrcRI, rec.SrcWI = uint64(in.src.ri), uint64(in.src.wi)
		rec.DstRI, rec.DstWI = uint64(in.dst.ri), uint64(in.dst.wi)
		rec.DstHash = fnv1a(in.dst.m.b[:in.dst.wi])
		for _, sv := range sliceArgs {
			if sv.m == nil {
				rec.Slices = append(rec.Slices, fnv1a(nil))
			} else {
				rec.Slices = append(rec.Slices, fnv1a(sv.m.b[sv.off:sv.off+sv.n]))
			}
		}
		for _, g := range getters {
			v := in.invoke(nil, g, in.root, nil, nil)
			rec.Getters = append(rec.Getters, in.retString(g, v))
		}
		in.out.Trace = append(in.out.Trace, rec)
	}
}

func (in *interp) lookupFunc(si *structInfo, name string) *funcInfo {
	id := in.p.tm.ByName(name)
	if id == 0 {
		return nil
	}
	return si.funcs[id]
}

func (in *interp) retString(fi *funcInfo, v value) string {
	switch v.k {
	case vkNum:
		if v.n.b == nil && v.n.neg {
			// the C driver prints (uint64_t)z: two's complement
			return strconv.FormatUint(^v.n.u+1, 10)
		}
		return v.n.String()
	case vkBool:
		if v.n.isZero() {
			return "0"
		}
		return "1"
	case vkStatus:
		return v.s
	case vkNone:
		return ""
	}
	unsupp("result type of %s", fi.name)
	return ""
}

func fnv1a(b []byte) uint64 {
	h := uint64(0xcbf29ce484222325)
	for _, c := range b {
		h ^= uint64(c)
		h *= 0x100000001b3
	}
	return h
}

// ---- calls

const (
	stBadArgument  = "#base: bad argument"
	stDisabled     = "#base: disabled by previous error"
	stInterleaved  = "#base: interleaved coroutine calls"
	stCannotReturn = "#base: cannot return a suspension"
	stShortRead    = "$base: short read"
	stShortWrite   = "$base: short write"
)

func isSuspension(s string) bool { return len(s) > 0 && s[0] == '$' }
func isError(s string) bool      { return len(s) > 0 && s[0] == '#' }
func isNote(s string) bool       { return len(s) > 0 && s[0] != '$' && s[0] != '#' }

func (in *interp) zeroOut(fi *funcInfo) value {
	if fi.effect.Coroutine() {
		return value{k: vkStatus}
	}
	if fi.out == nil {
		return value{k: vkNone}
	}
	switch {
	case fi.out.IsNumType():
		return value{k: vkNum}
	case fi.out.IsBool():
		return value{k: vkBool}
	case fi.out.IsStatus():
		return value{k: vkStatus}
	case fi.out.IsEitherSliceType():
		return value{k: vkSlice}
	}
	unsupp("result type %s", fi.out.Str(in.p.tm))
	return value{}
}

// invoke calls fn on this with already evaluated arguments, running the
// generated prologue of public functions (magic, argument checks, coroutine
// interleaving). caller is nil for calls made by the driver.
func (in *interp) invoke(caller *frame, fn *funcInfo, this *object, args []value, argSrc []*a.Node) value {
	if fn.choosy {
		if alt := this.choosy[fn.node.FuncName()]; alt != nil {
			fn = alt
		}
	}
	if fn.pub {
		// writeFuncImplSelfMagicCheck
		bad := this.magic != magicOK
		if fn.effect.Pure() {
			bad = this.magic != magicOK && this.magic != magicDisabled
		}
		if bad {
			if fn.retStat {
				return value{k: vkStatus, s: stDisabled}
			}
			return in.zeroOut(fn)
		}
		// writeFuncImplArgChecks
		for i, prm := range fn.args {
			if !prm.typ.IsRefined() {
				continue
			}
			nt := in.p.numTypeOf(prm.typ)
			if args[i].n.cmp(nt.lo) < 0 || args[i].n.cmp(nt.hi) > 0 {
				// writeFuncImplArgChecks: a pure method's receiver is const and
				// stays as it is; status results report the bad argument, other
				// results are the zero value of their type.
				if !fn.effect.Pure() {
					this.magic = magicDisabled
				}
				if fn.effect.Coroutine() || fn.retStat {
					return value{k: vkStatus, s: stBadArgument}
				}
				return in.zeroOut(fn)
			}
		}
		if fn.effect.Coroutine() {
			if this.activeCo != 0 && this.activeCo != fn.coroID {
				this.magic = magicDisabled
				return value{k: vkStatus, s: stInterleaved}
			}
			this.activeCo = 0
		}
	}

	var ret value
	if fn.effect.Coroutine() {
		st := in.callCoroutine(caller, fn, this, args, argSrc)
		ret = value{k: vkStatus, s: st}
		if fn.pub {
			if isSuspension(st) {
				this.activeCo = fn.coroID
			} else {
				this.activeCo = 0
			}
			if isError(st) {
				this.magic = magicDisabled
			}
		}
		return ret
	}

	// C10 "pure methods modify nothing": around every call of a function
	// without an effect mark the receiver (fields, arrays, sub-objects, magic)
	// and the memory behind every slice / array / I/O argument are hashed; a
	// difference after the call is a purity event.
	if fn.effect.Pure() && in.monitoring() {
		before := in.purityHash(this, args)
		defer func() {
			if after := in.purityHash(this, args); after != before {
				in.event(Event{Prop: "C10", Kind: "pure-method-modified-state", Node: fn.recv.name + "." + fn.name, Line: fn.node.Line(),
					Values: fmt.Sprintf("receiver/argument memory hash %016x before, %016x after", before, after)})
			}
		}()
	}
	// C01 "never recurses": a function entered while an activation of it is
	// still on the call stack. The event is raised once per function; the
	// re-entrant call is not executed (it returns the zero value), so that the
	// run terminates whatever the program does.
	if in.onStack == nil {
		in.onStack = map[*funcInfo]int{}
	}
	if in.onStack[fn] > 0 {
		if in.monitoring() {
			in.event(Event{Prop: "C01", Kind: "recursion", Node: fn.recv.name + "." + fn.name, Line: fn.node.Line(),
				Values: fmt.Sprintf("%s.%s entered while already active (call depth %d)", fn.recv.name, fn.name, in.depth)})
		}
		return in.zeroOut(fn)
	}
	in.onStack[fn]++
	defer func() { in.onStack[fn]-- }()
	fr := in.newFrame(fn, this, args)
	fr.argSrc = argSrc
	in.depth++
	if in.depth > depthBudget {
		unsupp("call depth")
	}
	in.execBody(fr)
	in.depth--
	ret = fr.ret
	if ret.k == vkNone && fn.out != nil {
		// fell off the end of a function with a result: the checker rejects
		// this; be defensive.
		ret = in.zeroOut(fn)
	}
	if fn.retStat && fn.derived && fn.pub && isError(ret.s) {
		// Status-returning non-coroutines with "derived" I/O variables leave
		// through the same exit path as coroutines.
		this.magic = magicDisabled
	}
	return ret
}

func (in *interp) newFrame(fn *funcInfo, this *object, args []value) *frame {
	fr := &frame{fn: fn, this: this}
	fr.args = make([]variable, len(fn.args))
	for i, prm := range fn.args {
		fr.args[i] = variable{typ: prm.typ, v: args[i]}
	}
	in.loadDerived(fr)
	fr.locals = make([]variable, len(fn.locals))
	for i, l := range fn.locals {
		fr.locals[i] = variable{typ: l.typ, v: in.zeroValue(l.typ)}
	}
	return fr
}

// loadDerived is writeInitialLoadDerivedVar: io1 := the buffer's current index.
func (in *interp) loadDerived(fr *frame) {
	for i := range fr.args {
		if fr.args[i].v.k == vkIO {
			io := fr.args[i].v.io
			if io.writer {
				fr.args[i].io1 = io.wi
			} else {
				fr.args[i].io1 = io.ri
			}
		}
	}
}

func (in *interp) execBody(fr *frame) {
	c := in.execBlock(fr, fr.fn.node.Body())
	if c == ctlBreak || c == ctlContinue {
		unsupp("jump out of function body")
	}
}

// ---- coroutines

func (in *interp) callCoroutine(caller *frame, fn *funcInfo, this *object, args []value, argSrc []*a.Node) string {
	act := this.acts[fn]
	if act == nil {
		if this.stale[fn] {
			// In the generated C the previous activation left through "goto
			// exit" after having been resumed: its suspension point is still
			// recorded, so this call would resume in the middle of the body.
			in.event(Event{Prop: "C04", Kind: "stale-coroutine-state", Node: fn.recv.name + "." + fn.name})
			delete(this.stale, fn)
		}
		in.depth++
		if in.depth > depthBudget {
			unsupp("call depth")
		}
		fr := in.newFrame(fn, this, args)
		fr.argSrc = argSrc
		act = &activation{fn: fn, fr: fr, resume: make(chan resumeMsg), result: make(chan resultMsg), exited: make(chan struct{})}
		fr.act = act
		this.acts[fn] = act
		go in.runActivation(act)
	} else {
		// Resumption: the C function is entered again with the new arguments;
		// pointer-typed locals are not restored; derived I/O variables are
		// recomputed.
		in.depth++
		fr := act.fr
		for i := range fr.args {
			fr.args[i].v = args[i]
		}
		in.loadDerived(fr)
		for i := range fr.locals {
			if fr.locals[i].typ.HasPointers() {
				fr.locals[i].v = in.zeroValue(fr.locals[i].typ)
				fr.locals[i].io1 = 0
			}
		}
		fr.resumed = true
		act.wasRes = true
		if len(fr.manip) > 0 {
			in.event(Event{Prop: "C01", Kind: "resume-inside-" + fr.manip[len(fr.manip)-1], Node: fn.recv.name + "." + fn.name, Line: fr.line})
		}
	}
	act.resume <- resumeMsg{}
	r := <-act.result
	in.depth--
	if r.pnc != nil {
		delete(this.acts, fn)
		panic(r.pnc)
	}
	if r.done {
		delete(this.acts, fn)
		if act.wasRes && r.status != "" && !isSuspension(r.status) && act.fr.staleExit {
			this.stale[fn] = true
		}
	}
	return r.status
}

func (in *interp) runActivation(act *activation) {
	defer close(act.exited)
	msg := <-act.resume
	if msg.kill {
		return
	}
	defer func() {
		if r := recover(); r != nil {
			if _, ok := r.(killed); ok {
				return
			}
			act.result <- resultMsg{pnc: r}
		}
	}()
	in.execBody(act.fr)
	st := ""
	if act.fr.ret.k == vkStatus {
		st = act.fr.ret.s
	}
	act.result <- resultMsg{status: st, done: true}
}

// suspend hands a suspension status back to whoever called (or resumed) the
// current coroutine and blocks until it is resumed.
func (in *interp) suspend(fr *frame, status string) {
	if fr.act == nil {
		unsupp("suspension outside a coroutine")
	}
	in.out.Stats.Suspensions++
	if len(fr.manip) > 0 {
		in.event(Event{Prop: "C01", Kind: "suspend-inside-" + fr.manip[len(fr.manip)-1], Node: fr.fn.recv.name + "." + fr.fn.name, Line: fr.line})
	}
	fr.act.result <- resultMsg{status: status}
	msg := <-fr.act.resume
	if msg.kill {
		panic(killed{})
	}
}

// ---- events and stats

func (in *interp) event(e Event) {
	if in.quiet > 0 {
		return
	}
	e.Call = in.callIdx
	key := eventKey{e.Prop, e.Kind, e.Line, e.Fact, e.Node}
	if in.seen == nil {
		in.seen = map[eventKey]int{}
	}
	if i, ok := in.seen[key]; ok {
		in.out.Events[i].Count++
		return
	}
	if len(in.out.Events) < eventCap {
		in.seen[key] = len(in.out.Events)
		in.out.Events = append(in.out.Events, e)
	}
}

type eventKey struct {
	prop, kind string
	line       uint32
	fact, node string
}

func (in *interp) nodeText(fr *frame, n *a.Expr) string {
	return strconv.Itoa(int(fr.line)) + ": " + n.Str(in.p.tm)
}

// purityHash folds everything a callee could reach through its receiver and
// its arguments into one hash.
func (in *interp) purityHash(this *object, args []value) uint64 {
	h := uint64(0xcbf29ce484222325)
	mix := func(x uint64) {
		for i := 0; i < 8; i++ {
			h ^= x & 0xFF
			h *= 0x100000001b3
			x >>= 8
		}
	}
	seenMem := map[*mem]bool{}
	hashMem := func(m *mem) {
		if m == nil || seenMem[m] {
			return
		}
		seenMem[m] = true
		for _, c := range m.b {
			mix(uint64(c))
		}
		for _, w := range m.w {
			mix(w)
		}
	}
	var hashVal func(v value, depth int)
	var hashObj func(o *object, depth int)
	hashVal = func(v value, depth int) {
		mix(uint64(v.k))
		switch v.k {
		case vkNum, vkBool:
			if v.n.b != nil {
				for _, c := range v.n.b.Bytes() {
					mix(uint64(c))
				}
			} else {
				mix(v.n.u)
				if v.n.neg {
					mix(1)
				}
			}
		case vkStatus:
			for _, c := range []byte(v.s) {
				mix(uint64(c))
			}
		case vkSlice:
			hashMem(v.sl.m)
			mix(uint64(v.sl.off))
			mix(uint64(v.sl.n))
		case vkArray:
			hashMem(v.arr.m)
		case vkIO:
			if v.io != nil {
				hashMem(v.io.m)
				mix(uint64(v.io.ri))
				mix(uint64(v.io.wi))
				mix(v.io.pos)
			}
		case vkObj:
			hashObj(v.obj, depth+1)
		}
	}
	hashObj = func(o *object, depth int) {
		if o == nil || depth > 6 {
			return
		}
		mix(uint64(o.magic))
		mix(uint64(o.activeCo))
		for i := range o.fields {
			hashVal(o.fields[i].v, depth)
		}
	}
	hashObj(this, 0)
	for _, a := range args {
		hashVal(a, 0)
	}
	return h
}
