package wprog

import (
	"fmt"
	"math/rand"
	"strings"
)

// G-families: accepted programs for which the code generator itself once
// emitted C that was invalid or undefined (each was a genuine defect of the
// pinned tree, since repaired by a fix: commit). They are aimed at the code
// generator, not the checker, so they are always run as C (UBSan in C01, trace
// comparison in C04) and never mixed into other programs.

func init() {
	allFamilies = append(allFamilies,
		family{"G-sat-small", 1, famGSatSmall},
		family{"G-high-bits-zero", 1, famGHighBitsZero},
		family{"G-refined-arg-result", 1, famGRefinedArgResult},
		family{"G-io-arg-only-in-builtin", 1, famGIOArgOnly},
	)
}

func famGSatSmall(g *genctx, v int) *scen {
	t := intTypes[g.r.Intn(2)]
	m := g.n("sat")
	op := g.picks("~sat+", "~sat-")
	s := &scen{features: []string{"G", op, t.name}}
	s.methods = []string{fmt.Sprintf("pub func obj.%s(x: %s, y: %s) %s {\n    return args.x %s args.y\n}", m, t.name, t.name, t.name, op)}
	s.drive = func(r *rand.Rand) []Call {
		return callsOver(r, m, [][]uint64{{0, 1, t.max() - 1, t.max()}, {0, 1, t.max()}}, 12)
	}
	return s
}

func famGHighBitsZero(g *genctx, v int) *scen {
	t := intTypes[2+g.r.Intn(2)]
	m, a := g.n("hb"), g.n("a")
	s := &scen{features: []string{"G", "high_bits", t.name}}
	s.fields = []string{fmt.Sprintf("%s : array[4] base.u8", a)}
	s.methods = []string{fmt.Sprintf("pub func obj.%s!(x: %s, k: base.u32) base.u8 {\n    this.%s[args.x.high_bits(n: args.k & 1)] = 1\n    return this.%s[0]\n}", m, t.name, a, a)}
	s.drive = func(r *rand.Rand) []Call {
		return callsOver(r, m, [][]uint64{{0, 1, t.max(), t.max() >> 1}, {0, 1, 2}}, 12)
	}
	return s
}

func famGRefinedArgResult(g *genctx, v int) *scen {
	m := g.n("rar")
	s := &scen{features: []string{"G", "refined-arg+result"}}
	s.methods = []string{fmt.Sprintf("pub func obj.%s(x: base.u32[..= 10]) base.u32 {\n    return args.x + 1\n}", m)}
	s.drive = func(r *rand.Rand) []Call {
		return callsOver(r, m, [][]uint64{{0, 10, 11}}, 3)
	}
	return s
}

func famGIOArgOnly(g *genctx, v int) *scen {
	m, f := g.n("cp"), g.n("n")
	s := &scen{coro: true, features: []string{"G", "io-arg-only-in-builtin"}}
	s.fields = []string{f + " : base.u32"}
	s.methods = []string{fmt.Sprintf("pub func obj.%s?(src: base.io_reader, dst: base.io_writer) {\n    this.%s = args.dst.limited_copy_u32_from_reader!(up_to: 4, r: args.src)\n}", m, f)}
	s.drive = func(r *rand.Rand) []Call {
		return feedCalls(r, m, randBytes(r, 6), true, true, 8, nil)[:2]
	}
	return s
}

// S-choose: choosy functions and the no-recursion rule. The call graph the
// checker walks must include the alternatives a `choose` can install; the
// near-misses close a cycle only through such an alternative, or directly.
func init() {
	allFamilies = append(allFamilies, family{"S-choose", 5, famChoose})
}

func famChoose(g *genctx, v int) *scen {
	walk, descend, step, deep, arm, acc := g.n("walk"), g.n("descend"), g.n("step"), g.n("step_deep"), g.n("arm"), g.n("acc")
	deepBody := fmt.Sprintf("    this.%s ~mod+= 100", acc)
	stepBody := fmt.Sprintf("    this.%s ~mod+= 2", acc)
	descendBody := fmt.Sprintf("    this.%s ~mod+= 1\n    this.%s!()", acc, step)
	switch v {
	case 1: // the cycle descend -> step (= step_deep once chosen) -> descend exists only through the alternative
		deepBody = fmt.Sprintf("    this.%s ~mod+= 100\n    if this.%s < 1000 {\n        this.%s!()\n    }", acc, acc, descend)
	case 2: // direct mutual recursion
		stepBody = fmt.Sprintf("    this.%s ~mod+= 2\n    if this.%s < 1000 {\n        this.%s!()\n    }", acc, acc, descend)
	case 3: // self recursion
		descendBody = fmt.Sprintf("    this.%s ~mod+= 1\n    if this.%s < 1000 {\n        this.%s!()\n    }", acc, acc, descend)
	case 4: // the alternative calls itself
		deepBody = fmt.Sprintf("    this.%s ~mod+= 100\n    if this.%s < 1000 {\n        this.%s!()\n    }", acc, acc, deep)
	}
	s := &scen{features: []string{"choose", "choosy", "call-graph"}}
	s.fields = []string{acc + " : base.u32"}
	s.methods = []string{
		fmt.Sprintf("pri func obj.%s!(),\n        choosy,\n{\n%s\n}", step, stepBody),
		fmt.Sprintf("pri func obj.%s!() {\n%s\n}", deep, deepBody),
		fmt.Sprintf("pri func obj.%s!() {\n%s\n}", descend, descendBody),
		fmt.Sprintf("pub func obj.%s!() {\n    this.%s!()\n}", walk, descend),
		fmt.Sprintf("pub func obj.%s!() {\n    choose %s = [%s]\n}", arm, step, deep),
		fmt.Sprintf("pub func obj.%s() base.u32 {\n    return this.%s\n}", g.n("getacc"), acc),
	}
	s.getters = []string{g.n("getacc")}
	s.drive = func(r *rand.Rand) []Call {
		return []Call{{Method: walk}, {Method: arm}, {Method: walk}, {Method: walk}}
	}
	return s
}

// R-signed: signed integer arguments with refinements. The checker derives the
// argument's range from the refinement; the generated C must re-validate it
// at the public entry point, including the lower bound (a signed argument can
// be negative, an unsigned one cannot).
func init() {
	allFamilies = append(allFamilies, family{"R-signed", 4, famSigned})
}

func famSigned(g *genctx, v int) *scen {
	type st struct {
		name string
		bits uint
	}
	ty := []st{{"base.i8", 8}, {"base.i16", 16}, {"base.i32", 32}, {"base.i64", 64}}[g.r.Intn(4)]
	cells, poke, peek, last := g.n("cells"), g.n("poke"), g.n("peek"), g.n("last")
	lo, hi := int64(0), int64(7)
	idx := "args.i"
	switch v {
	case 1: // negative lower bound, shifted into the array
		lo, hi = -3, 4
		idx = "args.i + 3"
	case 2: // upper bound 0
		lo, hi = -7, 0
		idx = "args.i + 7"
	case 3: // refinement wider than the array: must be rejected
		lo, hi = -1, 7
	}
	s := &scen{features: []string{"signed", "refined-arg", "arg-check", ty.name}}
	s.fields = []string{cells + " : array[8] base.u8", last + " : " + ty.name}
	s.methods = []string{
		fmt.Sprintf("pub func obj.%s!(i: %s[%d ..= %d], v: base.u8) {\n    this.%s[%s] = args.v\n    this.%s = args.i\n}", poke, ty.name, lo, hi, cells, idx, last),
		fmt.Sprintf("pub func obj.%s(i: %s[%d ..= %d]) base.u8 {\n    return this.%s[%s]\n}", peek, ty.name, lo, hi, cells, idx),
		fmt.Sprintf("pub func obj.%s() %s {\n    return this.%s\n}", g.n("getlast"), ty.name, last),
	}
	s.getters = []string{g.n("getlast")}
	s.drive = func(r *rand.Rand) []Call {
		tmin := int64(-1) << (ty.bits - 1)
		tmax := int64(uint64(1)<<(ty.bits-1) - 1)
		in := []int64{lo, lo + 1, hi, hi - 1, (lo + hi) / 2}
		bad := []int64{lo - 1, hi + 1, tmin, tmax, -96, 96, lo - 2, -1, 8}
		var out []Call
		arg := func(x int64) Arg { return iarg(uint64(x)) }
		// the pure method refuses without disabling: every bad value can be tried
		for _, x := range in {
			out = append(out, Call{Method: poke, Args: []Arg{arg(x), iarg(uint64(1 + r.Intn(250)))}})
			out = append(out, Call{Method: peek, Args: []Arg{arg(x)}})
		}
		for _, x := range bad {
			out = append(out, Call{Method: peek, Args: []Arg{arg(x)}})
		}
		// the impure one disables the object at the first bad value
		out = append(out, Call{Method: poke, Args: []Arg{arg(bad[r.Intn(len(bad))]), iarg(0xAB)}})
		out = append(out, Call{Method: poke, Args: []Arg{arg(in[0]), iarg(0xCD)}})
		out = append(out, Call{Method: peek, Args: []Arg{arg(in[0])}})
		return out
	}
	return s
}

// S-status: statuses as values. A package may declare a status with the same
// message text as a base status; the two are different values, and a literal
// in a comparison must resolve exactly like one in an assignment or a return.
func init() {
	allFamilies = append(allFamilies, family{"S-status", 2, famStatus})
}

func famStatus(g *genctx, v int) *scen {
	msgs := []string{"#too much data", "#bad argument", "@end of data", "#bad receiver", "#unsupported option"}
	msg := msgs[g.r.Intn(len(msgs))]
	other := "#" + g.n("own")
	m, res := g.n("stcmp"), g.n("res")
	pick := fmt.Sprintf("    if args.k == 0 {\n        st = base.\"%s\"\n    } else if args.k == 1 {\n        st = \"%s\"\n    } else if args.k == 2 {\n        st = \"%s\"\n    } else if args.k == 3 {\n        st = base.\"$short write\"\n    }", msg, msg, other)
	tests := fmt.Sprintf("    if st == base.\"%s\" {\n        r |= 1\n    }\n    if st == \"%s\" {\n        r |= 2\n    }\n    if st <> base.\"%s\" {\n        r |= 4\n    }\n    if st <> \"%s\" {\n        r |= 8\n    }\n    if st == \"%s\" {\n        r |= 16\n    }\n    if st.is_error() {\n        r |= 32\n    }\n    if st.is_suspension() {\n        r |= 64\n    }\n    if st.is_note() {\n        r |= 128\n    }\n    if st.is_ok() {\n        r |= 256\n    }\n    if st == ok {\n        r |= 512\n    }", msg, msg, msg, msg, other)
	body := pick + "\n" + tests
	if v == 1 { // the comparisons sit in a second function that receives nothing but a field
		body = pick + "\n    this." + g.n("k") + " = args.k\n" + tests
	}
	s := &scen{features: []string{"status-values", "qualified-literals"}}
	s.consts = []string{fmt.Sprintf("pub status \"%s\"", msg), fmt.Sprintf("pub status \"%s\"", other)}
	s.fields = []string{res + " : base.u32", g.n("k") + " : base.u32"}
	s.methods = []string{
		fmt.Sprintf("pub func obj.%s!(k: base.u32) base.u32 {\n    var st : base.status\n    var r : base.u32\n%s\n    this.%s = r\n    return r\n}", m, body, res),
		fmt.Sprintf("pub func obj.%s!(k: base.u32) base.status {\n    if args.k == 0 {\n        return base.\"%s\"\n    } else if args.k == 1 {\n        return \"%s\"\n    }\n    return ok\n}", g.n("stret"), msg, msg),
		fmt.Sprintf("pub func obj.%s() base.u32 {\n    return this.%s\n}", g.n("getres"), res),
	}
	s.getters = []string{g.n("getres")}
	s.drive = func(r *rand.Rand) []Call {
		var out []Call
		for _, k := range []uint64{0, 1, 2, 3, 4} {
			out = append(out, Call{Method: m, Args: []Arg{iarg(k)}})
		}
		// returning an error from a pub status function: base first or own first
		if r.Intn(2) == 0 {
			out = append(out, Call{Method: g.n("stret"), Args: []Arg{iarg(2)}}, Call{Method: g.n("stret"), Args: []Arg{iarg(1)}})
		} else {
			out = append(out, Call{Method: g.n("stret"), Args: []Arg{iarg(2)}}, Call{Method: g.n("stret"), Args: []Arg{iarg(0)}})
		}
		out = append(out, Call{Method: m, Args: []Arg{iarg(1)}})
		return out
	}
	return s
}

// S-multi-io: non-coroutine functions with two or three I/O arguments and
// explicit returns in branches: every `return` writes back the derived
// pointers of every I/O argument, so the results (and the emitted C) must not
// depend on the order in which the generator visits them.
func init() {
	allFamilies = append(allFamilies, family{"S-multi-io", 3, famMultiIO})
}

func famMultiIO(g *genctx, v int) *scen {
	m, f := g.n("mio"), g.n("mv")
	var sig, body string
	switch v {
	case 0: // reader + writer, no result
		sig = "src: base.io_reader, dst: base.io_writer, sel: base.u32"
		body = fmt.Sprintf("    if args.src.length() < 4 {\n        this.%s ~mod+= 1\n        return nothing\n    }\n    this.%s = args.src.peek_u32le()\n    args.src.skip_u32_fast!(actual: 2, worst_case: 2)\n    if args.dst.length() < 2 {\n        this.%s ~mod+= 100\n        return nothing\n    }\n    args.dst.write_u8_fast!(a: (this.%s & 0xFF) as base.u8)\n    if args.sel == 1 {\n        args.dst.write_u8_fast!(a: 0x5A)\n        return nothing\n    }\n    args.src.skip_u32_fast!(actual: 1, worst_case: 1)", f, f, f, f)
	case 1: // two readers and a writer, numeric result
		sig = "src: base.io_reader, aux: base.io_reader, dst: base.io_writer, sel: base.u32"
		body = fmt.Sprintf("    if (args.src.length() < 2) or (args.aux.length() < 1) {\n        return 7\n    }\n    this.%s = (args.src.peek_u16le_as_u32() ~mod* 3) ~mod+ args.aux.peek_u8_as_u32()\n    args.aux.skip_u32_fast!(actual: 1, worst_case: 1)\n    if args.sel == 2 {\n        return this.%s\n    }\n    args.src.skip_u32_fast!(actual: 2, worst_case: 2)\n    if args.dst.length() >= 1 {\n        args.dst.write_u8_fast!(a: (this.%s & 0xFF) as base.u8)\n        return 1\n    }\n    return 0", f, f, f)
	case 2: // two writers
		sig = "dst: base.io_writer, log: base.io_writer, sel: base.u32"
		body = fmt.Sprintf("    if args.dst.length() < 1 {\n        return nothing\n    }\n    args.dst.write_u8_fast!(a: (args.sel & 0xFF) as base.u8)\n    if args.log.length() < 2 {\n        this.%s ~mod+= 1\n        return nothing\n    }\n    args.log.write_u16le_fast!(a: (args.sel & 0xFFFF) as base.u16)\n    if args.sel > 5 {\n        return nothing\n    }\n    this.%s ~mod+= 2", f, f)
	}
	ret := ""
	if v == 1 {
		ret = " base.u32"
	}
	s := &scen{features: []string{"multiple-io-arguments", "explicit-return", "derived-var-write-back"}}
	s.fields = []string{f + " : base.u32"}
	s.methods = []string{
		fmt.Sprintf("pub func obj.%s!(%s)%s {\n%s\n}", m, sig, ret, body),
		fmt.Sprintf("pub func obj.%s() base.u32 {\n    return this.%s\n}", g.n("getmv"), f),
	}
	s.getters = []string{g.n("getmv")}
	s.drive = func(r *rand.Rand) []Call {
		var out []Call
		rd := func(n int) Arg { return Arg{Kind: "reader", Reader: &ReaderOp{Append: randBytes(r, n)}} }
		wr := func(n int) Arg { return Arg{Kind: "writer", Writer: &WriterOp{Grow: n}} }
		for i := 0; i < 14; i++ {
			sel := iarg(uint64(r.Intn(8)))
			switch v {
			case 0:
				out = append(out, Call{Method: m, Args: []Arg{rd(r.Intn(6)), wr(r.Intn(3)), sel}})
			case 1:
				// one shared source buffer for both reader arguments is not what the driver models: it has one source; the aux reader is the same buffer
				return nil
			case 2:
				return nil
			}
		}
		return out
	}
	return s
}

// P-pure: methods without an effect mark must not modify the receiver or any
// buffer reachable through their arguments. The safe form only reads; the
// near-misses try every route to a store or an impure call that the checker
// has to close (direct stores, stores through a local alias of an argument or
// of a field, impure calls in every operand position of an expression).
func init() {
	allFamilies = append(allFamilies, family{"P-pure", 12, famPure})
}

func famPure(g *genctx, v int) *scen {
	m, buf, cnt, adv := g.n("look"), g.n("pbuf"), g.n("pcnt"), g.n("adv")
	body := fmt.Sprintf("    if args.s.length() > 0 {\n        r = (args.s[0] as base.u32) ~mod+ (this.%s[1] as base.u32)\n    }", buf)
	switch v {
	case 1:
		body += fmt.Sprintf("\n    this.%s = 1", cnt)
	case 2:
		body += "\n    if args.s.length() > 0 {\n        args.s[0] = 0xEE\n    }"
	case 3: // through a local alias of the argument
		body += "\n    t = args.s\n    if t.length() > 0 {\n        t[0] = 0xEE\n    }"
	case 4: // impure call in a slice expression's lower bound
		body += fmt.Sprintf("\n    r ~mod+= (this.%s[this.%s!() ..].length() & 0xFF) as base.u32", buf, adv)
	case 5: // ... as an index
		body += fmt.Sprintf("\n    r ~mod+= this.%s[this.%s!()] as base.u32", buf, adv)
	case 6: // ... in the upper bound
		body += fmt.Sprintf("\n    r ~mod+= (this.%s[.. this.%s!()].length() & 0xFF) as base.u32", buf, adv)
	case 7: // ... as an operand
		body += fmt.Sprintf("\n    r ~mod+= (this.%s!() as base.u32) ~mod* 3", adv)
	case 8: // through a local alias of a field
		body += fmt.Sprintf("\n    t = this.%s[..]\n    if t.length() > 0 {\n        t[0] = 0xEE\n    }", buf)
	case 9: // a bulk store into the argument
		body += fmt.Sprintf("\n    args.s.copy_from_slice!(s: this.%s[..])", buf)
	case 10: // compound assignment to a field
		body += fmt.Sprintf("\n    this.%s ~mod+= 1", cnt)
	case 11: // store into an array element of the receiver
		body += fmt.Sprintf("\n    this.%s[0] = 7", buf)
	}
	s := &scen{features: []string{"pure-method", "read-only-views"}}
	s.fields = []string{buf + " : array[8] base.u8", cnt + " : base.u32"}
	s.methods = []string{
		fmt.Sprintf("pri func obj.%s!() base.u8[..= 7] {\n    this.%s ~mod+= 1\n    return (this.%s & 7) as base.u8\n}", adv, cnt, cnt),
		fmt.Sprintf("pub func obj.%s(s: slice base.u8) base.u32 {\n    var r : base.u32\n    var t : slice base.u8\n%s\n    return r\n}", m, body),
		fmt.Sprintf("pub func obj.%s!(x: base.u8) {\n    this.%s[1] = args.x\n    this.%s[0] = args.x ~mod+ 1\n}", g.n("pset"), buf, buf),
		fmt.Sprintf("pub func obj.%s() base.u32 {\n    return this.%s\n}", g.n("getpcnt"), cnt),
	}
	s.getters = []string{g.n("getpcnt")}
	s.drive = func(r *rand.Rand) []Call {
		var out []Call
		for i := 0; i < 6; i++ {
			out = append(out, Call{Method: g.n("pset"), Args: []Arg{iarg(uint64(r.Intn(256)))}})
			out = append(out, Call{Method: m, Args: []Arg{{Kind: "slice", Slice: randBytes(r, r.Intn(10))}}})
		}
		return out
	}
	return s
}

// O-probe: one operator (or numeric built-in) applied to two arguments refined
// to small seeded ranges, evaluated on the corner values of both ranges (all
// pairs when the ranges are short). The interpreter compares every value with
// the bounds the checker derived for the expression node, so a range
// computation that is too narrow for some operand ranges is observed even when
// nothing else goes wrong.
var probeOps = []string{"+", "-", "*", "/", "%", "<<", ">>", "&", "|", "^", "~mod+", "~mod-", "~mod*", "~mod<<", "~sat+", "~sat-", "min", "max", "low_bits", "high_bits", "as-narrow", "unary-",
	// a named 64-bit constant with a small value as the left operand (C literals are 32 bits wide unless cast)
	"const>>", "const~mod<<", "const~mod*", "const~mod+", "const~mod-", "const&", "const|", "const^", "const/", "const%", "const~sat-"}

func init() {
	allFamilies = append(allFamilies, family{"O-probe", len(probeOps), famProbe})
}

func famProbe(g *genctx, v int) *scen {
	op := probeOps[v%len(probeOps)]
	if strings.HasPrefix(op, "const") {
		return famProbeConst(g, strings.TrimPrefix(op, "const"))
	}
	t := g.ityp()
	r := g.r
	pickRange := func(max uint64) (lo, hi uint64) {
		switch r.Intn(5) {
		case 0:
			lo = 0
		case 1:
			lo = max - max/4 - uint64(r.Intn(5))
		default:
			lo = uint64(r.Int63n(int64(max/2 + 1)))
		}
		span := uint64(r.Intn(14)) // mostly short: all pairs are then evaluated
		if r.Intn(4) == 0 {
			span = uint64(r.Int63n(int64(max/2 + 1)))
		}
		hi = lo + span
		if hi > max || hi < lo {
			hi = max
		}
		return
	}
	max := t.max()
	if t.bits == 64 {
		max = 1<<63 - 1 // keep Int63n happy; the top half of u64 is covered by the R-arith family
	}
	xlo, xhi := pickRange(max)
	ylo, yhi := pickRange(max)
	yt := t
	switch op {
	case "<<", ">>", "~mod<<", "low_bits", "high_bits":
		yt = intType{"base.u32", 32}
		ylo, yhi = uint64(r.Intn(t.bits)), 0
		yhi = ylo + uint64(r.Intn(t.bits-int(ylo)))
		if op == "<<" { // keep the product inside the type sometimes
			xhi = xlo + uint64(r.Intn(16))
		}
	case "*":
		xlo, xhi = uint64(r.Intn(30)), 0
		xhi = xlo + uint64(r.Intn(14))
		ylo, yhi = uint64(r.Intn(8)), 0
		yhi = ylo + uint64(r.Intn(5))
	case "+":
		if xhi > max/2 {
			xlo, xhi = xlo/2, xhi/2
		}
		if yhi > max/2 {
			ylo, yhi = ylo/2, yhi/2
		}
	case "-":
		if ylo > xlo { // x - y must not underflow: make y's range sit below x's
			xlo, xhi, ylo, yhi = ylo, yhi, xlo, xhi
		}
		if yhi > xlo {
			yhi = xlo
			if ylo > yhi {
				ylo = yhi
			}
		}
	case "/", "%":
		// a small divisor range and a dividend range at least as long as the
		// largest divisor: every residue, incl. divisor-1, occurs
		ylo = 1 + uint64(r.Intn(9))
		yhi = ylo + uint64(r.Intn(7))
		xhi = xlo + yhi + uint64(r.Intn(4))
		if xhi > max || xhi < xlo {
			xlo, xhi = 0, yhi+3
		}
	}
	expr, rt := fmt.Sprintf("args.x %s args.y", op), t.name
	switch op {
	case "min", "max", "low_bits", "high_bits":
		name := op
		arg := "no_more_than: args.y"
		if op == "max" {
			arg = "no_less_than: args.y"
		}
		if op == "low_bits" || op == "high_bits" {
			arg = "n: args.y"
		}
		expr = fmt.Sprintf("args.x.%s(%s)", name, arg)
	case "as-narrow":
		if t.bits == 8 {
			return nil
		}
		rt = "base.u8"
		if xhi > 255 {
			xlo, xhi = uint64(r.Intn(200)), 0
			xhi = xlo + uint64(r.Intn(int(256-xlo)))
		}
		expr = "((args.x ~mod+ 0) & 0xFF) as base.u8"
		if r.Intn(2) == 0 {
			expr = "args.x as base.u8"
		}
	case "unary-":
		return nil // unsigned types only: unary minus is not accepted
	}
	m := g.n("probe")
	s := &scen{features: []string{"operator-range", op, t.name}}
	s.methods = []string{fmt.Sprintf("pub func obj.%s(x: %s[%d ..= %d], y: %s[%d ..= %d]) %s {\n    return %s\n}", m, t.name, xlo, xhi, yt.name, ylo, yhi, rt, expr)}
	corners := func(lo, hi uint64) []uint64 {
		if hi-lo <= 20 {
			var out []uint64
			for x := lo; ; x++ {
				out = append(out, x)
				if x == hi {
					break
				}
			}
			return out
		}
		out := []uint64{lo, lo + 1, lo + (hi-lo)/2, hi - 1, hi}
		for i := 0; i < 9; i++ {
			out = append(out, lo+uint64(r.Int63n(int64((hi-lo)&(1<<62-1))+1)))
		}
		return out
	}
	xs, ys := corners(xlo, xhi), corners(ylo, yhi)
	s.drive = func(r *rand.Rand) []Call {
		return callsOver(r, m, [][]uint64{xs, ys}, 400)
	}
	return s
}

// F-deep-break: an if-branch (or loop body) that ends in a `while.label true`
// loop whose only exits are labelled breaks out of an inner loop. The branch
// does fall through (via those breaks), so its facts take part in the
// reconciliation after the if and a loop invariant must be re-proven at the
// end of an enclosing body.
func init() {
	allFamilies = append(allFamilies, family{"F-deep-break", 4, famDeepBreak})
}

func famDeepBreak(g *genctx, v int) *scen {
	m, hits := g.n("find"), g.n("hits")
	// i = j can be up to 63: the fact i == 0 of the other branch (v < 2), or the
	// invariant i < 8 (v >= 2), must not be taken to hold afterwards. The safe
	// forms (v == 0, 2) guard the use again / keep the invariant.
	assign := "i = j"
	use := fmt.Sprintf("this.%s[i] ~sat+= 1", hits)
	if v == 0 {
		use = fmt.Sprintf("if i < 8 {\n        this.%s[i] ~sat+= 1\n    }", hits)
	}
	if v == 2 {
		assign = "i = j & 7\n                        assert i < 8 via \"(a & b) < c: b < c\"(b: 7)"
	}
	var body string
	if v < 2 {
		body = fmt.Sprintf(`    if args.enable {
        while.rows true {
            while j < 64,
                    inv true,
            {
                if (j as base.u64) < args.hay.length() {
                    if args.hay[j as base.u64] >= args.lo {
                        %s
                        break.rows
                    }
                }
                j += 1
            }
            n ~mod+= 1
            if n > 3 {
                return 0
            }
            j = 0
        }.rows
    } else {
        this.%s[7] = 9
    }
    %s
    return i`, assign, hits, use)
	} else {
		// the same loop as the last statement of an outer loop body with an invariant on i
		body = fmt.Sprintf(`    while n < 3,
            inv i < 8,
    {
        n += 1
        j = 0
        while.rows true {
            while j < 64,
                    inv true,
            {
                if (j as base.u64) < args.hay.length() {
                    if args.hay[j as base.u64] >= args.lo {
                        %s
                        break.rows
                    }
                }
                j += 1
            }
            return 0
        }.rows
    }
    %s
    return i`, assign, use)
	}
	s := &scen{features: []string{"labelled-break-only-loop", "if-reconcile", "terminates"}}
	s.fields = []string{hits + " : array[8] base.u8"}
	s.methods = []string{fmt.Sprintf("pub func obj.%s!(hay: roslice base.u8, lo: base.u8, enable: base.bool) base.u32 {\n    var i : base.u32\n    var j : base.u32\n    var n : base.u32\n%s\n}", m, body)}
	s.drive = func(r *rand.Rand) []Call {
		var out []Call
		for i := 0; i < 10; i++ {
			hay := make([]byte, 10+r.Intn(50))
			pos := r.Intn(len(hay))
			hay[pos] = 200
			en := uint64(1)
			if i%4 == 3 {
				en = 0
			}
			out = append(out, Call{Method: m, Args: []Arg{{Kind: "slice", Slice: hay}, iarg(100), {Kind: "bool", Int: en}}})
		}
		return out
	}
	return s
}

func famProbeConst(g *genctx, op string) *scen {
	r := g.r
	k := []uint64{1, 0x80, 0xFFFF, 0x8000_0000, 0xFFFF_FFFF, 0x1234_5678, 3}[r.Intn(7)]
	cn := strings.ToUpper(g.n("pk"))
	ylo, yhi := uint64(0), uint64(63)
	yt := "base.u32"
	switch op {
	case ">>", "~mod<<":
		ylo = uint64(r.Intn(40))
		yhi = ylo + uint64(r.Intn(int(64-ylo)))
	case "/", "%":
		yt = "base.u64"
		ylo, yhi = 1+uint64(r.Intn(5)), 0
		yhi = ylo + uint64(r.Intn(12))
	default:
		yt = "base.u64"
		ylo = uint64(r.Int63n(1 << 40))
		yhi = ylo + uint64(r.Intn(12))
	}
	m := g.n("probek")
	s := &scen{features: []string{"operator-range", "named-constant-operand", op}}
	s.consts = []string{fmt.Sprintf("pri const %s : base.u64 = 0x%X", cn, k)}
	s.methods = []string{fmt.Sprintf("pub func obj.%s(y: %s[%d ..= %d]) base.u64 {\n    return %s %s args.y\n}", m, yt, ylo, yhi, cn, op)}
	var ys []uint64
	for y := ylo; ; y++ {
		ys = append(ys, y)
		if y == yhi || len(ys) > 80 {
			break
		}
	}
	s.drive = func(r *rand.Rand) []Call {
		return callsOver(r, m, [][]uint64{ys}, 100)
	}
	return s
}
