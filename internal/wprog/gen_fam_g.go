package wprog

import (
	"fmt"
	"math/rand"
)

// G-families: accepted programs for which the code generator itself emits C
// that is invalid or undefined (each is a known finding on the pinned tree;
// kept as separate families so that the other families stay clean and a new
// occurrence elsewhere still alarms).

func init() {
	allFamilies = append(allFamilies,
		family{"G-sat-small", 1, famGSatSmall},
		family{"G-high-bits-zero", 1, famGHighBitsZero},
		family{"G-refined-arg-result", 1, famGRefinedArgResult},
		family{"G-io-arg-only-in-builtin", 1, famGIOArgOnly},
	)
}

func famGSatSmall(g *genctx, v int) *scen {
	t := intTypes[g.r.Intn(2)]
	m := g.n("sat")
	op := g.picks("~sat+", "~sat-")
	s := &scen{features: []string{"G", op, t.name}}
	s.methods = []string{fmt.Sprintf("pub func obj.%s(x: %s, y: %s) %s {\n    return args.x %s args.y\n}", m, t.name, t.name, t.name, op)}
	s.drive = func(r *rand.Rand) []Call {
		return callsOver(r, m, [][]uint64{{0, 1, t.max() - 1, t.max()}, {0, 1, t.max()}}, 12)
	}
	return s
}

func famGHighBitsZero(g *genctx, v int) *scen {
	t := intTypes[2+g.r.Intn(2)]
	m, a := g.n("hb"), g.n("a")
	s := &scen{features: []string{"G", "high_bits", t.name}}
	s.fields = []string{fmt.Sprintf("%s : array[4] base.u8", a)}
	s.methods = []string{fmt.Sprintf("pub func obj.%s!(x: %s, k: base.u32) base.u8 {\n    this.%s[args.x.high_bits(n: args.k & 1)] = 1\n    return this.%s[0]\n}", m, t.name, a, a)}
	s.drive = func(r *rand.Rand) []Call {
		return callsOver(r, m, [][]uint64{{0, 1, t.max(), t.max() >> 1}, {0, 1, 2}}, 12)
	}
	return s
}

func famGRefinedArgResult(g *genctx, v int) *scen {
	m := g.n("rar")
	s := &scen{features: []string{"G", "refined-arg+result"}}
	s.methods = []string{fmt.Sprintf("pub func obj.%s(x: base.u32[..= 10]) base.u32 {\n    return args.x + 1\n}", m)}
	s.drive = func(r *rand.Rand) []Call {
		return callsOver(r, m, [][]uint64{{0, 10, 11}}, 3)
	}
	return s
}

func famGIOArgOnly(g *genctx, v int) *scen {
	m, f := g.n("cp"), g.n("n")
	s := &scen{coro: true, features: []string{"G", "io-arg-only-in-builtin"}}
	s.fields = []string{f + " : base.u32"}
	s.methods = []string{fmt.Sprintf("pub func obj.%s?(src: base.io_reader, dst: base.io_writer) {\n    this.%s = args.dst.limited_copy_u32_from_reader!(up_to: 4, r: args.src)\n}", m, f)}
	s.drive = func(r *rand.Rand) []Call {
		return feedCalls(r, m, randBytes(r, 6), true, true, 8, nil)[:2]
	}
	return s
}
